/-
  C18 — A failed storage operation can be retried and leaves no trace.   PROPERTY THEOREMS.
  Model: MW.Model.Persist (every wallet operation = ONE db.Update made of storage calls, with its
  volatile side effects and its own repair code);  Spec: MW.Spec.Persist (Coh, KsSeq, attempts).
  All theorems quantify over every call count of every stretch of every operation (so over every
  concrete numbering of the storage calls of the real code) and over every fault index j.
-/
import MW.Lemmas.PersistFault
import MW.Lemmas.PersistCrash
import MW.Lemmas.LedgerConnect
import MW.Lemmas.Deepen3Task
import MW.Lemmas.Deepen3Retry
import MW.Lemmas.Deepen3Ex
namespace MW.Props.C18
open MW MW.Model.Ledger MW.Model.Persist MW.Spec.Persist MW.Lemmas.PersistOp MW.Lemmas.PersistFault MW.Lemmas.PersistCrash

/-- tie B: the Update call-site table of the code is the one the model is built on -/
theorem sites_expected : Gen.Updates.sites = expectedSites := rfl

/-- tie B: the repair branches the model contains are the ones the code has -/
theorem repair_shape : (Gen.Updates.createImportEvictOnFailure && Gen.Updates.removeReloadsOnFailure &&
    Gen.Updates.newAddressHasNoRepair && Gen.Updates.bestBlockOnlyOnSuccess) = true := rfl

-- ------------------------------------------------------------------ P unchanged (all operations)

/-- fault_restores_coh, store part, for EVERY operation built around an Update: whatever fails —
    an injected fault at any call index (begin, any get/put/delete, commit) or an ordinary error —
    the committed store is the one before the operation. -/
theorem fault_keeps_store (o : Op) (f : Option Nat) (P : PStore) (V : PVol)
    (h : (o.run f P V).ok = false) : (o.run f P V).P = P := run_fail_store o f P V h

-- ------------------------------------------------------------------ fault_restores_coh, per operation

/-- block / reorg processing: a failed attempt changes neither store nor volatile state
    (bestBlock, mempool, expiredMempool are only written after the commit) -/
theorem fault_restores_coh_block (env : Env) (n : Nat) (b : Block) (j : Nat) (P : PStore) (V : PVol)
    (hc : Coh env P V) (h : ((opBlock env n b).run (some j) P V).ok = false) :
    ((opBlock env n b).run (some j) P V).P = P ∧ ((opBlock env n b).run (some j) P V).V = V ∧
    Coh env P ((opBlock env n b).run (some j) P V).V := by
  have := block_fail_exact env n b (some j) P V h
  exact ⟨this.1, this.2, by rw [this.2]; exact hc⟩

/-- unconfirmed transaction: same -/
theorem fault_restores_coh_recvTx (env : Env) (nR nW : Nat) (tx : Tx) (j : Nat) (P : PStore) (V : PVol)
    (hc : Coh env P V) (h : (Model.Persist.recvTx env nR nW (some j) tx P V).ok = false) :
    (Model.Persist.recvTx env nR nW (some j) tx P V).P = P ∧ Coh env P (Model.Persist.recvTx env nR nW (some j) tx P V).V := by
  have := recvTx_fault env nR nW tx j P V h
  exact ⟨this.1, by rw [this.2]; exact hc⟩

/-- CreateWallet: the keystore cached by NewKeystore is evicted again — no phantom wallet -/
theorem fault_restores_coh_create (env : Env) (nA nB nC : Nat) (w : Wid) (j : Nat) (P : PStore) (V : PVol)
    (hc : Coh env P V) (h : ((opCreate nA nB nC w).run (some j) P V).ok = false) :
    ((opCreate nA nB nC w).run (some j) P V).P = P ∧ ((opCreate nA nB nC w).run (some j) P V).V = V ∧
    Coh env P ((opCreate nA nB nC w).run (some j) P V).V := by
  have := create_fault_exact nA nB nC w j P V (hc.1.1 w) h
  exact ⟨this.1, this.2, by rw [this.2]; exact hc⟩

/-- NewAddress: the cache may keep the address that was about to be issued (and the next index one
    ahead) — exactly the slack KeyCoh allows; the follower state and the wallet in use are untouched -/
theorem fault_restores_coh_newAddr (env : Env) (nA nB nC : Nat) (stk : Bool) (j : Nat) (P : PStore) (V : PVol)
    (hc : Coh env P V) (h : ((opNewAddr env nA nB nC stk).run (some j) P V).ok = false) :
    ((opNewAddr env nA nB nC stk).run (some j) P V).P = P ∧
    Coh env P ((opNewAddr env nA nB nC stk).run (some j) P V).V := by
  have := newAddr_fault_coh env nA nB nC stk j P V hc.1 h
  exact ⟨this.1, this.2.1, bestInv_of_led P V _ this.2.2.1 hc.2⟩

/-- RemoveWallet (marking): exact -/
theorem fault_restores_coh_removeMark (env : Env) (n : Nat) (w : Wid) (j : Nat) (P : PStore) (V : PVol)
    (hc : Coh env P V) (h : ((opRemoveMark n w).run (some j) P V).ok = false) :
    ((opRemoveMark n w).run (some j) P V).P = P ∧ Coh env P ((opRemoveMark n w).run (some j) P V).V := by
  have := removeMark_fail_exact n w (some j) P V h
  exact ⟨this.1, by rw [this.2]; exact hc⟩

/-- the final removal transaction (wallet indexes, status, keystore): DeleteKeystore drops the cache entry inside the transaction; after the failed
    commit UpdateManagedKeystores reloads it from the store -/
theorem fault_restores_coh_removeFinal (env : Env) (nI nA nB : Nat) (w : Wid) (j : Nat) (P : PStore) (V : PVol)
    (hc : Coh env P V) (h : ((opRemoveFinal nI nA nB w).run (some j) P V).ok = false) :
    ((opRemoveFinal nI nA nB w).run (some j) P V).P = P ∧ Coh env P ((opRemoveFinal nI nA nB w).run (some j) P V).V := by
  have := removeFinal_fault_coh env nI nA nB w j P V hc.1 h
  exact ⟨this.1, this.2.1, bestInv_of_led P V _ this.2.2 hc.2⟩

-- ------------------------------------------------------------------ every repetition of the fault

/-- the same operation failing any number of times, each time at any call index, keeps Coh
    (stated for an arbitrary operation whose single failed attempt keeps Coh — instantiated below) -/
theorem faults_restore_coh (env : Env) (o : Op) (P : PStore)
    (hstep : ∀ j V, Coh env P V → (o.run (some j) P V).ok = false → Coh env P (o.run (some j) P V).V)
    (js : List Nat) (V : PVol) (hc : Coh env P V) (hf : allFail o js P V = true) :
    Coh env P (attempts o js P V) :=
  attempts_inv o P (Coh env P) hstep js V hc hf

theorem faults_restore_coh_newAddr (env : Env) (nA nB nC : Nat) (stk : Bool) (P : PStore)
    (js : List Nat) (V : PVol) (hc : Coh env P V) (hf : allFail (opNewAddr env nA nB nC stk) js P V = true) :
    Coh env P (attempts (opNewAddr env nA nB nC stk) js P V) :=
  faults_restore_coh env _ P (fun j V hc h => (fault_restores_coh_newAddr env nA nB nC stk j P V hc h).2) js V hc hf

theorem faults_restore_coh_removeFinal (env : Env) (nI nA nB : Nat) (w : Wid) (P : PStore)
    (js : List Nat) (V : PVol) (hc : Coh env P V) (hf : allFail (opRemoveFinal nI nA nB w) js P V = true) :
    Coh env P (attempts (opRemoveFinal nI nA nB w) js P V) :=
  faults_restore_coh env _ P (fun j V hc h => (fault_restores_coh_removeFinal env nI nA nB w j P V hc h).2) js V hc hf

-- ------------------------------------------------------------------ retry_equiv

/-- block / reorg: after any number of failed attempts the retry IS the fault-free run — no lost and
    no doubly applied block -/
theorem retry_equiv_block (env : Env) (n : Nat) (b : Block) (P : PStore) (js : List Nat) (V : PVol)
    (hc : Coh env P V) (hf : allFail (opBlock env n b) js P V = true) :
    (opBlock env n b).run none P (attempts (opBlock env n b) js P V) = (opBlock env n b).run none P V := by
  have hinv := attempts_inv (opBlock env n b) P (fun V' => V' = V)
    (fun j V' hv h => by subst hv; exact (fault_restores_coh_block env n b j P V' hc h).2.1) js V rfl hf
  rw [hinv]

/-- CreateWallet: same — no phantom and no duplicate wallet -/
theorem retry_equiv_create (env : Env) (nA nB nC : Nat) (w : Wid) (P : PStore) (js : List Nat) (V : PVol)
    (hc : Coh env P V) (hf : allFail (opCreate nA nB nC w) js P V = true) :
    (opCreate nA nB nC w).run none P (attempts (opCreate nA nB nC w) js P V) = (opCreate nA nB nC w).run none P V := by
  have hinv := attempts_inv (opCreate nA nB nC w) P (fun V' => V' = V)
    (fun j V' hv h => by subst hv; exact (fault_restores_coh_create env nA nB nC w j P V' hc h).2.1) js V rfl hf
  rw [hinv]

/-- NewAddress: after any number of failed attempts the retry commits exactly the store of the
    fault-free run (the SAME index and address: the index is read from the store, not the cache),
    the cached record of the wallet in use has the stored next index and the address set
    “cached ∪ {issued}”, and the index sequence stays gap-free and duplicate-free. -/
theorem retry_equiv_newAddr (env : Env) (nA nB nC : Nat) (stk : Bool) (P : PStore) (js : List Nat) (V : PVol)
    (w : Wid) (r c : KsRec) (hcur : V.cur = some w) (hr : AMap.get P.ks w = some r) (hk : AMap.get V.keys w = some c)
    (hc : Coh env P V) (hs : KsSeq P) (hf : allFail (opNewAddr env nA nB nC stk) js P V = true) :
    let V' := attempts (opNewAddr env nA nB nC stk) js P V
    ((opNewAddr env nA nB nC stk).run none P V').ok = true ∧
    ((opNewAddr env nA nB nC stk).run none P V').P = ((opNewAddr env nA nB nC stk).run none P V).P ∧
    KsSeq ((opNewAddr env nA nB nC stk).run none P V').P ∧
    (∃ c', AMap.get ((opNewAddr env nA nB nC stk).run none P V').V.keys w = some c' ∧ c'.next = r.next + 1 ∧
       c'.addrs = insertAddr r.addrs (r.next, env.derive w r.next)) := by
  intro V'
  -- the failed attempts keep Coh, the follower part and the wallet in use
  have hinv := attempts_inv (opNewAddr env nA nB nC stk) P (fun X => Coh env P X ∧ X.cur = V.cur)
    (fun j X hx h => by
      have := newAddr_fault_coh env nA nB nC stk j P X hx.1.1 h
      exact ⟨⟨this.2.1, bestInv_of_led P X _ this.2.2.1 hx.1.2⟩, this.2.2.2.trans hx.2⟩) js V ⟨hc, rfl⟩ hf
  have hcur' : V'.cur = some w := hinv.2.trans hcur
  have hsome : (AMap.get V'.keys w).isSome = true := by rw [hinv.1.1.1 w, hr]; rfl
  cases hk' : AMap.get V'.keys w with
  | none => rw [hk'] at hsome; simp at hsome
  | some c2 =>
    have n1 := newAddr_none env nA nB nC stk P V' w r c2 hcur' hr hk'
    have n0 := newAddr_none env nA nB nC stk P V w r c hcur hr hk
    refine ⟨n1.1, n1.2.1.trans n0.2.1.symm, newAddr_ksSeq env nA nB nC stk P V' w r c2 hcur' hr hk' hs, ?_⟩
    refine ⟨_, n1.2.2, rfl, ?_⟩
    rcases (hinv.1.1.2 w r c2 hr hk').1 with e | e
    · simp [e]
    · simp [e, insertAddr_idem]

/-- retry_equiv for the follower's OWN retry: the notification of block `b` (which extends the tip)
    failed — by `fault_restores_coh_block` store and volatile state are what they were —, the node
    goes on, and the NEXT notification `b2` (child of `b`) takes the reorganisation path: nothing is
    disconnected, `b` and `b2` are connected in one batch, and the result is exactly the state of the
    fault-free sequence `b`, `b2` (same store, same tip copy, same pending-id / expiry maps): no lost
    and no doubly applied block. Partial in one hypothesis: `hready` — connecting `b` does not change
    which wallets are ready (filterBlock never writes the wallet status; not proved here because it
    needs invariants through all loops of AddRelevantTx). If `b2` itself fails in the sequence, the
    batch of the retry fails as a whole (then also `b` is not applied) and the following notification
    retries again. -/
theorem retry_equiv_follower_partial (env : Env) (n : Nat) (b b2 xb : Block) (P : PStore) (V : PVol)
    (hb : env.node.fetchBlock b2.prev = some b) (hx : env.node.fetchBlock b.prev = some xb)
    (hp : b.prev = V.led.best.hash) (hne : b.id ≠ V.led.best.hash)
    (hh2 : b2.height = V.led.best.height + 2) (hh1 : b.height = V.led.best.height + 1)
    (hhx : xb.height = V.led.best.height)
    (hready : ∀ s1 c1, filterBlock (ctxOf env V) P.led (readyWallets P.led (ctxOf env V).wallets) b = .ok (s1, c1) →
        readyWallets s1 (ctxOf env V).wallets = readyWallets P.led (ctxOf env V).wallets)
    (hok : ((opBlock env n b).run none P V).ok = true)
    (hok2 : ((opBlock env n b2).run none ((opBlock env n b).run none P V).P ((opBlock env n b).run none P V).V).ok = true) :
    (opBlock env n b2).run none P V =
      (opBlock env n b2).run none ((opBlock env n b).run none P V).P ((opBlock env n b).run none P V).V :=
  follower_retry env n b b2 xb P V hb hx hp hne hh2 hh1 hhx hready hok hok2

/-- retry_equiv for the follower's own retry WITHOUT the `hready` hypothesis, for a store that holds the
    books of the chain below `b` (C01's `Inv`, every address owner ready): the status frame
    `s'.status = s.status` of `connect_sound` (MW.Lemmas.Ledger) discharges it. -/
theorem retry_equiv_follower (env : Env) (n : Nat) (b b2 xb : Block) (P : PStore) (V : PVol)
    (chain rest : List Block)
    (hI : Lemmas.Ledger.Inv (ctxOf env V) P.led chain) (hnode : env.node.chain = chain ++ b :: rest)
    (hvalid : Lemmas.Ledger.ChainValid (ctxOf env V).own env.node.chain) (hheight : b.height = chain.length)
    (hAR : Lemmas.Ledger.AllReady (ctxOf env V).own (readyWallets P.led (ctxOf env V).wallets))
    (hne : (readyWallets P.led (ctxOf env V).wallets).isEmpty = false)
    (hb : env.node.fetchBlock b2.prev = some b) (hx : env.node.fetchBlock b.prev = some xb)
    (hp : b.prev = V.led.best.hash) (hneq : b.id ≠ V.led.best.hash)
    (hh2 : b2.height = V.led.best.height + 2) (hh1 : b.height = V.led.best.height + 1)
    (hhx : xb.height = V.led.best.height)
    (hok : ((opBlock env n b).run none P V).ok = true)
    (hok2 : ((opBlock env n b2).run none ((opBlock env n b).run none P V).P ((opBlock env n b).run none P V).V).ok = true) :
    (opBlock env n b2).run none P V =
      (opBlock env n b2).run none ((opBlock env n b).run none P V).P ((opBlock env n b).run none P V).V := by
  refine follower_retry env n b b2 xb P V hb hx hp hneq hh2 hh1 hhx ?_ hok hok2
  intro s1 c1 hf
  obtain ⟨s', conf, h1, _, hst⟩ :=
    Lemmas.Ledger.connect_sound (c := ctxOf env V) hI hnode hvalid hheight hAR hne
  rw [hf] at h1
  cases h1
  exact Lemmas.Ledger.readyWallets_congr hst _

/-- no skipped or duplicated address index: NewAddress keeps every wallet's indexes 0 … next−1 -/
theorem newAddr_no_skipped_or_duplicated_index (env : Env) (nA nB nC : Nat) (stk : Bool) (P : PStore) (V : PVol)
    (w : Wid) (r c : KsRec) (hcur : V.cur = some w) (hr : AMap.get P.ks w = some r) (hk : AMap.get V.keys w = some c)
    (hs : KsSeq P) : KsSeq ((opNewAddr env nA nB nC stk).run none P V).P :=
  newAddr_ksSeq env nA nB nC stk P V w r c hcur hr hk hs

-- ------------------------------------------------------------------ ROUND 3: import batch and removal iteration

/-- fault_restores_coh for one batch of asyncImport (`Lemmas.Deepen3.opImportStep`: ONE Update whose ledger effect
    is C07's `Model.Import.importStep`; the expired-mempool map is only updated after the commit): whatever fails
    — a fault at any call index or an ordinary error of the batch (continuable, revoked, credit not found) — store
    AND volatile state are exactly what they were -/
theorem fault_restores_exact_importStep (batch n : Nat) (env : Env) (w : Wid) (f : Option Nat) (P : PStore) (V : PVol)
    (h : ((Lemmas.Deepen3.opImportStep batch n env w).run f P V).ok = false) :
    ((Lemmas.Deepen3.opImportStep batch n env w).run f P V).P = P ∧
    ((Lemmas.Deepen3.opImportStep batch n env w).run f P V).V = V :=
  Lemmas.Deepen3.importStep_fail_exact batch n env w f P V h

/-- retry_equiv, import batch: after any number of failed attempts the retry IS the fault-free batch (equal `Res`:
    no transaction of the range recorded twice, none lost, the cursor moved once) -/
theorem retry_equiv_importStep (batch n : Nat) (env : Env) (w : Wid) (P : PStore) (js : List Nat) (V : PVol)
    (hf : allFail (Lemmas.Deepen3.opImportStep batch n env w) js P V = true) :
    (Lemmas.Deepen3.opImportStep batch n env w).run none P (attempts (Lemmas.Deepen3.opImportStep batch n env w) js P V) =
      (Lemmas.Deepen3.opImportStep batch n env w).run none P V :=
  Lemmas.Deepen3.importStep_retry batch n env w P js V hf

/-- fault_restores_coh for one iteration of asyncRemove (`Lemmas.Deepen3.opRemoveStep`: ONE Update = C08's
    `Model.Remove.removeStep` + DeleteKeystore with its cache eviction INSIDE the transaction + the repair
    UpdateManagedKeystores): the store is unchanged; the volatile state is unchanged too unless the iteration was
    the finishing one and the fault hit the commit — then the evicted cache entry has been reloaded from the store
    (`reloaded`: same map, the wallet in use reset) -/
theorem fault_restores_coh_removeStep (limit nR : Nat) (env : Env) (w : Wid) (addrs : List Addr) (j : Nat) (P : PStore)
    (V : PVol) (r : KsRec) (hr : AMap.get P.ks w = some r) (hk : AMap.get V.keys w = some r)
    (h : ((Lemmas.Deepen3.opRemoveStep limit nR env w addrs).run (some j) P V).ok = false) :
    ((Lemmas.Deepen3.opRemoveStep limit nR env w addrs).run (some j) P V).P = P ∧
    (((Lemmas.Deepen3.opRemoveStep limit nR env w addrs).run (some j) P V).V = V ∨
     (∃ o, Model.Remove.removeStep limit (ctxOf env V) w addrs P.led = some o ∧ o.finish = true ∧
        ((Lemmas.Deepen3.opRemoveStep limit nR env w addrs).run (some j) P V).V = Lemmas.Deepen3.reloaded V w r)) :=
  Lemmas.Deepen3.removeStep_fault limit nR env w addrs j P V r hr hk h

/-- retry_equiv, removal iteration: after any number of failed attempts the retry IS the fault-free iteration
    (equal `Res`): no credit of the wallet deleted twice or skipped, the keystore deleted exactly when the step
    finishes. Uses that the removal step reads the keystore view only through lookups (`removeStep_ctx_congr`):
    the reloaded cache entry sits elsewhere in the association list (a Go map has no order) and reads the same
    (`reload_view`; needs distinct wallet ids and distinct addresses in the cache). -/
theorem retry_equiv_removeStep (limit nR : Nat) (env : Env) (w : Wid) (addrs : List Addr) (P : PStore)
    (js : List Nat) (V : PVol) (r : KsRec) (hr : AMap.get P.ks w = some r) (hk : AMap.get V.keys w = some r)
    (hnw : (walletsOf V.keys).Nodup) (hna : ((ownOf V.keys).map (·.1)).Nodup)
    (hf : allFail (Lemmas.Deepen3.opRemoveStep limit nR env w addrs) js P V = true) :
    (Lemmas.Deepen3.opRemoveStep limit nR env w addrs).run none P
        (attempts (Lemmas.Deepen3.opRemoveStep limit nR env w addrs) js P V) =
      (Lemmas.Deepen3.opRemoveStep limit nR env w addrs).run none P V :=
  Lemmas.Deepen3.removeStep_retry limit nR env w addrs P js V r hr hk hnw hna hf

open MW.Lemmas.Deepen3 in
/-- retry_equiv for the follower's own retry over ANY gap (what `retry_equiv_follower` proves for one missed block
    with exact equality): the wallet holds the books of the node's chain up to height `h` (`SInv`); the
    notifications of blocks `h+1 … h+k` failed (fault at any call index: nothing changed — `fault_restores_coh_block`);
    the notification of block `h+k+1` ALONE succeeds (reorganisation path: nothing disconnected, all `k+1` blocks
    connected in one batch) and reaches the books of the chain up to it — as does the fault-free sequence of the
    `k+1` notifications (`notifySeq`); confirmed buckets extensionally equal, same synced-to and tip copy -/
theorem retry_equiv_follower_gap {st : Static} {G : Block} (E : StaticOK st G) {ks : AMap.T Wid KsRec} {chain : List Block}
    (hN : Lemmas.Ledger.ChainOK (lenv st ks) G chain) {s0 : Store}
    (hAR : Lemmas.Ledger.AllReady (ownOf ks) (readyWallets s0 (walletsOf ks)))
    (hne : (readyWallets s0 (walletsOf ks)).isEmpty = false)
    (n : Nat) {h : Nat} {P : PStore} {V : PVol} (hS : SInv st ks chain s0 h P V) (k : Nat) (b : Block)
    (hb : chain[h + (k + 1)]? = some b) :
    ((opBlock (envAt st chain) n b).run none P V).ok = true ∧
    SInv st ks chain s0 (h + (k + 1)) ((opBlock (envAt st chain) n b).run none P V).P
      ((opBlock (envAt st chain) n b).run none P V).V ∧
    SInv st ks chain s0 (h + (k + 1)) (notifySeq st n chain (List.range' (h + 1) (k + 1)) (P, V)).1
      (notifySeq st n chain (List.range' (h + 1) (k + 1)) (P, V)).2 ∧
    AMap.Equiv ((opBlock (envAt st chain) n b).run none P V).P.led.credits
      (notifySeq st n chain (List.range' (h + 1) (k + 1)) (P, V)).1.led.credits ∧
    AMap.Equiv ((opBlock (envAt st chain) n b).run none P V).P.led.unspent
      (notifySeq st n chain (List.range' (h + 1) (k + 1)) (P, V)).1.led.unspent ∧
    ((opBlock (envAt st chain) n b).run none P V).P.led.syncedTo =
      (notifySeq st n chain (List.range' (h + 1) (k + 1)) (P, V)).1.led.syncedTo ∧
    ((opBlock (envAt st chain) n b).run none P V).V.led.best =
      (notifySeq st n chain (List.range' (h + 1) (k + 1)) (P, V)).2.led.best := by
  have := follower_retry_gap E hN hAR hne n hS k b hb
  exact ⟨this.1, this.2.1, this.2.2.1, this.2.2.2.1, this.2.2.2.2.1, this.2.2.2.2.2.2.2.2.2.2.1, this.2.2.2.2.2.2.2.2.2.2.2⟩

-- ------------------------------------------------------------------ non-vacuity

def env0 : Env := {}
def P1 : PStore := ((opCreate 3 1 1 "W1").run none {} {}).P
def V1 : PVol := { ((opCreate 3 1 1 "W1").run none {} {}).V with cur := some "W1" }

/-- the hypotheses are satisfiable: a fresh wallet is coherent, its index sequence is gap-free … -/
example : Coh env0 {} {} := by
  refine ⟨⟨fun w => rfl, fun w r c h => by simp [AMap.get] at h⟩, rfl, rfl⟩
example : AMap.get P1.ks "W1" = some {} ∧ AMap.get V1.keys "W1" = some {} ∧ V1.cur = some "W1" := by decide
example : KsSeq P1 := by
  intro w r h
  have : P1.ks = [("W1", {})] := by decide
  rw [this] at h
  by_cases hw : "W1" = w
  · subst hw; simp [AMap.get] at h; subst h; rfl
  · simp [AMap.get, hw] at h
/-- … and faults are really hit: NewAddress with the commit (call 7) failing reports failure, keeps the
    store, leaves the not-yet-issued address cached; the retry issues index 0 -/
example : ((opNewAddr env0 2 2 2 false).run (some 7) P1 V1).ok = false := by decide
example : (((opNewAddr env0 2 2 2 false).run (some 7) P1 V1).V.keys) = [("W1", { next := 1, addrs := [(0, "W1/0")] })] := by decide
example : allFail (opNewAddr env0 2 2 2 false) [7, 3, 0] P1 V1 = true := by decide
example : ((opCreate 3 1 1 "W2").run (some 4) P1 V1).ok = false ∧ ((opCreate 3 1 1 "W2").run (some 4) P1 V1).V.keys = V1.keys := by decide

/-- the hypotheses of `retry_equiv_follower_partial` are satisfiable (chain G ← B1 ← B2, wallet at G) -/
def g0 : Block := ⟨"G", "", 0, []⟩
def bb1 : Block := ⟨"B1", "G", 1, []⟩
def bb2 : Block := ⟨"B2", "B1", 2, []⟩
def envN : Env := { node := { chain := [g0, bb1, bb2], known := [("G", g0), ("B1", bb1), ("B2", bb2)] } }
example : envN.node.fetchBlock bb2.prev = some bb1 := rfl
example : envN.node.fetchBlock bb1.prev = some g0 := rfl
example : bb1.prev = ({} : PVol).led.best.hash ∧ bb1.id ≠ ({} : PVol).led.best.hash ∧
    ((opBlock envN 3 bb1).run none {} {}).ok = true ∧
    ((opBlock envN 3 bb2).run none ((opBlock envN 3 bb1).run none {} {}).P ((opBlock envN 3 bb1).run none {} {}).V).ok = true ∧
    ((opBlock envN 3 bb2).run none {} {}).P.led.syncedTo = 2 := by decide
example : ∀ s1 c1, filterBlock (ctxOf envN {}) ({} : PStore).led (readyWallets ({} : PStore).led (ctxOf envN {}).wallets) bb1 = .ok (s1, c1) →
    readyWallets s1 (ctxOf envN {}).wallets = readyWallets ({} : PStore).led (ctxOf envN {}).wallets := by
  intro s1 c1 _; rfl


/-- ROUND 3 — the hypotheses of `retry_equiv_removeStep` are satisfiable and the interesting case is hit: wallet W1
    flagged for removal, the FINISHING iteration with the commit (call 3) failing evicts and reloads the cache entry
    and resets the wallet in use; after three failed attempts the retry finishes the removal -/
def P2 : PStore := ((opRemoveMark 1 "W1").run none P1 V1).P
def V2 : PVol := ((opRemoveMark 1 "W1").run none P1 V1).V
example : AMap.get P2.ks "W1" = some {} ∧ AMap.get V2.keys "W1" = some {} ∧ V2.cur = some "W1" ∧
    (walletsOf V2.keys).Nodup ∧ ((ownOf V2.keys).map (·.1)).Nodup := by decide
example : allFail (Lemmas.Deepen3.opRemoveStep 10 2 env0 "W1" []) [3, 0, 3] P2 V2 = true := by decide
example : ((Lemmas.Deepen3.opRemoveStep 10 2 env0 "W1" []).run (some 3) P2 V2).V.cur = none ∧
    ((Lemmas.Deepen3.opRemoveStep 10 2 env0 "W1" []).run (some 3) P2 V2).V.keys = [("W1", {})] ∧
    ((Lemmas.Deepen3.opRemoveStep 10 2 env0 "W1" []).run (some 3) P2 V2).P.ks = [("W1", {})] := by decide
example : ((Lemmas.Deepen3.opRemoveStep 10 2 env0 "W1" []).run none P2 V2).ok = true ∧
    ((Lemmas.Deepen3.opRemoveStep 10 2 env0 "W1" []).run none P2 V2).P.ks = [] ∧
    ((Lemmas.Deepen3.opRemoveStep 10 2 env0 "W1" []).run none P2 V2).P.led.status = [] ∧
    ((Lemmas.Deepen3.opRemoveStep 10 2 env0 "W1" []).run none P2 V2).V.keys = [] := by decide

/-- … and of `retry_equiv_importStep`: an importing wallet (cursor 0) on the chain G ← B1 ← B2, follower at B2;
    faults at BeginTx, inside the batch and at the commit; the retry makes the wallet ready -/
def P3 : PStore :=
  { led := { sync := [(2, "B2"), (1, "B1"), (0, "G")], syncedTo := 2, status := [("W9", ⟨some 0, false⟩)],
             balance := [("W9", 0)] },
    ks := [("W9", { next := 1, addrs := [(0, "a9")] })] }
def V3 : PVol := { led := { best := ⟨2, "B2"⟩ }, keys := P3.ks }
example : allFail (Lemmas.Deepen3.opImportStep 1000 2 envN "W9") [0, 2, 3] P3 V3 = true := by decide
example : ((Lemmas.Deepen3.opImportStep 1000 2 envN "W9").run none P3 V3).ok = true ∧
    ((Lemmas.Deepen3.opImportStep 1000 2 envN "W9").run none P3 V3).P.led.status = [("W9", ⟨none, false⟩)] := by decide


/-- ROUND 3 — the hypotheses of `retry_equiv_follower_gap` are satisfiable: wallet w1 at genesis of G–b1–d2 (books of
    `chain.take 1`), the notification of b1 was lost, the notification of d2 alone connects b1 and d2 -/
theorem gapSInv : Lemmas.Deepen3.SInv Lemmas.Deepen3.exSt Lemmas.Deepen3.exKs0
    [Lemmas.Ledger.hxG, Lemmas.Ledger.hxB1, Lemmas.Ledger.ixD2] Lemmas.Ledger.obS0 0 Lemmas.Deepen3.exX0.P
    Lemmas.Deepen3.exX0.V :=
  ⟨rfl, rfl, (Lemmas.Ledger.inv_env_chain (Lemmas.Deepen3.lenv Lemmas.Deepen3.exSt Lemmas.Deepen3.exKs0) _ _).1 Lemmas.Deepen3.exInv0, rfl, by decide, fun _ => rfl⟩
example : ((opBlock (Lemmas.Deepen3.envAt Lemmas.Deepen3.exSt [Lemmas.Ledger.hxG, Lemmas.Ledger.hxB1, Lemmas.Ledger.ixD2]) 1
    Lemmas.Ledger.ixD2).run none Lemmas.Deepen3.exX0.P Lemmas.Deepen3.exX0.V).ok = true :=
  (retry_equiv_follower_gap Lemmas.Deepen3.exStaticOK
    (Lemmas.Deepen3.exOK Lemmas.Deepen3.exKs0 Lemmas.Ledger.ixD2 (Or.inl rfl) Lemmas.Deepen3.exValid0)
    Lemmas.Deepen3.exAllReady0 (by decide) 1 gapSInv 1 Lemmas.Ledger.ixD2 rfl).1

end MW.Props.C18
