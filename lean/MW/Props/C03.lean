/-
  C03 — Signing yields valid witnesses, alters nothing else, needs the right passphrase.
  PROPERTY THEOREMS about MW.Model.Sign (signWitnessTx over abstract Crypto / Engine; helper lemmas in
  MW/Lemmas/Sign.lean).  Every theorem holds for ALL structures `C : Crypto`, `E : Engine C A` – ECDSA,
  the KDF and the script VM enter only through their laws (`verify_sign`, `kdf_correct`, `p2wsh`); the toy
  instances at the end show the laws are satisfiable and the hypotheses non-vacuous.
  PARTIAL by design (DESIGN.md §6 C03): the script VM and ECDSA are hypotheses, not models; the real
  engine / real signatures are compared on every run by the harness (independent engine run + btcec).
-/
import MW.Model.Sign
import MW.Gen.Sec
import MW.Lemmas.Sign
import MW.Lemmas.SignOrder
import MW.Lemmas.SignVM
import MW.Lemmas.SignVMEx
import MW.Lemmas.SignSeq
import MW.Lemmas.SignSound
import MW.Model.SignTab
namespace MW.Props.C03
open MW.Model.Sign MW.Lemmas.Sign

variable {C : Crypto} {A : Type}

/-- sign_only_witness: whatever signTx returns equals its argument on every field except the witnesses
    (version, lock time, payload, every outpoint and sequence, every output) -/
theorem sign_only_witness (E : Engine C A) (env : Env C A) (L : Lock C) (p : C.Pass) (fl : Flag)
    (tx tx' : Tx (Witness C)) (h : (signTx E env L p fl tx).2 = .ok tx') : tx'.strip = tx.strip :=
  signTx_strip h

/-- sign_checked: success implies that for EVERY input the engine accepted the returned witness against
    the output it spends (the code runs the engine itself and propagates its error) -/
theorem sign_checked (E : Engine C A) (env : Env C A) (L : Lock C) (p : C.Pass) (fl : Flag)
    (tx tx' : Tx (Witness C)) (h : (signTx E env L p fl tx).2 = .ok tx') :
    ∀ (j : Nat) (inp : TxIn (Witness C)), tx.ins[j]? = some inp →
      ∃ po inp', env.resolve inp.prev = .ok po ∧ tx'.ins[j]? = some inp' ∧ E.ok po tx'.strip j inp'.wit = true := by
  intro j inp hj
  rw [signTx_strip h]
  unfold signTx at h
  dsimp only at h
  split at h
  · rename_i ins hl
    simp at h
    subst h
    obtain ⟨po, inp', h1, h2, h3⟩ := signLoop_checked _ _ _ _ hl j inp hj
    exact ⟨po, inp', h1, h2, by simpa using h3⟩
  · simp at h

/-- sign_complete_partial: a transaction all of whose inputs spend 1-of-1 template outputs (standard,
    staking, binding; mined or pending – whatever `resolve` finds) of addresses of the selected keystore,
    with the sequence rule of each class met and, for SIGHASH_SINGLE, an output for every input, is signed
    successfully under ALL SIX flags with the keystore's passphrase – from any consistent lock state.
    Hypotheses inside `Signable`: C04's key/address agreement (`pkOf sk = pk`, `hashOf pk = addr`); laws used:
    `verify_sign`, `kdf_correct`, `p2wsh`.  PARTIAL: the script VM and ECDSA are those laws, not models. -/
theorem sign_complete_partial (E : Engine C A) (env : Env C A) (pass : C.Pass) (hp : env.params = C.params pass)
    (L : Lock C) (hL : LockCons pass L) (fl : Flag) (tx : Tx (Witness C)) (hs : Signable E env fl tx) :
    ∃ tx', (signTx E env L pass fl tx).2 = .ok tx' ∧ tx'.strip = tx.strip := by
  obtain ⟨tx', h⟩ := signTx_complete hp hL hs
  exact ⟨tx', h, signTx_strip h⟩

/-- the full-strength statement as it was written down in round 1 (kept verbatim).  Round 4: it is FALSE as
    stated – it forgets C04's key/address agreement (`pkOf sk = pk`, `hashOf pk = addr`), without which the engine
    rightly refuses the witness: `C03_full_sign_complete_too_strong` below is the counterexample.  The statement with
    that hypothesis and with the script VM MODEL in place of the `Engine` law is the theorem `sign_complete_vm`. -/
def C03_full_sign_complete : Prop :=
  ∀ (C : Crypto) (A : Type) (E : Engine C A) (env : Env C A) (pass : C.Pass), env.params = C.params pass →
    ∀ (fl : Flag) (tx : Tx (Witness C)),
      (∀ inp ∈ tx.ins, ∃ po, env.resolve inp.prev = .ok po ∧ po.cls ≠ .other ∧ seqOk po.cls inp.seq = true ∧
          (env.pubOf po.addr).isSome ∧ (env.skOf po.addr).isSome) →
      (fl.base = .single → tx.ins.length ≤ tx.outs.length) →
      ∃ tx', (signTx E env (Lock.locked C) pass fl tx).2 = .ok tx'

/-- pass_gate: over ALL interleavings of signing attempts on one keystore (any passphrases, flags,
    transactions; starting from any consistent lock state), for the j-th attempt (p, fl, tx):
      * p = pass and tx signable        ⇒ it succeeds and only witnesses differ;
      * p ≠ pass and input 0 needs a signature ⇒ it FAILS: no transaction, no signature is returned;
      * p ≠ pass and tx signable        ⇒ the failure is the passphrase error;
    and the keystore is locked again after every attempt (the lock returned by signTx). -/
theorem pass_gate (E : Engine C A) (env : Env C A) (pass : C.Pass) (hp : env.params = C.params pass)
    (L₀ : Lock C) (hL₀ : LockCons pass L₀) (as : List (C.Pass × Flag × Tx (Witness C)))
    (j : Nat) (p : C.Pass) (fl : Flag) (tx : Tx (Witness C)) (hj : as[j]? = some (p, fl, tx)) :
    ∃ r, (attempts E env L₀ as)[j]? = some r ∧
      (p = pass → Signable E env fl tx → ∃ tx', r = .ok tx' ∧ tx'.strip = tx.strip) ∧
      (p ≠ pass → FirstSigned fl tx → ∃ e, r = .error e) ∧
      (p ≠ pass → Signable E env fl tx → tx.ins ≠ [] → r = .error .pass) := by
  obtain ⟨Lj, hLj, hget⟩ := attempts_get (E := E) (env := env) as L₀ hL₀ j p fl tx hj
  refine ⟨_, hget, ?_, ?_, ?_⟩
  · rintro rfl hs
    obtain ⟨tx', h⟩ := signTx_complete hp hLj hs
    exact ⟨tx', h, signTx_strip h⟩
  · intro hne hf
    exact signTx_wrong hp hLj hne hf
  · intro hne hs hne0
    exact signTx_wrong_signable hp hLj hne hs hne0

/-- after every signing call – successful or not – the keystore is locked (deferred ClearPrivKey) -/
theorem sign_leaves_locked (E : Engine C A) (env : Env C A) (L : Lock C) (p : C.Pass) (fl : Flag)
    (tx : Tx (Witness C)) : (signTx E env L p fl tx).1 = Lock.locked C := rfl

/-- a refused attempt does not even depend on what the transaction looks like beyond input 0: with a wrong
    passphrase NO lock state consistent with the keystore lets a signature out -/
theorem wrong_pass_no_signature (E : Engine C A) (env : Env C A) (pass : C.Pass) (hp : env.params = C.params pass)
    (L : Lock C) (hL : LockCons pass L) (p : C.Pass) (hne : p ≠ pass) (stx : STx) (i : Nat) (fl : Flag)
    (po : PrevOut A) : ∃ e, signOne E env L p stx i fl po = .error e :=
  signOne_wrong hp hL hne stx i fl po

/-- wrong_pass_error_class (round 5): ORDER of the passphrase check and the input resolution.  With a wrong passphrase, from
    any consistent lock state, a transaction whose input 0 needs a signature fails in the FIRST iteration of the loop, with
    the error read off input 0 alone (`wrongErr`: the resolution error of input 0 if it does not resolve - unknown, foreign,
    spent, bad index -, else script / key for a non-template or foreign-keystore output, else the passphrase error); inputs
    1.. are never looked at, in particular an unresolvable input BEHIND input 0 does not hide the passphrase error and one IN
    FRONT wins over it.  Either way nothing is returned (`pass_gate`, second clause): the order decides the error class only. -/
theorem wrong_pass_error_class (E : Engine C A) (env : Env C A) (pass : C.Pass) (hp : env.params = C.params pass)
    (L : Lock C) (hL : LockCons pass L) (p : C.Pass) (hne : p ≠ pass) (fl : Flag) (tx : Tx (Witness C))
    (inp : TxIn (Witness C)) (rest : List (TxIn (Witness C))) (hi : tx.ins = inp :: rest)
    (hs : fl.base = .single → 0 < tx.outs.length) :
    (signTx E env L p fl tx).2 = .error (MW.Lemmas.SignOrder.wrongErr env inp) :=
  MW.Lemmas.SignOrder.signTx_wrong_class hp hL hne hi hs

/-- tie B: the flag strings of today's SignRawTx switch are the six the model parses, and both signing
    entry points still defer ClearPrivKey -/
theorem gen_tie_flags :
    Gen.Sec.signFlags.map parseFlag =
      [some ⟨.all, false⟩, some ⟨.none, false⟩, some ⟨.single, false⟩, some ⟨.all, true⟩, some ⟨.none, true⟩, some ⟨.single, true⟩] ∧
    Gen.Sec.signWitnessTxDefersClear = true ∧ Gen.Sec.signHashDefersClear = true := by decide

-- ------------------------------------------------------------------ toy instances (non-vacuity)

/-- toy signatures: a signature is the pair (key, message); the passphrase parameters are the passphrase -/
@[reducible] def toyCrypto : Crypto where
  SK := Nat
  PK := Nat
  Sig := Nat × Nat
  Msg := Nat
  Pass := Nat
  Params := Nat
  decPass := inferInstance
  pkOf := fun sk => sk + 1000
  sign := fun sk m => (sk + 1000, m)
  verify := fun pk m s => s == (pk, m)
  derive := fun q p => p == q
  params := id
  verify_sign := by intro sk m; simp
  kdf_correct := by intro pass p; simp

/-- toy engine: accepts exactly a valid signature by the key the script hash names, sequence rule met -/
def toyEngine : Engine toyCrypto Nat where
  sighash := fun _ i _ pk amt => i + pk + amt
  hashOf := fun pk => pk
  ok := fun po stx i w =>
    match w with
    | none => false
    | some w => decide (po.cls ≠ .other) && decide (w.pk = po.addr) &&
        seqOk po.cls (((stx.ins[i]?).map (·.seq)).getD 0) && toyCrypto.verify w.pk (i + w.pk + po.amt) w.sig
  p2wsh := by
    intro po tx i w seq hc hh hs hq hv
    have hh' : w.pk = po.addr := hh
    simp [hc, hh', hs, hq]
    rw [← hh']
    simpa using hv

/-- a keystore with passphrase 7 holding the keys of addresses 1001 and 1002; coins T:0 (standard, 50),
    T:1 (staking, frozen 3, 70) -/
def toyEnv : Env toyCrypto Nat where
  resolve := fun op =>
    if op = ⟨"T", 0⟩ then .ok ⟨50, .std, 1001⟩
    else if op = ⟨"T", 1⟩ then .ok ⟨70, .stk 3, 1002⟩
    else .error .utxo
  pubOf := fun a => if a = 1001 ∨ a = 1002 then some a else none
  skOf := fun a => if a = 1001 ∨ a = 1002 then some (a - 1000) else none
  params := 7

def toyTx : Tx (Witness toyCrypto) :=
  { version := 1, lock := 9, payload := "pl",
    ins := [⟨⟨"T", 0⟩, 2^64 - 1, none⟩, ⟨⟨"T", 1⟩, 4, none⟩],
    outs := [⟨100, "x"⟩, ⟨19, "y"⟩] }

/-- `Signable` is satisfiable (both inputs, a staking withdrawal among them) -/
example : Signable toyEngine toyEnv ⟨.single, true⟩ toyTx := by
  refine ⟨?_, fun _ => by decide⟩
  intro inp hinp
  simp only [toyTx, List.mem_cons, List.not_mem_nil, or_false] at hinp
  rcases hinp with rfl | rfl
  · exact ⟨⟨50, .std, 1001⟩, 1001, 1, rfl, by decide, by decide, by decide, by decide, by decide, by decide⟩
  · exact ⟨⟨70, .stk 3, 1002⟩, 1002, 2, rfl, by decide, by decide, by decide, by decide, by decide, by decide⟩

example : toyEnv.params = toyCrypto.params 7 := rfl
example : LockCons (C := toyCrypto) 7 (Lock.locked toyCrypto) := lockCons_locked (C := toyCrypto) 7
example : FirstSigned (C := toyCrypto) ⟨.single, false⟩ toyTx := ⟨by decide, fun _ => by decide⟩

/-- TESTS by evaluation (samples, not theorems): right passphrase signs under every flag; a wrong one is
    refused with the passphrase error; a staking input with the default sequence is refused by the engine -/
example : ∀ fl ∈ [Flag.mk .all false, ⟨.none, false⟩, ⟨.single, false⟩, ⟨.all, true⟩, ⟨.none, true⟩, ⟨.single, true⟩],
    (match (signTx toyEngine toyEnv (Lock.locked toyCrypto) 7 fl toyTx).2 with | .ok _ => true | .error _ => false) = true := by
  decide
example : (match (signTx toyEngine toyEnv (Lock.locked toyCrypto) 8 ⟨.all, false⟩ toyTx).2 with
    | .error .pass => true | _ => false) = true := by decide
example : (match (signTx toyEngine toyEnv (Lock.locked toyCrypto) 7 ⟨.all, false⟩
      { toyTx with ins := [⟨⟨"T", 1⟩, 2^64 - 1, none⟩] }).2 with
    | .error .script => true | _ => false) = true := by decide
/-- wrong passphrase x unresolvable input (`wrong_pass_error_class` on concrete instances): behind input 0 the passphrase
    error, in front of it the resolution error; with the RIGHT passphrase the unresolvable input is reported wherever it is -/
example : MW.Lemmas.SignOrder.wrongErr toyEnv ⟨⟨"T", 0⟩, 0, none⟩ = .pass ∧
    MW.Lemmas.SignOrder.wrongErr toyEnv ⟨⟨"U", 0⟩, 0, none⟩ = .utxo := by decide
example : (match (signTx toyEngine toyEnv (Lock.locked toyCrypto) 8 ⟨.none, false⟩
      { toyTx with ins := toyTx.ins ++ [⟨⟨"U", 0⟩, 0, none⟩] }).2 with
    | .error .pass => true | _ => false) = true := by decide
example : (match (signTx toyEngine toyEnv (Lock.locked toyCrypto) 8 ⟨.none, false⟩
      { toyTx with ins := ⟨⟨"U", 0⟩, 0, none⟩ :: toyTx.ins }).2 with
    | .error .utxo => true | _ => false) = true := by decide
example : (match (signTx toyEngine toyEnv (Lock.locked toyCrypto) 7 ⟨.none, false⟩
      { toyTx with ins := toyTx.ins ++ [⟨⟨"U", 0⟩, 0, none⟩] }).2 with
    | .error .utxo => true | _ => false) = true := by decide

-- ------------------------------------------------------------------ round 4: the script VM is a MODEL

section VM
open MW MW.Model.ScriptVM MW.Lemmas.ScriptVMParse MW.Lemmas.ScriptVMExec MW.Lemmas.ScriptVMMain MW.Lemmas.SignVM
open MW.Lemmas.SignVMEx

/-- vm_verdict: for ALL primitives and contexts, the engine model (NewEngine + Execute: MW.Model.ScriptVM.verify)
    run on a witness-script-hash / staking / binding output (`pkScriptOf h k`) with the witness
    [push(signature ‖ hash type), OP_1 <pk> OP_1 OP_CHECKMULTISIG] returns exactly `verdict` – including the
    error class: program mismatch, the CHECKSEQUENCEVERIFY errors of the prelude, hash-type / DER / low-S /
    key-encoding errors, NULLFAIL. -/
theorem vm_verdict (P : Prims) (ctx : Ctx P) (h pk full : Bytes) (k : Kind) (hh : h.length = 32) (hk : k.wf)
    (hpk : pk.length = 33) (h1 : 1 ≤ full.length) (h2 : full.length ≤ 75) :
    Model.ScriptVM.verify P ctx (pkScriptOf h k) [sigPush full, redeem1 pk] = verdict P ctx h pk full k :=
  verify_template P ctx h pk full k hh hk hpk h1 h2

/-- vm_p2wsh: the law that used to be the HYPOTHESIS `Engine.p2wsh`, proved of the VM model as an
    EQUIVALENCE: the template witness is accepted iff sha256(redeem script) is the witness program, the
    sequence rule of the output class holds (staking: `<frozen+1> CSV`; binding: `<MASSIP0002BindingLockedPeriod>
    CSV` under the flag ScriptMASSip2) and the signature part is valid (non-empty, hash type in {1,2,3}(+0x80),
    strict DER with low S, compressed key, both parse, ECDSA verifies against the signature hash of the redeem
    script). -/
theorem vm_p2wsh (P : Prims) (ctx : Ctx P) (h pk full : Bytes) (k : Kind) (hh : h.length = 32) (hk : k.wf)
    (hpk : pk.length = 33) (h1 : 1 ≤ full.length) (h2 : full.length ≤ 75) :
    Model.ScriptVM.verify P ctx (pkScriptOf h k) [sigPush full, redeem1 pk] = .ok () ↔
      P.sha256 (redeem1 pk) = h ∧ PreludeOk P ctx k ∧ SigValid P ctx pk full := by
  rw [verify_template P ctx h pk full k hh hk hpk h1 h2]; exact verdict_ok_iff P ctx h pk full k

/-- the verdict does not depend on the binding target (the model of `PrevOut` keeps none) -/
theorem vm_bind_target_irrelevant (P : Prims) (ctx : Ctx P) (h pk full t t' : Bytes) (hh : h.length = 32)
    (ht : t.length = 20 ∨ t.length = 22) (ht' : t'.length = 20 ∨ t'.length = 22) (hpk : pk.length = 33)
    (h1 : 1 ≤ full.length) (h2 : full.length ≤ 75) :
    Model.ScriptVM.verify P ctx (pkScriptOf h (.bind t)) [sigPush full, redeem1 pk] =
      Model.ScriptVM.verify P ctx (pkScriptOf h (.bind t')) [sigPush full, redeem1 pk] := by
  rw [verify_template P ctx h pk full (.bind t) hh ht hpk h1 h2, verify_template P ctx h pk full (.bind t') hh ht' hpk h1 h2]; rfl

/-- sign_checked_vm: with the script VM model as the engine (`vmEngine K`, whose law is the theorem `vm_law`),
    a successful signTx means that for EVERY input the VM model accepts the returned witness bytes against the
    pkScript of the output it spends. -/
theorem sign_checked_vm (K : Codec C) (env : Env C Bytes) (L : Lock C) (p : C.Pass) (fl : Flag)
    (tx tx' : Tx (Witness C)) (h : (signTx (vmEngine K) env L p fl tx).2 = .ok tx') :
    ∀ (j : Nat) (inp : TxIn (Witness C)), tx.ins[j]? = some inp →
      ∃ po inp', env.resolve inp.prev = .ok po ∧ tx'.ins[j]? = some inp' ∧ vmOk K po tx'.strip j inp'.wit = true :=
  sign_checked (vmEngine K) env L p fl tx tx' h

/-- sign_complete_vm: C03's completeness with the REAL VM MODEL in place of the engine law (ECDSA and the byte codec
    stay laws: `Crypto.verify_sign`, `Codec`): a transaction whose inputs spend template outputs of addresses of the
    selected keystore (key/address agreement of C04 inside `Signable`: `hashOf pk = addr` now reads
    sha256(OP_1 <pk> OP_1 OP_CHECKMULTISIG) = script hash), sequence rule met, is signed successfully under all
    six flags with the keystore's passphrase, and every witness passes the VM (`sign_checked_vm`). -/
theorem sign_complete_vm (K : Codec C) (env : Env C Bytes) (pass : C.Pass) (hp : env.params = C.params pass)
    (L : Lock C) (hL : LockCons pass L) (fl : Flag) (tx : Tx (Witness C)) (hs : Signable (vmEngine K) env fl tx) :
    ∃ tx', (signTx (vmEngine K) env L pass fl tx).2 = .ok tx' ∧ tx'.strip = tx.strip :=
  sign_complete_partial (vmEngine K) env pass hp L hL fl tx hs

/-- pass_gate with the VM model as the engine -/
theorem pass_gate_vm (K : Codec C) (env : Env C Bytes) (pass : C.Pass) (hp : env.params = C.params pass)
    (L₀ : Lock C) (hL₀ : LockCons pass L₀) (as : List (C.Pass × Flag × Tx (Witness C)))
    (j : Nat) (p : C.Pass) (fl : Flag) (tx : Tx (Witness C)) (hj : as[j]? = some (p, fl, tx)) :
    ∃ r, (attempts (vmEngine K) env L₀ as)[j]? = some r ∧
      (p = pass → Signable (vmEngine K) env fl tx → ∃ tx', r = .ok tx' ∧ tx'.strip = tx.strip) ∧
      (p ≠ pass → FirstSigned fl tx → ∃ e, r = .error e) ∧
      (p ≠ pass → Signable (vmEngine K) env fl tx → tx.ins ≠ [] → r = .error .pass) :=
  pass_gate (vmEngine K) env pass hp L₀ hL₀ as j p fl tx hj

set_option maxRecDepth 8000 in
/-- tie B: the model's opcode dispatch is today's `opcodeArray` (handler function per opcode value), the
    constants shared with C16 agree, minimal-encoding checks are never switched on, and the wallet runs the
    engine with StandardVerifyFlags = ScriptDiscourageUpgradableNops (+ ScriptMASSip2 from the warm-up height) -/
theorem gen_tie_vm_handlers :
    (List.range 256).map (fun v => (handlerOf v).goName) = Gen.Vm.opHandlers := by decide

theorem gen_tie_vm_constants :
    Gen.Vm.maxScriptElementSize = Gen.Script.maxScriptElementSize ∧
    Gen.Vm.sequenceLockTimeMask = Gen.Script.sequenceLockTimeMask ∧
    Gen.Vm.bindingLockedPeriod = Gen.Script.bindingLockedPeriod ∧
    Gen.Vm.sequenceLockTimeDisabled = 2 ^ 63 ∧ Gen.Vm.sequenceLockTimeIsSeconds = 2 ^ 38 ∧
    Gen.Vm.sequenceLockTimeMask = 2 ^ 32 - 1 ∧
    Gen.Vm.standardVerifyFlags = Gen.Vm.flagDiscourageUpgradableNops ∧
    Gen.Vm.minimalDataNeverSet = true ∧ Gen.Vm.walletFlagsShape = true := by decide

def badEnv : Env toyCrypto Nat where
  resolve := fun _ => .ok ⟨50, .std, 1001⟩
  pubOf := fun _ => some 7
  skOf := fun _ => some 1
  params := 7

def badTx : Tx (Witness toyCrypto) :=
  { version := 1, lock := 0, payload := "", ins := [⟨⟨"T", 0⟩, 0, none⟩], outs := [⟨1, "x"⟩] }

/-- the round-1 "full" statement is too strong: without key/address agreement the engine refuses.  Counterexample:
    a keystore that answers address 1001 with the public key 7. -/
theorem C03_full_sign_complete_too_strong : ¬ C03_full_sign_complete := by
  intro h
  obtain ⟨tx', h'⟩ := h toyCrypto Nat toyEngine badEnv 7 rfl ⟨.all, false⟩ badTx
    (by intro inp hi
        simp only [badTx, List.mem_cons, List.not_mem_nil, or_false] at hi
        subst hi
        exact ⟨⟨50, .std, 1001⟩, rfl, by decide, rfl, rfl, rfl⟩)
    (by intro hb; cases hb)
  have hf : (match (signTx toyEngine badEnv (Lock.locked toyCrypto) 7 ⟨.all, false⟩ badTx).2 with
      | .ok _ => false | .error _ => true) = true := by decide
  rw [h'] at hf
  cases hf

/-- the codec laws are satisfiable (`tinyCodec`), and the VM ENGINE itself runs (evaluation tests, not theorems):
    a standard and a staking input signed under every flag pass the VM; a staking input with the default
    sequence, a wrong passphrase and a foreign key are refused with the expected error. -/
def tinyEnv : Env tinyCrypto Bytes where
  resolve := fun op =>
    if op = ⟨"T", 0⟩ then .ok ⟨50, .std, (vmEngine tinyCodec).hashOf 5⟩
    else if op = ⟨"T", 1⟩ then .ok ⟨70, .stk 3, (vmEngine tinyCodec).hashOf 9⟩
    else if op = ⟨"T", 2⟩ then .ok ⟨70, .bind, (vmEngine tinyCodec).hashOf 9⟩
    else .error .utxo
  pubOf := fun a => if a = (vmEngine tinyCodec).hashOf 5 then some 5 else if a = (vmEngine tinyCodec).hashOf 9 then some 9 else none
  skOf := fun a => if a = (vmEngine tinyCodec).hashOf 5 then some 5 else if a = (vmEngine tinyCodec).hashOf 9 then some 9 else none
  params := 7

def tinyTx : Tx (Witness tinyCrypto) :=
  { version := 1, lock := 9, payload := "pl",
    ins := [⟨⟨"T", 0⟩, 2^64 - 1, none⟩, ⟨⟨"T", 1⟩, 4, none⟩, ⟨⟨"T", 2⟩, 2^64 - 1, none⟩],
    outs := [⟨100, "x"⟩, ⟨19, "y"⟩, ⟨1, "z"⟩] }

example : ∀ fl ∈ [Flag.mk .all false, ⟨.none, false⟩, ⟨.single, false⟩, ⟨.all, true⟩, ⟨.none, true⟩, ⟨.single, true⟩],
    (match (signTx (vmEngine tinyCodec) tinyEnv (Lock.locked tinyCrypto) 7 fl tinyTx).2 with
      | .ok _ => true | .error _ => false) = true := by decide
example : (match (signTx (vmEngine tinyCodec) tinyEnv (Lock.locked tinyCrypto) 8 ⟨.all, false⟩ tinyTx).2 with
    | .error .pass => true | _ => false) = true := by decide
example : (match (signTx (vmEngine tinyCodec) tinyEnv (Lock.locked tinyCrypto) 7 ⟨.all, false⟩
      { tinyTx with ins := [⟨⟨"T", 1⟩, 2^64 - 1, none⟩] }).2 with
    | .error .script => true | _ => false) = true := by decide

end VM

-- ------------------------------------------------------------------ round 5: ScriptMASSip2, the engine in closed form, the driver's instance

section Round5
open MW MW.Model.ScriptVM MW.Lemmas.ScriptVMParse MW.Lemmas.ScriptVMMain MW.Lemmas.SignVM MW.Lemmas.SignSeq
open MW.Model.WithdrawSeq

/-- vm_engine_iff: the engine `vmEngine K` of the model (NewEngine + Execute as signWitnessTx calls it: StandardVerifyFlags, plus
    ScriptMASSip2 exactly for the class `bind2` = binding output of a previous transaction at a height ≥ the warm-up height) in
    CLOSED FORM, for BOTH settings of the flag: it accepts the witness the model builds iff the output is a template, the key
    hashes to its script hash, the sequence rule `seqOk` of the class holds and the signature verifies.  (`→`: what the
    engine demands; `←`: the former law `p2wsh`.) -/
theorem vm_engine_iff (K : Codec C) (po : PrevOut Bytes) (tx : STx) (i : Nat) (w : Witness C) (inp : TxIn Unit)
    (hinp : tx.ins[i]? = some inp) (hs : inp.seq < 2^64) (hl : po.addr.length = 32)
    (hf : ∀ f, po.cls = .stk f → f + 1 < 2^32) :
    (vmEngine K).ok po tx i (some w) = true ↔
      po.cls ≠ .other ∧ (vmEngine K).hashOf w.pk = po.addr ∧ seqOk po.cls inp.seq = true ∧
      C.verify w.pk ((vmEngine K).sighash tx i w.flag w.pk po.amt) w.sig = true :=
  vmOk_iff K po tx i w inp hinp hs hl hf

/-- the sequence hypothesis of `sign_complete_vm` is NECESSARY (the engine refuses otherwise) … -/
theorem sign_seq_necessary (K : Codec C) (po : PrevOut Bytes) (tx : STx) (i : Nat) (w : Witness C) (inp : TxIn Unit)
    (hinp : tx.ins[i]? = some inp) (hs : inp.seq < 2^64) (hl : po.addr.length = 32)
    (hf : ∀ f, po.cls = .stk f → f + 1 < 2^32) (h : (vmEngine K).ok po tx i (some w) = true) :
    seqOk po.cls inp.seq = true :=
  vmOk_seq_necessary K po tx i w inp hinp hs hl hf h

/-- … and `seqOk` IS the rule `<lock> OP_CHECKSEQUENCEVERIFY` of the VM: staking (lock = frozen + 1) and binding under
    ScriptMASSip2 (lock = MASSIP0002BindingLockedPeriod) -/
theorem seq_rule_staking (f s : Nat) (hf : f + 1 < 2^32) (hs : s < 2^64) : seqOk (.stk f) s = true ↔ SeqRule s (f + 1) :=
  seqOk_stk_iff f s hf hs

theorem seq_rule_massip2 (s : Nat) (hs : s < 2^64) : seqOk .bind2 s = true ↔ SeqRule s Gen.Vm.bindingLockedPeriod :=
  seqOk_bind2_iff s hs

/-- C10 ↔ C03: the sequence number constructTxIn / addTxIn give an input (`MW.Model.WithdrawSeq.seqChoice`, C10's
    `withdraw_sequence`) meets the sequence rule signWitnessTx's engine run enforces – every template class, every lock time,
    BOTH sides of the MASSIP-2 warm-up height; whereas the default sequence is refused above it -/
theorem withdraw_seq_signable (lt : Nat) (c : Model.Ledger.Cls) (h : Nat) (hc : c ≠ .raw)
    (hf : ∀ f, c = .stk f → f + 1 < 2^32) :
    seqOk (Model.SignTab.classAt Gen.Vm.massip2WarmUpHeight c h) (seqChoice lt c h) = true :=
  seqChoice_signable lt c h hc hf

theorem default_seq_refused_massip2 (lt : Nat) : seqOk .bind2 (defaultSeq lt) = false := defaultSeq_refused_bind2 lt

/-- the warm-up height is a VALUE of a run (op `warmup`): a run with the height lowered to `W` is the model with the regenerated
    constant at heights translated by the difference – this is how the drivers evaluate `seqChoice` / `classAt` -/
theorem warmup_is_a_translation (W lt : Nat) (c : Model.Ledger.Cls) (h : Nat) (hW : W ≤ Gen.Vm.massip2WarmUpHeight) :
    enforceWarmUp (h + (Gen.Vm.massip2WarmUpHeight - W)) = decide (W ≤ h) ∧
    Model.SignTab.classAt W c h = Model.SignTab.classAt Gen.Vm.massip2WarmUpHeight c (h + (Gen.Vm.massip2WarmUpHeight - W)) ∧
    (c ≠ .raw → (∀ f, c = .stk f → f + 1 < 2^32) →
      seqOk (Model.SignTab.classAt W c h) (seqChoice lt c (h + (Gen.Vm.massip2WarmUpHeight - W))) = true) :=
  ⟨enforceWarmUp_shift W h hW, classAt_shift W c h hW, seqChoice_signable_shift W lt c h hW⟩

example : seqOk .bind2 4294967294 = true ∧ seqOk .bind2 (2^64 - 1) = false ∧ seqOk (.stk 3) 4 = true ∧ seqOk (.stk 3) 3 = false := by decide
example : (4294967294 : Nat) < 2^64 ∧ (3 : Nat) + 1 < 2^32 ∧ (10 : Nat) ≤ Gen.Vm.massip2WarmUpHeight := by decide

/-- sign_success_facts: the SOUNDNESS converse of `sign_complete_vm` – a successful signTx (VM model as engine) implies for
    EVERY input: it spends a template output, the returned witness' key hashes (through the 1-of-1 redeem script) to the script
    hash of that output, the sequence rule of the class (incl. the MASSIP-2 class) holds for the input's sequence number and the
    signature verifies against the signature hash of the redeem script: the hypotheses of `Signable` other than key possession
    are NECESSARY. (64-bit sequence numbers, 32-byte script hashes, frozen periods below 2^32 − 1.) -/
theorem sign_success_facts (K : Codec C) (env : Env C Bytes) (L : Lock C) (p : C.Pass) (fl : Flag)
    (tx tx' : Tx (Witness C)) (h : (signTx (vmEngine K) env L p fl tx).2 = .ok tx')
    (hseq : ∀ inp ∈ tx.ins, inp.seq < 2^64)
    (hres : ∀ op po, env.resolve op = .ok po → po.addr.length = 32 ∧ ∀ f, po.cls = .stk f → f + 1 < 2^32) :
    ∀ (j : Nat) (inp : TxIn (Witness C)), tx.ins[j]? = some inp →
      ∃ po inp' w, env.resolve inp.prev = .ok po ∧ tx'.ins[j]? = some inp' ∧ inp'.wit = some w ∧
        po.cls ≠ .other ∧ K.sha256 (redeem1 (K.encPK w.pk)) = po.addr ∧ seqOk po.cls inp.seq = true ∧
        C.verify w.pk (K.sighash tx.strip j po.amt (redeem1 (K.encPK w.pk)) (flagByte w.flag)) w.sig = true :=
  MW.Lemmas.SignSound.sign_success_facts K env L p fl tx tx' h hseq hres

/-- THE DRIVER'S INSTANCE.  The `sec` driver answers `sign` / `autosign` ops by `signTx (tabEngine T) …` where, for every oracle
    table `T` (any list of tokens), `tabEngine T` is `vmEngine (tabCodec T)`: the script VM model over the tabled real bytes.
    `tabCrypto T` / `tabCodec T` are `Crypto` / `Codec` structures (their law fields are proved for every `T`), so every theorem
    above applies to every driver run; here `sign_checked_vm` and `pass_gate_vm` spelled out for it. -/
theorem drv_engine_is_vm (T : Model.SignTab.Tab) : Model.SignTab.tabEngine T = vmEngine (Model.SignTab.tabCodec T) := rfl

theorem drv_sign_checked (T : Model.SignTab.Tab) (env : Env (Model.SignTab.tabCrypto T) Bytes)
    (L : Lock (Model.SignTab.tabCrypto T)) (p : String) (fl : Flag)
    (tx tx' : Tx (Witness (Model.SignTab.tabCrypto T)))
    (h : (signTx (Model.SignTab.tabEngine T) env L p fl tx).2 = .ok tx') :
    ∀ (j : Nat) (inp : TxIn (Witness (Model.SignTab.tabCrypto T))), tx.ins[j]? = some inp →
      ∃ po inp', env.resolve inp.prev = .ok po ∧ tx'.ins[j]? = some inp' ∧
        vmOk (Model.SignTab.tabCodec T) po tx'.strip j inp'.wit = true :=
  sign_checked_vm (Model.SignTab.tabCodec T) env L p fl tx tx' h

theorem drv_wrong_pass (T : Model.SignTab.Tab) (env : Env (Model.SignTab.tabCrypto T) Bytes) (pass : String)
    (hp : env.params = pass) (fl : Flag) (tx : Tx (Witness (Model.SignTab.tabCrypto T))) (p : String) (hne : p ≠ pass)
    (hs : Signable (Model.SignTab.tabEngine T) env fl tx) (hne' : tx.ins ≠ []) :
    (signTx (Model.SignTab.tabEngine T) env (Lock.locked _) p fl tx).2 = .error .pass := by
  obtain ⟨r, hr, _, _, h3⟩ := pass_gate_vm (Model.SignTab.tabCodec T) env pass hp (Lock.locked _)
    (lockCons_locked (C := Model.SignTab.tabCrypto T) pass) [(p, fl, tx)] 0 p fl tx rfl
  have : r = (signTx (Model.SignTab.tabEngine T) env (Lock.locked _) p fl tx).2 := by
    simp [attempts] at hr; exact hr.symm
  rw [← this]; exact h3 hne hs hne'

end Round5

end MW.Props.C03
