import MW.Model.Sign
namespace MW.Props.C03
end MW.Props.C03
