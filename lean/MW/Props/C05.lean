/-
  C05 — Secrets are never stored or returned in clear; only the right passphrase unlocks.
  PROPERTY THEOREMS about MW.Model.Secrets (symbolic-term keystore; helper lemmas in MW/Lemmas/Secrets*.lean).

  The attacker sees `visible st`: every database value, every exported keystore, every returned error,
  and closes it under Dolev–Yao analysis and synthesis (`Derivable`).  Passphrases are atomic secrets
  (no guessing), encryption and the KDF are perfect (free term algebra) – the assumptions of the model.
  NOT expressible here: zeroing of Go heap memory (no observable in an executable model).
-/
import MW.Model.Secrets
import MW.Gen.Sec
import MW.Lemmas.SecretsDY
import MW.Lemmas.SecretsInv
import MW.Lemmas.SecretsGate
import MW.Lemmas.SecretsGateOut
namespace MW.Props.C05
open MW MW.Model.Secrets MW.Lemmas

/-- the state after an operation sequence on an empty wallet database -/
def reach (ops : List Op) : St := run {} ops

/-- the operations that need a secret (sign at wallet and at keystore level, export, reveal mnemonic,
    remove, import of a keystore file) -/
def SecretNeeding : Op → Prop
  | .exportKS _ _ _ | .mnemonic _ _ | .remove _ _ | .signHash _ _ _ _ | .ksSign _ _ _ _ | .importKS _ _ => True
  | _ => False

/-- no_clear_secret, term form: after EVERY operation sequence every term in the database, in an exported
    keystore and in a returned error is opaque (no secret outside an encryption under a non-public key). -/
theorem visible_opaque (ops : List Op) : ∀ t ∈ visible (reach ops), pubOk t = true :=
  (SecretsInv.visOk_iff _).mp (SecretsInv.run_ok ops SecretsInv.init_ok)

/-- no_clear_secret: after every operation sequence NO atomic secret (entropy/mnemonic, seed, extended
    or address private key, random key, passphrase) is in the Dolev–Yao closure of what is visible. -/
theorem no_clear_secret (ops : List Op) (s : Sec) : ¬ Derivable (visible (reach ops)) (.secret s) :=
  SecretsDY.no_secret_derivable (visible_opaque ops) s

/-- the same from ANY state whose visible terms are opaque (e.g. a database written by an older run) -/
theorem no_clear_secret_from (st : St) (h : ∀ t ∈ visible st, pubOk t = true) (ops : List Op) (s : Sec) :
    ¬ Derivable (visible (run st ops)) (.secret s) :=
  SecretsDY.no_secret_derivable
    ((SecretsInv.visOk_iff _).mp (SecretsInv.run_ok ops ((SecretsInv.visOk_iff st).mpr h))) s

/-- the keys that seal the private material are themselves not derivable -/
theorem master_key_not_derivable (ops : List Op) (salt : Nat) (p : Pass) :
    ¬ Derivable (visible (reach ops)) (masterKey salt p) :=
  SecretsDY.key_not_derivable (visible_opaque ops) (SecretsInv.masterKey_not_pub salt p)

/-- KDF.correct holds in the term model: the stored parameters of passphrase q accept exactly q -/
theorem kdf_correct (salt : Term) (q p : Pass) (hq : endsZero q = false) :
    (deriveKey (.pair salt (.hash (.kdf salt (passT q)))) p).isSome = true ↔ p = q :=
  SecretsGate.deriveKey_iff salt q p hq

/-- between wallet-level operations every keystore is locked and caches no key material: only the
    keystore-level entry point KeystoreManager.SignHash (op `ksSign`) leaves one unlocked … -/
theorem locked_between_ops (ops : List Op) (h : ∀ o ∈ ops, SecretsGateOut.IsKsSign o = false) :
    ∀ e ∈ (reach ops).wal, e.2.2 = ({} : AM) :=
  SecretsGateOut.run_locked ops h (st := {}) (fun e he => by simp at he)

/-- … and ANY wallet-level signing call (successful or refused), restart or ClearPrivKey locks all of them again -/
theorem sign_locks_again (ops : List Op) (w : String) (b i : Nat) (p : Pass)
    (hw : (AMap.get (reach ops).wal w).isSome) :
    ∀ e ∈ (step (reach ops) (.signHash w b i p)).1.wal, e.2.2 = ({} : AM) :=
  SecretsGateOut.locks_again (reach ops) (.signHash w b i p) rfl
    (fun w' b' i' p' h => by cases h; exact hw)

/-- gate: in every reachable state – keystores locked OR left unlocked by a keystore-level signature; before
    and after restarts, public-passphrase changes, removal and re-import – for every keystore and EVERY
    candidate passphrase: export, reveal-mnemonic, remove and sign (wallet level and keystore level) answer
    `ok` for the keystore's passphrase and the passphrase error for any other. -/
theorem gate (ops : List Op) (w : String) (r : WRec) (a : AM) (hw : AMap.get (reach ops).wal w = some (r, a))
    (p : Pass) (k : String) :
    (step (reach ops) (.exportKS w p k)).2 = SecretsGateOut.gateOut r.pass p ∧
    (step (reach ops) (.mnemonic w p)).2 = SecretsGateOut.gateOut r.pass p ∧
    (step (reach ops) (.remove w p)).2 = SecretsGateOut.gateOut r.pass p ∧
    (∀ idx, idx < r.nExt → (step (reach ops) (.signHash w 0 idx p)).2 = SecretsGateOut.gateOut r.pass p) ∧
    (∀ idx, idx < r.nExt → (step (reach ops) (.ksSign w 0 idx p)).2 = SecretsGateOut.gateOut r.pass p) :=
  have hg := SecretsGate.run_good ops SecretsGate.init_good
  ⟨SecretsGateOut.export_out hg hw p k, SecretsGateOut.mnemonic_out hg hw p, SecretsGateOut.remove_out hg hw p,
   fun idx hi => SecretsGateOut.signHash_out hg hw idx hi p, fun idx hi => SecretsGateOut.ksSign_out hg hw idx hi p⟩

/-- gate for re-import: an exported keystore file is refused exactly for the passphrases other than the
    one it was exported under -/
theorem gate_import (ops : List Op) (k : String) (x : Export) (hx : AMap.get (reach ops).exports k = some x) :
    ∃ q, ∀ p, (step (reach ops) (.importKS k p)).2 = .err "pass" ↔ p ≠ q := by
  have hg := SecretsGate.run_good ops SecretsGate.init_good
  obtain ⟨q, hq⟩ := hg.2 k x hx
  exact ⟨q, fun p => SecretsGateOut.importKS_out hx hq p⟩

/-- refusal_inert: a secret-needing operation answered with the passphrase error changes NOTHING – not the
    database, not the exported files, not the lock state of any keystore, not the public passphrase –
    except that the error itself has been returned.  (For the wallet-level signing call the deferred
    ClearPrivKey still runs: if a keystore had been left unlocked by a keystore-level call it is locked;
    that is the only effect, and there is none when everything was locked.) -/
theorem refusal_inert (ops : List Op) (op : Op) (hop : SecretNeeding op)
    (h : (step (reach ops) op).2 = .err "pass") :
    (step (reach ops) op).1 = SecretsGateOut.refused
      (match op with
       | .signHash _ _ _ _ => { reach ops with wal := clearAll (reach ops).wal }
       | _ => reach ops) := by
  cases op with
  | exportKS w p k => exact SecretsGateOut.export_refused h
  | mnemonic w p => exact SecretsGateOut.mnemonic_refused h
  | remove w p => exact SecretsGateOut.remove_refused h
  | signHash w b i p => exact SecretsGateOut.signHash_refused' h
  | ksSign w b i p => exact SecretsGateOut.ksSign_refused h
  | importKS k p => exact SecretsGateOut.importKS_refused h
  | _ => exact absurd hop (by simp [SecretNeeding])

/-- refusal_inert at wallet level (no keystore-level signing in the history): nothing at all changes -/
theorem refusal_inert_wallet (ops : List Op) (hk : ∀ o ∈ ops, SecretsGateOut.IsKsSign o = false) (op : Op)
    (hop : SecretNeeding op) (h : (step (reach ops) op).2 = .err "pass") :
    (step (reach ops) op).1 = SecretsGateOut.refused (reach ops) := by
  have hl : SecretsGate.AllLocked (reach ops) := locked_between_ops ops hk
  cases op with
  | signHash w b i p => exact SecretsGateOut.signHash_refused hl h
  | exportKS w p k => exact SecretsGateOut.export_refused h
  | mnemonic w p => exact SecretsGateOut.mnemonic_refused h
  | remove w p => exact SecretsGateOut.remove_refused h
  | ksSign w b i p => exact SecretsGateOut.ksSign_refused h
  | importKS k p => exact SecretsGateOut.importKS_refused h
  | _ => exact absurd hop (by simp [SecretNeeding])

/-- the sealing is not vacuous: WITH the private passphrase the database does yield the entropy -/
theorem right_pass_unlocks (ops : List Op) (w : String) (r : WRec) (a : AM)
    (hw : AMap.get (reach ops).wal w = some (r, a)) :
    Derivable (passT r.pass :: visible (reach ops)) (.secret (.entropy r.ent)) :=
  SecretsGateOut.unlock_derivable ((SecretsGate.run_good ops SecretsGate.init_good).1 w r a hw)

-- ------------------------------------------------------------------ tie B: regenerated facts

/-- the fixed key names the model writes are exactly the key names the put* functions of keystore/db.go
    pass to Bucket.Put (re-read from the source on every run) -/
theorem gen_tie_keys :
    (∀ k ∈ Gen.Sec.keyNamesWritten, k ∈ fixedKeys.filterMap KeyName.dbName) ∧
    (∀ k ∈ fixedKeys.filterMap KeyName.dbName, k ∈ Gen.Sec.keyNamesWritten) ∧
    Gen.Sec.bucketNames = ["k", "km", "aid", "pub"] := by decide

/-- the shape of the gate the model relies on is the shape of today's source: both signing entry points
    defer ClearPrivKey, safelyCheckPassword zeroes the master key only when locked, snacl refuses a
    passphrase ending in a zero byte, and every secret-needing path checks the passphrase before it
    decrypts / proceeds (getMnemonic, signBtcec, exportKeystore, CheckPrivPassphrase, RemoveWallet) -/
theorem gen_tie_gate :
    Gen.Sec.signWitnessTxDefersClear = true ∧ Gen.Sec.signHashDefersClear = true ∧
    Gen.Sec.safelyCheckZeroesOnlyWhenLocked = true ∧ Gen.Sec.deriveKeyRefusesTrailingZero = true ∧
    Gen.Sec.checkBeforeUse = [true, true, true, true, true] := by decide

-- ------------------------------------------------------------------ non-vacuity (tests, by evaluation)

/-- a concrete history: create, issue an address, export, wrong attempt, change the public passphrase,
    restart, remove, re-import -/
def demo : List Op :=
  [ .create "W1" "5a7140506173733132" 128, .newAddr "W1", .exportKS "W1" "5a7140506173733132" "K1",
    .mnemonic "W1" "77726f6e67313233", .chpub "50756270617373313233343536" "4e657750756240393837",
    .restart "4e657750756240393837", .remove "W1" "5a7140506173733132", .importKS "K1" "5a7140506173733132" ]

/-- a history with a keystore-level signature: the keystore stays unlocked, a wrong candidate is refused -/
def demoKs : List Op := [ .create "W1" "5a7140506173733132" 128, .newAddr "W1", .ksSign "W1" 0 0 "5a7140506173733132" ]
example : (AMap.get (reach demoKs).wal "W1").map (fun ra => ra.2.unlocked) = some true := by decide
example : (step (reach demoKs) (.ksSign "W1" 0 0 "-")).2 = .err "pass" := by decide
example : ∀ o ∈ demo, SecretsGateOut.IsKsSign o = false := by decide

/-- hypothesis of `gate` / `right_pass_unlocks` is satisfiable: the wallet is there after the history -/
example : AMap.get (reach demo).wal "W1" = some (⟨"W1", "5a7140506173733132", 1, 0⟩, {}) := by decide

/-- hypothesis of `sign_locks_again` is satisfiable -/
example : (AMap.get (reach demo).wal "W1").isSome = true := by decide

/-- hypothesis of `no_clear_secret_from` is satisfiable (and by every reachable state: `visible_opaque`) -/
example : ∀ t ∈ visible ({} : St), pubOk t = true := by decide

/-- hypothesis of `gate_import` is satisfiable -/
example : (AMap.get (reach demo).exports "K1").isSome = true := by decide

/-- hypotheses of `refusal_inert` are satisfiable: a wrong passphrase is answered with the passphrase error -/
example : (step (reach demo) (.mnemonic "W1" "77726f6e67313233")).2 = .err "pass" := by decide
example : SecretNeeding (.mnemonic "W1" "77726f6e67313233") := trivial

/-- hypothesis of `kdf_correct` is satisfiable -/
example : endsZero "5a7140506173733132" = false := by decide

/-- the database of the demo history is not empty (the opacity statement is about something) -/
example : (visible (reach demo)).length = 21 := by decide

/-- TEST (one sample, not a theorem): a keystore whose account key were stored under a PUBLIC key is flagged -/
example : pubOk (.enc (.pub "k") (.secret (.acctPriv "W1" "p"))) = false := by decide

end MW.Props.C05
