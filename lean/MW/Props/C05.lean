import MW.Model.Secrets
namespace MW.Props.C05
end MW.Props.C05
