/-
  C11 — The wallet database gives atomic, isolated, ordered key/value transactions.
  PROPERTY THEOREMS ONLY (helper lemmas live in MW/Lemmas/Kv*.lean).
  Model: MW.Model.KV / MW.Model.KVSys (masswallet/db/ldb/leveldb.go as written);  Spec: MW.Spec.KV.
-/
import MW.Model.KVSys
import MW.Spec.KV
import MW.Lemmas.KvEnc
import MW.Lemmas.KvPrefix
import MW.Lemmas.KvBatch
namespace MW.Props.C11
open MW MW.KV MW.Model.KV

/-! ## 1. key encoding -/

/-- `innerKey_inj`: for bucket names accepted by isValidBucketName, the encodings
    `<depth>_<names…>_<key>` of distinct (bucket path, key) pairs differ – whatever bytes the keys
    contain (separators, digits that look like a depth prefix, 0xff …). -/
theorem innerKey_inj {p q : Path} (hp : ∀ n ∈ p, ValidName n) (hq : ∀ n ∈ q, ValidName n) {k k' : Bytes}
    (h : dataKey p k = dataKey q k') : p = q ∧ k = k' :=
  dataKey_injective (noSep_of_valid hp) (noSep_of_valid hq) h

/-- `prefix_isolated`: the range scanned by GetByPrefix / Clear / an iterator of bucket `q`
    (all keys starting with `<path q>_<prefix>`) contains a data key of bucket `p` only if `p = q`,
    and then exactly when the key starts with the prefix. -/
theorem prefix_isolated {p q : Path} (hp : ∀ n ∈ p, ValidName n) (hq : ∀ n ∈ q, ValidName n) (pfx k : Bytes) :
    dataKey q pfx <+: dataKey p k ↔ p = q ∧ pfx <+: k :=
  dataKey_prefix_iff (noSep_of_valid hp) (noSep_of_valid hq) pfx k

/-- `index_disjoint`: data keys never collide with bucket-name index keys, no data prefix scan
    reaches an index key, no index scan reaches a data key, distinct buckets have distinct index
    keys, and the index scan of BucketNames for bucket `q` matches exactly the index keys of the
    direct children `q ++ [n]`. -/
theorem index_disjoint :
    (∀ (p : Path) (k s : Bytes), dataKey p k ≠ indexKey s) ∧
    (∀ (p : Path) (pfx s : Bytes), ¬ (dataKey p pfx <+: indexKey s)) ∧
    (∀ (s t : Bytes) (p : Path) (k : Bytes), ¬ (indexKey s ++ t <+: dataKey p k)) ∧
    (∀ {p q : Path}, (∀ n ∈ p, ValidName n) → (∀ n ∈ q, ValidName n) → idxKey p = idxKey q → p = q) ∧
    (∀ {q r : Path}, (∀ n ∈ q, ValidName n) → (∀ n ∈ r, ValidName n) →
        (childScanPrefix q <+: idxKey r ↔ ∃ n, r = q ++ [n])) :=
  ⟨dataKey_ne_indexKey, dataPrefix_not_prefix_indexKey, indexPrefix_not_prefix_dataKey,
   fun hp hq h => idxKey_injective (noSep_of_valid hp) (noSep_of_valid hq) h,
   fun hq hr => childScan_matches_iff (noSep_of_valid hq) (noSep_of_valid hr)⟩

-- the hypotheses are satisfiable by adversarial names: digits, the index letter, 0xff
example : ∀ n ∈ ([[49], [98, 0xff], [49, 48]] : Path), ValidName n := by
  intro n hn; simp at hn; rcases hn with rfl | rfl | rfl <;> (unfold ValidName; decide)
example : dataKey [[49], [50]] [49, 95, 50] = [50, 95, 49, 95, 50, 95, 49, 95, 50] := by
  unfold dataKey pathBytes join itoa; rw [Dec.render]; decide

/-! ## 2. range arithmetic -/

/-- `bytesPrefix_spec`: `k ∈ [start, limit)` of `BytesPrefix(prefix)` ⇔ `prefix` is a prefix of
    `k`, for every prefix – including the empty one and prefixes of 0xff bytes only, whose limit is
    nil (unbounded). -/
theorem bytesPrefix_spec (pfx k : Bytes) :
    (ble pfx k = true ∧ (match bytesPrefixLimit pfx with | none => True | some l => blt k l = true)) ↔ pfx <+: k :=
  inRange_bytesPrefix_iff pfx k

theorem bytesPrefix_unbounded_iff (pfx : Bytes) : bytesPrefixLimit pfx = none ↔ ∀ c ∈ pfx, c = 0xff :=
  bytesPrefixLimit_eq_none_iff pfx

example : bytesPrefixLimit [0x61, 0xff, 0xff] = some [0x62] := by decide
example : bytesPrefixLimit [0xff, 0xff] = none := by decide

end MW.Props.C11
