/-
  C11 — The wallet database gives atomic, isolated, ordered key/value transactions.
  PROPERTY THEOREMS ONLY (helper lemmas live in MW/Lemmas/Kv*.lean).

  Model: MW.Model.KV + MW.Model.KVSys  (masswallet/db/ldb/leveldb.go, db.BytesPrefix/View/Update
         of masswallet/db/db.go, as written; goleveldb = sorted map with atomic batches).
  Spec:  MW.Spec.KV  (buckets = a set of paths, data = Path → Key → Option Val, a write transaction
         = a private copy that replaces the committed database at commit).
-/
import MW.Model.KVSys
import MW.Spec.KV
import MW.Lemmas.KvDelete
import MW.Lemmas.KvIterW
import MW.Lemmas.KvSnapshot
import MW.Lemmas.KvHandlesRefine
import MW.Lemmas.KvIterRyw
import MW.Lemmas.LedBytesKV
namespace MW.Props.C11
open MW MW.KV MW.Model.KV

/-! ## 1. key encoding -/

/-- `innerKey_inj`: for bucket names accepted by isValidBucketName, the encodings
    `<depth>_<names…>_<key>` of distinct (bucket path, key) pairs differ – whatever bytes the keys
    contain (separators, digits that look like a depth prefix, 0xff …). -/
theorem innerKey_inj {p q : Path} (hp : ∀ n ∈ p, ValidName n) (hq : ∀ n ∈ q, ValidName n) {k k' : Bytes}
    (h : dataKey p k = dataKey q k') : p = q ∧ k = k' :=
  dataKey_injective (noSep_of_valid hp) (noSep_of_valid hq) h

/-- `prefix_isolated`: the range scanned by GetByPrefix / Clear / an iterator of bucket `q`
    (all keys starting with `<path q>_<prefix>`) contains a data key of bucket `p` only if `p = q`,
    and then exactly when the key starts with the prefix. -/
theorem prefix_isolated {p q : Path} (hp : ∀ n ∈ p, ValidName n) (hq : ∀ n ∈ q, ValidName n) (pfx k : Bytes) :
    dataKey q pfx <+: dataKey p k ↔ p = q ∧ pfx <+: k :=
  dataKey_prefix_iff (noSep_of_valid hp) (noSep_of_valid hq) pfx k

/-- `index_disjoint`: data keys never collide with bucket-name index keys, no data prefix scan
    reaches an index key, no index scan reaches a data key, distinct buckets have distinct index
    keys, and the index scan of BucketNames for bucket `q` matches exactly the index keys of the
    direct children `q ++ [n]`. -/
theorem index_disjoint :
    (∀ (p : Path) (k s : Bytes), dataKey p k ≠ indexKey s) ∧
    (∀ (p : Path) (pfx s : Bytes), ¬ (dataKey p pfx <+: indexKey s)) ∧
    (∀ (s t : Bytes) (p : Path) (k : Bytes), ¬ (indexKey s ++ t <+: dataKey p k)) ∧
    (∀ {p q : Path}, (∀ n ∈ p, ValidName n) → (∀ n ∈ q, ValidName n) → idxKey p = idxKey q → p = q) ∧
    (∀ {q r : Path}, (∀ n ∈ q, ValidName n) → (∀ n ∈ r, ValidName n) →
        (childScanPrefix q <+: idxKey r ↔ ∃ n, r = q ++ [n])) :=
  ⟨dataKey_ne_indexKey, dataPrefix_not_prefix_indexKey, indexPrefix_not_prefix_dataKey,
   fun hp hq h => idxKey_injective (noSep_of_valid hp) (noSep_of_valid hq) h,
   fun hq hr => childScan_matches_iff (noSep_of_valid hq) (noSep_of_valid hr)⟩

-- the hypotheses are satisfiable by adversarial names: digits, the index letter, 0xff
example : ∀ n ∈ ([[49], [98, 0xff], [49, 48]] : Path), ValidName n := by
  intro n hn; simp at hn; rcases hn with rfl | rfl | rfl <;> (unfold ValidName; decide)
-- bucket 2/… with key "1_2": the encoding the code builds
example : dataKey [[49], [50]] [49, 95, 50] = [50, 95, 49, 95, 50, 95, 49, 95, 50] := by
  unfold dataKey pathBytes join itoa; rw [Dec.render]; decide

/-! ## 2. range arithmetic -/

/-- `bytesPrefix_spec`: `k ∈ [start, limit)` of `BytesPrefix(prefix)` ⇔ `prefix` is a prefix of
    `k`, for every prefix – including the empty one and prefixes of 0xff bytes only, whose limit is
    nil (unbounded). -/
theorem bytesPrefix_spec (pfx k : Bytes) :
    (ble pfx k = true ∧ (match bytesPrefixLimit pfx with | none => True | some l => blt k l = true)) ↔ pfx <+: k :=
  inRange_bytesPrefix_iff pfx k

theorem bytesPrefix_unbounded_iff (pfx : Bytes) : bytesPrefixLimit pfx = none ↔ ∀ c ∈ pfx, c = 0xff :=
  bytesPrefixLimit_eq_none_iff pfx

example : bytesPrefixLimit [0x61, 0xff, 0xff] = some [0x62] := by decide
example : bytesPrefixLimit [0xff, 0xff] = none := by decide

/-! ## 3. read-your-writes inside a write transaction

  `tx.Inv`: the committed store is sorted and the batch was built by Put / Delete calls
  (`Sys.step_inv`: every transaction the system model reaches satisfies it).
  `tx.roView`: the read-only transaction on `tx.commit` = `apply committed batch`. -/

/-- `get_ryw`: a point read inside a transaction returns what the store it would commit holds. -/
theorem get_ryw {tx : Tx} (h : tx.Inv) (b : Bucket) (key : Bytes) :
    b.get tx key = b.get tx.roView key ∧
    b.get tx key = (if key.length == 0 then none else tx.commit.get (b.path ++ sep :: key)) :=
  ⟨Bucket.get_ryw h b key, Bucket.get_eq h b key⟩

/-- `getByPrefix_ryw`: a prefix read inside a transaction returns exactly the entries (each once,
    in some order) that a read-only transaction finds in the store it would commit. -/
theorem getByPrefix_ryw {tx : Tx} (h : tx.Inv) (b : Bucket) (pfx : Bytes) :
    (b.getByPrefix tx pfx).Perm (b.getByPrefix tx.roView pfx) :=
  Bucket.getByPrefix_ryw h b pfx

/-- `bucketNames_ryw`: bucket listings (transaction level, and of a bucket reached through valid
    names) inside a transaction fail exactly when the read-only listing of the store it would
    commit fails, and otherwise list the same names, each once. -/
theorem bucketNames_ryw {tx : Tx} (h : tx.Inv) :
    SameListing tx.bucketNames tx.roView.bucketNames ∧
    ∀ {b : Bucket} {p : Path}, b.IsAt p → SameListing (b.bucketNames tx) (b.bucketNames tx.roView) :=
  ⟨Tx.bucketNames_ryw h, fun hb => Bucket.bucketNames_ryw h hb⟩

/-- bucket existence as seen by TopLevelBucket / Bucket / NewBucket also reads the batch (this is
    what the repaired `bucketExists` provides) -/
theorem bucketExists_ryw {tx : Tx} (h : tx.Inv) (key : Bytes) :
    tx.bucketExists key = (tx.commit.get key).isSome :=
  Tx.bucketExists_ryw h key

-- a non-trivial transaction satisfying the hypothesis: committed {01↦02}, batch put 03, delete 01
example : Tx.Inv { readOnly := false, db := [([1], [2])], b := Batch.replay [.put [3] [4], .del [1]] } :=
  ⟨by simp [SMap.Sorted], Batch.inv_replay _⟩
example : Bucket.IsAt { name := [97], path := pathBytes [[97]], depth := 1 } [[97]] :=
  ⟨by simp, by intro x hx; simp at hx; subst hx; decide, rfl, rfl⟩

/-! ## 4. atomic commit -/

/-- `commit_atomic`:
    (a) replaying the op log of a batch on any store gives, key by key, the net effect described
        by the sequence-numbered `puts` / `deletes` maps – for every batch built by Put / Delete;
    (b) Commit replaces the store by `apply committed batch`, Rollback (and an error return from
        db.Update, which calls Rollback) leaves it unchanged, and neither leaves a writer open;
    (c) while a write transaction is open a second BeginTx blocks (LevelDB.muTr);
    (d) every state the system reaches has a sorted store and a well-built batch. -/
theorem commit_atomic :
    (∀ (log : List BOp) (db : Store) (k : Bytes),
        (applyLog db log).get k = view db (Batch.replay log) k ∧ (Batch.replay log).log = log) ∧
    (∀ (s : Sys) (bt : Batch), s.w = some bt →
        (s.step .commit).1.db = applyLog s.db bt.log ∧ (s.step .commit).1.w = none ∧
        (s.step .rollback).1.db = s.db ∧ (s.step .rollback).1.w = none) ∧
    (∀ (s : Sys), (s.step .probe).2 = (if s.w.isSome then Obs.blocked else Obs.acquired) ∧
        (s.w.isSome → (s.step .beginW) = (s, Obs.badop))) ∧
    (∀ (s : Sys) (op : Op), s.Inv → (s.step op).1.Inv) := by
  refine ⟨?_, ?_, ?_, fun s op h => Sys.step_inv h op⟩
  · intro log db k
    have hlog : ∀ (l : List BOp) (b : Batch), (l.foldl Batch.step b).log = b.log ++ l := by
      intro l
      induction l with
      | nil => intro b; simp
      | cons op rest ih =>
        intro b
        simp only [List.foldl_cons, ih]
        cases op <;> simp [Batch.step, Batch.put, Batch.delete]
    have h2 : (Batch.replay log).log = log := by
      unfold Batch.replay; rw [hlog]; rfl
    refine ⟨?_, h2⟩
    have := (Batch.inv_replay log).viewOk db k
    rw [h2] at this
    exact this
  · intro s bt hw
    simp [Sys.step, hw, Tx.commit, Tx.rollback]
  · intro s
    refine ⟨rfl, ?_⟩
    intro hw
    simp [Sys.step, hw]

/-! ## 5. ordered iteration -/

/-- `iter_sorted`: in a read-only transaction on a store related to database `d`, an iterator
    over `[start, limit)` of an existing bucket walks a range that – once the bucket prefix is
    stripped – is exactly the bucket's entries with `start ≤ key` (`< limit` unless the limit is
    empty), strictly ascending, each once; and any script of Seek / Next / drain steps observes what
    a cursor over that list observes. -/
theorem iter_sorted {s : Store} {d : Spec.KV.DB} (h : Rel s d) {b : Bucket} {p : Path} (hb : b.IsAt p)
    (hp : p ∈ d.buckets) (start limit : Bytes) :
    let entries := (d.bucketEntries p).filter fun e => ble start e.1 && (limit.length == 0 || blt e.1 limit)
    (b.newIterator (ro s) start limit).rng.map (strip ((pathBytes p).length + 1)) = entries ∧
    entries.Pairwise (fun a b => blt a.1 b.1 = true) ∧
    (∀ k v, (k, v) ∈ entries ↔ d.get p k = some v ∧ ble start k = true ∧ (limit.length == 0 || blt k limit) = true) ∧
    ∀ sc, Obs.steps (runScript b (b.newIterator (ro s) start limit) sc) = d.iter p start limit sc := by
  refine ⟨?_, ?_, ?_, fun sc => h.iter hb hp start limit sc⟩
  · rw [Bucket.newIterator_rng hb]; exact h.iterRange_eq hp start limit
  · exact List.Pairwise.filter _ (DB.bucketEntries_sorted d h.dNodup p)
  · intro k v
    simp only [List.mem_filter, DB.mem_bucketEntries, Bool.and_eq_true, DB.get_eq_some_iff h.dNodup]

example : Rel [] {} := Rel.init
-- a related store / database pair with an existing bucket `a` (hypotheses of `iter_sorted`)
example : ∃ (s : Store) (d : Spec.KV.DB), Rel s d ∧ [[97]] ∈ d.buckets :=
  ⟨SMap.insert [] (idxKey ([] ++ [[97]])) [97], _,
   Rel.init.create (q := []) (n := [97]) (Or.inl rfl) (by unfold ValidName; decide) (by simp)
     (SMap.insert_sorted SMap.sorted_nil _ _) (by intro k0; rw [SMap.get_insert]),
   by simp⟩

/-- Not claimed by the property (and false): the iterator INSIDE a write transaction is "committed
    range, then the batch's net puts in range" – it neither hides a committed key the transaction
    deleted nor replaces an overwritten value (`iter_write_shape`; modelled as written). Witness:
    committed a↦1; the transaction deletes a and puts b↦2; the iterator still yields a, then b. -/
example :
    let b : Bucket := { name := [97], path := [49, 95, 97], depth := 1 }          -- bucket "a": path 1_a
    let tx : Tx := { readOnly := false, db := [([49, 95, 97, 95, 97], [1])],       -- committed 1_a_a ↦ 01
                     b := Batch.replay [.del [49, 95, 97, 95, 97], .put [49, 95, 97, 95, 98] [2]] }
    runScript b (b.newIterator tx [] []) [.all] =
      [(true, some [97], some [1]), (true, some [98], some [2]), (false, none, none)] ∧
    b.get tx [97] = none := by
  decide

/-- `iter_write_shape` (a characterisation, not a property claim): draining a fresh iterator inside
    a write transaction yields the committed entries of the range, then the batch's net puts whose
    key lies in the range (ascending), then stops – the layering of levelIterator over
    batchIterator exactly as leveldb.go has it. The ledger / handler models that iterate inside
    write transactions get these semantics, no more. -/
theorem iter_write_shape (tx : Tx) (hw : tx.readOnly = false) (b : Bucket) (st l : Bytes) :
    let s' := (b.iterBounds st l).1      -- <path>_<start>
    let l' := (b.iterBounds st l).2      -- <path>_<limit>, or the end of the bucket; never below s'
    let inR : Bytes → Bool := fun k => ble s' k && (match l' with | none => false | some x => blt k x)
    runScript b (b.newIterator tx st l) [.all] =
      (tx.db.range s' l').map (yielded b.pathLen) ++
        ((tx.b.netPuts []).filter fun e => inR e.1).map (yielded b.pathLen) ++ [(false, none, none)] :=
  Model.KV.iter_write_shape tx hw b st l

/-! ## 6. THE property -/

/-- `kv_refines`: for every history of begin / commit / rollback / reopen / probe and bucket
    create / delete, put, delete, clear, get, prefix-get, names, iterate (Seek / Next scripts) over
    nested buckets – arbitrary names, keys and values – run from the empty database, each
    observable result of the model equals the specification's (`ObsAgree`: equal; prefix reads and
    listings inside a write transaction are compared as sorted lists, because the code returns
    them in Go-map order; the specification makes no claim about iterators inside a write
    transaction). Proved by induction over the history through the abstraction relation
    `SysRel` (store ↔ database: `Rel`). -/
theorem kv_refines (ops : List Op) : RunsAgree ops (Model.KV.run {} ops) (Spec.KV.run {} ops) :=
  run_sim deleteSpec ops {} {} SysRel.init

/-- one step, from any pair of related states (the inductive core of `kv_refines`) -/
theorem kv_step_refines {m : Sys} {σ : Spec.KV.Sys} (h : SysRel m σ) (op : Op) :
    SysRel (m.step op).1 (σ.step op).1 ∧ ObsAgree op (m.step op).2 (σ.step op).2 :=
  step_sim deleteSpec h op

example : SysRel {} {} := SysRel.init
example : Sys.Inv {} := Sys.inv_init

/-- isolation from the writer, spelled out: what an operation through the read transaction
    returns depends neither on the pending batch nor on the live store – only on the snapshot -/
theorem reader_isolated (s : Sys) (bt bt' : Option Batch) (db db' : Store) (op : Op) (h : slotOf op = some Slot.r) :
    ({ s with w := bt, db := db }.step op).2 = ({ s with w := bt', db := db' }.step op).2 := by
  rw [Sys.step_data h, Sys.step_data h]
  simp only
  split <;> rfl

/-- `reader_snapshot` (snapshot isolation of read transactions, the behaviour BeginReadTx has
    since it takes a goleveldb snapshot): begin a read transaction in any state `s` without one,
    then let ANY history `ops` run that does not end it – write transactions, commits, rollbacks,
    other reads –: every operation `op` then issued through the read transaction observes exactly
    what a read-only transaction on the store committed at its begin (`s.db`) observes. -/
theorem reader_snapshot (s : Sys) (h0 : s.reader = none) (ops : List Op) (hno : Op.endR ∉ ops)
    (op : Op) (hr : slotOf op = some Slot.r) :
    (((s.step .beginR).1.after ops).step op).2 = (dataOp { readOnly := true, db := s.db } op).1 :=
  Sys.step_reader_obs (Sys.after_reader_keep ops _ (Sys.beginR_snapshot h0) hno) hr

/-- the same from any state whose read transaction holds snapshot `snap`; and only the reader's
    own end releases the snapshot -/
theorem reader_snapshot_kept (s : Sys) (snap : Store) (hs : s.reader = some snap) (ops : List Op)
    (hno : Op.endR ∉ ops) :
    (s.after ops).reader = some snap ∧
    ∀ op, slotOf op = some Slot.r → ((s.after ops).step op).2 = (dataOp { readOnly := true, db := snap } op).1 :=
  ⟨Sys.after_reader_keep ops s hs hno, fun _ hr => Sys.step_reader_obs (Sys.after_reader_keep ops s hs hno) hr⟩

-- hypotheses are satisfiable: a history with a commit in it, and a read-slot operation
example : Op.endR ∉ [Op.beginW, Op.create .w [[97]], Op.commit] ∧ slotOf (Op.get .r [[97]] [1]) = some Slot.r := by
  decide
-- … and on it the reader does not see the bucket committed meanwhile, a new reader does
example :
    let ops := [Op.beginR, Op.beginW, Op.create .w [[97]], Op.commit, Op.has .r [[97]], Op.endR, Op.beginR, Op.has .r [[97]]]
    Model.KV.run {} ops = [.ok, .ok, .ok, .ok, .bool false, .ok, .ok, .bool true] := by
  decide

/-- recursive bucket deletion: with the budget DeleteBucket computes it never runs out of fuel,
    removes the bucket, every bucket below it and all their entries, and nothing else -/
theorem deleteBucket_total : DeleteSpec := deleteSpec

/-! ## 7. round 4 — what callers keep across operations: bucket handles, BucketMeta / FetchBucket, and
    a read transaction after its end (model MW.Model.KVHandles, specification MW.Spec.KVX) -/

/-- `handle_follows_path`: a method called on a KEPT bucket handle `hb` – obtained at any earlier
    time for bucket `p` – does exactly what the same operation does when it navigates again from the
    transaction to `p ++ rel`, whenever navigation finds bucket `p` now (also when `p` or an ancestor
    was deleted and created again meanwhile: a handle is its path). -/
theorem handle_follows_path {tx : Tx} {p : Path} {hb : Bucket} (h : nav tx p = some hb) (op : Op)
    (hs : Spec.KV.viaShapeOK op = true) (hsl : slotOf op ≠ none) :
    dataOpVia tx hb op = dataOp tx (Spec.KV.reroot p op) :=
  dataOpVia_eq h op hs hsl

-- non-trivial instance: the handle of bucket a/b after `a/b` was deleted and created again
example :
    let tx0 : Tx := { readOnly := false, db := [] }
    let tx1 := (dataOp tx0 (.create .w [[97]])).2
    let tx2 := (dataOp tx1 (.create .w [[97], [98]])).2
    let hb := (nav tx2 [[97], [98]]).getD { name := [], path := [], depth := 0 }
    let tx3 := (dataOp tx2 (.delb .w [[97], [98]])).2
    let tx4 := (dataOp tx3 (.create .w [[97], [98]])).2
    nav tx4 [[97], [98]] = some hb ∧ nav tx3 [[97], [98]] = none := by decide +kernel

/-- `fetchBucket_cache_transparent`: FetchBucket (with the repaired revalidation of a cache hit)
    answers exactly "the bucket the meta names exists in the transaction's view" – the view that
    includes the transaction's own pending creates and deletes –, hands out the handle navigation
    would build, and keeps the cache invariant. -/
theorem fetchBucket_cache_transparent {tx : Tx} {d : Spec.KV.DB} (htx : TxRel tx d) {cache : AMap.T Nat Bucket}
    {sm : AMap.T Nat Path} (hci : CacheInv tx cache sm) {m : Nat} {p : Path} (hm : AMap.get sm m = some p)
    {b : Bucket} (hb : pureNav p = some b) (hba : b.IsAt p) :
    (tx.fetchCached cache m b.metaPaths).1 = (if d.has p then some b else none) ∧
    CacheInv tx (tx.fetchCached cache m b.metaPaths).2 sm :=
  fetchCached_spec htx hci hm hb hba

example (tx : Tx) (sm : AMap.T Nat Path) : CacheInv tx [] sm := CacheInv.nil tx sm

/-- `kv_refines_x`: THE property for histories that also keep bucket handles and BucketMeta objects
    across operations (`keep`, `getMeta`, `fetch` through the per-transaction cache, `via` = any data
    operation through a kept handle, also after the bucket or an ancestor was deleted and created
    again in the same transaction) and use a read transaction and its bucket handles after its
    Rollback (`dead`, `deadVia`): every observable result of the model equals the specification's,
    up to the first operation that WRITES through the handle of a bucket that does not exist in
    the write transaction's view (out of contract); READS through such a handle find an empty bucket
    and nothing below it (`Spec.KV.staleRead`). -/
theorem kv_refines_x (ops : List OpX) : RunsAgreeX ops (Model.KV.runX {} ops) (Spec.KV.runX {} ops) :=
  runX_sim deleteSpec ops {} {} SysRelX.init

/-- one step of the extended system from any pair of related states -/
theorem kv_stepX_refines {m : SysX} {σ : Spec.KV.SysX} (h : SysRelX m σ) (op : OpX) :
    (σ.step op).2 = .outOfContract ∨
    (SysRelX (m.step op).1 (σ.step op).1 ∧ ObsAgreeX op (m.step op).2 (σ.step op).2) :=
  stepX_sim deleteSpec h op

example : SysRelX {} {} := SysRelX.init

/-- the extended model run on a history of plain operations IS the model of `kv_refines` -/
theorem kv_x_conservative (ops : List Op) : Model.KV.runX {} (ops.map .base) = Model.KV.run {} ops :=
  runX_base ops {}

/-- a history inside the contract (no `outOfContract`): meta, fetch (miss, hit), delete, fetch again
    (the cached handle is NOT handed out: D44), re-create, fetch, and operations through the handle
    kept from before the delete. -/
example :
    let a : Bytes := [97]
    let b : Bytes := [98]
    let ops : List OpX := [
      .base .beginW, .base (.create .w [a]), .base (.create .w [a, b]), .base (.put .w [a, b] [1] [2]),
      .getMeta .w 0 [a, b], .base .commit, .base .beginW,
      .fetch .w 0 0, .fetch .w 1 0, .via 0 (.get .w [] [1]),
      .base (.delb .w [a, b]), .fetch .w 2 0, .via 0 (.get .w [] [1]),
      .base (.create .w [a, b]), .fetch .w 2 0, .via 0 (.put .w [] [3] [4]), .via 2 (.get .w [] [3]),
      .base .commit, .base .beginR, .keep .r 0 [a, b], .base .endR, .deadVia 0 (.get .r [] [3]), .dead (.has .r [a])]
    Spec.KV.runX {} ops =
      [.ok, .ok, .ok, .ok, .ok, .ok, .ok,
       .bool true, .bool true, .val (some [2]),
       .ok, .bool false, .val none,
       .ok, .bool true, .ok, .val (some [4]),
       .ok, .ok, .bool true, .ok, .err .released, .bool false] ∧
    Model.KV.runX {} ops =
      [.ok, .ok, .ok, .ok, .ok, .ok, .ok,
       .bool true, .bool true, .val (some [2]),
       .ok, .bool false, .val none,
       .ok, .bool true, .ok, .val (some [4]),
       .ok, .ok, .bool true, .ok, .err .released, .bool false] := by
  decide +kernel

/-- the contract is NECESSARY: a write through the handle of a deleted bucket is accepted by the
    driver and stores an orphan entry, which a later bucket of the same path inherits – the model
    (and the real driver: corpus/kv/C11-kept-handles.ops, class via-stale-write) shows `6b ↦ 01` in
    the new bucket, where any specification by buckets and maps has an empty bucket. -/
example :
    let a : Bytes := [97]
    let b : Bytes := [98]
    let ops : List OpX := [
      .base .beginW, .base (.create .w [a]), .base (.create .w [a, b]), .keep .w 0 [a, b],
      .base (.delb .w [a, b]), .via 0 (.put .w [] [0x6b] [1]),
      .base (.create .w [a, b]), .base (.pfx .w [a, b] [])]
    (Spec.KV.runX {} ops).getD 5 .ok = .outOfContract ∧
    (Model.KV.runX {} ops).getLast? = some (.entries [([0x6b], [1])]) := by
  decide +kernel

/-! ## 8. round 4 — the iterator inside a write transaction against the read-your-writes view -/

/-- `iter_write_spec`: EXACTLY what a fresh iterator inside a write transaction yields when drained:
    the limit NewIterator computes is never nil, and the yielded entries are `iterWEntries` = the
    committed entries of `[start', limit')` followed by the batch's net puts with key in
    `[start', limit')` – no committed entry is masked by a delete of the transaction, none is
    replaced by the value the transaction put (the new value comes later, as a second entry). -/
theorem iter_write_spec (tx : Tx) (hw : tx.readOnly = false) (b : Bucket) (st l : Bytes) :
    ∃ lim, (b.iterBounds st l).2 = some lim ∧
      runScript b (b.newIterator tx st l) [.all] =
        (iterWEntries tx (b.iterBounds st l).1 lim).map (yielded b.pathLen) ++ [(false, none, none)] := by
  obtain ⟨lim, hl⟩ := iterBounds_limit_some b st l
  refine ⟨lim, hl, ?_⟩
  have h := Model.KV.iter_write_shape tx hw b st l
  simp only [hl] at h
  rw [h, iterWEntries, List.map_append]

/-- `iter_write_superset` (always): every entry of the read-your-writes view (the store the
    transaction would commit) in the range has its key among the yielded entries – the iterator
    never misses a key; in particular "is there any entry under this prefix" (ExistCreditFromTx)
    has no false negative. -/
theorem iter_write_superset {tx : Tx} (h : tx.Inv) (hw : tx.readOnly = false) (s' lim : Bytes) :
    ∀ e ∈ tx.commit.range s' (some lim), ∃ e' ∈ iterWEntries tx s' lim, e'.1 = e.1 :=
  iterW_superset h hw s' lim

/-- `iter_write_ryw`: the sufficient condition under which the iterator DOES show the
    read-your-writes view: if the transaction's batch has neither deleted nor (re-)put any COMMITTED
    key of the range (`RangeUntouched`; keys it created itself may have been put, deleted, re-put at
    will), the yielded entries, sorted by key, are exactly the entries a read-only iterator finds in
    the store the transaction would commit – each once. -/
theorem iter_write_ryw {tx : Tx} (h : tx.Inv) (hw : tx.readOnly = false) (b : Bucket) (st l lim : Bytes)
    (hl : (b.iterBounds st l).2 = some lim) (hu : RangeUntouched tx (b.iterBounds st l).1 lim) :
    sortBy (fun a b : Bytes × Bytes => blt a.1 b.1) (iterWEntries tx (b.iterBounds st l).1 lim) =
      (b.newIterator tx.roView st l).rng := by
  rw [iterW_ryw h hw _ _ hu]
  show _ = tx.commit.range (b.iterBounds st l).1 (b.iterBounds st l).2
  rw [hl]

/-- `iter_write_exists` – the exact answer of "is there an entry in this range" asked through a
    fresh iterator inside a write transaction (`ExistCreditFromTx`: `NewIterator(BytesPrefix(hash))`,
    one `Next()`): it is `true` iff the read-your-writes view has an entry in the range, OR the
    committed range is non-empty and this transaction has deleted every key of it (the only
    deviation: a false positive; never a false negative). -/
theorem iter_write_exists {tx : Tx} (h : tx.Inv) (hw : tx.readOnly = false) (b : Bucket) (st l lim : Bytes)
    (hl : (b.iterBounds st l).2 = some lim) :
    ((b.newIterator tx st l).next).2 = true ↔
      ((b.newIterator tx.roView st l).rng ≠ [] ∨
       (tx.db.range (b.iterBounds st l).1 (some lim) ≠ [] ∧
        ∀ e ∈ tx.db.range (b.iterBounds st l).1 (some lim), (tx.b.get e.1).2 = true)) := by
  rw [first_next_iff tx hw b st l lim hl, iterW_nonempty_iff h hw]
  show _ ↔ (tx.commit.range (b.iterBounds st l).1 (b.iterBounds st l).2 ≠ [] ∨ _)
  rw [hl]

-- both branches occur: committed 1_a_a; (1) untouched: the view has it; (2) the transaction deleted it: false positive
example :
    let b : Bucket := { name := [97], path := [49, 95, 97], depth := 1 }
    let tx1 : Tx := { readOnly := false, db := [([49, 95, 97, 95, 97], [1])], b := {} }
    let tx2 : Tx := { readOnly := false, db := [([49, 95, 97, 95, 97], [1])], b := Batch.replay [.del [49, 95, 97, 95, 97]] }
    ((b.newIterator tx1 [] []).next).2 = true ∧ (b.newIterator tx1.roView [] []).rng ≠ [] ∧
    ((b.newIterator tx2 [] []).next).2 = true ∧ (b.newIterator tx2.roView [] []).rng = [] ∧ b.getByPrefix tx2 [] = [] := by
  decide

/-- two ways to meet the condition: nothing written yet (the wallet's removal step starts with such
    an iteration), or nothing written to a key of the range (writes to other buckets only) -/
theorem iter_write_ryw_conditions :
    (∀ (tx : Tx) (s' lim : Bytes), tx.b = {} → RangeUntouched tx s' lim) ∧
    (∀ (tx : Tx) (s' lim : Bytes),
      (∀ k, ble s' k = true → blt k lim = true → tx.b.puts.get k = none ∧ tx.b.deletes.get k = none) →
      RangeUntouched tx s' lim) :=
  ⟨fun _ s' lim hb => rangeUntouched_of_empty hb s' lim, fun _ s' lim ho => rangeUntouched_of_outside s' lim ho⟩

/-- … and the shape the wallet's removal step has when it iterates the credits: `NewIterator(nil)` over
    a whole bucket `p` in a transaction that has so far written only to OTHER buckets (or to the
    bucket index) – whatever it put, deleted or overwrote there. -/
theorem iter_write_ryw_other_buckets {tx : Tx} {b : Bucket} {p : Path} (hb : b.IsAt p) (lim : Bytes)
    (hl : (b.iterBounds [] []).2 = some lim)
    (hk : ∀ k, ((tx.b.puts.get k).isSome = true ∨ (tx.b.deletes.get k).isSome = true) →
      (∃ q kk, NoSep q ∧ q ≠ p ∧ k = dataKey q kk) ∨ ∃ s, k = indexKey s) :
    RangeUntouched tx (b.iterBounds [] []).1 lim :=
  rangeUntouched_other_buckets hb lim hl hk

-- instance: bucket `a`; the batch overwrote and deleted keys of bucket `b` only
example :
    let tx : Tx := { readOnly := false, db := [([49, 95, 97, 95, 97], [1]), ([49, 95, 98, 95, 97], [2])],
                     b := Batch.replay [.put [49, 95, 98, 95, 97] [3], .del [49, 95, 98, 95, 97]] }
    ∀ k, ((tx.b.puts.get k).isSome = true ∨ (tx.b.deletes.get k).isSome = true) →
      (∃ q kk, NoSep q ∧ q ≠ [[97]] ∧ k = dataKey q kk) ∨ ∃ s, k = indexKey s := by
  intro tx k hk
  left
  have hkey : k = [49, 95, 98, 95, 97] := by
    have h1 : tx.b.puts = [([49, 95, 98, 95, 97], ([3], 1))] := by decide
    have h2 : tx.b.deletes = [([49, 95, 98, 95, 97], 2)] := by decide
    rw [h1, h2] at hk
    simp only [SMap.get] at hk
    by_cases hne : k = [49, 95, 98, 95, 97]
    · exact hne
    · simp [hne] at hk
  refine ⟨[[98]], [97], by intro x hx; simp at hx; subst hx; decide, by decide, ?_⟩
  rw [hkey]; decide +kernel

-- the condition holds in a non-trivial transaction: committed 1_a_a, 1_a_c; the transaction puts the new key 1_a_b,
-- deletes it, puts it again, and writes to bucket 1_b
example :
    let tx : Tx := { readOnly := false, db := [([49, 95, 97, 95, 97], [1]), ([49, 95, 97, 95, 99], [3])],
                     b := Batch.replay [.put [49, 95, 97, 95, 98] [2], .del [49, 95, 97, 95, 98],
                                        .put [49, 95, 97, 95, 98] [4], .put [49, 95, 98, 95, 97] [9]] }
    RangeUntouched tx [49, 95, 97, 95] [49, 95, 97, 96] ∧ tx.Inv := by
  refine ⟨?_, ⟨by simp only [SMap.Sorted]; decide, Batch.inv_replay _⟩⟩
  unfold RangeUntouched
  decide

/-- the condition is NECESSARY in both halves: after an OVERRIDE of a committed key the iterator
    yields the key twice (old value first), after a DELETE it still yields the key -/
example :
    let b : Bucket := { name := [97], path := [49, 95, 97], depth := 1 }
    let tx : Tx := { readOnly := false, db := [([49, 95, 97, 95, 97], [1])],
                     b := Batch.replay [.put [49, 95, 97, 95, 97] [2]] }
    runScript b (b.newIterator tx [] []) [.all] =
      [(true, some [97], some [1]), (true, some [97], some [2]), (false, none, none)] ∧
    b.get tx [97] = some [2] := by
  decide
/-! ## 8. a bucket as a byte-keyed association list (the interface the ledger's byte store is built on)

  `MW.LedBytes.bucketOf d p`: the entries of bucket `p` of the specification database `d`.  On it the specification's
  Get / Put / Delete / GetByPrefix ARE `AMap.get / put / erase / scan` (MW.Base.AMap, the maps of the ledger model):
  with `kv_refines` this makes the ledger's `BStore` (MW.Props.C01.LedBytes) a view of what leveldb.go stores. -/

theorem bucket_get (d : Spec.KV.DB) (p : Path) (k : Bytes) : d.get p k = AMap.get (MW.LedBytes.bucketOf d p) k :=
  MW.LedBytes.get_bucketOf d p k

/-- Put on an existing bucket with the non-empty key and value the driver insists on -/
theorem bucket_put (d : Spec.KV.DB) (p : Path) (k v : Bytes) (hb : d.has p = true) (hk : k ≠ []) (hv : v ≠ []) :
    (d.put false p k v).1 = Obs.ok ∧
    MW.LedBytes.bucketOf (d.put false p k v).2 p = AMap.put (MW.LedBytes.bucketOf d p) k v ∧
    (∀ q, q ≠ p → MW.LedBytes.bucketOf (d.put false p k v).2 q = MW.LedBytes.bucketOf d q) ∧
    (d.put false p k v).2.buckets = d.buckets := MW.LedBytes.put_bucketOf d p k v hb hk hv

theorem bucket_del (d : Spec.KV.DB) (p : Path) (k : Bytes) (hb : d.has p = true) :
    (d.del false p k).1 = Obs.ok ∧
    MW.LedBytes.bucketOf (d.del false p k).2 p = AMap.erase (MW.LedBytes.bucketOf d p) k ∧
    (∀ q, q ≠ p → MW.LedBytes.bucketOf (d.del false p k).2 q = MW.LedBytes.bucketOf d q) ∧
    (d.del false p k).2.buckets = d.buckets := MW.LedBytes.del_bucketOf d p k hb

/-- GetByPrefix: the same members (the specification sorts them; the code returns Go-map order in a write transaction) -/
theorem bucket_pfx (d : Spec.KV.DB) (p : Path) (pfx : Bytes) (e : Bytes × Bytes) :
    e ∈ (d.bucketEntries p).filter (fun e => pfx.isPrefixOf e.1) ↔
    e ∈ AMap.scan (MW.LedBytes.bucketOf d p) (fun b => pfx.isPrefixOf b) := MW.LedBytes.pfx_bucketOf d p pfx e

-- an existing bucket "c" with one entry: the hypotheses of bucket_put / bucket_del hold
example : let d : Spec.KV.DB := { buckets := [[[99]]], data := [(([[99]], [1]), [2])] }
    d.has [[99]] = true ∧ MW.LedBytes.bucketOf d [[99]] = [([1], [2])] := by decide

end MW.Props.C11
