/- C11 placeholder (being filled in) -/
import MW.Model.KVSys
import MW.Spec.KV
namespace MW.Props.C11
open MW MW.KV MW.Model.KV

theorem bytesPrefix_spec : bytesPrefixLimit [] = none := rfl

end MW.Props.C11
