/-
  C10 — Staking and binding deposits follow their lifecycle exactly.   PROPERTY THEOREMS.
-/
import MW.Model.Ledger
import MW.Spec.Chain
namespace MW.Props.C10
open MW MW.Model.Ledger MW.Spec.Chain

/-- the maturity the wallet records for a staking output is frozen period + 1, the sequence value
    consensus requires for spending it (`withdraw_sequence`, value part) -/
theorem staking_maturity (f : Nat) : (Cls.stk f).maturity = f + 1 := rfl

/-- new-style binding outputs carry the MASSIP-2 locked period -/
theorem binding_new_maturity (t : String) : (Cls.bindNew t).maturity = 0xfffffffe := rfl

/-- deposits are never ordinary spendable funds: their class is not `standard` -/
theorem deposit_not_standard (c : Cls) (h : c.isStaking = true ∨ c.isBinding = true) :
    uclassOf c ≠ .standard := by
  unfold uclassOf
  rcases h with h | h
  · simp [h]
  · cases hs : c.isStaking <;> simp [hs, h]

end MW.Props.C10
