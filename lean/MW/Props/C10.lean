/-
  C10 — Staking and binding deposits follow their lifecycle exactly.   PROPERTY THEOREMS.

  Model: MW.Model.Ledger (`Store.game` = the deposit-history bucket, `Store.credits`, `coinsOf`, `walletBalance`);
  Spec: MW.Spec.Chain (`deposits own chain w` with `withdrawn` = "a transaction of the chain spends it",
  `spendableAt` = the consensus maturity / sequence-lock rule, `balance`).
  A staking / binding output OF A COINBASE needs both the coinbase maturity and the lock of its script: the
  stored maturity is the max of the two (`deposit_credit_stk_cb`, `staking_cb_withdrawable_iff`).
  Hypothesis `Inv c s chain` (MW.Lemmas.LedgerInv): the store holds the books of `chain`. It is established for
  every history of connected / disconnected / reorganised blocks (LedgerConnect, LedgerRbk*, LedgerReorg*),
  so each statement holds for whatever chain is current: a withdrawal whose block is reorganised away is
  shown as not withdrawn again (`withdrawn_reverts`). `ObsHyp` = `Inv` + valid chain with heights = positions
  + well-formed unspent index + 32-bit bounds (MW.Lemmas.LedgerObs2).
  Proofs: MW/Lemmas/LedgerDeposit.lean; worked store `dpS` / `dpChain`: MW/Lemmas/LedgerDepositEx.lean.
-/
import MW.Model.Ledger
import MW.Spec.Chain
import MW.Lemmas.LedgerDeposit
import MW.Lemmas.LedgerDepositEx
import MW.Lemmas.TxmgrCodecRec
import MW.Model.WithdrawSeq
import MW.Lemmas.WithdrawSeq
import MW.Lemmas.SignSeq
namespace MW.Props.C10
open MW MW.Model.Ledger MW.Spec.Chain MW.Spec.Books MW.Lemmas.Ledger
open MW.Model.WithdrawSeq MW.Model.ScriptVM MW.Lemmas.ScriptVMMain MW.Lemmas.WithdrawSeq

/-- the maturity the wallet records for a staking output is frozen period + 1, the sequence value
    consensus requires for spending it (`withdraw_sequence`, value part) -/
theorem staking_maturity (f : Nat) : (Cls.stk f).maturity = f + 1 := rfl

/-- new-style binding outputs carry the MASSIP-2 locked period -/
theorem binding_new_maturity (t : String) : (Cls.bindNew t).maturity = 0xfffffffe := rfl

/-- deposits are never ordinary spendable funds: their class is not `standard` -/
theorem deposit_not_standard (c : Cls) (h : c.isStaking = true ∨ c.isBinding = true) :
    uclassOf c ≠ .standard := by
  unfold uclassOf
  rcases h with h | h
  · simp [h]
  · cases hs : c.isStaking <;> simp [hs, h]

-- ------------------------------------------------------------------ 1. appears exactly once

/-- the deposit history holds one record per staking / binding deposit of the chain to the wallet — with
    its binding flag, withdrawn flag, transaction, height and output index — and no other record -/
theorem deposit_once {c : Ctx} {s : Store} {chain : List Block} (hI : Inv c s chain)
    (hV : ChainValid c.own chain) (gk : GameKey) :
    AMap.get s.game gk = some () ↔
      ∃ d ∈ deposits c.own chain gk.wallet,
        gk = ⟨gk.wallet, d.cls.isBinding, d.withdrawn, d.tx, d.height, d.idx⟩ :=
  MW.Lemmas.Ledger.deposit_once hI hV gk

/-- EXACTLY once: any record of the history at the outpoint of a deposit is the record of that deposit -/
theorem deposit_record_unique {c : Ctx} {s : Store} {chain : List Block} (hI : Inv c s chain)
    (hV : ChainValid c.own chain) {w : Wid} {d : Deposit} (hd : d ∈ deposits c.own chain w) (gk : GameKey)
    (hg : AMap.get s.game gk = some ()) (ht : gk.tx = d.tx) (hv : gk.vout = d.idx) :
    gk = ⟨w, d.cls.isBinding, d.withdrawn, d.tx, d.height, d.idx⟩ :=
  MW.Lemmas.Ledger.deposit_record_unique hI hV hd gk hg ht hv

/-- in particular the record with the opposite withdrawn flag is absent -/
theorem deposit_unique {c : Ctx} {s : Store} {chain : List Block} (hI : Inv c s chain)
    (hV : ChainValid c.own chain) {w : Wid} {d : Deposit} (hd : d ∈ deposits c.own chain w) :
    AMap.get s.game ⟨w, d.cls.isBinding, !d.withdrawn, d.tx, d.height, d.idx⟩ = none :=
  MW.Lemmas.Ledger.deposit_unique hI hV hd

/-- distinct entries of the spec list are distinct outputs: an outpoint is at most one deposit -/
theorem deposit_eq_of_outpoint {own : Own} {chain : List Block} (hV : ChainValid own chain) {w w' : Wid}
    {d d' : Deposit} (hd : d ∈ deposits own chain w) (hd' : d' ∈ deposits own chain w')
    (ht : d.tx = d'.tx) (hi : d.idx = d'.idx) : w = w' ∧ d = d' :=
  MW.Lemmas.Ledger.deposit_eq_of_outpoint hV hd hd' ht hi

-- ------------------------------------------------------------------ 2. right amount, address, frozen period

/-- the credit the history listing joins the record with: amount, address, class and maturity of the
    output (for an output of a coinbase: the larger of the coinbase maturity and the lock of its script),
    spent exactly when a transaction of the chain spends it -/
theorem deposit_credit {c : Ctx} {s : Store} {chain : List Block} (hI : Inv c s chain)
    (hV : ChainValid c.own chain) {u : UCoin} (hc : CreatedIn c.own (occs chain) u)
    (hd : isDeposit u.out.cls = true) :
    ∃ cr, AMap.get s.credits u.credKey = some cr ∧ cr.amt = u.out.amt ∧ cr.sh = u.out.addr ∧
      cr.cls = uclassOf u.out.cls ∧
      cr.maturity = (if u.cb then max c.p.cbMaturity u.out.cls.maturity else u.out.cls.maturity) % 2^32 ∧
      (cr.spent = true ↔ (u.tx, u.idx) ∈ spentOps (occs chain)) :=
  MW.Lemmas.Ledger.deposit_credit hI hV hc hd

/-- staking: stored maturity = frozen period + 1, so the FrozenPeriod shown (maturity − 1) is the frozen
    period of the output script -/
theorem deposit_credit_stk {c : Ctx} {s : Store} {chain : List Block} (hI : Inv c s chain)
    (hV : ChainValid c.own chain) {u : UCoin} (hc : CreatedIn c.own (occs chain) u) {f : Nat}
    (hf : u.out.cls = .stk f) (hcb : u.cb = false) (hb : f + 1 < 2^32) :
    ∃ cr, AMap.get s.credits u.credKey = some cr ∧ cr.amt = u.out.amt ∧ cr.sh = u.out.addr ∧
      cr.cls = .staking ∧ cr.maturity = f + 1 ∧ cr.maturity - 1 = f ∧
      (cr.spent = true ↔ (u.tx, u.idx) ∈ spentOps (occs chain)) :=
  MW.Lemmas.Ledger.deposit_credit_stk hI hV hc hf hcb hb

/-- a staking output of a COINBASE: stored maturity = max (coinbase maturity) (frozen period + 1) -/
theorem deposit_credit_stk_cb {c : Ctx} {s : Store} {chain : List Block} (hI : Inv c s chain)
    (hV : ChainValid c.own chain) {u : UCoin} (hc : CreatedIn c.own (occs chain) u) {f : Nat}
    (hf : u.out.cls = .stk f) (hcb : u.cb = true) (hb : f + 1 < 2^32) (hm : c.p.cbMaturity < 2^32) :
    ∃ cr, AMap.get s.credits u.credKey = some cr ∧ cr.amt = u.out.amt ∧ cr.sh = u.out.addr ∧
      cr.cls = .staking ∧ cr.maturity = max c.p.cbMaturity (f + 1) ∧
      (cr.spent = true ↔ (u.tx, u.idx) ∈ spentOps (occs chain)) :=
  MW.Lemmas.Ledger.deposit_credit_stk_cb hI hV hc hf hcb hb hm

/-- per entry of the spec list: at the key (tx, height, vout) of the record there is a credit with the
    deposit's amount, address (its class `d.cls` carries the frozen period / binding target), class
    staking / binding, spent iff the deposit is withdrawn -/
theorem deposit_entry {c : Ctx} {s : Store} {chain : List Block} (hI : Inv c s chain)
    (hV : ChainValid c.own chain) {w : Wid} {d : Deposit} (hd : d ∈ deposits c.own chain w) :
    ∃ (bh : BlkId) (cb : Bool) (cr : Credit),
      AMap.get s.credits ⟨d.tx, ⟨d.height, bh⟩, d.idx⟩ = some cr ∧ cr.amt = d.amt ∧ cr.sh = d.addr ∧
      cr.cls = uclassOf d.cls ∧ cr.cls ≠ .standard ∧
      cr.maturity = (if cb then max c.p.cbMaturity d.cls.maturity else d.cls.maturity) % 2^32 ∧
      (cr.spent = true ↔ d.withdrawn = true) :=
  MW.Lemmas.Ledger.deposit_entry hI hV hd

-- ------------------------------------------------------------------ 3. shown as withdrawn exactly while spent

/-- the record is in the withdrawn partition exactly when the spec list says withdrawn -/
theorem withdrawn_iff {c : Ctx} {s : Store} {chain : List Block} (hI : Inv c s chain)
    (hV : ChainValid c.own chain) {w : Wid} {d : Deposit} (hd : d ∈ deposits c.own chain w) :
    AMap.get s.game ⟨w, d.cls.isBinding, true, d.tx, d.height, d.idx⟩ = some () ↔ d.withdrawn = true :=
  MW.Lemmas.Ledger.withdrawn_iff hI hV hd

/-- … and in the not-withdrawn partition exactly when it says not withdrawn -/
theorem unwithdrawn_iff {c : Ctx} {s : Store} {chain : List Block} (hI : Inv c s chain)
    (hV : ChainValid c.own chain) {w : Wid} {d : Deposit} (hd : d ∈ deposits c.own chain w) :
    AMap.get s.game ⟨w, d.cls.isBinding, false, d.tx, d.height, d.idx⟩ = some () ↔ d.withdrawn = false :=
  MW.Lemmas.Ledger.unwithdrawn_iff hI hV hd

/-- `withdrawn` of the spec list: a non-coinbase transaction of the chain spends the output -/
theorem withdrawn_chain_iff {own : Own} {chain : List Block} {w : Wid} {d : Deposit}
    (hd : d ∈ deposits own chain w) :
    d.withdrawn = true ↔
      ∃ b ∈ chain, ∃ t ∈ b.txs, t.cb = false ∧ ∃ x ∈ t.ins, x.tx = d.tx ∧ x.idx = d.idx :=
  MW.Lemmas.Ledger.withdrawn_chain_iff hd

/-- both together: shown as withdrawn exactly while a transaction of the current chain spends it -/
theorem withdrawn_shown_iff {c : Ctx} {s : Store} {chain : List Block} (hI : Inv c s chain)
    (hV : ChainValid c.own chain) {w : Wid} {d : Deposit} (hd : d ∈ deposits c.own chain w) :
    AMap.get s.game ⟨w, d.cls.isBinding, true, d.tx, d.height, d.idx⟩ = some () ↔
      ∃ b ∈ chain, ∃ t ∈ b.txs, t.cb = false ∧ ∃ x ∈ t.ins, x.tx = d.tx ∧ x.idx = d.idx :=
  MW.Lemmas.Ledger.withdrawn_shown_iff hI hV hd

/-- reverting: once no transaction of the current chain spends the deposit (the withdrawal was reorganised
    away) the record is back in the not-withdrawn partition and the withdrawn one is gone -/
theorem withdrawn_reverts {c : Ctx} {s : Store} {chain : List Block} (hI : Inv c s chain)
    (hV : ChainValid c.own chain) {w : Wid} {d : Deposit} (hd : d ∈ deposits c.own chain w)
    (hno : ¬ ∃ b ∈ chain, ∃ t ∈ b.txs, t.cb = false ∧ ∃ x ∈ t.ins, x.tx = d.tx ∧ x.idx = d.idx) :
    AMap.get s.game ⟨w, d.cls.isBinding, false, d.tx, d.height, d.idx⟩ = some () ∧
    AMap.get s.game ⟨w, d.cls.isBinding, true, d.tx, d.height, d.idx⟩ = none :=
  MW.Lemmas.Ledger.withdrawn_reverts hI hV hd hno

-- ------------------------------------------------------------------ 4. excluded from ordinary funds

/-- a coin the wallet's coin query returns at the outpoint of a deposit has the deposit's class, never
    `standard` (automatic coin selection and the spendable sum take class `standard` only) -/
theorem excluded {c : Ctx} {s : Store} {chain : List Block} (H : ObsHyp c s chain) {w : Wid} {x : Coin}
    (hx : x ∈ coinsOf s w) {d : Deposit} (hd : d ∈ deposits c.own chain w) (ht : d.tx = x.tx)
    (hi : d.idx = x.idx) : x.cred.cls = uclassOf d.cls ∧ x.cred.cls ≠ .standard :=
  MW.Lemmas.Ledger.excluded H hx hd ht hi

/-- the same through the ledger entry behind the coin -/
theorem excluded_entry {c : Ctx} {s : Store} {chain : List Block} (H : ObsHyp c s chain) {w : Wid} {x : Coin}
    (hx : x ∈ coinsOf s w) :
    ∃ u ∈ (bookOf c.p c.own chain).L, u.wallet = w ∧ coinU c.p u = x ∧
      (isDeposit u.out.cls = true → x.cred.cls ≠ .standard) :=
  MW.Lemmas.Ledger.excluded_entry H hx

/-- a `standard` coin of the wallet is no deposit of the chain -/
theorem standard_not_deposit {c : Ctx} {s : Store} {chain : List Block} (H : ObsHyp c s chain) {w : Wid}
    {x : Coin} (hx : x ∈ coinsOf s w) (hs : x.cred.cls = .standard) :
    ∀ d ∈ deposits c.own chain w, ¬ (d.tx = x.tx ∧ d.idx = x.idx) :=
  MW.Lemmas.Ledger.standard_not_deposit H hx hs

/-- the spendable amount WalletBalance reports sums `standard` coins only -/
theorem walletBalance_spendable {s : Store} {w : Wid} {mc : Nat} {b : Balance}
    (h : walletBalance s w mc = some b) :
    b.spendable = ((((coinsOf s w).filter (fun x => decide (confs s.syncedTo x.blk.height ≥ mc ∧
        confs s.syncedTo x.blk.height ≥ x.cred.maturity))).filter
      (fun x => decide (x.cred.cls = .standard))).map (·.cred.amt)).sum :=
  MW.Lemmas.Ledger.walletBalance_spendable h

/-- against the chain: it is the sum over the wallet's unspent outputs that are NOT deposits (with enough
    confirmations, mature) -/
theorem spendable_excludes_deposits {c : Ctx} {s : Store} {chain : List Block} (H : ObsHyp c s chain)
    {w : Wid} (hw : (readyWallets s c.wallets).contains w = true) (mc : Nat) :
    ∃ b, walletBalance s w mc = some b ∧
      b.spendable = (((utxosOf c.own chain w).filter (fun x =>
        decide (chain.length - 1 + 1 - x.height ≥ mc) && spendableAt c.p (chain.length - 1) x &&
          !isDeposit x.cls)).map (·.amt)).sum :=
  MW.Lemmas.Ledger.spendable_excludes_deposits H hw mc

-- ------------------------------------------------------------------ 5. withdrawable exactly when consensus allows

/-- an unspent deposit passes the wallet's maturity test (confirmations ≥ stored maturity) exactly when
    consensus lets the next block spend it -/
theorem withdrawable_iff {c : Ctx} {s : Store} {chain : List Block} (H : ObsHyp c s chain) {u : UCoin}
    (hu : u ∈ (bookOf c.p c.own chain).L) :
    confs s.syncedTo u.blk.height ≥ (creditOf c.p u).maturity ↔
      spendableAt c.p (chain.length - 1) u.toSCoin = true :=
  MW.Lemmas.Ledger.withdrawable_iff H hu

/-- staking, rule unfolded: origin + (frozen + 1) − 1 < tip + 1, i.e. the next block (height
    `chain.length`) may spend it iff origin + frozen + 1 ≤ that height -/
theorem staking_withdrawable_iff {c : Ctx} {s : Store} {chain : List Block} (H : ObsHyp c s chain) {u : UCoin}
    (hu : u ∈ (bookOf c.p c.own chain).L) {f : Nat} (hf : u.out.cls = .stk f) (hcb : u.cb = false) :
    confs s.syncedTo u.blk.height ≥ (creditOf c.p u).maturity ↔ u.blk.height + f + 1 ≤ chain.length :=
  MW.Lemmas.Ledger.staking_withdrawable_iff H hu hf hcb

/-- the consensus side alone -/
theorem spendableAt_stk (p : Params) {chain : List Block} (hpos : 0 < chain.length) {u : UCoin} {f : Nat}
    (hf : u.out.cls = .stk f) (hcb : u.cb = false) :
    spendableAt p (chain.length - 1) u.toSCoin = true ↔ u.blk.height + f + 1 ≤ chain.length :=
  MW.Lemmas.Ledger.spendableAt_stk p hpos hf hcb

/-- a staking output of a COINBASE is withdrawable exactly when BOTH the coinbase maturity and the frozen
    period have passed (consensus: checkTxInMaturity AND the sequence lock) -/
theorem staking_cb_withdrawable_iff {c : Ctx} {s : Store} {chain : List Block} (H : ObsHyp c s chain)
    {u : UCoin} (hu : u ∈ (bookOf c.p c.own chain).L) {f : Nat} (hf : u.out.cls = .stk f) (hcb : u.cb = true) :
    confs s.syncedTo u.blk.height ≥ (creditOf c.p u).maturity ↔
      u.blk.height + c.p.cbMaturity ≤ chain.length ∧ u.blk.height + f + 1 ≤ chain.length :=
  MW.Lemmas.Ledger.staking_cb_withdrawable_iff H hu hf hcb

/-- the consensus side alone -/
theorem spendableAt_stk_cb (p : Params) {chain : List Block} (hpos : 0 < chain.length) {u : UCoin} {f : Nat}
    (hf : u.out.cls = .stk f) (hcb : u.cb = true) :
    spendableAt p (chain.length - 1) u.toSCoin = true ↔
      u.blk.height + p.cbMaturity ≤ chain.length ∧ u.blk.height + f + 1 ≤ chain.length :=
  MW.Lemmas.Ledger.spendableAt_stk_cb p hpos hf hcb

/-- MASSIP-2 binding: locked 0xfffffffe blocks -/
theorem binding_new_withdrawable_iff {c : Ctx} {s : Store} {chain : List Block} (H : ObsHyp c s chain)
    {u : UCoin} (hu : u ∈ (bookOf c.p c.own chain).L) {t : String} (hf : u.out.cls = .bindNew t)
    (hcb : u.cb = false) :
    confs s.syncedTo u.blk.height ≥ (creditOf c.p u).maturity ↔ u.blk.height + 0xfffffffe ≤ chain.length :=
  MW.Lemmas.Ledger.binding_new_withdrawable_iff H hu hf hcb

/-- old-style binding: no lock -/
theorem binding_old_withdrawable {c : Ctx} {s : Store} {chain : List Block} (H : ObsHyp c s chain)
    {u : UCoin} (hu : u ∈ (bookOf c.p c.own chain).L) {t : String} (hf : u.out.cls = .bindOld t)
    (hcb : u.cb = false) : confs s.syncedTo u.blk.height ≥ (creditOf c.p u).maturity :=
  MW.Lemmas.Ledger.binding_old_withdrawable H hu hf hcb


-- ------------------------------------------------------------------ 6. withdraw_sequence (round 4)
-- `seqChoice lockTime cls prevHeight` (MW.Model.WithdrawSeq) is constructTxIn's / addTxIn's switch, executed by
-- the `led` driver for the op `wseq`; `SeqRule seq lock` is what the script engine's `<lock> OP_CHECKSEQUENCEVERIFY`
-- prelude demands of the input's sequence (MW.Lemmas.ScriptVMMain.csvCheck_ok_iff); `lockMet seq origin bh` is
-- mass-core's calcSequenceLock + SequenceLockActive for one input (height part); `seqOK` is the spec's rule.
-- `ClsHeightOK cls h` is the consensus fact used as hypothesis: frozen period + 1 < 2^32
-- (wire.IsValidFrozenPeriod), a 22-byte binding target only at heights ≥ MASSIP0002WarmUpHeight, a 20-byte one
-- only below (checkParsePkScriptNew). Both binding directions are necessary: `withdraw_sequence_needs_*`.

-- ------------------------------------------------------------------ 6b. the chosen sequence and the signing engine (round 5)

/-- the input `constructTxIn` / `addTxIn` build is SIGNABLE: its sequence number meets the rule the engine run of signWitnessTx
    (the C03 script-VM model, `MW.Model.Sign.seqOk` = the VM's CSV rule: `MW.Props.C03.seq_rule_staking` / `seq_rule_massip2`)
    enforces for the class of the previous output at its height – ScriptMASSip2 on (binding outputs at or above the warm-up
    height: class `bind2`) and off –, for every template class and every lock time.  The MASSIP-2 branch is exercised on the
    real code by runs with a lowered warm-up height (op `warmup`; the height is a value: `withdraw_sequence_warmup_value`). -/
theorem withdraw_sequence_signable (lt : Nat) (c : Cls) (h : Nat) (hc : c ≠ .raw) (hf : ∀ f, c = .stk f → f + 1 < 2^32) :
    Model.Sign.seqOk (Model.SignTab.classAt Gen.Vm.massip2WarmUpHeight c h) (seqChoice lt c h) = true :=
  MW.Lemmas.SignSeq.seqChoice_signable lt c h hc hf

/-- a run with the warm-up height lowered to `W` evaluates `seqChoice` (stated with the regenerated constant) at heights
    translated by the difference: `EnforceMASSIP0002WarmUp` only compares the height with the constant -/
theorem withdraw_sequence_warmup_value (W h : Nat) (hW : W ≤ Gen.Vm.massip2WarmUpHeight) :
    enforceWarmUp (h + (Gen.Vm.massip2WarmUpHeight - W)) = decide (W ≤ h) :=
  MW.Lemmas.SignSeq.enforceWarmUp_shift W h hW

example : seqChoice 0 (.bindOld "") (6 + (Gen.Vm.massip2WarmUpHeight - 4)) = 4294967294 ∧
    seqChoice 7 (.bindNew "") (3 + (Gen.Vm.massip2WarmUpHeight - 4)) = 2^64 - 2 ∧ (4 : Nat) ≤ Gen.Vm.massip2WarmUpHeight := by decide

/-- tie B: the Go switch still has the modelled shape, and the constants the proofs rely on -/
theorem gen_tie_seq_choice : Gen.Vm.seqChoiceShape = true ∧
    Gen.Vm.maxTxInSequenceNum = 2^64 - 1 ∧ Gen.Vm.sequenceLockTimeDisabled = 2^63 ∧
    Gen.Vm.sequenceLockTimeIsSeconds = 2^38 ∧ Gen.Vm.sequenceLockTimeMask = 2^32 - 1 ∧
    Gen.Vm.bindingLockedPeriod = Model.Ledger.bindingLockedPeriod ∧
    Gen.Vm.bindingLockedPeriod = 2^32 - 2 ∧ Gen.Vm.massip2WarmUpHeight = 1398801 := by decide

/-- the wallet's sequence on the input that withdraws a staking deposit (`.stk f`) or a MASSIP-2 binding
    deposit (`.bindNew`), for EVERY lock time: (a) the script engine's CSV rule accepts it, (b) it is the least
    sequence number the rule accepts (masked and as a number), (c) with it the consensus sequence lock of the
    input is met by the block at height tip+1 exactly when the spec's rule `seqOK tip c` holds -/
theorem withdraw_sequence (lt tip : Nat) (c : SCoin)
    (hd : (∃ f, c.cls = .stk f) ∨ (∃ t, c.cls = .bindNew t)) (hc : ClsHeightOK c.cls c.height)
    (hh : c.height < 2^32) :
    SeqRule (seqChoice lt c.cls c.height) (scriptLock c.cls) ∧
    (∀ seq', SeqRule seq' (scriptLock c.cls) →
      seqChoice lt c.cls c.height ≤ seqMasked seq' ∧ seqChoice lt c.cls c.height ≤ seq') ∧
    lockMet (seqChoice lt c.cls c.height) c.height (tip + 1) = seqOK tip c :=
  MW.Lemmas.WithdrawSeq.withdraw_sequence lt tip c hd hc hh

/-- (a) staking: sequence = frozen period + 1 satisfies `<f+1> OP_CHECKSEQUENCEVERIFY` -/
theorem withdraw_sequence_staking (lt h : Nat) {f : Nat} (hf : f + 1 < 2^32) :
    seqChoice lt (.stk f) h = f + 1 ∧ SeqRule (seqChoice lt (.stk f) h) (f + 1) :=
  ⟨rfl, seqChoice_rule_stk lt h hf⟩

/-- (a) binding at a height that enforces MASSIP-2 (old or new template: the engine's prelude covers both) -/
theorem withdraw_sequence_binding {lt h : Nat} {cls : Cls} (hb : cls.isBinding = true)
    (hh : Gen.Vm.massip2WarmUpHeight ≤ h) :
    seqChoice lt cls h = Gen.Vm.bindingLockedPeriod ∧ SeqRule (seqChoice lt cls h) Gen.Vm.bindingLockedPeriod :=
  ⟨seqChoice_bind hb hh, seqChoice_rule_bind hb hh⟩

/-- (b) least: every sequence number the CSV rule accepts is at least the wallet's -/
theorem withdraw_sequence_least_staking (lt h : Nat) {f seq' : Nat} (hf : f + 1 < 2^32)
    (hr : SeqRule seq' (f + 1)) :
    seqChoice lt (.stk f) h ≤ seqMasked seq' ∧ seqChoice lt (.stk f) h ≤ seq' :=
  seqChoice_least_stk lt h hf hr

theorem withdraw_sequence_least_binding {lt h : Nat} {cls : Cls} {seq' : Nat} (hb : cls.isBinding = true)
    (hh : Gen.Vm.massip2WarmUpHeight ≤ h) (hr : SeqRule seq' Gen.Vm.bindingLockedPeriod) :
    seqChoice lt cls h ≤ seqMasked seq' ∧ seqChoice lt cls h ≤ seq' :=
  seqChoice_least_bind hb hh hr

/-- (c) for EVERY class: consensus sequence lock of the wallet's input at tip+1 = the spec's `seqOK` -/
theorem withdraw_sequence_consensus (lt tip : Nat) (c : SCoin) (hc : ClsHeightOK c.cls c.height)
    (hh : c.height < 2^32) :
    lockMet (seqChoice lt c.cls c.height) c.height (tip + 1) = seqOK tip c :=
  lockMet_seqChoice_eq_seqOK lt tip c hc hh

/-- (d) every other case — standard, unsupported, binding below the warm-up height — keeps the default
    `2^64−1` (no lock time) / `2^64−2` (lock time set: sequence ≠ MaxTxInSequenceNum keeps the lock-time
    field effective, see `withdraw_sequence_locktime_effective`); its disable bit is set: no sequence lock -/
theorem withdraw_sequence_default {lt h : Nat} {cls : Cls} (hs : cls.isStaking = false)
    (hb : cls.isBinding = false ∨ h < Gen.Vm.massip2WarmUpHeight) (o : Nat) :
    seqChoice lt cls h = (if lt ≠ 0 then 2^64 - 2 else 2^64 - 1) ∧
    seqDisabled (seqChoice lt cls h) = true ∧ inputLockHeight (seqChoice lt cls h) o = none ∧
    (∀ bh, 0 < bh → lockMet (seqChoice lt cls h) o bh = true) := by
  rw [seqChoice_default hs hb]
  exact ⟨defaultSeq_eq lt, (defaultSeq_disabled lt o).1, (defaultSeq_disabled lt o).2.1, (defaultSeq_disabled lt o).2.2.1⟩

theorem withdraw_sequence_locktime_effective {lt h : Nat} {cls : Cls} (hs : cls.isStaking = false)
    (hb : cls.isBinding = false ∨ h < Gen.Vm.massip2WarmUpHeight) (hl : lt ≠ 0) :
    seqChoice lt cls h ≠ Gen.Vm.maxTxInSequenceNum := by
  rw [seqChoice_default hs hb]; exact defaultSeq_not_final hl

/-- connection to `withdrawable_iff` / `staking_withdrawable_iff` / `binding_new_withdrawable_iff`: the input
    the wallet builds on an unspent coin of its books can be included in the NEXT block (height
    `chain.length`: coinbase maturity and the input's sequence lock) exactly when the wallet's maturity test
    reports the coin withdrawable / spendable — the first such height is the one those theorems give -/
theorem withdraw_sequence_first_height {c : Ctx} {s : Store} {chain : List Block} (H : ObsHyp c s chain)
    {u : UCoin} (hu : u ∈ (bookOf c.p c.own chain).L) (lt : Nat) (hc : ClsHeightOK u.out.cls u.blk.height)
    (hh : u.blk.height < 2^32) :
    confs s.syncedTo u.blk.height ≥ (creditOf c.p u).maturity ↔
      ((if u.cb then decide (chain.length - u.blk.height ≥ c.p.cbMaturity) else true) &&
        lockMet (seqChoice lt u.out.cls u.blk.height) u.blk.height chain.length) = true :=
  MW.Lemmas.WithdrawSeq.first_height H hu lt hc hh

/-- the hypothesis is NECESSARY, direction 1: an old-style binding output at a height ≥ warm-up (consensus
    admits none): the wallet sets the MASSIP-2 sequence — as the script engine demands under ScriptMASSip2,
    which covers 20-byte targets too — so the input is locked, while the spec's `seqOK` says "no lock" -/
theorem withdraw_sequence_needs_old_below :
    let c : SCoin := ⟨"w", "t", 0, 1, 1398801, false, .bindOld "T", "a"⟩
    lockMet (seqChoice 0 c.cls c.height) c.height (1398801 + 1) = false ∧
      seqOK 1398801 c = true ∧ ¬ ClsHeightOK c.cls c.height :=
  bindOld_above_warmup_discrepancy

/-- direction 2: a new-style binding output below the warm-up height (consensus admits none): default
    sequence, no engine prelude — spendable at once — while spec and stored maturity say 0xfffffffe blocks -/
theorem withdraw_sequence_needs_new_above :
    let c : SCoin := ⟨"w", "t", 0, 1, 5, false, .bindNew "T", "a"⟩
    lockMet (seqChoice 0 c.cls c.height) c.height (5 + 1) = true ∧
      seqOK 5 c = false ∧ ¬ ClsHeightOK c.cls c.height :=
  bindNew_below_warmup_discrepancy

-- ------------------------------------------------------------------ non-vacuity
-- `dpChain`: genesis; h1 coinbase to the wallet; h2 `t1` = staking deposit frozen 1 (20), staking deposit
-- frozen 2 (25), MASSIP-2 binding deposit (5), old-style binding deposit (4); h3 the coinbase `c3` pays a staking
-- output frozen 3 (7) to the wallet; h4 `t2` withdraws the first staking deposit.
-- `dpS` = the store the follower builds (connectAll); `dpHyp : ObsHyp dpCtx dpS dpChain ∧ "w1" ready`.

example : uclassOf (.stk 3) ≠ .standard := deposit_not_standard _ (Or.inl rfl)

example : uclassOf (.bindOld "O") ≠ .standard := deposit_not_standard _ (Or.inr rfl)

/-- the hypotheses hold, the deposits are there -/
example : Inv dpCtx dpS dpChain ∧ ChainValid dpCtx.own dpChain ∧
    deposits dpCtx.own dpChain "w1" = [dpD0, dpD1, dpD2, dpD3, dpD4] := ⟨dpHyp.1.inv, dpValid, dpDeposits⟩

/-- deposit_once: the withdrawn staking deposit has its record (withdrawn partition) -/
example : AMap.get dpS.game ⟨"w1", false, true, "t1", 2, 0⟩ = some () :=
  (deposit_once dpHyp.1.inv dpValid _).2 ⟨dpD0, dpD0_mem, rfl⟩

/-- deposit_once, other direction: a record of the store comes from a deposit -/
example : ∃ d ∈ deposits dpCtx.own dpChain "w1",
    (⟨"w1", true, false, "t1", 2, 2⟩ : GameKey) = ⟨"w1", d.cls.isBinding, d.withdrawn, d.tx, d.height, d.idx⟩ :=
  (deposit_once dpHyp.1.inv dpValid ⟨"w1", true, false, "t1", 2, 2⟩).1 (by decide)

/-- deposit_record_unique: whatever record sits at t1:1 is the not-withdrawn staking record at height 2 -/
example (gk : GameKey) (hg : AMap.get dpS.game gk = some ()) (ht : gk.tx = "t1") (hv : gk.vout = 1) :
    gk = ⟨"w1", false, false, "t1", 2, 1⟩ :=
  deposit_record_unique dpHyp.1.inv dpValid dpD1_mem gk hg ht hv

/-- deposit_unique: no second record in the other partition -/
example : AMap.get dpS.game ⟨"w1", false, false, "t1", 2, 0⟩ = none :=
  deposit_unique dpHyp.1.inv dpValid dpD0_mem

example : AMap.get dpS.game ⟨"w1", false, true, "t1", 2, 1⟩ = none :=
  deposit_unique dpHyp.1.inv dpValid dpD1_mem

example : "w1" = "w1" ∧ dpD1 = dpD1 := deposit_eq_of_outpoint dpValid dpD1_mem dpD1_mem rfl rfl

/-- deposit_credit: the credit of the withdrawn deposit t1:0 — 20 to "s1", staking, maturity 2, spent -/
example : ∃ cr, AMap.get dpS.credits ⟨"t1", ⟨2, "b2"⟩, 0⟩ = some cr ∧ cr.amt = 20 ∧ cr.sh = "s1" ∧
    cr.cls = .staking ∧ cr.maturity = 1 + 1 ∧ cr.maturity - 1 = 1 ∧
    (cr.spent = true ↔ ("t1", 0) ∈ spentOps (occs dpChain)) :=
  deposit_credit_stk dpHyp.1.inv dpValid dpU0_created (f := 1) rfl rfl (by decide)

example : ∃ cr, AMap.get dpS.credits ⟨"t1", ⟨2, "b2"⟩, 1⟩ = some cr ∧ cr.amt = 25 ∧ cr.sh = "s1" ∧
    cr.cls = uclassOf (.stk 2) ∧ cr.maturity = (if false then max 1 (Cls.stk 2).maturity else (Cls.stk 2).maturity) % 2^32 ∧
    (cr.spent = true ↔ ("t1", 1) ∈ spentOps (occs dpChain)) :=
  deposit_credit dpHyp.1.inv dpValid dpU1_created rfl

example : (AMap.get dpS.credits ⟨"t1", ⟨2, "b2"⟩, 0⟩).map (fun cr => (cr.amt, cr.sh, cr.cls, cr.maturity, cr.spent)) =
    some (20, "s1", .staking, 2, true) := by decide

example : ∃ (bh : BlkId) (cb : Bool) (cr : Credit),
    AMap.get dpS.credits ⟨"t1", ⟨2, bh⟩, 2⟩ = some cr ∧ cr.amt = 5 ∧ cr.sh = "k1" ∧
    cr.cls = uclassOf (.bindNew "T") ∧ cr.cls ≠ .standard ∧
    cr.maturity = (if cb then max 1 (Cls.bindNew "T").maturity else (Cls.bindNew "T").maturity) % 2^32 ∧
    (cr.spent = true ↔ false = true) :=
  deposit_entry dpHyp.1.inv dpValid dpD2_mem

/-- deposit_credit_stk_cb: the staking output of the coinbase c3 (frozen 3, coinbase maturity 1) has the
    record and a credit with maturity max 1 (3 + 1) = 4 -/
example : ∃ cr, AMap.get dpS.credits ⟨"c3", ⟨3, "b3"⟩, 1⟩ = some cr ∧ cr.amt = 7 ∧ cr.sh = "s1" ∧
    cr.cls = .staking ∧ cr.maturity = max 1 (3 + 1) ∧
    (cr.spent = true ↔ ("c3", 1) ∈ spentOps (occs dpChain)) :=
  deposit_credit_stk_cb dpHyp.1.inv dpValid dpU4_created (f := 3) rfl rfl (by decide) (by decide)

example : (AMap.get dpS.credits ⟨"c3", ⟨3, "b3"⟩, 1⟩).map (fun cr => (cr.amt, cr.sh, cr.cls, cr.maturity, cr.spent)) =
    some (7, "s1", .staking, 4, false) := by decide

example : AMap.get dpS.game ⟨"w1", false, false, "c3", 3, 1⟩ = some () :=
  (unwithdrawn_iff dpHyp.1.inv dpValid dpD4_mem).2 rfl

/-- withdrawn_iff / withdrawn_chain_iff: t1:0 is withdrawn (t2 in block 4 spends it), t1:1 is not -/
example : AMap.get dpS.game ⟨"w1", false, true, "t1", 2, 0⟩ = some () :=
  (withdrawn_iff dpHyp.1.inv dpValid dpD0_mem).2 rfl

example : AMap.get dpS.game ⟨"w1", false, false, "t1", 2, 1⟩ = some () :=
  (unwithdrawn_iff dpHyp.1.inv dpValid dpD1_mem).2 rfl

example : ∃ b ∈ dpChain, ∃ t ∈ b.txs, t.cb = false ∧ ∃ x ∈ t.ins, x.tx = "t1" ∧ x.idx = 0 :=
  (withdrawn_chain_iff dpD0_mem).1 rfl

example : ∃ b ∈ dpChain, ∃ t ∈ b.txs, t.cb = false ∧ ∃ x ∈ t.ins, x.tx = "t1" ∧ x.idx = 0 :=
  (withdrawn_shown_iff dpHyp.1.inv dpValid dpD0_mem).1 (by decide)

/-- withdrawn_reverts: nothing spends the binding deposit t1:2 -/
example : AMap.get dpS.game ⟨"w1", true, false, "t1", 2, 2⟩ = some () ∧
    AMap.get dpS.game ⟨"w1", true, true, "t1", 2, 2⟩ = none :=
  withdrawn_reverts dpHyp.1.inv dpValid dpD2_mem
    (fun h => absurd ((withdrawn_chain_iff dpD2_mem).2 h) (by decide))

/-- excluded: the wallet does list the unspent staking deposit t1:1, with class staking -/
example : ∃ x ∈ coinsOf dpS "w1", x.tx = "t1" ∧ x.idx = 1 := by decide

example (x : Coin) (hx : x ∈ coinsOf dpS "w1") (ht : x.tx = "t1") (hi : x.idx = 1) :
    x.cred.cls = .staking ∧ x.cred.cls ≠ .standard :=
  excluded dpHyp.1 hx dpD1_mem ht.symm hi.symm

example (x : Coin) (hx : x ∈ coinsOf dpS "w1") :
    ∃ u ∈ (bookOf dpCtx.p dpCtx.own dpChain).L, u.wallet = "w1" ∧ coinU dpCtx.p u = x ∧
      (isDeposit u.out.cls = true → x.cred.cls ≠ .standard) :=
  excluded_entry dpHyp.1 hx

/-- standard_not_deposit: the wallet has a standard coin (t2:0, the withdrawn 20) -/
example : ∃ x ∈ coinsOf dpS "w1", x.cred.cls = .standard := by decide

example (x : Coin) (hx : x ∈ coinsOf dpS "w1") (hs : x.cred.cls = .standard) :
    ∀ d ∈ deposits dpCtx.own dpChain "w1", ¬ (d.tx = x.tx ∧ d.idx = x.idx) :=
  standard_not_deposit dpHyp.1 hx hs

/-- the balance: 61 in total, spendable only the 20 that are no deposit -/
example : walletBalance dpS "w1" 1 = some ⟨61, 20, 25, 4⟩ := dpBalance

example : (⟨61, 20, 25, 4⟩ : Balance).spendable = ((((coinsOf dpS "w1").filter (fun x =>
      decide (confs dpS.syncedTo x.blk.height ≥ 1 ∧ confs dpS.syncedTo x.blk.height ≥ x.cred.maturity))).filter
    (fun x => decide (x.cred.cls = .standard))).map (·.cred.amt)).sum :=
  walletBalance_spendable dpBalance

example : ∃ b, walletBalance dpS "w1" 1 = some b ∧
    b.spendable = (((utxosOf dpCtx.own dpChain "w1").filter (fun x =>
      decide (dpChain.length - 1 + 1 - x.height ≥ 1) && spendableAt dpCtx.p (dpChain.length - 1) x &&
        !isDeposit x.cls)).map (·.amt)).sum :=
  spendable_excludes_deposits dpHyp.1 dpHyp.2 1

/-- withdrawable: the staking deposit t1:1 (height 2, frozen 2) is withdrawable by block 5 = chain.length -/
example : confs dpS.syncedTo 2 ≥ (creditOf dpCtx.p dpU1).maturity ↔
    spendableAt dpCtx.p (dpChain.length - 1) dpU1.toSCoin = true :=
  withdrawable_iff dpHyp.1 dpU1_mem

example : confs dpS.syncedTo 2 ≥ (creditOf dpCtx.p dpU1).maturity :=
  (staking_withdrawable_iff dpHyp.1 dpU1_mem (f := 2) rfl rfl).2 (by decide)

example : spendableAt dpCtx.p (dpChain.length - 1) dpU1.toSCoin = true :=
  (spendableAt_stk dpCtx.p (chain := dpChain) (by decide) (u := dpU1) (f := 2) rfl rfl).2 (by decide)

/-- one block earlier it was not: height 2 + frozen 2 + 1 = 5 > 4 -/
example : ¬ spendableAt dpCtx.p (dpChain.dropLast.length - 1) dpU1.toSCoin = true :=
  fun h => absurd ((spendableAt_stk dpCtx.p (chain := dpChain.dropLast) (by decide) (u := dpU1) (f := 2)
    rfl rfl).1 h) (by decide)

/-- the staking output of the coinbase c3 (height 3, frozen 3): the coinbase is mature (3 + 1 ≤ 5) but the
    frozen period has not passed (3 + 3 + 1 > 5): NOT withdrawable -/
example : ¬ confs dpS.syncedTo 3 ≥ (creditOf dpCtx.p dpU4).maturity :=
  fun h => absurd ((staking_cb_withdrawable_iff dpHyp.1 dpU4_mem (f := 3) rfl rfl).1 h).2 (by decide)

example : dpU4.blk.height + dpCtx.p.cbMaturity ≤ dpChain.length := by decide

example : ¬ spendableAt dpCtx.p (dpChain.length - 1) dpU4.toSCoin = true :=
  fun h => absurd ((spendableAt_stk_cb dpCtx.p (chain := dpChain) (by decide) (u := dpU4) (f := 3)
    rfl rfl).1 h).2 (by decide)

/-- the binding deposit t1:2 stays locked -/
example : ¬ confs dpS.syncedTo 2 ≥ (creditOf dpCtx.p dpU2).maturity :=
  fun h => absurd ((binding_new_withdrawable_iff dpHyp.1 dpU2_mem (t := "T") rfl rfl).1 h) (by decide)

/-- the old-style binding deposit t1:3 is withdrawable at once -/
example : confs dpS.syncedTo 2 ≥ (creditOf dpCtx.p dpU3).maturity :=
  binding_old_withdrawable dpHyp.1 dpU3_mem (t := "O") rfl rfl

-- ------------------------------------------------------------------ byte level (Round 4): deposit-history keys (buckets lg / LG)
section Codec
open MW.Model.TxmgrCodec MW.TxmgrCodec MW.Gen.Codec

/-- the regenerated key tables of the deposit history tile their 88 / 80 bytes, and every span readGameHistory looks at
    is a span keyGameHistory (mined) resp. keyUnminedGameHistory (pending) fills -/
theorem codec_game_tables :
    WFRec wKeyGameHistory = true ∧ WFRec wKeyUnminedGameHistory = true ∧
    (rGameHistory.spans.all (fun r => wKeyGameHistory.spans.any (matchSpan r) || wKeyUnminedGameHistory.spans.any (matchSpan r))) = true ∧
    rGameHistory.bits.map (fun b => (b.off, b.bit, b.mask)) = wKeyGameHistory.bits.map (fun b => (b.off, b.bit, b.mask)) := by decide

/-- reading back any field of a deposit-history key (mined layout) gives the value written, for all field tuples within
    the widths -/
theorem codec_game_key_read (vals : List Val) (hf : Fits wKeyGameHistory.spans vals = true) (s : Span) (v : Val)
    (hm : (s, v) ∈ wKeyGameHistory.spans.zip vals) : readVal s (encode wKeyGameHistory vals) = v :=
  readVal_encode wKeyGameHistory vals (by decide) hf s s v hm rfl rfl rfl

/-- distinct (wallet, kind, withdrawn, tx, height, vout) tuples have distinct keys -/
theorem codec_game_key_inj (vals vals' : List Val) (hf : Fits wKeyGameHistory.spans vals = true)
    (hf' : Fits wKeyGameHistory.spans vals' = true) (he : encode wKeyGameHistory vals = encode wKeyGameHistory vals') :
    vals = vals' := encode_inj wKeyGameHistory vals vals' (by decide) hf hf' he
theorem codec_ugame_key_inj (vals vals' : List Val) (hf : Fits wKeyUnminedGameHistory.spans vals = true)
    (hf' : Fits wKeyUnminedGameHistory.spans vals' = true)
    (he : encode wKeyUnminedGameHistory vals = encode wKeyUnminedGameHistory vals') :
    vals = vals' := encode_inj wKeyUnminedGameHistory vals vals' (by decide) hf hf' he

/-- the scan of a wallet's records of one kind (getRawGameHistoryByWalletId): the prefix over the first two key fields
    matches exactly the keys with that wallet id and that kind byte -/
theorem codec_scan_game_by_wallet_kind (pvals vals : List Val) (hp : Fits (wKeyGameHistory.spans.take 2) pvals = true)
    (hf : Fits wKeyGameHistory.spans vals = true) :
    (flat (wKeyGameHistory.spans.take 2) pvals).isPrefixOf (encode wKeyGameHistory vals) = true ↔ pvals = vals.take 2 :=
  prefix_exact_encode wKeyGameHistory 2 pvals vals (by decide) (by decide) hp hf

/-- a concrete key meets the hypotheses: binding, withdrawn, maximal height -/
example : Fits wKeyGameHistory.spans [.b (List.replicate 42 0x61), .n 1, .n 1, .b (List.replicate 32 0xff), .n (2 ^ 64 - 1), .n 3] = true := by
  decide
/-- the flag byte of the credit value: for EVERY (change, class) the class field and the change bit read back and
    `spent` reads 0 (all credits are created unspent); bit positions from the regenerated tables -/
theorem codec_credit_flags :
    ([true, false].all fun ch => [ClassB.standard, ClassB.staking, ClassB.binding].all fun c =>
      match rCreditValue.bits, wValueUnspentCredit.spans with
      | [bS, bC, bK], [_, f, _, _] =>
        let fl := flagByte (bitsAt wValueUnspentCredit f.off) [ch, c = .staking, c = .binding]
        bitField bS fl == 0 && ((bitField bC fl != 0) == ch) && bitField bK fl == c.code
      | _, _ => false) = true := by decide
end Codec

-- withdraw_sequence: the staking deposit t1:1 of `dpChain` (height 2, frozen 2) and a MASSIP-2 binding deposit
-- at the warm-up height

example : seqChoice 0 (.stk 2) 2 = 3 ∧ seqChoice 77 (.stk 2) 2 = 3 ∧ seqChoice 0 .std 2 = 2^64 - 1 ∧
    seqChoice 77 .std 2 = 2^64 - 2 ∧ seqChoice 0 (.bindOld "O") 2 = 2^64 - 1 ∧
    seqChoice 77 (.bindNew "T") 1398800 = 2^64 - 2 ∧ seqChoice 77 (.bindNew "T") 1398801 = 0xfffffffe := by decide

example : SeqRule (seqChoice 9 dpU1.toSCoin.cls dpU1.toSCoin.height) (scriptLock dpU1.toSCoin.cls) ∧
    (∀ seq', SeqRule seq' (scriptLock dpU1.toSCoin.cls) →
      seqChoice 9 dpU1.toSCoin.cls dpU1.toSCoin.height ≤ seqMasked seq' ∧
      seqChoice 9 dpU1.toSCoin.cls dpU1.toSCoin.height ≤ seq') ∧
    lockMet (seqChoice 9 dpU1.toSCoin.cls dpU1.toSCoin.height) dpU1.toSCoin.height (4 + 1) = seqOK 4 dpU1.toSCoin :=
  withdraw_sequence 9 4 dpU1.toSCoin (Or.inl ⟨2, rfl⟩) (by decide) (by decide)

example : let c : SCoin := ⟨"w", "t", 0, 5, 1398801, false, .bindNew "T", "k"⟩
    SeqRule (seqChoice 0 c.cls c.height) (scriptLock c.cls) ∧
    (∀ seq', SeqRule seq' (scriptLock c.cls) →
      seqChoice 0 c.cls c.height ≤ seqMasked seq' ∧ seqChoice 0 c.cls c.height ≤ seq') ∧
    lockMet (seqChoice 0 c.cls c.height) c.height (1400000 + 1) = seqOK 1400000 c :=
  withdraw_sequence 0 1400000 ⟨"w", "t", 0, 5, 1398801, false, .bindNew "T", "k"⟩ (Or.inr ⟨"T", rfl⟩)
    (by decide) (by decide)

example : seqChoice 5 (.stk 61440) 10 = 61441 ∧ SeqRule (seqChoice 5 (.stk 61440) 10) 61441 :=
  withdraw_sequence_staking 5 10 (by decide)

example : seqChoice 5 (.bindOld "O") 1398801 = Gen.Vm.bindingLockedPeriod ∧
    SeqRule (seqChoice 5 (.bindOld "O") 1398801) Gen.Vm.bindingLockedPeriod :=
  withdraw_sequence_binding rfl (by decide)

/-- least: 61441 is accepted, so is 61442 (and it is larger); 61440 is not -/
example : SeqRule 61442 61441 ∧ ¬ SeqRule 61440 61441 := by
  constructor
  · unfold SeqRule; decide
  · intro h; exact absurd (withdraw_sequence_least_staking 0 0 (f := 61440) (by decide) h).2 (by decide)

example : seqChoice 0 (.stk 61440) 0 ≤ seqMasked 61442 ∧ seqChoice 0 (.stk 61440) 0 ≤ 61442 :=
  withdraw_sequence_least_staking 0 0 (by decide) (by unfold SeqRule; decide)

example : seqChoice 0 (.bindNew "T") 1398801 ≤ seqMasked 0xffffffff ∧ seqChoice 0 (.bindNew "T") 1398801 ≤ 0xffffffff :=
  withdraw_sequence_least_binding rfl (by decide) (by unfold SeqRule; decide)

example : lockMet (seqChoice 3 dpU3.toSCoin.cls dpU3.toSCoin.height) dpU3.toSCoin.height (4 + 1) = seqOK 4 dpU3.toSCoin :=
  withdraw_sequence_consensus 3 4 dpU3.toSCoin (by decide) (by decide)

example : seqChoice 7 (.bindNew "T") 2 = (if 7 ≠ 0 then 2^64 - 2 else 2^64 - 1) ∧
    seqDisabled (seqChoice 7 (.bindNew "T") 2) = true ∧ inputLockHeight (seqChoice 7 (.bindNew "T") 2) 2 = none ∧
    (∀ bh, 0 < bh → lockMet (seqChoice 7 (.bindNew "T") 2) 2 bh = true) :=
  withdraw_sequence_default rfl (Or.inr (by decide)) 2

example : seqChoice 7 .std 2 ≠ Gen.Vm.maxTxInSequenceNum :=
  withdraw_sequence_locktime_effective rfl (Or.inl rfl) (by decide)

/-- first height: the staking deposit t1:1 (height 2, frozen 2) passes the wallet's test at `dpChain`
    (length 5) and the wallet's input (sequence 3) is includable in block 5 -/
example : confs dpS.syncedTo 2 ≥ (creditOf dpCtx.p dpU1).maturity ↔
    ((if dpU1.cb then decide (dpChain.length - 2 ≥ dpCtx.p.cbMaturity) else true) &&
      lockMet (seqChoice 0 (.stk 2) 2) 2 dpChain.length) = true :=
  withdraw_sequence_first_height dpHyp.1 dpU1_mem 0 (by decide) (by decide)

example : lockMet (seqChoice 0 (.stk 2) 2) 2 5 = true ∧ lockMet (seqChoice 0 (.stk 2) 2) 2 4 = false := by decide

/-- the staking output of the coinbase c3 (height 3, frozen 3): the input (sequence 4) is not includable yet -/
example : ¬ ((if dpU4.cb then decide (dpChain.length - dpU4.blk.height ≥ dpCtx.p.cbMaturity) else true) &&
      lockMet (seqChoice 0 dpU4.out.cls dpU4.blk.height) dpU4.blk.height dpChain.length) = true :=
  fun h => absurd ((withdraw_sequence_first_height dpHyp.1 dpU4_mem 0 (by decide) (by decide)).2 h)
    (fun h' => absurd ((staking_cb_withdrawable_iff dpHyp.1 dpU4_mem (f := 3) rfl rfl).1 h').2 (by decide))

end MW.Props.C10
