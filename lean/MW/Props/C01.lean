/-
  C01 — Wallet ledger equals what the best chain pays to its addresses.   PROPERTY THEOREMS:
  the refinement model ⊨ spec for all histories, and the maturity arithmetic.

  Reading guide.  `bookOf p own chain` (MW.Spec.Books) is the bookkeeping a chain implies, one plain fold;
  its ledger component IS the spec ledger (`books_ledger`), and `books_*` say in terms of the chain what
  each table holds.  `Inv c s chain` (MW.Lemmas.Ledger.Inv): store `s` holds exactly these books
  (unspent index, credits, debits, deposit records, tx records, block records), every ready wallet's
  balance is the total of its ledger entries, the synced-to table is the chain's height ↦ id map.
  Hypotheses are explicit decidable predicates (MW.Lemmas.LedgerValid):
    ChainValid own chain   no duplicate transaction ids; every non-coinbase input spends an existing,
                           not yet spent output of the chain; no transaction with BOTH an owned binding
                           input and an owned binding output
    AllReady own ready     every owner of an address is a ready wallet (importing/removed wallets: C07, C08)
    GoodChain / HeightsOK  block heights are positions, blocks are hash-linked
    RunHyp(I)              every node chain of the history is such a chain from one genesis, made of blocks of
                           the block files; an address receives payments only after the wallet issued it (`paid`)
-/
import MW.Lemmas.LedgerMain
import MW.Lemmas.LedgerCredValEx
import MW.Lemmas.LedgerHistoryEx
import MW.Lemmas.LedgerIssueEx
import MW.Lemmas.LedgerAbs2
import MW.Lemmas.LedgerObsEx
import MW.Lemmas.LedgerD2Ex
import MW.Lemmas.LedgerFUEx
import MW.Lemmas.TxmgrCodecRec
import MW.Lemmas.LedBytesInv
import MW.Lemmas.LedBytesWorld
import MW.Lemmas.LedBytesConnect
import MW.Lemmas.LedBytesEx
import MW.Lemmas.LedBytesFullFalse
import MW.Lemmas.LedBytesTop
import MW.Lemmas.LedBytesRel
import MW.Lemmas.LedBytesPendKey
import MW.Lemmas.LedBytesRun
namespace MW.Props.C01
open MW MW.Model.Ledger MW.Spec.Chain MW.Spec.Books MW.Lemmas.Ledger

/-- maturity_iff (coinbase, plain script): the wallet's confirmation arithmetic is the consensus coinbase rule
    (a coinbase output with a standard / old-style binding script has no sequence lock) -/
theorem maturity_iff_coinbase (p : Params) (tip : Nat) (c : SCoin) (hc : c.cb = true)
    (hk : c.cls = .std ∨ ∃ t, c.cls = .bindOld t) (h : c.height ≤ tip) (ht : tip < 2^63) :
    (confs tip c.height ≥ p.cbMaturity) ↔ spendableAt p tip c = true := by
  rw [confs_of_le tip c.height h ht]
  rcases hk with hk | ⟨t, hk⟩ <;> simp [spendableAt, seqOK, hc, hk] <;> omega

/-- maturity_iff (coinbase with a staking script): BOTH the coinbase maturity and the sequence lock of the
    script: the wallet tests confs ≥ max cbMaturity (frozen+1) -/
theorem maturity_iff_coinbase_staking (p : Params) (tip : Nat) (c : SCoin) (f : Nat) (hc : c.cb = true)
    (hk : c.cls = .stk f) (h : c.height ≤ tip) (ht : tip < 2^63) :
    (confs tip c.height ≥ max p.cbMaturity (f + 1)) ↔ spendableAt p tip c = true := by
  rw [confs_of_le tip c.height h ht]
  unfold spendableAt seqOK
  simp only [hc, hk, if_true, Bool.and_eq_true, decide_eq_true_eq]
  omega

/-- maturity_iff (staking): confs ≥ frozen+1 is the sequence-lock rule origin + (frozen+1) − 1 < tip+1 -/
theorem maturity_iff_staking (p : Params) (tip : Nat) (c : SCoin) (f : Nat) (hc : c.cb = false)
    (hk : c.cls = .stk f) (h : c.height ≤ tip) (ht : tip < 2^63) :
    (confs tip c.height ≥ (Cls.stk f).maturity) ↔ spendableAt p tip c = true := by
  rw [confs_of_le tip c.height h ht]
  unfold spendableAt seqOK Cls.maturity
  simp [hc, hk]
  omega

/-- standard and old-style binding outputs are spendable at once, and reported so (maturity 0) -/
theorem maturity_iff_plain (p : Params) (tip : Nat) (c : SCoin) (hc : c.cb = false)
    (hk : c.cls = .std ∨ ∃ t, c.cls = .bindOld t) (h : c.height ≤ tip) (ht : tip < 2^63) :
    (confs tip c.height ≥ c.cls.maturity) ↔ spendableAt p tip c = true := by
  rw [confs_of_le tip c.height h ht]
  rcases hk with hk | ⟨t, hk⟩ <;> simp [spendableAt, seqOK, Cls.maturity, hc, hk]

/-- the spec ledger is compositional: processing one more block is `applyBlock` -/
theorem ledgerOf_snoc (own : Own) (c : List Block) (b : Block) :
    ledgerOf own (c ++ [b]) = applyBlock own (ledgerOf own c) b := by
  simp [ledgerOf, List.foldl_append]

/-- without the guard `height ≤ sync` the unsigned subtraction wraps: an immature coinbase at
    height sync+1 gets 0 confirmations, at sync+2 it gets 2^64−1 (C17's hazard). -/
theorem confs_wraps : confs 1 3 = 2^64 - 1 := by decide

example : confs 10 7 = 4 := by decide


-- ------------------------------------------------------------------ the books are the spec ledger

/-- the ledger component of the books of a chain IS the spec ledger `ledgerOf` (unconditionally) -/
theorem books_ledger (p : Params) (own : Own) (chain : List Block) :
    (bookOf p own chain).L.map UCoin.toSCoin = ledgerOf own chain := bookOf_L p own chain

/-- credit table = every owned output of the chain, with spent flag and spender as the chain has them -/
theorem books_credits {p : Params} {own : Own} {chain : List Block} (h : ChainValid own chain) :
    CredInv p own (occs chain) (bookOf p own chain) := credInv_bookOf h

/-- CREDIT VALUES BY KEY: every record of the credit table of the books of a valid chain sits at the key (transaction,
    block, index) of an owned output of a transaction of the chain, and its value is the model's `minedCreditOf` of that
    output (what AddCredits wrote) — untouched while no transaction of the chain spends the output, otherwise with exactly
    `spent := true, spentBy := some dk` changed, `dk` the debit key of the spending input -/
theorem books_credit_values {p : Params} {own : Own} {chain : List Block} (h : ChainValid own chain)
    {ck : CredKey} {cr : Credit} (hg : (bookOf p own chain).credits ck = some cr) :
    MW.Lemmas.Ledger.CredVal.CredAt p own (occs chain) ck cr := MW.Lemmas.Ledger.CredVal.bookOf_credit_value h hg

/-- … at store level: a credit record under (t.id, block, j), `t` a transaction of a block of the wallet's chain, belongs
    to output `j` of `t`, that output pays an owned address, and amount, class, script hash, change flag and maturity of
    the record are those of `minedCreditOf` of the output, whether the credit is spent or not -/
theorem inv_credit_values {c : Ctx} {s : Store} {chain : List Block} (hI : Inv c s chain) (hV : ChainValid c.own chain)
    {b : Block} (hb : b ∈ chain) {t : Tx} (ht : t ∈ b.txs) {j : Nat} {bm : BlockMeta} {cr : Credit}
    (h : AMap.get s.credits ⟨t.id, bm, j⟩ = some cr) :
    ∃ o w ch, t.outs[j]? = some o ∧ ownerOf c.own o = some (w, ch) ∧
      MW.Lemmas.Ledger.CredVal.SameCoin cr (minedCreditOf c.p t.cb ⟨j, o, w, ch⟩) :=
  MW.Lemmas.Ledger.CredVal.inv_credit_value_block hI hV hb ht h

/-- the hypotheses are met: in the books of the chain G · B1(C1 pays A1) · B2(T1 spends C1:0) the credit of C1:0 is the
    `minedCreditOf` of the output, marked spent by input 0 of T1 in B2 -/
example : ChainValid d2Own MW.Lemmas.Ledger.CredVal.exChain ∧
    (bookOf { cbMaturity := 1 } d2Own MW.Lemmas.Ledger.CredVal.exChain).credits ⟨"C1", ⟨1, "B1"⟩, 0⟩ =
      some { minedCreditOf { cbMaturity := 1 } true ⟨0, ⟨"A1", 500, .std⟩, "W1", false⟩ with
        spent := true, spentBy := some ⟨"T1", ⟨2, "B2"⟩, 0⟩ } := MW.Lemmas.Ledger.CredVal.exChain_ok

/-- one debit per owned spent input, none else -/
theorem books_debits {p : Params} {own : Own} {chain : List Block} (h : ChainValid own chain) :
    DebitInv own (occs chain) (bookOf p own chain) := debitInv_bookOf h

/-- block records list the relevant transactions of each height in block order -/
theorem books_blocks (p : Params) (own : Own) (pre post : List Block) (b : Block)
    (hH : HeightsOK (pre ++ b :: post)) :
    (bookOf p own (pre ++ b :: post)).blocks b.height =
      match touchIds p own (bookOf p own pre) (occsOfBlock b) with
      | [] => none
      | ids => some (b.id, ids) := bookOf_blocks_at p own pre post b hH

/-- abstraction function: the unspent index (⋈ tx records ⋈ block files) denotes the spec ledger -/
theorem abs_ledger {c : Ctx} {s : Store} {chain : List Block} (hI : Inv c s chain) (hWF : KeysNodup s.unspent)
    (hV : ChainValid c.own chain) (hH : HeightsOK chain)
    (hK : ∀ x ∈ chain, AMap.get c.node.known x.id = some x) :
    (Lemmas.Ledger.abs c s).Perm (ledgerOf c.own chain) := abs_perm hI hWF hV hH hK

-- ------------------------------------------------------------------ goal 1: connect_sound, build_sound

/-- connect_sound: under the invariant, filterBlock on the next block of the node's chain succeeds and
    yields the invariant for the longer chain -/
theorem connect_sound {c : Ctx} {s : Store} {chain rest : List Block} {b : Block}
    (hI : Inv c s chain) (hnode : c.node.chain = chain ++ b :: rest) (hvalid : ChainValid c.own c.node.chain)
    (hheight : b.height = chain.length)
    (hAR : AllReady c.own (readyWallets s c.wallets)) (hne : (readyWallets s c.wallets).isEmpty = false) :
    ∃ s' conf, filterBlock c s (readyWallets s c.wallets) b = .ok (s', conf) ∧ Inv c s' (chain ++ [b]) ∧
      s'.status = s.status := Lemmas.Ledger.connect_sound hI hnode hvalid hheight hAR hne

/-- the same including the address records (first-use heights; `a0` = the records of the addresses issued so far) -/
theorem connect_sound_addrs {c : Ctx} {s : Store} {a0 : Wid × Bool × Addr → Option Nat}
    {chain rest : List Block} {b : Block}
    (hI : InvFull c s a0 chain) (hnode : c.node.chain = chain ++ b :: rest) (hvalid : ChainValid c.own c.node.chain)
    (hheight : b.height = chain.length)
    (hAR : AllReady c.own (readyWallets s c.wallets)) (hne : (readyWallets s c.wallets).isEmpty = false) :
    ∃ s' conf, filterBlock c s (readyWallets s c.wallets) b = .ok (s', conf) ∧ InvFull c s' a0 (chain ++ [b]) ∧
      s'.status = s.status := connect_sound_full hI hnode hvalid hheight hAR hne

/-- build_sound: processing the blocks of any valid chain one by one reaches the invariant -/
theorem build_sound {c : Ctx} {s : Store} {chain tc : List Block}
    (hI : Inv c s chain) (hnode : c.node.chain = chain ++ tc) (hvalid : ChainValid c.own c.node.chain)
    (hH : HeightsOK c.node.chain)
    (hAR : AllReady c.own (readyWallets s c.wallets)) (hne : (readyWallets s c.wallets).isEmpty = false) :
    ∃ s' added, connectAll c (readyWallets s c.wallets) tc s [] = .ok (s', added) ∧ Inv c s' c.node.chain :=
  Lemmas.Ledger.build_sound hI hnode hvalid hH hAR hne

/-- base case: a fresh wallet database satisfies the invariant for the genesis block -/
theorem fresh_inv {c : Ctx} {s : Store} {G : Block} (h : FreshStore c s G) : Inv c s [G] := inv_fresh h

-- ------------------------------------------------------------------ goal 2: rollback

/-- rollback_connect: connecting a block and disconnecting it again restores every MINED bucket
    extensionally (credits, unspent, debits, deposit records, tx records, block records, synced-to table);
    the pending buckets legitimately change -/
theorem rollback_connect {c : Ctx} {s s1 s2 : Store} {chain rest : List Block} {b : Block} {conf : List TxId}
    (hI : Inv c s chain) (hne : chain ≠ [])
    (hnode : c.node.chain = chain ++ b :: rest) (hvalid : ChainValid c.own c.node.chain)
    (hH : HeightsOK c.node.chain) (hknown : AMap.get c.node.known b.id = some b)
    (hAR : AllReady c.own (readyWallets s c.wallets)) (hre : (readyWallets s c.wallets).isEmpty = false)
    (h1 : filterBlock c s (readyWallets s c.wallets) b = .ok (s1, conf))
    (h2 : disconnectBlock c s1 b.height = .ok s2) :
    AMap.Equiv s2.credits s.credits ∧ AMap.Equiv s2.unspent s.unspent ∧ AMap.Equiv s2.debits s.debits ∧
    AMap.Equiv s2.game s.game ∧ AMap.Equiv s2.txrecs s.txrecs ∧ AMap.Equiv s2.blocks s.blocks ∧
    AMap.Equiv s2.sync s.sync ∧ s2.syncedTo = s.syncedTo :=
  inv_functional (rollback_connect_inv hI hne hnode hvalid hH hknown hAR hre h1 h2).2 hI

/-- disconnecting the tip block yields the invariant for the chain without it -/
theorem disconnect_sound {c : Ctx} : DisconnectSpec c := disconnectSpec_of

/-- rollback_build: rolling the wallet back by any number of blocks (the follower's disconnect loop; the
    fuel `curH + 1` the model passes suffices) yields the invariant for the shorter chain -/
theorem rollback_build {c : Ctx} {S : List Block} (H : ReorgHyp c S) {s : Store} {curH nbH fuel : Nat}
    (rolled : List Nat) (hI : Inv c s S) (hlen : S.length = curH + 1) (hle : nbH ≤ curH)
    (hfuel : curH + 1 ≤ fuel) (hAR : AllReady c.own (readyWallets s c.wallets)) :
    ∃ s', disconnectDown c nbH fuel s curH rolled = .ok (s', nbH, rolled ++ descList curH nbH) ∧
      Inv c s' (S.take (nbH + 1)) ∧ ∀ ws, readyWallets s' ws = readyWallets s ws :=
  disconnectDown_spec H rolled hI hlen hle hfuel hAR

-- ------------------------------------------------------------------ goal 3: reorg

/-- reorg_reaches: for ANY stored chain S and node chain N sharing the genesis (S = c₁ ++ old,
    N.take (b.height+1) = c₁ ++ new, either part possibly empty), reorg on a block of the node's chain
    succeeds – none of its error exits and none of the three fuel bounds is reached – and ends in the
    invariant for the node's chain up to that block; exactly the heights above the fork are rolled back
    (descending) and exactly the new branch is connected. -/
theorem reorg_reaches {c : Ctx} {S : List Block} (H : ReorgHyp c S) {s : Store} {b : Block}
    (hI : Inv c s S) (hb : c.node.chain[b.height]? = some b)
    (hAR : AllReady c.own (readyWallets s c.wallets)) (hne : (readyWallets s c.wallets).isEmpty = false) :
    ∃ s' rolled added, reorg c s (tipMeta S) b = .ok (s', rolled, added) ∧
      Inv c s' (c.node.chain.take (b.height + 1)) ∧ (∀ ws, readyWallets s' ws = readyWallets s ws) ∧
      ∃ f, f ≤ b.height ∧ f < S.length ∧ S.take (f + 1) = c.node.chain.take (f + 1) ∧
        (∀ j, f < j → j ≤ b.height → j < S.length → S.take (j + 1) ≠ c.node.chain.take (j + 1)) ∧
        rolled = descList (S.length - 1) f ∧
        added.map (·.1) = (List.range' (f + 1) (b.height - f)) :=
  Lemmas.Ledger.reorg_reaches H hI hb hAR hne

/-- one handler step, for an ARBITRARY (possibly stale) notification: it either fails and changes nothing,
    or succeeds and the wallet holds the books of the node's chain up to the block, resp. – a stale block
    still on the wallet's chain – of its own chain up to the block -/
theorem handler_step {c : Ctx} {S : List Block} (H : ReorgHyp c S) {s : Store} {v : Vol} {b : Block}
    (hinj : IdInj (b :: (S ++ c.node.chain))) (hI : Inv c s S) (hv : v.best = tipMeta S)
    (hgen : b.height = 0 → b.prev ≠ (tipMeta S).hash)
    (hAR : AllReady c.own (readyWallets s c.wallets)) (hne : (readyWallets s c.wallets).isEmpty = false) :
    ∃ s' v' ok, processBlock c s v b = (s', v', ok) ∧
      ((ok = false ∧ s' = s ∧ v' = v) ∨
       (ok = true ∧ v'.best = ⟨b.height, b.id⟩ ∧ (∀ ws, readyWallets s' ws = readyWallets s ws) ∧
        ((c.node.chain[b.height]? = some b ∧ Inv c s' (c.node.chain.take (b.height + 1))) ∨
         (S[b.height]? = some b ∧ Inv c s' (S.take (b.height + 1)))))) :=
  processBlock_total H hinj hI hv hgen hAR hne

-- ------------------------------------------------------------------ goal 4: the property

/-- ledger_correct (fixed keystore view): after ANY finite history of node events (extend, reorganise to
    any branch) interleaved in any order with handler steps, if no notification is pending the wallet
    holds exactly the books of the node's best chain and the follower's tip is the node's tip -/
theorem ledger_correct (e : Env) (G : Block) (w0 : World) (evs : List Ev) (H : RunHyp e G w0 evs)
    (h0 : Inv (e.ctx w0.chain) w0.s w0.chain) (hv0 : w0.v.best = tipMeta w0.chain) (hq0 : w0.queue = []) :
    (runW e w0 evs).queue = [] →
      Inv (e.ctx (runW e w0 evs).chain) (runW e w0 evs).s (runW e w0 evs).chain ∧
        (runW e w0 evs).v.best = tipMeta (runW e w0 evs).chain :=
  Lemmas.Ledger.ledger_correct e G w0 evs H h0 hv0 hq0

/-- ledger_correct with address issuance: wallets issue addresses during the history; an address is paid
    by no block the node has had on its best chain before the address was issued (`RunHypI.paid`) -/
theorem ledger_correct_issue (e : Env) (G : Block) (x0 : WorldI) (evs : List EvI) (H : RunHypI e G x0 evs)
    (h0 : Inv ({ e with own := x0.own }.ctx x0.w.chain) x0.w.s x0.w.chain)
    (hv0 : x0.w.v.best = tipMeta x0.w.chain) (hq0 : x0.w.queue = []) :
    (runI e x0 evs).w.queue = [] →
      Inv ({ e with own := (runI e x0 evs).own }.ctx (runI e x0 evs).w.chain) (runI e x0 evs).w.s
          (runI e x0 evs).w.chain ∧
        (runI e x0 evs).w.v.best = tipMeta (runI e x0 evs).w.chain :=
  Lemmas.Ledger.ledger_correct_issue e G x0 evs H h0 hv0 hq0

/-- THE PROPERTY, observed: for every ready wallet the reported unspent outputs (tx, index, amount, height,
    maturity, confirmations, address) are – as a multiset – exactly the outputs the best chain pays to the
    wallet and has not spent, and WalletBalance (total, spendable, withdrawable staking / binding) is the
    spec's: a coin counts as spendable / withdrawable exactly when consensus maturity allows it -/
theorem ledger_observed (e : Env) (G : Block) (w0 : World) (evs : List Ev) (H : RunHyp e G w0 evs)
    (h0 : Inv (e.ctx w0.chain) w0.s w0.chain) (hv0 : w0.v.best = tipMeta w0.chain) (hq0 : w0.queue = [])
    (hq : (runW e w0 evs).queue = [])
    (hwf0 : KeysNodup w0.s.unspent)
    (hlen : (runW e w0 evs).chain.length < 2^32) (hcb : e.p.cbMaturity < 2^32)
    (hstk : ∀ x ∈ ledgerOf e.own (runW e w0 evs).chain, ∀ f, x.cls = .stk f → f + 1 < 2^32)
    (w : Wid) (hw : (readyWallets w0.s e.wallets).contains w = true) (mc : Nat) :
    ((coinsOf (runW e w0 evs).s w).map (obsM (runW e w0 evs).s.syncedTo)).Perm
        ((utxosOf e.own (runW e w0 evs).chain w).map (obsS e.p ((runW e w0 evs).chain.length - 1))) ∧
      walletBalance (runW e w0 evs).s w mc = some (Spec.Chain.balance e.p e.own (runW e w0 evs).chain w mc) :=
  ledger_observed_wf e G w0 evs H h0 hv0 hq0 hq hwf0 hlen hcb hstk w hw mc

/-- maturity_iff: the wallet's confirmation arithmetic agrees with the consensus rule for every script class -/
theorem maturity_iff (p : Params) (tip : Nat) (u : UCoin) (h : u.blk.height ≤ tip) (ht : tip < 2^32)
    (hcb : p.cbMaturity < 2^32) (hstk : ∀ f, u.out.cls = .stk f → f + 1 < 2^32) :
    confs tip u.blk.height ≥ (creditOf p u).maturity ↔ spendableAt p tip u.toSCoin = true :=
  Lemmas.Ledger.maturity_iff p tip u h ht hcb hstk

-- ------------------------------------------------------------------ non-vacuity (concrete runs)

/-- every hypothesis of the observation theorems holds on a concrete store computed by the model
    (genesis + two blocks, an owned coinbase output spent with change) -/
example : ObsHyp obCtx obS obChain ∧ (readyWallets obS obCtx.wallets).contains "w1" = true := obHyp

/-- a concrete history with a reorganisation satisfies `RunHyp`
    (extend b1, extend b2, handle, handle, reorganise to a sibling of b2, handle) -/
example : RunHyp hxEnv hxG hxW0 hxEvs := hxRunHyp

/-- a concrete history with address issuance satisfies `RunHypI` (the address is issued while a notification
    is pending and paid by a later block) -/
example : RunHypI ixEnv hxG ix0 ixEvs := ixRunHypI

/-- a fresh store satisfies `FreshStore`, hence `Inv` and `InvFull` for the genesis block -/
example : FreshStore d2CtxS d2S0 d2G := d2Fresh
example : InvFull d2CtxS d2S0 (fun k => AMap.get d2S0.addrs k) [d2G] := invFull_fresh d2Fresh

/-- the hypothesis `paid` of `ledger_correct_issue` is necessary: issuing an address AFTER a block paying it
    has been handled leaves the wallet without that payment -/
example := @late_issue_breaks

/-- the hypothesis `reorgNonempty` of `RunHyp` is necessary: a bare detach announces nothing -/
example := @bare_detach_breaks

/-- the D2 witness: the wallet has G–B1–B2, the node G–B1–B2a–B3a where B2a pays the wallet 10 and B3a spends
    it; ONE notification (B3a) makes the follower roll back B2 and connect B2a and B3a in one database
    transaction. Every hypothesis of `reorg_reaches` holds (`d2ReorgHyp`, nothing assumed) and the computed
    store shows no coin and balance 0 (the historical defect showed "10 / 1 utxo") -/
example : ReorgHyp d2Ctx d2S := d2ReorgHyp
example (v : Vol) (hv : v.best = tipMeta d2S) :
    ∃ v', processBlock d2Ctx d2SS v d2B3a = (d2S1, v', true) ∧ Inv d2Ctx d2S1 d2N ∧ v'.best = ⟨3, "B3a"⟩ :=
  d2Process v hv
example : (coinsOf d2S1 "W1").length = 0 ∧ walletBalance d2S1 "W1" 1 = some ⟨0, 0, 0, 0⟩ := d2After
example : d2Rolled = [2] ∧ d2Added = [(2, ["T1"]), (3, ["T2"])] := d2Report

-- ------------------------------------------------------------------ round 4: the address records, EXACT, across rollback

section addrs
open MW.Lemmas.LedgerFU

/-- connect keeps the address clause: under the hypotheses of `connect_sound` the store `filterBlock` returns holds
    the first-use heights of the longer chain (a record is written only where it is 0 / absent) -/
theorem addr_connect {c : Ctx} {s : Store} {chain rest : List Block} {b : Block}
    (hI : Inv c s chain) (hA : AddrInv c s chain) (hnode : c.node.chain = chain ++ b :: rest)
    (hvalid : ChainValid c.own c.node.chain) (hheight : b.height = chain.length)
    (hAR : AllReady c.own (readyWallets s c.wallets)) (hne : (readyWallets s c.wallets).isEmpty = false)
    {s' : Store} {conf : List TxId} (h : filterBlock c s (readyWallets s c.wallets) b = .ok (s', conf)) :
    AddrInv c s' (chain ++ [b]) := connect_addr hI hA hnode hvalid hheight hAR hne h

/-- rollback RESTORES the address clause: under the hypotheses of `disconnect_sound` the store `disconnectBlock`
    returns for the tip block holds the first-use heights of the shorter chain – exactly the records whose first
    use was the rolled-back block are 0 again (every payment at or above the first use is rolled back with it,
    every payment below stays) -/
theorem addr_disconnect {c : Ctx} {s s' : Store} {chain : List Block} {b : Block}
    (hI : Inv c s (chain ++ [b])) (hA : AddrInv c s (chain ++ [b])) (hne : chain ≠ [])
    (hV : ChainValid c.own (chain ++ [b])) (hH : HeightsOK (chain ++ [b]))
    (hk : AMap.get c.node.known b.id = some b) (hAR : AllReady c.own (readyWallets s c.wallets))
    (h : disconnectBlock c s b.height = .ok s') : AddrInv c s' chain :=
  disconnect_addr hI hA hne hV hH hk hAR h

/-- `handler_step` with the address clause: for an ARBITRARY notified block the handler step fails and changes
    nothing, or succeeds and the store holds books AND first-use heights of the node's chain up to the block,
    resp. – a stale block still on the wallet's chain – of its own chain up to it (direct connect, or `reorg`:
    walk back, roll back, connect, all three loops) -/
theorem handler_step_addrs {c : Ctx} {S : List Block} (H : ReorgHyp c S) {s : Store} {v : Vol} {b : Block}
    (hinj : IdInj (b :: (S ++ c.node.chain))) (hI : Inv c s S) (hA : AddrInv c s S) (hv : v.best = tipMeta S)
    (hgen : b.height = 0 → b.prev ≠ (tipMeta S).hash)
    (hAR : AllReady c.own (readyWallets s c.wallets)) (hne : (readyWallets s c.wallets).isEmpty = false) :
    ∃ s' v' ok, processBlock c s v b = (s', v', ok) ∧
      ((ok = false ∧ s' = s ∧ v' = v) ∨
       (ok = true ∧ v'.best = ⟨b.height, b.id⟩ ∧ (∀ ws, readyWallets s' ws = readyWallets s ws) ∧
        ((c.node.chain[b.height]? = some b ∧ Inv c s' (c.node.chain.take (b.height + 1)) ∧
            AddrInv c s' (c.node.chain.take (b.height + 1))) ∨
         (S[b.height]? = some b ∧ Inv c s' (S.take (b.height + 1)) ∧ AddrInv c s' (S.take (b.height + 1)))))) :=
  handler_step_addr H hinj hI hA hv hgen hAR hne

/-- ADDRESS FIRST-USE HEIGHTS, EXACT (closes "proved for forward processing only"): after ANY finite history of
    node events (extend, reorganise to any branch), handler steps and address issuances, in any order, under the
    hypotheses of `ledger_correct_issue`, from a wallet in sync whose records are first-use heights (a fresh
    wallet: `addr_fresh`): if no notification is pending, the ledger invariant holds AND every address record is
    the first-use height of its key on the node's best chain, for the final keystore view -/
theorem addr_first_use_exact (e : Env) (G : Block) (x0 : WorldI) (evs : List EvI) (H : RunHypI e G x0 evs)
    (h0 : Inv ({ e with own := x0.own }.ctx x0.w.chain) x0.w.s x0.w.chain)
    (hA0 : AddrInv ({ e with own := x0.own }.ctx x0.w.chain) x0.w.s x0.w.chain)
    (hv0 : x0.w.v.best = tipMeta x0.w.chain) (hq0 : x0.w.queue = []) :
    (runI e x0 evs).w.queue = [] →
      Inv ({ e with own := (runI e x0 evs).own }.ctx (runI e x0 evs).w.chain) (runI e x0 evs).w.s
          (runI e x0 evs).w.chain ∧
      AddrInv ({ e with own := (runI e x0 evs).own }.ctx (runI e x0 evs).w.chain) (runI e x0 evs).w.s
          (runI e x0 evs).w.chain :=
  addr_correct_issue e G x0 evs H h0 hA0 hv0 hq0

/-- … and at ANY point of the history (notifications pending or not) books and first-use heights are those of
    ONE chain `S`: a prefix of a chain the node has had, whose tip is the follower's tip -/
theorem addr_first_use_consistent (e : Env) (G : Block) (x0 : WorldI) (evs : List EvI) (H : RunHypI e G x0 evs)
    (h0 : Inv ({ e with own := x0.own }.ctx x0.w.chain) x0.w.s x0.w.chain)
    (hA0 : AddrInv ({ e with own := x0.own }.ctx x0.w.chain) x0.w.s x0.w.chain)
    (hv0 : x0.w.v.best = tipMeta x0.w.chain) (hq0 : x0.w.queue = []) :
    ∃ S, Inv ({ e with own := (runI e x0 evs).own }.ctx (runI e x0 evs).w.chain) (runI e x0 evs).w.s S ∧
      AddrInv ({ e with own := (runI e x0 evs).own }.ctx (runI e x0 evs).w.chain) (runI e x0 evs).w.s S ∧
      (runI e x0 evs).w.v.best = tipMeta S ∧ ChainOK { e with own := (runI e x0 evs).own } G S ∧
      (∃ c ∈ chainsI e x0 evs, S <+: c) :=
  addr_consistent_issue e G x0 evs H h0 hA0 hv0 hq0

/-- the fixed-keystore histories of `ledger_correct` -/
theorem addr_first_use_fixed (e : Env) (G : Block) (w0 : World) (evs : List Ev) (H : RunHyp e G w0 evs)
    (h0 : Inv (e.ctx w0.chain) w0.s w0.chain) (hA0 : AddrInv (e.ctx w0.chain) w0.s w0.chain)
    (hv0 : w0.v.best = tipMeta w0.chain) (hq0 : w0.queue = []) :
    (runW e w0 evs).queue = [] → AddrInv (e.ctx (runW e w0 evs).chain) (runW e w0 evs).s (runW e w0 evs).chain :=
  addr_correct e G w0 evs H h0 hA0 hv0 hq0

/-- what the clause says for an owned address: record (default 0) = least positive height paying it in that class -/
theorem addr_record_eq {c : Ctx} {s : Store} {S : List Block} (hA : AddrInv c s S) {a : Addr} {w : Wid} {ch : Bool}
    (ho : AMap.get c.own a = some (w, ch)) (stk : Bool) :
    (AMap.get s.addrs (w, stk, a)).getD 0 = firstUse S stk a := by
  have := hA (w, stk, a)
  unfold recOf ownsB gA at this
  simpa [ho] using this

/-- `firstUse` is what its name says: positive iff a block above the genesis pays the key, then below the chain
    length, and one more block changes it only from 0, to that block's height -/
theorem firstUse_spec (S : List Block) (stk : Bool) (a : Addr) :
    (0 < firstUse S stk a ↔ (S.drop 1).any (paysKey stk a) = true) ∧
    (S ≠ [] → firstUse S stk a < S.length) ∧
    (S ≠ [] → ∀ b, firstUse (S ++ [b]) stk a =
      if firstUse S stk a ≠ 0 then firstUse S stk a else if paysKey stk a b then S.length else 0) :=
  ⟨firstUse_pos_iff S stk a, fun h => firstUse_lt h stk a, fun h b => firstUse_snoc h b stk a⟩

/-- base case: a store without address records (or with records 0) satisfies the clause for the genesis block -/
theorem addr_fresh {c : Ctx} {s : Store} {G : Block} (h : ∀ k, (AMap.get s.addrs k).getD 0 = 0) :
    AddrInv c s [G] := addrInv_genesis h

/-- non-vacuity: the history with a reorganisation (hx: the first payment to "a2" is rolled back and c2 pays it
    again), the history whose reorganisation removes the only payment to "a2" (fx: record back to 0, still there),
    the history with issuance (ix); computed records in MW.Lemmas.LedgerFUEx -/
example : RunHyp fxEnv hxG hxW0 fxEvs := fxRunHyp
example : AddrInv (fxEnv.ctx [hxG, hxB1, fxE2]) (runW fxEnv hxW0 fxEvs).s [hxG, hxB1, fxE2] := fxAddr
example : AddrInv (hxEnv.ctx [hxG, hxB1, hxC2]) (runW hxEnv hxW0 hxEvs).s [hxG, hxB1, hxC2] := hxAddr
example : AddrInv ({ ixEnv with own := ixOwn' }.ctx [hxG, hxB1, ixD2]) (runI ixEnv ix0 ixEvs).w.s [hxG, hxB1, ixD2] :=
  ixAddr
example : AMap.get (runW fxEnv hxW0 fxEvs).s.addrs ("w1", false, "a2") = some 0 ∧
    AMap.get (runW fxEnv hxW0 (fxEvs.take 4)).s.addrs ("w1", false, "a2") = some 2 := by decide

end addrs
-- ------------------------------------------------------------------ byte level (Round 4): the tuple-keyed buckets of the model
-- versus the byte keys of the code.  Codecs: MW.Model.TxmgrCodec, DEFINED from the regenerated tables MW.Gen.Codec.
section Codec
open MW.Model.TxmgrCodec MW.TxmgrCodec MW.Gen.Codec

/-- the regenerated writer tables tile their buffers and the reader tables look exactly where the writers wrote
    (re-checked by `decide` against the tables extracted from the Go source on every run) -/
theorem codec_tables_wf : ([wCanonicalOutPoint, wCanonicalUnspentKey, wExistsRawUnspentCredKey, wKeyCredit, wValueUnspentCredit,
    wValueUnminedCredit, wCreditPrefixHeight, wPutMinedBalance, wKeyDebit, wPutDebit, wValueUnspent, wKeyAddressRecord,
    wValueAddressRecord, wKeyGameHistory, wKeyUnminedGameHistory, wValueUnmined, wKeyTxRecord, wPutTxRecord,
    wTxRecordPrefixHeight, wTxRecordPrefixHeight2, wKeyBlockRecord, wValueBlockRecord, wSyncedKey, wSyncedValue,
    wFetchSyncedKey, wSyncedToValue, wResetSyncedKey, wWalletStatus, wCreditHash, wDebitHash].all WFRec) = true := writers_wf

/-- GENERIC round trip: for every well-formed table `W`, every tuple within the widths and every reader table `R` that
    agrees with `W`, reading `R`'s spans from `encode W vals` yields, span by span, the value written there -/
theorem codec_decode_encode (W R : Rec) (vals : List Val) (hw : WFRec W = true) (hf : Fits W.spans vals = true)
    (ha : Agree W R = true) :
    decodeBy R (encode W vals) = some (R.spans.map (fun r => (pick W.spans vals r).getD (.n 0))) :=
  decodeBy_encode W R vals hw hf ha

/-- GENERIC injectivity: distinct well-formed tuples have distinct byte images (justifies tuple-keyed maps) -/
theorem codec_encode_inj (L : Rec) (vals vals' : List Val) (hw : WFRec L = true) (hf : Fits L.spans vals = true)
    (hf' : Fits L.spans vals' = true) (he : encode L vals = encode L vals') : vals = vals' :=
  encode_inj L vals vals' hw hf hf' he

/-- the overflow case: an integer that does not fit its width does not survive (the width predicate is necessary) -/
theorem codec_overflow_breaks (w n : Nat) (h : 256 ^ w ≤ n) : beNat (be w n) ≠ n := beNat_be_of_ge w n h

/-- credits / debits: key round trip and injectivity (bucket `c`, `d`: tx hash ‖ height ‖ block hash ‖ index) -/
theorem codec_credit_key_roundtrip (k : CredKeyB) (h : k.WF = true) : readRawCreditKey (keyCredit k) = some k :=
  readRawCreditKey_keyCredit k h
theorem codec_credit_key_inj (k k' : CredKeyB) (h : k.WF = true) (h' : k'.WF = true) (he : keyCredit k = keyCredit k') :
    k = k' := keyCredit_inj k k' h h' he
/-- unspent index (bucket `u`: wallet id ‖ tx hash ‖ index ↦ height ‖ block hash) -/
theorem codec_unspent_key_inj (u u' : UnspentKeyB) (h : u.WF = true) (h' : u'.WF = true)
    (he : canonicalUnspentKey u = canonicalUnspentKey u') : u = u' := canonicalUnspentKey_inj u u' h h' he
theorem codec_unspent_key_roundtrip (u : UnspentKeyB) (h : u.WF = true) :
    readCanonicalUnspentKey (canonicalUnspentKey u) = some ⟨u.hash, u.index⟩ := readCanonicalUnspentKey_canonicalUnspentKey u h
theorem codec_unspent_value_roundtrip (b : BlockMetaB) (h : b.WF = true) : readBlockOfUnspent (valueUnspent b) = some b :=
  readBlockOfUnspent_valueUnspent b h
/-- tx records (bucket `t`) and block records' key (bucket `b`) -/
theorem codec_txrec_key_inj (k k' : TxRecKeyB) (h : k.WF = true) (h' : k'.WF = true) (he : keyTxRecord k = keyTxRecord k') :
    k = k' := keyTxRecord_inj k k' h h' he
theorem codec_txrec_key_roundtrip (k : TxRecKeyB) (h : k.WF = true) : readTxRecordKey (keyTxRecord k) = some k.block :=
  readTxRecordKey_keyTxRecord k h
theorem codec_txrec_value_roundtrip (l : TxLocB) (h : l.WF = true) : readTxRecordLoc (valueTxRecord l) = some l :=
  readTxRecordLoc_valueTxRecord l h
theorem codec_block_key_roundtrip (ht : Nat) (h : Fits wKeyBlockRecord.spans [.n ht] = true) :
    readBlockRecordKey (keyBlockRecord ht) = some ht := readBlockRecordKey_keyBlockRecord ht h
/-- synced-to table (bucket `sync`) -/
theorem codec_synced_roundtrip (hash : Bytes) (t : Nat) (h : Fits wSyncedValue.spans [.b hash, .n t] = true) :
    readSyncedValue (valueSynced hash t) = some (hash, t) := readSyncedValue_valueSynced hash t h
theorem codec_syncedto_roundtrip (ht : Nat) (h : Fits wSyncedToValue.spans [.n ht] = true) :
    readSyncedTo (valueSyncedTo ht) = some ht := readSyncedTo_valueSyncedTo ht h
/-- address records (bucket `a`) -/
theorem codec_address_key_inj (a a' : AddrKeyB) (h : a.WF = true) (h' : a'.WF = true)
    (he : encode wKeyAddressRecord a.vals = encode wKeyAddressRecord a'.vals) : a = a' := keyAddressRecord_inj a a' h h' he
theorem codec_address_value_roundtrip (ht : Nat) (h : Fits wValueAddressRecord.spans [.n ht] = true) :
    readAddressHeight (valueAddressRecord ht) = some ht := readAddressHeight_valueAddressRecord ht h

/-- PREFIX-SCAN EXACTNESS: the scans the ledger code iterates with select exactly the keys whose leading tuple
    components equal the prefix's -/
theorem codec_scan_credits_by_tx (h : Bytes) (k : CredKeyB) (hh : h.length = 32) (hk : k.WF = true) :
    h.isPrefixOf (keyCredit k) = true ↔ k.hash = h := scan_credits_by_tx h k hh hk
theorem codec_scan_credits_by_tx_height (h : Bytes) (ht : Nat) (k : CredKeyB) (hh : h.length = 32) (hht : ht < 256 ^ 8)
    (hk : k.WF = true) :
    (creditPrefixHeight h ht).isPrefixOf (keyCredit k) = true ↔ k.hash = h ∧ k.block.height = ht :=
  scan_credits_by_tx_height h ht k hh hht hk
theorem codec_scan_txrec_by_tx_height (h : Bytes) (ht : Nat) (k : TxRecKeyB) (hh : h.length = 32) (hht : ht < 256 ^ 8)
    (hk : k.WF = true) :
    (txRecordPrefixHeight h ht).isPrefixOf (keyTxRecord k) = true ↔ k.hash = h ∧ k.block.height = ht :=
  scan_txrec_by_tx_height h ht k hh hht hk

/-- the hypotheses are satisfiable by non-trivial records: maximal height and index, 0xff hashes -/
example : (⟨List.replicate 32 0xff, ⟨2 ^ 64 - 1, List.replicate 32 0xff⟩, 2 ^ 32 - 1⟩ : CredKeyB).WF = true := by decide
example : (⟨List.replicate 42 0x61, List.replicate 32 0, 7⟩ : UnspentKeyB).WF = true := by decide
example : (⟨List.replicate 32 1, ⟨5, List.replicate 32 2⟩⟩ : TxRecKeyB).WF = true ∧ (⟨1, 2, 3, 4, 5⟩ : TxLocB).WF = true := by decide
/-- … and an over-wide field is rejected by the predicate (height 2^64) -/
example : (⟨List.replicate 32 0, ⟨2 ^ 64, List.replicate 32 0⟩, 0⟩ : CredKeyB).WF = false := by decide
end Codec

-- ------------------------------------------------------------------ Round 5: the tuple-keyed ledger IS the byte store
/-! `MW.LedBytes`: L1 (C11's key/value database: `MW.Spec.KV.DB`, buckets of byte keys — `MW.Props.C11.bucket_*`)
    → L2 (the byte codecs of every record, from regenerated tables) → L3 (`MW.Model.Ledger.Store`, association lists
    keyed by decoded tuples).  `absStore E bs` reads a byte store (`BStore`: one byte-keyed list per bucket) as a
    ledger store, bucket by bucket through a `Codec`; `E.N : Names` is an injective reading of hashes / wallet ids /
    addresses as the model's symbolic ids.  `Canon` / `CanonS`: the bucket / store holds images of well-formed
    (field-width) records only — true of the empty database, kept by every step below. -/
namespace LedBytes
open MW.LedBytes

/-- EVERY PRIMITIVE ACCESS COMMUTES with the abstraction of a bucket, literally (equal association lists), for any
    codec satisfying the laws: get, exists, put, delete, prefix iteration (`hp`: prefix exactness of the key codec) -/
theorem bucket_access_commutes {KB VB K V : Type} [DecidableEq K] {cd : Codec KB VB K V} (L : cd.Laws)
    {m : AMap.T Bytes Bytes} (hm : Canon cd m) {k : KB} (hk : cd.wfK k) :
    AMap.get (absBucket cd m) (cd.nmK k) = (AMap.get m (cd.encK k)).bind (fun bv => (cd.decV bv).map cd.nmV) ∧
    (AMap.get (absBucket cd m) (cd.nmK k)).isSome = (AMap.get m (cd.encK k)).isSome ∧
    (∀ v, cd.wfV v → absBucket cd (AMap.put m (cd.encK k) (cd.encV v)) = AMap.put (absBucket cd m) (cd.nmK k) (cd.nmV v) ∧
      Canon cd (AMap.put m (cd.encK k) (cd.encV v))) ∧
    (absBucket cd (AMap.erase m (cd.encK k)) = AMap.erase (absBucket cd m) (cd.nmK k) ∧ Canon cd (AMap.erase m (cd.encK k))) ∧
    (∀ (pfx : Bytes) (p : K → Bool), (∀ k, cd.wfK k → pfx.isPrefixOf (cd.encK k) = p (cd.nmK k)) →
      absBucket cd (AMap.scan m (fun b => pfx.isPrefixOf b)) = AMap.scan (absBucket cd m) p) :=
  ⟨abs_get L hm hk, abs_has L hm hk, fun _ hv => ⟨abs_put L hm hk hv, canon_put hm hk hv⟩,
   ⟨abs_erase L hm hk, canon_erase hm _⟩, fun pfx p hp => abs_scan L pfx p hp hm⟩

/-- THE CODECS SATISFY THE LAWS (decode ∘ encode = some on well-formed records, injective naming of keys): credits `c`
    (45-byte unspent and 121-byte spent values), unspent `u`, debits `d`, balances `bal`, tx records `t`, synced
    heights `sync`, wallet status `ws`, addresses `a`, deposit history `lg`, and the pending buckets `m`, `mi`, `mc`, `LG` -/
theorem codec_laws (N : Names) (loc : Model.TxmgrCodec.TxLocB → BlkId × Nat) (deser : Bytes → Tx) :
    (cdC N).Laws ∧ (cdU N).Laws ∧ (cdD N).Laws ∧ (cdBal N).Laws ∧ (cdT N loc).Laws ∧ (cdSync N).Laws ∧ (cdWS N).Laws ∧
    (cdA N).Laws ∧ (cdG N).Laws ∧ (cdM N deser).Laws ∧ (cdMI N).Laws ∧ (cdMC N).Laws ∧ (cdUG N).Laws :=
  ⟨cdC_laws N, cdU_laws N, cdD_laws N, cdBal_laws N, cdT_laws N loc, cdSync_laws N, cdWS_laws N, cdA_laws N, cdG_laws N,
   cdM_laws N deser, cdMI_laws N, cdMC_laws N, cdUG_laws N⟩

/-- (Round 6) THE LAWS OF THE BLOCK-RECORD CODEC `b` — the 14th bucket.  Its value is never written in one piece:
    `valueBlockRecord` writes the 76-byte record of the first transaction, `appendRawBlockRecord` appends a hash and
    patches the 4-byte counter; `block_record_value` is the closed form the loop builds -/
theorem codec_laws_blocks_full : ∀ N : Names, (cdB N).Laws := cdB_laws

/-- updateBlockRecord's loop (`blockRecordValue`) builds hash ‖ time ‖ count ‖ hashes (`brFlat`); one more
    `appendRawBlockRecord` appends one hash and increments the counter; `readRawBlockRecord` reads everything back -/
theorem block_record_value (h : Bytes) (t : Nat) (txs : List Bytes) (x : Bytes) (hh : h.length = 32) (ht : t < 256 ^ 8)
    (hne : txs ≠ []) (hn : txs.length < 256 ^ 4) (hx : ∀ y ∈ txs, y.length = 32) (hx' : x.length = 32) :
    Model.TxmgrCodec.blockRecordValue h t txs = some (brFlat h t txs) ∧
    Model.TxmgrCodec.appendRawBlockRecord (brFlat h t txs) x = some (brFlat h t (txs ++ [x])) ∧
    Model.TxmgrCodec.readRawBlockRecordValue (brFlat h t txs) = some ⟨h, t, txs⟩ :=
  ⟨blockRecordValue_eq h t txs hh ht hne (Nat.le_of_lt hn) hx, appendRawBlockRecord_brFlat h t txs x hh hn hx',
   readRawBlockRecordValue_brFlat h t txs hh ht hn hx⟩

/-- the typed round trip of the credit VALUE (left open in Round 4): `readCreditValue` reads every well-formed credit
    back from the 45 bytes `valueUnspentCredit` writes — and from any extension of them (the 121-byte spent form) -/
theorem credit_value_roundtrip (c : Model.TxmgrCodec.CreditValB) (h : c.WF) (ext : Bytes) :
    Model.TxmgrCodec.readCreditValue (enc45 c ++ ext) = some c ∧
    (c.spent = false → Model.TxmgrCodec.valueUnspentCredit c = .ok (enc45 c)) :=
  ⟨readCreditValue_enc45 c h ext, fun hs => valueUnspentCredit_eq c hs h.2.2⟩

/-- spendCredit's value rewrite IS the codec's spent form: the 45 bytes of an unspent well-formed credit become the
    121 bytes `enc45 {c with spent := true} ++ keyDebit spender` (spent bit set in place, spender's debit key appended) -/
theorem spend_credit_value (c : Model.TxmgrCodec.CreditValB) (h : c.WF) (hs : c.spent = false)
    (dk : Model.TxmgrCodec.CredKeyB) (hd : dk.WFd = true) :
    Model.TxmgrCodec.spendCreditValue (enc45 c) dk = .ok (enc45 { c with spent := true } ++ Model.TxmgrCodec.keyDebit dk) :=
  spendCreditValue_enc45 c h hs dk hd

/-- (Round 6) THE INVERSE: unspendRawCredit's rewrite (first 45 bytes, spent bit cleared) of any value that starts with
    the 45 bytes of a well-formed credit — in particular of the 121-byte spent form `spend_credit_value` produces — is the
    45-byte unspent form of the same credit; `valueUnminedCreditFromMined` keeps the 45 bytes (flags included) -/
theorem unspend_credit_value (c : Model.TxmgrCodec.CreditValB) (h : c.WF) (ext : Bytes) :
    Model.TxmgrCodec.unspendCreditValue (enc45 c ++ ext) = enc45 { c with spent := false } ∧
    Model.TxmgrCodec.valueUnminedCreditFromMined (enc45 c ++ ext) = some (enc45 c) :=
  ⟨unspendCreditValue_enc45 c h ext, unminedFromMined_enc45 c h ext⟩

/-- (Round 6) existsRawUnspent's recomposition: outpoint hash (key bytes 42..74) ‖ the 40-byte value ‖ index (key bytes
    74..78) IS `keyCredit` of that outpoint in the block the unspent value names; and back: bytes 32..72 of a credit key
    are `valueUnspent` of its block (fetchNsUnspentValueFromRawCredit, used by Rollback) -/
theorem unspent_credit_key (w h : Bytes) (i : Nat) (b : Model.TxmgrCodec.BlockMetaB) (hw : w.length = 42) (hh : h.length = 32)
    (hi : i < 256 ^ 4) (hb : b.WF = true) (hk : (⟨h, b, i⟩ : Model.TxmgrCodec.CredKeyB).WF = true) :
    Model.TxmgrCodec.credKeyOfUnspent (Model.TxmgrCodec.canonicalUnspentKey ⟨w, h, i⟩) (Model.TxmgrCodec.valueUnspent b)
      = some (Model.TxmgrCodec.keyCredit ⟨h, b, i⟩) ∧
    Model.TxmgrCodec.fetchNsUnspentValueFromRawCredit (Model.TxmgrCodec.keyCredit ⟨h, b, i⟩) = some (Model.TxmgrCodec.valueUnspent b) :=
  ⟨credKeyOfUnspent_enc w h i b hw hh hi hb, unspentValue_of_keyCredit ⟨h, b, i⟩ hk⟩

/-- the one height whose 8-byte key is the name "syncedto" of the cursor in the same bucket (≈ 8.3·10^18): the
    hypothesis `keySynced h ≠ syncedToKey` of the sync-bucket lemmas is necessary -/
theorem syncedto_key_collision : Model.TxmgrCodec.keySynced 0x73796e636564746f = syncedToKey :=
  syncedTo_key_collision

/-- `ledger_on_bytes` for AddCredits (mined) — duplicate check (existsCredit), address record (first-use height),
    credit, unspent entry, working balance per relevant output, then the deposit records (`lg` put, `LG` delete):
    running the byte-level function and abstracting = abstracting and running `Model.Ledger.addCredits`, error exits
    included; the result is canonical again -/
theorem ledger_on_bytes_partial (E : MW.LedBytes.Env) (p : Params) {sb : SB} (hC : CanonS E sb.1) {txh : Bytes}
    {blk : Model.TxmgrCodec.BlockMetaB} (hs : StepWF txh blk) {rs : List RelB} (hrs : ∀ r ∈ rs, r.WF E.N) (tr : TxRec)
    (hid : tr.tx.id = E.N.tx txh) (hrel : tr.relOut = rs.map (RelB.nm E.N)) :
    (addCreditsB p txh tr.tx.cb blk sb rs).map (absSB E)
      = addCredits p (absStore E sb.1) (absBals E.N sb.2) tr (nmBlk E.N blk) ∧
    ∀ sb', addCreditsB p txh tr.tx.cb blk sb rs = .ok sb' → CanonS E sb'.1 :=
  addCredits_on_bytes E p hC hs hrs tr hid hrel

/-- the sync bucket: putSyncedBucket / fetchSyncedBlock / the delete loop of resetSyncedTo / the cursor write commute -/
theorem sync_on_bytes (E : MW.LedBytes.Env) {sync : AMap.T Bytes Bytes} (hc : Canon (cdSync E.N) (AMap.erase sync syncedToKey))
    {h : Nat} (hh : h < 256 ^ 8) (hne : Model.TxmgrCodec.keySynced h ≠ syncedToKey) :
    (∀ hash time, hash.length = 32 → time < 256 ^ 4 →
      absBucket (cdSync E.N) (AMap.erase (AMap.put sync (Model.TxmgrCodec.keySynced h) (Model.TxmgrCodec.valueSynced hash time)) syncedToKey)
        = AMap.put (absBucket (cdSync E.N) (AMap.erase sync syncedToKey)) h (E.N.blk hash) ∧
      syncedToOf (AMap.put sync (Model.TxmgrCodec.keySynced h) (Model.TxmgrCodec.valueSynced hash time)) = syncedToOf sync) ∧
    AMap.get (absBucket (cdSync E.N) (AMap.erase sync syncedToKey)) h
      = (AMap.get sync (Model.TxmgrCodec.keySynced h)).bind (fun v => (Model.TxmgrCodec.readSyncedValue v).map (fun x => E.N.blk x.1)) ∧
    absBucket (cdSync E.N) (AMap.erase (AMap.erase sync (Model.TxmgrCodec.keySynced h)) syncedToKey)
      = AMap.erase (absBucket (cdSync E.N) (AMap.erase sync syncedToKey)) h ∧
    syncedToOf (AMap.put sync syncedToKey (Model.TxmgrCodec.valueSyncedTo h)) = h :=
  ⟨fun _ _ hl ht => ⟨(sync_put_height E hc hh hne hl ht).1, (sync_put_height E hc hh hne hl ht).2.1⟩,
   sync_get_height E hc hh hne, (sync_erase_height E hc hh hne).1, (sync_put_cursor sync hh).2⟩

/-- (Round 6) `ledger_on_bytes` — THE WHOLE OF AddRelevantTx FOR A MINED TRANSACTION ON BYTES: existsTxRecord; the block
    record (putBlockRecord / appendRawBlockRecord); putTxRecord; updateMinedBalance (existsUnspent with the recomposed
    credit key, spendCredit's 45 → 121 byte rewrite, readRawCreditKey + withdrawGame, putDebit, deleteRawUnspent, the working
    balance); the removal of the tx's own pending version (deleteUnminedCredits, deleteRawUnmined); removeDoubleSpends with
    the recursive removeConflict on `m` / `mi` / `mc` / `LG`; AddCredits.  Running the byte-level function and
    abstracting = abstracting and running `Model.Ledger.addRelevantMined`, every error exit included; the result is
    canonical again.  Hypotheses: field widths (`TxRecB.WF`, hash / height / time widths), `tr` is the model's reading of the
    byte-level record (`TxRecB.Abs`), `P : PendEnv` ties mass-core's deserializer and the keystore to the model's, and the
    block record's 4-byte counter does not wrap (`BlockRoom`: fewer than 2^32 - 1 relevant transactions in the block) -/
theorem ledger_on_bytes {E : MW.LedBytes.Env} (p : Params) {own : Own} (P : PendEnv E own) {sb : SB} (hC : CanonS E sb.1)
    {trB : TxRecB} {blk : Model.TxmgrCodec.BlockMetaB} (hw : trB.WF E) (hbh : blk.hash.length = 32)
    (hbt : blk.height < 256 ^ 8) {time : Nat} (htime : time < 256 ^ 8) {tr : TxRec} (ha : trB.Abs E tr)
    (hroom : BlockRoom (absStore E sb.1) blk.height) :
    (addRelevantMinedB p (removeDoubleSpendsB P trB.ins) trB blk time sb).map (absSB E)
      = addRelevantMined p own (absStore E sb.1) (absBals E.N sb.2) tr (nmBlk E.N blk) ∧
    ∀ sb', addRelevantMinedB p (removeDoubleSpendsB P trB.ins) trB blk time sb = .ok sb' → CanonS E sb'.1 :=
  addRelevantMined_full_on_bytes p P hC hw hbh hbt htime ha hroom

/-- (Round 6) removeDoubleSpends alone (also what filterBlock runs on the irrelevant transactions of a block) -/
theorem remove_double_spends_on_bytes {E : MW.LedBytes.Env} {own : Own} (P : PendEnv E own) {bs : BStore} (hC : CanonS E bs)
    {ins : List Model.TxmgrCodec.OutPointB} (hw : ∀ o ∈ ins, o.WF = true) (tr : TxRec)
    (hti : tr.tx.ins.map (fun i => (i.tx, i.idx)) = ins.map (nmOP E.N)) :
    absStore E (removeDoubleSpendsB P ins bs) = removeDoubleSpends own (absStore E bs) tr ∧
    CanonS E (removeDoubleSpendsB P ins bs) := removeDoubleSpends_tr_on_bytes P hC hw tr hti

/-- (Round 6) `rollback_tx_on_bytes` — THE INNER LOOP OF Rollback ON BYTES (one transaction of one block record):
    existsTxRecord / readTxRecordLoc / FetchTxByFileLoc / Delete; coinbase: per output existsCredit, Delete, the keystore
    lookup, existsUnspent + deleteRawUnspent + Amount.Sub, the address-record repair (first-use height back to 0), the
    deposit record; ordinary tx: valueUnmined + putRawUnmined, per input putRawUnminedInput, existsDebit + deleteRawDebit,
    unspendRawCredit (121 → 45 bytes: `unspend_credit_value`), the keystore lookup by script hash,
    fetchNsUnspentValueFromRawCredit + putRawUnspent, Amount.Add, unwithdrawGame; per output existsCredit, deleteRawCredit,
    valueUnminedCreditFromMined + putRawUnminedCredit, …, putUnminedGameHistory.  `R : RbEnv` ties the node's block files and
    the keystore at byte level to the model's `Ctx` -/
theorem rollback_tx_on_bytes {E : MW.LedBytes.Env} {c : Ctx} (R : RbEnv E c) {sb : SB} (hC : CanonS E sb.1) {txh : Bytes}
    {blk : Model.TxmgrCodec.BlockMetaB} (hs : StepWF txh blk) {time : Nat} (htime : time < 256 ^ 8) :
    (rollbackTxB R txh blk time sb).map (absRb E)
      = rollbackTx c (absStore E sb.1) (absBals E.N sb.2) (nmBlk E.N blk) (E.N.tx txh) ∧
    ∀ x, rollbackTxB R txh blk time sb = .ok x → CanonS E x.1.1 :=
  rollbackTx_on_bytes R hC hs htime

/-- the statement of Round 5 WITHOUT width hypotheses.  It is too strong: it quantifies over every `tr` / `blk`, but a
    byte bucket only ever decodes to tuples whose hashes name 32-byte strings, so e.g. with `asciiNames` a record whose
    `tx.id` is not 32 characters long has no byte-level counterpart (`ledger_on_bytes_full_false`).  The provable statement
    is `ledger_on_bytes` above (hypotheses `TxRecB.WF`, `TxRecB.Abs`, `PendEnv`, `BlockRoom`) -/
def ledger_on_bytes_full : Prop :=
  ∀ (E : MW.LedBytes.Env) (p : Params) (own : Own),
    ∃ (stepB : SB → TxRec → Model.TxmgrCodec.BlockMetaB → M SB), ∀ (sb : SB) (tr : TxRec) (blk : Model.TxmgrCodec.BlockMetaB),
      CanonS E sb.1 → (stepB sb tr blk).map (absSB E) = addRelevantMined p own (absStore E sb.1) (absBals E.N sb.2) tr (nmBlk E.N blk)

/-- (Round 6) … and it IS false: with the Latin-1 naming every credit key a byte bucket decodes to carries a tx id of
    exactly 32 characters, while `addRelevantMined` on a record with tx id "x" creates a credit under "x" — so no byte-level
    step can simulate it.  The width / naming hypotheses of `ledger_on_bytes` are necessary -/
theorem ledger_on_bytes_full_false : ¬ ledger_on_bytes_full := MW.LedBytes.full_false

/-- `inv_on_bytes`: C01's invariant transfers to the byte store along any simulated step: if the byte-level step
    `fB` simulates the ledger step `f` (and keeps the store canonical) and C01 shows `f` takes `Inv … chain` to
    `Inv … chain'` (connect_sound, disconnect_sound, handler_step …), then `fB` succeeds and takes `InvB … chain` to
    `InvB … chain'` -/
theorem inv_on_bytes {E : MW.LedBytes.Env} {c : Ctx} (fB : BStore → M BStore) (f : Store → M Store)
    (hsim : ∀ bs, CanonS E bs → (fB bs).map (absStore E) = f (absStore E bs) ∧ ∀ bs', fB bs = .ok bs' → CanonS E bs')
    {chain chain' : List Block} (hpres : ∀ s, Inv c s chain → ∃ s', f s = .ok s' ∧ Inv c s' chain')
    (bs : BStore) (h : InvB E c bs chain) : ∃ bs', fB bs = .ok bs' ∧ InvB E c bs' chain' :=
  MW.LedBytes.inv_on_bytes fB f hsim hpres bs h

/-- what the invariant says about the BYTES: under a ready wallet's 42-byte id the balance bucket holds the 8-byte
    big-endian total the chain pays it; under the 8-byte key of every height of the chain the sync bucket holds a
    32-byte hash named as the chain's block there (‖ time); the "syncedto" cursor is the tip height -/
theorem inv_bytes {E : MW.LedBytes.Env} {c : Ctx} {bs : BStore} {chain : List Block} (h : InvB E c bs chain) :
    (∀ w : Bytes, w.length = 42 → (readyWallets (absStore E bs) c.wallets).contains (E.N.wal w) = true →
      AMap.get bs.bal w = some (Model.TxmgrCodec.valueBalance (totalU (bookOf c.p c.own chain).L (E.N.wal w)))) ∧
    (∀ (ht : Nat) (b : Block), ht < 256 ^ 8 → Model.TxmgrCodec.keySynced ht ≠ syncedToKey → chain[ht]? = some b →
      ∃ hash time, AMap.get bs.sync (Model.TxmgrCodec.keySynced ht) = some (Model.TxmgrCodec.valueSynced hash time) ∧
        hash.length = 32 ∧ E.N.blk hash = b.id) ∧
    syncedToOf bs.sync + 1 = chain.length :=
  ⟨fun _ hw hr => (invB_balance h hw hr).1, fun _ _ hh hne hb => invB_sync h hh hne hb, invB_syncedTo h⟩

/-- (Round 6) `disconnect_block_on_bytes` — disconnectBlock ON BYTES: TxStore.Rollback (FetchAllMinedBalance, the loop
    over the heights from the cursor down: fetchBlockRecord + the transactions in reverse through `rollback_tx_on_bytes`,
    deleteBlockRecord, the pending spenders of the removed coinbase credits, UpdateMinedBalances), resetSyncedTo (the delete
    loop and the cursor), the importing wallets' cursors.  Beside canonicity: the cursor is below the "syncedto" collision
    height, and the working balances Rollback writes back fit 8 bytes under 42-byte ids (`RollbackBals`, a fact about the
    bytes the step itself produces).  That Rollback never writes bucket `sync`, that the coinbase outpoints it collects
    and the heights it visits fit their fields are PROVED (`MW.Lemmas.LedBytesFrame`) -/
theorem disconnect_block_on_bytes {E : MW.LedBytes.Env} {c : Ctx} (R : RbEnv E c) (P : PendEnv E c.own) {bs : BStore}
    (hC : CanonS E bs) {height : Nat} (hcur : syncedToOf bs.sync < collisionHeight) (hb : RollbackBals R bs height) :
    (disconnectBlockB R P bs height).map (absStore E) = disconnectBlock c (absStore E bs) height ∧
    ∀ bs', disconnectBlockB R P bs height = .ok bs' → CanonS E bs' :=
  disconnectBlock_on_bytes' R P hC hcur hb

/-- (Round 6) `filter_block_on_bytes` — THE CONNECT STEP ON BYTES: filterBlock's node check, onRelevantBlockConnected
    (FetchAllMinedBalance restricted to the ready wallets, `ledger_on_bytes` per relevant record, UpdateMinedBalances),
    RemoveUnminedConflicts on the irrelevant transactions, putSyncedTo (fetchSyncedBlock below / above, putSyncedBucket,
    cursor).  The relevant records enter through `RelOracle` (byte-level twins of what filterTx computes; the two store
    reads of filterTx commute: `filter_tx_reads_on_bytes`).  `FilterOut`: facts about the bytes the step produces (room in
    the block record before every AddRelevantTx, balances written back fit) -/
theorem filter_block_on_bytes {E : MW.LedBytes.Env} {c : Ctx} (P : PendEnv E c.own) (O : RelOracle E c) {bs : BStore}
    (hC : CanonS E bs) {ready : List Bytes} {b : Block} (hdom : O.dom b) {hashB : Bytes} (hh : hashB.length = 32)
    (hid : E.N.blk hashB = b.id)
    (hht : b.height + 1 < collisionHeight) {time8 time4 : Nat} (ht8 : time8 < 256 ^ 8) (ht4 : time4 < 256 ^ 4)
    (hout : FilterOut P O bs ready b hashB time8) :
    (filterBlockB P O bs ready b hashB time8 time4).map (fun x => (absStore E x.1, x.2))
      = filterBlock c (absStore E bs) (ready.map E.N.wal) b ∧
    ∀ x, filterBlockB P O bs ready b hashB time8 time4 = .ok x → CanonS E x.1 :=
  filterBlock_on_bytes P O hC hdom hh hid hht ht8 ht4 hout

/-- (Round 6) the store reads of filterTx and of the follower commute: ExistCreditFromTx (a key of `c` under the 32-byte
    hash prefix), the pending transaction under a hash, the ready wallets read off bucket `ws` -/
theorem filter_tx_reads_on_bytes {E : MW.LedBytes.Env} {own : Own} (P : PendEnv E own) {bs : BStore} (hC : CanonS E bs)
    {txh : Bytes} (hh : txh.length = 32) {wallets : List Bytes} (hw : ∀ w ∈ wallets, w.length = 42) :
    existCreditFromTx (absStore E bs) (E.N.tx txh) = existCreditFromTxB bs.c txh ∧
    AMap.get (absStore E bs).pending (E.N.tx txh) = (pendTxB P bs.m txh).map (TxB.nm E.N) ∧
    readyWallets (absStore E bs) (wallets.map E.N.wal) = (readyWalletsB bs.ws wallets).map E.N.wal :=
  ⟨existCreditFromTx_on_bytes E hC hh, pendTx_on_bytes P hC hh, readyWallets_on_bytes E hC hw⟩

/-- (Round 6) histories on the byte store: for ANY byte-level processConnectedBlock `pbB` that simulates
    `Model.Ledger.processBlock` (`PbSim`), the run on bytes abstracts to the run of the ledger model event by event -/
theorem run_on_bytes {E : MW.LedBytes.Env} {e : Lemmas.Ledger.Env} {pbB : PbB} (hs : PbSim E e pbB) (evs : List Ev)
    (w : WorldB) (hC : CanonS E w.bs) :
    absW E (runWB pbB w evs) = runW e (absW E w) evs ∧ CanonS E (runWB pbB w evs).bs := runWB_abs hs evs w hC

/-- (Round 6) `ledger_correct` ON THE BYTE STORE: after ANY finite history of node events (extend, reorganise to any
    branch) interleaved in any order with handler steps running on the byte database, if no notification is pending the
    bytes are canonical and DECODE TO exactly the books of the node's best chain (`InvB` = `CanonS` ∧ `Inv ∘ absStore`),
    and the follower's tip is the node's tip.  Conditional on `PbSim` for the handler step (see `notes/C01.md` Round 6 for
    what of `PbSim` is proved: AddRelevantTx, Rollback's inner loop, removeDoubleSpends, AddCredits, the sync bucket) -/
theorem ledger_correct_on_bytes {E : MW.LedBytes.Env} (e : Lemmas.Ledger.Env) (G : Block) {pbB : PbB} (hs : PbSim E e pbB)
    (w0 : WorldB) (evs : List Ev) (H : RunHyp e G (absW E w0) evs)
    (h0 : InvB E (e.ctx w0.chain) w0.bs w0.chain) (hv0 : w0.v.best = tipMeta w0.chain) (hq0 : w0.queue = []) :
    (runWB pbB w0 evs).queue = [] →
      InvB E (e.ctx (runWB pbB w0 evs).chain) (runWB pbB w0 evs).bs (runWB pbB w0 evs).chain ∧
        (runWB pbB w0 evs).v.best = tipMeta (runWB pbB w0 evs).chain :=
  MW.LedBytes.ledger_correct_on_bytes e G hs w0 evs H h0 hv0 hq0

/-- (Round 6) `process_block_on_bytes` — ONE WHOLE HANDLER STEP (connect and reorg) ON BYTES.  The follower's control
    structure (alignNew, disconnectDown, the lock-step walk back, connectAll, the volatile update) touches the store only
    through four primitives; `Prims` packages byte-level versions with their simulations under an invariant `I` they keep
    (`primsOf`: `disconnectBlockB` / `filterBlockB` / the sync bucket / bucket `ws` are such a package for any `I` that
    implies their local run hypotheses `Good`).  Then: abstraction of the resulting bytes = the resulting ledger store, same
    volatile state and verdict, `I` kept — through every loop of reorg, every error exit and every fuel bound -/
theorem process_block_on_bytes {E : MW.LedBytes.Env} {c : Ctx} (Pr : Prims E c) (hchain : ∀ x ∈ c.node.chain, Pr.BlkOK x)
    {bs : BStore} (hI : Pr.I bs) {v : Vol} (hbest : v.best.height < collisionHeight) {b : Block} (hb : Pr.BlkOK b) :
    absStore E (processBlockB Pr bs v b).1 = (processBlock c (absStore E bs) v b).1 ∧
    (processBlockB Pr bs v b).2 = (processBlock c (absStore E bs) v b).2 ∧
    Pr.I (processBlockB Pr bs v b).1 :=
  processBlock_on_bytes Pr hchain hI hbest hb

/-- (Round 6) `ledger_correct` ON THE BYTE STORE WITH THE CONCRETE HANDLER `processBlockB`: along any history whose worlds
    satisfy the invariant of the primitives and the block-fitness conditions (`AllW Hd.pbB Hd.W`: all are SIZE conditions —
    heights below the "syncedto" collision height 0x73796e636564746f, balances < 2^64, fewer than 2^32 - 1 relevant
    transactions per block, hash / time widths), with an empty queue the bytes are canonical and decode to exactly the books
    of the node's best chain.  What remains for an unconditional statement: derive `AllW` from C01's `Inv` + a supply bound,
    and replace the relevance oracle by filterTx on bytes (its store reads commute: `filter_tx_reads_on_bytes`) -/
theorem ledger_correct_on_bytes_run {E : MW.LedBytes.Env} (e : Lemmas.Ledger.Env) (G : Block) (Hd : Handler E e)
    (w0 : WorldB) (evs : List Ev) (H : RunHyp e G (absW E w0) evs) (hA : AllW Hd.pbB Hd.W w0 evs)
    (h0 : InvB E (e.ctx w0.chain) w0.bs w0.chain) (hv0 : w0.v.best = tipMeta w0.chain) (hq0 : w0.queue = []) :
    (runWB Hd.pbB w0 evs).queue = [] →
      InvB E (e.ctx (runWB Hd.pbB w0 evs).chain) (runWB Hd.pbB w0 evs).bs (runWB Hd.pbB w0 evs).chain ∧
        (runWB Hd.pbB w0 evs).v.best = tipMeta (runWB Hd.pbB w0 evs).chain :=
  MW.LedBytes.ledger_correct_on_bytes_run e G Hd w0 evs H hA h0 hv0 hq0

-- the hypotheses are satisfiable: an injective naming, the empty (canonical) database abstracting to the empty ledger
-- store, a well-formed step and relevant output, a well-formed spent credit
example : Names := asciiNames
example (E : MW.LedBytes.Env) : CanonS E {} ∧ absStore E {} = {} := ⟨canonS_empty E, absStore_empty E⟩
example : StepWF (List.replicate 32 7) ⟨5, List.replicate 32 9⟩ := ⟨by decide, by decide, by decide⟩
example : RelB.WF asciiNames ⟨0, List.replicate 42 0x61, false, 1000, .stk 10, List.replicate 32 3, List.replicate 32 3⟩ :=
  ⟨by decide, by decide, by decide, by decide, rfl⟩
example : wfCredit (⟨5, true, false, .staking, 11, List.replicate 32 1⟩,
    some ⟨List.replicate 32 2, ⟨3, List.replicate 32 4⟩, 0⟩) := ⟨⟨by decide, by decide, by decide⟩, rfl, fun _ h => by cases h; decide⟩
-- Round 6: a keystore knowing one address with its byte-level reading (`PendEnv`, `RbEnv`), a byte-level record that is
-- well-formed and abstracts to a ledger-model record, and the byte-level AddRelevantTx succeeding on it from the empty
-- database (one entry each in `c`, `u`, `b`, `t`)
example : PendEnv MW.LedBytes.Ex.E0 MW.LedBytes.Ex.own0 := MW.LedBytes.Ex.P0
example : RbEnv MW.LedBytes.Ex.E0 MW.LedBytes.Ex.c0 := MW.LedBytes.Ex.R0
example : MW.LedBytes.Ex.trB0.WF MW.LedBytes.Ex.E1 ∧ MW.LedBytes.Ex.trB0.Abs MW.LedBytes.Ex.E1 MW.LedBytes.Ex.tr0 :=
  ⟨MW.LedBytes.Ex.trB0_wf, MW.LedBytes.Ex.trB0_abs⟩
example : ∃ sb', addRelevantMinedB {} (fun bs => bs) MW.LedBytes.Ex.trB0 ⟨5, MW.LedBytes.Ex.h32 9⟩ 77 ({}, []) = .ok sb' ∧
    sb'.1.c.length = 1 ∧ sb'.1.u.length = 1 ∧ sb'.1.b.length = 1 ∧ sb'.1.t.length = 1 := MW.LedBytes.Ex.step0_ok
example : RollbackBals MW.LedBytes.Ex.R0 {} 1 ∧ BlockRoom (absStore MW.LedBytes.Ex.E0 {}) 5 :=
  ⟨fun acc h => (MW.LedBytes.Ex.rollbackOut_empty acc h).1, MW.LedBytes.Ex.blockRoom_empty _ 5⟩
example : (⟨List.replicate 32 1, 5, [List.replicate 32 2, List.replicate 32 3]⟩ : Model.TxmgrCodec.BlockRecB).WF :=
  ⟨by decide, by decide, by decide, by decide, by decide⟩

-- ------------------------------------------------------------------ Round 7: chain-level hypotheses only
section Round7
open MW.Lemmas.Ledger.Trace

/-- (Round 7) WHERE THE FOLLOWER CALLS ITS STORE-WRITING PRIMITIVES.  `processOK c Pd Pf s v b` (MW.Lemmas.LedgerTraceDefs)
    follows the control structure of `processBlock` and says: every call of disconnectBlock the run makes is at a (store,
    height) satisfying `Pd`, every call of filterBlock at a (store, ready wallets, block) satisfying `Pf`.  From ANY state of
    C01's step invariant (the store holds the books of a chain `S` of block-file blocks, the follower's tip is the tip of `S`,
    `N` is the node's chain, `b` any block of the block files — stale notifications and runs that end in an error included)
    every disconnect is at the tip of the chain whose books the store then holds (`PdInv`) and every connect is at a store
    holding the books of a chain `T`, with the block — if it passes filterBlock's node check — the next block of the node's
    chain after `T` (`PfInv`); all these chains are prefixes of `S` or `N`, so they inherit the bounds -/
theorem handler_calls_at_inv {e : Lemmas.Ledger.Env} {G : Block} (EH : EnvHyp e G) {N S : List Block} (hN : ChainOK e G N)
    (hS : ChainOK e G S) {s : Store} {v : Vol} {b : Block} (hI : Inv (e.ctx N) s S) (hv : v.best = tipMeta S)
    (hbk : AMap.get e.known b.id = some b)
    (hAR : AllReady e.own (readyWallets s e.wallets)) (hne : (readyWallets s e.wallets).isEmpty = false)
    (hBS : ChainBounds e.p e.own S) (hBN : ChainBounds e.p e.own N) :
    processOK (e.ctx N) (PdInv (e.ctx N)) (PfInv (e.ctx N)) s v b :=
  processOK_of_J EH hN hS hI hv hbk hAR hne hBS hBN

/-- (Round 7) ONE WHOLE HANDLER STEP ON BYTES WITH THE CONCRETE PRIMITIVES (`rawPrims H` = `disconnectBlockB`, `filterBlockB`, the
    sync bucket, bucket `ws`), conditional only on the calls the run makes: if the primitives simulate at `Pd` / `Pf` pairs
    (`SimAt`) and the model's run only calls them there (`processOK`), the byte step abstracts to `processBlock`, same volatile
    state and verdict, canonical result.  Replaces `process_block_on_bytes`, whose invariant had to be kept at arbitrary arguments -/
theorem process_block_on_bytes_tr {E : MW.LedBytes.Env} {c : Ctx} (H : HEnv E c) {Pd : Store → Nat → Prop}
    {Pf : Store → List Wid → Block → Prop} (S : SimAt H Pd Pf) (hchain : ∀ x ∈ c.node.chain, BlkFit H x) {bs : BStore}
    (hC : CanonS E bs) {v : Vol} (hbest : v.best.height < collisionHeight) {b : Block} (hb : BlkFit H b)
    (hok : processOK c Pd Pf (absStore E bs) v b) :
    absStore E (processBlockB (rawPrims H) bs v b).1 = (processBlock c (absStore E bs) v b).1 ∧
    (processBlockB (rawPrims H) bs v b).2 = (processBlock c (absStore E bs) v b).2 ∧
    CanonS E (processBlockB (rawPrims H) bs v b).1 :=
  processBlock_on_bytes_tr H S hchain hC hbest hb hok

/-- (Round 7) `sizes_of_inv`, DISCONNECT SIDE: the working balances Rollback writes back fit their fields (`RollbackBals`, a run
    hypothesis of Round 6) whenever the store holds the books of a chain within `ChainBounds` and the call is at its tip -/
theorem sizes_of_inv_disconnect {E : MW.LedBytes.Env} {c : Ctx} (R : RbEnv E c) {bs : BStore} (hC : CanonS E bs)
    {T : List Block} {b : Block} (hI : Inv c (absStore E bs) (T ++ [b])) (hne : T ≠ [])
    (hV : ChainValid c.own (T ++ [b])) (hH : HeightsOK (T ++ [b])) (hk : AMap.get c.node.known b.id = some b)
    (hAR : AllReady c.own (readyWallets (absStore E bs) c.wallets)) (hB : ChainBounds c.p c.own (T ++ [b])) :
    RollbackBals R bs b.height := rollbackBals_of_inv R hC hI hne hV hH hk hAR hB

/-- (Round 7) `sizes_of_inv`, CONNECT SIDE: `FilterOut` (room in the block record before every AddRelevantTx, balances written back
    fit; a run hypothesis of Round 6) whenever the store holds the books of `T` and `b` is the next block of the node's chain -/
theorem sizes_of_inv_connect {E : MW.LedBytes.Env} {c : Ctx} (H : HEnv E c) {bs : BStore} (hC : CanonS E bs)
    {ready : List Bytes} {b : Block} (hb : BlkFit H b) {T rest : List Block} (hI : Inv c (absStore E bs) T)
    (hready : ready.map E.N.wal = readyWallets (absStore E bs) c.wallets)
    (hAR : AllReady c.own (ready.map E.N.wal)) (hne : ready.isEmpty = false)
    (hnode : c.node.chain = T ++ b :: rest) (hht : b.height = T.length) (hV : ChainValid c.own c.node.chain)
    (hB : ChainBounds c.p c.own (T ++ [b])) (hH : HeightsOK c.node.chain) :
    FilterOut H.P H.O bs ready b (H.hashOf b) (H.time8 b) :=
  filterOut_of_inv H hC hb hI hready hAR hne hnode hht hV hB hH

/-- (Round 7) **`sizes_of_inv`**: at `PdInv` / `PfInv` states both primitives simulate the ledger model: every size condition of
    Round 6 (`Good`) is derived from C01's `Inv` + the chain-level bounds -/
theorem sizes_of_inv {E : MW.LedBytes.Env} {c : Ctx} (H : HEnv E c) (hH : HeightsOK c.node.chain) :
    SimAt H (PdInv c) (PfInv c) := MW.LedBytes.sizes_of_inv H hH

/-- (Round 7) **`ledger_correct` ON THE BYTE STORE, CONCRETE HANDLER, HYPOTHESES ON THE CHAINS ONLY.**  For every history satisfying
    C01's `RunHyp` whose node chains satisfy `ChainBounds` — fewer than 2^62 blocks, what any prefix pays a wallet and has not
    spent < 2^64 (total supply ≤ MaxAmount), fewer than 2^32 - 1 transactions per block — and whose block-file blocks fit their
    fields (`hFit`): the run of `pbBOf Hs` (= `processBlockB` over `disconnectBlockB` / `filterBlockB` / sync bucket / bucket `ws`)
    on the byte database abstracts to the run of the ledger model event by event, and once the queue is empty the bytes are
    canonical and DECODE TO exactly the books of the node's best chain.  `AllW` / `Good` / `Prims.I` of Round 6 are gone -/
theorem ledger_correct_on_bytes_bounded {E : MW.LedBytes.Env} (e : Lemmas.Ledger.Env) (G : Block)
    (Hs : ∀ chain : List Block, HEnv E (e.ctx chain)) (w0 : WorldB) (evs : List Ev)
    (H : RunHyp e G (absW E w0) evs) (hB : ∀ ch ∈ chainsOf e (absW E w0) evs, ChainBounds e.p e.own ch)
    (hFit : ∀ chain, (∀ x ∈ chain, AMap.get e.known x.id = some x) → ∀ id x, AMap.get e.known id = some x →
      BlkFit (Hs chain) x)
    (h0 : InvB E (e.ctx w0.chain) w0.bs w0.chain) (hv0 : w0.v.best = tipMeta w0.chain) (hq0 : w0.queue = []) :
    absW E (runWB (pbBOf Hs) w0 evs) = runW e (absW E w0) evs ∧
    ((runWB (pbBOf Hs) w0 evs).queue = [] →
      InvB E (e.ctx (runWB (pbBOf Hs) w0 evs).chain) (runWB (pbBOf Hs) w0 evs).bs (runWB (pbBOf Hs) w0 evs).chain ∧
        (runWB (pbBOf Hs) w0 evs).v.best = tipMeta (runWB (pbBOf Hs) w0 evs).chain) :=
  MW.LedBytes.ledger_correct_on_bytes_bounded e G Hs w0 evs H hB hFit h0 hv0 hq0

/-- (Round 7) the height bound of `ChainBounds` cannot be relaxed to 2^63 (the range of Go's int64 heights): the "syncedto"
    collision height lies below it -/
theorem height_bound_2_63_insufficient : collisionHeight < 2 ^ 63 ∧ 2 ^ 62 < collisionHeight := by decide

/-- (Round 7, iii) filterTx's RELEVANCE COMPUTATION ON BYTES: `filterTxsB` (prevOf on the 32-byte outpoint hash: the block's own
    transactions, ExistCreditFromTx + FetchTxBySha, the pending bucket; the keystore lookup per parsed output; the binding
    flags) over a byte-level description `RelEnv` of the node abstracts to `filterTxs`, and every record it produces is
    well formed — `relOracleOf RE` is an INSTANCE of Round 6's `RelOracle` -/
theorem filter_txs_on_bytes {E : MW.LedBytes.Env} {c : Ctx} (RE : RelEnv E c) {bs : BStore} (hC : CanonS E bs)
    (ready : List Bytes) {b : Block} (hd : RE.dom b) :
    (filterTxsB RE bs ready b (RE.txsB b) [] 0 []).map (fun r => r.map (FRecB.nm E))
      = filterTxs c (absStore E bs) (ready.map E.N.wal) b.id b.txs [] 0 [] ∧
    ∀ r, filterTxsB RE bs ready b (RE.txsB b) [] 0 [] = .ok r → ∀ f ∈ r, f.Good E :=
  filterTxs_on_bytes RE hC ready hd
example {E : MW.LedBytes.Env} {c : Ctx} (RE : RelEnv E c) : RelOracle E c := relOracleOf RE

/-- (Round 7, iv) THE PENDING-KEY INVARIANT.  Go reads a pending spender back under the key it was stored with, the ledger model
    under the id of the deserialized transaction.  `PendKeyedB`: every record of bucket `m` sits under the hash of the
    transaction mass-core deserializes from it.  On a canonical store it IS the ledger model's `KeyId` (a clause of C09's
    `PendWF`, kept along C09's histories: `keyId_of_rel`) -/
theorem pend_keyed_on_bytes {E : MW.LedBytes.Env} {own : Own} (P : PendEnv E own) {bs : BStore} (hC : CanonS E bs) :
    PendKeyedB P bs.m ↔ MW.Lemmas.LedgerPending.KeyId (absStore E bs) := MW.LedBytes.pend_keyed_on_bytes P hC
example {E : MW.LedBytes.Env} {own : Own} (P : PendEnv E own) : PendKeyedB P [] := pendKeyedB_empty P

/-! (Round 7, ii) THE HYPOTHESES ARE MET BY A CONCRETE INSTANCE, RUN THROUGH THE CONCRETE HANDLER (`MW.LedBytes.Run`): the C01 worked
    history (G – B1 – B2, the node reorganises to the sibling C2 of B2) with 32-byte ids under the Latin-1 naming; every component
    of the environment is concrete — block files and a toy serialization (`RbEnv`, `PendEnv`), the relevance computation on bytes
    (`relOracleOf (xRE …)`), the initial database bytes — and the whole run is evaluated by the kernel. -/
example : RunHyp MW.LedBytes.Run.xe MW.LedBytes.Run.xG (absW MW.LedBytes.Run.xE MW.LedBytes.Run.xW0) MW.LedBytes.Run.xEvs :=
  MW.LedBytes.Run.xRunHyp
example : ∀ ch ∈ chainsOf MW.LedBytes.Run.xe (absW MW.LedBytes.Run.xE MW.LedBytes.Run.xW0) MW.LedBytes.Run.xEvs,
    ChainBounds MW.LedBytes.Run.xe.p MW.LedBytes.Run.xe.own ch := MW.LedBytes.Run.xBounds
example : InvB MW.LedBytes.Run.xE (MW.LedBytes.Run.xe.ctx [MW.LedBytes.Run.xG]) MW.LedBytes.Run.xBs0 [MW.LedBytes.Run.xG] :=
  MW.LedBytes.Run.xInvB0
/-- `ledger_correct_on_bytes_bounded` INSTANTIATED ON A REAL RUN: the bytes the concrete handler leaves after the reorganisation
    abstract to the ledger model's run and decode to the books of G – B1 – C2 -/
example := MW.LedBytes.Run.xCorrect
/-- … and what those bytes are: the balance bucket holds the 8 bytes of 100 under the wallet's 42-byte id (the coinbase of B1, unspent
    again, + the coinbase of C2), the cursor is 2, T1 is back in the pending bucket -/
example := MW.LedBytes.Run.xRun_bal_bytes
example := MW.LedBytes.Run.xRun_cursor
example := MW.LedBytes.Run.xRun_pending

end Round7
end LedBytes

end MW.Props.C01
