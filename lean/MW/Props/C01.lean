/-
  C01 — Wallet ledger equals what the best chain pays to its addresses.   PROPERTY THEOREMS.
  Model: MW.Model.Ledger (follower + stores as written);  Spec: MW.Spec.Chain (fold over the chain).
-/
import MW.Model.Ledger
import MW.Spec.Chain
namespace MW.Props.C01
open MW MW.Model.Ledger MW.Spec.Chain

/-- `confs` in the range the follower guarantees (coin height ≤ synced height): no wrap-around. -/
theorem confs_of_le (sync height : Nat) (h : height ≤ sync) (hs : sync < 2^63) :
    confs sync height = sync - height + 1 := by
  unfold confs u64
  have h1 : ((sync : Int) - (height : Int) + 1) = ((sync - height + 1 : Nat) : Int) := by omega
  rw [h1]
  have h2 : ((sync - height + 1 : Nat) : Int) % (2^64 : Int) = ((sync - height + 1 : Nat) : Int) := by
    apply Int.emod_eq_of_lt <;> omega
  rw [h2]; simp

/-- maturity_iff (coinbase): the wallet's confirmation arithmetic is the consensus coinbase rule -/
theorem maturity_iff_coinbase (p : Params) (tip : Nat) (c : SCoin) (hc : c.cb = true)
    (h : c.height ≤ tip) (ht : tip < 2^63) :
    (confs tip c.height ≥ p.cbMaturity) ↔ spendableAt p tip c = true := by
  rw [confs_of_le tip c.height h ht]
  unfold spendableAt
  simp [hc]
  omega

/-- maturity_iff (staking): confs ≥ frozen+1 is the sequence-lock rule origin + (frozen+1) − 1 < tip+1 -/
theorem maturity_iff_staking (p : Params) (tip : Nat) (c : SCoin) (f : Nat) (hc : c.cb = false)
    (hk : c.cls = .stk f) (h : c.height ≤ tip) (ht : tip < 2^63) :
    (confs tip c.height ≥ (Cls.stk f).maturity) ↔ spendableAt p tip c = true := by
  rw [confs_of_le tip c.height h ht]
  unfold spendableAt Cls.maturity
  simp [hc, hk]
  omega

/-- standard and old-style binding outputs are spendable at once, and reported so (maturity 0) -/
theorem maturity_iff_plain (p : Params) (tip : Nat) (c : SCoin) (hc : c.cb = false)
    (hk : c.cls = .std ∨ ∃ t, c.cls = .bindOld t) (h : c.height ≤ tip) (ht : tip < 2^63) :
    (confs tip c.height ≥ c.cls.maturity) ↔ spendableAt p tip c = true := by
  rw [confs_of_le tip c.height h ht]
  rcases hk with hk | ⟨t, hk⟩ <;> simp [spendableAt, Cls.maturity, hc, hk]

/-- the spec ledger is compositional: processing one more block is `applyBlock` -/
theorem ledgerOf_snoc (own : Own) (c : List Block) (b : Block) :
    ledgerOf own (c ++ [b]) = applyBlock own (ledgerOf own c) b := by
  simp [ledgerOf, List.foldl_append]

/-- without the guard `height ≤ sync` the unsigned subtraction wraps: an immature coinbase at
    height sync+1 gets 0 confirmations, at sync+2 it gets 2^64−1 (C17's hazard). -/
theorem confs_wraps : confs 1 3 = 2^64 - 1 := by decide

example : confs 10 7 = 4 := by decide

end MW.Props.C01
