/-
  C05, ABSTRACTION (round 4, third target): the symbolic keystore model of C05 (MW.Model.Secrets: terms written to named
  keys) is an abstraction of the BYTE LEVEL (MW.Model.KsBytes over the record codecs MW.Model.KsCodec, whose tables are
  regenerated from db.go / snacl.go).

    bytesOf C pv         concretisation of a term for byte-level primitives C: enc ↦ sealed box, kdf ↦ scrypt, hash ↦ sha256,
                         pair salt (hash key) ↦ the 88-byte snacl parameter block (snacl codec), any other pair ↦ the account
                         row of db.go (serializeAccountRow ∘ serializeHDAccountKey), the public leaf ↦ the public value
    loc / unloc          (wallet, key name) ↦ bucket (km/aid, km/<id>, km/<id>/pub) and key bytes, and back (abstraction of keys)
    Rep C ρ db t         the byte bucket tree t represents the symbolic database db: at every byte location exactly the
                         concretisation of the term at the abstracted key, nothing elsewhere
    *_refines            SYM_WRITE_REFINES_BYTES per operation: the byte-level writer (the put* functions of db.go in the order
                         of manager.go / addrmgr.go, run on the byte inputs the symbolic entries stand for) succeeds and leaves
                         a tree that represents the symbolic database after the operation – same (bucket, key) set written,
                         every value with the layout `bytesOf` gives its term
    no_clear_secret_bytes   C05's no_clear_secret transferred to the stored bytes

  Statements only; proofs in MW/Lemmas/KsRefine*.lean.  Assumptions are explicit: `Laws C` (sizes the codecs accept, boxes
  never empty, wallet naming a bijection) and, for the byte-level secrecy statement only, `Indep C ρ` (no frame of non-secret
  material contains the encoding of an atomic secret).  `Toy.toy` satisfies both.
-/
import MW.Lemmas.KsRefineOps2
import MW.Lemmas.KsRefineSecrecy
import MW.Lemmas.KsRefineToy
import MW.Lemmas.KsRefineBound
import MW.Lemmas.KsRefineFree
import MW.Lemmas.KsRefineTotal
import MW.Props.C05
namespace MW.Props.C05Abs
open MW MW.Model.Secrets MW.Model.KsCodec MW.Model.KsBytes MW.KsRefine

-- ------------------------------------------------------------------ keys: location and abstraction

/-- the key names of the symbolic model are the db.go name variables the codec level uses (regenerated) -/
theorem names_tie : ∀ k ∈ fixedKeys, KeyName.dbName k = some (genName k) := genName_dbName

/-- abstraction inverts location on every key that has a location of its own … -/
theorem key_abs_loc (C : BCrypto) (L : Laws C) (K : Key) (hK : KeyOk K.2) : unloc C (loc C K).1 (loc C K).2 = some K :=
  unloc_loc C L K hK

/-- … a byte location abstracts to at most the key located there, and two representable keys never share a location -/
theorem key_loc_abs (C : BCrypto) (L : Laws C) {p : BPath} {kb : Bytes} {K : Key} (h : unloc C p kb = some K) :
    loc C K = (p, kb) ∧ KeyOk K.2 := unloc_sound C L h
theorem key_loc_injective (C : BCrypto) (L : Laws C) {K K' : Key} (hK : KeyOk K.2) (hK' : KeyOk K'.2)
    (h : loc C K = loc C K') : K = K' := loc_inj C L hK hK' h

/-- the empty tree represents the empty database -/
theorem rep_init (C : BCrypto) (ρ : PubVal) : Rep C ρ (C05.reach []).db (fun _ => []) := rep_empty C ρ

/-- `absDb` of a representing tree is the symbolic database, value by value concretised … -/
theorem absDb_of_rep (C : BCrypto) (L : Laws C) (ρ : PubVal) (db : DB) (t : Tree) (h : Rep C ρ db t) (K : Key) (hK : KeyOk K.2) :
    absDb C t K = (AMap.get db K).map (valBytes C ρ K) := rep_get L h K hK

/-- … and nothing in the tree lies outside it: every stored byte string sits at the location of a symbolic key that holds
    a term it is the concretisation of -/
theorem absDb_complete (C : BCrypto) (L : Laws C) (ρ : PubVal) (db : DB) (t : Tree) (h : Rep C ρ db t)
    (p : BPath) (kb v : Bytes) (hv : tget t (p, kb) = some v) :
    ∃ K term, unloc C p kb = some K ∧ loc C K = (p, kb) ∧ AMap.get db K = some term ∧ absDb C t K = some v ∧
      v = valBytes C ρ K term := by
  obtain ⟨K, term, h1, h2, h3, h4⟩ := stored_is_conc L h hv
  exact ⟨K, term, h1, h2, h3, by simp [absDb, h2, hv], h4⟩

/-- every database whose keys are representable (account 1, indexes < 2^32) HAS a representing tree, for any public valuation -/
theorem representable (C : BCrypto) (L : Laws C) (ρ : PubVal) (db : DB) (hk : ∀ e ∈ db, KeyOk e.1.2) : ∃ t, Rep C ρ db t :=
  rep_exists C L ρ db hk

-- ------------------------------------------------------------------ sym_write_refines_bytes

/-- the byte-level installer IS the list of its Put calls (source order of createManagerKeyScope + initAcctBucket) -/
theorem installer_is_puts (t : Tree) (i : AcctIn) (h : InOk i) (hnew : bget (t .aid) i.id = none) :
    initAcctBucketB t i = .ok (tinsAll t (acctWrites i)) := initAcctBucketB_eq t i h hnew

/-- SYM_WRITE_REFINES_BYTES, the account installer shared by create / import keystore / import mnemonic: for ANY symbolic
    entry list `acctEntries …` -/
theorem sym_write_refines_bytes (C : BCrypto) (L : Laws C) (ρ ρ' : PubVal) (db : DB) (t : Tree) (coin : Nat) (w e : String) (p : Pass)
    (nExt nInt : Nat) (privParams mkPriv mkPubParams mkPub : Term) (kPub kPriv kEnt : Nat)
    (h : Rep C ρ db t)
    (H : InstallOk C ρ ρ' db coin w e p nExt nInt privParams mkPriv mkPubParams mkPub kPub kPriv kEnt) :
    ∃ t', initAcctBucketB t (acctInOf C ρ' coin w e p nExt nInt privParams mkPriv mkPubParams mkPub kPub kPriv kEnt) = .ok t' ∧
      Rep C ρ' (putAll db (acctEntries w e p nExt nInt privParams mkPriv mkPubParams mkPub kPub kPriv kEnt)) t' :=
  install_refines C L ρ ρ' db t coin w e p nExt nInt privParams mkPriv mkPubParams mkPub kPub kPriv kEnt h H.fmt H.frame H.ext H.int
    H.priv H.pub H.row H.fresh

/-- create wallet -/
theorem create_refines (C : BCrypto) (L : Laws C) (ρ ρ' : PubVal) (st : St) (t : Tree) (coin : Nat) (w : String) (p : Pass) (bits : Nat)
    (h : Rep C ρ st.db t) (hok : (create st w p bits).2 = .ok)
    (H : InstallOk C ρ ρ' st.db coin w w p 0 0 (paramsT (st.nonce + 1) p) (masterKey (st.nonce + 1) p)
            (paramsT st.nonce st.pubPass) (masterKey st.nonce st.pubPass) (st.nonce + 2) (st.nonce + 3) (st.nonce + 4)) :
    ∃ t', initAcctBucketB t (acctInOf C ρ' coin w w p 0 0 (paramsT (st.nonce + 1) p) (masterKey (st.nonce + 1) p)
            (paramsT st.nonce st.pubPass) (masterKey st.nonce st.pubPass) (st.nonce + 2) (st.nonce + 3) (st.nonce + 4)) = .ok t' ∧
      Rep C ρ' (create st w p bits).1.db t' :=
  MW.KsRefine.create_refines C L ρ ρ' st t coin w p bits h hok H.fmt H.frame H.row H.fresh

/-- import of a keystore file -/
theorem import_keystore_refines (C : BCrypto) (L : Laws C) (ρ ρ' : PubVal) (st : St) (t : Tree) (coin : Nat) (k : String) (p : Pass)
    (h : Rep C ρ st.db t) (hok : (importKS st k p).2 = .ok) :
    ∃ x e mkPriv, AMap.get st.exports k = some x ∧ deriveKey x.privParams p = some mkPriv ∧
      (InstallOk C ρ ρ' st.db coin x.wallet e p (if x.nExt = 0 then 1 else x.nExt) x.nInt x.privParams mkPriv
          (paramsT st.nonce st.pubPass) (masterKey st.nonce st.pubPass) (st.nonce + 1) (st.nonce + 2) (st.nonce + 3) →
        ∃ t', initAcctBucketB t (acctInOf C ρ' coin x.wallet e p (if x.nExt = 0 then 1 else x.nExt) x.nInt x.privParams mkPriv
                (paramsT st.nonce st.pubPass) (masterKey st.nonce st.pubPass) (st.nonce + 1) (st.nonce + 2) (st.nonce + 3)) = .ok t' ∧
          Rep C ρ' (importKS st k p).1.db t') := importKS_refines C L ρ ρ' st t coin k p h hok

/-- import from a mnemonic -/
theorem import_mnemonic_refines (C : BCrypto) (L : Laws C) (ρ ρ' : PubVal) (st : St) (t : Tree) (coin : Nat) (w : String) (p : Pass)
    (src : String) (ext int : Nat) (name : String)
    (h : Rep C ρ st.db t) (hok : (importMn st w p src ext int).2 = .okName name) :
    ∃ e, (InstallOk C ρ ρ' st.db coin name e p (if ext = 0 then 1 else ext) int (paramsT (st.nonce + 1) p) (masterKey (st.nonce + 1) p)
          (paramsT st.nonce st.pubPass) (masterKey st.nonce st.pubPass) (st.nonce + 2) (st.nonce + 3) (st.nonce + 4) →
        ∃ t', initAcctBucketB t (acctInOf C ρ' coin name e p (if ext = 0 then 1 else ext) int (paramsT (st.nonce + 1) p)
                (masterKey (st.nonce + 1) p) (paramsT st.nonce st.pubPass) (masterKey st.nonce st.pubPass)
                (st.nonce + 2) (st.nonce + 3) (st.nonce + 4)) = .ok t' ∧
          Rep C ρ' (importMn st w p src ext int).1.db t') := importMn_refines C L ρ ρ' st t coin w p src ext int name h hok

/-- new address: updateChildNum(external, next + 1) then putEncryptedPubKey(external, next) -/
theorem new_address_refines (C : BCrypto) (L : Laws C) (ρ ρ' : PubVal) (st : St) (t : Tree) (w : String)
    (h : Rep C ρ st.db t) (hok : (newAddr st w).2 = .ok) :
    ∃ r a, AMap.get st.wal w = some (r, a) ∧
      (ρ' (w, .exNum) = u32Bytes (r.nExt + 1) →
       (∀ K, K ≠ (w, .exNum) → K ≠ (w, .pubk 0 r.nExt) → ρ' K = ρ K) →
       ∃ t', newAddrB t (C.walletId w) r.nExt
               (valBytes C ρ' (w, .pubk 0 r.nExt) (dbGet (newAddr st w).1.db w (.pubk 0 r.nExt))) = .ok t' ∧
             Rep C ρ' (newAddr st w).1.db t') := newAddr_refines C L ρ ρ' st t w h hok

/-- change of the public passphrase: every keystore in turn (putMasterKeyParams(pub, nil), putCryptoKeys(pub, nil, nil)),
    the private parameters and every other record untouched -/
theorem change_pubpass_refines (C : BCrypto) (L : Laws C) (ρ : PubVal) (st : St) (t : Tree) (old new : Pass)
    (h : Rep C ρ st.db t) (hok : (chpub st old new).2 = .ok) :
    ∃ t', chpubAllB t ((chpubSteps st old).map (chpubStepB C ρ new)) = .ok t' ∧ Rep C ρ (chpub st old new).1.db t' :=
  chpub_refines C L ρ st t old new h hok

/-- change of the private passphrase writes nothing (keystore version 0 refuses it) -/
theorem change_privpass_writes_nothing (st : St) (w : String) (old new : Pass) : (chpriv st w old new).1.db = st.db := by
  unfold chpriv; split; · rfl
  split; · rfl
  split; · rfl
  split; · rfl
  split <;> rfl

/-- remove: DeleteKeystore at byte level leaves the tree of the database without the wallet's keys -/
theorem remove_refines (C : BCrypto) (L : Laws C) (ρ : PubVal) (db : DB) (t : Tree) (w : String) (h : Rep C ρ db t) :
    Rep C ρ (eraseWallet db w) (removeB t (C.walletId w)) := MW.KsRefine.remove_refines C L ρ db t w h

/-- export: the byte-level `export` of the account bucket returns, in hex, the concretisations of the terms of the symbolic
    export, and the wallet record's counters -/
theorem export_refines (C : BCrypto) (L : Laws C) (ρ : PubVal) (st : St) (t : Tree) (w : String) (r : WRec) (purpose coin : Nat)
    (h : Rep C ρ st.db t)
    (ta te ti : String) (tEnt tPriv tCent tPub tCpub : Term)
    (hacct : AMap.get st.db (w, .account) = some (.pub ta)) (hex : AMap.get st.db (w, .exNum) = some (.pub te))
    (hin : AMap.get st.db (w, .inNum) = some (.pub ti))
    (hent : AMap.get st.db (w, .ent) = some tEnt) (hpriv : AMap.get st.db (w, .mpriv) = some tPriv)
    (hcent : AMap.get st.db (w, .cent) = some tCent) (hpub : AMap.get st.db (w, .mpub) = some tPub)
    (hcpub : AMap.get st.db (w, .cpub) = some tCpub)
    (fa : ρ (w, .account) = u32Bytes 1) (fe : ρ (w, .exNum) = u32Bytes r.nExt) (fi : ρ (w, .inNum) = u32Bytes r.nInt)
    (he : r.nExt < 4294967296) (hi : r.nInt < 4294967296) :
    ∃ k, exportB t (C.walletId w) purpose coin = .ok k ∧
      k.entropyEnc = hexEnc (valBytes C ρ (w, .ent) (exportOf st w r).entEnc) ∧
      k.privParams = hexEnc (valBytes C ρ (w, .mpriv) (exportOf st w r).privParams) ∧
      k.cryptoKeyEntropyEnc = hexEnc (valBytes C ρ (w, .cent) (exportOf st w r).cEntEnc) ∧
      k.externalChildNum = (exportOf st w r).nExt ∧ k.internalChildNum = (exportOf st w r).nInt ∧
      k.account = 1 ∧ k.purpose = purpose ∧ k.coin = coin :=
  MW.KsRefine.export_refines C L ρ st t w r purpose coin h ta te ti tEnt tPriv tCent tPub tCpub hacct hex hin hent hpriv hcent hpub
    hcpub fa fe fi he hi

-- ------------------------------------------------------------------ layouts

/-- kdf params ↦ the 88-byte snacl parameter block: the real `Unmarshal` (codec model) of the concretised parameter pair
    returns salt, digest of the derived key and the cost parameters -/
theorem params_layout (C : BCrypto) (L : Laws C) (pv : Bytes) (n : Nat) (p : Pass) :
    (bytesOf C pv (paramsT n p)).length = 88 ∧
    unmarshal (bytesOf C pv (paramsT n p)) = .ok ⟨C.salt n, C.sha (C.kdf (C.salt n) (C.atom (.pass p))), C.N, C.R, C.P⟩ :=
  ⟨paramsT_bytes C L pv n p, paramsT_unmarshal C L pv n p⟩

/-- pairs ↦ the account row: deserializeAccountRow / deserializeHDAccountKey give back the two sealed boxes -/
theorem account_row_layout (C : BCrypto) (pv : Bytes) (kPub kPriv : Term) (x y : Term)
    (h : 8 + (C.box (bytesOf C pv kPub) (bytesOf C pv x)).length + (C.box (bytesOf C pv kPriv) (bytesOf C pv y)).length < 4294967296) :
    ∃ raw, deserializeAccountRow (bytesOf C pv (.pair (.enc kPub x) (.enc kPriv y))) = .ok (MW.Gen.KsCodec.accountMASS, raw) ∧
      deserializeHDAccountKey raw = .ok (C.box (bytesOf C pv kPub) (bytesOf C pv x), C.box (bytesOf C pv kPriv) (bytesOf C pv y)) :=
  acctRow_decodes _ _ h

-- ------------------------------------------------------------------ transfer of no_clear_secret

/-- the shape invariant: in every reachable state every stored term has one of the three layouts of db.go -/
theorem stored_layouts (ops : List Op) : ∀ e ∈ (C05.reach ops).db, Stored e.2 = true := (run_st ops init_st).1

/-- every byte string of a tree that represents a reachable database is the concretisation of an OPAQUE term of that
    database, of a stored layout; no atomic secret is Dolev–Yao derivable from those terms (C05.no_clear_secret) -/
theorem stored_bytes_opaque (C : BCrypto) (L : Laws C) (ρ : PubVal) (ops : List Op) (t : Tree)
    (h : Rep C ρ (C05.reach ops).db t) (p : BPath) (kb v : Bytes) (hv : tget t (p, kb) = some v) :
    (∃ K term, unloc C p kb = some K ∧ AMap.get (C05.reach ops).db K = some term ∧ v = valBytes C ρ K term ∧
      pubOk term = true ∧ Stored term = true ∧ term ∈ visible (C05.reach ops)) ∧
    ∀ s, ¬ Derivable (visible (C05.reach ops)) (.secret s) := by
  obtain ⟨K, term, h1, h2, h3, h4, h5⟩ := stored_opaque L ops h hv
  exact ⟨⟨K, term, h1, h2, h3, h4, h5, by
    simp only [visible, List.mem_append, List.mem_map]
    exact Or.inl (Or.inl ⟨(K, term), MW.Lemmas.SecretsInv.get_mem h2, rfl⟩)⟩, C05.no_clear_secret ops⟩

/-- … and such a concretisation is a FRAME: a primitive's output on non-secret material, the snacl block of such outputs, or
    the account row of two sealed boxes – no atom's bytes enter it outside a sealed box -/
theorem stored_bytes_framed (C : BCrypto) (L : Laws C) (ρ : PubVal) (ops : List Op) (t : Tree)
    (h : Rep C ρ (C05.reach ops).db t) (p : BPath) (kb v : Bytes) (hv : tget t (p, kb) = some v) :
    ∃ K, unloc C p kb = some K ∧ Frame C (ρ K) v := by
  obtain ⟨K, term, h1, _, h3, h4, h5⟩ := stored_opaque L ops h hv
  exact ⟨K, h1, h3 ▸ frame_of C (ρ K) term h5 h4⟩

/-- NO_CLEAR_SECRET, byte level: under the independence assumption no byte string stored under the keystore buckets contains
    the byte encoding of an atomic secret (entropy, seed, private keys, random keys, passphrases) -/
theorem no_clear_secret_bytes (C : BCrypto) (L : Laws C) (ρ : PubVal) (hind : Indep C ρ) (ops : List Op) (t : Tree)
    (h : Rep C ρ (C05.reach ops).db t) (p : BPath) (kb v : Bytes) (hv : tget t (p, kb) = some v) (s : Sec) :
    ¬ (C.atom s <:+: v) := no_secret_bytes L hind ops h hv s

/-- every reachable state whose history passes uint32 restore hints (what the API can express) has a representing tree … -/
theorem reach_representable (C : BCrypto) (L : Laws C) (ρ : PubVal) (ops : List Op) (hops : ∀ o ∈ ops, OpOk o) :
    ∃ t, Rep C ρ (C05.reach ops).db t := MW.KsRefine.reach_representable C L ρ ops hops

/-- … so the byte-level secrecy statement is about a tree in every such state -/
theorem no_clear_secret_bytes_reach (C : BCrypto) (L : Laws C) (ρ : PubVal) (hind : Indep C ρ) (ops : List Op)
    (hops : ∀ o ∈ ops, OpOk o) :
    ∃ t, Rep C ρ (C05.reach ops).db t ∧ ∀ p kb v, tget t (p, kb) = some v → ∀ s : Sec, ¬ (C.atom s <:+: v) := by
  obtain ⟨t, h⟩ := MW.KsRefine.reach_representable C L ρ ops hops
  exact ⟨t, h, fun p kb v hv s => no_secret_bytes L hind ops h hv s⟩

/-- the exported keystore at byte level: the three secret-bearing fields of the file are the hex of frames -/
theorem export_fields_framed (C : BCrypto) (L : Laws C) (ρ : PubVal) (ops : List Op) (t : Tree) (w : String) (r : WRec)
    (purpose coin : Nat) (h : Rep C ρ (C05.reach ops).db t)
    (ta te ti : String) (tEnt tPriv tCent tPub tCpub : Term)
    (hacct : AMap.get (C05.reach ops).db (w, .account) = some (.pub ta)) (hex : AMap.get (C05.reach ops).db (w, .exNum) = some (.pub te))
    (hin : AMap.get (C05.reach ops).db (w, .inNum) = some (.pub ti))
    (hent : AMap.get (C05.reach ops).db (w, .ent) = some tEnt) (hpriv : AMap.get (C05.reach ops).db (w, .mpriv) = some tPriv)
    (hcent : AMap.get (C05.reach ops).db (w, .cent) = some tCent) (hpub : AMap.get (C05.reach ops).db (w, .mpub) = some tPub)
    (hcpub : AMap.get (C05.reach ops).db (w, .cpub) = some tCpub)
    (fa : ρ (w, .account) = u32Bytes 1) (fe : ρ (w, .exNum) = u32Bytes r.nExt)
    (fi : ρ (w, .inNum) = u32Bytes r.nInt) (he : r.nExt < 4294967296) (hi : r.nInt < 4294967296) :
    ∃ k f1 f2 f3, exportB t (C.walletId w) purpose coin = .ok k ∧
      k.entropyEnc = hexEnc f1 ∧ k.privParams = hexEnc f2 ∧ k.cryptoKeyEntropyEnc = hexEnc f3 ∧
      Frame C (ρ (w, .ent)) f1 ∧ Frame C (ρ (w, .mpriv)) f2 ∧ Frame C (ρ (w, .cent)) f3 :=
  MW.KsRefine.export_fields_framed C L ρ ops t w r purpose coin h ta te ti tEnt tPriv tCent tPub tCpub hacct hex hin hent hpriv hcent
    hpub hcpub fa fe fi he hi

/-- OPACITY IS A PROPERTY OF THE BYTES: under the free-algebra assumption at byte level (`Free C pv`: sealing and key
    derivation injective, images of the primitives pairwise disjoint and different from the public value) any pair-free
    term whose concretisation equals the stored bytes of an opaque pair-free term is itself opaque -/
theorem any_reading_opaque (C : BCrypto) (pv : Bytes) (F : Free C pv) (t u : Term) (ht : noPair t = true) (hu : noPair u = true)
    (hp : pubOk t = true) (h : bytesOf C pv u = bytesOf C pv t) : pubOk u = true :=
  MW.KsRefine.any_reading_opaque C pv F t u ht hu hp h

-- ------------------------------------------------------------------ the byte-level MACHINE (what the driver executes)

/-- whenever the byte-level run (`runB`: per operation the writers above, driven by the outcome of the symbolic step) of a
    history succeeds, its tree represents the symbolic state, under the public valuation of that state (fixed formats, the
    counters of the wallet records, the public data π) -/
theorem machine_sound (C : BCrypto) (L : Laws C) (π : PubData) (ops : List Op) (hops : ∀ o ∈ ops, OpOk o) (t : Tree)
    (hrun : runB C π {} (fun _ => []) ops = .ok t) :
    Rep C (pubValsOf π (C05.reach ops).wal) (C05.reach ops).db t :=
  runB_sound C L π ops {} (fun _ => []) t hops init_b (rep_empty C _) hrun

/-- THE BYTE-LEVEL MACHINE REFINES THE SYMBOLIC MACHINE over whole histories: the run SUCCEEDS (every Put is accepted, every
    account id is new when the symbolic model installs it – naming invariant –, every record fits) and its tree represents
    the symbolic state -/
theorem machine_refines (C : BCrypto) (L : Laws C) (π : PubData) (hbb : BoxBound C π) (ops : List Op) (hops : ∀ o ∈ ops, OpOk o) :
    ∃ t, runB C π {} (fun _ => []) ops = .ok t ∧ Rep C (pubValsOf π (C05.reach ops).wal) (C05.reach ops).db t :=
  runB_refines C L π hbb ops hops

/-- … and under independence no value of the tree it builds contains the encoding of an atomic secret -/
theorem machine_no_clear_secret (C : BCrypto) (L : Laws C) (π : PubData) (hbb : BoxBound C π) (ops : List Op)
    (hops : ∀ o ∈ ops, OpOk o) (hind : Indep C (pubValsOf π (C05.reach ops).wal)) :
    ∃ t, runB C π {} (fun _ => []) ops = .ok t ∧ ∀ p kb v, tget t (p, kb) = some v → ∀ s : Sec, ¬ (C.atom s <:+: v) :=
  runB_no_secret C L π hbb ops hops hind

-- ------------------------------------------------------------------ non-vacuity

/-- the assumptions are satisfiable together -/
example : Laws Toy.toy := Toy.toy_laws
example : Indep Toy.toy Toy.ρ1 := Toy.toy_indep Toy.ρ1 Toy.ρ1_clean

/-- hypotheses of the machine theorems on the toy instance and a two-operation history (create, new address) -/
example : BoxBound Toy.toy Toy.πtoy := Toy.toy_boxBound
example : ∀ o ∈ Toy.demo2, OpOk o := Toy.demo2_ok
example : Indep Toy.toy (pubValsOf Toy.πtoy (C05.reach Toy.demo2).wal) := Toy.demo2_indep

/-- the free-algebra assumption is satisfiable (tagged, self-delimiting toy encodings), together with `Laws` -/
example : Free ToyF.toyF [9] := ToyF.toyF_free [9] rfl
example : Laws ToyF.toyF := ToyF.toyF_laws
/-- hypotheses of `any_reading_opaque` on a concrete box -/
example : noPair (.enc (.secret (.key 1)) (.secret (.entropy "e"))) = true ∧
    pubOk (.enc (.secret (.key 1)) (.secret (.entropy "e"))) = true := by decide

/-- create wallet end to end on the toy instance (hypotheses of `create_refines` / `sym_write_refines_bytes` are met; the
    tree is not empty: 15 values are written) -/
example : ∃ t', initAcctBucketB (fun _ => []) (acctInOf Toy.toy Toy.ρ1 297 "W1" "W1" Toy.demoPass 0 0 (paramsT 1 Toy.demoPass)
      (masterKey 1 Toy.demoPass) (paramsT 0 ({} : St).pubPass) (masterKey 0 ({} : St).pubPass) 2 3 4) = .ok t' ∧
    Rep Toy.toy Toy.ρ1 (C05.reach [.create "W1" Toy.demoPass 128]).db t' := Toy.demo_refines
example : (acctWrites (acctInOf Toy.toy Toy.ρ1 297 "W1" "W1" Toy.demoPass 0 0 (paramsT 1 Toy.demoPass)
      (masterKey 1 Toy.demoPass) (paramsT 0 ({} : St).pubPass) (masterKey 0 ({} : St).pubPass) 2 3 4)).length = 15 := by decide

/-- hypotheses of the operation theorems are satisfiable on the C05 demo history -/
example : (newAddr (C05.reach [.create "W1" Toy.demoPass 128]) "W1").2 = .ok := by decide
example : (chpub (C05.reach [.create "W1" Toy.demoPass 128]) "50756270617373313233343536" "4e657750756240393837").2 = .ok := by decide
example : (importKS (C05.reach (C05.demo.take 7)) "K1" "5a7140506173733132").2 = .ok := by decide

/-- hypothesis of `reach_representable` holds on the C05 demo history -/
example : ∀ o ∈ C05.demo, OpOk o := by
  intro o ho
  simp only [C05.demo, List.mem_cons, List.not_mem_nil, or_false] at ho
  rcases ho with rfl | rfl | rfl | rfl | rfl | rfl | rfl | rfl <;> trivial

/-- hypothesis of `representable` holds on the C05 demo history (create, address, export, change of the public passphrase,
    restart, remove, re-import): so a representing tree exists and the byte-level statements are about 21 stored values -/
example : ∀ e ∈ (C05.reach C05.demo).db, KeyOk e.1.2 := by decide

/-- the account-row size bound of `account_row_layout` holds for the toy boxes -/
example : 8 + (Toy.toy.box [] []).length + (Toy.toy.box [] []).length < 4294967296 := by decide

end MW.Props.C05Abs
