/-
  SPEC for C09: the PENDING SET — the relevant transactions a wallet knows but that are not
  confirmed on the chain it has been told about — as a function of the EVENT HISTORY the wallet
  has seen.  No buckets, no keys, no indexes; three rules:

    received      an unconfirmed transaction is accepted (once) when it is relevant to a wallet
                  and readable: every input's previous transaction is on the node's chain or is
                  itself pending;
    chain moved   (the wallet is told a new tip; its chain goes from `c` to `c'`)
                  the relevant non-coinbase transactions of the blocks that left the chain come
                  back as candidates (un-confirmed), then the candidates are SETTLED against `c'`:
                  a candidate vanishes when `c'` contains it (confirmed), when a transaction of
                  `c'` spends one of its inputs — ANY input, wallet coin or not — (conflicted),
                  when it spends an output of a coinbase that left the chain (orphaned), and,
                  recursively, when one of its parents vanished without being confirmed;
    nothing else changes the set.

  Transaction ids are hashes: an id determines the transaction (`Env.src`).
-/
import MW.Model.Ledger
import MW.Spec.Chain
namespace MW.Spec.Pending
open MW MW.Model.Ledger

structure Env where
  own : Own                      -- address ↦ wallet holding its key (ready wallets)
  src : TxId → Option Tx         -- the transaction with that id

def sameCoin (i j : Inp) : Bool := i.tx = j.tx && i.idx = j.idx

def hasId (l : List Tx) (id : TxId) : Bool := l.any (fun t => t.id = id)

def ownedOut (e : Env) (o : Out) : Bool := o.cls ≠ .raw && (AMap.get e.own o.addr).isSome

/-- the output an input spends -/
def prevOut (e : Env) (i : Inp) : Option Out := (e.src i.tx).bind (fun p => p.outs[i.idx]?)

/-- relevant: pays an owned address or spends an owned coin -/
def relevant (e : Env) (t : Tx) : Bool :=
  t.outs.any (ownedOut e) ||
  (!t.cb && t.ins.any (fun i => match prevOut e i with | some o => ownedOut e o | none => false))

def onChain (c : List Block) (id : TxId) : Bool := c.any (fun b => hasId b.txs id)

/-- a transaction of the chain (another one) spends one of t's inputs -/
def conflictedBy (c : List Block) (t : Tx) : Bool :=
  c.any (fun b => b.txs.any (fun u => !u.cb && u.id ≠ t.id && u.ins.any (fun i => t.ins.any (sameCoin i))))

/-- t spends an output of a coinbase of one of these (disconnected) blocks -/
def orphanedBy (disc : List Block) (t : Tx) : Bool :=
  disc.any (fun b => b.txs.any (fun u => u.cb && t.ins.any (fun i => i.tx = u.id)))

/-- descendant rule, one round: a candidate stays while each parent that was itself a candidate is
    still there or is confirmed -/
def keepRound (c : List Block) (cands alive : List Tx) : List Tx :=
  alive.filter (fun t => t.ins.all (fun i => !hasId cands i.tx || hasId alive i.tx || onChain c i.tx))

def iter {α : Type} (f : α → α) : Nat → α → α
  | 0, a => a
  | n + 1, a => iter f n (f a)

/-- SETTLE the candidates against the chain `c` (`disc` = the blocks that just left it).
    `cands.length` rounds reach the fixed point: every round that changes something removes a candidate. -/
def settle (c disc : List Block) (cands : List Tx) : List Tx :=
  let alive := cands.filter (fun t => !onChain c t.id && !conflictedBy c t && !orphanedBy disc t)
  iter (keepRound c cands) cands.length alive

/-- readable: the wallet can look up every parent (chain database of the node, or its own pending set) -/
def readable (node : List Block) (pend : List Tx) (t : Tx) : Bool :=
  t.ins.all (fun i => onChain node i.tx || hasId pend i.tx)

/-- EVENT: an unconfirmed transaction is delivered; `node` = the node's best chain at that moment,
    `c` = the chain the wallet has been told about -/
def onRecv (e : Env) (node c : List Block) (pend : List Tx) (t : Tx) : List Tx :=
  if !t.cb && !hasId pend t.id && !onChain c t.id && relevant e t && readable node pend t then pend ++ [t]
  else pend

/-- the set of READY wallets changed (a wallet was removed; `e'` is the environment afterwards): a pending
    transaction is tracked iff it is relevant to some ready, non-removed wallet — what was relevant only to the
    wallet that is gone is dropped, what a surviving wallet pays, is paid by or spends stays (C08) -/
def onWalletsChanged (e' : Env) (pend : List Tx) : List Tx := pend.filter (relevant e')

/-- the blocks of `c` that are not on `c'` -/
def left (c c' : List Block) : List Block := c.filter (fun b => !c'.any (fun b' => b'.id = b.id))

/-- EVENT: the wallet's chain moves from `c` to `c'` -/
def onChainMoved (e : Env) (c c' : List Block) (pend : List Tx) : List Tx :=
  let disc := left c c'
  let back := (disc.flatMap (·.txs)).filter (fun t => !t.cb && relevant e t && !hasId pend t.id)
  settle c' disc (pend ++ back)

-- ------------------------------------------------------------------ the history function

inductive Event
  | recv (e : Env) (node : List Block) (t : Tx)      -- with the environment at that moment
  | moved (e : Env) (c' : List Block)

structure S where
  chain : List Block
  pend : List Tx := []

def step (s : S) : Event → S
  | .recv e node t => { s with pend := onRecv e node s.chain s.pend t }
  | .moved e c' => { chain := c', pend := onChainMoved e s.chain c' s.pend }

/-- THE pending set after a history (the wallet starts at the genesis block with nothing pending) -/
def pendingAfter (genesis : Block) (h : List Event) : List Tx := (h.foldl step { chain := [genesis] }).pend

-- ------------------------------------------------------------------ observations

/-- some pending transaction spends this outpoint -/
def spentByPending (pend : List Tx) (tx : TxId) (idx : Nat) : Bool :=
  pend.any (fun t => t.ins.any (fun i => i.tx = tx && i.idx = idx))

/-- the coins of wallet w on the chain that a pending transaction spends (spent_by_unmined = true) -/
def flagged (own : Own) (c : List Block) (pend : List Tx) (w : Wid) : List Spec.Chain.SCoin :=
  (Spec.Chain.coinsOfWallet (Spec.Chain.ledgerOf own c) w).filter (fun k => k.amt ≠ 0 && spentByPending pend k.tx k.idx)

/-- the un-withdrawn deposits of wallet w that a pending transaction spends -/
def flaggedDeposits (own : Own) (c : List Block) (pend : List Tx) (w : Wid) : List Spec.Chain.Deposit :=
  (Spec.Chain.deposits own c w).filter (fun d => !d.withdrawn && spentByPending pend d.tx d.idx)

/-- what an index "outpoint ↦ pending spenders" must contain: every outpoint some pending transaction
    spends, with exactly the pending transactions spending it -/
def spenderIndex (pend : List Tx) : List ((TxId × Nat) × List TxId) :=
  let ops := (pend.flatMap (fun t => t.ins.map (fun i => (i.tx, i.idx)))).eraseDups
  ops.map (fun op => (op, (pend.filter (fun t => t.ins.any (fun i => i.tx = op.1 && i.idx = op.2))).map (·.id)))

/-- the unconfirmed credits: every output of a pending transaction that pays an owned address -/
def pendingCredits (e : Env) (pend : List Tx) : List (TxId × Nat × Nat) :=
  pend.flatMap (fun t => (t.outs.zipIdx).filterMap (fun (o, i) => if ownedOut e o then some (t.id, i, o.amt) else none))

/-- the unconfirmed deposits: staking / binding outputs of pending transactions paying an owned address
    (wallet, output, index in its transaction, the transaction) -/
def pendingDeposits (e : Env) (pend : List Tx) : List (Wid × Out × Nat × Tx) :=
  pend.flatMap (fun t => (t.outs.zipIdx).filterMap (fun (o, i) =>
    if o.cls.isStaking || o.cls.isBinding then
      match AMap.get e.own o.addr with
      | some (w, _) => some (w, o, i, t)
      | none => none
    else none))

end MW.Spec.Pending
