/-
  SPEC for C12 / C04: what a wallet's identity, address sequence, issuing rule and restore must be.
  No buckets, no caches, no passphrase machinery: functions of the secret and of the chain's
  "has history" predicate.
-/
import MW.Model.Keystore
namespace MW.Spec.Keystore
open MW MW.Model.Keystore

section
variable {Priv Pub Addr : Type} (sch : Scheme Priv Pub Addr)

/-- the account public key of a secret (mnemonic, private passphrase) on a network (coin type) -/
def acctPub (mn pass : String) (coin : Nat) : Pub := sch.pubOf (sch.master mn pass coin)

/-- THE wallet id of a secret -/
def walletId (mn pass : String) (coin : Nat) : String := sch.idOf (acctPub sch mn pass coin)

/-- THE public key at (branch, index) -/
def pubAt (mn pass : String) (coin b i : Nat) : Pub := sch.ckdPub (sch.ckdPub (acctPub sch mn pass coin) b) i

/-- THE address at (branch, index): the ordered address sequence of a secret -/
def addrAt (mn pass : String) (coin b i : Nat) : Addr := sch.addrOf (pubAt sch mn pass coin b i)

/-- THE private key at (branch, index) -/
def privAt (mn pass : String) (coin b i : Nat) : Priv := sch.ckdPriv (sch.ckdPriv (sch.master mn pass coin) b) i

end

/-- Issuing rule on one key chain. `n` addresses (indexes 0..n-1) have been issued, `used i` says
    whether the address at index i has chain history. Another address may be issued iff fewer than
    `gap` were issued or one of the last `gap` has history. -/
def mayIssue (used : Nat → Bool) (gap n : Nat) : Bool :=
  n = 0 || n + 1 ≤ gap || (List.range' (n - gap) gap).any used

/-- the invariant the issuing rule maintains: every issued index `j ≥ gap` has a used index among the
    `gap` indexes before it -/
def GapOK (used : Nat → Bool) (gap n : Nat) : Prop :=
  ∀ j, gap ≤ j → j < n → ∃ k, j - gap ≤ k ∧ k < j ∧ used k = true

/-- what a restore must find: every issued index with chain history -/
def mustFind (used : Nat → Bool) (n : Nat) : List Nat := (List.range n).filter used

end MW.Spec.Keystore
