/-
  SPEC-side bookkeeping for C01 / C10: "the books a chain implies".

  `ledgerOf` (Spec/Chain.lean) is the set of unspent owned outputs of a chain. The wallet keeps more
  than that: a credit for every owned output ever paid (with spent flag and spender), a debit per owned
  spent input, a deposit-history record per staking/binding output, a record per relevant transaction
  and per block with relevant transactions, first-use heights of addresses. `bookOf` defines all of
  these as ONE plain fold over the transactions of the chain, in chain order: no relevance filter,
  no lookups through secondary indexes, no error exits, no rollback, no pending set.
  The ledger component `Book.L` IS the spec ledger (`bookOf_L`: `(bookOf …).L.map toSCoin = ledgerOf …`).
  The tables are total functions `key → Option value` updated pointwise (`upd`).
-/
import MW.Model.Ledger
import MW.Spec.Chain
namespace MW.Spec.Books
open MW MW.Model.Ledger MW.Spec.Chain

/-- pointwise update of a table -/
def upd {K V : Type} [DecidableEq K] (f : K → V) (k : K) (v : V) : K → V :=
  fun k' => if k = k' then v else f k'

/-- an owned unspent output with everything the books record about it -/
structure UCoin where
  wallet : Wid
  tx : TxId
  idx : Nat
  blk : BlockMeta
  cb : Bool
  out : Out
  change : Bool
  deriving DecidableEq, Repr, Inhabited

def UCoin.toSCoin (u : UCoin) : SCoin :=
  ⟨u.wallet, u.tx, u.idx, u.out.amt, u.blk.height, u.cb, u.out.cls, u.out.addr⟩

/-- does `u` sit at outpoint (tx, idx)? -/
def UCoin.at (tx : TxId) (idx : Nat) (u : UCoin) : Bool := u.tx = tx && u.idx = idx

def lookupU (L : List UCoin) (tx : TxId) (idx : Nat) : Option UCoin := L.find? (UCoin.at tx idx)

/-- the (unspent) credit value of an owned output -/
def creditOf (p : Params) (u : UCoin) : Credit :=
  { amt := u.out.amt, spent := false, change := u.change, cls := uclassOf u.out.cls,
    maturity := (if u.cb then max p.cbMaturity u.out.cls.maturity else u.out.cls.maturity) % 2^32,
    sh := u.out.addr, spentBy := none }

def UCoin.credKey (u : UCoin) : CredKey := ⟨u.tx, u.blk, u.idx⟩

def isDeposit (c : Cls) : Bool := c.isBinding || c.isStaking

def UCoin.gameKey (u : UCoin) (withdrawn : Bool) : GameKey :=
  ⟨u.wallet, u.out.cls.isBinding, withdrawn, u.tx, u.blk.height, u.idx⟩

structure Book where
  L : List UCoin := []                                            -- the ledger: owned unspent outputs
  credits : CredKey → Option Credit := fun _ => none
  debits : CredKey → Option (Nat × CredKey) := fun _ => none
  game : GameKey → Option Unit := fun _ => none
  txrecs : TxId × BlockMeta → Option (BlkId × Nat) := fun _ => none
  blocks : Nat → Option (BlkId × List TxId) := fun _ => none
  addrs : Wid × Bool × Addr → Option Nat := fun _ => none

/-- one transaction of the chain with its position -/
structure Occ where
  bm : BlockMeta
  ti : Nat
  t : Tx
  deriving Repr, Inhabited

/-- input number `k` of `t` (in block `bm`) spends outpoint (i.tx, i.idx): if that is an owned unspent
    output, it leaves the ledger, its credit is marked spent by (t, bm, k), a debit is written, a
    deposit record moves to the withdrawn partition -/
def spendB (p : Params) (t : Tx) (bm : BlockMeta) (B : Book) (k : Nat) (i : Inp) : Book :=
  match lookupU B.L i.tx i.idx with
  | none => B
  | some u =>
    let dk : CredKey := ⟨t.id, bm, k⟩
    { B with
      L := B.L.filter (fun u' => !UCoin.at i.tx i.idx u'),
      credits := upd B.credits u.credKey (some { creditOf p u with spent := true, spentBy := some dk }),
      debits := upd B.debits dk (some (u.out.amt, u.credKey)),
      game := if isDeposit u.out.cls then upd (upd B.game (u.gameKey false) none) (u.gameKey true) (some ())
              else B.game }

/-- is output `o` paid to an owned address with a recognised template? -/
def ownerOf (own : Own) (o : Out) : Option (Wid × Bool) :=
  if o.cls = .raw then none else AMap.get own o.addr

/-- output number `j` of `t`: if owned it enters the ledger with an unspent credit; the address record
    gets its first-use height -/
def createB (p : Params) (own : Own) (t : Tx) (bm : BlockMeta) (B : Book) (j : Nat) (o : Out) : Book :=
  match ownerOf own o with
  | none => B
  | some (w, ch) =>
    let u : UCoin := ⟨w, t.id, j, bm, t.cb, o, ch⟩
    let ak := (w, o.cls.isStaking, o.addr)
    { B with
      L := B.L ++ [u],
      credits := upd B.credits u.credKey (some (creditOf p u)),
      addrs := match B.addrs ak with
        | some h => if h = 0 then upd B.addrs ak (some bm.height) else B.addrs
        | none => upd B.addrs ak (some bm.height) }

/-- output number `j` of `t`: an owned staking / binding output gets a deposit-history record -/
def depositB (own : Own) (t : Tx) (bm : BlockMeta) (B : Book) (j : Nat) (o : Out) : Book :=
  match ownerOf own o with
  | none => B
  | some (w, _) =>
    if isDeposit o.cls then
      { B with game := upd B.game ⟨w, o.cls.isBinding, false, t.id, bm.height, j⟩ (some ()) }
    else B

/-- does `t` touch the books: spends an owned unspent output or pays an owned address -/
def touches (own : Own) (B : Book) (t : Tx) : Bool :=
  (!t.cb && t.ins.any (fun i => (lookupU B.L i.tx i.idx).isSome)) || t.outs.any (fun o => (ownerOf own o).isSome)

/-- a touching transaction is recorded: tx record (with its block-file location) and block record -/
def recordB (B : Book) (oc : Occ) : Book :=
  { B with
    blocks := match B.blocks oc.bm.height with
      | none => upd B.blocks oc.bm.height (some (oc.bm.hash, [oc.t.id]))
      | some (h, txs) => upd B.blocks oc.bm.height (some (h, txs ++ [oc.t.id])),
    txrecs := upd B.txrecs (oc.t.id, oc.bm) (some (oc.bm.hash, oc.ti)) }

/-- the books after one more transaction -/
def applyOcc (p : Params) (own : Own) (B : Book) (oc : Occ) : Book :=
  let B1 := if touches own B oc.t then recordB B oc else B
  let B2 := if oc.t.cb then B1 else foldIdx (spendB p oc.t oc.bm) oc.t.ins 0 B1
  let B3 := foldIdx (createB p own oc.t oc.bm) oc.t.outs 0 B2
  foldIdx (depositB own oc.t oc.bm) oc.t.outs 0 B3

/-- the transactions of a block / chain with their positions -/
def occsFrom (bm : BlockMeta) : List Tx → Nat → List Occ
  | [], _ => []
  | t :: ts, i => ⟨bm, i, t⟩ :: occsFrom bm ts (i + 1)

def occsOfBlock (b : Block) : List Occ := occsFrom ⟨b.height, b.id⟩ b.txs 0

def occs (chain : List Block) : List Occ := chain.flatMap occsOfBlock

/-- THE books of a chain -/
def bookOf (p : Params) (own : Own) (chain : List Block) : Book := (occs chain).foldl (applyOcc p own) {}

/-- the synced-to table of a chain: height ↦ block id -/
def syncOf (chain : List Block) (h : Nat) : Option BlkId := chain[h]?.map (·.id)

end MW.Spec.Books
