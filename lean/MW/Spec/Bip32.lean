/-
  SPEC: BIP-32 (https://github.com/bitcoin/bips/blob/master/bip-0032.mediawiki) and Base58Check,
  written from the text of the BIP, over an abstract curve and abstract hash functions.
  Nothing here mentions big integers with variable length, slices, copies or padding loops.
  Core Lean only.
-/
import MW.Base.Bip32Base
namespace MW.Spec.Bip32
open MW

/-! ### Conventions of the BIP -/

/-- ser32(i): 4 bytes, most significant first -/
def ser32 (i : Nat) : Bytes := BE.fixed 4 i
/-- ser256(p): 32 bytes, most significant first -/
def ser256 (p : Nat) : Bytes := BE.fixed 32 p
/-- parse256(p): a 32-byte sequence as a number, most significant byte first -/
def parse256 (b : Bytes) : Nat := BE.ofBytes b

/-! ### Base58 / Base58Check -/
namespace Base58

/-- 123456789ABCDEFGHJKLMNPQRSTUVWXYZabcdefghijkmnopqrstuvwxyz -/
def alphabet : List Char :=
  ['1', '2', '3', '4', '5', '6', '7', '8', '9', 'A', 'B', 'C', 'D', 'E', 'F', 'G', 'H', 'J', 'K', 'L', 'M', 'N', 'P', 'Q', 'R', 'S', 'T', 'U', 'V', 'W', 'X', 'Y', 'Z', 'a', 'b', 'c', 'd', 'e', 'f', 'g', 'h', 'i', 'j', 'k', 'm', 'n', 'o', 'p', 'q', 'r', 's', 't', 'u', 'v', 'w', 'x', 'y', 'z']
def alphaBytes : Bytes := ascii alphabet
def digitChar (d : Nat) : UInt8 := alphaBytes.getD d 0
def charDigit? (c : UInt8) : Option Nat :=
  let i := alphaBytes.findIdx (· = c)
  if i < 58 then some i else none

/-- base-58 digits of `x`, most significant first, no leading zero digit (`0 ↦ ""`).
    (`fuel` only makes the recursion structural; `digits` passes enough.) -/
def digitsAux : Nat → Nat → Bytes
  | 0, _ => []
  | f + 1, x => if x = 0 then [] else digitsAux f (x / 58) ++ [digitChar (x % 58)]
def digits (x : Nat) : Bytes := digitsAux x x

/-- one '1' per leading zero byte, then the number in base 58 -/
def encode (b : Bytes) : Bytes :=
  List.replicate (b.takeWhile (· = 0)).length 49 ++ digits (BE.ofBytes b)

/-- one more character: shift by 58 and add its digit; none once a character is not in the alphabet -/
def step (acc : Option Nat) (c : UInt8) : Option Nat :=
  match acc, charDigit? c with
  | some a, some d => some (a * 58 + d)
  | _, _ => none

/-- value of a string of base-58 characters, most significant first; none if a character is not in the alphabet -/
def value? (s : Bytes) : Option Nat := s.foldl step (some 0)

/-- one zero byte per leading '1', then the number as minimal big-endian bytes -/
def decode? (s : Bytes) : Option Bytes :=
  match value? s with
  | none => none
  | some v => some (List.replicate (s.takeWhile (· = 49)).length 0 ++ BE.toBytes v)

end Base58

/-! ### Extended keys -/

inductive KeyMat (Pt : Type)
  | priv (k : Nat)
  | pub (K : Pt)

/-- an extended key (k, c) or (K, c) with the data that the serialisation format carries -/
structure XKey (Pt : Type) where
  version : Bytes
  depth : Nat
  parentFP : Bytes
  childNum : Nat
  chain : Bytes
  key : KeyMat Pt

section
variable (C : CurveOps) (H : HashOps) (N : NetOps)

/-- point(p) -/
def point (p : Nat) : C.Pt := C.mulG p
/-- serP(P) -/
def serP (P : C.Pt) : Bytes := C.enc P
/-- key identifier = HASH160(serP(K)); the fingerprint is its first 32 bits -/
def fingerprint (K : C.Pt) : Bytes := (H.hash160 (serP C K)).take 4

def hardened (i : Nat) : Bool := decide (i ≥ 2 ^ 31)

/-- the 64-byte I of CKDpriv -/
def Ipriv (kpar : Nat) (cpar : Bytes) (i : Nat) : Bytes :=
  if hardened i then H.hmac512 cpar ([0] ++ ser256 kpar ++ ser32 i)
  else H.hmac512 cpar (serP C (point C kpar) ++ ser32 i)

/-- CKDpriv((kpar, cpar), i) → (ki, ci);  none = "the resulting key is invalid" -/
def ckdPriv (kpar : Nat) (cpar : Bytes) (i : Nat) : Option (Nat × Bytes) :=
  let I := Ipriv C H kpar cpar i
  let IL := I.take 32
  let IR := I.drop 32
  let ki := (parse256 IL + kpar) % C.n
  if parse256 IL ≥ C.n ∨ ki = 0 then none else some (ki, IR)

/-- the 64-byte I of CKDpub (i not hardened) -/
def Ipub (Kpar : C.Pt) (cpar : Bytes) (i : Nat) : Bytes :=
  H.hmac512 cpar (serP C Kpar ++ ser32 i)

/-- CKDpub((Kpar, cpar), i) → (Ki, ci), only defined for non-hardened i -/
def ckdPub (Kpar : C.Pt) (cpar : Bytes) (i : Nat) : Option (C.Pt × Bytes) :=
  if hardened i then none else
  let I := Ipub C H Kpar cpar i
  let IL := I.take 32
  let IR := I.drop 32
  let Ki := C.add (point C (parse256 IL)) Kpar
  if parse256 IL ≥ C.n ∨ C.isInf Ki = true then none else some (Ki, IR)

/-- the public key of an extended key -/
def pubOf : KeyMat C.Pt → C.Pt
  | .priv k => point C k
  | .pub K => K

/-- child extended key with its serialisation data: depth + 1, fingerprint of the parent, child number i -/
def ckd (x : XKey C.Pt) (i : Nat) : Except Bip32Err (XKey C.Pt) :=
  if x.depth ≥ 255 then .error .depth else          -- depth is one byte
  match x.key with
  | .priv k =>
    match ckdPriv C H k x.chain i with
    | none => .error .invalidChild
    | some (ki, ci) => .ok { version := x.version, depth := x.depth + 1, parentFP := fingerprint C H (point C k),
                             childNum := i, chain := ci, key := .priv ki }
  | .pub K =>
    if hardened i then .error .hardFromPub else
    match ckdPub C H K x.chain i with
    | none => .error .invalidChild
    | some (Ki, ci) => .ok { version := x.version, depth := x.depth + 1, parentFP := fingerprint C H K,
                             childNum := i, chain := ci, key := .pub Ki }

/-- N((k, c)) → (K, c) -/
def neuter (x : XKey C.Pt) : Except Bip32Err (XKey C.Pt) :=
  match x.key with
  | .pub _ => .ok x
  | .priv k =>
    match N.pubVersion x.version with
    | none => .error .version
    | some v => .ok { x with version := v, key := .pub (point C k) }

/-- "Bitcoin seed" -/
def bitcoinSeed : Bytes := ascii ['B', 'i', 't', 'c', 'o', 'i', 'n', ' ', 's', 'e', 'e', 'd']

/-- master key generation from a seed of 128 to 512 bits -/
def master (seed : Bytes) : Except Bip32Err (XKey C.Pt) :=
  if seed.length < 16 ∨ seed.length > 64 then .error .seedLen else
  let I := H.hmac512 bitcoinSeed seed
  let k := parse256 (I.take 32)
  if k = 0 ∨ k ≥ C.n then .error .unusable else
  .ok { version := N.privVersion, depth := 0, parentFP := [0, 0, 0, 0], childNum := 0, chain := I.drop 32, key := .priv k }

def deriveFrom (x : XKey C.Pt) : List Nat → Except Bip32Err (XKey C.Pt)
  | [] => .ok x
  | i :: is => match ckd C H x i with
    | .error e => .error e
    | .ok c => deriveFrom c is

/-- m / i₁ / i₂ / … -/
def derivePath (seed : Bytes) (path : List Nat) : Except Bip32Err (XKey C.Pt) :=
  match master C H N seed with
  | .error e => .error e
  | .ok m => deriveFrom C H m path

/-- the 78-byte structure: 4 version ‖ 1 depth ‖ 4 fingerprint ‖ 4 child number ‖ 32 chain code ‖ 33 key -/
def ser78 (x : XKey C.Pt) : Bytes :=
  x.version ++ [UInt8.ofNat x.depth] ++ x.parentFP ++ ser32 x.childNum ++ x.chain ++
    (match x.key with
     | .priv k => [0] ++ ser256 k
     | .pub K => serP C K)

/-- 32 checksum bits from the double SHA-256 -/
def checksum (p : Bytes) : Bytes := (H.dsha p).take 4

def toString (x : XKey C.Pt) : Bytes := Base58.encode (ser78 C x ++ checksum H (ser78 C x))

/-- import of a serialised extended key: Base58Check over 78 bytes; a private key must be in 1 … n-1,
    public key data must be a point on the curve -/
def parse (s : Bytes) : Except Bip32Err (XKey C.Pt) :=
  match Base58.decode? s with
  | none => .error .len
  | some d =>
    if d.length ≠ 82 then .error .len else
    let p := d.take 78
    if d.drop 78 ≠ checksum H p then .error .checksum else
    let kd := p.drop 45
    let mk (km : KeyMat C.Pt) : XKey C.Pt :=
      { version := p.take 4, depth := ((p.drop 4).headD 0).toNat, parentFP := (p.drop 5).take 4,
        childNum := BE.ofBytes ((p.drop 9).take 4), chain := (p.drop 13).take 32, key := km }
    if kd.headD 0 = 0 then
      let k := parse256 (kd.drop 1)
      if k = 0 ∨ k ≥ C.n then .error .unusable else .ok (mk (.priv k))
    else
      match C.parse kd with
      | none => .error .point
      | some K => .ok (mk (.pub K))

/-- the private key as a 32-byte string -/
def privBytes (x : XKey C.Pt) : Option Bytes :=
  match x.key with
  | .priv k => some (ser256 k)
  | .pub _ => none

end
end MW.Spec.Bip32
