/-
  C16 specification: the consensus output-script templates as byte-string patterns, and what a
  reader of an output script must report for each.  No tokenizer, no opcode table.

    witness v0 script hash :  00 20 <32-byte hash>
    staking                :  00 20 <32-byte hash> 08 <8-byte little-endian frozen period>
    binding                :  00 20 <32-byte hash> 14 <20-byte target>      (before MASS IP2)
                              00 20 <32-byte hash> 16 <22-byte target>      (hash ‖ type ‖ size)

  Nothing else is a template.  Core Lean only.
-/
import MW.Base.Bytes
namespace MW.Spec.Script
open MW

inductive Template
  | none
  | wsh (hash : Bytes)
  | staking (hash : Bytes) (frozen : Bytes)      -- the 8 raw bytes
  | binding (hash : Bytes) (target : Bytes)
  deriving DecidableEq, Repr

/-- the template a byte string matches -/
def template (s : Bytes) : Template :=
  match s with
  | 0x00 :: 0x20 :: r =>
    if r.length < 32 then .none
    else
      let h := r.take 32
      match r.drop 32 with
      | [] => .wsh h
      | 0x08 :: f => if f.length = 8 then .staking h f else .none
      | 0x14 :: t => if t.length = 20 then .binding h t else .none
      | 0x16 :: t => if t.length = 22 then .binding h t else .none
      | _ => .none
  | _ => .none

/-- little-endian value -/
def leNat : Bytes → Nat
  | [] => 0
  | b :: r => b.toNat + 256 * leNat r

/-- little-endian encoding on `k` bytes -/
def leBytes : Nat → Nat → Bytes
  | 0, _ => []
  | k + 1, v => UInt8.ofNat (v % 256) :: leBytes k (v / 256)

/-- a 22-byte binding target the address layer can encode: type 0 (MASS) or 1 (Chia), size 20…200 -/
def legalTarget22 (t : Bytes) : Bool :=
  match t.drop 20 with
  | [ty, sz] => (ty = 0 ∨ ty = 1) ∧ 20 ≤ sz.toNat ∧ sz.toNat ≤ 200
  | _ => false

def legalTarget (t : Bytes) : Bool := t.length = 20 ∨ (t.length = 22 ∧ legalTarget22 t)

/-- consensus.MASSIP0002BindingLockedPeriod = wire.SequenceLockTimeMask - 1 -/
def bindingLockedPeriod : Nat := 0xffffffff - 1
def minFrozenPeriod : Nat := 61440
/-- wire.IsValidFrozenPeriod -/
def legalFrozen (f : Nat) : Prop := minFrozenPeriod ≤ f ∧ f ≤ 0xffffffff - 1
instance (f : Nat) : Decidable (legalFrozen f) := by unfold legalFrozen; exact inferInstance

/-- kind of the second address -/
inductive Second
  | none
  | staking (hash : Bytes)        -- the staking form of the owner's script hash
  | pubKeyHash (t : Bytes)        -- 20-byte binding target
  | target (t : Bytes)            -- 22-byte binding target
  deriving DecidableEq, Repr

inductive Kind | standard | staking | binding
  deriving DecidableEq, Repr

/-- what a reader reports for a script -/
inductive Reading
  | unsupported                                      -- no template matches: not the wallet's business
  | undecodable (owner : Bytes)                      -- binding template whose 22-byte target has no address form in
                                                     -- the consensus library: the wallet must treat it as unsupported
  | ok (kind : Kind) (owner : Bytes) (second : Second) (maturity : Nat)
  deriving DecidableEq, Repr

/-- the reading the templates prescribe: class, owner script hash, staking / binding-target address,
    maturity (staking: frozen period + 1 as uint64; new binding: the fixed locked period; else 0) -/
def reading (s : Bytes) : Reading :=
  match template s with
  | .none => .unsupported
  | .wsh h => .ok .standard h .none 0
  | .staking h f => .ok .staking h (.staking h) ((leNat f + 1) % 2 ^ 64)
  | .binding h t =>
    if t.length = 20 then .ok .binding h (.pubKeyHash t) 0
    else if legalTarget22 t then .ok .binding h (.target t) bindingLockedPeriod
    else .undecodable h

/-- what the wallet must report: a binding template whose target the consensus library cannot encode as
    an address is, for the wallet, as unsupported as a script that matches no template -/
def walletReading (s : Bytes) : Reading :=
  match reading s with
  | .undecodable _ => .unsupported
  | r => r

/-- a reading without its maturity (the library's address extraction and the API view carry none) -/
def Reading.noMaturity : Reading → Reading
  | .ok k h sec _ => .ok k h sec 0
  | r => r

/-! builders -/
def wshScript (h : Bytes) : Bytes := [0x00, 0x20] ++ h
def stakingScript (h : Bytes) (frozen : Nat) : Bytes := [0x00, 0x20] ++ h ++ [0x08] ++ leBytes 8 frozen
def bindingScript (h t : Bytes) : Bytes := [0x00, 0x20] ++ h ++ [UInt8.ofNat t.length] ++ t

end MW.Spec.Script
