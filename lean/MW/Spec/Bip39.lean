/-
  SPEC of BIP-39 (English), C13.  Core only.

  Encoding: the bits of the entropy, followed by the first ENT/32 bits of H(entropy), cut into 11-bit
  groups; every group is an index into the word list; the words are joined by single spaces.
  Decoding: the inverse, with the checksum check.  Seed: PBKDF2(sentence, "mnemonic" ‖ passphrase,
  2048 rounds, 64 bytes).

  `H` (SHA-256 in the wallet) and `P` (PBKDF2-HMAC-SHA512) are PARAMETERS: nothing is assumed about
  them except, in the theorems, that a digest is not empty.
  Sentences, words and passphrases are byte strings (Go strings); BIP-39's NFKD normalisation is the
  identity on the ASCII word list and is not modelled for passphrases (the wallet performs none).
-/
import MW.Base.Bip39Num
import MW.Spec.Bip39English
namespace MW.Spec.Bip39
open MW MW.B39

abbrev Hash := Bytes → Bytes
/-- key derivation: password, salt, iterations, key length ↦ key -/
abbrev Kdf := Bytes → Bytes → Nat → Nat → Bytes

/-- the BIP-39 English word list as byte strings -/
@[irreducible] def wordlist : List Bytes := Bip39English.english.map strBytes

def legalEntropyLen (n : Nat) : Bool := n == 16 || n == 20 || n == 24 || n == 28 || n == 32
def legalWordCount (n : Nat) : Bool := n == 12 || n == 15 || n == 18 || n == 21 || n == 24

/-- CS = ENT/32 bits: the first bits of the digest of the entropy -/
def checksumBits (H : Hash) (e : Bytes) : List Bool := (bitsOfBytes (H e)).take (e.length * 8 / 32)

/-- the `k`-th group of 11 bits -/
def group (bits : List Bool) (k : Nat) : List Bool := (bits.drop (11 * k)).take 11

def wordIndices (H : Hash) (e : Bytes) : List Nat :=
  let bits := bitsOfBytes e ++ checksumBits H e
  (List.range (bits.length / 11)).map (fun k => bitsToNat (group bits k))

/-- (`getD`: every index is < 2048 = length of the list, see `Props.C13.spec_index_lt`) -/
def words (H : Hash) (e : Bytes) : List Bytes := (wordIndices H e).map (fun i => wordlist.getD i [])

/-- words joined by single spaces -/
def joinSpaces : List Bytes → Bytes
  | [] => []
  | [w] => w
  | w :: ws => w ++ [32] ++ joinSpaces ws

def mnemonic (H : Hash) (e : Bytes) : Bytes := joinSpaces (words H e)

def encode (H : Hash) (e : Bytes) : Option Bytes :=
  if legalEntropyLen e.length then some (mnemonic H e) else none

/-! decoding a word sequence -/

inductive Reject where
  | length | word | checksum
  deriving DecidableEq, Repr

/-- 11 bits per word: the index of the word in the list -/
def wordBits (ws : List Bytes) : List Bool := ws.flatMap (fun w => natToBits 11 (wordlist.idxOf w))

/-- ENT for a sentence of `n` words (11·n = ENT + ENT/32) -/
def entBits (n : Nat) : Nat := n / 3 * 32

def entropyOf (ws : List Bytes) : Bytes := bytesOfBits ((wordBits ws).take (entBits ws.length))

def checksumOK (H : Hash) (ws : List Bytes) : Bool :=
  (wordBits ws).drop (entBits ws.length) == checksumBits H (entropyOf ws)

def allListed (ws : List Bytes) : Bool := ws.all (fun w => wordlist.contains w)

def decode (H : Hash) (ws : List Bytes) : Except Reject Bytes :=
  if !legalWordCount ws.length then .error .length
  else if !allListed ws then .error .word
  else if !checksumOK H ws then .error .checksum
  else .ok (entropyOf ws)

/-- entropy bits ‖ checksum bits, right-aligned in whole bytes (what `MnemonicToByteArray` without
    `raw` returns; not part of BIP-39 itself) -/
def checksummedBytes (ws : List Bytes) : Bytes :=
  bytesOfBits (List.replicate (8 - ws.length / 3) false ++ wordBits ws)

/-- BIP-39 seed -/
def seed (P : Kdf) (sentence passphrase : Bytes) : Bytes :=
  P sentence (strBytes "mnemonic" ++ passphrase) 2048 64

end MW.Spec.Bip39
