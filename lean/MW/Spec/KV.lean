/-
  SPECIFICATION of the wallet database (property C11): a transactional key/value store over
  nested buckets, written as plainly as possible.

  A database is a set of existing buckets (paths) and a partial map  Path → Key → Option Val.
  A write transaction works on a private copy that replaces the committed database at commit and
  is dropped at rollback; a read transaction sees the database as committed when it began,
  whatever is committed while it is open.  Nothing here knows about
  key encodings, prefixes, batches or sequence numbers.   Core Lean only.
-/
import MW.Base.KvOps
namespace MW.Spec.KV
open MW MW.KV

structure DB where
  buckets : List Path := []                          -- the set of existing buckets
  data : List ((Path × Bytes) × Bytes) := []         -- finite map (bucket, key) ↦ value

def DB.has (d : DB) (p : Path) : Bool := d.buckets.contains p

/-- the map  BucketPath → Key → Option Val -/
def DB.get (d : DB) (p : Path) (k : Bytes) : Option Bytes :=
  (d.data.find? fun e => e.1 == (p, k)).map (·.2)

/-- 1 to 256 bytes, none of them the path separator `_` -/
def validName (n : Bytes) : Bool := decide (0 < n.length) && decide (n.length ≤ 256) && !n.contains 95

/-- the entries of bucket `p`, ascending by key -/
def DB.bucketEntries (d : DB) (p : Path) : List (Bytes × Bytes) :=
  sortBy (fun a b => blt a.1 b.1) ((d.data.filter fun e => e.1.1 == p).map fun e => (e.1.2, e.2))

/-- the names of the buckets directly below `p` (`[]` = the top level), ascending -/
def DB.childNames (d : DB) (p : Path) : List Bytes :=
  sortBy blt ((d.buckets.filter fun q => q != [] && q.dropLast == p).filterMap List.getLast?)

def DB.create (d : DB) (ro : Bool) (p : Path) : Obs × DB :=
  match p.getLast? with
  | none => (.badop, d)
  | some name =>
    if p.length > 1 && !d.has p.dropLast then (.nobucket, d)
    else if ro then (.err .writeNotAllowed, d)
    else if !validName name then (.err .invalidName, d)
    else if d.has p then (.err .exist, d)
    else (.ok, { d with buckets := p :: d.buckets })

/-- deleting a bucket removes it, every bucket below it and all their entries; top-level buckets
    cannot be deleted; deleting a bucket that does not exist is a no-op -/
def DB.delb (d : DB) (ro : Bool) (p : Path) : Obs × DB :=
  if p.length == 0 then (.badop, d)
  else if p.length == 1 then (.err .notSupported, d)
  else if !d.has p.dropLast then (.nobucket, d)
  else if ro then (.err .writeNotAllowed, d)
  else if !d.has p then (.ok, d)
  else (.ok, { buckets := d.buckets.filter fun q => !p.isPrefixOf q,
               data := d.data.filter fun e => !p.isPrefixOf e.1.1 })

def DB.put (d : DB) (ro : Bool) (p : Path) (k v : Bytes) : Obs × DB :=
  if !d.has p then (.nobucket, d)
  else if ro then (.err .writeNotAllowed, d)
  else if v.length == 0 then (.err .illegalValue, d)
  else if k.length == 0 then (.err .illegalKey, d)
  else (.ok, { d with data := ((p, k), v) :: d.data.filter fun e => e.1 != (p, k) })

def DB.del (d : DB) (ro : Bool) (p : Path) (k : Bytes) : Obs × DB :=
  if !d.has p then (.nobucket, d)
  else if ro then (.err .writeNotAllowed, d)
  else (.ok, { d with data := d.data.filter fun e => e.1 != (p, k) })

/-- Clear removes the entries of the bucket itself, not its sub buckets -/
def DB.clear (d : DB) (ro : Bool) (p : Path) : Obs × DB :=
  if !d.has p then (.nobucket, d)
  else if ro then (.err .writeNotAllowed, d)
  else (.ok, { d with data := d.data.filter fun e => e.1.1 != p })

def DB.read (d : DB) (p : Path) (f : Unit → Obs) : Obs := if d.has p then f () else .nobucket

/-! ### cursors over the entries of a bucket within [start, limit) (an empty limit is unbounded) -/

structure Cursor where
  all : List (Bytes × Bytes)
  todo : List (Bytes × Bytes)
  cur : Option (Bytes × Bytes) := none

def Cursor.next (c : Cursor) : Cursor × Bool :=
  match c.todo with
  | [] => ({ c with cur := none }, false)
  | e :: rest => ({ c with cur := some e, todo := rest }, true)

def Cursor.seek (c : Cursor) (k : Bytes) : Cursor × Bool :=
  { c with todo := c.all.dropWhile fun e => blt e.1 k }.next

def Cursor.obs (c : Cursor) (ok : Bool) : Bool × Option Bytes × Option Bytes :=
  (ok, c.cur.map (·.1), c.cur.map (·.2))

/-- `for it.Next() {}`: every remaining entry, then the failing Next -/
def Cursor.drain (c : Cursor) : Cursor × List (Bool × Option Bytes × Option Bytes) :=
  ({ c with todo := [], cur := none }, c.todo.map (fun e => (true, some e.1, some e.2)) ++ [(false, none, none)])

def Cursor.run (c : Cursor) : List IterStep → List (Bool × Option Bytes × Option Bytes)
  | [] => []
  | .next :: rest => let (c', ok) := c.next; c'.obs ok :: c'.run rest
  | .seek k :: rest => let (c', ok) := c.seek k; c'.obs ok :: c'.run rest
  | .all :: rest => let (c', out) := c.drain; out ++ c'.run rest

def DB.iter (d : DB) (p : Path) (start limit : Bytes) (script : List IterStep) : Obs :=
  let es := (d.bucketEntries p).filter fun e => ble start e.1 && (limit.length == 0 || blt e.1 limit)
  .steps (Cursor.run { all := es, todo := es } script)

/-! ### the transactional system -/

structure Sys where
  committed : DB := {}
  pending : Option DB := none      -- the private copy of the open write transaction
  reader : Option DB := none       -- the open read transaction: the database as committed at its begin

/-- a data operation on database `d`; `ro` = issued through a read-only transaction -/
def dataOp (d : DB) (ro : Bool) : Op → Obs × DB
  | .create _ p => d.create ro p
  | .delb _ p => d.delb ro p
  | .has _ p => if p.length == 0 then (.badop, d) else (.bool (d.has p), d)
  | .put _ p k v => if p.length == 0 then (.badop, d) else d.put ro p k v
  | .get _ p k => if p.length == 0 then (.badop, d) else (d.read p fun _ => .val (if k.length == 0 then none else d.get p k), d)
  | .del _ p k => if p.length == 0 then (.badop, d) else d.del ro p k
  | .clear _ p => if p.length == 0 then (.badop, d) else d.clear ro p
  | .pfx _ p k => if p.length == 0 then (.badop, d) else
      (d.read p fun _ => .entries ((d.bucketEntries p).filter fun e => k.isPrefixOf e.1), d)
  | .names _ p => if p.length == 0 then (.names (d.childNames []), d) else (d.read p fun _ => .names (d.childNames p), d)
  | .iter _ p s l sc => if p.length == 0 then (.badop, d) else
      (d.read p fun _ => if ro then d.iter p s l sc else .unspecified, d)
  | _ => (.badop, d)

def slotOf : Op → Option Slot
  | .create s _ | .delb s _ | .has s _ | .put s _ _ _ | .get s _ _ | .del s _ _ | .clear s _
  | .pfx s _ _ | .names s _ | .iter s _ _ _ _ => some s
  | _ => none

def Sys.step (s : Sys) (op : Op) : Sys × Obs :=
  match op with
  | .beginW => if s.pending.isSome then (s, .badop) else ({ s with pending := some s.committed }, .ok)
  | .beginR => if s.reader.isSome then (s, .badop) else ({ s with reader := some s.committed }, .ok)
  | .commit => match s.pending with
      | none => (s, .badop)
      | some d => ({ s with committed := d, pending := none }, .ok)
  | .rollback => if s.pending.isSome then ({ s with pending := none }, .ok) else (s, .badop)
  | .endR => if s.reader.isSome then ({ s with reader := none }, .ok) else (s, .badop)
  | .reopen => if s.pending.isSome || s.reader.isSome then (s, .badop) else (s, .ok)
  | .probe => (s, if s.pending.isSome then .blocked else .acquired)
  | .raw => (s, .unspecified)
  | op =>
    match slotOf op with
    | none => (s, .badop)
    | some .w =>
      match s.pending with
      | none => (s, .notx)
      | some d => let (o, d') := dataOp d false op; ({ s with pending := some d' }, o)
    | some .r =>
      match s.reader with
      | none => (s, .notx)
      | some d => (s, (dataOp d true op).1)

def run (s : Sys) : List Op → List Obs
  | [] => []
  | op :: rest => let (s', o) := s.step op; o :: run s' rest

end MW.Spec.KV
