/-
  SPEC for C02: what a created transaction must look like, as a predicate over
  (chain ledger, request, result).  No selector, no heap, no loops over fees: the ledger is
  `MW.Spec.Chain.ledgerOf` of the chain, eligibility is the consensus maturity rule, the fee bounds
  are closed formulas.  `judge` returns the list of violated clauses ([] = the result is acceptable).

  Reading of "funds suffice" (spelled out as `suffice`): a transaction satisfying every other clause
  EXISTS whatever coins the selection starts with – the ≤k largest eligible coins cover outputs + the fee
  of the largest possible selection + MinRelayTxFee (room for a non-dust change), or some ≤k-subset covers
  outputs + its fee exactly (searched for wallets of ≤ 14 eligible coins).
-/
import MW.Model.Ledger
import MW.Spec.Chain
import MW.Gen.TxBuild
namespace MW.Spec.TxBuild
open MW MW.Model.Ledger MW.Spec.Chain

abbrev OutPt := TxId × Nat

inductive Kind | auto | est | manual | stake | bind | apiAuto | apiManual
  deriving DecidableEq, Repr, Inhabited

def Kind.isManual : Kind → Bool | .manual => true | .apiManual => true | _ => false
def Kind.isApi : Kind → Bool | .apiAuto => true | .apiManual => true | _ => false

structure Req where
  kind : Kind
  wallet : Wid
  sender : Option Addr := none
  chg : Option Addr := none
  userFee : Nat := 0
  payloadLen : Nat := 0
  outs : List Out := []              -- requested outputs
  subfee : List Addr := []           -- recipients chosen to bear the fee (manual)
  inputs : List OutPt := []          -- explicit inputs (manual)
  deriving Repr, Inhabited

inductive Res
  | ok (fee : Nat) (payloadLen : Nat) (ins : List OutPt) (outs : List Out)
  | err (cls : String)
  | garbage
  deriving Repr, Inhabited

/-- what the spec knows about the world -/
structure View where
  p : Params
  minFrozen : Nat
  own : Own
  chain : List Block                  -- the best chain the wallet has been told about
  txs : AMap.T TxId Tx                -- every transaction ever defined (resolves explicit inputs)
  pendingSpent : List OutPt           -- outpoints spent by pending transactions (C09's pending set)
  stale : Bool := false               -- the node has moved on and the wallet has not been told yet
  reserved : List OutPt               -- inputs of outstanding drafts
  k : Nat
  maxFee : Nat
  deriving Inhabited

def minRelay : Nat := Gen.TxBuild.minRelayTxFee
def maxAmount : Nat := Gen.TxBuild.maxAmount

/-- relay minimum for a transaction of `size` bytes (mass-core: minRelay·size/1000, never 0) -/
def relayMin (size : Nat) : Nat :=
  let r := minRelay * size / 1000
  if r = 0 then minRelay else if r > maxAmount then maxAmount else r

/-- estimated signed size of a wallet transaction: 154 bytes per input, 63 per output, 12 overhead -/
def signedSize (nIn nOut payloadLen : Nat) : Nat := 154 * nIn + 63 * nOut + 12 + payloadLen

/-- dust threshold of a standard output (mass-core isDust: value·1000/(3·(8+34+154)) < minRelay) -/
def isDustStd (v : Nat) : Bool := decide (v * 1000 / (3 * 196) < minRelay)

/-- the coins automatic selection may use -/
def eligible (v : View) (w : Wid) (sender : Option Addr) : List SCoin :=
  let tip := v.chain.length - 1
  (coinsOfWallet (ledgerOf v.own v.chain) w).filter (fun c =>
    (match sender with | some a => c.addr == a | none => true) &&
    decide (c.amt ≠ 0) && spendableAt v.p tip c && decide (c.cls = .std) &&
    !(v.pendingSpent.contains (c.tx, c.idx)) && !(v.reserved.contains (c.tx, c.idx)))

def sumOuts (os : List Out) : Nat := (os.map (·.amt)).sum

/-- the fee a request starts from: the user's fee, or the flat minimum when none is given -/
def initFee (userFee : Nat) : Nat := if userFee ≠ 0 then userFee else minRelay

/-- fee of a transaction with j inputs and m outputs -/
def feeFor (userFee j m payloadLen : Nat) : Nat := max (initFee userFee) (relayMin (signedSize j m payloadLen))

def sortDescNat (l : List Nat) : List Nat := l.mergeSort (fun a b => decide (b ≤ a))

/-- ∃ subset with sum = target(|S|), brute force (used for ≤ `exactBound` coins only) -/
def existsExact (amts : List Nat) (target : Nat → Nat) (k : Nat) : Bool :=
  let rec go : List Nat → Nat → Nat → Bool
    | [], cnt, sum => cnt ≤ k && cnt > 0 && sum == target cnt
    | a :: rest, cnt, sum => go rest cnt sum || go rest (cnt + 1) (sum + a)
  go amts 0 0

def exactBound : Nat := 14

/-- funds suffice: a valid transaction exists (see header) -/
def suffice (v : View) (r : Req) : Bool :=
  let amts := sortDescNat ((eligible v r.wallet r.sender).map (·.amt))
  let m := r.outs.length
  let outSum := sumOuts r.outs
  -- room for a non-dust change whatever the size of the selection: the fee of the largest selection the
  -- wallet's coins allow (cf. MW.Props.C02.feeLoop_complete, which proves success under this condition)
  let nMax := min v.k amts.length
  let withChange := nMax > 0 &&
    decide ((amts.take nMax).sum ≥ outSum + feeFor r.userFee (nMax + 1) (m + 1) r.payloadLen + minRelay)
  -- exact cover: only when the fee the request starts from already covers the relay minimum of that
  -- subset (then the fee is fixed).  With a lower starting fee the wallet raises the fee step by step from
  -- the selections it makes on the way, and an exact cover at the FINAL fee may be missed because an
  -- earlier step ended in a dust-sized change (observed: user fee 23, two coins, amount = total − relay
  -- minimum → InsufficientFunds); that path dependence is not part of this clause.
  let unreachable := 2 * maxAmount + 1
  let exact := amts.length ≤ exactBound &&
    existsExact amts (fun j =>
      if initFee r.userFee ≥ relayMin (signedSize j m r.payloadLen) then outSum + initFee r.userFee else unreachable) v.k
  withChange || exact

/-- largest fee the relay rule can require of this request -/
def feeCeil (v : View) (r : Req) : Nat :=
  max (initFee r.userFee) (relayMin (signedSize (v.k + 1) (r.outs.length + 1) r.payloadLen))

/-- the output an explicit input names, if its transaction is on the chain the wallet knows -/
def resolve (v : View) (i : OutPt) : Option Out :=
  if v.chain.any (fun b => b.txs.any (fun t => t.id == i.1)) then
    (AMap.get v.txs i.1).bind (fun t => t.outs[i.2]?)
  else none

def ownerOf (v : View) (o : Out) : Option Wid := if o.cls = .raw then none else (AMap.get v.own o.addr).map (·.1)

def nodupB [DecidableEq α] : List α → Bool
  | [] => true
  | a :: l => !l.contains a && nodupB l

/-- multiset equality of output lists -/
def sameOuts (a b : List Out) : Bool := a.length == b.length && a.all (fun x => a.count x == b.count x)

def addrKnown (v : View) (a : Addr) : Bool := (AMap.get v.own a).isSome

/-- clauses for a transaction returned by an automatic path -/
def judgeAutoOk (v : View) (r : Req) (fee payloadLen : Nat) (ins : List OutPt) (outs : List Out) : List String :=
  let el := eligible v r.wallet r.sender
  let coinOf (i : OutPt) := el.find? (fun c => c.tx == i.1 && c.idx == i.2)
  let nReq := r.outs.length
  let reqPart := outs.take nReq
  let extra := outs.drop nReq
  let sumIn := (ins.filterMap coinOf).map (·.amt) |>.sum
  let sumOut := sumOuts outs
  let firstAddr := (ins.head?.bind coinOf).map (·.addr)
  (if nodupB ins then [] else ["input-twice"]) ++
  (if ins.all (fun i => (coinOf i).isSome) then [] else ["input-not-eligible"]) ++
  (if ins.isEmpty then ["no-inputs"] else []) ++
  (if sameOuts reqPart r.outs then [] else ["outputs-differ"]) ++
  (match extra with
   | [] => []
   | [c] =>
     (if c.cls = .std then [] else ["change-class"]) ++
     (if c.amt ≥ minRelay then [] else ["change-dust"]) ++
     (match r.chg with
      | some a => if c.addr = a then [] else ["change-address"]
      | none => if some c.addr = firstAddr then [] else ["change-address"])
   | _ => ["more-than-one-change"]) ++
  (if sumIn = sumOut + fee then [] else ["not-conserved"]) ++
  (if fee ≥ r.userFee then [] else ["fee-below-user"]) ++
  (if fee ≥ relayMin (signedSize ins.length outs.length payloadLen) then [] else ["fee-below-relay"]) ++
  (if fee ≤ feeCeil v r then [] else ["fee-above-bound"]) ++
  (if payloadLen = r.payloadLen then [] else ["payload"]) ++
  (if r.kind.isApi && decide (fee > v.maxFee) then ["fee-above-api-limit"] else [])

/-- the API reports only these wallet error classes distinctly -/
def apiCollapse (cls : String) : String :=
  if cls = "err:bigfee" || cls = "err:insufficient" || cls = "err:overfull" || cls = "err:notenough" then cls
  else "err:other"

/-- acceptable error classes of an automatic path -/
def judgeAutoErr (v : View) (r : Req) (cls : String) : List String :=
  if v.stale && (cls = "err:param" || cls = "err:other") then [] else   -- a coin vanished in a reorganisation not yet delivered
  if r.kind.isApi && cls = "err:other" then
    -- any request error (unknown sender, zero amount, …) is reported as one class by the API
    (if (match r.sender with | some a => (AMap.get v.own a).map (·.1) != some r.wallet | none => false) ||
        r.outs.any (fun o => o.amt == 0) || r.outs.isEmpty then [] else ["unexpected-error-class"]) else
  let senderBad : Bool := match r.sender with
    | some a => (AMap.get v.own a).map (·.1) != some r.wallet
    | none => false
  let zeroOut := r.outs.any (fun o => o.amt == 0)
  let badFrozen := r.outs.any (fun o => match o.cls with | .stk f => decide (f < v.minFrozen) | _ => false)
  if cls = "err:noaddr" then (if senderBad then [] else ["unexpected-noaddr"])
  else if senderBad then ["expected-noaddr"]
  else if cls = "err:amount" then (if zeroOut || decide (sumOuts r.outs > maxAmount) then [] else ["unexpected-amount-error"])
  else if cls = "err:frozen" then (if badFrozen then [] else ["unexpected-frozen-error"])
  else if zeroOut || badFrozen then []        -- which of several input errors is reported first is not specified
  else if cls = "err:bigfee" then
    (if r.kind.isApi && decide (feeCeil v r > v.maxFee) then [] else ["unexpected-bigfee"])
  else if cls = "err:insufficient" || cls = "err:overfull" then
    (if suffice v r then ["funds-suffice-but-" ++ cls.drop 4] else [])
  else ["unexpected-error-class"]

-- ------------------------------------------------------------------ explicit inputs

structure ManualExp where
  outs : List Out
  change : Nat
  fee : Nat
  deriving Repr, Inhabited

def ceilDiv (a n : Nat) : Nat := (a + n - 1) / n

/-- closed form of what CreateRawTransaction must produce (`.error cls` = must fail with cls) -/
def manualSpec (r : Req) (totalIn nIn : Nat) : Except String ManualExp :=
  let sub := r.subfee.eraseDups
  let n := sub.length
  let m := r.outs.length
  let total := sumOuts r.outs
  let fNC := relayMin (signedSize nIn m 0)
  let fWC := relayMin (signedSize nIn (m + 1) 0)
  if sub.any (fun a => !(r.outs.any (fun o => o.addr == a))) then .error "err:subfee" else
  let finish (share change fee : Nat) : Except String ManualExp :=
    if r.outs.any (fun o => sub.contains o.addr && decide (o.amt < share)) then .error "err:other" else
    let outs := r.outs.map (fun o => if sub.contains o.addr then { o with amt := o.amt - share } else o)
    if outs.any (fun o => isDustStd o.amt) then .error "err:dust"
    else if change ≠ 0 && isDustStd change then .error "err:dustchange"
    else .ok ⟨outs, change, fee⟩
  if n = 0 then
    if totalIn = total + fNC then finish 0 0 fNC
    else if totalIn > total + fWC then finish 0 (totalIn - total - fWC) fWC
    else .error "err:notenough"
  else
    -- the recipients pay: outputs + fee always add up to the requested total
    if (r.outs.any (fun o => sub.contains o.addr && decide (o.amt < ceilDiv fNC n))) then .error "err:other"
    else if totalIn = total then finish (ceilDiv fNC n) 0 (n * ceilDiv fNC n)
    else if totalIn > total then finish (ceilDiv fWC n) (totalIn - total) (n * ceilDiv fWC n)
    else .error "err:notenough"

def judgeManual (v : View) (r : Req) (res : Res) : List String :=
  let outsOf := r.inputs.map (resolve v)
  let unresolved := outsOf.any (·.isNone)
  let owned := outsOf.all (fun o => match o with | some o => ownerOf v o == some r.wallet | none => true)
  match res with
  | .garbage => ["undecodable"]
  | .ok fee _ ins outs =>
    (if ins = r.inputs then [] else ["inputs-differ"]) ++
    (if nodupB ins then [] else ["input-twice"]) ++
    (if unresolved then ["input-unknown"] else []) ++
    (if owned then [] else ["input-not-owned"]) ++
    (if r.kind.isApi && decide (fee > v.maxFee) then ["fee-above-api-limit"] else []) ++
    (if unresolved then [] else
      let totalIn := (outsOf.filterMap id).map (·.amt) |>.sum
      match manualSpec r totalIn ins.length with
      | .error c => ["expected-" ++ c]
      | .ok e =>
        let m := r.outs.length
        let firstAddr := (outsOf.head?.bind id).map (·.addr)
        (if sameOuts (outs.take m) e.outs then [] else ["outputs-differ"]) ++
        (match outs.drop m with
         | [] => if e.change = 0 then [] else ["change-missing"]
         | [c] =>
           (if c.amt = e.change && c.cls = .std then [] else ["change-amount"]) ++
           (match r.chg with
            | some a => if c.addr = a then [] else ["change-address"]
            | none => if some c.addr = firstAddr then [] else ["change-address"])
         | _ => ["more-than-one-change"]) ++
        (if fee = e.fee then [] else ["fee-differs"]) ++
        (if totalIn = sumOuts outs + fee then [] else ["not-conserved"]))
  | .err cls =>
    if cls = "err:bigfee" then (if r.kind.isApi then [] else ["unexpected-bigfee"]) else
    if unresolved then [] else           -- unknown / unconfirmed previous outputs: some error, class not specified
    if !owned then [] else               -- a foreign coin must be refused, class not specified
    if v.stale && (cls = "err:param" || cls = "err:other") then [] else
    if !nodupB r.inputs then [] else     -- a repeated input must be refused, class not specified
    let totalIn := (outsOf.filterMap id).map (·.amt) |>.sum
    match manualSpec r totalIn r.inputs.length with
    | .error c => if (if r.kind.isApi then apiCollapse c else c) = cls then [] else ["expected-" ++ c]
    | .ok _ => if r.kind.isApi && (r.inputs.isEmpty || r.outs.isEmpty) then [] else ["unexpected-error"]

/-- THE judge -/
def judge (v : View) (r : Req) (res : Res) : List String :=
  if r.kind.isManual then judgeManual v r res else
  match res with
  | .garbage => ["undecodable"]
  | .ok fee pl ins outs => judgeAutoOk v r fee pl ins outs
  | .err cls => judgeAutoErr v r cls

end MW.Spec.TxBuild
