/-
  SPEC for the CLI amount reader (C15): the accepted texts are
        white-space*  numeral  white-space*  ("MASS")?
  where `numeral` is a numeral of the property (MW.Spec.Amount.parse), white space is a sequence of UTF-8
  encoded Unicode White_Space runes, and the value is the numeral's value.  Nothing else is accepted.
  `Accepts` is the declarative form, `cliParse` an executable left-to-right scanner (no suffix cutting, no
  trimming from the right) that the driver prints next to the model.
-/
import MW.Base.Space
import MW.Spec.Amount
namespace MW.Spec.Amount
open MW MW.Dec

/-- "MASS" -/
def massSfx : Bytes := [77, 65, 83, 83]

/-- concatenations of tokens of `ts` -/
inductive Cat (ts : List Bytes) : Bytes → Prop
  | nil : Cat ts []
  | cons {t w : Bytes} : t ∈ ts → Cat ts w → Cat ts (t ++ w)

/-- white space: any number of UTF-8 encoded White_Space runes -/
def WS (w : Bytes) : Prop := Cat Space.toks w

/-- `s` is outer white space around ONE numeral of value `v`, optionally followed by the unit -/
def Accepts (s : Bytes) (v : Nat) : Prop :=
  ∃ w1 n w2 u : Bytes, s = w1 ++ n ++ w2 ++ u ∧ WS w1 ∧ WS w2 ∧ (u = [] ∨ u = massSfx) ∧ parse n = some v

/-- a byte that can occur in a numeral -/
def isNumCh (b : UInt8) : Bool := isDigit b || b == dot

/-- executable scanner: skip white space, take the run of digits and points, skip white space, then the
    end of the text or exactly "MASS" must follow -/
def cliParse (s : Bytes) : Option Nat :=
  let a := Space.trimLeft s
  let n := a.takeWhile isNumCh
  let r := Space.trimLeft (a.dropWhile isNumCh)
  if r = [] ∨ r = massSfx then parse n else none

end MW.Spec.Amount
