/-
  SPEC of the keystore's persisted byte formats: the formats as a compatibility contract, written directly (no
  tables, no interpreter).  A wallet database or an exported keystore file written by one build must be readable by
  the next: these are the layouts that must not move.

    snacl parameters   salt[32] ‖ digest[32] ‖ N ‖ r ‖ p, the integers as 8-byte little-endian two's complement; 88 bytes
    uint32 values      4 bytes little-endian (account number, coin type, next child numbers)
    account row        type[1] ‖ len[4, LE] ‖ payload[len]
    BIP0044 record     len[4, LE] ‖ encrypted public account key ‖ len[4, LE] ‖ encrypted private account key
    index key          branch[4, LE] ‖ index[4, LE]

  MW.Lemmas.KsCodecSpec proves that the table-driven model (which follows whatever today's source says) equals this
  spec for today's tables; the driver prints both, so a build whose source moved a field disagrees with the spec on a
  concrete input.   Core Lean only.
-/
import MW.Model.KsCodec
namespace MW.Spec.KsCodec
open MW MW.Model.KsCodec

inductive Res (α : Type) where
  | ok (a : α)
  | refused      -- an error value
  | crash        -- a run-time panic
  deriving Repr, DecidableEq

def marshal (p : Params) : Bytes :=
  p.salt ++ p.digest ++ leBytes 8 (u64 p.N) ++ leBytes 8 (u64 p.R) ++ leBytes 8 (u64 p.P)

def unmarshal (bs : Bytes) : Res Params :=
  if bs.length ≠ 88 then .refused
  else .ok ⟨bs.take 32, (bs.drop 32).take 32, i64 (ofLE ((bs.drop 64).take 8)), i64 (ofLE ((bs.drop 72).take 8)),
            i64 (ofLE ((bs.drop 80).take 8))⟩

def u32 (n : Nat) : Bytes := leBytes 4 n

def readU32 (bs : Bytes) : Res Nat := if bs.length < 4 then .crash else .ok (ofLE (bs.take 4))

def accountRow (t : Nat) (payload : Bytes) : Bytes := UInt8.ofNat (t % 256) :: (leBytes 4 payload.length ++ payload)

def readAccountRow (bs : Bytes) : Res (Nat × Bytes) :=
  match bs with
  | t :: r =>
    if bs.length < 5 then .refused
    else
      let n := ofLE (r.take 4)
      if (r.drop 4).length < n then .crash else .ok (t.toNat, (r.drop 4).take n)
  | [] => .refused

def hdRecord (pub priv : Bytes) : Bytes := leBytes 4 pub.length ++ pub ++ (leBytes 4 priv.length ++ priv)

def readHdRecord (bs : Bytes) : Res (Bytes × Bytes) :=
  if bs.length < 8 then .refused
  else
    let n := ofLE (bs.take 4)
    let r := bs.drop 4
    if r.length < n then .crash
    else
      let r2 := r.drop n
      if r2.length < 4 then .crash
      else
        let m := ofLE (r2.take 4)
        if (r2.drop 4).length < m then .crash else .ok (r.take n, (r2.drop 4).take m)

def indexKey (branch index : Nat) : Bytes := leBytes 4 branch ++ leBytes 4 index

/-- the model's outcome in the spec's vocabulary -/
def ofExcept {α : Type} : Except Err α → Res α
  | .ok a => .ok a
  | .error .panic => .crash
  | .error _ => .refused

end MW.Spec.KsCodec
