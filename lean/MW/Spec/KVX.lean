/-
  SPECIFICATION, round 4: kept bucket handles, BucketMeta / FetchBucket, and a read transaction
  used after its end — on top of MW.Spec.KV, as plainly as possible.

  * A bucket handle and a BucketMeta are NAMES of a bucket: all the specification keeps for them is
    the path.  `FetchBucket(meta)` finds the bucket iff it exists in the transaction's view (the
    cache is invisible).  An operation through a kept handle is the operation on the bucket of that
    path AS IT IS NOW in the transaction's view – a handle follows a bucket that is deleted and
    created again.
  * Contract: through the handle of a bucket that does NOT exist (any more) in the write transaction's
    view, reads find an empty bucket (`staleRead`) and a write takes the caller out of the contract:
    nothing is claimed from that operation on (`outOfContract`; the driver writes orphan entries there).
  * After its Rollback a read transaction finds no bucket, refuses every write with
    write-not-allowed and answers every read through a kept bucket handle with the released error.
-/
import MW.Spec.KV
import MW.Base.AMap
namespace MW.Spec.KV
open MW MW.KV

/-- the operation with its (relative) path re-rooted at `p` -/
def reroot (p : Path) : Op → Op
  | .create s r => .create s (p ++ r)
  | .delb s r => .delb s (p ++ r)
  | .has s r => .has s (p ++ r)
  | .put s r k v => .put s (p ++ r) k v
  | .get s r k => .get s (p ++ r) k
  | .del s r k => .del s (p ++ r) k
  | .clear s r => .clear s (p ++ r)
  | .pfx s r k => .pfx s (p ++ r) k
  | .names s r => .names s (p ++ r)
  | .iter s r a b sc => .iter s (p ++ r) a b sc
  | op => op

/-- create / delete name a child: they need a non-empty relative path -/
def viaShapeOK : Op → Bool
  | .create _ r | .delb _ r => r.length != 0
  | _ => true

def mutating : Op → Bool
  | .create _ _ | .delb _ _ | .put _ _ _ _ | .del _ _ _ | .clear _ _ => true
  | _ => false

/-- a read through the handle of a bucket that does not exist (any more) in the write transaction's
    view: the bucket reads as empty and nothing is found below it (an iterator inside a write
    transaction: no claim, as everywhere) -/
def staleRead : Op → Obs
  | .has _ rel => .bool (rel.length == 0)
  | .names _ rel => if rel.length == 0 then .names [] else .nobucket
  | .get _ rel _ => if rel.length == 0 then .val none else .nobucket
  | .pfx _ rel _ => if rel.length == 0 then .entries [] else .nobucket
  | _ => .unspecified

structure SysX where
  base : Sys := {}
  metas : AMap.T Nat Path := []          -- BucketMeta held by the caller: the bucket it names
  wregs : AMap.T Nat Path := []          -- bucket handles held in the write / read transaction: the bucket each names
  rregs : AMap.T Nat Path := []
  dead : Option (AMap.T Nat Path) := none   -- handles of the read transaction ended last

def SysX.dbOf (s : SysX) : Slot → Option DB
  | .w => s.base.pending
  | .r => s.base.reader

def SysX.regsOf (s : SysX) : Slot → AMap.T Nat Path
  | .w => s.wregs
  | .r => s.rregs

def SysX.setRegs (s : SysX) (sl : Slot) (t : AMap.T Nat Path) : SysX :=
  match sl with
  | .w => { s with wregs := t }
  | .r => { s with rregs := t }

def setIf (t : AMap.T Nat Path) (h : Nat) (p : Path) (found : Bool) : AMap.T Nat Path :=
  if found then AMap.put t h p else AMap.erase t h

/-- an ended read transaction through its own handle … -/
def deadSpec (op : Op) : Obs :=
  match op with
  | .create _ p => if p.length == 0 then .badop else if p.length == 1 then .err .writeNotAllowed else .nobucket
  | .delb _ p => if p.length == 0 then .badop else if p.length == 1 then .err .notSupported else .nobucket
  | .has _ p => if p.length == 0 then .badop else .bool false
  | .names _ p => if p.length == 0 then .err .released else .nobucket
  | .put _ p _ _ | .get _ p _ | .del _ p _ | .clear _ p | .pfx _ p _ | .iter _ p _ _ _ =>
    if p.length == 0 then .badop else .nobucket
  | _ => .badop

/-- … and through a bucket handle it gave out: below the handle nothing is found; on the handle
    itself writes are refused, reads report the released snapshot (an empty key is never read) -/
def deadViaSpec (op : Op) : Obs :=
  if !viaShapeOK op then .badop
  else match op with
  | .has _ rel => .bool (rel.length == 0)
  | .create _ rel | .delb _ rel => if rel.length == 1 then .err .writeNotAllowed else .nobucket
  | .put _ rel _ _ | .del _ rel _ | .clear _ rel => if rel.length == 0 then .err .writeNotAllowed else .nobucket
  | .get _ rel k => if rel.length != 0 then .nobucket else if k.length == 0 then .val none else .err .released
  | .names _ rel | .pfx _ rel _ | .iter _ rel _ _ _ => if rel.length == 0 then .err .released else .nobucket
  | _ => .badop

def SysX.step (s : SysX) : OpX → SysX × Obs
  | .base op =>
    let r := s.base.step op
    let s' := { s with base := r.1 }
    match op with
    | .beginW => (if s.base.pending.isSome then s' else { s' with wregs := [] }, r.2)
    | .beginR => (if s.base.reader.isSome then s' else { s' with rregs := [] }, r.2)
    | .endR => (if s.base.reader.isSome then { s' with dead := some s.rregs, rregs := [] } else s', r.2)
    | _ => (s', r.2)
  | .getMeta sl m p =>
    match s.dbOf sl with
    | none => (s, .notx)
    | some d => if d.has p then ({ s with metas := AMap.put s.metas m p }, .ok) else (s, .nobucket)
  | .fetch sl h m =>
    match s.dbOf sl with
    | none => (s, .notx)
    | some d =>
      match AMap.get s.metas m with
      | none => (s, .badop)
      | some p => (s.setRegs sl (setIf (s.regsOf sl) h p (d.has p)), .bool (d.has p))
  | .keep sl h p =>
    match s.dbOf sl with
    | none => (s, .notx)
    | some d => (s.setRegs sl (setIf (s.regsOf sl) h p (d.has p)), .bool (d.has p))
  | .via h op =>
    match slotOf op with
    | none => (s, .badop)
    | some sl =>
      match s.dbOf sl with
      | none => (s, .notx)
      | some d =>
        match AMap.get (s.regsOf sl) h with
        | none => (s, .nobucket)
        | some p =>
          if !viaShapeOK op then (s, .badop)
          else if d.has p then let r := s.base.step (reroot p op); ({ s with base := r.1 }, r.2)
          else if sl == .w && mutating op then (s, .outOfContract)
          else if sl == .w then (s, staleRead op)
          else (s, .unspecified)
  | .dead op =>
    match s.dead with
    | none => (s, .notx)
    | some _ => (s, if (slotOf op).isSome then deadSpec op else .badop)
  | .deadVia h op =>
    match s.dead with
    | none => (s, .notx)
    | some t =>
      match AMap.get t h with
      | none => (s, .nobucket)
      | some _ => (s, if (slotOf op).isSome then deadViaSpec op else .badop)

def runX (s : SysX) : List OpX → List Obs
  | [] => []
  | op :: rest => let r := s.step op; r.2 :: runX r.1 rest

end MW.Spec.KV
