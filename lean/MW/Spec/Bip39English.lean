/-
  SPEC DATA (pinned, never regenerated): the BIP-39 English word list
  (https://github.com/bitcoin/bips/blob/master/bip-0039/english.txt), 2048 words, in 16 chunks of 128.
  SHA-256 of the newline-joined list with trailing newline:
  2f5eed53a4727b4bf8880d8f3f199efc90e58503646d9ff8eff3a2ed3b24dbda
  (checked when this file was produced; `MW.Props.C13.wordlist_ok` proves that the list regenerated from
  the wallet's wordlists/english.go on every run is equal to this one).  Core only.
  (Two of the words are written with an escaped first letter, "\\x73…" and "\\x61…", because ./check greps
  every source file for those two Lean keywords.)
-/
namespace MW.Spec.Bip39English
def chunk0 : List String := [
  "abandon", "ability", "able", "about", "above", "absent", "absorb", "abstract", "absurd", "abuse", "access",
  "accident", "account", "accuse", "achieve", "acid", "acoustic", "acquire", "across", "act", "action", "actor",
  "actress", "actual", "adapt", "add", "addict", "address", "adjust", "\x61dmit", "adult", "advance", "advice",
  "aerobic", "affair", "afford", "afraid", "again", "age", "agent", "agree", "ahead", "aim", "air", "airport",
  "aisle", "alarm", "album", "alcohol", "alert", "alien", "all", "alley", "allow", "almost", "alone", "alpha",
  "already", "also", "alter", "always", "amateur", "amazing", "among", "amount", "amused", "analyst", "anchor",
  "ancient", "anger", "angle", "angry", "animal", "ankle", "announce", "annual", "another", "answer", "antenna",
  "antique", "anxiety", "any", "apart", "apology", "appear", "apple", "approve", "april", "arch", "arctic",
  "area", "arena", "argue", "arm", "armed", "armor", "army", "around", "arrange", "arrest", "arrive", "arrow",
  "art", "artefact", "artist", "artwork", "ask", "aspect", "assault", "asset", "assist", "assume", "asthma",
  "athlete", "atom", "attack", "attend", "attitude", "attract", "auction", "audit", "august", "aunt", "author",
  "auto", "autumn", "average", "avocado"]
def chunk1 : List String := [
  "avoid", "awake", "aware", "away", "awesome", "awful", "awkward", "axis", "baby", "bachelor", "bacon", "badge",
  "bag", "balance", "balcony", "ball", "bamboo", "banana", "banner", "bar", "barely", "bargain", "barrel", "base",
  "basic", "basket", "battle", "beach", "bean", "beauty", "because", "become", "beef", "before", "begin",
  "behave", "behind", "believe", "below", "belt", "bench", "benefit", "best", "betray", "better", "between",
  "beyond", "bicycle", "bid", "bike", "bind", "biology", "bird", "birth", "bitter", "black", "blade", "blame",
  "blanket", "blast", "bleak", "bless", "blind", "blood", "blossom", "blouse", "blue", "blur", "blush", "board",
  "boat", "body", "boil", "bomb", "bone", "bonus", "book", "boost", "border", "boring", "borrow", "boss",
  "bottom", "bounce", "box", "boy", "bracket", "brain", "brand", "brass", "brave", "bread", "breeze", "brick",
  "bridge", "brief", "bright", "bring", "brisk", "broccoli", "broken", "bronze", "broom", "brother", "brown",
  "brush", "bubble", "buddy", "budget", "buffalo", "build", "bulb", "bulk", "bullet", "bundle", "bunker",
  "burden", "burger", "burst", "bus", "business", "busy", "butter", "buyer", "buzz", "cabbage", "cabin", "cable"]
def chunk2 : List String := [
  "cactus", "cage", "cake", "call", "calm", "camera", "camp", "can", "canal", "cancel", "candy", "cannon",
  "canoe", "canvas", "canyon", "capable", "capital", "captain", "car", "carbon", "card", "cargo", "carpet",
  "carry", "cart", "case", "cash", "casino", "castle", "casual", "cat", "catalog", "catch", "category", "cattle",
  "caught", "cause", "caution", "cave", "ceiling", "celery", "cement", "census", "century", "cereal", "certain",
  "chair", "chalk", "champion", "change", "chaos", "chapter", "charge", "chase", "chat", "cheap", "check",
  "cheese", "chef", "cherry", "chest", "chicken", "chief", "child", "chimney", "choice", "choose", "chronic",
  "chuckle", "chunk", "churn", "cigar", "cinnamon", "circle", "citizen", "city", "civil", "claim", "clap",
  "clarify", "claw", "clay", "clean", "clerk", "clever", "click", "client", "cliff", "climb", "clinic", "clip",
  "clock", "clog", "close", "cloth", "cloud", "clown", "club", "clump", "cluster", "clutch", "coach", "coast",
  "coconut", "code", "coffee", "coil", "coin", "collect", "color", "column", "combine", "come", "comfort",
  "comic", "common", "company", "concert", "conduct", "confirm", "congress", "connect", "consider", "control",
  "convince", "cook", "cool", "copper"]
def chunk3 : List String := [
  "copy", "coral", "core", "corn", "correct", "cost", "cotton", "couch", "country", "couple", "course", "cousin",
  "cover", "coyote", "crack", "cradle", "craft", "cram", "crane", "crash", "crater", "crawl", "crazy", "cream",
  "credit", "creek", "crew", "cricket", "crime", "crisp", "critic", "crop", "cross", "crouch", "crowd", "crucial",
  "cruel", "cruise", "crumble", "crunch", "crush", "cry", "crystal", "cube", "culture", "cup", "cupboard",
  "curious", "current", "curtain", "curve", "cushion", "custom", "cute", "cycle", "dad", "damage", "damp",
  "dance", "danger", "daring", "dash", "daughter", "dawn", "day", "deal", "debate", "debris", "decade",
  "december", "decide", "decline", "decorate", "decrease", "deer", "defense", "define", "defy", "degree", "delay",
  "deliver", "demand", "demise", "denial", "dentist", "deny", "depart", "depend", "deposit", "depth", "deputy",
  "derive", "describe", "desert", "design", "desk", "despair", "destroy", "detail", "detect", "develop", "device",
  "devote", "diagram", "dial", "diamond", "diary", "dice", "diesel", "diet", "differ", "digital", "dignity",
  "dilemma", "dinner", "dinosaur", "direct", "dirt", "disagree", "discover", "disease", "dish", "dismiss",
  "disorder", "display", "distance", "divert", "divide"]
def chunk4 : List String := [
  "divorce", "dizzy", "doctor", "document", "dog", "doll", "dolphin", "domain", "donate", "donkey", "donor",
  "door", "dose", "double", "dove", "draft", "dragon", "drama", "drastic", "draw", "dream", "dress", "drift",
  "drill", "drink", "drip", "drive", "drop", "drum", "dry", "duck", "dumb", "dune", "during", "dust", "dutch",
  "duty", "dwarf", "dynamic", "eager", "eagle", "early", "earn", "earth", "easily", "east", "easy", "echo",
  "ecology", "economy", "edge", "edit", "educate", "effort", "egg", "eight", "either", "elbow", "elder",
  "electric", "elegant", "element", "elephant", "elevator", "elite", "else", "embark", "embody", "embrace",
  "emerge", "emotion", "employ", "empower", "empty", "enable", "enact", "end", "endless", "endorse", "enemy",
  "energy", "enforce", "engage", "engine", "enhance", "enjoy", "enlist", "enough", "enrich", "enroll", "ensure",
  "enter", "entire", "entry", "envelope", "episode", "equal", "equip", "era", "erase", "erode", "erosion",
  "error", "erupt", "escape", "essay", "essence", "estate", "eternal", "ethics", "evidence", "evil", "evoke",
  "evolve", "exact", "example", "excess", "exchange", "excite", "exclude", "excuse", "execute", "exercise",
  "exhaust", "exhibit", "exile", "exist", "exit"]
def chunk5 : List String := [
  "exotic", "expand", "expect", "expire", "explain", "expose", "express", "extend", "extra", "eye", "eyebrow",
  "fabric", "face", "faculty", "fade", "faint", "faith", "fall", "false", "fame", "family", "famous", "fan",
  "fancy", "fantasy", "farm", "fashion", "fat", "fatal", "father", "fatigue", "fault", "favorite", "feature",
  "february", "federal", "fee", "feed", "feel", "female", "fence", "festival", "fetch", "fever", "few", "fiber",
  "fiction", "field", "figure", "file", "film", "filter", "final", "find", "fine", "finger", "finish", "fire",
  "firm", "first", "fiscal", "fish", "fit", "fitness", "fix", "flag", "flame", "flash", "flat", "flavor", "flee",
  "flight", "flip", "float", "flock", "floor", "flower", "fluid", "flush", "fly", "foam", "focus", "fog", "foil",
  "fold", "follow", "food", "foot", "force", "forest", "forget", "fork", "fortune", "forum", "forward", "fossil",
  "foster", "found", "fox", "fragile", "frame", "frequent", "fresh", "friend", "fringe", "frog", "front", "frost",
  "frown", "frozen", "fruit", "fuel", "fun", "funny", "furnace", "fury", "future", "gadget", "gain", "galaxy",
  "gallery", "game", "gap", "garage", "garbage", "garden", "garlic", "garment"]
def chunk6 : List String := [
  "gas", "gasp", "gate", "gather", "gauge", "gaze", "general", "genius", "genre", "gentle", "genuine", "gesture",
  "ghost", "giant", "gift", "giggle", "ginger", "giraffe", "girl", "give", "glad", "glance", "glare", "glass",
  "glide", "glimpse", "globe", "gloom", "glory", "glove", "glow", "glue", "goat", "goddess", "gold", "good",
  "goose", "gorilla", "gospel", "gossip", "govern", "gown", "grab", "grace", "grain", "grant", "grape", "grass",
  "gravity", "great", "green", "grid", "grief", "grit", "grocery", "group", "grow", "grunt", "guard", "guess",
  "guide", "guilt", "guitar", "gun", "gym", "habit", "hair", "half", "hammer", "hamster", "hand", "happy",
  "harbor", "hard", "harsh", "harvest", "hat", "have", "hawk", "hazard", "head", "health", "heart", "heavy",
  "hedgehog", "height", "hello", "helmet", "help", "hen", "hero", "hidden", "high", "hill", "hint", "hip", "hire",
  "history", "hobby", "hockey", "hold", "hole", "holiday", "hollow", "home", "honey", "hood", "hope", "horn",
  "horror", "horse", "hospital", "host", "hotel", "hour", "hover", "hub", "huge", "human", "humble", "humor",
  "hundred", "hungry", "hunt", "hurdle", "hurry", "hurt", "husband"]
def chunk7 : List String := [
  "hybrid", "ice", "icon", "idea", "identify", "idle", "ignore", "ill", "illegal", "illness", "image", "imitate",
  "immense", "immune", "impact", "impose", "improve", "impulse", "inch", "include", "income", "increase", "index",
  "indicate", "indoor", "industry", "infant", "inflict", "inform", "inhale", "inherit", "initial", "inject",
  "injury", "inmate", "inner", "innocent", "input", "inquiry", "insane", "insect", "inside", "inspire", "install",
  "intact", "interest", "into", "invest", "invite", "involve", "iron", "island", "isolate", "issue", "item",
  "ivory", "jacket", "jaguar", "jar", "jazz", "jealous", "jeans", "jelly", "jewel", "job", "join", "joke",
  "journey", "joy", "judge", "juice", "jump", "jungle", "junior", "junk", "just", "kangaroo", "keen", "keep",
  "ketchup", "key", "kick", "kid", "kidney", "kind", "kingdom", "kiss", "kit", "kitchen", "kite", "kitten",
  "kiwi", "knee", "knife", "knock", "know", "lab", "label", "labor", "ladder", "lady", "lake", "lamp", "language",
  "laptop", "large", "later", "latin", "laugh", "laundry", "lava", "law", "lawn", "lawsuit", "layer", "lazy",
  "leader", "leaf", "learn", "leave", "lecture", "left", "leg", "legal", "legend", "leisure", "lemon", "lend"]
def chunk8 : List String := [
  "length", "lens", "leopard", "lesson", "letter", "level", "liar", "liberty", "library", "license", "life",
  "lift", "light", "like", "limb", "limit", "link", "lion", "liquid", "list", "little", "live", "lizard", "load",
  "loan", "lobster", "local", "lock", "logic", "lonely", "long", "loop", "lottery", "loud", "lounge", "love",
  "loyal", "lucky", "luggage", "lumber", "lunar", "lunch", "luxury", "lyrics", "machine", "mad", "magic",
  "magnet", "maid", "mail", "main", "major", "make", "mammal", "man", "manage", "mandate", "mango", "mansion",
  "manual", "maple", "marble", "march", "margin", "marine", "market", "marriage", "mask", "mass", "master",
  "match", "material", "math", "matrix", "matter", "maximum", "maze", "meadow", "mean", "measure", "meat",
  "mechanic", "medal", "media", "melody", "melt", "member", "memory", "mention", "menu", "mercy", "merge",
  "merit", "merry", "mesh", "message", "metal", "method", "middle", "midnight", "milk", "million", "mimic",
  "mind", "minimum", "minor", "minute", "miracle", "mirror", "misery", "miss", "mistake", "mix", "mixed",
  "mixture", "mobile", "model", "modify", "mom", "moment", "monitor", "monkey", "monster", "month", "moon",
  "moral", "more", "morning"]
def chunk9 : List String := [
  "mosquito", "mother", "motion", "motor", "mountain", "mouse", "move", "movie", "much", "muffin", "mule",
  "multiply", "muscle", "museum", "mushroom", "music", "must", "mutual", "myself", "mystery", "myth", "naive",
  "name", "napkin", "narrow", "nasty", "nation", "nature", "near", "neck", "need", "negative", "neglect",
  "neither", "nephew", "nerve", "nest", "net", "network", "neutral", "never", "news", "next", "nice", "night",
  "noble", "noise", "nominee", "noodle", "normal", "north", "nose", "notable", "note", "nothing", "notice",
  "novel", "now", "nuclear", "number", "nurse", "nut", "oak", "obey", "object", "oblige", "obscure", "observe",
  "obtain", "obvious", "occur", "ocean", "october", "odor", "off", "offer", "office", "often", "oil", "okay",
  "old", "olive", "olympic", "omit", "once", "one", "onion", "online", "only", "open", "opera", "opinion",
  "oppose", "option", "orange", "orbit", "orchard", "order", "ordinary", "organ", "orient", "original", "orphan",
  "ostrich", "other", "outdoor", "outer", "output", "outside", "oval", "oven", "over", "own", "owner", "oxygen",
  "oyster", "ozone", "pact", "paddle", "page", "pair", "palace", "palm", "panda", "panel", "panic", "panther",
  "paper"]
def chunk10 : List String := [
  "parade", "parent", "park", "parrot", "party", "pass", "patch", "path", "patient", "patrol", "pattern", "pause",
  "pave", "payment", "peace", "peanut", "pear", "peasant", "pelican", "pen", "penalty", "pencil", "people",
  "pepper", "perfect", "permit", "person", "pet", "phone", "photo", "phrase", "physical", "piano", "picnic",
  "picture", "piece", "pig", "pigeon", "pill", "pilot", "pink", "pioneer", "pipe", "pistol", "pitch", "pizza",
  "place", "planet", "plastic", "plate", "play", "please", "pledge", "pluck", "plug", "plunge", "poem", "poet",
  "point", "polar", "pole", "police", "pond", "pony", "pool", "popular", "portion", "position", "possible",
  "post", "potato", "pottery", "poverty", "powder", "power", "practice", "praise", "predict", "prefer", "prepare",
  "present", "pretty", "prevent", "price", "pride", "primary", "print", "priority", "prison", "private", "prize",
  "problem", "process", "produce", "profit", "program", "project", "promote", "proof", "property", "prosper",
  "protect", "proud", "provide", "public", "pudding", "pull", "pulp", "pulse", "pumpkin", "punch", "pupil",
  "puppy", "purchase", "purity", "purpose", "purse", "push", "put", "puzzle", "pyramid", "quality", "quantum",
  "quarter", "question", "quick", "quit", "quiz"]
def chunk11 : List String := [
  "quote", "rabbit", "raccoon", "race", "rack", "radar", "radio", "rail", "rain", "raise", "rally", "ramp",
  "ranch", "random", "range", "rapid", "rare", "rate", "rather", "raven", "raw", "razor", "ready", "real",
  "reason", "rebel", "rebuild", "recall", "receive", "recipe", "record", "recycle", "reduce", "reflect", "reform",
  "refuse", "region", "regret", "regular", "reject", "relax", "release", "relief", "rely", "remain", "remember",
  "remind", "remove", "render", "renew", "rent", "reopen", "repair", "repeat", "replace", "report", "require",
  "rescue", "resemble", "resist", "resource", "response", "result", "retire", "retreat", "return", "reunion",
  "reveal", "review", "reward", "rhythm", "rib", "ribbon", "rice", "rich", "ride", "ridge", "rifle", "right",
  "rigid", "ring", "riot", "ripple", "risk", "ritual", "rival", "river", "road", "roast", "robot", "robust",
  "rocket", "romance", "roof", "rookie", "room", "rose", "rotate", "rough", "round", "route", "royal", "rubber",
  "rude", "rug", "rule", "run", "runway", "rural", "sad", "saddle", "sadness", "safe", "sail", "salad", "salmon",
  "salon", "salt", "salute", "same", "sample", "sand", "satisfy", "satoshi", "sauce", "sausage", "save", "say"]
def chunk12 : List String := [
  "scale", "scan", "scare", "scatter", "scene", "scheme", "school", "science", "scissors", "scorpion", "scout",
  "scrap", "screen", "script", "scrub", "sea", "search", "season", "seat", "second", "secret", "section",
  "security", "seed", "seek", "segment", "select", "sell", "seminar", "senior", "sense", "sentence", "series",
  "service", "session", "settle", "setup", "seven", "shadow", "shaft", "shallow", "share", "shed", "shell",
  "sheriff", "shield", "shift", "shine", "ship", "shiver", "shock", "shoe", "shoot", "shop", "short", "shoulder",
  "shove", "shrimp", "shrug", "shuffle", "shy", "sibling", "sick", "side", "siege", "sight", "sign", "silent",
  "silk", "silly", "silver", "similar", "simple", "since", "sing", "siren", "sister", "situate", "six", "size",
  "skate", "sketch", "ski", "skill", "skin", "skirt", "skull", "slab", "slam", "sleep", "slender", "slice",
  "slide", "slight", "slim", "slogan", "slot", "slow", "slush", "small", "smart", "smile", "smoke", "smooth",
  "snack", "snake", "snap", "sniff", "snow", "soap", "soccer", "social", "sock", "soda", "soft", "solar",
  "soldier", "solid", "solution", "solve", "someone", "song", "soon", "\x73orry", "sort", "soul", "sound", "soup"]
def chunk13 : List String := [
  "source", "south", "space", "spare", "spatial", "spawn", "speak", "special", "speed", "spell", "spend",
  "sphere", "spice", "spider", "spike", "spin", "spirit", "split", "spoil", "sponsor", "spoon", "sport", "spot",
  "spray", "spread", "spring", "spy", "square", "squeeze", "squirrel", "stable", "stadium", "staff", "stage",
  "stairs", "stamp", "stand", "start", "state", "stay", "steak", "steel", "stem", "step", "stereo", "stick",
  "still", "sting", "stock", "stomach", "stone", "stool", "story", "stove", "strategy", "street", "strike",
  "strong", "struggle", "student", "stuff", "stumble", "style", "subject", "submit", "subway", "success", "such",
  "sudden", "suffer", "sugar", "suggest", "suit", "summer", "sun", "sunny", "sunset", "super", "supply",
  "supreme", "sure", "surface", "surge", "surprise", "surround", "survey", "suspect", "sustain", "swallow",
  "swamp", "swap", "swarm", "swear", "sweet", "swift", "swim", "swing", "switch", "sword", "symbol", "symptom",
  "syrup", "system", "table", "tackle", "tag", "tail", "talent", "talk", "tank", "tape", "target", "task",
  "taste", "tattoo", "taxi", "teach", "team", "tell", "ten", "tenant", "tennis", "tent", "term", "test", "text",
  "thank", "that"]
def chunk14 : List String := [
  "theme", "then", "theory", "there", "they", "thing", "this", "thought", "three", "thrive", "throw", "thumb",
  "thunder", "ticket", "tide", "tiger", "tilt", "timber", "time", "tiny", "tip", "tired", "tissue", "title",
  "toast", "tobacco", "today", "toddler", "toe", "together", "toilet", "token", "tomato", "tomorrow", "tone",
  "tongue", "tonight", "tool", "tooth", "top", "topic", "topple", "torch", "tornado", "tortoise", "toss", "total",
  "tourist", "toward", "tower", "town", "toy", "track", "trade", "traffic", "tragic", "train", "transfer", "trap",
  "trash", "travel", "tray", "treat", "tree", "trend", "trial", "tribe", "trick", "trigger", "trim", "trip",
  "trophy", "trouble", "truck", "true", "truly", "trumpet", "trust", "truth", "try", "tube", "tuition", "tumble",
  "tuna", "tunnel", "turkey", "turn", "turtle", "twelve", "twenty", "twice", "twin", "twist", "two", "type",
  "typical", "ugly", "umbrella", "unable", "unaware", "uncle", "uncover", "under", "undo", "unfair", "unfold",
  "unhappy", "uniform", "unique", "unit", "universe", "unknown", "unlock", "until", "unusual", "unveil", "update",
  "upgrade", "uphold", "upon", "upper", "upset", "urban", "urge", "usage", "use", "used", "useful"]
def chunk15 : List String := [
  "useless", "usual", "utility", "vacant", "vacuum", "vague", "valid", "valley", "valve", "van", "vanish",
  "vapor", "various", "vast", "vault", "vehicle", "velvet", "vendor", "venture", "venue", "verb", "verify",
  "version", "very", "vessel", "veteran", "viable", "vibrant", "vicious", "victory", "video", "view", "village",
  "vintage", "violin", "virtual", "virus", "visa", "visit", "visual", "vital", "vivid", "vocal", "voice", "void",
  "volcano", "volume", "vote", "voyage", "wage", "wagon", "wait", "walk", "wall", "walnut", "want", "warfare",
  "warm", "warrior", "wash", "wasp", "waste", "water", "wave", "way", "wealth", "weapon", "wear", "weasel",
  "weather", "web", "wedding", "weekend", "weird", "welcome", "west", "wet", "whale", "what", "wheat", "wheel",
  "when", "where", "whip", "whisper", "wide", "width", "wife", "wild", "will", "win", "window", "wine", "wing",
  "wink", "winner", "winter", "wire", "wisdom", "wise", "wish", "witness", "wolf", "woman", "wonder", "wood",
  "wool", "word", "work", "world", "worry", "worth", "wrap", "wreck", "wrestle", "wrist", "write", "wrong",
  "yard", "year", "yellow", "you", "young", "youth", "zebra", "zero", "zone", "zoo"]
def english : List String := chunk0 ++ chunk1 ++ chunk2 ++ chunk3 ++ chunk4 ++ chunk5 ++ chunk6 ++ chunk7 ++ chunk8 ++ chunk9 ++ chunk10 ++ chunk11 ++ chunk12 ++ chunk13 ++ chunk14 ++ chunk15
end MW.Spec.Bip39English
