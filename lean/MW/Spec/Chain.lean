/-
  SPEC for C01 / C09 / C10 / C12(used flag): what a wallet should report for a chain.
  A fold over the blocks of the chain the wallet has been told about; no buckets, no keys, no
  rollback. `own` maps an address (script hash) to the wallet that holds its key.
-/
import MW.Model.Ledger
namespace MW.Spec.Chain
open MW MW.Model.Ledger

structure SCoin where
  wallet : Wid
  tx : TxId
  idx : Nat
  amt : Nat
  height : Nat
  cb : Bool
  cls : Cls
  addr : Addr
  deriving Repr, DecidableEq, Inhabited

/-- outputs of `t` (at height `h`) that pay an owned address with a recognised template -/
def ownedOuts (own : Own) (h : Nat) (t : Tx) : List SCoin :=
  (t.outs.zipIdx).filterMap (fun (o, i) =>
    if o.cls = .raw then none else
    match AMap.get own o.addr with
    | some (w, _) => some ⟨w, t.id, i, o.amt, h, t.cb, o.cls, o.addr⟩
    | none => none)

/-- one transaction: remove what it spends, add what it pays to owned addresses -/
def applyTx (own : Own) (h : Nat) (l : List SCoin) (t : Tx) : List SCoin :=
  let l := if t.cb then l else l.filter (fun c => !(t.ins.any (fun i => i.tx = c.tx && i.idx = c.idx)))
  l ++ ownedOuts own h t

def applyBlock (own : Own) (l : List SCoin) (b : Block) : List SCoin :=
  b.txs.foldl (applyTx own b.height) l

/-- THE ledger of a chain: every owned output the chain pays and has not spent -/
def ledgerOf (own : Own) (chain : List Block) : List SCoin := chain.foldl (applyBlock own) []

def coinsOfWallet (l : List SCoin) (w : Wid) : List SCoin := l.filter (fun c => c.wallet = w)

def total (l : List SCoin) (w : Wid) : Nat := ((coinsOfWallet l w).map (·.amt)).sum

/-- the sequence lock of the output's own script: staking (frozen+1) and MASSIP-2 binding:
    origin + lock − 1 < tip + 1 -/
def seqOK (tip : Nat) (c : SCoin) : Bool :=
  match c.cls with
  | .stk f => decide (c.height + (f + 1) - 1 < tip + 1)
  | .bindNew _ => decide (c.height + bindingLockedPeriod - 1 < tip + 1)
  | _ => true

/-- consensus maturity: may the block at height tip+1 spend this coin?
    coinbase: blocksSincePrev ≥ CoinbaseMaturity (checkTxInMaturity); AND, for every coin, the sequence lock
    of its script (a staking / binding output of a coinbase needs both). -/
def spendableAt (p : Params) (tip : Nat) (c : SCoin) : Bool :=
  (if c.cb then decide (tip + 1 - c.height ≥ p.cbMaturity) else true) && seqOK tip c

def kindOf (c : SCoin) : UClass := uclassOf c.cls

/-- what WalletBalance(minConf, detail) must report -/
def balance (p : Params) (own : Own) (chain : List Block) (w : Wid) (minConf : Nat) : Balance :=
  let l := coinsOfWallet (ledgerOf own chain) w
  let tip := chain.length - 1
  let ok := l.filter (fun c => decide (tip + 1 - c.height ≥ minConf) && spendableAt p tip c && decide (c.amt ≠ 0))
  let sum (k : UClass) := ((ok.filter (fun c => kindOf c = k)).map (·.amt)).sum
  ⟨total (ledgerOf own chain) w, sum .standard, sum .staking, sum .binding⟩

/-- used flag of an address: the chain contains a payment to it -/
def addrUsed (chain : List Block) (a : Addr) : Bool :=
  chain.any (fun b => b.txs.any (fun t => t.outs.any (fun o => o.addr = a && o.cls ≠ .raw)))

/-- every staking / binding deposit to wallet w on the chain, with its withdrawn flag -/
structure Deposit where
  tx : TxId
  idx : Nat
  amt : Nat
  height : Nat
  cls : Cls
  addr : Addr
  withdrawn : Bool
  deriving Repr, Inhabited

def deposits (own : Own) (chain : List Block) (w : Wid) : List Deposit :=
  let spentOnChain (tx : TxId) (i : Nat) : Bool :=
    chain.any (fun b => b.txs.any (fun t => !t.cb && t.ins.any (fun x => x.tx = tx && x.idx = i)))
  chain.flatMap (fun b => b.txs.flatMap (fun t =>
    (t.outs.zipIdx).filterMap (fun (o, i) =>
      if o.cls.isStaking || o.cls.isBinding then
        match AMap.get own o.addr with
        | some (w', _) => if w' = w then some ⟨t.id, i, o.amt, b.height, o.cls, o.addr, spentOnChain t.id i⟩ else none
        | none => none
      else none)))

-- ------------------------------------------------------------------ observations (GetUtxo item)

/-- what GetUtxo shows of one coin: the fields the harness compares (tx:idx:amt:height:maturity:confs@addr) -/
structure CoinObs where
  tx : TxId
  idx : Nat
  amt : Nat
  height : Nat
  maturity : Nat
  confs : Nat
  addr : Addr
  deriving DecidableEq, Repr, Inhabited

/-- the model's GetUtxo item: read off the unspent index ⋈ credit table at synced height `sync` -/
def obsM (sync : Nat) (c : Coin) : CoinObs :=
  ⟨c.tx, c.idx, c.cred.amt, c.blk.height, c.cred.maturity, (confs sync c.blk.height) % 2^32, c.cred.sh⟩

/-- the spec's GetUtxo item for a coin of the ledger of a chain with tip height `tip` -/
def obsS (p : Params) (tip : Nat) (c : SCoin) : CoinObs :=
  ⟨c.tx, c.idx, c.amt, c.height, (if c.cb then max p.cbMaturity c.cls.maturity else c.cls.maturity),
   tip + 1 - c.height, c.addr⟩

/-- the coins GetUtxo must list for wallet `w` (zero-value outputs are not listed) -/
def utxosOf (own : Own) (chain : List Block) (w : Wid) : List SCoin :=
  (coinsOfWallet (ledgerOf own chain) w).filter (fun c => decide (c.amt ≠ 0))

end MW.Spec.Chain
