/-
  SPEC for C06 / C18: the relations between the persistent store and the volatile state that the
  wallet must maintain, in the simplest terms.
-/
import MW.Model.Persist
namespace MW.Spec.Persist
open MW MW.Model.Ledger MW.Model.Persist

/-- cache coherence of the keystore cache: the same wallets are cached as are stored; per wallet
    the cached address list is the stored one, possibly followed by the NEXT address the store would
    issue (a not-yet-issued address left by a failed NewAddress); the cached next index is the
    stored one or one ahead. -/
def KeyCoh (env : Env) (P : PStore) (V : PVol) : Prop :=
  (∀ w, (AMap.get V.keys w).isSome = (AMap.get P.ks w).isSome) ∧
  (∀ w r c, AMap.get P.ks w = some r → AMap.get V.keys w = some c →
     (c.addrs = r.addrs ∨ c.addrs = insertAddr r.addrs (r.next, env.derive w r.next)) ∧
     (c.next = r.next ∨ c.next = r.next + 1))

/-- the volatile tip copy is the stored synced-to block -/
def BestInv (P : PStore) (V : PVol) : Prop :=
  V.led.best.height = P.led.syncedTo ∧ AMap.get P.led.sync P.led.syncedTo = some V.led.best.hash

/-- the coherence relation of C18 -/
def Coh (env : Env) (P : PStore) (V : PVol) : Prop := KeyCoh env P V ∧ BestInv P V

/-- persistent invariant, keystore part: the issued indexes of every wallet are exactly
    0, 1, …, next−1 in order — no skipped and no duplicated address index -/
def KsSeq (P : PStore) : Prop :=
  ∀ w r, AMap.get P.ks w = some r → r.addrs.map (·.1) = List.range r.next

/-- persistent invariant, follower part: the synced-to height has its hash in the height table -/
def SyncWf (P : PStore) : Prop := (AMap.get P.led.sync P.led.syncedTo).isSome = true

/-- what a crash may change in the volatile state without any effect on later stores: everything
    except the tip copy and the keystore cache -/
def VEq (V1 V2 : PVol) : Prop := V1.led.best = V2.led.best ∧ V1.keys = V2.keys

/-- the volatile state after a sequence of faulted attempts of the same operation (one fault index
    per attempt; the store does not change while they fail) -/
def attempts (o : Op) (js : List Nat) (P : PStore) (V : PVol) : PVol :=
  js.foldl (fun V j => (o.run (some j) P V).V) V

/-- every one of the attempts failed -/
def allFail (o : Op) : List Nat → PStore → PVol → Bool
  | [], _, _ => true
  | j :: js, P, V => !(o.run (some j) P V).ok && allFail o js P (o.run (some j) P V).V

-- ------------------------------------------------------------------ histories

/-- events of a history (unconfirmed transactions are treated separately: their duplicate check reads
    the volatile pending-id set) -/
inductive Ev
  | node (nd : Node)                    -- the node's chain / block store changes
  | block (b : Block)                   -- a tip notification is processed
  | create (w : Wid)                    -- CreateWallet
  | newAddr (w : Wid) (stk : Bool)      -- UseWallet w; NewAddress
  | removeMark (w : Wid)                -- RemoveWallet (marking + task)
  | crash                               -- process death and restart (no-op in the uninterrupted run)

structure Sys where
  env : Env
  P : PStore
  V : PVol

/-- one fault-free step; `crashing = false` is the run that never stops -/
def stepEv (n : Nat) (crashing : Bool) (s : Sys) : Ev → Sys
  | .node nd => { s with env := { s.env with node := nd } }
  | .block b => let r := (opBlock s.env n b).run none s.P s.V; { s with P := r.P, V := r.V }
  | .create w => let r := (opCreate n n n w).run none s.P s.V; { s with P := r.P, V := r.V }
  | .newAddr w stk =>
    match useWallet s.P s.V w with
    | none => s
    | some v => let r := (opNewAddr s.env n n n stk).run none s.P v; { s with P := r.P, V := r.V }
  | .removeMark w => let r := (opRemoveMark n w).run none s.P s.V; { s with P := r.P, V := r.V }
  | .crash => if crashing then (let r := Model.Persist.crash s.env n s.P; { s with P := r.P, V := r.V }) else s

def runEvs (n : Nat) (crashing : Bool) (s : Sys) (evs : List Ev) : Sys := evs.foldl (stepEv n crashing) s

/-- the relation between the crashing run and the run that never stops: same environment, same
    store, volatile states equal in everything a later store can depend on -/
def CrashRel (s1 s2 : Sys) : Prop := s1.env = s2.env ∧ s1.P = s2.P ∧ VEq s1.V s2.V

/-- the blocks Start's catch-up loop will process: heights cur, cur+1, … of the node's best chain -/
def pendingBlocks (env : Env) : Nat → Nat → List Block
  | 0, _ => []
  | fuel + 1, cur =>
    if cur > env.node.tipHeight then [] else
    match env.node.blockAt cur with
    | none => []
    | some b => b :: pendingBlocks env fuel (cur + 1)

/-- executable versions for the drivers (checked on every generated history) -/
def bestInvB (P : PStore) (V : PVol) : Bool :=
  V.led.best.height == P.led.syncedTo && AMap.get P.led.sync P.led.syncedTo == some V.led.best.hash

/-- the side condition of the partial crash theorem at a crash point: tip copy = synced-to, key cache
    exact, follower caught up with the node -/
def quiet (s : Sys) : Bool :=
  bestInvB s.P s.V && decide (s.V.keys = s.P.ks) && decide (s.env.node.tipHeight = s.P.led.syncedTo)

/-- every crash of the history happens at a quiet point of the crashing run -/
def crashesQuiet (n : Nat) : Sys → List Ev → Bool
  | _, [] => true
  | s, .crash :: es => quiet s && crashesQuiet n (stepEv n true s .crash) es
  | s, e :: es => crashesQuiet n (stepEv n true s e) es

def ksSeqB (P : PStore) : Bool :=
  P.ks.all (fun e => e.2.addrs.map (·.1) == List.range e.2.next)

end MW.Spec.Persist
