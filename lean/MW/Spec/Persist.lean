/-
  SPEC for C06 / C18: the relations between the persistent store and the volatile state that the
  wallet must maintain, in the simplest terms.
-/
import MW.Model.Persist
namespace MW.Spec.Persist
open MW MW.Model.Ledger MW.Model.Persist

/-- cache coherence of the keystore cache: the same wallets are cached as are stored; per wallet
    the cached address list is the stored one, possibly followed by the NEXT address the store would
    issue (a not-yet-issued address left by a failed NewAddress); the cached next index is the
    stored one or one ahead. -/
def KeyCoh (env : Env) (P : PStore) (V : PVol) : Prop :=
  (∀ w, (AMap.get V.keys w).isSome = (AMap.get P.ks w).isSome) ∧
  (∀ w r c, AMap.get P.ks w = some r → AMap.get V.keys w = some c →
     (c.addrs = r.addrs ∨ c.addrs = insertAddr r.addrs (r.next, env.derive w r.next)) ∧
     (c.next = r.next ∨ c.next = r.next + 1))

/-- the volatile tip copy is the stored synced-to block -/
def BestInv (P : PStore) (V : PVol) : Prop :=
  V.led.best.height = P.led.syncedTo ∧ AMap.get P.led.sync P.led.syncedTo = some V.led.best.hash

/-- the coherence relation of C18 -/
def Coh (env : Env) (P : PStore) (V : PVol) : Prop := KeyCoh env P V ∧ BestInv P V

/-- persistent invariant, keystore part: the issued indexes of every wallet are exactly
    0, 1, …, next−1 in order — no skipped and no duplicated address index -/
def KsSeq (P : PStore) : Prop :=
  ∀ w r, AMap.get P.ks w = some r → r.addrs.map (·.1) = List.range r.next

/-- persistent invariant, follower part: the synced-to height has its hash in the height table -/
def SyncWf (P : PStore) : Prop := (AMap.get P.led.sync P.led.syncedTo).isSome = true

/-- what a crash may change in the volatile state without any effect on later stores: everything
    except the tip copy and the keystore cache -/
def VEq (V1 V2 : PVol) : Prop := V1.led.best = V2.led.best ∧ V1.keys = V2.keys

/-- the volatile state after a sequence of faulted attempts of the same operation (one fault index
    per attempt; the store does not change while they fail) -/
def attempts (o : Op) (js : List Nat) (P : PStore) (V : PVol) : PVol :=
  js.foldl (fun V j => (o.run (some j) P V).V) V

/-- every one of the attempts failed -/
def allFail (o : Op) : List Nat → PStore → PVol → Bool
  | [], _, _ => true
  | j :: js, P, V => !(o.run (some j) P V).ok && allFail o js P (o.run (some j) P V).V

/-- executable versions for the drivers (checked on every generated history) -/
def bestInvB (P : PStore) (V : PVol) : Bool :=
  V.led.best.height == P.led.syncedTo && AMap.get P.led.sync P.led.syncedTo == some V.led.best.hash

def ksSeqB (P : PStore) : Bool :=
  P.ks.all (fun e => e.2.addrs.map (·.1) == List.range e.2.next)

end MW.Spec.Persist
