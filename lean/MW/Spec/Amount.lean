/-
  SPEC for C15: what "unsigned plain decimal numeral with ≤ 8 significant fractional digits
  within the supply limit" means, and what the shortest plain decimal of m / 10^8 is.
  No splitting, trimming, int64 or big integers here.
-/
import MW.Base.Dec
import MW.Gen.Amount
namespace MW.Spec.Amount
open MW MW.Dec

def maxAmount : Nat := MW.Gen.Amount.maxMass * MW.Gen.Amount.maxwellPerMass

/-- value × 10^8 of the numeral `ip . fp` when fp has at most 8 digits after dropping trailing zeros -/
def value (ip fp : Bytes) : Option Nat :=
  let fp' := trimRight0 fp
  if fp'.length > 8 then none
  else
    let v := ofDigits ip * 10^8 + ofDigits fp' * 10^(8 - fp'.length)
    if v ≤ maxAmount then some v else none

/-- accepted numerals: `i`, `i.f`, `i.`, `.f` (digit strings, at least one digit overall) -/
def parse (s : Bytes) : Option Nat :=
  let ip := s.takeWhile isDigit
  match s.dropWhile isDigit with
  | [] => if ip.isEmpty then none else value ip []
  | c :: fp =>
    if c = dot && fp.all isDigit && !(ip.isEmpty && fp.isEmpty) then value ip fp else none

/-- eight fractional digits of r < 10^8, zero padded on the left -/
def pad8 (r : Nat) : Bytes := let d := render r; zeros (8 - d.length) ++ d

/-- the shortest plain decimal of m / 10^8 -/
def format (m : Nat) : Bytes :=
  let q := m / 10^8
  let r := m % 10^8
  if r = 0 then render q else render q ++ [dot] ++ trimRight0 (pad8 r)

end MW.Spec.Amount
