/-
  SPEC for the liveness half of C20: infinite executions of a labelled transition system, weak / strong
  fairness of a label, leads-to; and the history observers ("ghost" state) of the goroutine protocol model
  MW.Model.Proto in which "the k-th announced block is processed" and "task k finishes" are stated.

  Nothing here restricts the model: an execution is ANY infinite sequence of states and labels of
  `MW.Model.Proto.fire` (stuttering allowed, so finite behaviours are covered); the observers are pure
  functions of the labels taken so far.
-/
import MW.Model.Proto
namespace MW.Spec.Live

-- ------------------------------------------------------------------ generic: executions, fairness

section generic
universe u v
variable {X : Type u} {L : Type v}

/-- an infinite execution: at every instant either a stutter (`none`) or one labelled step -/
def IsExec (step : L → X → Option X) (xs : Nat → X) (ls : Nat → Option L) : Prop :=
  ∀ i, match ls i with
    | none => xs (i + 1) = xs i
    | some l => step l (xs i) = some (xs (i + 1))

def En (step : L → X → Option X) (l : L) (x : X) : Prop := (step l x).isSome = true

/-- weak fairness of `l`: if `l` is enabled at every instant from `i` on, it is taken at some instant ≥ i -/
def WF (step : L → X → Option X) (xs : Nat → X) (ls : Nat → Option L) (l : L) : Prop :=
  ∀ i, (∀ j, i ≤ j → En step l (xs j)) → ∃ j, i ≤ j ∧ ls j = some l

/-- strong fairness of `l`: if `l` is enabled again and again (infinitely often) after `i`, it is taken at
    some instant ≥ i -/
def SF (step : L → X → Option X) (xs : Nat → X) (ls : Nat → Option L) (l : L) : Prop :=
  ∀ i, (∀ j, i ≤ j → ∃ k, j ≤ k ∧ En step l (xs k)) → ∃ j, i ≤ j ∧ ls j = some l

theorem SF.wf {step : L → X → Option X} {xs : Nat → X} {ls : Nat → Option L} {l : L}
    (h : SF step xs ls l) : WF step xs ls l :=
  fun i hen => h i (fun j hj => ⟨j, Nat.le_refl j, hen j hj⟩)

/-- whenever `P` holds, `Q` holds then or later -/
def LeadsTo (xs : Nat → X) (P Q : X → Prop) : Prop := ∀ i, P (xs i) → ∃ j, i ≤ j ∧ Q (xs j)

end generic

-- ------------------------------------------------------------------ the protocol model with its history observers

open MW.Model.Proto

/-- History observers. Tasks are numbered in the order in which they were accepted (the tasks re-queued by
    `initTaskChan` first); the task queue is the FIFO list of the numbers (Go channel order), `hand` the task the
    worker is running. -/
structure G where
  q : List Nat := []             -- taskChan.C, head = next to be received
  hand : Option Nat := none      -- the task the worker has received and not yet finished / put back
  next : Nat := 0                -- number of tasks accepted so far
  fin : List Nat := []           -- finished tasks
  ab : List Nat := []            -- tasks aborted by the stop request (they stay persisted: next start)
  lost : List Nat := []          -- tasks dropped at a full queue (never happens: `lost_nil`)
  used : Nat → Nat := fun _ => 0 -- per task: database rounds that ended "not finished" (more / error-retry)
  annB : Nat := 0                -- blocks announced so far (queued at start + OnBlockConnected)
  procB : Nat := 0               -- blocks whose processConnectedBlock has returned
  annT : Nat := 0                -- same for unconfirmed transactions
  procT : Nat := 0

def bump (u : Nat → Nat) : Option Nat → Nat → Nat
  | some k => fun x => if x = k then u x + 1 else u x
  | none => u

/-- observer update for one step with label `l` taken from protocol state `s` -/
def gstep (l : Label) (s : St) (g : G) : G :=
  match l with
  | .wTakeImp | .wTakeRem => { g with hand := g.q.head?, q := g.q.tail }
  | .wTakeSkip => { g with fin := g.q.head?.toList ++ g.fin, q := g.q.tail }
  | .wPush => { g with q := g.q ++ g.hand.toList, hand := none }
  | .wPushDrop => { g with lost := g.hand.toList ++ g.lost, hand := none }
  | .res | .wResQuit =>
    if resNext s.wp = some .top then { g with fin := g.hand.toList ++ g.fin, hand := none } else g
  | .wCommitI .more | .wCommitI .errRetry | .wCommitR .more | .wCommitR .err =>
    { g with used := bump g.used g.hand }
  | .wSusQuit | .wChkQuit => { g with ab := g.hand.toList ++ g.ab, hand := none }
  | .aPush => { g with q := g.q ++ [g.next], next := g.next + 1 }
  | .aPushDrop => { g with lost := g.next :: g.lost, next := g.next + 1 }
  | .eBlk => { g with annB := g.annB + 1 }
  | .eTx => { g with annT := g.annT + 1 }
  | .hDoneBlk => { g with procB := g.procB + 1 }
  | .hDoneTx => { g with procT := g.procT + 1 }
  | _ => g

/-- observers at the start: the queued tasks are numbered 0 … nt-1, the queued notifications count as announced -/
def ginit (s : St) : G :=
  { q := List.range s.nt, next := s.nt, annB := s.nb, annT := s.ntx }

structure XSt where
  s : St
  g : G

/-- the transition system with observers: same guards as `fire`, the observers never block a step -/
def xstep (c : Cfg) (l : Label) (x : XSt) : Option XSt :=
  match fire .fixed c l x.s with
  | some s' => some ⟨s', gstep l x.s x.g⟩
  | none => none

/-- an execution of the protocol model from an initial state (fixed skeleton) -/
structure Exec (c : Cfg) (xs : Nat → XSt) (ls : Nat → Option Label) : Prop where
  init : Init c (xs 0).s
  ginit : (xs 0).g = ginit (xs 0).s
  step : IsExec (xstep c) xs ls

/-- the fairness the liveness theorems need. Weak fairness of every step of follower, worker and stop
    sequence (a goroutine that can move eventually moves; `wTakeImp` / `wCommitI .fin` … stand for "the
    receive / the database transaction happens", whatever its outcome: taking ANY label of the same program
    point disables the others); strong fairness of the three data branches of the follower's outer select
    (Go's select picks uniformly at random among the ready cases: a case that is ready again and again is
    chosen with probability 1). -/
structure Fair (c : Cfg) (xs : Nat → XSt) (ls : Nat → Option Label) : Prop where
  weak : ∀ l : Label, l.core = true → WF (xstep c) xs ls l
  sus : SF (xstep c) xs ls .sus
  blk : SF (xstep c) xs ls .hTakeBlk
  tx : SF (xstep c) xs ls .hTakeTx


-- ------------------------------------------------------------------ the same, for plain runs of `fire`

/-- a run of the protocol model itself: states of `MW.Model.Proto.fire` (fixed skeleton) and the labels taken -/
structure IsRun (c : Cfg) (run : Nat → St) (ls : Nat → Option Label) : Prop where
  init : Init c (run 0)
  step : IsExec (fire .fixed c) run ls

/-- the observers along a run: a function of the labels taken so far -/
def obs (run : Nat → St) (ls : Nat → Option Label) : Nat → G
  | 0 => ginit (run 0)
  | i + 1 =>
    match ls i with
    | none => obs run ls i
    | some l => gstep l (run i) (obs run ls i)

/-- `Fair` for a plain run -/
structure FairRun (c : Cfg) (run : Nat → St) (ls : Nat → Option Label) : Prop where
  weak : ∀ l : Label, l.core = true → WF (fire .fixed c) run ls l
  sus : SF (fire .fixed c) run ls .sus
  blk : SF (fire .fixed c) run ls .hTakeBlk
  tx : SF (fire .fixed c) run ls .hTakeTx

/-- task `k` is in the queue or in the worker's hands -/
def Pend (k : Nat) (g : G) : Prop := g.hand = some k ∨ k ∈ g.q

end MW.Spec.Live
