import MW.Props.C16
