import MW.Props.C16
#print axioms MW.Props.C16.classify_agree
#print axioms MW.Props.C16.classify_agree_library
#print axioms MW.Props.C16.classify_agree_api
#print axioms MW.Props.C16.unsupported_iff
#print axioms MW.Props.C16.unsupported_iff_library
#print axioms MW.Props.C16.builders_roundtrip
#print axioms MW.Props.C16.builders_roundtrip_wsh
#print axioms MW.Props.C16.builders_roundtrip_staking
#print axioms MW.Props.C16.builders_roundtrip_binding
#print axioms MW.Props.C16.parse_total
#print axioms MW.Props.C16.build_total
#print axioms MW.Lemmas.ScriptTok.opLenTable_ok
