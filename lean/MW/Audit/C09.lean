import MW.Props.C09
#print axioms MW.Props.C09.sbu_iff
#print axioms MW.Props.C09.putPendIn_flags
