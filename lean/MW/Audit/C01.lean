import MW.Props.C01
#print axioms MW.Props.C01.confs_of_le
#print axioms MW.Props.C01.maturity_iff_coinbase
#print axioms MW.Props.C01.maturity_iff_staking
#print axioms MW.Props.C01.maturity_iff_plain
#print axioms MW.Props.C01.ledgerOf_snoc
#print axioms MW.Props.C01.confs_wraps
