import MW.Props.C10
#print axioms MW.Props.C10.staking_maturity
#print axioms MW.Props.C10.binding_new_maturity
#print axioms MW.Props.C10.deposit_not_standard
