import MW.Props.C14
#print axioms MW.Props.C14.gen_shapes_expected
