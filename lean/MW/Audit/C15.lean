import MW.Props.C15
#print axioms MW.Props.C15.format_rejects
