import MW.Props.C11
#print axioms MW.Props.C11.bytesPrefix_spec
