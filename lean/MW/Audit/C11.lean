import MW.Props.C11
#print axioms MW.Props.C11.innerKey_inj
#print axioms MW.Props.C11.prefix_isolated
#print axioms MW.Props.C11.index_disjoint
#print axioms MW.Props.C11.bytesPrefix_spec
#print axioms MW.Props.C11.bytesPrefix_unbounded_iff
#print axioms MW.Props.C11.get_ryw
#print axioms MW.Props.C11.getByPrefix_ryw
#print axioms MW.Props.C11.bucketNames_ryw
#print axioms MW.Props.C11.bucketExists_ryw
#print axioms MW.Props.C11.commit_atomic
#print axioms MW.Props.C11.iter_sorted
#print axioms MW.Props.C11.kv_refines
#print axioms MW.Props.C11.kv_step_refines
#print axioms MW.Props.C11.reader_isolated
#print axioms MW.Props.C11.deleteBucket_total
#print axioms MW.Props.C11.iter_write_shape
