/-
  Numbers ↔ byte strings ↔ bit strings, as used by the BIP-39 model and spec (C13).  Core only.

  * `ofBytesBE`  = `new(big.Int).SetBytes(b)`            (big-endian, any length)
  * `toBytesBE`  = `(*big.Int).Bytes()`                  (MINIMAL big-endian: no leading zero byte, 0 ↦ [])
  * `padLeft`    = `padByteSlice` of keystore/mnemonic.go (left-pad with zeros, never truncates)
  * bits are most-significant first (`List Bool`), as in the BIP-39 text.
-/
import MW.Base.Bytes
namespace MW
namespace B39

/-- `big.Int.SetBytes`: big-endian value of a byte string -/
def ofBytesBE (bs : Bytes) : Nat := bs.foldl (fun a b => a * 256 + b.toNat) 0

/-- `big.Int.Bytes`: minimal big-endian byte string (drops leading zero bytes; 0 ↦ empty) -/
def toBytesBE (n : Nat) : Bytes :=
  if _h : n = 0 then [] else toBytesBE (n / 256) ++ [UInt8.ofNat (n % 256)]
decreasing_by omega

/-- `padByteSlice(slice, length)`: left-pad with zero bytes up to `length`; longer input unchanged -/
def padLeft (bs : Bytes) (length : Nat) : Bytes :=
  if length ≤ bs.length then bs else List.replicate (length - bs.length) (0 : UInt8) ++ bs

/-- the 8 bits of a byte, most significant first -/
def bitsOfByte (b : UInt8) : List Bool :=
  [b.toNat.testBit 7, b.toNat.testBit 6, b.toNat.testBit 5, b.toNat.testBit 4,
   b.toNat.testBit 3, b.toNat.testBit 2, b.toNat.testBit 1, b.toNat.testBit 0]

/-- the bit string of a byte string -/
def bitsOfBytes (bs : Bytes) : List Bool := bs.flatMap bitsOfByte

/-- value of a bit string (most significant first) -/
def bitsToNat (bs : List Bool) : Nat := bs.foldl (fun a b => 2 * a + b.toNat) 0

/-- the `w` low bits of `n`, most significant first -/
def natToBits : Nat → Nat → List Bool
  | 0, _ => []
  | w + 1, n => natToBits w (n / 2) ++ [n.testBit 0]

/-- pack a bit string (length a multiple of 8; a shorter tail is dropped) into bytes -/
def bytesOfBits : List Bool → Bytes
  | b7 :: b6 :: b5 :: b4 :: b3 :: b2 :: b1 :: b0 :: rest =>
      UInt8.ofNat (bitsToNat [b7, b6, b5, b4, b3, b2, b1, b0]) :: bytesOfBits rest
  | _ => []

/-- the bytes of an ASCII string (for ASCII this is its UTF-8 encoding = the Go string's bytes).
    `String.toUTF8` does not reduce in the kernel, `toList` does; the word list is proved ASCII. -/
def strBytes (s : String) : Bytes := s.toList.map (fun c => UInt8.ofNat c.toNat)

end B39
end MW
