/-
  Decimal digit strings over bytes: Go's strconv.Itoa / big.Int.Text(10) / ParseInt on
  digit-only input, strings.TrimLeft/TrimRight/Split for a single cut byte.  Core only.
-/
import MW.Base.Bytes
namespace MW
namespace Dec

def c0 : UInt8 := 48
def dot : UInt8 := 46

def isDigit (b : UInt8) : Bool := 48 ≤ b.toNat && b.toNat ≤ 57
def dval (b : UInt8) : Nat := b.toNat - 48
def dchr (n : Nat) : UInt8 := UInt8.ofNat (48 + n)

/-- value of a digit string, most significant first (Horner) -/
def ofDigitsAux (acc : Nat) : Bytes → Nat
  | [] => acc
  | b :: bs => ofDigitsAux (acc * 10 + dval b) bs
def ofDigits (bs : Bytes) : Nat := ofDigitsAux 0 bs

/-- shortest decimal rendering, most significant first: strconv.Itoa / big.Int.Text(10) for n ≥ 0 -/
def render (n : Nat) : Bytes :=
  if h : n < 10 then [dchr n] else render (n / 10) ++ [dchr (n % 10)]
decreasing_by omega

def trimLeft0 : Bytes → Bytes
  | [] => []
  | b :: bs => if b = c0 then trimLeft0 bs else b :: bs

def trimRight0 (bs : Bytes) : Bytes := (trimLeft0 bs.reverse).reverse

/-- strings.Split(s, ".") -/
def splitDot : Bytes → List Bytes
  | [] => [[]]
  | b :: bs =>
    match splitDot bs with
    | [] => [[]]            -- unreachable: splitDot never returns []
    | p :: ps => if b = dot then [] :: p :: ps else (b :: p) :: ps

def zeros (n : Nat) : Bytes := List.replicate n c0

end Dec
end MW
