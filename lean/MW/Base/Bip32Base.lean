/-
  Shared vocabulary of the BIP-32 model and spec (C14).  Core Lean only.

  * `BE`       : big-endian Nat <-> bytes  (math/big `SetBytes` / `Bytes`, fixed-width `serN`)
  * `GoSlice`  : Go `copy`, sub-slices, the loop of `paddedAppend`
  * `Bip32Err` : the error classes shared by model, spec and harness
  * `CurveOps`, `HashOps`, `NetOps` : the cryptography and the network table as PARAMETERS
    (operations only; their laws are `MW.Lemmas.Bip32Laws`), so that the driver can instantiate
    them with look-up tables of facts supplied by the Go harness.
-/
import MW.Base.Bytes
namespace MW

/-- ASCII text as bytes, from a character list (a `String` literal does not reduce in the kernel) -/
def ascii (l : List Char) : Bytes := l.map (fun c => UInt8.ofNat c.toNat)

namespace BE

/-- `new(big.Int).SetBytes(b)` / `parse256`: big-endian value of a byte string. -/
def ofBytes (bs : Bytes) : Nat := bs.foldl (fun a b => a * 256 + b.toNat) 0

/-- minimal big-endian bytes, least significant first into the accumulator.  Structural in
    `fuel` (so that the kernel can evaluate it); `toBytes` passes `fuel = n`, which is enough
    because `n / 256 < n`. -/
def toBytesAux : Nat → Nat → Bytes → Bytes
  | 0, _, acc => acc
  | f + 1, n, acc => if n = 0 then acc else toBytesAux f (n / 256) (UInt8.ofNat (n % 256) :: acc)

/-- `big.Int.Bytes()`: minimal big-endian bytes (no leading zero byte; `0 ↦ []`). -/
def toBytes (n : Nat) : Bytes := toBytesAux n n []

/-- `w` bytes, big-endian, of `n mod 256^w`: `ser32` (`binary.BigEndian.PutUint32`) and `ser256`. -/
def fixed : Nat → Nat → Bytes
  | 0, _ => []
  | w + 1, n => fixed w (n / 256) ++ [UInt8.ofNat (n % 256)]

end BE

namespace GoSlice

def zeros (n : Nat) : Bytes := List.replicate n 0

/-- `copy(dst[off:], src)` as a function of the destination's contents (`off ≤ len dst`):
    `min(len src, len dst - off)` bytes are overwritten, everything else is kept. -/
def copyAt (dst : Bytes) (off : Nat) (src : Bytes) : Bytes :=
  let n := min src.length (dst.length - off)
  dst.take off ++ src.take n ++ dst.drop (off + n)

/-- `s[a:b]` -/
def slice (s : Bytes) (a b : Nat) : Bytes := (s.drop a).take (b - a)

/-- `paddedAppend(size, dst, src)`: the loop appends `size - len src` zero bytes (none if that is
    negative), then `src`. -/
def paddedAppend (size : Nat) (dst src : Bytes) : Bytes :=
  dst ++ zeros (size - src.length) ++ src

end GoSlice

inductive Bip32Err
  | seedLen | unusable | invalidChild | hardFromPub | depth | len | checksum | point | version
  deriving DecidableEq, Repr

def Bip32Err.tok : Bip32Err → String
  | .seedLen => "seedlen" | .unusable => "unusable" | .invalidChild => "invalid-child"
  | .hardFromPub => "hard-from-pub" | .depth => "depth" | .len => "len" | .checksum => "checksum"
  | .point => "point" | .version => "version"

/-- secp256k1 as a parameter: operations only. -/
structure CurveOps where
  /-- curve points (incl. the point at infinity) -/
  Pt : Type
  /-- group order -/
  n : Nat
  /-- `ScalarBaseMult` -/
  mulG : Nat → Pt
  /-- `Add` -/
  add : Pt → Pt → Pt
  /-- `SerializeCompressed` (serP) -/
  enc : Pt → Bytes
  /-- `btcec.ParsePubKey` -/
  parse : Bytes → Option Pt
  /-- the test `x.Sign() == 0 || y.Sign() == 0` the code applies to `Il·G` (Go's affine `(0,0)` is infinity) -/
  xyZero : Pt → Bool
  /-- the point at infinity (BIP-32: "Ki is the point at infinity") -/
  isInf : Pt → Bool

structure HashOps where
  hmac512 : Bytes → Bytes → Bytes     -- key, data
  sha256 : Bytes → Bytes
  ripemd160 : Bytes → Bytes

namespace HashOps
/-- `massutil.Hash160` -/
def hash160 (H : HashOps) (b : Bytes) : Bytes := H.ripemd160 (H.sha256 b)
/-- `wire.DoubleHashB` -/
def dsha (H : HashOps) (b : Bytes) : Bytes := H.sha256 (H.sha256 b)
end HashOps

/-- `config.Params` HD version bytes and the registered private→public map
    (`config.HDPrivateKeyToPublicKeyID`). -/
structure NetOps where
  privVersion : Bytes
  pubVersion : Bytes → Option Bytes

end MW
