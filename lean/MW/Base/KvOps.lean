/-
  The operation language and the observable results shared by the C11 model state machine
  (MW.Model.KVSys), the specification (MW.Spec.KV) and the line-protocol driver (MW.Drv.Kv).
  Core Lean only.
-/
import MW.Base.KvBytes
namespace MW
namespace KV

/-- the error values of masswallet/db/db.go that the driver can return -/
inductive Err
  | exist | invalidName | illegalKey | illegalValue | notSupported | illegalPath | writeNotAllowed
  | fuel     -- the model's recursion budget ran out (proved impossible)
  | released -- goleveldb's ErrSnapshotReleased: a read through a read transaction after its Rollback
  deriving DecidableEq, Repr

/-- a bucket path: the names from the top-level bucket down -/
abbrev Path := List Bytes

/-- transaction slot addressed by a data operation -/
inductive Slot | w | r
  deriving DecidableEq, Repr

inductive IterStep
  | next                 -- it.Next()
  | seek (k : Bytes)     -- it.Seek(k)
  | all                  -- for it.Next() { }
  deriving DecidableEq, Repr

inductive Op
  | beginW | beginR | commit | rollback | endR | reopen | probe
  | raw                  -- dump of the underlying store (model-level observation of the key encoding)
  | create (s : Slot) (p : Path)
  | delb (s : Slot) (p : Path)
  | has (s : Slot) (p : Path)
  | put (s : Slot) (p : Path) (k v : Bytes)
  | get (s : Slot) (p : Path) (k : Bytes)
  | del (s : Slot) (p : Path) (k : Bytes)
  | clear (s : Slot) (p : Path)
  | pfx (s : Slot) (p : Path) (k : Bytes)
  | names (s : Slot) (p : Path)
  | iter (s : Slot) (p : Path) (start limit : Bytes) (script : List IterStep)
  deriving DecidableEq, Repr

/-- what one operation lets the caller observe -/
inductive Obs
  | ok | nobucket | notx | badop | blocked | acquired
  | err (e : Err)
  | bool (b : Bool)
  | val (v : Option Bytes)
  | entries (es : List (Bytes × Bytes))
  | names (ns : List Bytes)
  | steps (ss : List (Bool × Option Bytes × Option Bytes))
  | unspecified          -- the specification makes no claim (iterators inside a write transaction)
  | outOfContract        -- the caller left the contract (wrote through the handle of a bucket that no
                         -- longer exists in its transaction): nothing is claimed from here on
  deriving DecidableEq, Repr

/-- The extended operation language (round 4): bucket handles and BucketMeta objects the caller
    KEEPS across operations (registers `h`, `m`), FetchBucket with its per-transaction cache, and
    the read transaction handle (and its bucket handles) used after its Rollback.
    Paths inside `via` / `deadVia` are RELATIVE to the kept handle (`[]` = the handle itself). -/
inductive OpX
  | base (op : Op)                          -- every operation re-navigates from the transaction (as before)
  | getMeta (s : Slot) (m : Nat) (p : Path)    -- m := <navigate p>.GetBucketMeta()
  | fetch (s : Slot) (h m : Nat)            -- h := tx.FetchBucket(meta m)   (nil clears h)
  | keep (s : Slot) (h : Nat) (p : Path)    -- h := tx.TopLevelBucket(p₀).Bucket(p₁)…   (nil clears h)
  | via (h : Nat) (op : Op)                 -- the data operation through kept handle h of the slot of `op`
  | dead (op : Op)                          -- … through the read transaction handle kept after its Rollback
  | deadVia (h : Nat) (op : Op)             -- … through bucket handle h of that ended read transaction
  deriving DecidableEq, Repr

/-- insertion into a list ascending by `lt` -/
def insertBy {α : Type} (lt : α → α → Bool) (x : α) : List α → List α
  | [] => [x]
  | y :: ys => if lt x y then x :: y :: ys else y :: insertBy lt x ys

def sortBy {α : Type} (lt : α → α → Bool) (xs : List α) : List α := xs.foldr (insertBy lt) []

/-- Results whose order comes from ranging over a Go map (prefix reads and bucket listings inside
    a write transaction) are compared as sorted lists: the harness sorts them the same way. -/
def Obs.canon : Obs → Obs
  | .entries es => .entries (sortBy (fun a b => blt a.1 b.1) es)
  | .names ns => .names (sortBy blt ns)
  | o => o

end KV
end MW
