/-
  Bytes, hex transport encoding (used only by the line protocol), small list helpers.
  Core Lean only (must link into the driver executable).
-/
namespace MW

abbrev Bytes := List UInt8

namespace Hex

def digit (n : Nat) : Char :=
  if n < 10 then Char.ofNat (48 + n) else Char.ofNat (87 + n)

def ofByte (b : UInt8) : List Char := [digit (b.toNat / 16), digit (b.toNat % 16)]

def encode (bs : Bytes) : String := String.ofList (bs.flatMap ofByte)

def val? (c : Char) : Option Nat :=
  if '0' ≤ c ∧ c ≤ '9' then some (c.toNat - 48)
  else if 'a' ≤ c ∧ c ≤ 'f' then some (c.toNat - 87)
  else if 'A' ≤ c ∧ c ≤ 'F' then some (c.toNat - 55)
  else none

def decodeChars : List Char → Option Bytes
  | [] => some []
  | [_] => none
  | a :: b :: rest => do
      let x ← val? a
      let y ← val? b
      let r ← decodeChars rest
      pure (UInt8.ofNat (x * 16 + y) :: r)

/-- "-" stands for the empty byte string on the wire (tokens are never empty). -/
def decode (s : String) : Option Bytes :=
  if s = "-" then some [] else decodeChars s.toList

def encodeTok (bs : Bytes) : String := if bs.isEmpty then "-" else encode bs

end Hex

def bytesOfString (s : String) : Bytes := s.toUTF8.toList
def stringOfAscii (bs : Bytes) : String := String.ofList (bs.map (fun b => Char.ofNat b.toNat))

end MW
