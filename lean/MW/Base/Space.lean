/-
  Go's white space at the byte level: the runes with `unicode.IsSpace` (Unicode White_Space) as their UTF-8
  byte sequences, and strings.TrimSpace = TrimRightFunc(TrimLeftFunc(s, IsSpace), IsSpace).
  A Go string is a byte string; utf8.DecodeRune(InString) yields a white-space rune exactly when the bytes at
  the cursor are the (unique, shortest-form) encoding of that rune — ill-formed and overlong sequences decode
  to RuneError, which is not white space — so trimming is "drop leading / trailing tokens of `toks`".
  Core only.
-/
import MW.Base.Bytes
namespace MW
namespace Space

/-- UTF-8 encodings of U+0009..U+000D, U+0020, U+0085, U+00A0, U+1680, U+2000..U+200A, U+2028, U+2029,
    U+202F, U+205F, U+3000 -/
def toks : List Bytes :=
  [[9], [10], [11], [12], [13], [32], [0xC2, 0x85], [0xC2, 0xA0], [0xE1, 0x9A, 0x80],
   [0xE2, 0x80, 0x80], [0xE2, 0x80, 0x81], [0xE2, 0x80, 0x82], [0xE2, 0x80, 0x83], [0xE2, 0x80, 0x84],
   [0xE2, 0x80, 0x85], [0xE2, 0x80, 0x86], [0xE2, 0x80, 0x87], [0xE2, 0x80, 0x88], [0xE2, 0x80, 0x89],
   [0xE2, 0x80, 0x8A], [0xE2, 0x80, 0xA8], [0xE2, 0x80, 0xA9], [0xE2, 0x80, 0xAF], [0xE2, 0x81, 0x9F],
   [0xE3, 0x80, 0x80]]

/-- the same sequences read from the end of the string (utf8.DecodeLastRune) -/
def rtoks : List Bytes := toks.map List.reverse

/-- drop leading tokens while there is one (fuel = an upper bound on the number of tokens) -/
def stripAux (ts : List Bytes) : Nat → Bytes → Bytes
  | 0, s => s
  | k + 1, s =>
    match ts.find? (fun t => t.isPrefixOf s) with
    | some t => stripAux ts k (s.drop t.length)
    | none => s

/-- strings.TrimLeftFunc(s, unicode.IsSpace) -/
def trimLeft (s : Bytes) : Bytes := stripAux toks s.length s
/-- strings.TrimRightFunc(s, unicode.IsSpace) -/
def trimRight (s : Bytes) : Bytes := (stripAux rtoks s.length s.reverse).reverse
/-- strings.TrimSpace -/
def trimSpace (s : Bytes) : Bytes := trimRight (trimLeft s)

/-- strings.TrimSuffix -/
def trimSuffix (s sfx : Bytes) : Bytes :=
  if sfx.isSuffixOf s then s.take (s.length - sfx.length) else s

end Space
end MW
