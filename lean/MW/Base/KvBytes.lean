/-
  Byte-string order (Go `bytes.Compare`), sorted association maps keyed by byte strings
  (the trusted picture of goleveldb and of Go maps with string keys), `strings.Split` /
  `strings.Join` for a one-byte separator.   Core Lean only.   Used by the C11 KV model.
-/
import MW.Base.Bytes
namespace MW
namespace KV

/-- `bytes.Compare(a, b) < 0` -/
def blt : Bytes → Bytes → Bool
  | [], [] => false
  | [], _ :: _ => true
  | _ :: _, [] => false
  | a :: as, b :: bs => if a < b then true else if b < a then false else blt as bs

/-- `bytes.Compare(a, b) <= 0` -/
def ble (a b : Bytes) : Bool := !blt b a

/-- map with byte-string keys; kept strictly ascending by `insert` -/
abbrev SMap (α : Type) := List (Bytes × α)

namespace SMap
variable {α : Type}

def get : SMap α → Bytes → Option α
  | [], _ => none
  | (k', v) :: r, k => if k = k' then some v else get r k

def insert : SMap α → Bytes → α → SMap α
  | [], k, v => [(k, v)]
  | (k', v') :: r, k, v =>
    if blt k k' then (k, v) :: (k', v') :: r
    else if k = k' then (k, v) :: r
    else (k', v') :: insert r k v

def erase (m : SMap α) (k : Bytes) : SMap α := m.filter (fun e => e.1 ≠ k)

def contains (m : SMap α) (k : Bytes) : Bool := (get m k).isSome

/-- entries with `start ≤ key` and (`limit = none` or `key < limit`), ascending: what a
    goleveldb iterator over `util.Range{Start, Limit}` walks through (a nil limit is unbounded) -/
def range (m : SMap α) (start : Bytes) (limit : Option Bytes) : SMap α :=
  m.filter (fun e => ble start e.1 && (match limit with | none => true | some l => blt e.1 l))

end SMap

/-- strings.Join(arr, sep) for a one-byte separator -/
def joinSep (sep : UInt8) : List Bytes → Bytes
  | [] => []
  | [a] => a
  | a :: b :: rest => a ++ sep :: joinSep sep (b :: rest)

/-- strings.Split(s, sep) for a one-byte separator (never returns []) -/
def splitSep (sep : UInt8) : Bytes → List Bytes
  | [] => [[]]
  | c :: cs =>
    match splitSep sep cs with
    | [] => [[]]            -- unreachable
    | p :: ps => if c = sep then [] :: p :: ps else (c :: p) :: ps

end KV
end MW
