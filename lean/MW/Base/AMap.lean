/-
  Association-list maps used for bucket contents at record level (keys with DecidableEq).
  `erase` is in simp-normal form (a filter); `put` = cons after erase, so keys stay distinct.
-/
namespace MW
namespace AMap

abbrev T (K V : Type) := List (K × V)

variable {K V : Type} [DecidableEq K]

def get (m : T K V) (k : K) : Option V := (m.find? (fun a => a.1 = k)).map (·.2)
def erase (m : T K V) (k : K) : T K V := m.filter (fun a => !decide (a.1 = k))
def put (m : T K V) (k : K) (v : V) : T K V := (k, v) :: erase m k
def has (m : T K V) (k : K) : Bool := (get m k).isSome
def keys (m : T K V) : List K := m.map (·.1)
def scan (m : T K V) (p : K → Bool) : T K V := m.filter (fun a => p a.1)
def eraseWhere (m : T K V) (p : K → Bool) : T K V := m.filter (fun a => !p a.1)

theorem get_nil (k : K) : get ([] : T K V) k = none := rfl

theorem get_cons (a : K × V) (m : T K V) (k : K) :
    get (a :: m) k = if a.1 = k then some a.2 else get m k := by
  unfold get
  by_cases h : a.1 = k <;> simp [List.find?, h]

theorem get_erase (m : T K V) (k k' : K) :
    get (erase m k) k' = if k = k' then none else get m k' := by
  induction m with
  | nil => simp [erase, get]
  | cons a m ih =>
    unfold erase at *
    by_cases ha : a.1 = k
    · simp only [List.filter, ha, decide_true, Bool.not_true]
      rw [ih, get_cons]
      by_cases hk : k = k'
      · simp [hk]
      · have : ¬ a.1 = k' := by rw [ha]; exact hk
        simp [hk, this]
    · simp only [List.filter, ha, decide_false, Bool.not_false]
      rw [get_cons, get_cons, ih]
      by_cases hk : k = k'
      · have : ¬ a.1 = k' := by rw [← hk]; exact ha
        simp [hk, this]
      · simp [hk]

theorem get_put (m : T K V) (k k' : K) (v : V) :
    get (put m k v) k' = if k = k' then some v else get m k' := by
  unfold put
  rw [get_cons, get_erase]
  by_cases h : k = k' <;> simp [h]

/-- extensional equality of maps -/
def Equiv (m m' : T K V) : Prop := ∀ k, get m k = get m' k

theorem Equiv.refl (m : T K V) : Equiv m m := fun _ => rfl
theorem Equiv.symm {m m' : T K V} (h : Equiv m m') : Equiv m' m := fun k => (h k).symm
theorem Equiv.trans {a b c : T K V} (h₁ : Equiv a b) (h₂ : Equiv b c) : Equiv a c :=
  fun k => (h₁ k).trans (h₂ k)

theorem erase_put_of_none (m : T K V) (k : K) (v : V) (h : get m k = none) :
    Equiv (erase (put m k v) k) m := by
  intro k'
  rw [get_erase, get_put]
  by_cases hk : k = k'
  · simp [hk, ← h]
  · simp [hk]

theorem put_erase_of_some (m : T K V) (k : K) (v : V) (h : get m k = some v) :
    Equiv (put (erase m k) k v) m := by
  intro k'
  rw [get_put, get_erase]
  by_cases hk : k = k'
  · simp [hk, ← h]
  · simp [hk]

end AMap
end MW
