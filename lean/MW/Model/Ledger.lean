/-
  MODEL of the wallet ledger at record level (DESIGN.md section 5, engine `ledger`).

  Go code followed (masswallet/…):
    ntfnshandler.go   processConnectedBlock, reorg, disconnectBlock, filterBlock, filterTx,
                      onRelevantBlockConnected, onRelevantTx
    txmgr/txstore.go  AddRelevantTx, insertMinedTx, insertMemPoolTx, updateMinedBalance,
                      removeDoubleSpends, removeConflict, Rollback
    txmgr/utxostore.go AddCredits, addUnminedCredits, insertUnminedInputs, deleteUnminedInputs,
                      deleteUnminedCredits, ScriptAddressBalance, ScriptAddressUnspents,
                      Get(Unmined)Staking/BindingHistoryDetail, ExistCreditFromTx
    txmgr/syncstore*.go putSyncedTo, resetSyncedTo, fetchSyncedBlock
    utils/txscript.go  ParsePkScript (class, maturity, address class)
    wallet.go          WalletBalance, GetUtxo, GetAddresses
  Buckets are association maps keyed by the decoded key tuples (byte layouts: MW.Gen.Layout).
  Hashes are symbolic ids; the node (chain database) is part of the environment.
-/
import MW.Base.AMap
namespace MW.Model.Ledger
open MW

abbrev TxId := String
abbrev Wid := String
abbrev Addr := String
abbrev BlkId := String

/-- output script classes as the wallet reads them (utils.ParsePkScript) -/
inductive Cls
  | std
  | stk (frozen : Nat)
  | bindOld (target : String)
  | bindNew (target : String)
  | raw                       -- no template matches: ErrUnsupportedScript, skipped
  deriving DecidableEq, Repr, Inhabited

structure Out where
  addr : Addr
  amt : Nat
  cls : Cls
  deriving DecidableEq, Repr, Inhabited

structure Inp where
  tx : TxId
  idx : Nat
  seq : Nat
  deriving DecidableEq, Repr, Inhabited

structure Tx where
  id : TxId
  cb : Bool
  ins : List Inp
  outs : List Out
  deriving DecidableEq, Repr, Inhabited

structure Block where
  id : BlkId
  prev : BlkId
  height : Nat
  txs : List Tx
  deriving Repr, Inhabited

structure BlockMeta where
  height : Nat
  hash : BlkId
  deriving DecidableEq, Repr, Inhabited

def Cls.isStaking : Cls → Bool | .stk _ => true | _ => false
def Cls.isBinding : Cls → Bool | .bindOld _ => true | .bindNew _ => true | _ => false

/-- consensus.MASSIP0002BindingLockedPeriod -/
def bindingLockedPeriod : Nat := 0xfffffffe

/-- PkScript.Maturity -/
def Cls.maturity : Cls → Nat
  | .stk f => f + 1
  | .bindNew _ => bindingLockedPeriod
  | _ => 0

/-- key of buckets `c` (credits) and `d` (debits): txhash ‖ height ‖ blockhash ‖ index -/
structure CredKey where
  tx : TxId
  blk : BlockMeta
  idx : Nat
  deriving DecidableEq, Repr, Inhabited

inductive UClass | standard | staking | binding
  deriving DecidableEq, Repr, Inhabited

structure Credit where
  amt : Nat
  spent : Bool
  change : Bool
  cls : UClass
  maturity : Nat
  sh : Addr
  spentBy : Option CredKey        -- debit key of the spender (value bytes 45..121)
  deriving DecidableEq, Repr, Inhabited

/-- game (staking/binding) history key in bucket `lg` -/
structure GameKey where
  wallet : Wid
  binding : Bool
  withdrawn : Bool
  tx : TxId
  height : Nat
  vout : Nat
  deriving DecidableEq, Repr, Inhabited

structure WStatus where
  synced : Option Nat      -- none = WalletSyncedDone (ready)
  removed : Bool
  deriving DecidableEq, Repr, Inhabited

/-- the persistent wallet store -/
structure Store where
  credits  : AMap.T CredKey Credit := []
  unspent  : AMap.T (Wid × TxId × Nat) BlockMeta := []
  debits   : AMap.T CredKey (Nat × CredKey) := []
  balance  : AMap.T Wid Nat := []
  txrecs   : AMap.T (TxId × BlockMeta) (BlkId × Nat) := []   -- value: block-file location of the tx
  blocks   : AMap.T Nat (BlkId × List TxId) := []
  sync     : AMap.T Nat BlkId := []
  syncedTo : Nat := 0
  status   : AMap.T Wid WStatus := []
  addrs    : AMap.T (Wid × Bool × Addr) Nat := []           -- (wallet, staking class?, address) ↦ first-use height
  game     : AMap.T GameKey Unit := []
  pending  : AMap.T TxId Tx := []
  pendIns  : AMap.T (TxId × Nat) (List TxId) := []
  pendCred : AMap.T (TxId × Nat) Credit := []
  pendGame : AMap.T (Wid × Bool × TxId × Nat) Unit := []
  deriving Repr, Inhabited

/-- the node's chain database as the wallet sees it through ifc.ChainFetcher -/
structure Node where
  chain : List Block := []                  -- best chain, genesis first (index = height)
  known : AMap.T BlkId Block := []          -- every block ever defined (block files are append-only)
  deriving Repr, Inhabited

structure Params where
  cbMaturity : Nat := 1000
  deriving Repr, Inhabited

/-- keystore view: script hash ↦ (wallet, isChange) -/
abbrev Own := AMap.T Addr (Wid × Bool)

/-- follower volatile state -/
structure Vol where
  best : BlockMeta := ⟨0, "G"⟩
  mempool : List TxId := []
  expired : AMap.T Nat (List TxId) := []
  deriving Repr, Inhabited

inductive Err
  | chainRevoked | invalidTx | bothBinding | creditNotFound | duplicate | other (msg : String)
  deriving Repr, Inhabited

abbrev M := Except Err

-- ------------------------------------------------------------------ node lookups

def Node.blockAt (n : Node) (h : Nat) : Option Block := n.chain[h]?

def Node.tipHeight (n : Node) : Nat := n.chain.length - 1

/-- chainFetcher.FetchTxBySha: the latest transaction with that id on the best chain -/
def Node.fetchTx (n : Node) (id : TxId) : Option Tx :=
  (n.chain.reverse.findSome? (fun b => b.txs.find? (fun t => t.id = id)))

/-- chainFetcher.FetchBlockBySha: only blocks on the best chain are indexed by hash -/
def Node.fetchBlock (n : Node) (id : BlkId) : Option Block := n.chain.find? (fun b => b.id = id)

/-- chainFetcher.FetchTxByFileLoc: block files are append only, any stored location stays readable -/
def Node.txByFileLoc (n : Node) (loc : BlkId × Nat) : Option Tx :=
  match AMap.get n.known loc.1 with
  | some b => b.txs[loc.2]?
  | none => none

/-- chainFetcher.FetchTxByLoc(height, loc): reads the block at `height` of the CURRENT best chain -/
def Node.txByLoc (n : Node) (height : Nat) (loc : BlkId × Nat) : Option Tx :=
  match n.blockAt height with
  | some b => if b.id = loc.1 then b.txs[loc.2]? else none
  | none => none

-- ------------------------------------------------------------------ relevance records

structure Rel where
  index : Nat
  out : Out           -- the parsed script (of the previous output for inputs)
  wallet : Wid
  change : Bool
  deriving Repr, Inhabited

structure TxRec where
  tx : Tx
  relIn : List Rel := []
  relOut : List Rel := []
  hasBindingIn : Bool := false
  hasBindingOut : Bool := false
  loc : BlkId × Nat := ("", 0)
  deriving Repr, Inhabited

def uclassOf (c : Cls) : UClass :=
  if c.isStaking then .staking else if c.isBinding then .binding else .standard

-- ------------------------------------------------------------------ small store helpers

def readyWallets (s : Store) (wallets : List Wid) : List Wid :=
  wallets.filter (fun w => match AMap.get s.status w with
    | some st => st.synced.isNone && !st.removed
    | none => false)

def getBal (bals : AMap.T Wid Nat) (w : Wid) : Nat := (AMap.get bals w).getD 0

/-- utxoStore.ExistCreditFromTx: any credit whose key starts with this tx hash -/
def existCreditFromTx (s : Store) (id : TxId) : Bool := s.credits.any (fun e => e.1.tx = id)

/-- putRawUnminedInput: append the spender hash to the list stored under the outpoint -/
def putPendIn (m : AMap.T (TxId × Nat) (List TxId)) (k : TxId × Nat) (spender : TxId) :=
  AMap.put m k ((AMap.get m k).getD [] ++ [spender])

-- ------------------------------------------------------------------ loop helpers

/-- `for i, a := range as { b, err = f(b, i, a); if err != nil { return err } }` -/
def foldIdxM {α β : Type} (f : β → Nat → α → M β) : List α → Nat → β → M β
  | [], _, b => pure b
  | a :: as, i, b => do
    let b' ← f b i a
    foldIdxM f as (i + 1) b'

/-- the same loop without error exits -/
def foldIdx {α β : Type} (f : β → Nat → α → β) : List α → Nat → β → β
  | [], _, b => b
  | a :: as, i, b => foldIdx f as (i + 1) (f b i a)

abbrev Bals := AMap.T Wid Nat

-- ------------------------------------------------------------------ unmined side (utxostore.go)

/-- insertUnminedInputs: every input of the tx, relevant or not (as Rollback does) -/
def insertUnminedInputs (s : Store) (tr : TxRec) : Store :=
  tr.tx.ins.foldl (fun s i => { s with pendIns := putPendIn s.pendIns (i.tx, i.idx) tr.tx.id }) s

/-- deleteUnminedInputs: every input of the tx -/
def deleteUnminedInputs (s : Store) (tx : Tx) : Store :=
  tx.ins.foldl (fun s i =>
    match AMap.get s.pendIns (i.tx, i.idx) with
    | some (_ :: _) => { s with pendIns := AMap.erase s.pendIns (i.tx, i.idx) }
    | _ => s) s

/-- removeUnminedInputsOf (removeRawUnminedInputSpender per input): take the tx out of the spender list
    of each of its inputs; the entry goes away with its last spender, other spenders keep theirs -/
def removeUnminedInputsOf (s : Store) (tx : Tx) : Store :=
  tx.ins.foldl (fun s i =>
    match AMap.get s.pendIns (i.tx, i.idx) with
    | some (x :: xs) =>
      let rest := (x :: xs).filter (fun sp => sp ≠ tx.id)
      if rest.isEmpty then { s with pendIns := AMap.erase s.pendIns (i.tx, i.idx) }
      else { s with pendIns := AMap.put s.pendIns (i.tx, i.idx) rest }
    | _ => s) s

def deleteUnminedCredits (s : Store) (tx : Tx) : Store :=
  (List.range tx.outs.length).foldl (fun s i => { s with pendCred := AMap.erase s.pendCred (tx.id, i) }) s

/-- createGameHistory -/
def gameOuts (tr : TxRec) : List Rel := tr.relOut.filter (fun r => r.out.cls.isStaking || r.out.cls.isBinding)

/-- the unmined credit value written for a relevant output (valueUnminedCredit) -/
def unminedCreditOf (rel : Rel) : Credit :=
  { amt := rel.out.amt, spent := false, change := rel.change, cls := uclassOf rel.out.cls,
    maturity := rel.out.cls.maturity, sh := rel.out.addr, spentBy := none }

/-- addUnminedCredits, body of the first loop -/
def addUnminedCredit (tr : TxRec) (s : Store) (rel : Rel) : M Store :=
  if (AMap.get s.pendCred (tr.tx.id, rel.index)).isSome then throw .duplicate
  else if (AMap.get s.unspent (rel.wallet, tr.tx.id, rel.index)).isSome then throw .duplicate
  else pure { s with pendCred := AMap.put s.pendCred (tr.tx.id, rel.index) (unminedCreditOf rel) }

/-- addUnminedCredits -/
def addUnminedCredits (s : Store) (tr : TxRec) : M Store := do
  let s ← tr.relOut.foldlM (addUnminedCredit tr) s
  pure ((gameOuts tr).foldl (fun s rel =>
    { s with pendGame := AMap.put s.pendGame (rel.wallet, rel.out.cls.isBinding, tr.tx.id, rel.index) () }) s)

/-- removeUnminedGameHistory: the unmined history record of every staking / binding output that pays an
    owned address (after the fix: keyed by the output's own index) -/
def removeUnminedGameHistory (own : Own) (s : Store) (tx : Tx) : Store :=
  foldIdx (fun s i o =>
    if o.cls.isStaking || o.cls.isBinding then
      match AMap.get own o.addr with
      | some (w, _) => { s with pendGame := AMap.erase s.pendGame (w, o.cls.isBinding, tx.id, i) }
      | none => s
    else s) tx.outs 0 s

/-- removeConflict (txstore.go): remove a pending tx and, recursively, pending spenders of its outputs.
    `fuel` bounds the recursion depth (the pending set is a finite DAG; callers pass its size + 1;
    MW.Lemmas.LedgerPending shows that this is enough whenever the pending set is acyclic). -/
def removeConflict (own : Own) : Nat → Store → Tx → Store
  | 0, s, _ => s
  | fuel + 1, s, tx =>
    let s := (List.range tx.outs.length).foldl (fun s i =>
      let spenders := (AMap.get s.pendIns (tx.id, i)).getD []
      let s := spenders.foldl (fun s sp =>
        match AMap.get s.pending sp with
        | some sptx => removeConflict own fuel s sptx
        | none => s) s
      { s with pendCred := AMap.erase s.pendCred (tx.id, i) }) s
    let s := removeUnminedInputsOf s tx
    let s := removeUnminedGameHistory own s tx
    { s with pending := AMap.erase s.pending tx.id }

/-- the pending spenders recorded under an outpoint are conflicts: remove each with its descendants -/
def purgeSpenders (own : Own) (s : Store) (op : TxId × Nat) : Store :=
  ((AMap.get s.pendIns op).getD []).foldl (fun s ds =>
    match AMap.get s.pending ds with
    | some dtx => removeConflict own (s.pending.length + 1) s dtx
    | none => s) s

/-- removeDoubleSpends: pending transactions spending an input of the mined tx — any input, wallet
    coin or not — are conflicts -/
def removeDoubleSpends (own : Own) (s : Store) (tr : TxRec) : Store :=
  let fuel := s.pending.length + 1
  let s := tr.tx.ins.foldl (fun s i =>
    ((AMap.get s.pendIns (i.tx, i.idx)).getD []).foldl (fun s ds =>
      match AMap.get s.pending ds with
      | some dtx => removeConflict own fuel s dtx
      | none => s) s) s
  deleteUnminedInputs s tr.tx

/-- insertMemPoolTx + AddCredits(block = nil) -/
def addRelevantUnmined (s : Store) (tr : TxRec) : M Store :=
  if tr.tx.cb then throw (.other "coinbase unmined")
  else if (AMap.get s.pending tr.tx.id).isSome then
    -- already there: insertMemPoolTx returns nil, then AddCredits → addUnminedCredits still runs
    if tr.relOut.isEmpty then pure s else addUnminedCredits s tr
  else
    let s := { s with pending := AMap.put s.pending tr.tx.id tr.tx }
    let s := insertUnminedInputs s tr
    if tr.relOut.isEmpty then pure s else addUnminedCredits s tr

-- ------------------------------------------------------------------ mined side

/-- updateMinedBalance, loop body once every lookup has succeeded: mark the credit spent (spendCredit),
    move the deposit record (withdrawGame), write the debit (putDebit), drop the unspent entry
    (deleteRawUnspent), subtract the amount -/
def spendApply (tr : TxRec) (blk : BlockMeta) (sb : Store × Bals) (rel : Rel) (i : Inp) (cblk : BlockMeta)
    (c : Credit) : Store × Bals :=
  let ck : CredKey := ⟨i.tx, cblk, i.idx⟩
  let dk : CredKey := ⟨tr.tx.id, blk, rel.index⟩
  let gk : GameKey := ⟨rel.wallet, rel.out.cls.isBinding, false, i.tx, cblk.height, i.idx⟩
  ({ sb.1 with
      credits := AMap.put sb.1.credits ck { c with spent := true, spentBy := some dk },
      game := if rel.out.cls.isBinding || rel.out.cls.isStaking then
                AMap.put (AMap.erase sb.1.game gk) { gk with withdrawn := true } ()
              else sb.1.game,
      debits := AMap.put sb.1.debits dk (c.amt, ck),
      unspent := AMap.erase sb.1.unspent (rel.wallet, i.tx, i.idx) },
   AMap.put sb.2 rel.wallet (getBal sb.2 rel.wallet - c.amt))

/-- updateMinedBalance (txstore.go), body of the loop: spend the credit consumed by one relevant input -/
def spendOne (tr : TxRec) (blk : BlockMeta) (sb : Store × Bals) (rel : Rel) : M (Store × Bals) :=
  match tr.tx.ins[rel.index]? with
  | none => throw (.other "input index")
  | some i =>
    match AMap.get sb.1.unspent (rel.wallet, i.tx, i.idx) with      -- existsUnspent
    | none => throw .creditNotFound
    | some cblk =>
      match AMap.get sb.1.credits ⟨i.tx, cblk, i.idx⟩ with          -- spendCredit
      | none => throw (.other "short credit value")
      | some c =>
        if c.spent then throw (.other "short v read")               -- requires the 45-byte (unspent) value
        else if (rel.out.cls.isBinding || rel.out.cls.isStaking) &&
            (AMap.get sb.1.game ⟨rel.wallet, rel.out.cls.isBinding, false, i.tx, cblk.height, i.idx⟩).isNone then
          throw (.other "withdraw game not found")                  -- withdrawGame
        else if getBal sb.2 rel.wallet < c.amt then throw (.other "balance underflow")
        else pure (spendApply tr blk sb rel i cblk c)

/-- updateMinedBalance (txstore.go): spend the credits consumed by the relevant inputs -/
def updateMinedBalance (s : Store) (bals : Bals) (tr : TxRec) (blk : BlockMeta) : M (Store × Bals) :=
  tr.relIn.foldlM (spendOne tr blk) (s, bals)

/-- insertMinedTx: block record (created or appended) and tx record -/
def recordMinedTx (s : Store) (tr : TxRec) (blk : BlockMeta) : Store :=
  { s with
    blocks := match AMap.get s.blocks blk.height with
      | none => AMap.put s.blocks blk.height (blk.hash, [tr.tx.id])
      | some (h, txs) => AMap.put s.blocks blk.height (h, txs ++ [tr.tx.id]),
    txrecs := AMap.put s.txrecs (tr.tx.id, blk) tr.loc }

/-- insertMinedTx: the unmined version of a confirmed tx leaves the pending set -/
def unpendMined (s : Store) (tx : Tx) : Store :=
  if (AMap.get s.pending tx.id).isSome then
    let s := deleteUnminedCredits s tx
    { s with pending := AMap.erase s.pending tx.id }
  else s

/-- insertMinedTx -/
def insertMinedTx (own : Own) (s : Store) (bals : Bals) (tr : TxRec) (blk : BlockMeta) :
    M (Store × Bals × Bool) :=
  if (AMap.get s.txrecs (tr.tx.id, blk)).isSome then pure (s, bals, true)
  else do
    let (s, bals) ← updateMinedBalance (recordMinedTx s tr blk) bals tr blk
    pure (removeDoubleSpends own (unpendMined s tr.tx) tr, bals, false)

/-- the credit value written for a relevant output of a mined tx (valueUnspentCredit); a coinbase output
    matures like any coinbase AND keeps the lock of its own script, whichever is longer -/
def minedCreditOf (p : Params) (cb : Bool) (rel : Rel) : Credit :=
  { amt := rel.out.amt, spent := false, change := rel.change, cls := uclassOf rel.out.cls,
    maturity := (if cb then max p.cbMaturity rel.out.cls.maturity else rel.out.cls.maturity) % 2^32,
    sh := rel.out.addr, spentBy := none }

/-- AddCredits (mined), body of the first loop after the duplicate check: address record, credit,
    unspent entry, amount -/
def creditApply (p : Params) (tr : TxRec) (blk : BlockMeta) (sb : Store × Bals) (rel : Rel) : Store × Bals :=
  let ak := (rel.wallet, rel.out.cls.isStaking, rel.out.addr)
  ({ sb.1 with
      addrs := match AMap.get sb.1.addrs ak with
        | some h => if h = 0 then AMap.put sb.1.addrs ak blk.height else sb.1.addrs
        | none => AMap.put sb.1.addrs ak blk.height,
      credits := AMap.put sb.1.credits ⟨tr.tx.id, blk, rel.index⟩ (minedCreditOf p tr.tx.cb rel),
      unspent := AMap.put sb.1.unspent (rel.wallet, tr.tx.id, rel.index) blk },
   AMap.put sb.2 rel.wallet (getBal sb.2 rel.wallet + rel.out.amt))

/-- AddCredits (mined), body of the first loop -/
def creditOne (p : Params) (tr : TxRec) (blk : BlockMeta) (sb : Store × Bals) (rel : Rel) : M (Store × Bals) :=
  if (AMap.get sb.1.credits ⟨tr.tx.id, blk, rel.index⟩).isSome then throw .duplicate
  else pure (creditApply p tr blk sb rel)

/-- AddCredits (mined), second loop: the deposit history records -/
def gameOne (tr : TxRec) (blk : BlockMeta) (s : Store) (rel : Rel) : Store :=
  { s with
    pendGame := AMap.erase s.pendGame (rel.wallet, rel.out.cls.isBinding, tr.tx.id, rel.index),
    game := AMap.put s.game ⟨rel.wallet, rel.out.cls.isBinding, false, tr.tx.id, blk.height, rel.index⟩ () }

/-- AddCredits for a mined tx -/
def addCredits (p : Params) (s : Store) (bals : Bals) (tr : TxRec) (blk : BlockMeta) : M (Store × Bals) :=
  if tr.relOut.isEmpty then pure (s, bals)
  else do
    let (s, bals) ← tr.relOut.foldlM (creditOne p tr blk) (s, bals)
    pure ((gameOuts tr).foldl (gameOne tr blk) s, bals)

/-- AddRelevantTx for a mined tx: InsertTx then AddCredits (AddCredits runs even when the tx record existed) -/
def addRelevantMined (p : Params) (own : Own) (s : Store) (bals : Bals) (tr : TxRec) (blk : BlockMeta) :
    M (Store × Bals) := do
  let (s, bals, _) ← insertMinedTx own s bals tr blk
  addCredits p s bals tr blk

-- ------------------------------------------------------------------ filterTx / filterBlock

structure Ctx where
  p : Params
  own : Own
  wallets : List Wid
  node : Node
  deriving Inhabited

/-- result of looking up the previous transaction of an input -/
inductive Prev | skip | found (t : Tx) | missing

/-- filterTx: where the previous transaction of an input comes from (the per-tx cache only avoids
    repeated lookups): the current block, else – only if the store has a credit of that tx, for a mined
    tx – the node's chain, else the pending set -/
def prevOf (c : Ctx) (s : Store) (mined : Bool) (inBlk : List Tx) (id : TxId) : Prev :=
  match (if mined then inBlk.find? (fun t => t.id = id) else none) with
  | some t => .found t
  | none =>
    if mined && !existCreditFromTx s id then .skip
    else match c.node.fetchTx id with
      | some t => .found t
      | none => match AMap.get s.pending id with
        | some t => .found t
        | none => .missing

/-- filterTx, body of the TxIn loop -/
def filterIn (c : Ctx) (s : Store) (mined : Bool) (inBlk : List Tx) (ready : List Wid)
    (tr : TxRec) (cur : Nat) (i : Inp) : M TxRec :=
  match prevOf c s mined inBlk i.tx with
  | .skip => pure tr
  | .missing => throw (if mined then .chainRevoked else .invalidTx)
  | .found pt =>
    match pt.outs[i.idx]? with
    | none => throw .invalidTx
    | some o =>
      if o.cls = .raw then pure tr
      else match AMap.get c.own o.addr with
        | some (w, ch) =>
          if ready.contains w then
            pure { tr with hasBindingIn := o.cls.isBinding,
                           relIn := tr.relIn ++ [{ index := cur, out := o, wallet := w, change := ch }] }
          else pure tr
        | none => pure tr

/-- filterTx, body of the TxOut loop -/
def filterOut (c : Ctx) (ready : List Wid) (tr : TxRec) (cur : Nat) (o : Out) : TxRec :=
  if o.cls = .raw then tr
  else match AMap.get c.own o.addr with
    | some (w, ch) =>
      if ready.contains w then
        { tr with hasBindingOut := o.cls.isBinding,
                  relOut := tr.relOut ++ [{ index := cur, out := o, wallet := w, change := ch }] }
      else tr
    | none => tr

/-- filterTx (ntfnshandler.go), relevance part; `mined = false` for an unconfirmed transaction.
    `inBlk` = transactions of the current block seen so far, including this one (recInCurBlk). -/
def filterTxRel (c : Ctx) (s : Store) (tx : Tx) (mined : Bool) (inBlk : List Tx) (ready : List Wid) :
    M (Option TxRec) := do
  let tr ← if tx.cb then pure { tx := tx } else foldIdxM (filterIn c s mined inBlk ready) tx.ins 0 { tx := tx }
  let tr := foldIdx (filterOut c ready) tx.outs 0 tr
  if tr.relIn.isEmpty && tr.relOut.isEmpty then pure none
  else if tr.hasBindingIn && tr.hasBindingOut then throw .bothBinding
  else pure (some tr)

/-- putSyncedTo -/
def putSyncedTo (s : Store) (blk : BlockMeta) : M Store :=
  if blk.height > 0 && (AMap.get s.sync (blk.height - 1)).isNone then throw (.other "syncedTo too great")
  else if (AMap.get s.sync (blk.height + 1)).isSome then throw (.other "syncedTo smaller than last")
  else pure { s with sync := AMap.put s.sync blk.height blk.hash, syncedTo := blk.height }

/-- filterBlock, first loop: filterTx on every transaction of the block (against the store as it is
    when the block starts), collecting the relevant records with their block-file location -/
def filterTxs (c : Ctx) (s : Store) (ready : List Wid) (bid : BlkId) :
    List Tx → List Tx → Nat → List TxRec → M (List TxRec)
  | [], _, _, acc => pure acc
  | tx :: rest, seen, ti, acc => do
    let r ← filterTxRel c s tx true (seen ++ [tx]) ready
    match r with
    | some tr => filterTxs c s ready bid rest (seen ++ [tx]) (ti + 1) (acc ++ [{ tr with loc := (bid, ti) }])
    | none => filterTxs c s ready bid rest (seen ++ [tx]) (ti + 1) acc

/-- UpdateMinedBalances: write the working balances back -/
def mergeBalances (bals : Bals) (m : Bals) : Bals := bals.foldr (fun e m => AMap.put m e.1 e.2) m

/-- onRelevantBlockConnected -/
def applyRelevant (c : Ctx) (s : Store) (ready : List Wid) (bm : BlockMeta) (relevant : List TxRec) : M Store :=
  if relevant.isEmpty then pure s
  else do
    -- FetchAllMinedBalance restricted to ready wallets
    let bals : Bals := s.balance.filter (fun e => ready.contains e.1)
    let (s, bals) ← relevant.foldlM (fun sb tr => addRelevantMined c.p c.own sb.1 sb.2 tr bm) (s, bals)
    pure { s with balance := mergeBalances bals s.balance }

/-- filterBlock: the non-coinbase transactions of the block that filterTx found irrelevant -/
def unrelatedTxs (txs : List Tx) (relevant : List TxRec) : List Tx :=
  txs.filter (fun t => !t.cb && !relevant.any (fun tr => tr.tx.id = t.id))

/-- filterBlock → TxStore.RemoveUnminedConflicts: an irrelevant transaction of the block may still
    double-spend a pending one (removeDoubleSpends on a record without relevance lists) -/
def purgeUnrelated (own : Own) (s : Store) (txs : List Tx) : Store :=
  txs.foldl (fun s t => removeDoubleSpends own s { tx := t }) s

/-- filterBlock + onRelevantBlockConnected + SetSyncedTo; returns the confirmed relevant tx ids -/
def filterBlock (c : Ctx) (s : Store) (ready : List Wid) (b : Block) : M (Store × List TxId) :=
  let bm : BlockMeta := ⟨b.height, b.id⟩
  match c.node.blockAt b.height with
  | none => throw (.other "FetchBlockLocByHeight")
  | some onChain =>
    if onChain.id ≠ b.id then throw .chainRevoked
    else do
      let relevant ← if ready.isEmpty then pure [] else filterTxs c s ready b.id b.txs [] 0 []
      let s ← applyRelevant c s ready bm relevant
      let s := purgeUnrelated c.own s (if ready.isEmpty then [] else unrelatedTxs b.txs relevant)
      let s2 ← putSyncedTo s bm
      pure (s2, relevant.map (·.tx.id))

-- ------------------------------------------------------------------ Rollback (txstore.go)

/-- address record repair on rollback (after the D5 fix: reset the first-use height instead of deleting) -/
def rollbackAddr (s : Store) (w : Wid) (o : Out) (curHeight : Nat) : Store :=
  let ak := (w, o.cls.isStaking, o.addr)
  match AMap.get s.addrs ak with
  | some h => if curHeight > 0 && h = curHeight then { s with addrs := AMap.put s.addrs ak 0 } else s
  | none => s

/-- Rollback: the part shared by the coinbase and the ordinary TxOut loops once the credit is gone:
    drop the unspent entry (and its amount), repair the address record -/
def rollbackOwnedOut (id : TxId) (blk : BlockMeta) (sb : Store × Bals) (i : Nat) (o : Out) (w : Wid) :
    M (Store × Bals) :=
  if (AMap.get sb.1.unspent (w, id, i)).isSome then
    if getBal sb.2 w < o.amt then throw (.other "balance underflow")
    else pure (rollbackAddr { sb.1 with unspent := AMap.erase sb.1.unspent (w, id, i) } w o blk.height,
               AMap.put sb.2 w (getBal sb.2 w - o.amt))
  else pure (rollbackAddr sb.1 w o blk.height, sb.2)

/-- Rollback, coinbase: body of the TxOut loop; the accumulator also collects the removed credits -/
def rollbackCbOut (c : Ctx) (id : TxId) (blk : BlockMeta) (acc : (Store × Bals) × List (TxId × Nat))
    (i : Nat) (o : Out) : M ((Store × Bals) × List (TxId × Nat)) :=
  let ck : CredKey := ⟨id, blk, i⟩
  match AMap.get acc.1.1.credits ck with
  | none => pure acc
  | some _ =>
    let s := { acc.1.1 with credits := AMap.erase acc.1.1.credits ck }
    if o.cls = .raw then throw (.other "parse")
    else match AMap.get c.own o.addr with
      | none => pure ((s, acc.1.2), acc.2 ++ [(id, i)])
      | some (w, _) => do
        let sb ← rollbackOwnedOut id blk (s, acc.1.2) i o w
        -- the deposit record of a staking / binding coinbase output goes with its credit (a coinbase
        -- never returns to the pending set, so no unmined record is written)
        if o.cls.isStaking || o.cls.isBinding then
          pure (({ sb.1 with game := AMap.erase sb.1.game ⟨w, o.cls.isBinding, false, id, blk.height, i⟩ }, sb.2),
                acc.2 ++ [(id, i)])
        else pure (sb, acc.2 ++ [(id, i)])

/-- Rollback, ordinary tx: body of the TxIn loop -/
def rollbackIn (c : Ctx) (id : TxId) (blk : BlockMeta) (sb : Store × Bals) (cur : Nat) (i : Inp) : M (Store × Bals) :=
  let s := { sb.1 with pendIns := putPendIn sb.1.pendIns (i.tx, i.idx) id }
  let dk : CredKey := ⟨id, blk, cur⟩
  match AMap.get s.debits dk with
  | none => pure (s, sb.2)
  | some (_, ck) =>
    let s := { s with debits := AMap.erase s.debits dk }
    match AMap.get s.credits ck with
    | none => throw (.other "unspend non-existent credit")
    | some cr =>
      let cr' := { cr with spent := false, spentBy := none }
      let s := { s with credits := AMap.put s.credits ck cr' }
      match AMap.get c.own cr'.sh with
      | none => pure (s, sb.2)
      | some (w, _) =>
        let s := { s with unspent := AMap.put s.unspent (w, i.tx, i.idx) ck.blk }
        let bals := AMap.put sb.2 w (getBal sb.2 w + cr'.amt)
        if cr'.cls = .staking || cr'.cls = .binding then
          let gk : GameKey := ⟨w, cr'.cls = .binding, true, i.tx, ck.blk.height, i.idx⟩
          if (AMap.get s.game gk).isNone then throw (.other "unwithdraw game not found")
          else pure ({ s with game := AMap.put (AMap.erase s.game gk) { gk with withdrawn := false } () }, bals)
        else pure (s, bals)

/-- Rollback, ordinary tx: body of the TxOut loop -/
def rollbackOut (c : Ctx) (id : TxId) (blk : BlockMeta) (sb : Store × Bals) (i : Nat) (o : Out) : M (Store × Bals) :=
  let ck : CredKey := ⟨id, blk, i⟩
  match AMap.get sb.1.credits ck with
  | none => pure sb
  | some cr =>
    let s := { sb.1 with credits := AMap.erase sb.1.credits ck,
                         pendCred := AMap.put sb.1.pendCred (id, i) { cr with spentBy := none } }   -- first 45 bytes (flags kept)
    if o.cls = .raw then throw (.other "parse")
    else match AMap.get c.own o.addr with
      | none => pure (s, sb.2)
      | some (w, _) => do
        let sb ← rollbackOwnedOut id blk (s, sb.2) i o w
        if o.cls.isStaking || o.cls.isBinding then
          pure ({ sb.1 with game := AMap.erase sb.1.game ⟨w, o.cls.isBinding, false, id, blk.height, i⟩,
                            pendGame := AMap.put sb.1.pendGame (w, o.cls.isBinding, id, i) () }, sb.2)
        else pure sb

/-- roll back one transaction record of block `blk` (the body of the inner loop of Rollback).
    Returns the new store, balances and the coinbase credits removed. -/
def rollbackTx (c : Ctx) (s : Store) (bals : Bals) (blk : BlockMeta) (id : TxId) :
    M (Store × Bals × List (TxId × Nat)) :=
  match AMap.get s.txrecs (id, blk) with
  | none => pure (s, bals, [])                                 -- readTxRecordLoc fails: continue
  | some loc =>
    match c.node.txByFileLoc loc with
    | none => throw (.other "FetchTxByFileLoc")
    | some tx =>
      let s := { s with txrecs := AMap.erase s.txrecs (id, blk) }
      if tx.cb then do
        let r ← foldIdxM (rollbackCbOut c id blk) tx.outs 0 ((s, bals), [])
        pure (r.1.1, r.1.2, r.2)
      else do
        -- non-coinbase: back to the pending set (after the D1 fix: a readable pending record)
        let s := { s with pending := AMap.put s.pending id tx }
        let sb ← foldIdxM (rollbackIn c id blk) tx.ins 0 (s, bals)
        let sb ← foldIdxM (rollbackOut c id blk) tx.outs 0 sb
        pure (sb.1, sb.2, [])

/-- accumulator of Rollback's outer loop -/
structure RbAcc where
  s : Store
  bals : Bals
  cb : List (TxId × Nat) := []
  heights : List Nat := []

/-- Rollback: one iteration of the outer loop (block record at height `cur`, transactions in reverse) -/
def rollbackBlockAt (c : Ctx) (acc : RbAcc) (cur : Nat) : M RbAcc :=
  match AMap.get acc.s.blocks cur with
  | none => pure acc
  | some (bh, txs) =>
    txs.reverse.foldlM (fun (a : RbAcc) id => do
      let (s', bals', rem) ← rollbackTx c a.s a.bals ⟨cur, bh⟩ id
      pure { a with s := s', bals := bals', cb := a.cb ++ rem })
      { acc with heights := acc.heights ++ [cur] }

/-- TxStore.Rollback(height): undo every block record from the synced tip down to `height` -/
def rollback (c : Ctx) (s : Store) (height : Nat) : M Store := do
  -- for curHeight := syncedTo; height <= curHeight; curHeight--      (bals = FetchAllMinedBalance)
  let hs := (List.range (s.syncedTo + 1 - height)).map (fun k => s.syncedTo - k)
  let acc ← hs.foldlM (rollbackBlockAt c) { s := s, bals := s.balance }
  let s := acc.heights.foldl (fun s h => { s with blocks := AMap.erase s.blocks h }) acc.s
  -- pending spenders of removed coinbase outputs are conflicts
  let s := acc.cb.foldl (purgeSpenders c.own) s
  pure { s with balance := mergeBalances acc.bals s.balance }

/-- resetSyncedTo -/
def resetSyncedTo (s : Store) (height : Nat) : Store :=
  let sync := (List.range (s.syncedTo - height)).foldl (fun m k => AMap.erase m (s.syncedTo - k)) s.sync
  { s with sync := sync, syncedTo := if s.syncedTo > height then height else s.syncedTo }

/-- disconnectBlock -/
def disconnectBlock (c : Ctx) (s : Store) (height : Nat) : M Store :=
  if height = 0 then throw (.other "genesis")
  else if height > s.syncedTo then pure s
  else do
    let s1 ← rollback c s height
    let s := resetSyncedTo s1 (height - 1)
    -- importing wallets: pull the cursor back
    let status := s.status.map (fun e =>
      match e.2.synced with
      | some h => if h > height - 1 then (e.1, { e.2 with synced := some (height - 1) }) else e
      | none => e)
    pure { s with status := status }

/-- reorg step 1: walk the new branch back until it is no higher than the wallet's tip.
    Returns the block reached and the blocks to connect (ascending). -/
def alignNew (c : Ctx) (curH : Nat) : Nat → Block → List Block → M (Block × List Block)
  | 0, nb, tc => pure (nb, tc)
  | fuel + 1, nb, tc =>
    if curH < nb.height then
      match c.node.fetchBlock nb.prev with
      | none => throw .chainRevoked
      | some pb => alignNew c curH fuel pb (nb :: tc)
    else pure (nb, tc)

/-- reorg step 2a: disconnect the wallet's blocks above the height reached on the new branch -/
def disconnectDown (c : Ctx) (nbH : Nat) : Nat → Store → Nat → List Nat → M (Store × Nat × List Nat)
  | 0, s, curH, rolled => pure (s, curH, rolled)
  | fuel + 1, s, curH, rolled =>
    if curH > nbH then do
      let s' ← disconnectBlock c s curH
      disconnectDown c nbH fuel s' (curH - 1) (rolled ++ [curH])
    else pure (s, curH, rolled)

/-- state of reorg step 2b -/
structure Walk where
  s : Store
  prevH : Nat
  prevHash : BlkId
  tail : Block
  tc : List Block
  rolled : List Nat

/-- reorg step 2b: walk both branches back in lock step until the new branch's block points at the
    wallet's synced block below. `false` = fuel exhausted before the common ancestor was reached. -/
def walkBack (c : Ctx) : Nat → Walk → M (Walk × Bool)
  | 0, w => pure (w, false)
  | fuel + 1, w =>
    if w.tail.prev ≠ w.prevHash then do
      let s ← disconnectBlock c w.s (w.prevH + 1)
      if w.prevH = 0 then throw (.other "prev synced block not found")
      else match AMap.get s.sync (w.prevH - 1) with
        | none => throw (.other "prev synced block not found")
        | some ph' =>
          match c.node.fetchBlock w.tail.prev with
          | none => throw .chainRevoked
          | some pb =>
            walkBack c fuel { s := s, prevH := w.prevH - 1, prevHash := ph', tail := pb,
                              tc := w.tail :: w.tc, rolled := w.rolled ++ [w.prevH + 1] }
    else pure (w, true)

/-- reorg step 3: connect -/
def connectAll (c : Ctx) (ready : List Wid) :
    List Block → Store → List (Nat × List TxId) → M (Store × List (Nat × List TxId))
  | [], s, added => pure (s, added)
  | b :: rest, s, added => do
    let (s', conf) ← filterBlock c s ready b
    connectAll c ready rest s' (added ++ [(b.height, conf)])

/-- reorg step 2: roll the wallet back to the fork point -/
def reorgDisconnect (c : Ctx) (s : Store) (best : BlockMeta) (nb : Block) (tc : List Block) :
    M (Store × List Nat × List Block) :=
  if best.hash = nb.id then pure (s, [], tc)
  else do
    let (s, curH, rolled) ← disconnectDown c nb.height (best.height + 1) s best.height []
    match AMap.get s.sync curH with
    | none => throw (.other "synced block not found")
    | some bh =>
      if bh = nb.id then pure (s, rolled, tc)
      else if curH = 0 then throw (.other "prev synced block not found")
      else match AMap.get s.sync (curH - 1) with
        | none => throw (.other "prev synced block not found")
        | some ph => do
          let (w, done) ← walkBack c (best.height + 2)
            { s := s, prevH := curH - 1, prevHash := ph, tail := nb, tc := tc, rolled := rolled }
          if !done then throw (.other "walk-back fuel exhausted")
          else do
            let s ← disconnectBlock c w.s (w.prevH + 1)
            pure (s, w.rolled ++ [w.prevH + 1], w.tail :: w.tc)

/-- reorg (ntfnshandler.go). Returns store, rolled-back heights, (height, confirmed ids) of connected blocks. -/
def reorg (c : Ctx) (s : Store) (best : BlockMeta) (newBest : Block) :
    M (Store × List Nat × List (Nat × List TxId)) := do
  -- step 1: align heights (walk the new branch back)
  let (nb, tc) ← alignNew c best.height (newBest.height + 1) newBest []
  -- step 2: disconnect down to the common ancestor
  let (s, rolled, tc) ← reorgDisconnect c s best nb tc
  -- step 3: connect
  let ready := readyWallets s c.wallets
  let (s, added) ← connectAll c ready tc s []
  pure (s, rolled, added)

/-- MaxMemPoolExpire -/
def maxMemPoolExpire : Nat := 1024

/-- processConnectedBlock: one database transaction, then the volatile update on success only -/
def processBlock (c : Ctx) (s : Store) (v : Vol) (b : Block) : Store × Vol × Bool :=
  let r : M (Store × List Nat × List (Nat × List TxId)) :=
    if b.prev = v.best.hash then do
      let ready := readyWallets s c.wallets
      let (s', conf) ← filterBlock c s ready b
      pure (s', [], [(b.height, conf)])
    else reorg c s v.best b
  match r with
  | .error _ => (s, v, false)          -- mwdb.Update rolled back; bestBlock unchanged
  | .ok (s', rolled, added) =>
    let (mem, exp) := rolled.foldl (fun (me : List TxId × AMap.T Nat (List TxId)) h =>
      match AMap.get me.2 h with
      | some ids => (me.1 ++ ids.filter (fun i => !me.1.contains i), AMap.erase me.2 h)
      | none => (me.1, AMap.erase me.2 h)) (v.mempool, v.expired)
    let (mem, exp) := added.foldl (fun (me : List TxId × AMap.T Nat (List TxId)) hc =>
      let exp := AMap.put me.2 hc.1 hc.2
      if hc.1 > maxMemPoolExpire then
        match AMap.get exp (hc.1 - maxMemPoolExpire) with
        | some old => (me.1.filter (fun i => !old.contains i), AMap.erase exp (hc.1 - maxMemPoolExpire))
        | none => (me.1, exp)
      else (me.1, exp)) (mem, exp)
    (s', { best := ⟨b.height, b.id⟩, mempool := mem, expired := exp }, true)

/-- the unconfirmed path of filterTx (below the sync-height gate): own database transaction -/
def recvTx (c : Ctx) (s : Store) (v : Vol) (tx : Tx) : Store × Vol × Bool :=
  if v.mempool.contains tx.id then (s, v, true)
  else
    let ready := readyWallets s c.wallets
    match filterTxRel c s tx false [] ready with
    | .error _ => (s, v, false)
    | .ok none => (s, v, true)
    | .ok (some tr) =>
      match addRelevantUnmined s tr with
      | .error _ => (s, v, false)
      | .ok s' => (s', { v with mempool := v.mempool ++ [tx.id] }, true)

-- ------------------------------------------------------------------ queries

def u64 (n : Int) : Nat := (n % (2^64 : Int)).toNat

/-- confs = syncHeight - height + 1 in uint64 arithmetic -/
def confs (sync height : Nat) : Nat := u64 ((sync : Int) - (height : Int) + 1)

structure Coin where
  wallet : Wid
  tx : TxId
  idx : Nat
  blk : BlockMeta
  cred : Credit
  deriving Repr, Inhabited

/-- the unspent index of wallet w joined with the credit table (both balance and coin queries do this) -/
def coinsOf (s : Store) (w : Wid) : List Coin :=
  s.unspent.filterMap (fun e =>
    let (w', tx, idx) := e.1
    if w' = w then
      match AMap.get s.credits ⟨tx, e.2, idx⟩ with
      | some c => if c.amt = 0 then none else some ⟨w, tx, idx, e.2, c⟩
      | none => none
    else none)

structure Balance where
  total : Nat
  spendable : Nat
  wStaking : Nat
  wBinding : Nat
  deriving Repr, DecidableEq, Inhabited

/-- WalletBalance(detail): total is overwritten by the gross (bucket) balance -/
def walletBalance (s : Store) (w : Wid) (minConf : Nat) : Option Balance :=
  match AMap.get s.balance w with
  | none => none
  | some gross =>
    let cs := coinsOf s w
    let ok := cs.filter (fun c => confs s.syncedTo c.blk.height ≥ minConf ∧ confs s.syncedTo c.blk.height ≥ c.cred.maturity)
    let sum (p : Coin → Bool) := ((ok.filter p).map (·.cred.amt)).sum
    some ⟨gross, sum (fun c => c.cred.cls = .standard), sum (fun c => c.cred.cls = .staking), sum (fun c => c.cred.cls = .binding)⟩

/-- spent_by_unmined after the D3 fix: looked up by outpoint -/
def spentByUnmined (s : Store) (tx : TxId) (idx : Nat) : Bool := (AMap.get s.pendIns (tx, idx)).isSome

end MW.Model.Ledger
