/-
  MODEL of the wallet ledger at record level (DESIGN.md section 5, engine `ledger`).

  Go code followed (masswallet/…):
    ntfnshandler.go   processConnectedBlock, reorg, disconnectBlock, filterBlock, filterTx,
                      onRelevantBlockConnected, onRelevantTx
    txmgr/txstore.go  AddRelevantTx, insertMinedTx, insertMemPoolTx, updateMinedBalance,
                      removeDoubleSpends, removeConflict, Rollback
    txmgr/utxostore.go AddCredits, addUnminedCredits, insertUnminedInputs, deleteUnminedInputs,
                      deleteUnminedCredits, ScriptAddressBalance, ScriptAddressUnspents,
                      Get(Unmined)Staking/BindingHistoryDetail, ExistCreditFromTx
    txmgr/syncstore*.go putSyncedTo, resetSyncedTo, fetchSyncedBlock
    utils/txscript.go  ParsePkScript (class, maturity, address class)
    wallet.go          WalletBalance, GetUtxo, GetAddresses
  Buckets are association maps keyed by the decoded key tuples (byte layouts: MW.Gen.Layout).
  Hashes are symbolic ids; the node (chain database) is part of the environment.
-/
import MW.Base.AMap
namespace MW.Model.Ledger
open MW

abbrev TxId := String
abbrev Wid := String
abbrev Addr := String
abbrev BlkId := String

/-- output script classes as the wallet reads them (utils.ParsePkScript) -/
inductive Cls
  | std
  | stk (frozen : Nat)
  | bindOld (target : String)
  | bindNew (target : String)
  | raw                       -- no template matches: ErrUnsupportedScript, skipped
  deriving DecidableEq, Repr, Inhabited

structure Out where
  addr : Addr
  amt : Nat
  cls : Cls
  deriving DecidableEq, Repr, Inhabited

structure Inp where
  tx : TxId
  idx : Nat
  seq : Nat
  deriving DecidableEq, Repr, Inhabited

structure Tx where
  id : TxId
  cb : Bool
  ins : List Inp
  outs : List Out
  deriving DecidableEq, Repr, Inhabited

structure Block where
  id : BlkId
  prev : BlkId
  height : Nat
  txs : List Tx
  deriving Repr, Inhabited

structure BlockMeta where
  height : Nat
  hash : BlkId
  deriving DecidableEq, Repr, Inhabited

def Cls.isStaking : Cls → Bool | .stk _ => true | _ => false
def Cls.isBinding : Cls → Bool | .bindOld _ => true | .bindNew _ => true | _ => false

/-- consensus.MASSIP0002BindingLockedPeriod -/
def bindingLockedPeriod : Nat := 0xfffffffe

/-- PkScript.Maturity -/
def Cls.maturity : Cls → Nat
  | .stk f => f + 1
  | .bindNew _ => bindingLockedPeriod
  | _ => 0

/-- key of buckets `c` (credits) and `d` (debits): txhash ‖ height ‖ blockhash ‖ index -/
structure CredKey where
  tx : TxId
  blk : BlockMeta
  idx : Nat
  deriving DecidableEq, Repr, Inhabited

inductive UClass | standard | staking | binding
  deriving DecidableEq, Repr, Inhabited

structure Credit where
  amt : Nat
  spent : Bool
  change : Bool
  cls : UClass
  maturity : Nat
  sh : Addr
  spentBy : Option CredKey        -- debit key of the spender (value bytes 45..121)
  deriving DecidableEq, Repr, Inhabited

/-- game (staking/binding) history key in bucket `lg` -/
structure GameKey where
  wallet : Wid
  binding : Bool
  withdrawn : Bool
  tx : TxId
  height : Nat
  vout : Nat
  deriving DecidableEq, Repr, Inhabited

structure WStatus where
  synced : Option Nat      -- none = WalletSyncedDone (ready)
  removed : Bool
  deriving DecidableEq, Repr, Inhabited

/-- the persistent wallet store -/
structure Store where
  credits  : AMap.T CredKey Credit := []
  unspent  : AMap.T (Wid × TxId × Nat) BlockMeta := []
  debits   : AMap.T CredKey (Nat × CredKey) := []
  balance  : AMap.T Wid Nat := []
  txrecs   : AMap.T (TxId × BlockMeta) (BlkId × Nat) := []   -- value: block-file location of the tx
  blocks   : AMap.T Nat (BlkId × List TxId) := []
  sync     : AMap.T Nat BlkId := []
  syncedTo : Nat := 0
  status   : AMap.T Wid WStatus := []
  addrs    : AMap.T (Wid × Bool × Addr) Nat := []           -- (wallet, staking class?, address) ↦ first-use height
  game     : AMap.T GameKey Unit := []
  pending  : AMap.T TxId Tx := []
  pendIns  : AMap.T (TxId × Nat) (List TxId) := []
  pendCred : AMap.T (TxId × Nat) Credit := []
  pendGame : AMap.T (Wid × Bool × TxId × Nat) Unit := []
  deriving Repr, Inhabited

/-- the node's chain database as the wallet sees it through ifc.ChainFetcher -/
structure Node where
  chain : List Block := []                  -- best chain, genesis first (index = height)
  known : AMap.T BlkId Block := []          -- every block ever defined (block files are append-only)
  deriving Repr, Inhabited

structure Params where
  cbMaturity : Nat := 1000
  deriving Repr, Inhabited

/-- keystore view: script hash ↦ (wallet, isChange) -/
abbrev Own := AMap.T Addr (Wid × Bool)

/-- follower volatile state -/
structure Vol where
  best : BlockMeta := ⟨0, "G"⟩
  mempool : List TxId := []
  expired : AMap.T Nat (List TxId) := []
  deriving Repr, Inhabited

inductive Err
  | chainRevoked | invalidTx | bothBinding | creditNotFound | duplicate | other (msg : String)
  deriving Repr, Inhabited

abbrev M := Except Err

-- ------------------------------------------------------------------ node lookups

def Node.blockAt (n : Node) (h : Nat) : Option Block := n.chain[h]?

def Node.tipHeight (n : Node) : Nat := n.chain.length - 1

/-- chainFetcher.FetchTxBySha: the latest transaction with that id on the best chain -/
def Node.fetchTx (n : Node) (id : TxId) : Option Tx :=
  (n.chain.reverse.findSome? (fun b => b.txs.find? (fun t => t.id = id)))

/-- chainFetcher.FetchBlockBySha: only blocks on the best chain are indexed by hash -/
def Node.fetchBlock (n : Node) (id : BlkId) : Option Block := n.chain.find? (fun b => b.id = id)

/-- chainFetcher.FetchTxByFileLoc: block files are append only, any stored location stays readable -/
def Node.txByFileLoc (n : Node) (loc : BlkId × Nat) : Option Tx :=
  match AMap.get n.known loc.1 with
  | some b => b.txs[loc.2]?
  | none => none

/-- chainFetcher.FetchTxByLoc(height, loc): reads the block at `height` of the CURRENT best chain -/
def Node.txByLoc (n : Node) (height : Nat) (loc : BlkId × Nat) : Option Tx :=
  match n.blockAt height with
  | some b => if b.id = loc.1 then b.txs[loc.2]? else none
  | none => none

-- ------------------------------------------------------------------ relevance records

structure Rel where
  index : Nat
  out : Out           -- the parsed script (of the previous output for inputs)
  wallet : Wid
  change : Bool
  deriving Repr, Inhabited

structure TxRec where
  tx : Tx
  relIn : List Rel := []
  relOut : List Rel := []
  hasBindingIn : Bool := false
  hasBindingOut : Bool := false
  loc : BlkId × Nat := ("", 0)
  deriving Repr, Inhabited

def uclassOf (c : Cls) : UClass :=
  if c.isStaking then .staking else if c.isBinding then .binding else .standard

-- ------------------------------------------------------------------ small store helpers

def readyWallets (s : Store) (wallets : List Wid) : List Wid :=
  wallets.filter (fun w => match AMap.get s.status w with
    | some st => st.synced.isNone && !st.removed
    | none => false)

def getBal (bals : AMap.T Wid Nat) (w : Wid) : Nat := (AMap.get bals w).getD 0

/-- utxoStore.ExistCreditFromTx: any credit whose key starts with this tx hash -/
def existCreditFromTx (s : Store) (id : TxId) : Bool := s.credits.any (fun e => e.1.tx = id)

/-- putRawUnminedInput: append the spender hash to the list stored under the outpoint -/
def putPendIn (m : AMap.T (TxId × Nat) (List TxId)) (k : TxId × Nat) (spender : TxId) :=
  AMap.put m k ((AMap.get m k).getD [] ++ [spender])

-- ------------------------------------------------------------------ unmined side (utxostore.go)

/-- insertUnminedInputs: only the relevant inputs -/
def insertUnminedInputs (s : Store) (tr : TxRec) : Store :=
  tr.relIn.foldl (fun s rel =>
    match tr.tx.ins[rel.index]? with
    | some i => { s with pendIns := putPendIn s.pendIns (i.tx, i.idx) tr.tx.id }
    | none => s) s

/-- deleteUnminedInputs: every input of the tx -/
def deleteUnminedInputs (s : Store) (tx : Tx) : Store :=
  tx.ins.foldl (fun s i =>
    match AMap.get s.pendIns (i.tx, i.idx) with
    | some (_ :: _) => { s with pendIns := AMap.erase s.pendIns (i.tx, i.idx) }
    | _ => s) s

def deleteUnminedCredits (s : Store) (tx : Tx) : Store :=
  (List.range tx.outs.length).foldl (fun s i => { s with pendCred := AMap.erase s.pendCred (tx.id, i) }) s

/-- createGameHistory -/
def gameOuts (tr : TxRec) : List Rel := tr.relOut.filter (fun r => r.out.cls.isStaking || r.out.cls.isBinding)

/-- addUnminedCredits -/
def addUnminedCredits (s : Store) (tr : TxRec) : M Store := do
  let mut s := s
  for rel in tr.relOut do
    if (AMap.get s.pendCred (tr.tx.id, rel.index)).isSome then throw .duplicate
    if (AMap.get s.unspent (rel.wallet, tr.tx.id, rel.index)).isSome then throw .duplicate
    let c : Credit := { amt := rel.out.amt, spent := false, change := rel.change, cls := uclassOf rel.out.cls,
                        maturity := rel.out.cls.maturity, sh := rel.out.addr, spentBy := none }
    s := { s with pendCred := AMap.put s.pendCred (tr.tx.id, rel.index) c }
  for rel in gameOuts tr do
    s := { s with pendGame := AMap.put s.pendGame (rel.wallet, rel.out.cls.isBinding, tr.tx.id, rel.index) () }
  pure s

/-- removeUnminedGameHistory: NOTE the code builds the key with vout left at 0 (history.vout is never
    assigned in the loop), so only the entry of output 0 can be deleted. Modelled as written. -/
def removeUnminedGameHistory (own : Own) (s : Store) (tx : Tx) : Store :=
  tx.outs.foldl (fun s o =>
    if o.cls.isStaking || o.cls.isBinding then
      match AMap.get own o.addr with
      | some (w, _) => { s with pendGame := AMap.erase s.pendGame (w, o.cls.isBinding, tx.id, 0) }
      | none => s
    else s) s

/-- removeConflict (txstore.go): remove a pending tx and, recursively, pending spenders of its outputs.
    `fuel` bounds the recursion depth (the pending set is a finite DAG; the driver passes its size + 1). -/
def removeConflict (own : Own) : Nat → Store → Tx → Store
  | 0, s, _ => s
  | fuel + 1, s, tx =>
    let s := (List.range tx.outs.length).foldl (fun s i =>
      let spenders := (AMap.get s.pendIns (tx.id, i)).getD []
      let s := spenders.foldl (fun s sp =>
        match AMap.get s.pending sp with
        | some sptx => removeConflict own fuel s sptx
        | none => s) s
      { s with pendCred := AMap.erase s.pendCred (tx.id, i) }) s
    let s := deleteUnminedInputs s tx
    let s := removeUnminedGameHistory own s tx
    { s with pending := AMap.erase s.pending tx.id }

/-- removeDoubleSpends: pending transactions spending an input of the mined tx are conflicts -/
def removeDoubleSpends (own : Own) (s : Store) (tr : TxRec) : Store :=
  let fuel := s.pending.length + 1
  let s := tr.relIn.foldl (fun s rel =>
    match tr.tx.ins[rel.index]? with
    | some i =>
      ((AMap.get s.pendIns (i.tx, i.idx)).getD []).foldl (fun s ds =>
        match AMap.get s.pending ds with
        | some dtx => removeConflict own fuel s dtx
        | none => s) s
    | none => s) s
  deleteUnminedInputs s tr.tx

/-- insertMemPoolTx + AddCredits(block = nil) -/
def addRelevantUnmined (s : Store) (tr : TxRec) : M Store := do
  if tr.tx.cb then throw (.other "coinbase unmined")
  if (AMap.get s.pending tr.tx.id).isSome then
    -- already there: insertMemPoolTx returns nil, then AddCredits → addUnminedCredits still runs
    if tr.relOut.isEmpty then pure s else addUnminedCredits s tr
  else
    let s := { s with pending := AMap.put s.pending tr.tx.id tr.tx }
    let s := insertUnminedInputs s tr
    if tr.relOut.isEmpty then pure s else addUnminedCredits s tr

-- ------------------------------------------------------------------ mined side

/-- updateMinedBalance (txstore.go): spend the credits consumed by the relevant inputs -/
def updateMinedBalance (s : Store) (bals : AMap.T Wid Nat) (tr : TxRec) (blk : BlockMeta) :
    M (Store × AMap.T Wid Nat) := do
  let mut s := s
  let mut bals := bals
  for rel in tr.relIn do
    let some i := tr.tx.ins[rel.index]? | throw (.other "input index")
    let some cblk := AMap.get s.unspent (rel.wallet, i.tx, i.idx) | throw .creditNotFound
    let ck : CredKey := ⟨i.tx, cblk, i.idx⟩
    let some c := AMap.get s.credits ck | throw (.other "short credit value")
    if c.spent then throw (.other "short v read")     -- spendCredit requires the 45-byte (unspent) value
    let dk : CredKey := ⟨tr.tx.id, blk, rel.index⟩
    s := { s with credits := AMap.put s.credits ck { c with spent := true, spentBy := some dk } }
    if rel.out.cls.isBinding || rel.out.cls.isStaking then
      let gk : GameKey := ⟨rel.wallet, rel.out.cls.isBinding, false, i.tx, cblk.height, i.idx⟩
      if (AMap.get s.game gk).isNone then throw (.other "withdraw game not found")
      s := { s with game := AMap.put (AMap.erase s.game gk) { gk with withdrawn := true } () }
    s := { s with debits := AMap.put s.debits dk (c.amt, ck) }
    s := { s with unspent := AMap.erase s.unspent (rel.wallet, i.tx, i.idx) }
    if getBal bals rel.wallet < c.amt then throw (.other "balance underflow")
    bals := AMap.put bals rel.wallet (getBal bals rel.wallet - c.amt)
  pure (s, bals)

/-- insertMinedTx -/
def insertMinedTx (own : Own) (s : Store) (bals : AMap.T Wid Nat) (tr : TxRec) (blk : BlockMeta) :
    M (Store × AMap.T Wid Nat × Bool) := do
  if (AMap.get s.txrecs (tr.tx.id, blk)).isSome then return (s, bals, true)
  let s := match AMap.get s.blocks blk.height with
    | none => { s with blocks := AMap.put s.blocks blk.height (blk.hash, [tr.tx.id]) }
    | some (h, txs) => { s with blocks := AMap.put s.blocks blk.height (h, txs ++ [tr.tx.id]) }
  let s := { s with txrecs := AMap.put s.txrecs (tr.tx.id, blk) tr.loc }
  let (s, bals) ← updateMinedBalance s bals tr blk
  let s := if (AMap.get s.pending tr.tx.id).isSome then
      let s := deleteUnminedCredits s tr.tx
      { s with pending := AMap.erase s.pending tr.tx.id }
    else s
  pure (removeDoubleSpends own s tr, bals, false)

/-- AddCredits for a mined tx -/
def addCredits (p : Params) (s : Store) (bals : AMap.T Wid Nat) (tr : TxRec) (blk : BlockMeta) :
    M (Store × AMap.T Wid Nat) := do
  if tr.relOut.isEmpty then return (s, bals)
  let mut s := s
  let mut bals := bals
  for rel in tr.relOut do
    let maturity := if tr.tx.cb then p.cbMaturity else rel.out.cls.maturity
    let ck : CredKey := ⟨tr.tx.id, blk, rel.index⟩
    if (AMap.get s.credits ck).isSome then throw .duplicate
    let ak := (rel.wallet, rel.out.cls.isStaking, rel.out.addr)
    s := match AMap.get s.addrs ak with
      | some h => if h = 0 then { s with addrs := AMap.put s.addrs ak blk.height } else s
      | none => { s with addrs := AMap.put s.addrs ak blk.height }
    let c : Credit := { amt := rel.out.amt, spent := false, change := rel.change, cls := uclassOf rel.out.cls,
                        maturity := maturity % 2^32, sh := rel.out.addr, spentBy := none }
    s := { s with credits := AMap.put s.credits ck c }
    s := { s with unspent := AMap.put s.unspent (rel.wallet, tr.tx.id, rel.index) blk }
    bals := AMap.put bals rel.wallet (getBal bals rel.wallet + rel.out.amt)
  for rel in gameOuts tr do
    s := { s with pendGame := AMap.erase s.pendGame (rel.wallet, rel.out.cls.isBinding, tr.tx.id, rel.index) }
    s := { s with game := AMap.put s.game ⟨rel.wallet, rel.out.cls.isBinding, false, tr.tx.id, blk.height, rel.index⟩ () }
  pure (s, bals)

/-- AddRelevantTx for a mined tx: InsertTx then AddCredits (AddCredits runs even when the tx record existed) -/
def addRelevantMined (p : Params) (own : Own) (s : Store) (bals : AMap.T Wid Nat) (tr : TxRec) (blk : BlockMeta) :
    M (Store × AMap.T Wid Nat) := do
  let (s, bals, _) ← insertMinedTx own s bals tr blk
  addCredits p s bals tr blk

-- ------------------------------------------------------------------ filterTx / filterBlock

structure Ctx where
  p : Params
  own : Own
  wallets : List Wid
  node : Node
  deriving Inhabited

/-- result of looking up the previous transaction of an input -/
inductive Prev | skip | found (t : Tx) | missing

/-- filterTx (ntfnshandler.go), relevance part; `blk = none` for an unconfirmed transaction.
    `inBlk` = transactions of the current block seen so far, including this one (recInCurBlk). -/
def filterTxRel (c : Ctx) (s : Store) (tx : Tx) (mined : Bool) (inBlk : List Tx) (ready : List Wid) :
    M (Option TxRec) := do
  let mut tr : TxRec := { tx := tx }
  if !tx.cb then
    let mut idx := 0
    for i in tx.ins do
      let cur := idx
      idx := idx + 1
      -- previous transaction lookup (the per-tx cache only avoids repeated lookups)
      let prev : Prev :=
        match (if mined then inBlk.find? (fun t => t.id = i.tx) else none) with
        | some t => .found t
        | none =>
          if mined && !existCreditFromTx s i.tx then .skip
          else match c.node.fetchTx i.tx with
            | some t => .found t
            | none => match AMap.get s.pending i.tx with
              | some t => .found t
              | none => .missing
      match prev with
      | .skip => pure ()
      | .missing => throw (if mined then .chainRevoked else .invalidTx)
      | .found pt =>
        let some o := pt.outs[i.idx]? | throw .invalidTx
        if o.cls = .raw then pure ()
        else match AMap.get c.own o.addr with
          | some (w, ch) =>
            if ready.contains w then
              tr := { tr with hasBindingIn := o.cls.isBinding,
                                relIn := tr.relIn ++ [{ index := cur, out := o, wallet := w, change := ch }] }
          | none => pure ()
  let mut oi := 0
  for o in tx.outs do
    let cur := oi
    oi := oi + 1
    if o.cls = .raw then pure ()
    else match AMap.get c.own o.addr with
      | some (w, ch) =>
        if ready.contains w then
          tr := { tr with hasBindingOut := o.cls.isBinding,
                            relOut := tr.relOut ++ [{ index := cur, out := o, wallet := w, change := ch }] }
      | none => pure ()
  if tr.relIn.isEmpty && tr.relOut.isEmpty then return none
  if tr.hasBindingIn && tr.hasBindingOut then throw .bothBinding
  pure (some tr)

/-- putSyncedTo -/
def putSyncedTo (s : Store) (blk : BlockMeta) : M Store := do
  if blk.height > 0 && (AMap.get s.sync (blk.height - 1)).isNone then throw (.other "syncedTo too great")
  if (AMap.get s.sync (blk.height + 1)).isSome then throw (.other "syncedTo smaller than last")
  pure { s with sync := AMap.put s.sync blk.height blk.hash, syncedTo := blk.height }

/-- filterBlock + onRelevantBlockConnected + SetSyncedTo; returns the confirmed relevant tx ids -/
def filterBlock (c : Ctx) (s : Store) (ready : List Wid) (b : Block) : M (Store × List TxId) := do
  let bm : BlockMeta := ⟨b.height, b.id⟩
  let some onChain := c.node.blockAt b.height | throw (.other "FetchBlockLocByHeight")
  if onChain.id ≠ b.id then throw .chainRevoked
  let mut relevant : List TxRec := []
  if !ready.isEmpty then
    let mut seen : List Tx := []
    let mut ti := 0
    for tx in b.txs do
      let cur := ti
      ti := ti + 1
      seen := seen ++ [tx]
      match ← filterTxRel c s tx true seen ready with
      | some tr => relevant := relevant ++ [{ tr with loc := (b.id, cur) }]
      | none => pure ()
  let confirmed := relevant.map (·.tx.id)
  let mut s := s
  if !relevant.isEmpty then
    -- FetchAllMinedBalance restricted to ready wallets
    let mut bals : AMap.T Wid Nat := s.balance.filter (fun e => ready.contains e.1)
    for tr in relevant do
      let (s', bals') ← addRelevantMined c.p c.own s bals tr bm
      s := s'
      bals := bals'
    -- UpdateMinedBalances
    s := { s with balance := bals.foldl (fun m e => AMap.put m e.1 e.2) s.balance }
  let s2 ← putSyncedTo s bm
  pure (s2, confirmed)

-- ------------------------------------------------------------------ Rollback (txstore.go)

/-- address record repair on rollback (after the D5 fix: reset the first-use height instead of deleting) -/
def rollbackAddr (s : Store) (w : Wid) (o : Out) (curHeight : Nat) : Store :=
  let ak := (w, o.cls.isStaking, o.addr)
  match AMap.get s.addrs ak with
  | some h => if curHeight > 0 && h = curHeight then { s with addrs := AMap.put s.addrs ak 0 } else s
  | none => s

/-- roll back one transaction record of block `blk` (the body of the inner loop of Rollback).
    Returns the new store, balances and the coinbase credits removed. -/
def rollbackTx (c : Ctx) (s : Store) (bals : AMap.T Wid Nat) (blk : BlockMeta) (id : TxId) :
    M (Store × AMap.T Wid Nat × List (TxId × Nat)) := do
  let some loc := AMap.get s.txrecs (id, blk) | return (s, bals, [])    -- readTxRecordLoc fails: continue
  let some tx := c.node.txByFileLoc loc | throw (.other "FetchTxByFileLoc")
  let mut s := { s with txrecs := AMap.erase s.txrecs (id, blk) }
  let mut bals := bals
  if tx.cb then
    let mut removed : List (TxId × Nat) := []
    let mut oi := 0
    for o in tx.outs do
      let i := oi
      oi := oi + 1
      let ck : CredKey := ⟨id, blk, i⟩
      if (AMap.get s.credits ck).isNone then continue
      s := { s with credits := AMap.erase s.credits ck }
      removed := removed ++ [(id, i)]
      if o.cls = .raw then throw (.other "parse")
      let some (w, _) := AMap.get c.own o.addr | continue
      if (AMap.get s.unspent (w, id, i)).isSome then
        s := { s with unspent := AMap.erase s.unspent (w, id, i) }
        if getBal bals w < o.amt then throw (.other "balance underflow")
        bals := AMap.put bals w (getBal bals w - o.amt)
      s := rollbackAddr s w o blk.height
    return (s, bals, removed)
  -- non-coinbase: back to the pending set (after the D1 fix: a readable pending record)
  s := { s with pending := AMap.put s.pending id tx }
  let mut ii := 0
  for i in tx.ins do
    let cur := ii
    ii := ii + 1
    s := { s with pendIns := putPendIn s.pendIns (i.tx, i.idx) id }
    let dk : CredKey := ⟨id, blk, cur⟩
    let some (_, ck) := AMap.get s.debits dk | continue
    s := { s with debits := AMap.erase s.debits dk }
    let some cr := AMap.get s.credits ck | throw (.other "unspend non-existent credit")
    let cr' := { cr with spent := false, spentBy := none }
    s := { s with credits := AMap.put s.credits ck cr' }
    let some (w, _) := AMap.get c.own cr'.sh | continue
    s := { s with unspent := AMap.put s.unspent (w, i.tx, i.idx) ck.blk }
    bals := AMap.put bals w (getBal bals w + cr'.amt)
    if cr'.cls = .staking || cr'.cls = .binding then
      let gk : GameKey := ⟨w, cr'.cls = .binding, true, i.tx, ck.blk.height, i.idx⟩
      if (AMap.get s.game gk).isNone then throw (.other "unwithdraw game not found")
      s := { s with game := AMap.put (AMap.erase s.game gk) { gk with withdrawn := false } () }
  let mut oi := 0
  for o in tx.outs do
    let i := oi
    oi := oi + 1
    let ck : CredKey := ⟨id, blk, i⟩
    let some cr := AMap.get s.credits ck | continue
    s := { s with credits := AMap.erase s.credits ck }
    s := { s with pendCred := AMap.put s.pendCred (id, i) { cr with spentBy := none } }   -- first 45 bytes (flags kept)
    if o.cls = .raw then throw (.other "parse")
    let some (w, _) := AMap.get c.own o.addr | continue
    if (AMap.get s.unspent (w, id, i)).isSome then
      s := { s with unspent := AMap.erase s.unspent (w, id, i) }
      if getBal bals w < o.amt then throw (.other "balance underflow")
      bals := AMap.put bals w (getBal bals w - o.amt)
    s := rollbackAddr s w o blk.height
    if o.cls.isStaking || o.cls.isBinding then
      s := { s with game := AMap.erase s.game ⟨w, o.cls.isBinding, false, id, blk.height, i⟩ }
      s := { s with pendGame := AMap.put s.pendGame (w, o.cls.isBinding, id, i) () }
  pure (s, bals, [])

/-- TxStore.Rollback(height): undo every block record from the synced tip down to `height` -/
def rollback (c : Ctx) (s : Store) (height : Nat) : M Store := do
  let mut s := s
  let mut bals : AMap.T Wid Nat := s.balance      -- FetchAllMinedBalance
  let mut cbRemoved : List (TxId × Nat) := []
  let mut heights : List Nat := []
  -- for curHeight := syncedTo; height <= curHeight; curHeight--
  for k in List.range (s.syncedTo + 1 - height) do
    let cur := s.syncedTo - k
    let some (bh, txs) := AMap.get s.blocks cur | continue
    heights := heights ++ [cur]
    for id in txs.reverse do
      let (s', bals', rem) ← rollbackTx c s bals ⟨cur, bh⟩ id
      s := s'
      bals := bals'
      cbRemoved := cbRemoved ++ rem
  for h in heights do
    s := { s with blocks := AMap.erase s.blocks h }
  -- pending spenders of removed coinbase outputs are conflicts
  for op in cbRemoved do
    for sp in (AMap.get s.pendIns op).getD [] do
      match AMap.get s.pending sp with
      | some t => s := removeConflict c.own (s.pending.length + 1) s t
      | none => pure ()
  pure { s with balance := bals.foldl (fun m e => AMap.put m e.1 e.2) s.balance }

/-- resetSyncedTo -/
def resetSyncedTo (s : Store) (height : Nat) : Store :=
  let sync := (List.range (s.syncedTo - height)).foldl (fun m k => AMap.erase m (s.syncedTo - k)) s.sync
  { s with sync := sync, syncedTo := if s.syncedTo > height then height else s.syncedTo }

/-- disconnectBlock -/
def disconnectBlock (c : Ctx) (s : Store) (height : Nat) : M Store := do
  if height = 0 then throw (.other "genesis")
  if height > s.syncedTo then return s
  let s1 ← rollback c s height
  let s := resetSyncedTo s1 (height - 1)
  -- importing wallets: pull the cursor back
  let status := s.status.map (fun e =>
    match e.2.synced with
    | some h => if h > height - 1 then (e.1, { e.2 with synced := some (height - 1) }) else e
    | none => e)
  pure { s with status := status }

/-- reorg (ntfnshandler.go). Returns store, rolled-back heights, (height, confirmed ids) of connected blocks. -/
def reorg (c : Ctx) (s : Store) (best : BlockMeta) (newBest : Block) :
    M (Store × List Nat × List (Nat × List TxId)) := do
  let mut s := s
  let mut toConnect : List Block := []
  let mut nb := newBest
  let mut cur := best
  let mut rolled : List Nat := []
  -- step 1: align heights (walk the new branch back)
  for _ in List.range (newBest.height + 1) do
    if cur.height < nb.height then
      toConnect := nb :: toConnect
      let some pb := c.node.fetchBlock nb.prev | throw .chainRevoked
      nb := pb
  if cur.hash ≠ nb.id then
    for _ in List.range (best.height + 1) do
      if cur.height > nb.height then
        s ← disconnectBlock c s cur.height
        rolled := rolled ++ [cur.height]
        cur := { cur with height := cur.height - 1 }
    let some bh := AMap.get s.sync cur.height | throw (.other "synced block not found")
    cur := ⟨cur.height, bh⟩
    if cur.hash ≠ nb.id then
      if cur.height = 0 then throw (.other "prev synced block not found")
      let some ph := AMap.get s.sync (cur.height - 1) | throw (.other "prev synced block not found")
      let mut prevH := cur.height - 1
      let mut prevHash := ph
      let mut tail := nb
      let mut done := false
      for _ in List.range (best.height + 2) do
        if !done then
          if tail.prev ≠ prevHash then
            s ← disconnectBlock c s (prevH + 1)
            rolled := rolled ++ [prevH + 1]
            toConnect := tail :: toConnect
            if prevH = 0 then throw (.other "prev synced block not found")
            let some ph' := AMap.get s.sync (prevH - 1) | throw (.other "prev synced block not found")
            prevH := prevH - 1
            prevHash := ph'
            let some pb := c.node.fetchBlock tail.prev | throw .chainRevoked
            tail := pb
          else
            done := true
      if !done then throw (.other "walk-back fuel exhausted")
      s ← disconnectBlock c s (prevH + 1)
      rolled := rolled ++ [prevH + 1]
      toConnect := tail :: toConnect
  let ready := readyWallets s c.wallets
  let mut added : List (Nat × List TxId) := []
  for b in toConnect do
    let (s', conf) ← filterBlock c s ready b
    s := s'
    added := added ++ [(b.height, conf)]
  pure (s, rolled, added)

/-- MaxMemPoolExpire -/
def maxMemPoolExpire : Nat := 1024

/-- processConnectedBlock: one database transaction, then the volatile update on success only -/
def processBlock (c : Ctx) (s : Store) (v : Vol) (b : Block) : Store × Vol × Bool :=
  let r : M (Store × List Nat × List (Nat × List TxId)) :=
    if b.prev = v.best.hash then do
      let ready := readyWallets s c.wallets
      let (s', conf) ← filterBlock c s ready b
      pure (s', [], [(b.height, conf)])
    else reorg c s v.best b
  match r with
  | .error _ => (s, v, false)          -- mwdb.Update rolled back; bestBlock unchanged
  | .ok (s', rolled, added) =>
    let (mem, exp) := rolled.foldl (fun (me : List TxId × AMap.T Nat (List TxId)) h =>
      match AMap.get me.2 h with
      | some ids => (me.1 ++ ids.filter (fun i => !me.1.contains i), AMap.erase me.2 h)
      | none => (me.1, AMap.erase me.2 h)) (v.mempool, v.expired)
    let (mem, exp) := added.foldl (fun (me : List TxId × AMap.T Nat (List TxId)) hc =>
      let exp := AMap.put me.2 hc.1 hc.2
      if hc.1 > maxMemPoolExpire then
        match AMap.get exp (hc.1 - maxMemPoolExpire) with
        | some old => (me.1.filter (fun i => !old.contains i), AMap.erase exp (hc.1 - maxMemPoolExpire))
        | none => (me.1, exp)
      else (me.1, exp)) (mem, exp)
    (s', { best := ⟨b.height, b.id⟩, mempool := mem, expired := exp }, true)

/-- the unconfirmed path of filterTx (below the sync-height gate): own database transaction -/
def recvTx (c : Ctx) (s : Store) (v : Vol) (tx : Tx) : Store × Vol × Bool :=
  if v.mempool.contains tx.id then (s, v, true)
  else
    let ready := readyWallets s c.wallets
    match filterTxRel c s tx false [] ready with
    | .error _ => (s, v, false)
    | .ok none => (s, v, true)
    | .ok (some tr) =>
      match addRelevantUnmined s tr with
      | .error _ => (s, v, false)
      | .ok s' => (s', { v with mempool := v.mempool ++ [tx.id] }, true)

-- ------------------------------------------------------------------ queries

def u64 (n : Int) : Nat := (n % (2^64 : Int)).toNat

/-- confs = syncHeight - height + 1 in uint64 arithmetic -/
def confs (sync height : Nat) : Nat := u64 ((sync : Int) - (height : Int) + 1)

structure Coin where
  wallet : Wid
  tx : TxId
  idx : Nat
  blk : BlockMeta
  cred : Credit
  deriving Repr, Inhabited

/-- the unspent index of wallet w joined with the credit table (both balance and coin queries do this) -/
def coinsOf (s : Store) (w : Wid) : List Coin :=
  s.unspent.filterMap (fun e =>
    let (w', tx, idx) := e.1
    if w' = w then
      match AMap.get s.credits ⟨tx, e.2, idx⟩ with
      | some c => if c.amt = 0 then none else some ⟨w, tx, idx, e.2, c⟩
      | none => none
    else none)

structure Balance where
  total : Nat
  spendable : Nat
  wStaking : Nat
  wBinding : Nat
  deriving Repr, DecidableEq, Inhabited

/-- WalletBalance(detail): total is overwritten by the gross (bucket) balance -/
def walletBalance (s : Store) (w : Wid) (minConf : Nat) : Option Balance :=
  match AMap.get s.balance w with
  | none => none
  | some gross =>
    let cs := coinsOf s w
    let ok := cs.filter (fun c => confs s.syncedTo c.blk.height ≥ minConf ∧ confs s.syncedTo c.blk.height ≥ c.cred.maturity)
    let sum (p : Coin → Bool) := ((ok.filter p).map (·.cred.amt)).sum
    some ⟨gross, sum (fun c => c.cred.cls = .standard), sum (fun c => c.cred.cls = .staking), sum (fun c => c.cred.cls = .binding)⟩

/-- spent_by_unmined after the D3 fix: looked up by outpoint -/
def spentByUnmined (s : Store) (tx : TxId) (idx : Nat) : Bool := (AMap.get s.pendIns (tx, idx)).isSome

end MW.Model.Ledger
