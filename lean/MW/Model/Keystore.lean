/-
  MODEL of the keystore (engine `ks`; properties C12 and C04).

  Go code followed (masswallet/keystore/…):
    manager.go   createManagerKeyScope (incl. the two restore scan loops and safeUint32Add),
                 initAcctBucket, create/NewKeystore, allocAddrMgrNamespace/ImportKeystore,
                 ImportKeystoreWithMnemonic, ExportKeystore, loadAddrManager, NewKeystoreManager,
                 NextAddresses, UseKeystoreForWallet, ChangePubPassphrase, ClearPrivKey, SignHash
    addrmgr.go   nextAddresses (gap-limit window), updateManagedAddress, export, updatePrivKeys,
                 clearPrivKeys, getPrivKeyBtcec/signBtcec
    db.go        which records are persisted: account row (xpub/xprv), branch xpubs, exChildNum /
                 inChildNum, bucket "pub" ((branch,index) ↦ public key), master-key parameters
                 (the passphrases that open them), encrypted entropy
    address.go / script.go  an address is a function of the public key (1-of-1 witness script hash)
    util.go      the wallet id is a function of the account public key (bech32 "ac", version 15)
    validate.go  ValidatePassphrase
  Key derivation is ABSTRACT (`Scheme`): BIP-39 and BIP-32 are the subject of C13 / C14. Secrets are
  symbolic: a record "encrypted under the private passphrase" is a field that the model only reads
  on the code paths that hold the passphrase (secrecy itself is C05). The chain's "script hash used"
  index (chainFetcher.CheckScriptHashUsed) is part of the environment: a function `used`.
  hdkeychain.ErrInvalidChild (probability 2^-127 per child) is not modelled: derivation is total.
-/
import MW.Base.AMap
namespace MW.Model.Keystore
open MW

/-- Abstract key derivation. `master mn pass coin` is the private account key
    m/44'/coin'/1' of NewSeed(mnemonic, passphrase) (NewMaster, deriveCoinTypeKey, deriveAccountKey);
    `ckdPriv`/`ckdPub` are non-hardened ExtendedKey.Child on private / public keys; `pubOf` is
    Neuter (ECPubKey); `idOf` is pubKeyToAccountID; `addrOf` the witness script hash of the 1-of-1
    multisig script of the key (newWitnessScriptAddressForBtcec). -/
structure Scheme (Priv Pub Addr : Type) where
  master : String → String → Nat → Priv
  ckdPriv : Priv → Nat → Priv
  ckdPub : Pub → Nat → Pub
  pubOf : Priv → Pub
  idOf : Pub → String
  addrOf : Pub → Addr

/-- The curve law behind BIP-32 public derivation (C14 `neuter_child_comm`):
    neutering commutes with non-hardened child derivation. -/
structure Curve (Priv Pub Addr : Type) extends Scheme Priv Pub Addr where
  neuter_ckd : ∀ (k : Priv) (i : Nat), pubOf (ckdPriv k i) = ckdPub (pubOf k) i

inductive Err
  | gapLimit            -- ErrGapLimit
  | tooMany             -- ErrExceedAllowedNumberPerAccount
  | noCurrent           -- ErrCurrentKeystoreNotFound
  | notFound            -- ErrAccountNotFound / ErrAddressNotFound
  | inconsistent        -- "failed to get managedAddress"
  | dupSeed             -- ErrDuplicateSeed
  | badPass             -- ErrInvalidPassphrase
  | coinType            -- ErrCoinType
  | acctType            -- ErrAccountType
  | badPubPass          -- "invalid passphrase for master public key"
  | samePub             -- ErrSamePubpass
  | illegalPass         -- ErrIllegalPassphrase / ErrIllegalNewPubPass / ErrIllegalNewPrivPass
  | fuel                -- model only: scan fuel exhausted (see `scan_fuel_suffices`)
  deriving DecidableEq, Repr, Inhabited

/-- MaxAddressesPerAccount = hdkeychain.HardenedKeyStart - 1 -/
def maxAddrs : Nat := 2^31 - 1

abbrev externalBranch : Nat := 0
abbrev internalBranch : Nat := 1
/-- WalletUsage -/
abbrev walletUsage : Nat := 1

section
variable {Priv Pub Addr : Type}

/-- ManagedAddress: public key, derivation path (branch, index), script hash -/
structure MAddr (Pub Addr : Type) where
  pub : Pub
  branch : Nat
  index : Nat
  addr : Addr

/-- the account bucket km/<walletId> (db.go) -/
structure Rec (Priv Pub : Type) where
  mnemonic : String          -- "ent": entropy, encrypted under "cent" ← master private key
  pass : String              -- the private passphrase that opens "mpriv"
  pubParams : String         -- the public passphrase that opens "mpub"
  coin : Nat                 -- "coinType"
  acctPub : Pub              -- account row, public extended key (under "cpub")
  acctPriv : Priv            -- account row, private extended key (under "cpriv")
  inPub : Pub                -- "inbPubKey"
  exPub : Pub                -- "exbPubKey"
  exNum : Nat                -- "exChildNum"
  inNum : Nat                -- "inChildNum"
  pubs : AMap.T (Nat × Nat) Pub    -- bucket "pub": (branch, index) ↦ public key

/-- AddrManager: the volatile cache of one account -/
structure Mgr (Pub Addr : Type) where
  index : AMap.T (Nat × Nat) Addr := []        -- (branch, child index) ↦ address
  addrs : AMap.T Addr (MAddr Pub Addr) := []   -- address ↦ managed address
  hasPriv : Bool := false                      -- acctInfo.acctKeyPriv ≠ nil (updatePrivKeys)

/-- KeystoreManager over one wallet database -/
structure KS (Priv Pub Addr : Type) where
  recs : AMap.T String (Rec Priv Pub) := []         -- persistent: km/<id> (and the "aid" id bucket)
  mgrs : AMap.T String (Mgr Pub Addr) := []         -- managedKeystores
  pubPass : String := ""                            -- km.pubPassphrase
  current : Option String := none                   -- currentKeystore

/-- exported keystore file (addrmgr.go export / Keystore JSON) -/
structure Json where
  mnemonic : String    -- crypto.entropyEnc + cryptoKeyEntropyEnc
  pass : String        -- crypto.privParams: the passphrase that opens them
  coin : Nat           -- hdPath.Coin
  account : Nat        -- hdPath.Account
  ex : Nat             -- hdPath.ExternalChildNum
  inn : Nat            -- hdPath.InternalChildNum
  deriving DecidableEq, Repr, Inhabited

variable [DecidableEq Addr] (sch : Scheme Priv Pub Addr)

def mkAddr (p : Pub) (b i : Nat) : MAddr Pub Addr := ⟨p, b, i, sch.addrOf p⟩

/-- updateManagedAddress, cache part: one address -/
def Mgr.add (m : Mgr Pub Addr) (a : MAddr Pub Addr) : Mgr Pub Addr :=
  { m with addrs := AMap.put m.addrs a.addr a, index := AMap.put m.index (a.branch, a.index) a.addr }

/-- loadAddrManager: rebuild the cache from bucket "pub" -/
def loadMgr (pubs : AMap.T (Nat × Nat) Pub) : Mgr Pub Addr :=
  pubs.foldr (fun e m => Mgr.add m (mkAddr sch e.2 e.1.1 e.1.2)) {}

/-- the window loop of nextAddresses: `for i := start; i < next; i++` over the cache -/
def windowPass (m : Mgr Pub Addr) (used : Addr → Bool) (b : Nat) : List Nat → Except Err Bool
  | [] => .ok false
  | i :: is =>
    match AMap.get m.index (b, i) with
    | none => windowPass m used b is                    -- `continue`
    | some a =>
      match AMap.get m.addrs a with
      | none => .error .inconsistent
      | some ma => if used ma.addr then .ok true else windowPass m used b is

/-- public key of child `i` on branch `b` as nextAddresses derives it: from the private account key
    when it is in memory, else from the public account key -/
def issuePub (r : Rec Priv Pub) (hasPriv : Bool) (b i : Nat) : Pub :=
  if hasPriv then sch.pubOf (sch.ckdPriv (sch.ckdPriv r.acctPriv b) i)
  else sch.ckdPub (sch.ckdPub r.acctPub b) i

def Rec.next (r : Rec Priv Pub) (internal : Bool) : Nat := if internal then r.inNum else r.exNum

def Rec.setNext (r : Rec Priv Pub) (internal : Bool) (n : Nat) : Rec Priv Pub :=
  if internal then { r with inNum := n } else { r with exNum := n }

/-- AddrManager.nextAddresses: returns the updated account bucket and the new managed addresses -/
def nextAddresses (r : Rec Priv Pub) (m : Mgr Pub Addr) (used : Addr → Bool) (internal : Bool)
    (num gap : Nat) : Except Err (Rec Priv Pub × List (MAddr Pub Addr)) :=
  let b := if internal then internalBranch else externalBranch
  let next := r.next internal
  if num > maxAddrs || num + next > maxAddrs then .error .tooMany
  else if num > gap then .error .gapLimit
  else
    let gate : Except Err Bool :=
      if next ≠ 0 && next + num > gap then
        let start := next + num - gap - 1
        windowPass m used b (List.range' start (next - start))
      else .ok true
    match gate with
    | .error e => .error e
    | .ok false => .error .gapLimit
    | .ok true =>
      let mas := (List.range' next num).map (fun i => mkAddr sch (issuePub sch r m.hasPriv b i) b i)
      let r' := r.setNext internal (next + num)
      .ok ({ r' with pubs := mas.foldl (fun p a => AMap.put p (b, a.index) a.pub) r'.pubs }, mas)

/-- updateManagedAddress -/
def updateManaged (m : Mgr Pub Addr) (mas : List (MAddr Pub Addr)) : Mgr Pub Addr :=
  mas.foldl Mgr.add m

/-- safeUint32Add -/
def safeAdd (a b : Nat) : Nat := if a + b < 2^32 then a + b else 2^32 - 1

/-- the restore loop of createManagerKeyScope on one branch:
    `for i := 0; i < safeAdd(nextIndex, gap) || i < safeAdd(hint, gap); i++ { if used(i) { nextIndex = i+1 } }`
    returns (number of addresses derived, nextIndex). `used i` = the chain index has the script hash
    of child `i`. Needs fuel: the loop is unbounded in the code (it ends because a chain is finite). -/
def scan (used : Nat → Bool) (gap hint : Nat) : Nat → Nat → Nat → Option (Nat × Nat)
  | 0, _, _ => none
  | fuel + 1, i, next =>
    if i < safeAdd next gap || i < safeAdd hint gap then
      scan used gap hint fuel (i + 1) (if used i then i + 1 else next)
    else some (i, next)

/-- one branch of createManagerKeyScope: (child number stored, public keys stored).
    `hint = 0` skips the loop (child number stays 0). The code stores `addressInfo[:nextIndex]`. -/
def restoreBranch (brPub : Pub) (used : Addr → Bool) (gap hint fuel : Nat) :
    Except Err (Nat × List (Nat × Pub)) :=
  if hint = 0 then .ok (0, [])
  else
    match scan (fun i => used (sch.addrOf (sch.ckdPub brPub i))) gap hint fuel 0 0 with
    | none => .error .fuel
    | some (_, next) =>
      let n := if next < hint then hint else next
      .ok (n, (List.range n).map (fun i => (i, sch.ckdPub brPub i)))

/-- createManagerKeyScope + the record writes of initAcctBucket / allocAddrMgrNamespace:
    derive the account, refuse a known seed, scan both branches, write the account bucket. -/
def createScope (ks : KS Priv Pub Addr) (mn pass : String) (coin : Nat) (hintEx hintIn : Nat)
    (used : Addr → Bool) (gap fuel : Nat) : Except Err (String × Rec Priv Pub) :=
  let acctPriv := sch.master mn pass coin
  let acctPub := sch.pubOf acctPriv
  let id := sch.idOf acctPub
  if (AMap.get ks.recs id).isSome then .error .dupSeed
  else
    let inPub := sch.pubOf (sch.ckdPriv acctPriv internalBranch)
    let exPub := sch.pubOf (sch.ckdPriv acctPriv externalBranch)
    match restoreBranch sch inPub used gap hintIn fuel with
    | .error e => .error e
    | .ok (inNum, inPubs) =>
      match restoreBranch sch exPub used gap hintEx fuel with
      | .error e => .error e
      | .ok (exNum, exPubs) =>
        let pubs0 : AMap.T (Nat × Nat) Pub := inPubs.foldl (fun p e => AMap.put p (internalBranch, e.1) e.2) []
        let pubs := exPubs.foldl (fun p e => AMap.put p (externalBranch, e.1) e.2) pubs0
        .ok (id, { mnemonic := mn, pass := pass, pubParams := ks.pubPass, coin := coin, acctPub := acctPub,
                   acctPriv := acctPriv, inPub := inPub, exPub := exPub, exNum := exNum, inNum := inNum,
                   pubs := pubs })

/-- install a freshly written account bucket: loadAddrManager + managedKeystores[id] -/
def KS.install (ks : KS Priv Pub Addr) (id : String) (r : Rec Priv Pub) : KS Priv Pub Addr :=
  { ks with recs := AMap.put ks.recs id r, mgrs := AMap.put ks.mgrs id (loadMgr sch r.pubs) }

/-- ValidatePassphrase: ^[0-9a-zA-Z@#$%^&]{6,40}$ -/
def validPass (s : String) : Bool :=
  6 ≤ s.length && s.length ≤ 40 &&
    s.toList.all (fun c => c.isAlphanum || c = '@' || c = '#' || c = '$' || c = '%' || c = '^' || c = '&')

/-- KeystoreManager.NewKeystore (create + initAcctBucket with hints 0/0 + loadAddrManager).
    The mnemonic is the environment's choice (fresh entropy). -/
def newKeystore (ks : KS Priv Pub Addr) (mn pass : String) (coin gap : Nat) :
    Except Err (KS Priv Pub Addr × String) :=
  if !validPass pass || !validPass ks.pubPass || pass = ks.pubPass then .error .illegalPass
  else
    match createScope sch ks mn pass coin 0 0 (fun _ => false) gap 1 with
    | .error e => .error e
    | .ok (id, r) => .ok (ks.install sch id r, id)

/-- KeystoreManager.ImportKeystoreWithMnemonic -/
def importMnemonic (ks : KS Priv Pub Addr) (mn pass : String) (coin hintEx hintIn : Nat)
    (used : Addr → Bool) (gap fuel : Nat) : Except Err (KS Priv Pub Addr × String) :=
  let hintEx := if hintEx = 0 then 1 else hintEx
  match createScope sch ks mn pass coin hintEx hintIn used gap fuel with
  | .error e => .error e
  | .ok (id, r) => .ok (ks.install sch id r, id)

/-- KeystoreManager.ImportKeystore (getKeystoreFromJson, coin / account checks, allocAddrMgrNamespace) -/
def importKeystore (ks : KS Priv Pub Addr) (j : Json) (pass : String) (coin : Nat)
    (used : Addr → Bool) (gap fuel : Nat) : Except Err (KS Priv Pub Addr × String) :=
  if j.coin ≠ coin then .error .coinType
  else if j.account ≠ walletUsage then .error .acctType
  else if pass ≠ j.pass then .error .badPass          -- unmarshalMasterPrivKey
  else
    let hintEx := if j.ex = 0 then 1 else j.ex
    match createScope sch ks j.mnemonic pass coin hintEx j.inn used gap fuel with
    | .error e => .error e
    | .ok (id, r) => .ok (ks.install sch id r, id)

/-- KeystoreManager.ExportKeystore / AddrManager.exportKeystore / export -/
def exportKeystore (ks : KS Priv Pub Addr) (id pass : String) : Except Err Json :=
  match AMap.get ks.mgrs id, AMap.get ks.recs id with
  | some _, some r =>
    if pass ≠ r.pass then .error .badPass
    else .ok { mnemonic := r.mnemonic, pass := r.pass, coin := r.coin, account := walletUsage,
               ex := r.exNum, inn := r.inNum }
  | _, _ => .error .notFound

/-- KeystoreManager.UseKeystoreForWallet -/
def useKeystore (ks : KS Priv Pub Addr) (id : String) : Except Err (KS Priv Pub Addr) :=
  if (AMap.get ks.mgrs id).isSome then .ok { ks with current := some id } else .error .notFound

/-- KeystoreManager.NextAddresses (nextAddresses + updateManagedAddress) on the current keystore -/
def ksNextAddresses (ks : KS Priv Pub Addr) (used : Addr → Bool) (internal : Bool) (num gap : Nat) :
    Except Err (KS Priv Pub Addr × List (MAddr Pub Addr)) :=
  match ks.current with
  | none => .error .noCurrent
  | some id =>
    match AMap.get ks.recs id, AMap.get ks.mgrs id with
    | some r, some m =>
      match nextAddresses sch r m used internal num gap with
      | .error e => .error e
      | .ok (r', mas) =>
        .ok ({ ks with recs := AMap.put ks.recs id r', mgrs := AMap.put ks.mgrs id (updateManaged m mas) }, mas)
    | _, _ => .error .notFound

/-- NewKeystoreManager: open a wallet database with a public passphrase -/
def openKS (recs : AMap.T String (Rec Priv Pub)) (pubPass : String) : Except Err (KS Priv Pub Addr) :=
  if recs.any (fun e => e.2.pubParams ≠ pubPass) then .error .badPubPass
  else .ok { recs := recs, mgrs := recs.map (fun e => (e.1, loadMgr sch e.2.pubs)), pubPass := pubPass, current := none }

/-- KeystoreManager.ChangePubPassphrase (one database transaction: all accounts or none) -/
def changePubPass (ks : KS Priv Pub Addr) (old new : String) : Except Err (KS Priv Pub Addr) :=
  if !validPass new then .error .illegalPass
  else if new = old then .error .samePub
  else if ks.recs.any (fun e => (AMap.get ks.mgrs e.1).isSome && e.2.pass = new) then .error .illegalPass
  else if ks.recs.any (fun e => (AMap.get ks.mgrs e.1).isSome && e.2.pubParams ≠ old) then .error .badPubPass
  else .ok { ks with recs := ks.recs.map (fun e => (e.1, { e.2 with pubParams := new })), pubPass := new }

/-- AddrManager.updatePrivKeys after checkPassword (test-only in the code base; reached through the
    verification hook): the private account key stays in memory -/
def loadPriv (ks : KS Priv Pub Addr) (id pass : String) : Except Err (KS Priv Pub Addr) :=
  match AMap.get ks.recs id, AMap.get ks.mgrs id with
  | some r, some m =>
    if pass ≠ r.pass then .error .badPass
    else .ok { ks with mgrs := AMap.put ks.mgrs id { m with hasPriv := true } }
  | _, _ => .error .notFound

/-- KeystoreManager.ClearPrivKey -/
def clearPriv (ks : KS Priv Pub Addr) : KS Priv Pub Addr :=
  { ks with mgrs := ks.mgrs.map (fun e => (e.1, { e.2 with hasPriv := false })) }

/-- getAddrManager: the managed keystore that caches the address -/
def findMgr (ks : KS Priv Pub Addr) (a : Addr) : Option (String × MAddr Pub Addr) :=
  ks.mgrs.findSome? (fun e => (AMap.get e.2.addrs a).map (fun ma => (e.1, ma)))

/-- the private key getPrivKeyBtcec derives for a managed address: account key → branch → index -/
def signKey (r : Rec Priv Pub) (ma : MAddr Pub Addr) : Priv :=
  sch.ckdPriv (sch.ckdPriv r.acctPriv ma.branch) ma.index

/-- KeystoreManager.SignHash: locate the address, check the passphrase, derive the private key.
    Returns the private key used and the public key the address was built from. -/
def signWith (ks : KS Priv Pub Addr) (a : Addr) (pass : String) : Except Err (Priv × Pub) :=
  match findMgr ks a with
  | none => .error .notFound
  | some (id, ma) =>
    match AMap.get ks.recs id with
    | none => .error .notFound
    | some r => if pass ≠ r.pass then .error .badPass else .ok (signKey sch r ma, ma.pub)

end
end MW.Model.Keystore

namespace MW.Model.Keystore
open MW
section
variable {Priv Pub Addr : Type} [DecidableEq Addr] (sch : Scheme Priv Pub Addr)

/-- the ledger's address bucket `a`: (wallet, staking class?, address) ↦ first-use height (0 = unused);
    this is `MW.Model.Ledger.Store.addrs` -/
abbrev AddrRecs (Addr : Type) := AMap.T (String × Bool × Addr) Nat

/-- wallet.go NewAddress: NextAddresses(external, 1) + utxoStore.PutNewAddress, one database transaction -/
def walletNewAddress (ks : KS Priv Pub Addr) (arecs : AddrRecs Addr) (used : Addr → Bool) (gap : Nat)
    (stk : Bool) : Except Err (KS Priv Pub Addr × AddrRecs Addr × MAddr Pub Addr) :=
  match ksNextAddresses sch ks used false 1 gap with
  | .error e => .error e
  | .ok (ks', [ma]) =>
    match ks'.current with
    | some id => .ok (ks', AMap.put arecs (id, stk, ma.addr) 0, ma)
    | none => .error .noCurrent
  | .ok _ => .error .inconsistent

/-- the PutNewAddress loop of ImportWallet / ImportWalletWithMnemonic: every managed address, class V0 -/
def putImported (arecs : AddrRecs Addr) (id : String) (m : Mgr Pub Addr) : AddrRecs Addr :=
  m.addrs.foldr (fun e a => AMap.put a (id, false, e.2.addr) 0) arecs

end
end MW.Model.Keystore

/-
  The multi-instance system C04 quantifies over: several independent wallet databases ("instances"),
  keystore files travelling between them, and every operation that touches identity or addresses.
-/
namespace MW.Model.Keystore
open MW
section
variable {Priv Pub Addr : Type} [DecidableEq Addr] (sch : Scheme Priv Pub Addr)

/-- one wallet installation: keystore manager over its database, its node's usage index, its settings -/
structure Inst (Priv Pub Addr : Type) where
  ks : KS Priv Pub Addr := {}
  used : Addr → Bool := fun _ => false
  gap : Nat := 20
  coin : Nat := 0               -- the network (HD coin type)

inductive Op (Addr : Type)
  | boot (i : Nat) (coin : Nat) (pubPass : String)         -- a fresh installation
  | create (i : Nat) (mn pass : String)                    -- CreateWallet (mn = the fresh entropy)
  | use (i : Nat) (id : String)                            -- UseWallet
  | newAddr (i : Nat)                                      -- NewAddress on the wallet in use
  | export (i : Nat) (id pass : String)                    -- ExportWallet → a new keystore file
  | importKs (i : Nat) (file : Nat) (pass : String)        -- ImportWallet(file)
  | importMn (i : Nat) (mn pass : String) (hintEx hintIn : Nat)   -- ImportWalletWithMnemonic
  | restart (i : Nat) (pubPass : String)                   -- process restart
  | chPub (i : Nat) (old new : String)                     -- ChangePubPassphrase
  | chain (i : Nat) (u : Addr → Bool)                      -- the node's chain changed
  | setGap (i : Nat) (g : Nat)
  | loadPriv (i : Nat) (id pass : String)
  | clearPriv (i : Nat)

structure Sys (Priv Pub Addr : Type) where
  insts : AMap.T Nat (Inst Priv Pub Addr) := []
  files : List Json := []
  fuel : Nat := 0

def Sys.onInst (s : Sys Priv Pub Addr) (i : Nat) (f : Inst Priv Pub Addr → Inst Priv Pub Addr) : Sys Priv Pub Addr :=
  match AMap.get s.insts i with
  | some x => { s with insts := AMap.put s.insts i (f x) }
  | none => s

def Sys.step (s : Sys Priv Pub Addr) : Op Addr → Sys Priv Pub Addr
  | .boot i coin pp =>
    if (AMap.get s.insts i).isSome then s
    else { s with insts := AMap.put s.insts i { ks := { pubPass := pp }, coin := coin } }
  | .create i mn pass => s.onInst i (fun x =>
      match newKeystore sch x.ks mn pass x.coin x.gap with
      | .ok (ks', _) => { x with ks := ks' } | .error _ => x)
  | .use i id => s.onInst i (fun x =>
      match useKeystore x.ks id with | .ok ks' => { x with ks := ks' } | .error _ => x)
  | .newAddr i => s.onInst i (fun x =>
      match ksNextAddresses sch x.ks x.used false 1 x.gap with
      | .ok (ks', _) => { x with ks := ks' } | .error _ => x)
  | .export i id pass =>
    match AMap.get s.insts i with
    | some x => match exportKeystore x.ks id pass with
      | .ok j => { s with files := s.files ++ [j] } | .error _ => s
    | none => s
  | .importKs i file pass =>
    match s.files[file]? with
    | some j => s.onInst i (fun x =>
        match importKeystore sch x.ks j pass x.coin x.used x.gap s.fuel with
        | .ok (ks', _) => { x with ks := ks' } | .error _ => x)
    | none => s
  | .importMn i mn pass he hi => s.onInst i (fun x =>
      match importMnemonic sch x.ks mn pass x.coin he hi x.used x.gap s.fuel with
      | .ok (ks', _) => { x with ks := ks' } | .error _ => x)
  | .restart i pp => s.onInst i (fun x =>
      match openKS sch x.ks.recs pp with | .ok ks' => { x with ks := ks' } | .error _ => x)
  | .chPub i old new => s.onInst i (fun x =>
      match changePubPass x.ks old new with | .ok ks' => { x with ks := ks' } | .error _ => x)
  | .chain i u => s.onInst i (fun x => { x with used := u })
  | .setGap i g => s.onInst i (fun x => { x with gap := g })
  | .loadPriv i id pass => s.onInst i (fun x =>
      match loadPriv x.ks id pass with | .ok ks' => { x with ks := ks' } | .error _ => x)
  | .clearPriv i => s.onInst i (fun x => { x with ks := clearPriv x.ks })

def Sys.run (s : Sys Priv Pub Addr) (ops : List (Op Addr)) : Sys Priv Pub Addr := ops.foldl (Sys.step sch) s

end
end MW.Model.Keystore
