/-
  MODEL of transaction signing (C03) over ABSTRACT cryptography and an ABSTRACT script engine.

  Go code followed:
    wallet.go  SignRawTx            flag parsing, signWitnessTx, serialisation of the result
    tx.go      signWitnessTx        per input: previous output lookup (existsMsgTx / existsUnminedTx /
                                    index check / existsOutPoint → `Env.resolve`), SigHashSingle rule,
                                    txscript.SignTxOutputWit (redeem script of the address from the current
                                    keystore, signature through KeystoreManager.SignHash), immediate
                                    txscript.NewEngine + Execute, `defer ClearPrivKey`
    keystore   addrmgr.go signBtcec / checkPassword (passphrase gate: derive when locked, salted hash when
               unlocked), manager.go ClearPrivKey

  ECDSA, the KDF and the script VM are PARAMETERS whose laws are structure fields
  (`verify_sign`, `kdf_correct`, `p2wsh`): every theorem is universally quantified over them and toy
  instances show the laws are satisfiable (MW/Props/C03.lean).  Core Lean only.
-/
namespace MW.Model.Sign

/-- signatures and the passphrase key derivation -/
structure Crypto where
  SK : Type
  PK : Type
  Sig : Type
  Msg : Type
  Pass : Type
  Params : Type
  decPass : DecidableEq Pass
  pkOf : SK → PK
  sign : SK → Msg → Sig
  verify : PK → Msg → Sig → Bool
  /-- SecretKey.DeriveKey succeeds (digest matches) -/
  derive : Params → Pass → Bool
  /-- the parameters stored for a passphrase -/
  params : Pass → Params
  verify_sign : ∀ sk m, verify (pkOf sk) m (sign sk m) = true
  kdf_correct : ∀ pass p, derive (params pass) p = true ↔ p = pass

instance (C : Crypto) : DecidableEq C.Pass := C.decPass

structure OutPoint where
  tx : String
  idx : Nat
  deriving DecidableEq, Repr, Inhabited

/-- class of the previous output script as txscript.ExtractPkScriptAddrs sees it -/
inductive Class
  | std
  | stk (frozen : Nat)
  | bind
  /-- a binding output whose previous transaction sits at a height ≥ MASSIP0002WarmUpHeight (mined there, or pending
      above such a tip): signWitnessTx runs the engine with ScriptMASSip2, which adds the binding CSV prelude -/
  | bind2
  | other
  deriving DecidableEq, Repr, Inhabited

/-- the output being spent: value, script class, script hash (`A`) -/
structure PrevOut (A : Type) where
  amt : Nat
  cls : Class
  addr : A

inductive Base | all | none | single
  deriving DecidableEq, Repr, Inhabited

/-- the six supported sighash flags -/
structure Flag where
  base : Base
  acp : Bool
  deriving DecidableEq, Repr, Inhabited

structure TxOut where
  amt : Nat
  script : String
  deriving DecidableEq, Repr, Inhabited

structure TxIn (W : Type) where
  prev : OutPoint
  seq : Nat
  wit : Option W

structure Tx (W : Type) where
  version : Nat
  lock : Nat
  payload : String
  ins : List (TxIn W)
  outs : List TxOut

/-- the transaction without witnesses: what TxHash and the signature hash cover -/
abbrev STx := Tx Unit

def TxIn.strip {W : Type} (i : TxIn W) : TxIn Unit := { prev := i.prev, seq := i.seq, wit := none }

def Tx.strip {W : Type} (t : Tx W) : STx :=
  { version := t.version, lock := t.lock, payload := t.payload, ins := t.ins.map TxIn.strip, outs := t.outs }

/-- witness of a 1-of-1 P2WSH input: [signature ‖ hash type, redeem script of the key] -/
structure Witness (C : Crypto) where
  sig : C.Sig
  flag : Flag
  pk : C.PK

/-- OP_CHECKSEQUENCEVERIFY as the engine applies it to staking outputs (lock = frozen + 1): the input's
    sequence must not have the disable bit (2^63), must be of block type (bit 38 clear) and its low
    32 bits must reach the lock. Under ScriptMASSip2 (class `bind2`) binding outputs carry the same rule with
    lock = MASSIP0002BindingLockedPeriod = 2^32 - 2. Other classes carry no sequence condition. -/
def seqOk : Class → Nat → Bool
  | .stk f, s => decide (s < 2^63) && decide ((s / 2^38) % 2 = 0) && decide (f + 1 ≤ s % 2^32)
  | .bind2, s => decide (s < 2^63) && decide ((s / 2^38) % 2 = 0) && decide (2^32 - 2 ≤ s % 2^32)
  | _, _ => true

/-- the class as the engine run of signWitnessTx treats it: a binding output whose previous transaction sits at a height
    ≥ the MASSIP-2 warm-up height (`forks.EnforceMASSIP0002WarmUp(prevHeight)`) is run under ScriptMASSip2 -/
def Class.atHeight (warm : Nat) (c : Class) (prevHeight : Nat) : Class :=
  if c = .bind ∧ warm ≤ prevHeight then .bind2 else c

/-- the consensus script engine and the signature hash, abstractly -/
structure Engine (C : Crypto) (A : Type) where
  /-- digest signed for input i (script code = redeem script of pk, amount of the previous output) -/
  sighash : STx → Nat → Flag → C.PK → Nat → C.Msg
  /-- sha256 of the 1-of-1 redeem script of a key -/
  hashOf : C.PK → A
  /-- verdict of NewEngine + Execute for input i with the given witness -/
  ok : PrevOut A → STx → Nat → Option (Witness C) → Bool
  /-- LAW of the 1-of-1 P2WSH template (standard, staking, binding): a witness made of a valid signature
      by the key the script hash commits to, with the sequence rule of the class met, is accepted -/
  p2wsh : ∀ (po : PrevOut A) (tx : STx) (i : Nat) (w : Witness C) (seq : Nat),
    po.cls ≠ .other → hashOf w.pk = po.addr →
    (tx.ins[i]?).map (·.seq) = some seq → seqOk po.cls seq = true →
    C.verify w.pk (sighash tx i w.flag w.pk po.amt) w.sig = true →
    ok po tx i (some w) = true

inductive Err
  | pass      -- keystore.ErrInvalidPassphrase
  | utxo      -- ErrUTXONotExists
  | index     -- ErrInvalidIndex
  | spent     -- ErrDoubleSpend
  | key       -- ErrUnexpectedPubKeyToSign / address not in the current keystore
  | script    -- signing or engine failure
  deriving DecidableEq, Repr, Inhabited

/-- the wallet as signWitnessTx sees it -/
structure Env (C : Crypto) (A : Type) where
  /-- previous output of an outpoint (mined credit or pending transaction), or the error class -/
  resolve : OutPoint → Except Err (PrevOut A)
  /-- public key of an address of the CURRENT keystore (ManagedAddress.pubKey → RedeemScript) -/
  pubOf : A → Option C.PK
  /-- private key derived for that address once unlocked (getPrivKeyBtcec) -/
  skOf : A → Option C.SK
  /-- master private key parameters of the keystore (salt, digest) -/
  params : C.Params

/-- AddrManager.unlocked / hashedPrivPassphrase -/
structure Lock (C : Crypto) where
  unlocked : Bool
  hashed : Option C.Pass

def Lock.locked (C : Crypto) : Lock C := ⟨false, none⟩

/-- checkPassword -/
def checkPassword {C : Crypto} {A : Type} (env : Env C A) (L : Lock C) (p : C.Pass) : Bool :=
  if L.unlocked then decide (L.hashed = some p) else C.derive env.params p

/-- txscript.SignTxOutputWit for one input: redeem script from the current keystore, passphrase gate,
    private key, signature over the sighash -/
def signOne {C : Crypto} {A : Type} (E : Engine C A) (env : Env C A) (L : Lock C) (p : C.Pass)
    (stx : STx) (i : Nat) (fl : Flag) (po : PrevOut A) : Except Err (Lock C × Witness C) :=
  if po.cls = .other then .error .script else
  match env.pubOf po.addr with
  | none => .error .key
  | some pk =>
    if !checkPassword env L p then .error .pass else
    let L' : Lock C := if L.unlocked then L else ⟨true, some p⟩
    match env.skOf po.addr with
    | none => .error .key
    | some sk => .ok (L', ⟨C.sign sk (E.sighash stx i fl pk po.amt), fl, pk⟩)

/-- the loop of signWitnessTx from input number i on -/
def signLoop {C : Crypto} {A : Type} (E : Engine C A) (env : Env C A) (p : C.Pass) (fl : Flag)
    (stx : STx) (nOut : Nat) : List (TxIn (Witness C)) → Nat → Lock C → Except Err (List (TxIn (Witness C)))
  | [], _, _ => .ok []
  | inp :: rest, i, L =>
    match env.resolve inp.prev with
    | .error e => .error e
    | .ok po =>
      -- SigHashSingle inputs are signed only if there is a corresponding output
      let r : Except Err (Lock C × Option (Witness C)) :=
        if fl.base = .single ∧ ¬ i < nOut then .ok (L, inp.wit)
        else match signOne E env L p stx i fl po with
          | .ok (L', w) => .ok (L', some w)
          | .error e => .error e
      match r with
      | .error e => .error e
      | .ok (L', w) =>
        if E.ok po stx i w then
          match signLoop E env p fl stx nOut rest (i + 1) L' with
          | .ok rest' => .ok ({ inp with wit := w } :: rest')
          | .error e => .error e
        else .error .script

/-- signWitnessTx: returns the lock state after the deferred ClearPrivKey and the result -/
def signTx {C : Crypto} {A : Type} (E : Engine C A) (env : Env C A) (L : Lock C) (p : C.Pass) (fl : Flag)
    (tx : Tx (Witness C)) : Lock C × Except Err (Tx (Witness C)) :=
  (Lock.locked C,
    match signLoop E env p fl tx.strip tx.outs.length tx.ins 0 L with
    | .ok ins => .ok { tx with ins := ins }
    | .error e => .error e)

/-- SignRawTx flag strings -/
def parseFlag : String → Option Flag
  | "ALL" => some ⟨.all, false⟩
  | "NONE" => some ⟨.none, false⟩
  | "SINGLE" => some ⟨.single, false⟩
  | "ALL|ANYONECANPAY" => some ⟨.all, true⟩
  | "NONE|ANYONECANPAY" => some ⟨.none, true⟩
  | "SINGLE|ANYONECANPAY" => some ⟨.single, true⟩
  | _ => none

/-- a sequence of signing attempts on one keystore: (passphrase, flag, transaction) -/
def attempts {C : Crypto} {A : Type} (E : Engine C A) (env : Env C A) :
    Lock C → List (C.Pass × Flag × Tx (Witness C)) → List (Except Err (Tx (Witness C)))
  | _, [] => []
  | L, (p, fl, tx) :: rest =>
    let (L', r) := signTx E env L p fl tx
    r :: attempts E env L' rest

end MW.Model.Sign
