/-
  MODEL of the byte-level key / value builders and readers of the wallet buckets
  (masswallet/txmgr/{utxostore_db,txstore_db,syncstore_db,syncstore,type}.go).

  Every offset, width, allocation size, length guard and flag bit used here is taken from the REGENERATED tables
  MW.Gen.Codec (one `Rec` per byte slice of one Go function, written by go/cmd/extract/x_codec.go from the
  make / copy / binary.BigEndian.(Put)UintNN / v[i] op= … statements that exist in the source today).  Nothing in
  this file mentions a numeric offset: a changed offset in the Go source changes these definitions, and the theorems
  of MW.Lemmas.TxmgrCodec* are re-checked against them.

  `encodeN n L vals`  =  buf := make([]byte, n); for each span of L, in ascending offset: copy / PutUint into buf.
                         (Go writes them in statement order; the spans of a record are pairwise disjoint — that is
                         the decidable `Contig` obligation of the lemmas — so the order does not matter.)
  `readVal s bs`      =  bs[s.off : s.off+s.len] as bytes or as a big-endian unsigned integer.
  Core Lean only (links into the driver).
-/
import MW.Base.Bytes
import MW.Gen.Codec
import MW.Gen.Amount
namespace MW.Model.TxmgrCodec
open MW MW.Gen.Codec

-- ------------------------------------------------------------------ big-endian integers

/-- binary.BigEndian.PutUintNN (w = NN/8): the low `w` bytes of `n`, most significant first
    (a Go conversion uint64(x) / uint32(x) truncates the same way) -/
def be : Nat → Nat → Bytes
  | 0, _ => []
  | w + 1, n => be w (n / 256) ++ [UInt8.ofNat (n % 256)]

/-- binary.BigEndian.UintNN -/
def beNat (bs : Bytes) : Nat := bs.foldl (fun a b => a * 256 + b.toNat) 0

def zeros (n : Nat) : Bytes := List.replicate n 0

-- ------------------------------------------------------------------ generic record encoder / reader

/-- a field value: raw bytes (hash, wallet id, address, serialized tx, another key) or an unsigned integer -/
inductive Val
  | b (bs : Bytes)
  | n (x : Nat)
  deriving DecidableEq, Repr, Inhabited

/-- Go `copy(buf[off:], src)`: overwrites at most the rest of the buffer -/
def writeAt (buf : Bytes) (off : Nat) (src : Bytes) : Bytes :=
  buf.take off ++ src.take (buf.length - off) ++ buf.drop (off + src.length)

/-- the bytes one statement writes into its span: `copy(v[a:b], src)` copies at most b-a bytes (all of `src` into an
    open tail `v[a:]`), `PutUintNN` / `v[i] = x` write the low bytes of the integer -/
def spanBytes (s : Span) : Val → Bytes
  | .b bs => if s.len = 0 then bs else bs.take s.len
  | .n x => be s.len x

/-- the allocation `make([]byte, …)`: the fixed size, or for variable records the sum of the span widths with the
    tail's length (`widLen+2+len(rec.encodeAddress)`, `8+len(bs)`) -/
def allocSize (L : Rec) (vals : List Val) : Nat :=
  if L.size ≠ 0 then L.size else ((L.spans.zip vals).map (fun sv => (spanBytes sv.1 sv.2).length)).sum

def encodeN (n : Nat) (L : Rec) (vals : List Val) : Bytes :=
  (L.spans.zip vals).foldl (fun buf sv => writeAt buf sv.1.off (spanBytes sv.1 sv.2)) (zeros n)

def encode (L : Rec) (vals : List Val) : Bytes := encodeN (allocSize L vals) L vals

/-- `bs[off:off+len]`, `bs[off:]` for len = 0 -/
def readAt (off len : Nat) (bs : Bytes) : Bytes :=
  if len = 0 then bs.drop off else (bs.drop off).take len

def readVal (s : Span) (bs : Bytes) : Val :=
  match s.kind with
  | .bytes => .b (readAt s.off s.len bs)
  | _ => .n (beNat (readAt s.off s.len bs))

/-- the length guard of a reader (`len(v) < N` ⇒ error, or `len(v) != N` ⇒ error) -/
def guardOk (R : Rec) (bs : Bytes) : Bool :=
  if R.exact then bs.length == R.size else decide (R.size ≤ bs.length)

/-- every span of the reader table, in table order; none = the reader's guard rejects -/
def decodeBy (R : Rec) (bs : Bytes) : Option (List Val) :=
  if guardOk R bs then some (R.spans.map (fun s => readVal s bs)) else none

-- ------------------------------------------------------------------ flag bytes

/-- `v[i] |= 1 << k` for each flag that is on (statement order) -/
def flagByte (bits : List Bit) (ons : List Bool) : Nat :=
  (bits.zip ons).foldl (fun a bo => if bo.2 then a ||| (bo.1.mask <<< bo.1.bit) else a) 0

/-- `(v[i] >> k) & mask`  (= `v[i]&(1<<k) != 0` for a single bit, `(v[i] & (m<<k)) >> k` for a field) -/
def bitField (b : Bit) (byte : Nat) : Nat := (byte >>> b.bit) &&& b.mask

def bitsAt (L : Rec) (off : Nat) : List Bit := L.bits.filter (fun b => b.off == off)

-- ------------------------------------------------------------------ typed records
-- Hashes are 32 bytes, wallet ids 42 bytes (the widths are those of the tables; well-formedness below).

structure BlockMetaB where
  height : Nat
  hash : Bytes
  deriving DecidableEq, Repr, Inhabited

/-- canonicalOutPoint / Credit.Hash / Debit.Hash : key of buckets `mc`, `mi` -/
structure OutPointB where
  hash : Bytes
  index : Nat
  deriving DecidableEq, Repr, Inhabited
def OutPointB.vals (o : OutPointB) : List Val := [.b o.hash, .n o.index]
def canonicalOutPoint (o : OutPointB) : Bytes := encode wCanonicalOutPoint o.vals
def creditHash (o : OutPointB) : Bytes := encode wCreditHash o.vals
def debitHash (o : OutPointB) : Bytes := encode wDebitHash o.vals
def readUnminedCreditKey (k : Bytes) : Option OutPointB :=
  match decodeBy rUnminedCreditKey k with
  | some [.b h, .n i] => some ⟨h, i⟩
  | _ => none

/-- canonicalUnspentKey : key of bucket `u` -/
structure UnspentKeyB where
  wallet : Bytes
  hash : Bytes
  index : Nat
  deriving DecidableEq, Repr, Inhabited
def UnspentKeyB.vals (u : UnspentKeyB) : List Val := [.b u.wallet, .b u.hash, .n u.index]
def canonicalUnspentKey (u : UnspentKeyB) : Bytes := encode wCanonicalUnspentKey u.vals
/-- readCanonicalUnspentKey reads the outpoint only -/
def readCanonicalUnspentKey (k : Bytes) : Option OutPointB :=
  match decodeBy rCanonicalUnspentKey k with
  | some [.b h, .n i] => some ⟨h, i⟩
  | _ => none

/-- valueUnspent / readBlockOfUnspent : value of bucket `u` -/
def BlockMetaB.vals (b : BlockMetaB) : List Val := [.n b.height, .b b.hash]
def valueUnspent (b : BlockMetaB) : Bytes := encode wValueUnspent b.vals
def readBlockOfUnspent (v : Bytes) : Option BlockMetaB :=
  match decodeBy rBlockOfUnspent v with
  | some [.n h, .b bh] => some ⟨h, bh⟩
  | _ => none

/-- keyCredit / keyDebit / readRawCreditKey : key of buckets `c`, `d` -/
structure CredKeyB where
  hash : Bytes
  block : BlockMetaB
  index : Nat
  deriving DecidableEq, Repr, Inhabited
def CredKeyB.vals (k : CredKeyB) : List Val := [.b k.hash, .n k.block.height, .b k.block.hash, .n k.index]
def keyCredit (k : CredKeyB) : Bytes := encode wKeyCredit k.vals
def keyDebit (k : CredKeyB) : Bytes := encode wKeyDebit k.vals
def readRawCreditKey (k : Bytes) : Option CredKeyB :=
  match decodeBy rRawCreditKey k with
  | some [.b h, .n ht, .b bh, .n i] => some ⟨h, ⟨ht, bh⟩, i⟩
  | _ => none

/-- existsRawUnspent: the credit key recomposed from an unspent key and its value (none: key shorter than the guard) -/
def credKeyOfUnspent (k v : Bytes) : Option Bytes :=
  match rExistsRawUnspentKey.spans with
  | [s0, s1] =>
    if !guardOk rExistsRawUnspentKey k then none else
    some (encode wExistsRawUnspentCredKey [.b (readAt s0.off s0.len k), .b v, .b (readAt s1.off s1.len k)])
  | _ => none

/-- UtxoClass -/
inductive ClassB | standard | staking | binding
  deriving DecidableEq, Repr, Inhabited
def ClassB.code : ClassB → Nat
  | .standard => (utxoClasses.lookup "ClassStandardUtxo").getD 0
  | .staking => (utxoClasses.lookup "ClassStakingUtxo").getD 1
  | .binding => (utxoClasses.lookup "ClassBindingUtxo").getD 2

/-- credit value (buckets `c` and `mc`): amount ‖ flags ‖ maturity ‖ script hash [‖ spender debit key] -/
structure CreditValB where
  amount : Nat
  spent : Bool
  change : Bool
  cls : ClassB
  maturity : Nat
  scriptHash : Bytes
  deriving DecidableEq, Repr, Inhabited

/-- valueUnspentCredit: `spent` is never written here (all credits are created unspent) -/
def valueUnspentCredit (c : CreditValB) : Except Unit Bytes :=
  match wValueUnspentCredit.spans with
  | [_, f, _, sh] =>
    if c.scriptHash.length ≠ sh.len then .error () else
    .ok (encode wValueUnspentCredit
      [.n c.amount, .n (flagByte (bitsAt wValueUnspentCredit f.off) [c.change, c.cls = .staking, c.cls = .binding]),
       .n c.maturity, .b c.scriptHash])
  | _ => .error ()

/-- valueUnminedCredit (flags from the parsed script: IsStaking / IsBinding) -/
def valueUnminedCredit (amount : Nat) (change : Bool) (maturity : Nat) (scriptHash : Bytes) (isStaking isBinding : Bool) :
    Except Unit Bytes :=
  match wValueUnminedCredit.spans with
  | [_, f, _, sh] =>
    if scriptHash.length ≠ sh.len then .error () else
    .ok (encode wValueUnminedCredit
      [.n amount, .n (flagByte (bitsAt wValueUnminedCredit f.off) [change, isStaking, isBinding]), .n maturity, .b scriptHash])
  | _ => .error ()

/-- massutil.NewAmountFromUint: amounts above MaxAmount (regenerated: MW.Gen.Amount) are an error -/
def maxAmount : Nat := Gen.Amount.maxAmountCompiled

/-- readCreditValue -/
def readCreditValue (v : Bytes) : Option CreditValB :=
  match decodeBy rCreditValue v, rCreditValue.bits with
  | some [.n amt, .n fl, .n mat, .b sh], [bSpent, bChange, bClass] =>
    if amt > maxAmount then none else
    match creditClassSwitch.lookup (bitField bClass fl) with
    | some "ClassStandardUtxo" => some ⟨amt, bitField bSpent fl ≠ 0, bitField bChange fl ≠ 0, .standard, mat, sh⟩
    | some "ClassStakingUtxo" => some ⟨amt, bitField bSpent fl ≠ 0, bitField bChange fl ≠ 0, .staking, mat, sh⟩
    | some "ClassBindingUtxo" => some ⟨amt, bitField bSpent fl ≠ 0, bitField bChange fl ≠ 0, .binding, mat, sh⟩
    | _ => none
  | _, _ => none

/-- fetchRawCreditAmountSpent -/
def fetchRawCreditAmountSpent (v : Bytes) : Option (Nat × Bool) :=
  match decodeBy rCreditAmountSpent v, rCreditAmountSpent.bits with
  | some [.n amt, .n fl], [bSpent] => if amt > maxAmount then none else some (amt, bitField bSpent fl ≠ 0)
  | _, _ => none

/-- fetchRawCreditMaturityScriptHash -/
def fetchRawCreditMaturityScriptHash (v : Bytes) : Option (Nat × Bytes) :=
  match decodeBy rCreditMaturityScriptHash v with
  | some [.n m, .b sh] => some (m, sh)
  | _ => none

/-- set / clear the bits of `bits` in byte `i` of `v` (`v[i] |= 1<<k`, `v[i] &^= 1<<k`) -/
def updByte (v : Bytes) (i : Nat) (bits : List Bit) : Bytes :=
  match v[i]? with
  | none => v
  | some x =>
    let y := bits.foldl (fun a b => if b.set then a ||| (b.mask <<< b.bit) else a &&& (255 - (b.mask <<< b.bit))) x.toNat
    v.set i (UInt8.ofNat y)

/-- spendCredit: the 45-byte value with the spent bit set and the spender's debit key appended
    (the Go code refuses any other length: `vLen != 45`) -/
def spendCreditValue (v : Bytes) (spender : CredKeyB) : Except Unit Bytes :=
  match wSpendCredit.spans with
  | [old, f, _, _, _, _] =>
    if v.length ≠ old.len then .error () else
    if (fetchRawCreditAmountSpent v).isNone then .error () else    -- NewAmountFromUint(Uint64(v[0:8])) before the put
    let v' := encode wSpendCredit ([.b v, .n 0] ++ spender.vals)
    -- the flag byte span is not written by a copy: restore the old byte, then `v[8] |= 1 << 0`
    .ok (updByte (writeAt v' f.off (readAt f.off f.len v)) f.off (bitsAt wSpendCredit f.off))
  | _ => .error ()

/-- readCreditSpender: nil below 121 bytes -/
def readCreditSpender (v : Bytes) : Option Bytes :=
  match decodeBy rCreditSpender v with
  | some [.b dk] => some dk
  | _ => none

/-- unspendRawCredit: first 45 bytes (zero padded) with the spent bit cleared -/
def unspendCreditValue (v : Bytes) : Bytes :=
  match wUnspendRawCredit.spans with
  | [_, f] => updByte (encode wUnspendRawCredit [.b v]) f.off (bitsAt wUnspendRawCredit f.off)
  | _ => []

/-- valueUnminedCreditFromMined -/
def valueUnminedCreditFromMined (v : Bytes) : Option Bytes :=
  match decodeBy rUnminedCreditFromMined v with
  | some [.b x] => some x
  | _ => none

/-- putDebit value / existsDebit -/
def valueDebit (amount : Nat) (credKey : Bytes) : Bytes := encode wPutDebit [.n amount, .b credKey]
def readDebitCredKey (v : Bytes) : Option Bytes :=
  match decodeBy rExistsDebit v with
  | some [.b ck] => some ck
  | _ => none

def fetchTxRecordKeyFromRawCreditKey (k : Bytes) : Option Bytes :=
  match decodeBy rTxRecordKeyFromCreditKey k with
  | some [.b x] => some x
  | _ => none
def fetchNsUnspentValueFromRawCredit (k : Bytes) : Option Bytes :=
  match decodeBy rUnspentValueFromCreditKey k with
  | some [.b x] => some x
  | _ => none

/-- putMinedBalance value -/
def valueBalance (amt : Nat) : Bytes := encode wPutMinedBalance [.n amt]

/-- keyAddressRecord (wallet id must be 42 bytes, address non-empty; class validity is massutil's) -/
structure AddrKeyB where
  wallet : Bytes
  cls : Nat
  addr : Bytes
  deriving DecidableEq, Repr, Inhabited
def AddrKeyB.vals (a : AddrKeyB) : List Val := [.b a.wallet, .n a.cls, .b a.addr]
def keyAddressRecord (a : AddrKeyB) : Except Unit Bytes :=
  match wKeyAddressRecord.spans with
  | [w, _, _] =>
    if a.wallet.length ≠ w.len ∨ a.addr = [] ∨ ¬ (a.cls = 0 ∨ a.cls = 1) then .error ()   -- massutil.IsValidAddressClass
    else .ok (encode wKeyAddressRecord a.vals)
  | _ => .error ()
/-- fetchAddressesByWalletId reads class and address from the key (the wallet id is the scan prefix) -/
def readAddressKey (k : Bytes) : Option (Nat × Bytes) :=
  match decodeBy rAddressKey k with
  | some [.n c, .b a] => some (c, a)
  | _ => none
def valueAddressRecord (height : Nat) : Bytes := encode wValueAddressRecord [.n height]
def readAddressHeight (v : Bytes) : Option Nat :=
  match decodeBy rAddressHeight v with
  | some [.n h] => some h
  | _ => none

/-- keyGameHistory / keyUnminedGameHistory / readGameHistory : buckets `lg`, `LG` -/
structure GameKeyB where
  wallet : Bytes
  binding : Bool
  withdrawn : Bool
  hash : Bytes
  height : Nat      -- 0 in the unmined key (not stored)
  vout : Nat
  deriving DecidableEq, Repr, Inhabited
def keyGameHistory (g : GameKeyB) : Bytes :=
  match wKeyGameHistory.spans with
  | [_, f1, f2, _, _, _] =>
    encode wKeyGameHistory [.b g.wallet, .n (flagByte (bitsAt wKeyGameHistory f1.off) [g.binding]),
      .n (flagByte (bitsAt wKeyGameHistory f2.off) [g.withdrawn]), .b g.hash, .n g.height, .n g.vout]
  | _ => []
def keyUnminedGameHistory (g : GameKeyB) : Bytes :=
  match wKeyUnminedGameHistory.spans with
  | [_, f1, _, _, _] =>
    encode wKeyUnminedGameHistory [.b g.wallet, .n (flagByte (bitsAt wKeyUnminedGameHistory f1.off) [g.binding]),
      .n 0, .b g.hash, .n g.vout]
  | _ => []
def readGameHistory (unmined : Bool) (k : Bytes) : Option GameKeyB :=
  match rGameHistory.spans, rGameHistory.bits with
  | [w, f1, f2, h, ht, vu, vm], [bB, bW] =>
    -- the guard: 80 bytes for an unmined key (end of its vout span), 88 (the table's guard) for a mined one
    if (unmined && decide (k.length < vu.off + vu.len)) || (!unmined && decide (k.length < rGameHistory.size)) then none else
    let bind := bitField bB (beNat (readAt f1.off f1.len k)) ≠ 0
    let wd := bitField bW (beNat (readAt f2.off f2.len k)) ≠ 0
    if unmined then some ⟨readAt w.off w.len k, bind, wd, readAt h.off h.len k, 0, beNat (readAt vu.off vu.len k)⟩
    else some ⟨readAt w.off w.len k, bind, wd, readAt h.off h.len k, beNat (readAt ht.off ht.len k), beNat (readAt vm.off vm.len k)⟩
  | _, _ => none
def valueGameHistory : Bytes := Gen.Codec.valueGameHistory.map UInt8.ofNat

/-- getRawGameHistoryByWalletId: prefix = wallet id ‖ game type [‖ 0 when withdrawn records are excluded] -/
def gameHistoryPrefix (wallet : Bytes) (gt : Nat) (excludeWithdrawn : Bool) : Bytes :=
  encodeN (if excludeWithdrawn then gameHistoryPrefixSizeExcl else gameHistoryPrefixSizeAll) wGameHistoryPrefix [.b wallet, .n gt]

/-- keyTxRecord / readTxRecordKey : key of bucket `t` -/
structure TxRecKeyB where
  hash : Bytes
  block : BlockMetaB
  deriving DecidableEq, Repr, Inhabited
def TxRecKeyB.vals (k : TxRecKeyB) : List Val := [.b k.hash, .n k.block.height, .b k.block.hash]
def keyTxRecord (k : TxRecKeyB) : Bytes := encode wKeyTxRecord k.vals
def readTxRecordKey (k : Bytes) : Option BlockMetaB :=
  match decodeBy rTxRecordKey k with
  | some [.n h, .b bh] => some ⟨h, bh⟩
  | _ => none
/-- prefix of the scans by (tx hash, height): getCreditsByTxHashHeight, fetchRawTxRecordByTxHashHeight, …ByHashHeight -/
def creditPrefixHeight (hash : Bytes) (height : Nat) : Bytes := encode wCreditPrefixHeight [.b hash, .n height]
def txRecordPrefixHeight (hash : Bytes) (height : Nat) : Bytes := encode wTxRecordPrefixHeight [.b hash, .n height]
def txRecordPrefixHeight2 (hash : Bytes) (height : Nat) : Bytes := encode wTxRecordPrefixHeight2 [.b hash, .n height]

/-- putTxRecord value / readTxRecordLoc : block-file location of the transaction -/
structure TxLocB where
  file : Nat
  offset : Nat
  length : Nat
  txStart : Nat
  txLen : Nat
  deriving DecidableEq, Repr, Inhabited
def TxLocB.vals (l : TxLocB) : List Val := [.n l.file, .n l.offset, .n l.length, .n l.txStart, .n l.txLen]
def valueTxRecord (l : TxLocB) : Bytes := encode wPutTxRecord l.vals
def readTxRecordLoc (v : Bytes) : Option TxLocB :=
  match decodeBy rTxRecordLoc v with
  | some [.n a, .n b, .n c, .n d, .n e] => some ⟨a, b, c, d, e⟩
  | _ => none

/-- block records (bucket `b`): key = height; value = block hash ‖ unix time ‖ count ‖ tx hashes -/
def keyBlockRecord (height : Nat) : Bytes := encode wKeyBlockRecord [.n height]
def readBlockRecordKey (k : Bytes) : Option Nat :=
  match decodeBy rBlockRecordKey k with
  | some [.n h] => some h
  | _ => none
def valueBlockRecord (blkHash : Bytes) (time : Nat) (txHash : Bytes) : Bytes :=
  encode wValueBlockRecord [.b blkHash, .n time, .n 1, .b txHash]
/-- appendRawBlockRecord: the hash appended, the counter at its span incremented (uint32 wrap) -/
def appendRawBlockRecord (v : Bytes) (txHash : Bytes) : Option Bytes :=
  match wAppendBlockRecord.spans, rBlockRecordValue.spans with
  | [c], _ =>
    if v.length < c.off + c.len then none else
    let newv := v ++ txHash.take blockRecordStride
    some (writeAt newv c.off (be c.len (beNat (readAt c.off c.len newv) + 1)))
  | _, _ => none
/-- updateBlockRecord -/
def blockRecordValue (blkHash : Bytes) (time : Nat) : List Bytes → Option Bytes
  | [] => none
  | t :: ts => ts.foldl (fun acc h => acc.bind (fun v => appendRawBlockRecord v h)) (some (valueBlockRecord blkHash time t))

def chunks (w : Nat) : Nat → Bytes → List Bytes
  | 0, _ => []
  | n + 1, bs => bs.take w :: chunks w n (bs.drop w)

structure BlockRecB where
  hash : Bytes
  time : Nat
  txs : List Bytes
  deriving DecidableEq, Repr, Inhabited
def readRawBlockRecordValue (v : Bytes) : Option BlockRecB :=
  match decodeBy rBlockRecordValue v with
  | some [.b h, .n t, .n cnt, .b tail] =>
    if tail.length < blockRecordStride * cnt then none else some ⟨h, t, chunks blockRecordStride cnt tail⟩
  | _ => none
def readBlockHashFromValue (v : Bytes) : Option Bytes :=
  match decodeBy rBlockHashFromValue v with
  | some [.b h] => some h
  | _ => none

/-- sync bucket: height ↦ block hash ‖ uint32 unix time;  "syncedto" ↦ height -/
def keySynced (height : Nat) : Bytes := encode wSyncedKey [.n height]
def keyFetchSynced (height : Nat) : Bytes := encode wFetchSyncedKey [.n height]
def keyResetSynced (height : Nat) : Bytes := encode wResetSyncedKey [.n height]
def valueSynced (hash : Bytes) (time : Nat) : Bytes := encode wSyncedValue [.b hash, .n time]
def readSyncedValue (v : Bytes) : Option (Bytes × Nat) :=
  match decodeBy rSyncedValue v with
  | some [.b h, .n t] => some (h, t)
  | _ => none
def valueSyncedTo (height : Nat) : Bytes := encode wSyncedToValue [.n height]
def readSyncedTo (v : Bytes) : Option Nat :=
  match decodeBy rSyncedToValue v with
  | some [.n h] => some h
  | _ => none

/-- wallet status (bucket `ws`): key = wallet id (42 bytes); value = synced height ‖ flags -/
structure WalletStatusB where
  wallet : Bytes
  synced : Nat
  flags : Nat
  deriving DecidableEq, Repr, Inhabited
def valueWalletStatus (s : WalletStatusB) : Bytes := encode wWalletStatus [.n s.synced, .n s.flags]
def readWalletStatus (k v : Bytes) : Option WalletStatusB :=
  if !guardOk rWalletStatusKey k then none else
  match rWalletStatusValue.spans with
  | [h, f] =>
    if !guardOk rWalletStatusValue v then none else
    some ⟨k, beNat (readAt h.off h.len v), if v.length > f.off then beNat (readAt f.off f.len v) else 0⟩
  | _ => none

-- ------------------------------------------------------------------ the pending record (bucket `m`)

/-- uint64(t.Unix()) for a received time given in seconds (an int64) -/
def unixU64 (t : Int) : Nat := (t % (2 ^ 64 : Int)).toNat
/-- int64(u) -/
def int64OfU64 (u : Nat) : Int := if u < 2 ^ 63 then (u : Int) else (u : Int) - 2 ^ 64

/-- valueUnmined: received time ‖ MsgTx.Bytes(wire.DB); `ser` is the transaction serializer (mass-core, a parameter) -/
def valueUnmined (ser : Bytes) (received : Int) : Bytes := encode wValueUnmined [.n (unixU64 received), .b ser]

/-- readRawUnmined: (received time, serialized transaction) — the caller hands the tail to MsgTx.SetBytes(…, wire.DB) -/
def readRawUnmined (v : Bytes) : Option (Int × Bytes) :=
  match decodeBy rRawUnmined v with
  | some [.n t, .b tail] => some (int64OfU64 t, tail)
  | _ => none

-- ------------------------------------------------------------------ prefix scans

/-- Bucket.GetByPrefix on a list of keys (goleveldb iterates BytesPrefix(prefix); membership is `HasPrefix`) -/
def scanPrefix (pfx : Bytes) (keys : List Bytes) : List Bytes := keys.filter (fun k => pfx.isPrefixOf k)

end MW.Model.TxmgrCodec
