/-
  The BYTE LEVEL underneath the symbolic keystore model of C05 (MW.Model.Secrets):

  * `BCrypto` – the cryptographic primitives as BYTE functions (parameters, not axioms): the byte encoding of every atomic
    secret, the 32-byte salts, scrypt, sha256, secretbox sealing, the scrypt cost parameters, and the account id of a
    wallet (the harness's symbolic wallet name ↦ the bucket name).
  * `bytesOf` – the concretisation of a symbolic term: `enc k t` ↦ the sealed box, `kdf` ↦ scrypt, `hash` ↦ sha256,
    `pair salt (hash key)` ↦ the 88-byte snacl parameter block through the snacl codec of MW.Model.KsCodec (tables regenerated
    from snacl.go), any other pair ↦ the account row of db.go (type byte, length, BIP0044 record `len‖pub‖len‖priv`)
    through `serializeAccountRow` / `serializeHDAccountKey`; the single public leaf of a stored term is the public value
    `pv` stored at that key (a counter, the coin type, an extended public key, a public key …).
  * `loc` / `unloc` – where a symbolic (wallet, key name) lives in the keystore bucket tree (`km/aid`, `km/<id>`,
    `km/<id>/pub`; key bytes = the db.go names, `uint32ToBytes(account)`, `branch‖index`) and the abstraction of a byte
    location back to the symbolic key.
  * the byte-level WRITERS of the keystore operations, composed from the put* functions of MW.Model.KsCodec in the order
    of manager.go / addrmgr.go: `initAcctBucketB` (createManagerKeyScope + initAcctBucket / allocAddrMgrNamespace:
    create, import keystore, import mnemonic), `newAddrB` (nextAddresses: updateChildNum + putEncryptedPubKey),
    `chpubOneB` (ChangePubPassphrase per keystore: putMasterKeyParams(pub, nil) + putCryptoKeys(pub, nil, nil)),
    `removeB` (DeleteKeystore: the account bucket with its `pub` sub-bucket and the account id), and the reader
    `exportB` = `KsCodec.exportKs` on the account bucket.
  Core Lean only.  Theorems: MW/Lemmas/KsRefine*.lean, statements MW/Props/C05Abs.lean.
-/
import MW.Model.Secrets
import MW.Model.KsCodec
namespace MW.Model.KsBytes
open MW MW.Model.Secrets MW.Model.KsCodec MW.Gen.KsCodec

/-- the primitives at byte level -/
structure BCrypto where
  atom : Sec → Bytes                  -- entropy, seed, xprv strings, 32-byte keys, passphrases: the bytes the code handles
  salt : Nat → Bytes                  -- the n-th random salt (snacl.Parameters.Salt)
  kdf : Bytes → Bytes → Bytes         -- scrypt(salt, passphrase)
  sha : Bytes → Bytes                 -- sha256
  box : Bytes → Bytes → Bytes        -- secretbox: key, plaintext ↦ nonce ‖ box (the nonce policy is part of the instance)
  N : Int
  R : Int
  P : Int
  walletId : String → Bytes           -- account id (bucket name) of the wallet the harness calls `w`
  nameOf : Bytes → Option String      -- … and back

/-- the account row value putAccountInfo stores: serializeAccountRow(accountMASS, serializeHDAccountKey(pub, priv)) -/
def acctRow (pub priv : Bytes) : Bytes :=
  match serializeHDAccountKey pub priv with
  | some raw => serializeAccountRow accountMASS raw
  | none => []

/-- the two record layouts a pair can have: `salt ‖ digest ‖ N ‖ r ‖ p` (snacl Marshal) when the second component is a
    digest, otherwise the account row `type ‖ len ‖ (len ‖ pub ‖ len ‖ priv)` -/
def pairBytes (C : BCrypto) (b : Term) (ab bb : Bytes) : Bytes :=
  match b with
  | .hash _ => (marshal ⟨ab, bb, C.N, C.R, C.P⟩).getD []
  | _ => acctRow ab bb

/-- concretisation of a term; `pv` = the public value its `pub` leaf stands for -/
def bytesOf (C : BCrypto) (pv : Bytes) : Term → Bytes
  | .secret s => C.atom s
  | .pub _ => pv
  | .rnd n => C.salt n
  | .enc k t => C.box (bytesOf C pv k) (bytesOf C pv t)
  | .kdf s p => C.kdf (bytesOf C pv s) (bytesOf C pv p)
  | .hash t => C.sha (bytesOf C pv t)
  | .pair a b => pairBytes C b (bytesOf C pv a) (bytesOf C pv b)

/-- the public values of a database: what the `pub` leaf of the term stored under a key stands for -/
abbrev PubVal := Key → Bytes

/-- the bytes stored for term `t` under key `K` -/
def valBytes (C : BCrypto) (ρ : PubVal) (K : Key) (t : Term) : Bytes := bytesOf C (ρ K) t

-- ------------------------------------------------------------------ locations

/-- the keystore bucket tree: km/aid, km/<id>, km/<id>/pub -/
inductive BPath
  | aid
  | acct (id : Bytes)
  | pub (id : Bytes)
  deriving DecidableEq, Repr

/-- the db.go name variable of a fixed key name (MW.Gen.KsCodec: re-read from the source) -/
def genName : KeyName → String
  | .kver => keystoreVersionName | .remark => remarkName | .mpriv => masterPrivKeyName | .mpub => masterPubKeyName
  | .cpriv => cryptoPrivKeyName | .cpub => cryptoPubKeyName | .cent => cryptoEntropyKeyName | .ent => entropyEncKeyName
  | .coinType => coinTypeName | .account => accountUsageName
  | .exb => externalBranchPubKeyName | .inb => internalBranchPubKeyName
  | .exNum => externalChildNumName | .inNum => internalChildNumName
  | _ => ""

/-- bucket and key bytes of a symbolic key -/
def loc (C : BCrypto) : Key → BPath × Bytes
  | (w, .aid) => (.aid, C.walletId w)
  | (w, .pubk b i) => (.pub (C.walletId w), pubKeyKey b i)
  | (w, .acct n) => (.acct (C.walletId w), u32Bytes n)
  | (w, k) => (.acct (C.walletId w), key (genName k))

def fixedOfBytes (kb : Bytes) : Option KeyName := fixedKeys.find? (fun k => key (genName k) = kb)

/-- key bytes of an account bucket ↦ key name: the 14 names, else the account row of account 1 -/
def unlocKey (kb : Bytes) : Option KeyName :=
  match fixedOfBytes kb with
  | some k => some k
  | none => if kb = u32Bytes MW.Gen.Keystore.walletUsage then some (.acct MW.Gen.Keystore.walletUsage) else none

/-- abstraction of a byte location -/
def unloc (C : BCrypto) : BPath → Bytes → Option Key
  | .aid, kb => (C.nameOf kb).map (fun w => (w, .aid))
  | .acct id, kb => (C.nameOf id).bind (fun w => (unlocKey kb).map (fun k => (w, k)))
  | .pub id, kb =>
    (C.nameOf id).bind (fun w => if kb.length = 8 then some (w, .pubk (ofLE (kb.take 4)) (ofLE (kb.drop 4))) else none)

-- ------------------------------------------------------------------ the byte tree

abbrev Tree := BPath → Bucket

def Tree.set (t : Tree) (p : BPath) (b : Bucket) : Tree := fun q => if q = p then b else t q

def tget (t : Tree) (l : BPath × Bytes) : Option Bytes := bget (t l.1) l.2

/-- ABSTRACTION of the byte bucket tree to the symbolic store's key space: the byte value found at the location of a
    symbolic key (buckets, key-name bytes, little-endian index keys are gone; values stay bytes – they are related to the
    symbolic terms by concretisation, `valBytes`) -/
def absDb (C : BCrypto) (t : Tree) : Key → Option Bytes := fun K => tget t (loc C K)

/-- run a db.go function on one bucket of the tree -/
def onB (t : Tree) (p : BPath) (f : Bucket → Except Err Bucket) : Except Err Tree := (f (t p)).map (t.set p)

/-- a successful Put -/
def tins (t : Tree) (l : BPath × Bytes) (v : Bytes) : Tree := t.set l.1 (KV.SMap.insert (t l.1) l.2 v)

def tinsAll (t : Tree) (ws : List ((BPath × Bytes) × Bytes)) : Tree := ws.foldl (fun t x => tins t x.1 x.2) t

-- ------------------------------------------------------------------ writers

/-- the byte inputs of createManagerKeyScope + initAcctBucket / allocAddrMgrNamespace -/
structure AcctIn where
  id : Bytes                 -- accountID
  coin : Nat                 -- scope.Coin
  account : Nat              -- hdpath.Account
  acctPubEnc : Bytes
  acctPrivEnc : Bytes
  inbEnc : Bytes
  exbEnc : Bytes
  nInt : Nat                 -- the internal child number to store (hint, no chain usage)
  nExt : Nat
  pkInt : Nat → Bytes        -- encrypted public key of internal child i
  pkExt : Nat → Bytes
  version : Nat
  remark : Bytes
  pubParams : Bytes          -- masterKeyPub.Marshal()
  privParams : Bytes
  entropyEnc : Bytes
  cPubEnc : Bytes
  cPrivEnc : Bytes
  cEntEnc : Bytes

/-- the `for _, info := range addressInfo[:nextIndex] { putEncryptedPubKey(pkBucket, branch, index, enc) }` loop -/
def putPubKeys (branch : Nat) (enc : Nat → Bytes) : List Nat → Bucket → Except Err Bucket
  | [], pk => .ok pk
  | i :: is, pk =>
    match putEncryptedPubKey pk branch i (enc i) with
    | .ok pk' => putPubKeys branch enc is pk'
    | .error e => .error e

/-- sequencing of tree writers (the first error ends the transaction) -/
def seqE (x : Except Err Tree) (f : Tree → Except Err Tree) : Except Err Tree :=
  match x with
  | .ok t => f t
  | .error e => .error e

/-- one branch of createManagerKeyScope after the scan: `if hint != 0 { updateChildNum; GetOrCreateBucket(pub); put keys }` -/
def scopeBranchB (t : Tree) (id : Bytes) (internal : Bool) (n : Nat) (enc : Nat → Bytes) : Except Err Tree :=
  if n = 0 then .ok t
  else
    seqE (onB t (.acct id) (fun b => updateChildNum b internal n)) fun t =>
    onB t (.pub id) (putPubKeys (if internal then MW.Gen.Keystore.internalBranch else MW.Gen.Keystore.externalBranch) enc (List.range n))

/-- createManagerKeyScope, the writes in source order (the duplicate-seed check first) -/
def createScopeB (t : Tree) (i : AcctIn) : Except Err Tree :=
  if (bget (t .aid) i.id).isSome then .error .db else
  seqE (onB t .aid (fun b => putAccountID b i.id)) fun t =>
  seqE (onB t (.acct i.id) (fun b => putCoinType b i.coin)) fun t =>
  seqE (onB t (.acct i.id) (fun b => putAccountInfo b i.account i.acctPubEnc i.acctPrivEnc)) fun t =>
  seqE (onB t (.acct i.id) (fun b => putBranchPubKeys b i.inbEnc i.exbEnc)) fun t =>
  seqE (onB t (.acct i.id) initBranchChildNum) fun t =>
  seqE (scopeBranchB t i.id true i.nInt i.pkInt) fun t =>
  scopeBranchB t i.id false i.nExt i.pkExt

/-- initAcctBucket / allocAddrMgrNamespace after createManagerKeyScope -/
def initAcctBucketB (t : Tree) (i : AcctIn) : Except Err Tree :=
  seqE (createScopeB t i) fun t =>
  seqE (onB t (.acct i.id) (fun b => putVersion b i.version)) fun t =>
  seqE (if i.remark.isEmpty then .ok t else onB t (.acct i.id) (fun b => putRemark b i.remark)) fun t =>
  seqE (onB t (.acct i.id) (fun b => putMasterKeyParams b (some i.pubParams) (some i.privParams))) fun t =>
  seqE (onB t (.acct i.id) (fun b => putEntropy b i.entropyEnc)) fun t =>
  onB t (.acct i.id) (fun b => putCryptoKeys b (some i.cPubEnc) (some i.cPrivEnc) (some i.cEntEnc))

/-- nextAddresses + updateManagedAddress for one external address: updateChildNum(false, next+1), putEncryptedPubKey -/
def newAddrB (t : Tree) (id : Bytes) (next : Nat) (pkEnc : Bytes) : Except Err Tree :=
  seqE (onB t (.acct id) (fun b => updateChildNum b false (next + 1))) fun t =>
  onB t (.pub id) (fun pk => putEncryptedPubKey pk MW.Gen.Keystore.externalBranch next pkEnc)

/-- ChangePubPassphrase, one keystore: putMasterKeyParams(pubParams, nil), putCryptoKeys(cryptoKeyPubEnc, nil, nil) -/
def chpubOneB (t : Tree) (id : Bytes) (pubParams cPubEnc : Bytes) : Except Err Tree :=
  seqE (onB t (.acct id) (fun b => putMasterKeyParams b (some pubParams) none)) fun t =>
  onB t (.acct id) (fun b => putCryptoKeys b (some cPubEnc) none none)

/-- ChangePubPassphrase: every managed keystore in turn, one database transaction (the first error ends it) -/
def chpubAllB : Tree → List (Bytes × Bytes × Bytes) → Except Err Tree
  | t, [] => .ok t
  | t, (id, pubParams, cPubEnc) :: r => seqE (chpubOneB t id pubParams cPubEnc) (fun t => chpubAllB t r)

/-- DeleteKeystore: Clear + DeleteBucket of the account bucket (with its sub-bucket), deleteAccountID -/
def removeB (t : Tree) (id : Bytes) : Tree :=
  ((t.set (.acct id) []).set (.pub id) []).set .aid (deleteAccountID (t .aid) id)

/-- ExportKeystore reads the account bucket -/
def exportB (t : Tree) (id : Bytes) (purpose coin : Nat) : Except Err KeystoreJ := exportKs (t (.acct id)) purpose coin

-- ------------------------------------------------------------------ the symbolic entries as byte inputs

/-- the byte inputs that `acctEntries w e p nExt nInt privParams mkPriv mkPubParams mkPub kPub kPriv kEnt` stands for -/
def acctInOf (C : BCrypto) (ρ : PubVal) (coin : Nat) (w e : String) (p : Pass) (nExt nInt : Nat)
    (privParams mkPriv mkPubParams mkPub : Term) (kPub kPriv kEnt : Nat) : AcctIn :=
  let kPubB := C.atom (.key kPub)
  let kPrivB := C.atom (.key kPriv)
  let kEntB := C.atom (.key kEnt)
  { id := C.walletId w, coin := coin, account := MW.Gen.Keystore.walletUsage,
    acctPubEnc := C.box kPubB (ρ (w, .acct 1)), acctPrivEnc := C.box kPrivB (C.atom (.acctPriv e p)),
    inbEnc := C.box kPubB (ρ (w, .inb)), exbEnc := C.box kPubB (ρ (w, .exb)),
    nInt := nInt, nExt := nExt,
    pkInt := fun i => C.box kPubB (ρ (w, .pubk 1 i)), pkExt := fun i => C.box kPubB (ρ (w, .pubk 0 i)),
    version := 0, remark := [],
    pubParams := bytesOf C (ρ (w, .mpub)) mkPubParams, privParams := bytesOf C (ρ (w, .mpriv)) privParams,
    entropyEnc := C.box kEntB (C.atom (.entropy e)),
    cPubEnc := C.box (bytesOf C (ρ (w, .cpub)) mkPub) kPubB, cPrivEnc := C.box (bytesOf C (ρ (w, .cpriv)) mkPriv) kPrivB,
    cEntEnc := C.box (bytesOf C (ρ (w, .cent)) mkPriv) kEntB }

-- ------------------------------------------------------------------ the symbolic writes of the other operations as byte inputs

/-- the key the branch public key is sealed under, read off the stored box (newAddr re-uses it) -/
def exbKey (t : Term) : Term :=
  match t with
  | .enc k _ => k
  | _ => .pub "missing"

/-- the symbolic writes of ChangePubPassphrase for one keystore (one step of the fold `chpubWrites`) -/
def chpubEntries (w : String) (salt : Nat) (new : Pass) (ck : Term) : List (Key × Term) :=
  [ ((w, .mpub), paramsT salt new), ((w, .cpub), .enc (masterKey salt new) ck) ]

/-- the steps of the symbolic ChangePubPassphrase: keystore, fresh salt, the public crypto key read with the old passphrase -/
def chpubSteps (st : St) (old : Pass) : List (String × Nat × Term) :=
  ((List.range st.wal.length).zip st.wal).map (fun ie =>
    (ie.2.1, st.nonce + ie.1,
      match deriveKey (dbGet st.db ie.2.1 .mpub) old with
      | some mkOld => (dec mkOld (dbGet st.db ie.2.1 .cpub)).getD (.pub "missing")
      | none => .pub "missing"))

/-- the byte inputs of one ChangePubPassphrase step -/
def chpubStepB (C : BCrypto) (ρ : PubVal) (new : Pass) (s : String × Nat × Term) : Bytes × Bytes × Bytes :=
  (C.walletId s.1, valBytes C ρ (s.1, .mpub) (paramsT s.2.1 new), valBytes C ρ (s.1, .cpub) (.enc (masterKey s.2.1 new) s.2.2))

-- ------------------------------------------------------------------ the byte-level machine, in lockstep with the symbolic one

/-- the public data of the wallets: the coin type and the plaintexts of the public boxes (extended public keys, public keys) -/
structure PubData where
  coin : Nat
  plain : Key → Bytes

/-- the public valuation of a state: fixed formats, the counters of the wallet records, the public data -/
def pubValsOf (π : PubData) (wal : AMap.T String (WRec × AM)) : PubVal := fun K =>
  let r := ((AMap.get wal K.1).map (·.1)).getD default
  match K.2 with
  | .aid => [0]
  | .kver => [0]
  | .coinType => u32Bytes π.coin
  | .account => u32Bytes MW.Gen.Keystore.walletUsage
  | .exNum => u32Bytes r.nExt
  | .inNum => u32Bytes r.nInt
  | _ => π.plain K

/-- the installer for the account `w` that the symbolic step has just installed (`st'` = the state after the step) -/
def installB (C : BCrypto) (π : PubData) (st' : St) (t : Tree) (w : String) (privParams mkPriv : Term) (p : Pass) (n k0 : Nat) :
    Except Err Tree :=
  match AMap.get st'.wal w with
  | none => .error .shape
  | some (r, _) =>
    initAcctBucketB t (acctInOf C (pubValsOf π st'.wal) π.coin w r.ent p r.nExt r.nInt privParams mkPriv
      (paramsT n st'.pubPass) (masterKey n st'.pubPass) k0 (k0 + 1) (k0 + 2))

/-- one operation at byte level: the writers of the operation when the symbolic machine performs it, nothing otherwise
    (refused operations and the reading operations write nothing) -/
def stepB (C : BCrypto) (π : PubData) (st : St) (t : Tree) (op : Op) : Except Err Tree :=
  let st' := (step st op).1
  match op, (step st op).2 with
  | .create w p _, .ok =>
    installB C π st' t w (paramsT (st.nonce + 1) p) (masterKey (st.nonce + 1) p) p st.nonce (st.nonce + 2)
  | .newAddr w, .ok =>
    match AMap.get st.wal w with
    | some (r, _) =>
      newAddrB t (C.walletId w) r.nExt (valBytes C (pubValsOf π st'.wal) (w, .pubk 0 r.nExt) (dbGet st'.db w (.pubk 0 r.nExt)))
    | none => .error .shape
  | .importKS k p, .ok =>
    match AMap.get st.exports k with
    | some x => installB C π st' t x.wallet x.privParams ((deriveKey x.privParams p).getD (.pub "missing")) p st.nonce (st.nonce + 1)
    | none => .error .shape
  | .importMn _ p _ _ _, .okName name =>
    installB C π st' t name (paramsT (st.nonce + 1) p) (masterKey (st.nonce + 1) p) p st.nonce (st.nonce + 2)
  | .remove w _, .ok => .ok (removeB t (C.walletId w))
  | .chpub o n, .ok => chpubAllB t ((chpubSteps st o).map (chpubStepB C (pubValsOf π st.wal) n))
  | _, _ => .ok t

/-- a history at byte level, next to the symbolic run -/
def runB (C : BCrypto) (π : PubData) : St → Tree → List Op → Except Err Tree
  | _, t, [] => .ok t
  | st, t, op :: ops =>
    match stepB C π st t op with
    | .ok t' => runB C π (step st op).1 t' ops
    | .error e => .error e

end MW.Model.KsBytes
