/-
  MODEL of persistence: what survives a process crash / a failed storage call (C06, C18).
  Built on MW.Model.Ledger (the follower and the ledger buckets).

  State = persistent `PStore` (the LevelDB content: ledger buckets + keystore buckets)
        × volatile   `PVol`   (NtfnsHandler.bestBlock / mempool / expiredMempool, the keystore
                               manager's cache, the wallet in use, the worker's task queue, the
                               reservation cache).

  Go code followed (masswallet/…):
    db/db.go            Update (begin; body; Commit | Rollback)                     → `Op.run`
    wallet.go           NewWalletManager, CreateWallet, NewAddress, RemoveWallet,
                        ImportWallet*                                               → `boot`, `opCreate`, `opNewAddr`, `opRemoveMark`, `opImport`
    keystore/manager.go NewKeystore (cache insert as LAST statement), RemoveCachedKeystore,
                        NextAddresses, DeleteKeystore, UpdateManagedKeystores       → phases of the ops
    keystore/addrmgr.go nextAddresses (index read from the BUCKET), updateManagedAddress
                        (cache written BEFORE the re-read of the child numbers)     → `opNewAddr`
    ntfnshandler.go     NewNtfnsHandler (bestBlock := synced-to), Start (fast-forward, catch-up,
                        initTaskChan), processConnectedBlock (bestBlock only on success),
                        filterTx unmined path, OnRemoveWallet, asyncRemove, worker  → `bootVol`, `start`, `opBlock`, `opRecvTx`, …
  A storage fault at call index j of an operation aborts the enclosing Update: the batch is dropped
  (C11's guarantee, taken as the key/value layer's contract), volatile effects made before the
  failing call stay, then the operation's own repair code runs.
-/
import MW.Model.Ledger
import MW.Gen.Updates
namespace MW.Model.Persist
open MW MW.Model.Ledger

-- ------------------------------------------------------------------ state

/-- keystore bucket of one wallet: next external child number and the issued (index, address) pairs -/
structure KsRec where
  next : Nat := 0
  addrs : List (Nat × Addr) := []
  deriving DecidableEq, Repr, Inhabited

inductive Task
  | imp (w : Wid)
  | rem (w : Wid)
  deriving DecidableEq, Repr, Inhabited

structure PStore where
  led : Store := { sync := [(0, "G")] }
  ks : AMap.T Wid KsRec := []
  deriving Repr, Inhabited

structure PVol where
  led : Vol := {}
  keys : AMap.T Wid KsRec := []        -- KeystoreManager.managedKeystores (+ AddrManager.addrs / branchInfo)
  cur : Option Wid := none             -- KeystoreManager.currentKeystore
  tasks : List Task := []              -- NtfnsHandler.taskChan
  reserved : List (TxId × Nat) := []   -- WalletManager.usedCache
  deriving Repr, Inhabited

/-- the environment of the wallet: consensus parameters, the node, key derivation -/
structure Env where
  p : Params := {}
  node : Node := {}
  derive : Wid → Nat → Addr := fun w n => w ++ "/" ++ toString n

inductive PErr
  | fault                  -- injected storage error
  | ledger (e : Err)
  | duplicate | notFound | unready | tooManyTasks | startFailed
  deriving Repr, Inhabited

-- ------------------------------------------------------------------ views of the volatile keystore cache

/-- GetManagedAddressByScriptHash reads the CACHE: script hash ↦ (wallet, isChange) -/
def ownOf (keys : AMap.T Wid KsRec) : Own :=
  keys.flatMap (fun e => e.2.addrs.map (fun a => (a.2, (e.1, false))))

/-- ListKeystoreNames -/
def walletsOf (keys : AMap.T Wid KsRec) : List Wid := keys.map (·.1)

def ctxOf (env : Env) (v : PVol) : Ctx :=
  { p := env.p, own := ownOf v.keys, wallets := walletsOf v.keys, node := env.node }

/-- idempotent insert (the caches are Go maps keyed by address) -/
def insertAddr (l : List (Nat × Addr)) (x : Nat × Addr) : List (Nat × Addr) :=
  if l.contains x then l else l ++ [x]

-- ------------------------------------------------------------------ transactions with fault injection

/-- one stretch of a transaction body: `calls` storage calls (get/put/delete), then its effect on the
    working copy of the store and on the volatile state. A fault inside the stretch aborts before
    the effect (volatile effects are placed in stretches of their own with 0 calls where the code
    performs them between two storage calls). -/
structure Phase where
  calls : Nat
  act : PStore → PVol → Except PErr (PStore × PVol)

/-- run the phases from call counter `cnt`; returns the working store or the error, the volatile
    state reached, the call counter and the number of phases completed. -/
def runPhases (fault : Option Nat) : Nat → Nat → List Phase → PStore → PVol → Except PErr PStore × PVol × Nat × Nat
  | cnt, done, [], P, V => (.ok P, V, cnt, done)
  | cnt, done, ph :: rest, P, V =>
    match fault with
    | some j =>
      if cnt ≤ j ∧ j < cnt + ph.calls then (.error .fault, V, cnt, done)
      else match ph.act P V with
        | .error e => (.error e, V, cnt + ph.calls, done)
        | .ok (P', V') => runPhases fault (cnt + ph.calls) (done + 1) rest P' V'
    | none =>
      match ph.act P V with
      | .error e => (.error e, V, cnt + ph.calls, done)
      | .ok (P', V') => runPhases fault (cnt + ph.calls) (done + 1) rest P' V'

/-- a wallet operation built around ONE mwdb.Update -/
structure Op where
  phases : List Phase
  /-- the code's own repair of the volatile state after a failed Update (argument: phases completed) -/
  repair : Nat → PStore → PVol → PVol := fun _ _ v => v
  /-- volatile update after the commit succeeded (arguments: store and volatile state the operation
      started from, committed store, volatile state after the body) -/
  post : PStore → PVol → PStore → PVol → PVol := fun _ _ _ v => v

structure Res where
  ok : Bool
  P : PStore
  V : PVol
  commits : Nat        -- LevelDB batch writes performed (0 or 1)
  calls : Nat          -- storage calls made

/-- db.Update: call 0 = BeginTx, then the body, last call = Commit. On any error the batch is dropped. -/
def Op.run (o : Op) (fault : Option Nat) (P : PStore) (V : PVol) : Res :=
  if fault = some 0 then ⟨false, P, o.repair 0 P V, 0, 1⟩ else
  match runPhases fault 1 0 o.phases P V with
  | (.error _, V', cnt, done) => ⟨false, P, o.repair done P V', 0, cnt⟩
  | (.ok Pw, V', cnt, done) =>
    if fault = some cnt then ⟨false, P, o.repair done P V', 0, cnt + 1⟩
    else ⟨true, Pw, o.post P V Pw V', 1, cnt + 1⟩

-- ------------------------------------------------------------------ follower operations

/-- the database transaction of processConnectedBlock (direct extension or reorg) -/
def blockTx (c : Ctx) (s : Store) (best : BlockMeta) (b : Block) : M (Store × List Nat × List (Nat × List TxId)) :=
  if b.prev = best.hash then do
    let ready := readyWallets s c.wallets
    let (s', conf) ← filterBlock c s ready b
    pure (s', [], [(b.height, conf)])
  else reorg c s best b

/-- the volatile update of processConnectedBlock after a successful commit -/
def volAfterBlock (v : Vol) (b : Block) (rolled : List Nat) (added : List (Nat × List TxId)) : Vol :=
  let (mem, exp) := rolled.foldl (fun (me : List TxId × AMap.T Nat (List TxId)) h =>
    match AMap.get me.2 h with
    | some ids => (me.1 ++ ids.filter (fun i => !me.1.contains i), AMap.erase me.2 h)
    | none => (me.1, AMap.erase me.2 h)) (v.mempool, v.expired)
  let (mem, exp) := added.foldl (fun (me : List TxId × AMap.T Nat (List TxId)) hc =>
    let exp := AMap.put me.2 hc.1 hc.2
    if hc.1 > maxMemPoolExpire then
      match AMap.get exp (hc.1 - maxMemPoolExpire) with
      | some old => (me.1.filter (fun i => !old.contains i), AMap.erase exp (hc.1 - maxMemPoolExpire))
      | none => (me.1, exp)
    else (me.1, exp)) (mem, exp)
  { best := ⟨b.height, b.id⟩, mempool := mem, expired := exp }

/-- processConnectedBlock. `n` = number of storage calls of the body (any number). The rolled-back
    heights / confirmed ids travel from the body to `post` through the result of `blockTx`, which
    `post` recomputes from the state the body started from (the body is deterministic). -/
def opBlock (env : Env) (n : Nat) (b : Block) : Op :=
  { phases := [⟨n, fun P V =>
      match blockTx (ctxOf env V) P.led V.led.best b with
      | .error e => .error (.ledger e)
      | .ok (s', _, _) => .ok ({ P with led := s' }, V)⟩],
    post := fun P0 V0 _ V =>
      match blockTx (ctxOf env V0) P0.led V0.led.best b with
      | .ok (_, rolled, added) => { V with led := volAfterBlock V.led b rolled added }
      | .error _ => V }

/-- onRelevantTx: the ONE Update of the unconfirmed path, then (only after its success) the mempool insert -/
def opAddUnmined (n : Nat) (tr : TxRec) : Op :=
  { phases := [⟨n, fun P V =>
      match addRelevantUnmined P.led tr with
      | .error e => .error (.ledger e)
      | .ok s' => .ok ({ P with led := s' }, V)⟩],
    post := fun _ _ _ V => { V with led := { V.led with mempool := V.led.mempool ++ [tr.tx.id] } } }

/-- the unconfirmed path of filterTx (below the sync-height gate): read transactions first
    (`nRead` storage calls: ready wallets, pending lookups), the volatile duplicate check, the
    relevance filter, and for a relevant transaction one Update. -/
def recvTx (env : Env) (nRead nWrite : Nat) (fault : Option Nat) (tx : Tx) (P : PStore) (V : PVol) : Res :=
  let hitRead : Bool := match fault with | some j => decide (j < nRead) | none => false
  if hitRead then ⟨false, P, V, 0, nRead⟩ else
  if V.led.mempool.contains tx.id then ⟨true, P, V, 0, nRead⟩ else
  let c := ctxOf env V
  match filterTxRel c P.led tx false [] (readyWallets P.led c.wallets) with
  | .error _ => ⟨false, P, V, 0, nRead⟩
  | .ok none => ⟨true, P, V, 0, nRead⟩
  | .ok (some tr) =>
    let r := (opAddUnmined nWrite tr).run (fault.map (· - nRead)) P V
    { r with calls := r.calls + nRead }

-- ------------------------------------------------------------------ keystore operations

/-- CreateWallet: NewKeystore (bucket writes, then — as its last statement — the cache insert),
    InitNewWallet (balance 0), PutWalletStatus (ready). On failure RemoveCachedKeystore(walletId),
    where walletId is only known if NewKeystore returned. -/
def opCreate (nA nB nC : Nat) (w : Wid) : Op :=
  { phases := [
      ⟨nA, fun P V => if (AMap.get P.ks w).isSome then .error .duplicate
                      else .ok ({ P with ks := AMap.put P.ks w {} }, V)⟩,
      ⟨0, fun P V => .ok (P, { V with keys := AMap.put V.keys w {} })⟩,
      ⟨nB, fun P V => .ok ({ P with led := { P.led with balance := AMap.put P.led.balance w 0 } }, V)⟩,
      ⟨nC, fun P V => .ok ({ P with led := { P.led with status := AMap.put P.led.status w ⟨none, false⟩ } }, V)⟩],
    repair := fun done _ V => if done ≥ 2 then { V with keys := AMap.erase V.keys w } else V }

/-- NewAddress of the wallet in use: nextAddresses reads the next index from the BUCKET, derives,
    writes child number and public key; updateManagedAddress inserts into the cache and THEN
    re-reads the child numbers; PutNewAddress writes the address record. No repair on failure. -/
def opNewAddr (env : Env) (nA nB nC : Nat) (stk : Bool) : Op :=
  { phases := [
      ⟨nA, fun P V =>
        match V.cur with
        | none => .error .notFound
        | some w =>
          match AMap.get P.ks w with
          | none => .error .notFound
          | some r => .ok ({ P with ks := AMap.put P.ks w { next := r.next + 1, addrs := r.addrs ++ [(r.next, env.derive w r.next)] } }, V)⟩,
      ⟨0, fun P V =>
        match V.cur with
        | none => .error .notFound
        | some w =>
          match AMap.get P.ks w, AMap.get V.keys w with
          | some r, some c =>
            -- the address just derived is the last one of the working copy
            match r.addrs.getLast? with
            | some a => .ok (P, { V with keys := AMap.put V.keys w { c with addrs := insertAddr c.addrs a } })
            | none => .error .notFound
          | _, _ => .error .notFound⟩,
      ⟨nB, fun P V => .ok (P, V)⟩,
      ⟨0, fun P V =>
        match V.cur with
        | none => .error .notFound
        | some w =>
          match AMap.get P.ks w, AMap.get V.keys w with
          | some r, some c => .ok (P, { V with keys := AMap.put V.keys w { c with next := r.next } })
          | _, _ => .error .notFound⟩,
      ⟨nC, fun P V =>
        match V.cur with
        | none => .error .notFound
        | some w =>
          match (AMap.get P.ks w).bind (·.addrs.getLast?) with
          | some a => .ok ({ P with led := { P.led with addrs := AMap.put P.led.addrs (w, stk, a.2) 0 } }, V)
          | none => .error .notFound⟩] }

/-- UseWallet: the wallet must be cached, ready and not being removed -/
def useWallet (P : PStore) (V : PVol) (w : Wid) : Option PVol :=
  match AMap.get P.led.status w, AMap.get V.keys w with
  | some st, some _ => if st.synced.isNone && !st.removed then some { V with cur := some w } else none
  | _, _ => none

/-- OnRemoveWallet: mark the wallet (one Update), then queue the removal task -/
def opRemoveMark (n : Nat) (w : Wid) : Op :=
  { phases := [⟨n, fun P V =>
      match AMap.get P.led.status w with
      | none => .error .notFound
      | some st => if st.synced.isSome then .error .unready
                   else .ok ({ P with led := { P.led with status := AMap.put P.led.status w { st with removed := true } } }, V)⟩],
    post := fun _ _ _ V => { V with tasks := V.tasks ++ [.rem w] } }

/-- asyncRemove step 1: unspent index, address records, deposit histories and balance of the wallet -/
def opRemove1 (n : Nat) (w : Wid) : Op :=
  { phases := [⟨n, fun P V =>
      let s := P.led
      .ok ({ P with led := { s with unspent := s.unspent.filter (fun e => e.1.1 ≠ w),
                                      addrs := s.addrs.filter (fun e => e.1.1 ≠ w),
                                      game := s.game.filter (fun e => e.1.wallet ≠ w),
                                      pendGame := s.pendGame.filter (fun e => e.1.1 ≠ w),
                                      balance := AMap.erase s.balance w } }, V)⟩] }

/-- asyncRemove final step (the `finish` iteration): DeleteWalletStatus, DeleteKeystore (bucket, then
    cache and current wallet INSIDE the transaction); on failure UpdateManagedKeystores reloads the
    cache entry from the committed store. The credit / transaction record clean-up that precedes it
    (RemoveRelevantTx) is C08's subject and not modelled here. -/
def opRemoveFinal (nA nB : Nat) (w : Wid) : Op :=
  { phases := [
      ⟨nA, fun P V => .ok ({ P with led := { P.led with status := AMap.erase P.led.status w } }, V)⟩,
      ⟨nB, fun P V => if (AMap.get V.keys w).isNone then .error .notFound
                      else .ok ({ P with ks := AMap.erase P.ks w }, V)⟩,
      ⟨0, fun P V => .ok (P, { V with keys := AMap.erase V.keys w, cur := if V.cur = some w then none else V.cur })⟩],
    repair := fun _ P V =>
      match AMap.get P.ks w, AMap.get V.keys w with
      | some r, none => { V with keys := AMap.put V.keys w r }
      | none, some _ => { V with keys := AMap.erase V.keys w }
      | _, _ => V }

-- ------------------------------------------------------------------ boot = NewWalletManager + NtfnsHandler.Start

/-- NewKeystoreManager loads every stored keystore; NewNtfnsHandler copies synced-to; everything
    else starts empty. -/
def bootVol (P : PStore) : PVol :=
  { led := { best := ⟨P.led.syncedTo, (AMap.get P.led.sync P.led.syncedTo).getD "?"⟩, mempool := [], expired := [] },
    keys := P.ks, cur := none, tasks := [], reserved := [] }

/-- initTaskChan: re-queue removals and unfinished imports from the stored wallet status -/
def requeue (P : PStore) : List Task :=
  P.led.status.filterMap (fun e =>
    if e.2.removed then some (.rem e.1) else if e.2.synced.isSome then some (.imp e.1) else none)

/-- one fast-forward step of Start: bestBlock is assigned BEFORE the Update (as written) -/
def opFastForward (n : Nat) (bm : BlockMeta) : Op :=
  { phases := [⟨n, fun P V =>
      match putSyncedTo P.led bm with
      | .error e => .error (.ledger e)
      | .ok s' => .ok ({ P with led := s' }, V)⟩] }

structure BootRes where
  ok : Bool
  P : PStore
  V : PVol
  commits : Nat

/-- catch-up loop of Start from height `cur` for `fuel` heights. `fault` = (index of the catch-up
    step, call index inside it) of an injected storage fault. -/
def catchUp (env : Env) (n : Nat) : Nat → Nat → PStore → PVol → Nat → BootRes
  | 0, _, P, V, k => ⟨true, P, V, k⟩
  | fuel + 1, cur, P, V, k =>
    if cur > env.node.tipHeight then ⟨true, P, V, k⟩ else
    match env.node.blockAt cur with
    | none => ⟨false, P, V, k⟩
    | some b =>
      let r := (opBlock env n b).run none P V
      if r.ok then catchUp env n fuel (cur + 1) r.P r.V (k + r.commits) else ⟨false, r.P, r.V, k⟩

/-- fast-forward loop of Start (no ready wallet, node more than ffGap blocks ahead) -/
def fastForward (env : Env) (n : Nat) (limit : Nat) : Nat → Nat → PStore → PVol → Nat → BootRes × Nat
  | 0, cur, P, V, k => (⟨true, P, V, k⟩, cur)
  | fuel + 1, cur, P, V, k =>
    if cur < limit then
      match env.node.blockAt cur with
      | none => (⟨false, P, V, k⟩, cur)
      | some b =>
        let V1 := { V with led := { V.led with best := ⟨cur, b.id⟩ } }
        let r := (opFastForward n ⟨cur, b.id⟩).run none P V1
        if r.ok then fastForward env n limit fuel (cur + 1) r.P r.V (k + r.commits) else (⟨false, r.P, r.V, k⟩, cur)
    else (⟨true, P, V, k⟩, cur)

/-- NtfnsHandler.Start: fast-forward, catch-up, initTaskChan -/
def start (env : Env) (n : Nat) (P : PStore) (V : PVol) : BootRes :=
  let syncH := P.led.syncedTo
  let indexH := env.node.tipHeight
  let hasReady := !(readyWallets P.led (walletsOf V.keys)).isEmpty
  let (r1, cur) :=
    if !hasReady && indexH > Gen.Updates.ffGap then
      fastForward env n (indexH - Gen.Updates.ffGap) (indexH + 1) (syncH + 1) P V 0
    else (⟨true, P, V, 0⟩, syncH + 1)
  if !r1.ok then r1 else
  let r2 := catchUp env n (indexH + 1) cur r1.P r1.V r1.commits
  if !r2.ok then r2 else
  { r2 with V := { r2.V with tasks := requeue r2.P } }

/-- a process crash keeps the store and nothing else; the restarted process runs NewWalletManager
    (one Update that changes nothing once the buckets exist) and Start -/
def crash (env : Env) (n : Nat) (P : PStore) : BootRes :=
  let r := start env n P (bootVol P)
  { r with commits := r.commits + 1 }

-- ------------------------------------------------------------------ expectations on the regenerated facts (tie B)

/-- the call-site table the model is built on: one Update per operation; Start's and asyncRemove's
    second site sit in a loop (one commit per fast-forwarded height / per removal step) -/
def expectedSites : List (String × String × Nat × Nat) := [
  ("masswallet/ntfnshandler.go", "NtfnsHandler.OnRemoveWallet", 1, 0),
  ("masswallet/ntfnshandler.go", "NtfnsHandler.Start", 1, 1),
  ("masswallet/ntfnshandler.go", "NtfnsHandler.asyncImport", 1, 0),
  ("masswallet/ntfnshandler.go", "NtfnsHandler.asyncRemove", 2, 1),
  ("masswallet/ntfnshandler.go", "NtfnsHandler.onRelevantTx", 1, 0),
  ("masswallet/ntfnshandler.go", "NtfnsHandler.processConnectedBlock", 1, 0),
  ("masswallet/wallet.go", "NewWalletManager", 1, 0),
  ("masswallet/wallet.go", "WalletManager.ChangePrivPassphrase", 1, 0),
  ("masswallet/wallet.go", "WalletManager.CreateWallet", 1, 0),
  ("masswallet/wallet.go", "WalletManager.ImportWallet", 1, 0),
  ("masswallet/wallet.go", "WalletManager.ImportWalletWithMnemonic", 1, 0),
  ("masswallet/wallet.go", "WalletManager.NewAddress", 1, 0)]

end MW.Model.Persist
