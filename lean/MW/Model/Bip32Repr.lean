/-
  How a model key (bytes, as the Go struct holds them) REPRESENTS a BIP-32 extended key of the spec,
  the relation between model results and spec results, the well-formedness invariant of model keys,
  and the two degenerate HMAC outputs on which the code and the letter of BIP-32 differ.
  Definitions only (they occur in the statements of MW.Props.C14).  Core Lean only.
-/
import MW.Model.Bip32
import MW.Spec.Bip32
namespace MW.Model.Bip32
open MW

/-- `m` represents `x`: same serialisation data (of the sizes the 78-byte format has); a private key is held as ser256(k) (exactly 32 bytes,
    leading zeros kept; k a valid private key, 0 < k < n), a public key as serP(K) with K a point that parses. -/
def Rep (C : CurveOps) (m : XKey) (x : Spec.Bip32.XKey C.Pt) : Prop :=
  m.version = x.version ∧ m.depth = x.depth ∧ x.depth < 256 ∧ m.parentFP = x.parentFP ∧ m.childNum = x.childNum ∧
  m.chainCode = x.chain ∧
  (x.version.length = 4 ∧ x.parentFP.length = 4 ∧ x.childNum < 2 ^ 32 ∧ x.chain.length = 32) ∧
  match x.key with
  | .priv k => m.isPrivate = true ∧ m.key = Spec.Bip32.ser256 k ∧ 0 < k ∧ k < C.n
  | .pub K => m.isPrivate = false ∧ m.key = C.enc K ∧ C.parse (C.enc K) = some K

/-- results correspond: both fail with the same error class, or both succeed with related values -/
def RelE {α β : Type} (R : α → β → Prop) : Except Bip32Err α → Except Bip32Err β → Prop
  | .ok a, .ok b => R a b
  | .error e, .error e' => e = e'
  | _, _ => False

/-- The two HMAC outputs on which `Child` and the letter of BIP-32 differ (each has probability
    about 2^-256 per derivation and cannot be constructed without inverting HMAC-SHA512):
    * IL = 0: the code returns ErrInvalidChild, BIP-32 accepts (ki = kpar);
    * IL + kpar ≡ 0 (mod n) (resp. Ki = point at infinity): BIP-32 says the key is invalid, the code
      returns the all-zero key (resp. the encoding of infinity). -/
def Degenerate (C : CurveOps) (H : HashOps) (x : Spec.Bip32.XKey C.Pt) (i : Nat) : Prop :=
  match x.key with
  | .priv k =>
    let il := Spec.Bip32.parse256 ((Spec.Bip32.Ipriv C H k x.chain i).take 32)
    il = 0 ∨ (il + k) % C.n = 0
  | .pub K =>
    let il := Spec.Bip32.parse256 ((Spec.Bip32.Ipub C H K x.chain i).take 32)
    il = 0 ∨ C.isInf (C.add (C.mulG il) K) = true

/-- no step of the path is degenerate -/
def DegenerateFree (C : CurveOps) (H : HashOps) (x : Spec.Bip32.XKey C.Pt) : List Nat → Prop
  | [] => True
  | i :: is => ¬ Degenerate C H x i ∧
      match Spec.Bip32.ckd C H x i with
      | .ok c => DegenerateFree C H c is
      | .error _ => True

/-- invariant of every key produced by NewMaster / Child / Neuter / NewKeyFromString -/
structure WF (C : CurveOps) (m : XKey) : Prop where
  version : m.version.length = 4
  depth : m.depth < 256
  parentFP : m.parentFP.length = 4
  childNum : m.childNum < 2 ^ 32
  chainCode : m.chainCode.length = 32
  priv : m.isPrivate = true → m.key.length = 32 ∧ 0 < BE.ofBytes m.key ∧ BE.ofBytes m.key < C.n
  pub : m.isPrivate = false → m.key.length = 33 ∧ m.key.headD 0 ≠ 0 ∧ (C.parse m.key).isSome = true

end MW.Model.Bip32
