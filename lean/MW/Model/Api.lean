/-
  MODEL for C19: the partial-operation skeleton of every function of
    api/{wallet_service,tx_service,util,api_server}.go, masswallet/{wallet,tx,common,ntfnshandler}.go
  in the language of MW.Model.ApiDsl. One `Stmt` per Go function, in source order; the table `progs`
  is matched against the regenerated site table MW.Gen.Sites.table (`sites_match`, MW.Props.C19).

  Conventions
    * a Go variable is a skeleton variable of the same name; a pointer / interface / map holds 0 for
      nil; a slice or string holds its length (`prevTx.TxOut` = len of that slice); an `error` holds 0
      for nil and otherwise an error id (namespace `E`); `out` is the API error class returned by a
      handler (0 = a response).
    * `call f outs ens`: code outside the anchored files (keystore, txmgr, mass-core, stdlib). Its
      contract `ens` is what the skeleton relies on (e.g. "err == nil → result != nil"); it is checked
      dynamically by `run` and is an ASSUMPTION of the theorems (listed in notes/C19.md).
    * `mark "deep"` / `mark "node"`: from here on the outcome depends on coin selection, fees, the
      script engine or the node; the differential driver stops here and reports the class `deep`.
    * request fields are read through `call "in.…"`; the driver answers from the request, the theorems
      quantify over all answers.
-/
import MW.Model.ApiDsl
import MW.Gen.ApiFn
import MW.Gen.ApiErr
namespace MW.Model.Api
open Stmt MW.Gen

-- ------------------------------------------------------------------ helpers

def D (x t : String) : Stmt := .site "deref" (x ++ " ." ++ t) (some (.nz x))
def Dt (text : String) (x : Var) : Stmt := .site "deref" text (some (.nz x))
def MA (text : String) (m : Var) : Stmt := .site "mapassign" text (some (.nz m))
def IX (text : String) (i xs : Var) : Stmt := .site "index" text (some (.lt i xs))
def IXK (text : String) (xs : Var) (k : Nat) : Stmt := .site "index" text (some (.ge xs (k + 1)))
def IXc (text : String) : Stmt := .site "index" text none          -- constant index into a fixed-size array
def SL (text : String) (req : Option Atom) : Stmt := .site "slice" text req
def CV (text : String) : Stmt := .site "conv" text none
def AOK (text : String) : Stmt := .site "assertok" text none

/-- `err == nil → posts` -/
def onOk (e : Var) (posts : List Atom) : List Clause := posts.map (fun a => ⟨[.z e], [a]⟩)
def always (posts : List Atom) : List Clause := posts.map fact
/-- `if c { … return }` -/
def ifR (c : Cond) (t : Stmt) : Stmt := .ite c (t ;; .ret) .skip
def nz (x : Var) : Cond := .atom (.nz x)
def isz (x : Var) : Cond := .atom (.z x)
/-- handler: `return nil, status(code)` -/
def fail (code : Nat) : Stmt := .set "out" (.k code) ;; .ret
def failIf (c : Cond) (code : Nat) : Stmt := .ite c (fail code) .skip
def ok : Stmt := .set "out" (.k 0) ;; .ret
/-- the differential driver stops here (oracle answers 0): outcome class `deep` -/
def mark (what : String) : Stmt := .call ("mark:" ++ what) ["_go"] (always [.nz "_go"])
/-- a non-deterministic flag computed by code outside the skeleton -/
def flag (f : String) (x : Var) : Stmt := .call f [x] []

/- internal Go error identities (sentinel errors) -/
namespace E
def other : Nat := 1
def noWalletInUse : Nat := 2
def shaHashFromStr : Nat := 3
def invalidParameter : Nat := 4
def noAddressInWallet : Nat := 5
def invalidAmount : Nat := 6
def utxoNotExists : Nat := 7
def invalidIndex : Nat := 8
def doubleSpend : Nat := 9
def invalidFlag : Nat := 10
def notFound : Nat := 11
def walletUnready : Nat := 12
def tooManyTask : Nat := 13
def failedDecodeAddress : Nat := 14
def invalidAddress : Nat := 15
def addressNotFound : Nat := 16
def accountNotFound : Nat := 17
def invalidPassphrase : Nat := 18
def signFailed : Nat := 19
def invalidVersion : Nat := 20
def unsupportedScript : Nat := 21
def notEnoughInputs : Nat := 22
def unknownSubfeefrom : Nat := 23
def currentKeystoreNotFound : Nat := 24
end E

/-- api.convertResponseError on the modelled error identities (everything else: unknown → the
    caller's fallback class) -/
def cvtErr (e : Nat) : Nat :=
  if e = E.noWalletInUse || e = E.currentKeystoreNotFound then ApiErr.noWalletInUse
  else if e = E.noAddressInWallet then ApiErr.noAddressInWallet
  else if e = E.notEnoughInputs then ApiErr.notEnoughInputs
  else if e = E.invalidFlag then ApiErr.invalidFlag
  else if e = E.utxoNotExists then ApiErr.outputNotExist
  else if e = E.signFailed then ApiErr.signRawTx
  else if e = E.walletUnready then ApiErr.walletUnready
  else if e = E.invalidAmount then ApiErr.invalidAmount
  else if e = E.unknownSubfeefrom then ApiErr.unknownSubfeefrom
  else if e = E.shaHashFromStr then ApiErr.invalidTxId
  else if e = E.invalidParameter then ApiErr.invalidParameter
  else if e = E.invalidPassphrase then ApiErr.invalidPassphrase
  else if e = E.addressNotFound || e = E.accountNotFound || e = E.failedDecodeAddress || e = E.invalidAddress then ApiErr.invalidAddress
  else if e = E.doubleSpend then ApiErr.doubleSpend
  else ApiErr.unknownErr

/-- `cvtErr := convertResponseError(err); if cvtErr == apiUnknownError { return fallback }; return cvtErr` -/
def failCvt (_e : Var) (fallback : Nat) : Stmt :=
  .call "convertResponseError" ["cvt", "cvt.unknown"] [] ;;
  .ite (nz "cvt.unknown") (fail fallback) (.set "out" (.v "cvt") ;; .ret)
/-- `return nil, convertResponseError(err)` -/
def failCvt' (_e : Var) : Stmt := .call "convertResponseError" ["cvt", "cvt.unknown"] [] ;; .set "out" (.v "cvt") ;; .ret



-- ==================================================================== api/util.go

/-- AmountToString (api/util.go and masswallet/common.go: textually equal) -/
def f_AmountToString : Stmt :=
  flag "m>MaxAmount" "ats.big" ;;
  ifR (nz "ats.big") (.set "ats.err" (.k E.other)) ;;
  .call "safetype.NewUint128FromInt" ["u", "ats.err"] (onOk "ats.err" [.nz "u"]) ;;
  ifR (nz "ats.err") .skip ;;
  D "u" "AddUint" ;;
  .call "u.AddUint(MaxwellPerMass)" ["u", "ats.err"] (onOk "ats.err" [.nz "u"]) ;;
  ifR (nz "ats.err") .skip ;;
  D "u" "String" ;;
  -- u ≥ 10^8 after the addition: its decimal string has at least 9 digits
  .call "u.String" ["s"] (always [.ge "s" 9]) ;;
  SL "s[:len(s)-8]" (some (.ge "s" 8)) ;;
  SL "s[len(s)-8:]" (some (.ge "s" 8)) ;;
  .call "strconv.Atoi" ["ats.i", "ats.err"] [] ;;
  ifR (nz "ats.err") .skip ;;
  .set "ats.err" (.k 0)

def f_StringToAmount : Stmt :=
  .call "strings.Split(s, \".\")" ["s1"] (always [.ge "s1" 1]) ;;
  ifR (.atom (.ge "s1" 3)) (.set "sta.err" (.k E.other)) ;;
  .loop "sta.p" "s1" [.ge "s1" 1] (
    .call "range s1" ["part"] [] ;;
    .loop "i" "part" [.ge "s1" 1] (
      IX "part[i]" "i" "part" ;;
      flag "part[i] < '0'" "sta.lo" ;;
      .ite (isz "sta.lo") (IX "part[i]" "i" "part" ;; flag "part[i] > '9'" "sta.hi") (.set "sta.hi" (.k 0)) ;;
      ifR (.or (nz "sta.lo") (nz "sta.hi")) (.set "sta.err" (.k E.other)))) ;;
  flag "nDigits == 0" "sta.nodigit" ;;
  ifR (nz "sta.nodigit") (.set "sta.err" (.k E.other)) ;;
  IXK "s1[0]" "s1" 0 ;;
  .ite (.atom (.eqk "s1" 2)) (
    IXK "s1[1]" "s1" 1 ;;
    flag "len(sFrac) > 8" "sta.prec" ;;
    ifR (nz "sta.prec") (.set "sta.err" (.k E.other))) .skip ;;
  .call "strconv.ParseInt(sInt)" ["sta.i", "sta.err"] [] ;;
  ifR (nz "sta.err") .skip ;;
  flag "i < 0 || uint64(i) > consensus.MaxMass" "sta.range" ;;
  ifR (nz "sta.range") (.set "sta.err" (.k E.other)) ;;
  .call "strconv.ParseInt(sFrac)" ["sta.f", "sta.err"] [] ;;
  ifR (nz "sta.err") .skip ;;
  flag "f < 0" "sta.neg" ;;
  ifR (nz "sta.neg") (.set "sta.err" (.k E.other)) ;;
  .call "safetype.NewUint128FromUint" ["u"] (always [.nz "u"]) ;;
  D "u" "MulInt" ;;
  .call "u.MulInt" ["u", "sta.err"] (onOk "sta.err" [.nz "u"]) ;;
  ifR (nz "sta.err") .skip ;;
  D "u" "AddInt" ;;
  .call "u.AddInt" ["u", "sta.err"] (onOk "sta.err" [.nz "u"]) ;;
  ifR (nz "sta.err") .skip ;;
  .call "massutil.NewAmount" ["total", "sta.err"] [] ;;
  ifR (nz "sta.err") .skip ;;
  .set "sta.err" (.k 0)

def f_checkLocktime : Stmt :=
  flag "locktime > math.MaxInt64" "lt.big" ;;
  .ite (nz "lt.big") (.set "cl.err" (.k ApiErr.invalidLockTime)) (.set "cl.err" (.k 0))

def f_isEmpty : Stmt := flag "isEmpty(obj)" "empty"

def f_checkNotEmpty : Stmt :=
  .invoke Fn.isEmpty ;;
  .ite (nz "empty") (.set "cne.err" (.k ApiErr.invalidParameter)) (.set "cne.err" (.k 0))

def f_checkParseAmount : Stmt :=
  .invoke Fn.StringToAmount ;;
  .ite (nz "sta.err") (.set "cpa.err" (.k ApiErr.invalidAmount)) (.set "cpa.err" (.k 0))

def f_checkFormatAmount : Stmt :=
  .invoke Fn.AmountToString_util ;;
  .ite (nz "ats.err") (.set "cfa.err" (.k ApiErr.invalidAmount)) (.set "cfa.err" (.k 0))

def f_checkWitnessAddress : Stmt :=
  .call "massutil.DecodeAddress" ["addr", "cwa.derr"] (onOk "cwa.derr" [.nz "addr"]) ;;
  ifR (nz "cwa.derr") (.set "cwa.err" (.k ApiErr.invalidAddress)) ;;
  AOK "addr.(*massutil.AddressWitnessScriptHash)" ;;
  -- the dynamic type decides `ok`; on success the typed pointer is the non-nil interface value
  .call "addr.(*massutil.AddressWitnessScriptHash)" ["witAddr", "ok"] [⟨[.nz "ok"], [.nz "witAddr"]⟩] ;;
  .ite (isz "ok") (.set "cwa.bad" (.k 1)) (
    D "witAddr" "WitnessVersion" ;;
    flag "witAddr.WitnessVersion() != 0" "cwa.v" ;;
    .ite (nz "cwa.v") (.set "cwa.bad" (.k 1)) (
      flag "expectStaking" "cwa.es" ;;
      .ite (nz "cwa.es") (
        Dt "witAddr .WitnessExtendVersion" "witAddr" ;; flag "witAddr.WitnessExtendVersion() != 1" "cwa.bad") (
        Dt "witAddr .WitnessExtendVersion" "witAddr" ;; flag "witAddr.WitnessExtendVersion() != 0" "cwa.bad"))) ;;
  .ite (nz "cwa.bad") (.set "cwa.err" (.k ApiErr.invalidAddress)) (.set "cwa.err" (.k 0))

def f_parseBindingTarget : Stmt :=
  .call "massutil.DecodeAddress" ["target", "pbt.derr"] (onOk "pbt.derr" [.nz "target"]) ;;
  ifR (nz "pbt.derr") (.set "pbt.err" (.k ApiErr.invalidAddress)) ;;
  flag "massutil.IsValidBindingTarget" "pbt.valid" ;;
  .ite (isz "pbt.valid") (.set "pbt.err" (.k ApiErr.invalidAddress)) (.set "pbt.err" (.k 0))

def f_checkTxFeeLimit : Stmt :=
  .set "amt.sel" (.k 3) ;;
  .invoke Fn.checkParseAmount ;;
  .ite (nz "cpa.err") (.set "amt.sel" (.k 4) ;; .invoke Fn.checkParseAmount) .skip ;;
  flag "max.Cmp(fee) < 0" "fee.big" ;;
  .ite (nz "fee.big") (.set "ctf.err" (.k ApiErr.bigTransactionFee)) (.set "ctf.err" (.k 0))

def f_convertResponseError : Stmt := .skip

def f_checkAddressLen : Stmt :=
  flag "len(addr) == 0 || len(addr) > AddressMaxLen" "cal.bad" ;;
  .ite (nz "cal.bad") (.set "cal.err" (.k ApiErr.invalidAddress)) (.set "cal.err" (.k 0))

def f_checkWalletIdLen : Stmt :=
  flag "len(walletId) != LenWalletId" "cwl.bad" ;;
  .ite (nz "cwl.bad") (.set "cwl.err" (.k ApiErr.invalidWalletId)) (.set "cwl.err" (.k 0))

def f_checkTransactionIdLen : Stmt :=
  flag "len(txId) != LenTxId" "ctl.bad" ;;
  .ite (nz "ctl.bad") (.set "ctl.err" (.k ApiErr.invalidTxId)) (.set "ctl.err" (.k 0))

def f_checkMnemonicLen : Stmt :=
  flag "len(mnemonic) out of range" "cml.bad" ;;
  .ite (nz "cml.bad") (.set "cml.err" (.k ApiErr.invalidMnemonic)) (.set "cml.err" (.k 0))

def f_checkPassLen : Stmt :=
  flag "len(pass) > LenPassMax || len(pass) < LenPassMin" "cpl.bad" ;;
  .ite (nz "cpl.bad") (.set "cpl.err" (.k ApiErr.invalidPassphrase)) (.set "cpl.err" (.k 0))

def f_checkRemarksLen : Stmt :=
  .call "[]rune(remarks)" ["r"] [] ;;
  -- `len(r) > LenRemarksMax` (= 20)
  .ite (.atom (.ge "r" 21)) (SL "r[:LenRemarksMax]" (some (.ge "r" 20))) .skip

def f_extractAddressInfos : Stmt :=
  -- multisig scripts are answered from CalcMultiSigStats without extracting addresses
  flag "txscript.GetScriptClass(pkScript) == MultiSigTy" "eai.ms" ;;
  ifR (nz "eai.ms") (.set "eai.err" (.k 0)) ;;
  .call "txscript.ExtractPkScriptAddrs" ["scriptClass", "addrs", "eai.err"] [] ;;
  ifR (nz "eai.err") .skip ;;
  ifR (isz "addrs") (.set "eai.err" (.k E.other)) ;;
  flag "scriptClass == StakingScriptHashTy" "eai.stk" ;;
  flag "scriptClass == BindingScriptHashTy" "eai.bind" ;;
  flag "scriptClass == WitnessV0ScriptHashTy" "eai.std" ;;
  -- the elements of addrs are address values built by ExtractPkScriptAddrs (never nil interfaces)
  .call "addrs elements" ["addrs[0]", "addrs[1]"] (always [.nz "addrs[0]", .nz "addrs[1]"]) ;;
  .ite (nz "eai.stk") (
    IXK "addrs[0]" "addrs" 0 ;;
    Dt "addrs[0] .ScriptAddress" "addrs[0]" ;;
    .call "massutil.NewAddressWitnessScriptHash" ["std", "eai.err"] (onOk "eai.err" [.nz "std"]) ;;
    ifR (nz "eai.err") .skip ;;
    D "std" "EncodeAddress" ;;
    IXK "addrs[0]" "addrs" 0)
  (.ite (nz "eai.bind") (
    ifR (.not (.atom (.ge "addrs" 2))) (.set "eai.err" (.k E.other)) ;;
    IXK "addrs[1]" "addrs" 1 ;;
    Dt "addrs[1] .ScriptAddress" "addrs[1]" ;;
    .call "addrs[1].ScriptAddress()" ["sa1"] [] ;;
    .ite (.atom (.eqk "sa1" 22)) (
      IXK "addrs[1]" "addrs" 1 ;;
      IXK "addrs[1].ScriptAddress()[20]" "sa1" 20 ;;
      IXK "addrs[1]" "addrs" 1 ;;
      IXK "addrs[1].ScriptAddress()[21]" "sa1" 21) .skip ;;
    IXK "addrs[1]" "addrs" 1 ;;
    IXK "addrs[0]" "addrs" 0 ;;
    Dt "addrs[0] .EncodeAddress" "addrs[0]")
  (.ite (nz "eai.std") (
    IXK "addrs[0]" "addrs" 0 ;;
    Dt "addrs[0] .EncodeAddress" "addrs[0]") .skip)) ;;
  .set "eai.err" (.k 0)

-- ==================================================================== api/wallet_service.go

def f_GetClientStatus : Stmt :=
  .invoke Fn.SyncedTo ;;
  failIf (nz "st.err") ApiErr.queryDataFailed ;;
  mark "node" ;;
  -- a live node: SyncManager / Blockchain / Switch are the node's own non-nil services
  .call "s.node.SyncManager()" ["sm"] (always [.nz "sm"]) ;;
  Dt "s.node.SyncManager() .Switch" "sm" ;;
  .call "Switch()" ["sw"] (always [.nz "sw"]) ;;
  Dt "s.node.SyncManager().Switch() .IsListening" "sw" ;;
  Dt "s.node.SyncManager() .IsCaughtUp" "sm" ;;
  .call "s.node.Blockchain()" ["bc"] (always [.nz "bc"]) ;;
  Dt "s.node.Blockchain() .BestBlockHeight" "bc" ;;
  Dt "s.node.Blockchain() .ChainID" "bc" ;;
  .call "ChainID()" ["cid"] (always [.nz "cid"]) ;;
  Dt "s.node.Blockchain().ChainID() .String" "cid" ;;
  Dt "s.node.SyncManager() .BestPeer" "sm" ;;
  .call "BestPeer()" ["bestPeer"] [] ;;
  .ite (nz "bestPeer") (D "bestPeer" "Height") .skip ;;
  Dt "s.node.SyncManager() .GetPeerInfos" "sm" ;;
  .call "GetPeerInfos()" ["infos"] [] ;;
  .loop "gcs.i" "infos" [] (
    .call "range infos" ["info"] (always [.nz "info"]) ;;
    D "info" "ID") ;;
  ok

def f_QuitClient : Stmt := ok

def f_decodeHexStr : Stmt :=
  .call "hex.DecodeString" ["decoded", "dh.err"] [] ;;
  .ite (nz "dh.err") (Dt "err .Error" "dh.err") .skip

/-- frees the coins reserved for a draft that is rejected (fee limit) instead of being returned -/
def f_releaseDraft : Stmt :=
  .invoke Fn.decodeHexStr ;;
  ifR (nz "dh.err") .skip ;;
  .call "tx.SetBytes" ["rd.err"] [] ;;
  ifR (nz "rd.err") .skip ;;
  .invoke Fn.ClearUsedUTXOMark

def f_SignRawTransaction : Stmt :=
  flag "in.RawTx: len == 0" "srt.empty" ;;
  failIf (nz "srt.empty") ApiErr.invalidTxHex ;;
  .invoke Fn.decodeHexStr ;;
  failIf (nz "dh.err") ApiErr.invalidTxHex ;;
  .call "tx.SetBytes" ["srt.err", "tx.TxIn", "tx.TxOut"] [] ;;
  .ite (nz "srt.err") (Dt "err .Error" "srt.err" ;; fail ApiErr.invalidTxHex) .skip ;;
  .invoke Fn.checkPassLen ;;
  ifR (nz "cpl.err") (.invoke Fn.ClearUsedUTXOMark ;; .set "out" (.v "cpl.err")) ;;
  .invoke Fn.SignRawTx ;;
  ifR (nz "err") (.invoke Fn.ClearUsedUTXOMark ;; failCvt' "err") ;;
  ok

def f_CreateAddress : Stmt :=
  CV "uint16(in.Version)" ;;
  flag "massutil.IsValidAddressClass(uint16(in.Version))" "ca.valid" ;;
  failIf (isz "ca.valid") ApiErr.invalidVersion ;;
  .invoke Fn.GetAddresses_wallet ;;
  failIf (nz "err") ApiErr.abnormalData ;;
  .loop "ca.i" "result" [] (
    .call "range ads" ["ad"] (always [.nz "ad"]) ;;
    D "ad" "Used") ;;
  flag "unused address limit reached" "ca.limit" ;;
  failIf (nz "ca.limit") ApiErr.unusedAddressLimit ;;
  .invoke Fn.NewAddress ;;
  ifR (nz "err") (failCvt "err" ApiErr.abnormalData) ;;
  ok

def f_GetAddresses_api : Stmt :=
  CV "uint16(in.Version)" ;;
  flag "massutil.IsValidAddressClass(uint16(in.Version))" "ca.valid" ;;
  failIf (isz "ca.valid") ApiErr.invalidVersion ;;
  .invoke Fn.GetAddresses_wallet ;;
  ifR (nz "err") (failCvt "err" ApiErr.queryDataFailed) ;;
  .loop "ga.i" "result" [] (
    .call "range ads" ["ad"] (always [.nz "ad"]) ;;
    D "ad" "Address") ;;
  ok

def f_ValidateAddress : Stmt :=
  .invoke Fn.checkAddressLen ;;
  ifR (nz "cal.err") (.set "out" (.v "cal.err")) ;;
  .invoke Fn.IsAddressInCurrent ;;
  ifR (nz "err") (failCvt "err" ApiErr.invalidAddress) ;;
  -- massutil.IsWitnessV0Address / IsWitnessStakingAddress answer false for a nil interface
  .call "massutil.IsWitnessV0Address(witAddr)" ["va.v0"] [⟨[.nz "va.v0"], [.nz "witAddr"]⟩] ;;
  .ite (nz "va.v0") .skip (
    .call "massutil.IsWitnessStakingAddress(witAddr)" ["va.stk"] [⟨[.nz "va.stk"], [.nz "witAddr"]⟩] ;;
    .ite (nz "va.stk") .skip ok) ;;
  D "witAddr" "EncodeAddress" ;;
  ok

def f_GetWalletBalance : Stmt :=
  flag "in.RequiredConfirmations < 0" "gwb.neg" ;;
  failIf (nz "gwb.neg") ApiErr.invalidParameter ;;
  CV "uint32(in.RequiredConfirmations)" ;;
  .invoke Fn.WalletBalance ;;
  ifR (nz "err") (failCvt "err" ApiErr.queryDataFailed) ;;
  .call "WalletBalance result" ["bal"] (always [.nz "bal"]) ;;
  D "bal" "Total" ;;
  .invoke Fn.checkFormatAmount ;; ifR (nz "cfa.err") (.set "out" (.v "cfa.err")) ;;
  .invoke Fn.checkFormatAmount ;; ifR (nz "cfa.err") (.set "out" (.v "cfa.err")) ;;
  .invoke Fn.checkFormatAmount ;; ifR (nz "cfa.err") (.set "out" (.v "cfa.err")) ;;
  .invoke Fn.checkFormatAmount ;; ifR (nz "cfa.err") (.set "out" (.v "cfa.err")) ;;
  ok

def f_GetAddressBalance : Stmt :=
  flag "in.RequiredConfirmations < 0" "gwb.neg" ;;
  failIf (nz "gwb.neg") ApiErr.invalidParameter ;;
  .call "len(in.Addresses)" ["in.Addresses"] [] ;;
  .loop "gab.i" "in.Addresses" [] (
    .invoke Fn.checkAddressLen ;;
    ifR (nz "cal.err") (.set "out" (.v "cal.err"))) ;;
  CV "uint32(in.RequiredConfirmations)" ;;
  .invoke Fn.AddressBalance ;;
  ifR (nz "err") (failCvt "err" ApiErr.queryDataFailed) ;;
  .loop "gab.j" "ret" [] (
    .call "range bals" ["bal"] (always [.nz "bal"]) ;;
    D "bal" "Total" ;;
    .invoke Fn.checkFormatAmount ;; ifR (nz "cfa.err") (.set "out" (.v "cfa.err")) ;;
    .invoke Fn.checkFormatAmount ;; ifR (nz "cfa.err") (.set "out" (.v "cfa.err")) ;;
    .invoke Fn.checkFormatAmount ;; ifR (nz "cfa.err") (.set "out" (.v "cfa.err")) ;;
    .invoke Fn.checkFormatAmount ;; ifR (nz "cfa.err") (.set "out" (.v "cfa.err"))) ;;
  ok

def f_UseWallet_api : Stmt :=
  .invoke Fn.checkWalletIdLen ;;
  ifR (nz "cwl.err") (.set "out" (.v "cwl.err")) ;;
  .invoke Fn.UseWallet_wallet ;;
  ifR (nz "err") (failCvt "err" ApiErr.abnormalData) ;;
  D "info" "TotalBalance" ;;
  .invoke Fn.checkFormatAmount ;; ifR (nz "cfa.err") (.set "out" (.v "cfa.err")) ;;
  ok

def f_Wallets_api : Stmt :=
  .invoke Fn.Wallets_wallet ;;
  ifR (nz "err") (failCvt "err" ApiErr.queryDataFailed) ;;
  .loop "w.i" "ret" [] (
    .call "range summaries" ["summary", "summary.Status"] (always [.nz "summary", .nz "summary.Status"]) ;;
    D "summary" "WalletID" ;;
    Dt "summary.Status .IsRemoved" "summary.Status") ;;
  ok

def f_GetUtxo_api : Stmt :=
  .call "len(in.Addresses)" ["in.Addresses"] [] ;;
  .loop "gu.i" "in.Addresses" [] (
    .invoke Fn.checkAddressLen ;;
    ifR (nz "cal.err") (.set "out" (.v "cal.err"))) ;;
  .invoke Fn.GetUtxo_wallet ;;
  ifR (nz "err") (failCvt "err" ApiErr.queryDataFailed) ;;
  .call "len(m)" ["gu.m"] [] ;;
  .loop "gu.k" "gu.m" [] (
    .call "len(v)" ["gu.v"] [] ;;
    .loop "gu.l" "gu.v" [] (
      .call "range v" ["item"] (always [.nz "item"]) ;;
      D "item" "Amount" ;;
      .invoke Fn.checkFormatAmount ;; ifR (nz "cfa.err") (.set "out" (.v "cfa.err")))) ;;
  ok

def f_ImportWallet_api : Stmt :=
  .invoke Fn.checkPassLen ;;
  ifR (nz "cpl.err") (.set "out" (.v "cpl.err")) ;;
  .invoke Fn.ImportWallet_wallet ;;
  ifR (nz "err") (failCvt "err" ApiErr.abnormalData) ;;
  D "ws" "WalletID" ;;
  ok

def f_ImportMnemonic : Stmt :=
  .invoke Fn.checkMnemonicLen ;;
  ifR (nz "cml.err") (.set "out" (.v "cml.err")) ;;
  .invoke Fn.checkRemarksLen ;;
  .invoke Fn.checkPassLen ;;
  ifR (nz "cpl.err") (.set "out" (.v "cpl.err")) ;;
  .invoke Fn.ImportWalletWithMnemonic ;;
  ifR (nz "err") (failCvt "err" ApiErr.abnormalData) ;;
  D "ws" "WalletID" ;;
  ok

def f_CreateWallet_api : Stmt :=
  .invoke Fn.checkPassLen ;;
  ifR (nz "cpl.err") (.set "out" (.v "cpl.err")) ;;
  .invoke Fn.checkRemarksLen ;;
  CV "int(in.BitSize)" ;;
  .invoke Fn.CreateWallet_wallet ;;
  ifR (nz "err") (failCvt "err" ApiErr.abnormalData) ;;
  ok

def f_ExportWallet_api : Stmt :=
  .invoke Fn.checkWalletIdLen ;;
  ifR (nz "cwl.err") (.set "out" (.v "cwl.err")) ;;
  .invoke Fn.checkPassLen ;;
  ifR (nz "cpl.err") (.set "out" (.v "cpl.err")) ;;
  .invoke Fn.ExportWallet_wallet ;;
  ifR (nz "err") (failCvt "err" ApiErr.queryDataFailed) ;;
  ok

def f_RemoveWallet_api : Stmt :=
  .invoke Fn.checkWalletIdLen ;;
  ifR (nz "cwl.err") (.set "out" (.v "cwl.err")) ;;
  .invoke Fn.checkPassLen ;;
  ifR (nz "cpl.err") (.set "out" (.v "cpl.err")) ;;
  .invoke Fn.RemoveWallet_wallet ;;
  ifR (nz "err") (failCvt "err" ApiErr.abnormalData) ;;
  ok

def f_GetWalletMnemonic : Stmt :=
  .invoke Fn.checkWalletIdLen ;;
  ifR (nz "cwl.err") (.set "out" (.v "cwl.err")) ;;
  .invoke Fn.checkPassLen ;;
  ifR (nz "cpl.err") (.set "out" (.v "cpl.err")) ;;
  .invoke Fn.GetMnemonic ;;
  ifR (nz "err") (failCvt "err" ApiErr.queryDataFailed) ;;
  ok

-- ==================================================================== api/tx_service.go

def f_messageToHex_api : Stmt := .call "msg.Bytes" ["mth.err"] []

/-- the node's services are non-nil (a live node); their replies are well formed -/
def nodeBC (text : String) : Stmt := .call "s.node.Blockchain()" ["bc"] (always [.nz "bc"]) ;; Dt text "bc"
def nodePool (text : String) : Stmt := .call "s.node.TxMemPool()" ["pool"] (always [.nz "pool"]) ;; Dt text "pool"

def f_createVoutList : Stmt :=
  .call "len(mtx.TxOut)" ["mtx.TxOut"] [] ;;
  .loop "cvo.i" "mtx.TxOut" [] (
    .call "txscript.DisasmString" ["cvo.err"] [] ;;
    ifR (nz "cvo.err") .skip ;;
    .invoke Fn.extractAddressInfos ;;
    ifR (nz "eai.err") (.set "cvo.err" (.v "eai.err")) ;;
    .invoke Fn.AmountToString_util ;;
    ifR (nz "ats.err") (.set "cvo.err" (.v "ats.err"))) ;;
  .set "cvo.err" (.k 0)

def f_createVinList : Stmt :=
  .set "cache" (.k 1) ;;
  .call "len(mtx.TxIn)" ["mtx.TxIn"] [] ;;
  .loop "cvi.i" "mtx.TxIn" [.nz "cache"] (
    flag "isCoinbase && i == 0" "cvi.skip" ;;
    .ite (nz "cvi.skip") .skip (
      -- the cache only holds transactions stored below (non-nil)
      .call "cache[txIn.PreviousOutPoint.Hash]" ["prevTx", "ok", "prevTx.TxOut"] [⟨[.nz "ok"], [.nz "prevTx"]⟩] ;;
      .ite (isz "ok") (
        nodePool "s.node.TxMemPool() .FetchTransaction" ;;
        .call "FetchTransaction" ["tx", "cvi.err"] (onOk "cvi.err" [.nz "tx"]) ;;
        .ite (nz "cvi.err") (
          nodeBC "s.node.Blockchain() .GetTransactionInDB" ;;
          .call "GetTransactionInDB" ["txReply", "cvi.err", "last", "last.Tx", "prevTx.TxOut"]
            (onOk "cvi.err" [.nz "last"] ++ [⟨[.nz "last"], [.nz "last.Tx"]⟩]) ;;
          ifR (.or (nz "cvi.err") (isz "txReply")) .skip ;;
          .site "index" "txReply[len(txReply)-1]" (some (.ge "txReply" 1)) ;;
          Dt "txReply[len(txReply)-1] .Tx" "last" ;;
          -- every reply of FetchTxBySha carries its transaction
          .call "txReply[len(txReply)-1].Tx" ["prevTx", "prevTx.TxOut"] (always [.nz "prevTx"]))
        (D "tx" "MsgTx" ;; .call "tx.MsgTx()" ["prevTx", "prevTx.TxOut"] (always [.nz "prevTx"])) ;;
        MA "cache[txIn.PreviousOutPoint.Hash]" "cache") .skip ;;
      D "prevTx" "TxOut" ;;
      -- consensus: an input of a transaction in the chain or in the pool names an existing output
      .call "consensus: input refers to an existing output" ["vout"] (always [.lt "vout" "prevTx.TxOut"]) ;;
      IX "prevTx.TxOut[txIn.PreviousOutPoint.Index]" "vout" "prevTx.TxOut" ;;
      .call "prevTx.TxOut[i]" ["prevVout"] (always [.nz "prevVout"]) ;;
      D "prevVout" "PkScript" ;;
      .invoke Fn.extractAddressInfos ;;
      ifR (nz "eai.err") (.set "cvi.err" (.v "eai.err")) ;;
      .invoke Fn.AmountToString_util ;;
      ifR (nz "ats.err") (.set "cvi.err" (.v "ats.err")))) ;;
  .set "cvi.err" (.k 0)

def f_getStatus : Stmt :=
  nodePool "s.node.TxMemPool() .FetchTransaction" ;;
  nodeBC "s.node.Blockchain() .GetTransactionInDB" ;;
  .call "GetTransactionInDB" ["txList", "gs.err", "lastTx"] (onOk "gs.err" [] ++ [⟨[.nz "txList"], [.nz "lastTx"]⟩]) ;;
  ifR (nz "gs.err") .skip ;;
  ifR (isz "txList") .skip ;;
  .site "index" "txList[len(txList)-1]" (some (.ge "txList" 1)) ;;
  D "lastTx" "Height" ;;
  nodeBC "s.node.Blockchain() .BestBlockHeight" ;;
  .set "gs.err" (.k 0)

def f_createTxRawResult : Stmt :=
  .invoke Fn.createVoutList ;;
  ifR (nz "cvo.err") (.set "ctr.err" (.v "cvo.err")) ;;
  .invoke Fn.createVinList ;;
  ifR (nz "cvi.err") (.set "ctr.err" (.v "cvi.err")) ;;
  flag "isCoinbase" "ctr.cb" ;;
  .ite (isz "ctr.cb") (.invoke Fn.AmountToString_util ;; ifR (nz "ats.err") (.set "ctr.err" (.v "ats.err"))) .skip ;;
  .call "mtx.Bytes" ["ctr.err"] [] ;;
  ifR (nz "ctr.err") .skip ;;
  .invoke Fn.getStatus ;;
  ifR (nz "gs.err") (.set "ctr.err" (.v "gs.err")) ;;
  .set "ctr.err" (.k 0)

def f_witnessToHex : Stmt := .skip

def f_buildDecodeRawTxResponse : Stmt :=
  -- (*TransactionPayload).String returns "" for a nil receiver: the call cannot fail
  .site "deref" "blockchain.DecodePayload(mtx.Payload) .String" none ;;
  .call "len(mtx.TxIn)" ["mtx.TxIn"] [] ;;
  .loop "bd.i" "mtx.TxIn" [] (.invoke Fn.witnessToHex) ;;
  .call "len(mtx.TxOut)" ["mtx.TxOut"] [] ;;
  .loop "bd.n" "mtx.TxOut" [] (
    .invoke Fn.AmountToString_util ;;
    ifR (nz "ats.err") (.set "bd.err" (.v "ats.err")) ;;
    .call "txscript.DisasmString" ["bd.err"] [] ;;
    ifR (nz "bd.err") .skip ;;
    .invoke Fn.extractAddressInfos ;;
    ifR (nz "eai.err") (.set "bd.err" (.v "eai.err"))) ;;
  .set "bd.err" (.k 0)

def f_GetTxStatus : Stmt :=
  .invoke Fn.checkTransactionIdLen ;;
  ifR (nz "ctl.err") (.set "out" (.v "ctl.err")) ;;
  .call "wire.NewHashFromStr" ["txHash", "herr"] (onOk "herr" [.nz "txHash"]) ;;
  failIf (nz "herr") ApiErr.invalidTxHex ;;
  mark "node" ;;
  .invoke Fn.getStatus ;;
  failIf (nz "gs.err") ApiErr.queryDataFailed ;;
  ok

def f_GetRawTransaction : Stmt :=
  .invoke Fn.checkTransactionIdLen ;;
  ifR (nz "ctl.err") (.set "out" (.v "ctl.err")) ;;
  .call "wire.NewHashFromStr" ["txHash", "herr"] (onOk "herr" [.nz "txHash"]) ;;
  failIf (nz "herr") ApiErr.invalidTxHex ;;
  mark "node" ;;
  nodePool "s.node.TxMemPool() .FetchTransaction" ;;
  .call "FetchTransaction" ["tx", "grt.err"] (onOk "grt.err" [.nz "tx"]) ;;
  .ite (nz "grt.err") (
    nodeBC "s.node.Blockchain() .GetTransactionInDB" ;;
    .call "GetTransactionInDB" ["txList", "grt.err", "lastTx", "lastTx.BlkSha"]
      [⟨[.nz "txList"], [.nz "lastTx"]⟩, ⟨[.nz "txList"], [.nz "lastTx.BlkSha"]⟩] ;;
    .ite (.or (nz "grt.err") (isz "txList")) (D "txHash" "String" ;; fail ApiErr.noTxInfo) .skip ;;
    .site "index" "txList[len(txList)-1]" (some (.ge "txList" 1)) ;;
    D "lastTx" "Tx" ;;
    nodeBC "s.node.Blockchain() .GetHeaderByHash" ;;
    .call "GetHeaderByHash" ["blkHeader", "grt.err"] [] ;;
    .ite (nz "grt.err") (Dt "lastTx.BlkSha .String" "lastTx.BlkSha" ;; fail ApiErr.blockHeaderNotFound) .skip ;;
    nodeBC "s.node.Blockchain() .BestBlockHeight")
  (D "tx" "MsgTx") ;;
  .invoke Fn.createTxRawResult ;;
  failIf (nz "ctr.err") ApiErr.rawTx ;;
  ok

def f_DecodeRawTransaction : Stmt :=
  .invoke Fn.decodeHexStr ;;
  failIf (nz "dh.err") ApiErr.invalidTxHex ;;
  .call "mtx.SetBytes" ["drt.err"] [] ;;
  .ite (nz "drt.err") (Dt "err .Error" "drt.err" ;; fail ApiErr.invalidTxHex) .skip ;;
  mark "deep" ;;
  .invoke Fn.buildDecodeRawTxResponse ;;
  failIf (nz "bd.err") ApiErr.rawTx ;;
  ok

def f_CreateRawTransaction_api : Stmt :=
  .invoke Fn.checkLocktime ;;
  ifR (nz "cl.err") (.set "out" (.v "cl.err")) ;;
  .set "empty.sel" (.k 1) ;;                        -- in.Inputs
  .invoke Fn.checkNotEmpty ;;
  ifR (nz "cne.err") (.set "out" (.v "cne.err")) ;;
  -- isEmpty(in.Inputs) was false: at least one input
  .call "len(in.Inputs)" ["inputs"] [⟨[.z "empty"], [.ge "inputs" 1]⟩] ;;
  .set "empty.sel" (.k 2) ;;                        -- in.Amounts
  .invoke Fn.checkNotEmpty ;;
  ifR (nz "cne.err") (.set "out" (.v "cne.err")) ;;
  .loop "cr.i" "inputs" [.ge "inputs" 1] (
    .invoke Fn.checkTransactionIdLen ;;
    ifR (nz "ctl.err") (.set "out" (.v "ctl.err"))) ;;
  .set "amounts" (.k 1) ;;
  .call "len(in.Amounts)" ["in.Amounts"] [] ;;
  .set "amt.sel" (.k 0) ;;
  .loop "cr.a" "in.Amounts" [.nz "amounts"] (
    .invoke Fn.checkAddressLen ;;
    ifR (nz "cal.err") (.set "out" (.v "cal.err")) ;;
    .invoke Fn.checkParseAmount ;;
    ifR (nz "cpa.err") (.set "out" (.v "cpa.err")) ;;
    MA "amounts[addr]" "amounts") ;;
  .set "subtractfeefrom" (.k 1) ;;
  .call "len(in.Subtractfeefrom)" ["in.Subtractfeefrom"] [] ;;
  .loop "cr.s" "in.Subtractfeefrom" [.nz "subtractfeefrom"] (
    flag "len(subfrom) == 0" "cr.se" ;;
    .ite (nz "cr.se") .skip (MA "subtractfeefrom[subfrom]" "subtractfeefrom")) ;;
  .invoke Fn.CreateRawTransaction_wallet ;;
  ifR (nz "err") (failCvt "err" ApiErr.abnormalData) ;;
  .invoke Fn.checkTxFeeLimit ;;
  ifR (nz "ctf.err") (.invoke Fn.releaseDraft ;; .set "out" (.v "ctf.err")) ;;
  ok

def f_CreateStakingTransaction_api : Stmt :=
  .set "amt.sel" (.k 2) ;;
  .invoke Fn.checkParseAmount ;;
  ifR (nz "cpa.err") (.set "out" (.v "cpa.err")) ;;
  flag "wire.IsValidStakingValue" "cs.valid" ;;
  failIf (isz "cs.valid") ApiErr.invalidAmount ;;
  .set "amt.sel" (.k 1) ;;
  .invoke Fn.checkParseAmount ;;
  failIf (nz "cpa.err") ApiErr.userTxFee ;;
  flag "len(in.FromAddress) > 0" "cs.from" ;;
  .ite (nz "cs.from") (.set "addr.sel" (.k 1) ;; .invoke Fn.checkWitnessAddress ;; ifR (nz "cwa.err") (.set "out" (.v "cwa.err"))) .skip ;;
  .set "addr.sel" (.k 2) ;;
  .invoke Fn.checkWitnessAddress ;;
  ifR (nz "cwa.err") (.set "out" (.v "cwa.err")) ;;
  .invoke Fn.CreateStakingTransaction_wallet ;;
  ifR (nz "err") (failCvt "err" ApiErr.abnormalData) ;;
  .invoke Fn.checkTxFeeLimit ;;
  ifR (nz "ctf.err") (.invoke Fn.releaseDraft ;; .set "out" (.v "ctf.err")) ;;
  ok

def f_CreateBindingTransaction_api : Stmt :=
  .set "empty.sel" (.k 3) ;;                        -- in.Outputs
  .invoke Fn.checkNotEmpty ;;
  ifR (nz "cne.err") (.set "out" (.v "cne.err")) ;;
  .call "len(in.Outputs)" ["in.Outputs"] [] ;;
  .set "amt.sel" (.k 5) ;;
  .loop "cb.i" "in.Outputs" [] (
    .invoke Fn.checkParseAmount ;;
    ifR (nz "cpa.err") (.set "out" (.v "cpa.err")) ;;
    flag "totalOutValue.Add overflow" "cb.ovf" ;;
    failIf (nz "cb.ovf") ApiErr.invalidAmount) ;;
  .set "amt.sel" (.k 1) ;;
  .invoke Fn.checkParseAmount ;;
  failIf (nz "cpa.err") ApiErr.userTxFee ;;
  flag "len(in.FromAddress) > 0" "cs.from" ;;
  .ite (nz "cs.from") (.set "addr.sel" (.k 1) ;; .invoke Fn.checkWitnessAddress ;; ifR (nz "cwa.err") (.set "out" (.v "cwa.err"))) .skip ;;
  .set "amt.sel" (.k 5) ;;
  .loop "cb.o" "in.Outputs" [] (
    .set "addr.sel" (.k 3) ;;
    .invoke Fn.checkWitnessAddress ;;
    ifR (nz "cwa.err") (.set "out" (.v "cwa.err")) ;;
    .set "pbt.sel" (.k 1) ;;
    .invoke Fn.parseBindingTarget ;;
    .set "pbt.sel" (.k 0) ;;
    ifR (nz "pbt.err") (.set "out" (.v "pbt.err")) ;;
    .invoke Fn.checkParseAmount ;;
    ifR (nz "cpa.err") (.set "out" (.v "cpa.err"))) ;;
  .invoke Fn.CreateBindingTransaction_wallet ;;
  ifR (nz "err") (failCvt "err" ApiErr.abnormalData) ;;
  .invoke Fn.checkTxFeeLimit ;;
  ifR (nz "ctf.err") (.invoke Fn.releaseDraft ;; .set "out" (.v "ctf.err")) ;;
  ok

def f_CreatePoolPkCoinbaseTransaction : Stmt :=
  .set "addr.sel" (.k 1) ;;
  .invoke Fn.checkWitnessAddress ;;
  ifR (nz "cwa.err") (.set "out" (.v "cwa.err")) ;;
  .set "from" (.v "witAddr") ;;
  .call "hex.DecodeString(in.Payload)" ["pp.err"] [] ;;
  failIf (nz "pp.err") ApiErr.invalidParameter ;;
  .call "blockchain.DecodePayload" ["payload"] [] ;;
  -- `payload == nil || payload.Method != …`: the deref is guarded by the short-circuit
  .ite (isz "payload") (fail ApiErr.invalidParameter) (
    D "payload" "Method" ;;
    flag "payload.Method != BindPoolCoinbase" "pp.m" ;;
    failIf (nz "pp.m") ApiErr.invalidParameter) ;;
  -- checkWitnessAddress succeeded: `from` is the typed non-nil address
  .call "from is witAddr of a successful checkWitnessAddress" ["from"] (always [.nz "from"]) ;;
  D "from" "EncodeAddress" ;;
  .invoke Fn.AutoCreateRawTransaction ;;
  ifR (nz "err") (failCvt "err" ApiErr.abnormalData) ;;
  .set "amt.sel" (.k 3) ;;
  .invoke Fn.checkParseAmount ;;
  .ite (nz "cpa.err") (.set "amt.sel" (.k 4) ;; .invoke Fn.checkParseAmount) .skip ;;
  flag "max.Cmp(fee) < 0" "fee.big" ;;
  .ite (nz "fee.big") (.invoke Fn.releaseDraft ;; fail ApiErr.bigTransactionFee) .skip ;;
  ok

def f_AutoCreateTransaction : Stmt :=
  .invoke Fn.checkLocktime ;;
  ifR (nz "cl.err") (.set "out" (.v "cl.err")) ;;
  .set "empty.sel" (.k 2) ;;
  .invoke Fn.checkNotEmpty ;;
  ifR (nz "cne.err") (.set "out" (.v "cne.err")) ;;
  .set "amounts" (.k 1) ;;
  .call "len(in.Amounts)" ["in.Amounts"] [] ;;
  .set "amt.sel" (.k 0) ;;
  .loop "cr.a" "in.Amounts" [.nz "amounts"] (
    .invoke Fn.checkAddressLen ;;
    ifR (nz "cal.err") (.set "out" (.v "cal.err")) ;;
    .invoke Fn.checkParseAmount ;;
    ifR (nz "cpa.err") (.set "out" (.v "cpa.err")) ;;
    MA "amounts[addr]" "amounts") ;;
  .set "amt.sel" (.k 1) ;;
  .invoke Fn.checkParseAmount ;;
  failIf (nz "cpa.err") ApiErr.userTxFee ;;
  flag "len(fromAddr) > 0" "cs.from" ;;
  .ite (nz "cs.from") (.set "addr.sel" (.k 1) ;; .invoke Fn.checkWitnessAddress ;; ifR (nz "cwa.err") (.set "out" (.v "cwa.err"))) .skip ;;
  flag "len(changeAddr) > 0" "cs.change" ;;
  .ite (nz "cs.change") (.set "addr.sel" (.k 4) ;; .invoke Fn.checkWitnessAddress ;; ifR (nz "cwa.err") (.set "out" (.v "cwa.err"))) .skip ;;
  .invoke Fn.AutoCreateRawTransaction ;;
  ifR (nz "err") (failCvt "err" ApiErr.abnormalData) ;;
  .invoke Fn.checkTxFeeLimit ;;
  ifR (nz "ctf.err") (.invoke Fn.releaseDraft ;; .set "out" (.v "ctf.err")) ;;
  ok

def f_mockBindingTarget : Stmt :=
  IXc "h[21]" ;;
  SL "h[:]" none

def f_getEstimateStakingAddress : Stmt :=
  SL "h[:]" none ;;
  -- a 32-byte hash is always a valid script hash: the constructor cannot fail here
  .call "massutil.NewAddressStakingScriptHash(h[:])" ["esAddr"] (always [.nz "esAddr"]) ;;
  D "esAddr" "EncodeAddress"

def f_GetTransactionFee : Stmt :=
  .set "empty.sel" (.k 2) ;;
  .invoke Fn.checkNotEmpty ;;
  ifR (nz "cne.err") (.set "out" (.v "cne.err")) ;;
  .invoke Fn.CurrentWallet ;;
  ifR (isz "cw.len") (.set "err" (.k E.noWalletInUse) ;; failCvt' "err") ;;
  .call "len(in.Inputs)" ["inputs"] [] ;;
  .call "len(in.Amounts)" ["in.Amounts"] [] ;;
  .ite (isz "inputs") (
    flag "in.HasBinding" "gtf.b" ;;
    .ite (nz "gtf.b") (
      .invoke Fn.mockBindingTarget ;;
      .set "amt.sel" (.k 0) ;;
      .loop "gtf.i" "in.Amounts" [] (
        .set "addr.sel" (.k 5) ;;
        .invoke Fn.checkWitnessAddress ;;
        ifR (nz "cwa.err") (.set "out" (.v "cwa.err")) ;;
        .invoke Fn.checkParseAmount ;;
        ifR (nz "cpa.err") (.set "out" (.v "cpa.err"))) ;;
      .invoke Fn.EstimateBindingTxFee ;;
      ifR (nz "err") (failCvt "err" ApiErr.abnormalData))
    (
      .invoke Fn.getEstimateStakingAddress ;;
      .set "amt.sel" (.k 0) ;;
      .loop "gtf.j" "in.Amounts" [] (
        .invoke Fn.checkParseAmount ;;
        ifR (nz "cpa.err") (.set "out" (.v "cpa.err"))) ;;
      .invoke Fn.EstimateStakingTxFee ;;
      ifR (nz "err") (failCvt "err" ApiErr.abnormalData)))
  (
    .loop "gtf.k" "inputs" [] (
      .invoke Fn.checkTransactionIdLen ;;
      ifR (nz "ctl.err") (.set "out" (.v "ctl.err"))) ;;
    .invoke Fn.EstimateManualTxFee ;;
    ifR (nz "err") (failCvt "err" ApiErr.abnormalData)) ;;
  .invoke Fn.AmountToString_util ;;
  failIf (nz "ats.err") ApiErr.unknownErr ;;
  ok

def f_TxHistory : Stmt :=
  flag "len(in.Address) > 0" "th.a" ;;
  .ite (nz "th.a") (.invoke Fn.checkAddressLen ;; ifR (nz "cal.err") (.set "out" (.v "cal.err"))) .skip ;;
  flag "in.Count > 1000" "th.big" ;;
  failIf (nz "th.big") ApiErr.invalidTxHistoryCount ;;
  CV "int(in.Count)" ;;
  .invoke Fn.GetTxHistory ;;
  ifR (nz "err") (failCvt "err" ApiErr.queryDataFailed) ;;
  -- sort.Slice calls the comparison with 0 ≤ i, j < len(histories); the elements were appended non-nil
  .call "sort.Slice: number of comparisons" ["th.n"] [] ;;
  .loop "th.c" "th.n" [] (
    .call "sort.Slice: less(i, j)" ["i", "j", "histories[i]", "histories[j]"]
      (always [.lt "i" "histories", .lt "j" "histories", .nz "histories[i]", .nz "histories[j]"]) ;;
    IX "histories[i]" "i" "histories" ;;
    Dt "histories[i] .BlockHeight" "histories[i]" ;;
    IX "histories[j]" "j" "histories" ;;
    Dt "histories[j] .BlockHeight" "histories[j]") ;;
  ok

def f_GetStakingHistory_api : Stmt :=
  mark "node" ;;
  nodeBC "s.node.Blockchain() .BestBlockHeight" ;;
  nodeBC "s.node.Blockchain() .GetUnexpiredStakingRank" ;;
  .call "GetUnexpiredStakingRank" ["rewards", "gsh.err"] [] ;;
  failIf (nz "gsh.err") ApiErr.getStakingTxDetail ;;
  .invoke Fn.GetStakingHistory_wallet ;;
  failIf (nz "err") ApiErr.getStakingTxDetail ;;
  .set "weights" (.k 1) ;;
  .loop "gsh.i" "ret" [.nz "weights"] (
    .call "range stakingTxs" ["lTx"] (always [.nz "lTx"]) ;;
    D "lTx" "Utxo" ;;
    .invoke Fn.AmountToString_util ;;
    failIf (nz "ats.err") ApiErr.getStakingTxDetail ;;
    flag "weights[tx.Utxo.Address] exists" "gsh.seen" ;;
    .ite (nz "gsh.seen") .skip (
      .call "len(rewards)" ["rewards"] [] ;;
      .loop "gsh.r" "rewards" [.nz "weights"] (
        SL "reward.ScriptHash[:]" none ;;
        .call "massutil.NewAddressStakingScriptHash" ["scriptHashStruct", "gsh.err"] (onOk "gsh.err" [.nz "scriptHashStruct"]) ;;
        failIf (nz "gsh.err") ApiErr.getStakingTxDetail ;;
        D "scriptHashStruct" "EncodeAddress" ;;
        flag "witAddress == tx.Utxo.Address" "gsh.eq" ;;
        .ite (nz "gsh.eq") (
          -- database.Rank.Weight is set by the chain database for every rank entry
          .call "reward.Weight" ["reward.Weight"] (always [.nz "reward.Weight"]) ;;
          Dt "reward.Weight .Float64" "reward.Weight" ;;
          MA "weights[witAddress]" "weights") .skip))) ;;
  ok

def f_GetBindingHistory_api : Stmt :=
  .invoke Fn.GetBindingHistory_wallet ;;
  ifR (nz "err") (failCvt "err" ApiErr.queryDataFailed) ;;
  mark "node" ;;
  .loop "gbh.i" "ret" [] (
    -- txmgr builds every detail from a parsed binding script: holder and target are set
    .call "range details" ["detail", "detail.MsgTx", "detail.Utxo.Holder", "detail.Utxo.BindingTarget"]
      (always [.nz "detail", .nz "detail.Utxo.Holder", .nz "detail.Utxo.BindingTarget"]) ;;
    D "detail" "Utxo" ;;
    .invoke Fn.checkFormatAmount ;; ifR (nz "cfa.err") (.set "out" (.v "cfa.err")) ;;
    flag "detail.IsDeposit()" "gbh.dep" ;;
    .ite (.and (nz "gbh.dep") (nz "detail.MsgTx")) (
      flag "blockchain.IsCoinBaseTx(detail.MsgTx)" "gbh.cb" ;;
      .ite (nz "gbh.cb") .skip (
        .set "fromSet" (.k 1) ;;
        Dt "detail.MsgTx .TxIn" "detail.MsgTx" ;;
        .call "len(detail.MsgTx.TxIn)" ["gbh.nin"] [] ;;
        .loop "gbh.k" "gbh.nin" [.nz "fromSet"] (
          nodeBC "s.node.Blockchain() .GetTransactionInDB" ;;
          .call "range detail.MsgTx.TxIn" ["txIn"] (always [.nz "txIn"]) ;;
          D "txIn" "PreviousOutPoint" ;;
          .call "GetTransactionInDB" ["list", "gbh.err", "list.last", "prevMtx", "prevMtx.TxOut", "vout"]
            [⟨[.nz "list"], [.nz "list.last"]⟩, ⟨[.nz "list"], [.nz "prevMtx"]⟩, ⟨[.nz "list"], [.lt "vout" "prevMtx.TxOut"]⟩] ;;
          .ite (.or (nz "gbh.err") (isz "list")) (fail ApiErr.queryDataFailed) (
            .site "index" "list[len(list)-1]" (some (.ge "list" 1)) ;;
            Dt "list[len(list)-1] .Tx" "list.last" ;;
            IX "prevMtx.TxOut[txIn.PreviousOutPoint.Index]" "vout" "prevMtx.TxOut" ;;
            .call "utils.ParsePkScript" ["ps", "gbh.err"] (onOk "gbh.err" [.nz "ps"]) ;;
            failIf (nz "gbh.err") ApiErr.abnormalData ;;
            D "ps" "StdEncodeAddress" ;;
            MA "fromSet[ps.StdEncodeAddress()]" "fromSet")))) .skip ;;
    Dt "detail.Utxo.Holder .EncodeAddress" "detail.Utxo.Holder" ;;
    Dt "detail.Utxo.BindingTarget .EncodeAddress" "detail.Utxo.BindingTarget" ;;
    AOK "detail.Utxo.BindingTarget.(*massutil.AddressBindingTarget)" ;;
    -- an AddressBindingTarget carries a 22-byte script address
    .call "detail.Utxo.BindingTarget.(*massutil.AddressBindingTarget)" ["target", "ok", "tsa"]
      [⟨[.nz "ok"], [.nz "target"]⟩, ⟨[.nz "ok"], [.eqk "tsa" 22]⟩] ;;
    .ite (nz "ok") (
      D "target" "ScriptAddress" ;;
      IXK "target.ScriptAddress()[20]" "tsa" 20 ;;
      IXK "target.ScriptAddress()[21]" "tsa" 21) .skip) ;;
  ok

def f_SendRawTransaction : Stmt :=
  flag "len(in.Hex) == 0" "srt.empty" ;;
  failIf (nz "srt.empty") ApiErr.invalidTxHex ;;
  .invoke Fn.decodeHexStr ;;
  failIf (nz "dh.err") ApiErr.invalidTxHex ;;
  .call "msgtx.SetBytes" ["srt.err"] [] ;;
  failIf (nz "srt.err") ApiErr.invalidTxHex ;;
  mark "node" ;;
  nodeBC "s.node.Blockchain() .BestBlockHeight" ;;
  flag "forks.EnforceMASSIP0002WarmUp" "srt.ip2" ;;
  .ite (isz "srt.ip2") (
    .call "blockchain.DecodePayload" ["payload"] [] ;;
    .ite (nz "payload") (
      D "payload" "Method" ;;
      flag "payload.Method == BindPoolCoinbase" "srt.m" ;;
      failIf (nz "srt.m") ApiErr.unacceptable) .skip ;;
    flag "some output is a new binding" "srt.nb" ;;
    failIf (nz "srt.nb") ApiErr.unacceptable)
  (flag "some output is an old binding" "srt.ob" ;; failIf (nz "srt.ob") ApiErr.unacceptable) ;;
  nodeBC "s.node.Blockchain() .ProcessTx" ;;
  .call "ProcessTx" ["srt.err"] [] ;;
  .ite (nz "srt.err") (
    .invoke Fn.ClearUsedUTXOMark ;;
    .call "convertResponseError" ["cvt", "cvt.unknown"] [] ;;
    .ite (nz "cvt.unknown") (Dt "err .Error" "srt.err" ;; fail ApiErr.rejectTx) (.set "out" (.v "cvt") ;; .ret)) .skip ;;
  -- massutil.Tx.Hash() returns the address of the cached hash: never nil
  .call "tx.Hash()" ["tx.Hash()"] (always [.nz "tx.Hash()"]) ;;
  Dt "tx.Hash() .String" "tx.Hash()" ;;
  Dt "tx.Hash() .String" "tx.Hash()" ;;
  ok

def f_GetNetworkBinding : Stmt :=
  mark "node" ;;
  flag "in.Height == 0" "gnb.z" ;;
  .ite (nz "gnb.z") .skip (nodeBC "s.node.Blockchain() .BestBlockHeight") ;;
  flag "height == 0 || height > best" "gnb.c" ;;
  .ite (nz "gnb.c") (nodeBC "s.node.Blockchain() .BestBlockHeight") .skip ;;
  nodeBC "s.node.Blockchain() .GetNetworkBinding" ;;
  .call "GetNetworkBinding" ["networkTotal", "gnb.err"] [] ;;
  .ite (nz "gnb.err") (Dt "err .Error" "gnb.err" ;; fail ApiErr.queryDataFailed) .skip ;;
  .set "resp.BindingPriceMassBitlength" (.k 1) ;;
  .set "resp.BindingPriceChiaK" (.k 1) ;;
  .set "gnb.five" (.k 5) ;;
  .loop "gnb.bl" "gnb.five" [.nz "resp.BindingPriceMassBitlength", .nz "resp.BindingPriceChiaK"] (
    .call "forks.GetRequiredBinding" ["required", "gnb.err"] [] ;;
    .ite (nz "gnb.err") (Dt "err .Error" "gnb.err" ;; fail ApiErr.queryDataFailed) .skip ;;
    MA "resp.BindingPriceMassBitlength[uint32(bl)]" "resp.BindingPriceMassBitlength") ;;
  flag "forks.EnforceMASSIP0002WarmUp(height)" "gnb.ip2" ;;
  .ite (nz "gnb.ip2") (
    .set "gnb.nine" (.k 9) ;;
    .loop "gnb.k" "gnb.nine" [.nz "resp.BindingPriceChiaK"] (
      .call "forks.GetRequiredBinding" ["required", "gnb.err"] [] ;;
      .ite (nz "gnb.err") (Dt "err .Error" "gnb.err" ;; fail ApiErr.queryDataFailed) .skip ;;
      MA "resp.BindingPriceChiaK[uint32(bl)]" "resp.BindingPriceChiaK")) .skip ;;
  ok

def f_CheckPoolPkCoinbase : Stmt :=
  .call "len(in.PoolPubkeys)" ["in.PoolPubkeys"] [] ;;
  .loop "cpp.i" "in.PoolPubkeys" [] (
    .call "hex.DecodeString(pkStr)" ["cpp.err"] [] ;;
    failIf (nz "cpp.err") ApiErr.invalidParameter) ;;
  mark "node" ;;
  nodeBC "s.node.Blockchain() .GetPoolPkCoinbase" ;;
  .call "GetPoolPkCoinbase" ["pkToCb", "cpp.err"] [] ;;
  .ite (nz "cpp.err") (Dt "err .Error" "cpp.err" ;; fail ApiErr.queryDataFailed) .skip ;;
  .set "result" (.k 1) ;;
  .loop "cpp.k" "pkToCb" [.nz "result"] (MA "result[pk]" "result") ;;
  ok

def f_CheckTargetBinding : Stmt :=
  .set "infos" (.k 1) ;;
  .call "len(in.Targets)" ["in.Targets"] [] ;;
  .loop "ctb.i" "in.Targets" [.nz "infos"] (
    flag "infos[addr] exists" "ctb.seen" ;;
    .ite (nz "ctb.seen") .skip (
      .invoke Fn.parseBindingTarget ;;
      .ite (nz "pbt.err") (MA "infos[addr]" "infos") (
        MA "infos[addr]" "infos" ;;
        mark "node" ;;
        -- parseBindingTarget succeeded: target is a decoded (non-nil) address; a new-style target is 22 bytes
        .call "target of a successful parseBindingTarget" ["target", "tsa"] (always [.nz "target"]) ;;
        flag "massutil.IsAddressPubKeyHash(target)" "ctb.old" ;;
        .ite (nz "ctb.old") (
          nodeBC "s.node.Blockchain() .FetchOldBinding" ;;
          D "target" "ScriptAddress" ;;
          .call "FetchOldBinding" ["list", "ctb.err"] [] ;;
          failIf (nz "ctb.err") ApiErr.queryDataFailed ;;
          .loop "ctb.b" "list" [] (
            .call "range list" ["binding"] (always [.nz "binding"]) ;;
            D "binding" "Value" ;;
            .call "amount.AddInt" ["ctb.err"] [] ;;
            .ite (nz "ctb.err") (Dt "err .Error" "ctb.err" ;; fail ApiErr.abnormalData) .skip))
        (
          nodeBC "s.node.Blockchain() .GetNewBinding" ;;
          D "target" "ScriptAddress" ;;
          .call "GetNewBinding" ["ctb.err"] [] ;;
          failIf (nz "ctb.err") ApiErr.queryDataFailed ;;
          -- IsValidBindingTarget and not a pubkey hash: an AddressBindingTarget, 22 bytes
          .call "target.ScriptAddress() of an AddressBindingTarget" ["tsa"] (always [.eqk "tsa" 22]) ;;
          IXK "target.ScriptAddress()[20]" "tsa" 20 ;;
          IXK "target.ScriptAddress()[21]" "tsa" 21)))) ;;
  ok

-- ==================================================================== masswallet/wallet.go

/-- `am := w.ksmgr.CurrentKeystore(); if am == nil { return ErrNoWalletInUse }` -/
def curKeystore (x : Var) : Stmt :=
  .call "w.ksmgr.CurrentKeystore()" [x] [] ;;
  ifR (isz x) (.set "err" (.k E.noWalletInUse))

def f_NewWalletManager : Stmt := .skip
def f_checkInit : Stmt := .skip

def f_CheckReady : Stmt :=
  .call "w.syncStore.GetWalletStatus" ["ws", "err"] (onOk "err" [.nz "ws"]) ;;
  ifR (nz "err") .skip ;;
  D "ws" "Ready" ;;
  flag "ws.Ready() && !ws.IsRemoved()" "ready"

def f_UseWallet : Stmt :=
  .invoke Fn.CheckReady ;;
  ifR (nz "err") .skip ;;
  ifR (isz "ready") (.set "err" (.k E.walletUnready)) ;;
  .call "w.ksmgr.UseKeystoreForWallet" ["err"] [] ;;
  ifR (nz "err") .skip ;;
  .call "w.ksmgr.CurrentKeystore() after UseKeystoreForWallet" ["am"] [] ;;
  -- `am == nil || am.Name() != name`
  .ite (isz "am") (.set "err" (.k E.other) ;; .ret) (
    D "am" "Name" ;;
    flag "am.Name() != name" "uw.ne" ;;
    ifR (nz "uw.ne") (.set "err" (.k E.other))) ;;
  .call "w.utxoStore.GrossBalance" ["err"] [] ;;
  .ite (nz "err") (D "am" "Name" ;; .ret) .skip ;;
  D "am" "CountAddresses" ;;
  -- KeystoreManager.ChainParams returns the manager's own parameter record (set at construction)
  .call "w.ksmgr.ChainParams()" ["cp", "cp.ChainID"] (always [.nz "cp", .nz "cp.ChainID"]) ;;
  Dt "w.ksmgr.ChainParams() .ChainID" "cp" ;;
  Dt "w.ksmgr.ChainParams().ChainID .String" "cp.ChainID" ;;
  .set "info" (.k 1) ;;
  .set "err" (.k 0)

def f_Wallets : Stmt :=
  .call "w.syncStore.GetAllWalletStatus" ["list", "err"] [] ;;
  ifR (nz "err") .skip ;;
  .loop "ws.i" "list" [] (
    .call "range list" ["status"] (always [.nz "status"]) ;;
    D "status" "WalletID" ;;
    .call "w.ksmgr.GetAddrManagerByAccountID" ["mgr", "err"] (onOk "err" [.nz "mgr"]) ;;
    ifR (nz "err") .skip ;;
    D "mgr" "Name") ;;
  .call "len(ret)" ["ret"] [] ;;
  .set "err" (.k 0)

def f_CreateWallet : Stmt :=
  .call "w.ksmgr.NewKeystore" ["err"] [] ;;
  ifR (nz "err") .skip ;;
  -- the keystore just created is registered under its id
  .call "w.ksmgr.GetAddrManagerByAccountID(new wallet)" ["am"] (always [.nz "am"]) ;;
  D "am" "Version" ;;
  .call "w.utxoStore.InitNewWallet" ["err"] [] ;;
  ifR (nz "err") .skip ;;
  .call "w.syncStore.PutWalletStatus" ["err"] []

def importBody (keystoreCall : String) : Stmt :=
  .invoke Fn.IsWorkerBusy ;;
  ifR (nz "busy") (.set "err" (.k E.tooManyTask)) ;;
  .set "am" (.k 0) ;;
  .scope (
    .call keystoreCall ["am", "err"] (onOk "err" [.nz "am"]) ;;
    ifR (nz "err") .skip ;;
    .call "w.utxoStore.InitNewWallet" ["err"] [] ;;
    ifR (nz "err") .skip ;;
    D "am" "Name" ;;
    .set "ws" (.k 1) ;;
    .call "am.ManagedAddresses()" ["addrs"] [] ;;
    .call "w.syncStore.PutWalletStatus" ["err"] [] ;;
    ifR (nz "err") .skip ;;
    .loop "iw.i" "addrs" [.nz "am"] (
      .call "range addrs" ["managedAddr"] (always [.nz "managedAddr"]) ;;
      D "managedAddr" "String" ;;
      .call "w.utxoStore.PutNewAddress" ["err"] [] ;;
      ifR (nz "err") .skip) ;;
    .set "err" (.k 0)) ;;
  .ite (nz "err") (
    .ite (nz "am") (D "am" "Name") .skip ;;
    .ret) .skip ;;
  flag "!ws.Ready()" "iw.unready" ;;
  .ite (nz "iw.unready") (D "am" "Name" ;; .invoke Fn.OnImportWallet) .skip ;;
  D "am" "Name"

def f_ImportWallet : Stmt := importBody "w.ksmgr.ImportKeystore"
def f_ImportWalletWithMnemonic : Stmt := importBody "w.ksmgr.ImportKeystoreWithMnemonic"

def f_ExportWallet : Stmt := .call "w.ksmgr.ExportKeystore" ["err"] []

def f_RemoveWallet : Stmt :=
  .invoke Fn.IsWorkerBusy ;;
  ifR (nz "busy") (.set "err" (.k E.tooManyTask)) ;;
  .call "w.ksmgr.CheckPrivPassphrase" ["err"] [] ;;
  ifR (nz "err") .skip ;;
  .invoke Fn.OnRemoveWallet

def f_ChangePrivPassphrase : Stmt :=
  curKeystore "am" ;;
  .call "w.ksmgr.ChangePrivPassphrase" ["err"] []

def f_GetMnemonic : Stmt := .call "w.ksmgr.GetMnemonic" ["err"] []

def f_WalletBalance : Stmt :=
  curKeystore "am" ;;
  D "am" "Name" ;;
  flag "queryDetail" "wb.detail" ;;
  .ite (nz "wb.detail") (
    .call "w.syncStore.SyncedTo" ["syncedTo", "err"] (onOk "err" [.nz "syncedTo"]) ;;
    ifR (nz "err") .skip ;;
    D "syncedTo" "Height" ;;
    .call "w.utxoStore.WalletBalance" ["bal", "err"] (onOk "err" [.nz "bal"]) ;;
    ifR (nz "err") .skip ;;
    D "bal" "Total") .skip ;;
  .call "w.utxoStore.GrossBalance" ["err"] [] ;;
  ifR (nz "err") .skip ;;
  .set "err" (.k 0)

/-- the address loop shared by AddressBalance / getUtxos / getUtxosExcludeBindingAndStaking -/
def addrLoop (i : Var) (withTo : Bool) : Stmt :=
  .call "len(addrs)" ["addrs"] [] ;;
  .loop i "addrs" ([.nz "am", .nz "scriptSet"] ++ (if withTo then [.nz "scriptToAddrs"] else [])) (
    D "am" "Address" ;;
    .call "am.Address(addr)" ["ma", "err"] (onOk "err" [.nz "ma"]) ;;
    ifR (nz "err") .skip ;;
    D "ma" "ScriptAddress" ;;
    (if withTo then MA "scriptToAddrs[string(ma.ScriptAddress())]" "scriptToAddrs" else .skip) ;;
    MA "scriptSet[string(ma.ScriptAddress())]" "scriptSet")

def f_AddressBalance : Stmt :=
  curKeystore "am" ;;
  .call "len(addrs)" ["addrs"] [] ;;
  .ite (isz "addrs") (D "am" "ListAddresses") .skip ;;
  .set "scriptToAddrs" (.k 1) ;;
  .set "scriptSet" (.k 1) ;;
  addrLoop "ab.i" true ;;
  flag "len(scriptSet) > 0" "ab.some" ;;
  .ite (nz "ab.some") (
    .call "w.syncStore.SyncedTo" ["syncedTo", "err"] (onOk "err" [.nz "syncedTo"]) ;;
    ifR (nz "err") .skip ;;
    D "syncedTo" "Height" ;;
    .call "w.utxoStore.ScriptAddressBalance" ["m", "err"] [] ;;
    ifR (nz "err") .skip ;;
    .loop "ab.k" "m" [] (
      .call "range m" ["bal", "ab.n"] (always [.nz "bal"]) ;;
      .loop "ab.l" "ab.n" [.nz "bal"] (D "bal" "Total"))) .skip ;;
  .call "len(ret)" ["ret"] [] ;;
  .set "err" (.k 0)

def f_GetUtxo : Stmt :=
  curKeystore "am" ;;
  .set "ret.map" (.k 1) ;;
  .call "len(addrs)" ["addrs"] [] ;;
  .ite (isz "addrs") (D "am" "ListAddresses") .skip ;;
  .invoke Fn.getUtxos ;;
  ifR (nz "err") .skip ;;
  .call "len(creditsMap)" ["gu.n"] [] ;;
  .loop "gu2.i" "gu.n" [.nz "ret.map"] (
    .call "len(cres)" ["gu.c"] [] ;;
    .loop "gu2.j" "gu.c" [.nz "ret.map"] (
      .call "range cres" ["credit"] (always [.nz "credit"]) ;;
      D "credit" "OutPoint") ;;
    MA "ret[addr]" "ret.map") ;;
  .set "err" (.k 0)

def f_NewAddress : Stmt :=
  curKeystore "am" ;;
  -- NextAddresses(…, 1, …) returns exactly one managed address on success
  .call "w.ksmgr.NextAddresses" ["mas", "err", "mas[0]"] (onOk "err" [.ge "mas" 1, .nz "mas[0]"]) ;;
  ifR (nz "err") .skip ;;
  flag "addrClass == AddressClassWitnessV0" "na.v0" ;;
  flag "addrClass == AddressClassWitnessStaking" "na.stk" ;;
  .ite (nz "na.v0") (IXK "mas[0]" "mas" 0 ;; Dt "mas[0] .String" "mas[0]")
    (.ite (nz "na.stk") (IXK "mas[0]" "mas" 0 ;; Dt "mas[0] .StakingAddress" "mas[0]") (.set "err" (.k E.invalidVersion) ;; .ret)) ;;
  IXK "mas[0]" "mas" 0 ;;
  Dt "mas[0] .Account" "mas[0]" ;;
  .call "w.utxoStore.PutNewAddress" ["err"] []

def f_GetAddresses : Stmt :=
  curKeystore "acct" ;;
  D "acct" "Name" ;;
  .call "w.utxoStore.GetAddresses" ["all", "err"] [] ;;
  ifR (nz "err") .skip ;;
  .set "mStd" (.k 1) ;;
  .call "len(stakingAddrs)" ["stakingAddrs"] [] ;;
  .loop "ga2.i" "all" [.nz "mStd"] (
    .call "range all" ["addr"] (always [.nz "addr"]) ;;
    D "addr" "AddressClass" ;;
    flag "addr.AddressClass == AddressClassWitnessStaking" "ga2.stk" ;;
    .ite (nz "ga2.stk") (
      .call "massutil.DecodeAddress" ["address", "err"] (onOk "err" [.nz "address"]) ;;
      ifR (nz "err") .skip ;;
      D "address" "ScriptAddress" ;;
      .call "massutil.NewAddressWitnessScriptHash" ["std", "err"] (onOk "err" [.nz "std"]) ;;
      ifR (nz "err") .skip ;;
      D "std" "EncodeAddress")
    (MA "mStd[addr.Address]" "mStd")) ;;
  .call "len(stakingAddrs)" ["stakingAddrs"] [] ;;
  .loop "ga2.j" "stakingAddrs" [.nz "mStd"] (
    .call "range stakingAddrs" ["stakingAddr"] (always [.nz "stakingAddr"]) ;;
    D "stakingAddr" "StdAddress" ;;
    -- mStd only holds the non-nil details stored above
    .call "mStd[stakingAddr.StdAddress]" ["stdAddr", "ok"] [⟨[.nz "ok"], [.nz "stdAddr"]⟩] ;;
    .ite (nz "ok") (
      flag "stakingAddr.Used" "ga2.u" ;;
      .ite (nz "ga2.u") (D "stdAddr" "Used") .skip)
    (flag "stakingAddr.Used" "ga2.u" ;;
     .ite (nz "ga2.u") (MA "mStd[stakingAddr.StdAddress]" "mStd") .skip)) ;;
  .call "len(result)" ["result"] [] ;;
  -- sort.Slice calls the comparison with 0 ≤ i, j < len(result); the elements are non-nil details
  .call "sort.Slice: number of comparisons" ["ga2.n"] [] ;;
  .loop "ga2.c" "ga2.n" [] (
    .call "sort.Slice: less(i, j)" ["i", "j", "result[i]", "result[j]"]
      (always [.lt "i" "result", .lt "j" "result", .nz "result[i]", .nz "result[j]"]) ;;
    IX "result[i]" "i" "result" ;;
    Dt "result[i] .AddressClass" "result[i]" ;;
    IX "result[j]" "j" "result" ;;
    Dt "result[j] .AddressClass" "result[j]" ;;
    flag "result[i].AddressClass != result[j].AddressClass" "ga2.ne" ;;
    .ite (nz "ga2.ne") (IX "result[i]" "i" "result" ;; IX "result[j]" "j" "result")
      (IX "result[i]" "i" "result" ;; IX "result[j]" "j" "result")) ;;
  .set "err" (.k 0)

def f_GetAllAddressesWithPubkey : Stmt :=
  .invoke Fn.GetAddresses_wallet ;;
  ifR (nz "err") .skip ;;
  .set "m0" (.k 1) ;;
  .set "m1" (.k 1) ;;
  .loop "gp.i" "result" [.nz "m0", .nz "m1"] (
    .call "range list" ["addr"] (always [.nz "addr"]) ;;
    D "addr" "AddressClass" ;;
    flag "addr.AddressClass == AddressClassWitnessStaking" "gp.stk" ;;
    .ite (nz "gp.stk") (MA "m1[addr.StdAddress]" "m1") (MA "m0[addr.Address]" "m0")) ;;
  -- GetAddresses succeeded just above: a wallet is in use (testing helper; not reachable from the API)
  .call "w.ksmgr.CurrentKeystore()" ["ck"] (always [.nz "ck"]) ;;
  Dt "w.ksmgr.CurrentKeystore() .ManagedAddresses" "ck" ;;
  .call "len(ManagedAddresses())" ["gp.n"] [] ;;
  .loop "gp.j" "gp.n" [] (
    .call "range ManagedAddresses()" ["ma"] (always [.nz "ma"]) ;;
    D "ma" "String" ;;
    .call "m0[ma.String()]" ["addr", "ok"] [⟨[.nz "ok"], [.nz "addr"]⟩] ;;
    .ite (nz "ok") (D "addr" "PubKey") (
      .call "m1[ma.String()]" ["addr", "ok"] [⟨[.nz "ok"], [.nz "addr"]⟩] ;;
      .ite (nz "ok") (D "addr" "PubKey") .skip))

def f_CreateRawTransaction : Stmt :=
  .invoke Fn.constructTxIn ;;
  ifR (nz "err") .skip ;;
  flag "len(changeAddr) == 0" "crt.nochange" ;;
  .ite (nz "crt.nochange") (
    -- constructTxIn appends one sender per input and the API requires at least one input
    IXK "senders[0]" "senders" 0 ;;
    .call "senders[0]" ["senders[0]"] (always [.nz "senders[0]"]) ;;
    Dt "senders[0] .StdEncodeAddress" "senders[0]") .skip ;;
  .invoke Fn.EstimateManualTxFee ;;
  ifR (nz "err") .skip ;;
  mark "deep" ;;
  .invoke Fn.maybeSubtractFeeFromAmounts ;;
  ifR (nz "err") .skip ;;
  flag "totalIn < noChangeTotalOutAndFee" "crt.short" ;;
  ifR (nz "crt.short") (.set "err" (.k E.notEnoughInputs)) ;;
  flag "!changeAmount.IsZero()" "crt.change" ;;
  .ite (nz "crt.change") (
    .invoke Fn.EstimateManualTxFee ;;
    ifR (nz "err") .skip ;;
    .invoke Fn.maybeSubtractFeeFromAmounts ;;
    ifR (nz "err") .skip ;;
    flag "totalIn <= totalOutAndFee" "crt.short" ;;
    ifR (nz "crt.short") (.set "err" (.k E.notEnoughInputs))) .skip ;;
  .invoke Fn.constructTxOut ;;
  ifR (nz "err") .skip ;;
  D "mtx" "LockTime" ;;
  .invoke Fn.messageToHex_tx ;;
  ifR (nz "err") .skip ;;
  .call "len(mtx.TxOut)" ["mtx.TxOut"] [] ;;
  .loop "crt.o" "mtx.TxOut" [] (
    .call "range mtx.TxOut" ["txOut"] (always [.nz "txOut"]) ;;
    D "txOut" "Value" ;;
    .call "totalOut.AddInt" ["err"] [] ;;
    ifR (nz "err") .skip) ;;
  .call "totalIn.Sub(totalOut)" ["err"] [] ;;
  ifR (nz "err") .skip ;;
  .invoke Fn.MarkUsedUTXO ;;
  .set "err" (.k 0)

def autoTail (estimate : Nat) (tx : String) : Stmt :=
  .invoke estimate ;;
  ifR (nz "err") .skip ;;
  D tx "LockTime" ;;
  .invoke Fn.messageToHex_tx ;;
  ifR (nz "err") .skip ;;
  .invoke Fn.MarkUsedUTXO ;;
  .set "err" (.k 0)

def f_AutoCreateRawTransaction : Stmt := autoTail Fn.EstimateTxFee "mtx"
def f_CreateStakingTransaction : Stmt := autoTail Fn.EstimateStakingTxFee "msgTx"
def f_CreateBindingTransaction : Stmt := autoTail Fn.EstimateBindingTxFee "msgTx"

/-- every input: `holders := [holder] ++ (others of the cached list, when the cached value is a list)` -/
def f_MarkUsedUTXO : Stmt :=
  .call "len(msgTx.TxIn)" ["mu.n"] [] ;;
  .loop "mu.i" "mu.n" [] (
    flag "w.usedCache.Get(key)" "mu.ok" ;;
    .ite (nz "mu.ok") (AOK "v.([]wire.Hash)") .skip)
def f_UTXOUsed : Stmt := .skip
/-- every input: drop this draft from the cached holder list (comma-ok assertion; a foreign value is deleted) -/
def f_ClearUsedUTXOMark : Stmt :=
  .call "len(msgTx.TxIn)" ["cu.n"] [] ;;
  .loop "cu.i" "cu.n" [] (
    flag "w.usedCache.GetWithExpiration(key)" "cu.ok" ;;
    .ite (nz "cu.ok") (AOK "v.([]wire.Hash)") .skip)

def f_SignRawTx : Stmt :=
  curKeystore "ks" ;;
  flag "flag is a known sighash name" "srt.flag" ;;
  ifR (isz "srt.flag") (.set "err" (.k E.invalidFlag)) ;;
  .invoke Fn.signWitnessTx ;;
  ifR (nz "err") .skip ;;
  .call "tx.Bytes" ["err"] [] ;;
  ifR (nz "err") (.set "err" (.k E.signFailed)) ;;
  .set "err" (.k 0)

def f_GetStakingHistory : Stmt :=
  curKeystore "am" ;;
  .call "w.utxoStore.GetUnminedStakingHistoryDetail" ["err"] [] ;;
  ifR (nz "err") .skip ;;
  .call "w.utxoStore.GetStakingHistoryDetail" ["err"] [] ;;
  ifR (nz "err") .skip ;;
  .call "len(ret)" ["ret"] [] ;;
  .set "err" (.k 0)

def f_GetBindingHistory : Stmt :=
  curKeystore "am" ;;
  .call "w.utxoStore.GetUnminedBindingHistoryDetail" ["err"] [] ;;
  ifR (nz "err") .skip ;;
  .call "w.utxoStore.GetBindingHistoryDetail" ["err"] [] ;;
  ifR (nz "err") .skip ;;
  .call "len(ret)" ["ret"] [] ;;
  .set "err" (.k 0)

/-- the process is wired with a live node: Server.Blockchain() is the node's chain -/
def serverBC (text : String) : Stmt := .call "w.server.Blockchain()" ["sbc"] (always [.nz "sbc"]) ;; Dt text "sbc"

def f_Start_wm : Stmt :=
  serverBC "w.server.Blockchain() .RegisterListener" ;;
  .invoke Fn.Start_ntfnshandler

def f_Stop_wm : Stmt :=
  serverBC "w.server.Blockchain() .UnregisterListener" ;;
  .invoke Fn.Stop_ntfnshandler

def f_CloseDB : Stmt := .skip

def f_ChainIndexerSyncedHeight : Stmt := serverBC "w.server.Blockchain() .BestBlockHeight"

def f_CurrentWallet : Stmt :=
  .call "w.ksmgr.CurrentKeystore()" ["ck1"] [] ;;
  .ite (nz "ck1") (
    -- the second call sees the same keystore (no concurrent removal: the handlers are serialised by w.mu
    -- for writers; a race between this read and a removal is outside the skeleton)
    .call "w.ksmgr.CurrentKeystore()" ["ck2"] (always [.nz "ck2"]) ;;
    Dt "w.ksmgr.CurrentKeystore() .Name" "ck2" ;;
    .set "cw.len" (.k 1))
  (.set "cw.len" (.k 0))

def f_SyncedTo : Stmt :=
  .call "w.syncStore.SyncedTo" ["syncedTo", "st.err"] (onOk "st.err" [.nz "syncedTo"]) ;;
  ifR (nz "st.err") .skip ;;
  D "syncedTo" "Height"

def f_IsAddressInCurrent : Stmt :=
  .call "massutil.DecodeAddress" ["address", "derr"] (onOk "derr" [.nz "address"]) ;;
  ifR (nz "derr") (.set "witAddr" (.k 0) ;; .set "err" (.k 0)) ;;
  D "address" "ScriptAddress" ;;
  .call "w.ksmgr.GetManagedAddressByScriptHashInCurrent" ["err", "notfound"] [] ;;
  .ite (nz "err") (
    .ite (nz "notfound") (.set "witAddr" (.v "address") ;; .set "err" (.k 0) ;; .ret) (.set "witAddr" (.k 0) ;; .ret)) .skip ;;
  .set "witAddr" (.v "address") ;;
  .set "err" (.k 0)

def f_CountAll : Stmt := .skip

-- ==================================================================== masswallet/common.go

/-- ExistsTx finds a mined transaction through the CREDIT of the requested outpoint: on success the
    transaction, its block and the output exist (ledger invariant: a credit is recorded only for an
    existing output of its transaction; C01). On failure both results are nil. -/
def f_existsMsgTx : Stmt :=
  .call "w.txStore.ExistsTx" ["prevTx", "block", "perr", "perr.notfound", "prevTx.TxOut"]
    (onOk "perr" [.nz "prevTx", .nz "block", .lt "vout" "prevTx.TxOut"] ++ [⟨[.nz "perr"], [.z "block"]⟩, ⟨[.nz "perr"], [.z "prevTx"]⟩])

/-- ExistUnminedTx finds a pending transaction by its hash alone -/
def f_existsUnminedTx : Stmt :=
  .call "w.txStore.ExistUnminedTx" ["prevTx", "perr", "prevTx.TxOut"] (onOk "perr" [.nz "prevTx"])

/-- ExistsUtxo succeeds only for a (mined or pending) credit of that outpoint: the output exists in the
    transaction with that hash (same ledger invariant) -/
def f_existsOutPoint : Stmt :=
  .call "w.txStore.ExistsUtxo" ["flags", "oerr"] (onOk "oerr" [.nz "flags", .lt "vout" "prevTx.TxOut"])

def f_addTxIn : Stmt :=
  .call "len(inputUtxos)" ["inputUtxos"] [] ;;
  .loop "ati.i" "inputUtxos" [] (
    .call "utx.OutPoint.Index" ["vout"] [] ;;
    .invoke Fn.existsMsgTx ;;
    ifR (nz "perr") (.set "err" (.v "perr")) ;;
    D "prevTx" "TxOut" ;;
    IX "prevTx.TxOut[txIn.PreviousOutPoint.Index]" "vout" "prevTx.TxOut" ;;
    .call "prevTx.TxOut[i]" ["txOut"] (always [.nz "txOut"]) ;;
    D "txOut" "PkScript" ;;
    .call "utils.ParsePkScript" ["pks", "err"] (onOk "err" [.nz "pks"]) ;;
    ifR (nz "err") .skip ;;
    D "pks" "IsStaking" ;;
    flag "pks.IsStaking()" "ati.stk" ;;
    .ite (nz "ati.stk") .skip (
      flag "pks.IsBinding()" "ati.bind" ;;
      .ite (nz "ati.bind") (D "block" "Height") .skip)) ;;
  .set "err" (.k 0)

def f_autoConstructTxInAndChangeTxOut : Stmt :=
  .call "len(msgTx.TxOut)" ["msgTx.TxOut"] [] ;;
  .loop "ac.o" "msgTx.TxOut" [] (
    .call "outAmounts.AddInt" ["err"] [] ;;
    ifR (nz "err") (.set "err" (.k E.invalidAmount))) ;;
  -- `for { … }`: the number of rounds of the fee fixed point is chosen by the oracle (termination: C02)
  .call "fee loop: rounds" ["ac.rounds"] [] ;;
  .loop "ac.r" "ac.rounds" [] (
    .call "inner loop: rounds" ["ac.inner"] [] ;;
    .loop "ac.q" "ac.inner" [] (
      .call "targetTxFee.Add / want.Add" ["err"] [] ;;
      ifR (nz "err") .skip ;;
      .invoke Fn.findEligibleUtxos ;;
      ifR (nz "err") .skip ;;
      flag "found < wantAdj" "ac.short" ;;
      ifR (nz "ac.short") (.set "err" (.k E.other)) ;;
      flag "change needs an output" "ac.change" ;;
      .ite (nz "ac.change") (.invoke Fn.amountToTxOut ;; ifR (nz "err") .skip) .skip) ;;
    .set "utxos" (.v "selections") ;;
    .invoke Fn.estimateSignedSize ;;
    ifR (nz "err") (.set "err" (.k E.invalidParameter)) ;;
    .call "blockchain.CalcMinRequiredTxRelayFee" ["err"] [] ;;
    ifR (nz "err") .skip ;;
    flag "targetTxFee >= requiredFee" "ac.done" ;;
    .ite (nz "ac.done") (.invoke Fn.addTxIn ;; .ret) .skip) ;;
  .set "err" (.k E.other)

def f_prepareFromAddresses : Stmt :=
  curKeystore "ks" ;;
  flag "len(from) > 0" "pfa.from" ;;
  .ite (nz "pfa.from") (
    D "ks" "Address" ;;
    .call "ks.Address(from)" ["ma", "err"] (onOk "err" [.nz "ma"]) ;;
    ifR (nz "err") .skip ;;
    D "ma" "String")
  (D "ks" "ListAddresses") ;;
  .call "len(addrs)" ["addrs"] [] ;;
  ifR (isz "addrs") (.set "err" (.k E.noAddressInWallet)) ;;
  .set "err" (.k 0)

def f_maybeSubtractFeeFromAmounts : Stmt :=
  .call "len(selectedAddresses)" ["selectedAddresses"] [] ;;
  .loop "ms.i" "selectedAddresses" [] (
    flag "amounts[addr] exists" "ms.ok" ;;
    ifR (isz "ms.ok") (.set "err" (.k E.unknownSubfeefrom))) ;;
  .ite (isz "selectedAddresses") (
    .call "totalAndFee.Add" ["err"] [] ;; .ret) .skip ;;
  .set "newAmounts" (.k 1) ;;
  .call "massutil.NewAmountFromInt" ["err"] [] ;;
  ifR (nz "err") .skip ;;
  .call "len(amounts)" ["ms.n"] [] ;;
  .loop "ms.j" "ms.n" [.nz "newAmounts"] (
    .call "amount.Sub / totalAndFee.Add" ["err"] [] ;;
    ifR (nz "err") .skip ;;
    MA "newAmounts[addr]" "newAmounts") ;;
  .set "err" (.k 0)

def f_PayToWitnessV0Address : Stmt :=
  .call "massutil.DecodeAddress" ["addr", "err"] (onOk "err" [.nz "addr"]) ;;
  ifR (nz "err") (.set "err" (.k E.failedDecodeAddress)) ;;
  flag "massutil.IsWitnessV0Address(addr)" "pw.v0" ;;
  ifR (isz "pw.v0") (.set "err" (.k E.invalidAddress)) ;;
  D "addr" "IsForNet" ;;
  flag "addr.IsForNet(netParams)" "pw.net" ;;
  ifR (isz "pw.net") (.set "err" (.k E.other)) ;;
  .call "txscript.PayToAddrScript" ["err"] []

def f_amountToTxOut : Stmt :=
  flag "amount.IsZero()" "ato.z" ;;
  ifR (nz "ato.z") (.set "err" (.k E.invalidAmount)) ;;
  .invoke Fn.PayToWitnessV0Address

-- ==================================================================== masswallet/tx.go

def f_constructTxIn : Stmt :=
  curKeystore "am" ;;
  .set "spent" (.k 1) ;;
  .loop "cti.i" "inputs" [.nz "am", .ge "inputs" 1, .nz "spent"] (
    .set "cur.in" (.v "cti.i") ;;
    .call "wire.NewHashFromStr(input.TxId)" ["txHash", "herr"] (onOk "herr" [.nz "txHash"]) ;;
    .ite (nz "herr") (Dt "err .Error" "herr" ;; .set "err" (.k E.shaHashFromStr) ;; .ret) .skip ;;
    .call "input.Vout" ["vout"] [] ;;
    -- an input list naming the same output twice is refused
    flag "spent[*prevOut] exists" "cti.dup" ;;
    ifR (nz "cti.dup") (.set "err" (.k E.invalidParameter)) ;;
    MA "spent[*prevOut]" "spent" ;;
    .invoke Fn.existsMsgTx ;;
    .ite (.and (nz "perr") (nz "perr.notfound")) (.invoke Fn.existsUnminedTx) .skip ;;
    ifR (nz "perr") (.set "err" (.k E.invalidParameter)) ;;
    D "prevTx" "TxOut" ;;
    ifR (.atom (.le "prevTx.TxOut" "vout")) (.set "err" (.k E.invalidIndex)) ;;
    IX "prevTx.TxOut[txIn.PreviousOutPoint.Index]" "vout" "prevTx.TxOut" ;;
    .call "prevTx.TxOut[i]" ["prevTxOut"] (always [.nz "prevTxOut"]) ;;
    D "prevTxOut" "PkScript" ;;
    .call "utils.ParsePkScript" ["pks", "pserr"] (onOk "pserr" [.nz "pks"]) ;;
    ifR (nz "pserr") (.set "err" (.k E.invalidParameter)) ;;
    D "am" "Address" ;;
    D "pks" "StdEncodeAddress" ;;
    .call "am.Address(pks.StdEncodeAddress())" ["aerr"] [] ;;
    ifR (nz "aerr") (.set "err" (.k E.noAddressInWallet)) ;;
    -- prevHeight: the block of a mined previous transaction, tip+1 for an unconfirmed one
    .ite (nz "block") (D "block" "Height") (
      .invoke Fn.SyncedTo ;;
      ifR (nz "st.err") (.set "err" (.v "st.err"))) ;;
    flag "pks.IsStaking()" "cti.stk" ;;
    .ite (nz "cti.stk") .skip (flag "pks.IsBinding()" "cti.bind") ;;
    .call "totalValue.AddInt" ["aerr"] [] ;;
    ifR (nz "aerr") (.set "err" (.k E.invalidAmount))) ;;
  -- one sender was appended per input
  .call "len(senders)" ["senders"] [⟨[.ge "inputs" 1], [.ge "senders" 1]⟩] ;;
  .set "mtx" (.k 1) ;;
  .set "err" (.k 0)

def f_constructTxOut : Stmt :=
  .call "len(amounts)" ["cto.n"] [] ;;
  .loop "cto.i" "cto.n" [] (
    .invoke Fn.PayToWitnessV0Address ;;
    ifR (nz "err") .skip) ;;
  flag "!changeAmount.IsZero()" "cto.c" ;;
  .ite (nz "cto.c") (.invoke Fn.PayToWitnessV0Address ;; ifR (nz "err") .skip) .skip ;;
  .call "len(mtx.TxOut)" ["mtx.TxOut"] [] ;;
  .loop "cto.j" "mtx.TxOut" [] (
    .call "blockchain.IsDust" ["dust", "err"] [] ;;
    ifR (nz "err") (.set "err" (.k E.invalidAmount)) ;;
    ifR (nz "dust") (.set "err" (.k E.other))) ;;
  .set "err" (.k 0)

def f_constructStakingTxOut : Stmt :=
  .call "len(outputs)" ["outputs"] [] ;;
  .loop "cso.i" "outputs" [] (
    flag "amount zero or above MaxAmount" "cso.bad" ;;
    ifR (nz "cso.bad") (.set "err" (.k E.invalidAmount)) ;;
    .call "massutil.DecodeAddress" ["addr", "err"] (onOk "err" [.nz "addr"]) ;;
    ifR (nz "err") (.set "err" (.k E.failedDecodeAddress)) ;;
    D "addr" "IsForNet" ;;
    flag "addr.IsForNet" "cso.net" ;;
    ifR (isz "cso.net") (.set "err" (.k E.other)) ;;
    flag "massutil.IsWitnessStakingAddress(addr)" "cso.stk" ;;
    ifR (isz "cso.stk") (.set "err" (.k E.invalidAddress)) ;;
    .call "txscript.PayToStakingAddrScript" ["err"] [] ;;
    ifR (nz "err") .skip) ;;
  .set "err" (.k 0)

def f_messageToHex : Stmt := .call "msg.Encode" ["err"] []

def estimateBody (outs : Stmt) : Stmt :=
  .invoke Fn.prepareFromAddresses ;;
  ifR (nz "err") .skip ;;
  mark "deep" ;;
  outs ;;
  .invoke Fn.autoConstructTxInAndChangeTxOut ;;
  ifR (nz "err") .skip ;;
  .set "mtx" (.k 1) ;;
  .set "msgTx" (.k 1) ;;
  .set "err" (.k 0)

def f_EstimateTxFee : Stmt := estimateBody (
  .call "len(amounts)" ["etf.n"] [] ;;
  .loop "etf.i" "etf.n" [] (.invoke Fn.amountToTxOut ;; ifR (nz "err") .skip))

def f_EstimateStakingTxFee : Stmt := estimateBody (
  .invoke Fn.constructStakingTxOut ;; ifR (nz "err") .skip)

def f_EstimateBindingTxFee : Stmt := estimateBody (
  .call "len(outputs)" ["outputs"] [] ;;
  .loop "ebf.i" "outputs" [] (
    flag "output.Amount.IsZero()" "ebf.z" ;;
    ifR (nz "ebf.z") (.set "err" (.k E.invalidAmount)) ;;
    .call "txscript.PayToBindingScriptHashScript" ["err"] [] ;;
    ifR (nz "err") (.set "err" (.k E.other))))

def f_estimateSignedSize : Stmt :=
  .loop "ess.i" "utxos" [] (
    .set "cur.in" (.v "ess.i") ;;
    .call "utx.OutPoint.Index" ["vout"] [] ;;
    .invoke Fn.existsMsgTx ;;
    ifR (nz "perr") (.set "err" (.v "perr")) ;;
    Dt "mtx .TxOut" "prevTx" ;;          -- Go's local `mtx` is the transaction returned by existsMsgTx
    IX "mtx.TxOut[txidx]" "vout" "prevTx.TxOut" ;;
    .call "mtx.TxOut[i]" ["mtx.TxOut[txidx]"] (always [.nz "mtx.TxOut[txidx]"]) ;;
    Dt "mtx.TxOut[txidx] .PkScript" "mtx.TxOut[txidx]" ;;
    -- the output is a credit of the wallet (ExistsTx succeeded): a wallet template whose holder address is reported
    .call "txscript.ExtractPkScriptAddrs" ["addrs", "err", "addr"] (onOk "err" [.ge "addrs" 1, .nz "addr"]) ;;
    ifR (nz "err") .skip ;;
    IXK "addrs[0]" "addrs" 0 ;;
    flag "massutil.IsWitnessStakingAddress(addr)" "ess.stk" ;;
    .ite (nz "ess.stk") (
      D "addr" "ScriptAddress" ;;
      -- a 32-byte script hash: the constructor cannot fail (its error is ignored by the code)
      .call "massutil.NewAddressWitnessScriptHash" ["addr"] (always [.nz "addr"])) .skip ;;
    D "addr" "String" ;;
    .call "w.ksmgr.GetAddrManager" ["acctM", "err"] (onOk "err" [.nz "acctM"]) ;;
    ifR (nz "err") .skip ;;
    D "acctM" "Address" ;;
    .call "acctM.Address" ["mAddr", "err"] (onOk "err" [.nz "mAddr"]) ;;
    ifR (nz "err") .skip ;;
    D "mAddr" "RedeemScript" ;;
    .call "mAddr.RedeemScript" ["err"] [] ;;
    ifR (nz "err") .skip ;;
    .call "txscript.ExtractPkScriptAddrs(script)" ["err", "ess.notms"] [] ;;
    ifR (.or (nz "err") (nz "ess.notms")) .skip) ;;
  .set "err" (.k 0)

def f_findEligibleUtxos : Stmt :=
  .call "len(witnessAddr)" ["witnessAddr"] [] ;;
  ifR (isz "witnessAddr") (.set "err" (.k E.invalidParameter)) ;;
  flag "amount.IsZero()" "feu.z" ;;
  ifR (nz "feu.z") (.set "err" (.k E.invalidParameter)) ;;
  .invoke Fn.getUtxosExcludeBindingAndStaking ;;
  ifR (nz "err") .skip ;;
  .invoke Fn.optOutputs ;;
  ifR (nz "err") .skip ;;
  .ite (nz "selections") (
    -- getUtxosExcludeBindingAndStaking succeeded: a wallet is in use and every address resolved
    .call "w.ksmgr.CurrentKeystore()" ["am"] (always [.nz "am"]) ;;
    .set "feu.found" (.k 0) ;;
    .loop "feu.i" "witnessAddr" [.nz "am", .ge "selections" 1] (
      D "am" "Address" ;;
      .call "am.Address(addr)" ["ma"] (always [.nz "ma"]) ;;
      D "ma" "ScriptAddress" ;;
      IXK "selections[0]" "selections" 0 ;;
      .call "selections[0]" ["selections[0]"] (always [.nz "selections[0]"]) ;;
      Dt "selections[0] .ScriptHash" "selections[0]" ;;
      flag "bytes.Equal" "feu.eq" ;;
      .ite (nz "feu.eq") (.set "feu.found" (.k 1)) .skip) ;;
    .ite (isz "feu.found") (
      D "am" "Name" ;;
      IXK "selections[0]" "selections" 0 ;;
      .call "selections[0]" ["selections[0]"] (always [.nz "selections[0]"]) ;;
      Dt "selections[0] .ScriptHash" "selections[0]" ;;
      .set "err" (.k E.other) ;; .ret) .skip) .skip ;;
  .set "err" (.k 0)

def f_getUtxos : Stmt :=
  curKeystore "am" ;;
  .set "scriptToAddrs" (.k 1) ;;
  .set "scriptSet" (.k 1) ;;
  addrLoop "gus.i" true ;;
  .set "ret.m" (.k 1) ;;
  .scope (
    .call "w.syncStore.SyncedTo" ["syncedTo", "err"] (onOk "err" [.nz "syncedTo"]) ;;
    ifR (nz "err") .skip ;;
    D "syncedTo" "Height" ;;
    -- the filter closure runs once per credit
    .call "ScriptAddressUnspents: credits visited" ["gus.n"] [] ;;
    .loop "gus.c" "gus.n" [.nz "ret.m"] (
      flag "!item.Flags.Spent" "gus.u" ;;
      .ite (nz "gus.u") (
        .call "w.server.TxMemPool()" ["pool"] (always [.nz "pool"]) ;;
        Dt "w.server.TxMemPool() .CheckPoolOutPointSpend" "pool") .skip) ;;
    .call "w.utxoStore.ScriptAddressUnspents" ["m", "err"] [] ;;
    ifR (nz "err") .skip ;;
    .loop "gus.k" "m" [.nz "ret.m"] (
      .call "len(scriptToAddrs[script])" ["gus.a"] [] ;;
      .loop "gus.l" "gus.a" [.nz "ret.m"] (MA "ret[addr]" "ret.m"))) ;;
  ifR (nz "err") .skip ;;
  .set "err" (.k 0)

def f_getUtxosExcludeBindingAndStaking : Stmt :=
  curKeystore "am" ;;
  .set "scriptSet" (.k 1) ;;
  .set "addrs" (.v "witnessAddr") ;;
  addrLoop "gue.i" false ;;
  .scope (
    .call "w.syncStore.SyncedTo" ["syncedTo", "err"] (onOk "err" [.nz "syncedTo"]) ;;
    ifR (nz "err") .skip ;;
    D "syncedTo" "Height" ;;
    .call "ScriptAddressUnspents: credits visited" ["gue.n"] [] ;;
    .loop "gue.c" "gue.n" [] (
      flag "mature, unspent, plain, not reserved" "gue.ok" ;;
      .ite (nz "gue.ok") (
        .call "w.server.TxMemPool()" ["pool"] (always [.nz "pool"]) ;;
        Dt "w.server.TxMemPool() .CheckPoolOutPointSpend" "pool") .skip) ;;
    .call "w.utxoStore.ScriptAddressUnspents" ["err"] []) ;;
  ifR (nz "err") .skip ;;
  .call "selector.Items()" ["utxos.sel"] [] ;;
  .set "err" (.k 0)

def f_optOutputs : Stmt :=
  flag "amount.IsZero()" "oo.z" ;;
  ifR (nz "oo.z") (.set "selections" (.k 0) ;; .set "err" (.k 0)) ;;
  .call "len(utxos)" ["oo.utxos"] [] ;;
  .call "sort.Slice: number of comparisons" ["oo.n"] [] ;;
  .loop "oo.c" "oo.n" [] (
    .call "sort.Slice: less(i, j)" ["i", "j"] (always [.lt "i" "oo.utxos", .lt "j" "oo.utxos"]) ;;
    IX "utxos[i]" "i" "oo.utxos" ;;
    IX "utxos[j]" "j" "oo.utxos") ;;
  .loop "oo.k" "oo.utxos" [] (
    .call "sumReserve.Add / optAmount.Add" ["err"] [] ;;
    ifR (nz "err") .skip ;;
    flag "index == len(utxos)-1 && optAmount < amount" "oo.last" ;;
    .ite (nz "oo.last") (
      .call "len(unSelectedUtIndex)" ["unSelectedUtIndex"] [] ;;
      .ite (nz "unSelectedUtIndex") (
        .site "index" "unSelectedUtIndex[len(unSelectedUtIndex)-1]" (some (.ge "unSelectedUtIndex" 1))) .skip) .skip) ;;
  -- selectedUtIndex only holds loop indexes of utxos
  .call "len(selectedUtIndex)" ["oo.sel"] [] ;;
  .loop "oo.s" "oo.sel" [] (
    .call "range selectedUtIndex" ["index"] (always [.lt "index" "oo.utxos"]) ;;
    IX "utxos[index]" "index" "oo.utxos" ;;
    .call "sumSelection.Add" ["err"] [] ;;
    ifR (nz "err") .skip ;;
    IX "utxos[index]" "index" "oo.utxos") ;;
  .call "len(selections)" ["selections"] [] ;;
  .set "err" (.k 0)

def f_SignHash : Stmt := .skip

def f_signWitnessTx : Stmt :=
  .set "cache" (.k 1) ;;
  .set "cacheMeta" (.k 1) ;;
  -- getScript closure (called back by txscript.SignTxOutputWit)
  .call "SignTxOutputWit may call getScript" ["sw.cb"] [] ;;
  .ite (nz "sw.cb") (.scope (
    .call "massutil.NewAddressWitnessScriptHash" ["address", "cb.err"] (onOk "cb.err" [.nz "address"]) ;;
    ifR (nz "cb.err") .skip ;;
    D "address" "EncodeAddress" ;;
    -- SignRawTx checked that a wallet is in use; no wallet switch while the request runs
    .call "w.ksmgr.CurrentKeystore()" ["acctM"] [⟨[.nz "ks"], [.nz "acctM"]⟩] ;;
    D "acctM" "Address" ;;
    .call "acctM.Address" ["mAddr", "cb.err"] (onOk "cb.err" [.nz "mAddr"]) ;;
    ifR (nz "cb.err") .skip ;;
    D "mAddr" "RedeemScript")) .skip ;;
  .loop "sw.i" "tx.TxIn" [.nz "cache", .nz "cacheMeta", .nz "ks"] (
    .set "cur.in" (.v "sw.i") ;;
    .call "txIn.PreviousOutPoint.Index" ["vout"] [] ;;
    -- the cache only holds the non-nil transactions stored below
    .call "cache[txIn.PreviousOutPoint.Hash]" ["prevTx", "ok", "prevTx.TxOut"] [⟨[.nz "ok"], [.nz "prevTx"]⟩] ;;
    .ite (isz "ok") (
      .invoke Fn.existsMsgTx ;;
      MA "cacheMeta[txIn.PreviousOutPoint.Hash]" "cacheMeta" ;;
      .ite (.and (nz "perr") (nz "perr.notfound")) (.invoke Fn.existsUnminedTx) .skip ;;
      ifR (nz "perr") (.set "err" (.k E.utxoNotExists)) ;;
      MA "cache[txIn.PreviousOutPoint.Hash]" "cache") .skip ;;
    D "prevTx" "TxOut" ;;
    ifR (.gtU32Pred "vout" "prevTx.TxOut") (.set "err" (.k E.invalidIndex)) ;;
    .invoke Fn.existsOutPoint ;;
    ifR (nz "oerr") (.set "err" (.k E.utxoNotExists)) ;;
    D "flags" "Spent" ;;
    flag "flags.Spent" "sw.spent" ;;
    ifR (nz "sw.spent") (.set "err" (.k E.doubleSpend)) ;;
    IX "prevTx.TxOut[txIn.PreviousOutPoint.Index]" "vout" "prevTx.TxOut" ;;
    .call "prevTx.TxOut[i]" ["prevTxOut"] (always [.nz "prevTxOut"]) ;;
    mark "deep" ;;
    flag "not SigHashSingle or i < len(tx.TxOut)" "sw.sign" ;;
    .ite (nz "sw.sign") (
      D "prevTxOut" "Value" ;;
      .call "txscript.SignTxOutputWit" ["err"] [] ;;
      ifR (nz "err") .skip) .skip ;;
    .call "cacheMeta[txIn.PreviousOutPoint.Hash]" ["meta"] [] ;;
    .ite (nz "meta") (D "meta" "Height") (
      .invoke Fn.SyncedTo ;;
      ifR (nz "st.err") (.set "err" (.v "st.err"))) ;;
    D "prevTxOut" "PkScript" ;;
    .call "txscript.NewEngine" ["vm", "err"] (onOk "err" [.nz "vm"]) ;;
    .ite (isz "err") (
      D "vm" "Execute" ;;
      .call "vm.Execute" ["err"] [] ;;
      ifR (nz "err") .skip) .skip ;;
    ifR (nz "err") .skip) ;;
  .set "err" (.k 0)

def f_EstimateManualTxFee : Stmt :=
  .loop "emf.i" "inputs" [] (
    .call "wire.NewHashFromStr(txin.TxId)" ["hash", "err"] (onOk "err" [.nz "hash"]) ;;
    ifR (nz "err") (.set "err" (.k E.other)) ;;
    Dt "*hash" "hash") ;;
  .set "utxos" (.v "inputs") ;;
  .invoke Fn.estimateSignedSize ;;
  ifR (nz "err") .skip ;;
  .call "blockchain.CalcMinRequiredTxRelayFee" ["err"] []

def f_GetTxHistory : Stmt :=
  curKeystore "am" ;;
  flag "len(addr) > 0" "gth.a" ;;
  .ite (nz "gth.a") (
    .call "massutil.DecodeAddress" ["address", "err"] (onOk "err" [.nz "address"]) ;;
    ifR (nz "err") .skip ;;
    D "address" "ScriptAddress" ;;
    .call "w.ksmgr.GetManagedAddressByScriptHashInCurrent" ["mAddr", "err"] (onOk "err" [.nz "mAddr"]) ;;
    ifR (nz "err") .skip ;;
    D "mAddr" "ScriptAddress")
  (
    .scope (
      D "am" "Name" ;;
      .call "w.utxoStore.GetAddresses" ["list", "err"] [] ;;
      ifR (nz "err") .skip ;;
      .set "set" (.k 1) ;;
      .loop "gth.i" "list" [.nz "set"] (
        .call "range list" ["ad"] (always [.nz "ad"]) ;;
        D "ad" "Used" ;;
        flag "ad.Used" "gth.u" ;;
        .ite (nz "gth.u") (
          .call "massutil.DecodeAddress" ["addr", "err"] (onOk "err" [.nz "addr"]) ;;
          ifR (nz "err") .skip ;;
          D "addr" "ScriptAddress" ;;
          MA "set[string(addr.ScriptAddress())]" "set") .skip)) ;;
    ifR (nz "err") .skip ;;
    flag "len(scripts) == 0" "gth.none" ;;
    ifR (nz "gth.none") (.set "err" (.k 0))) ;;
  mark "deep" ;;
  .call "w.chainFetcher.NewestSha" ["err"] [] ;;
  ifR (nz "err") .skip ;;
  .set "rTxLimit.Data" (.k 1) ;;
  .call "batches" ["gth.b"] [] ;;
  .loop "gth.k" "gth.b" [.nz "rTxLimit.Data"] (
    .call "w.chainFetcher.FetchScriptHashRelatedTx" ["rTxs", "err"] (onOk "err" [.nz "rTxs"]) ;;
    ifR (nz "err") .skip ;;
    D "rTxs" "Data" ;;
    flag "count+countInBatch <= wanted" "gth.fits" ;;
    .ite (nz "gth.fits") (
      .call "len(rTxs.SortedHeights)" ["gth.h"] [] ;;
      .loop "gth.l" "gth.h" [.nz "rTxLimit.Data"] (MA "rTxLimit.Data[height]" "rTxLimit.Data"))
    (
      flag "rest == 0" "gth.r0" ;;
      .ite (nz "gth.r0") .skip (
        .invoke Fn.selectRelatedTx ;;
        D "res" "SortedHeights" ;;
        .call "len(res.SortedHeights)" ["gth.h2"] [] ;;
        .loop "gth.m" "gth.h2" [.nz "rTxLimit.Data"] (MA "rTxLimit.Data[height]" "rTxLimit.Data")))) ;;
  .call "len(rTxLimit.Heights())" ["gth.hs"] [] ;;
  .loop "gth.n" "gth.hs" [] (
    .call "len(txlocs)" ["gth.t"] [] ;;
    .loop "gth.o" "gth.t" [] (
      .call "w.chainFetcher.FetchTxByLoc" ["mtx", "ferr", "mtx.TxIn", "mtx.TxOut"] (onOk "ferr" [.nz "mtx"]) ;;
      .ite (nz "ferr") .skip (
        .set "fromSet" (.k 1) ;;
        flag "blockchain.IsCoinBaseTx(mtx)" "gth.cb" ;;
        .ite (nz "gth.cb") (MA "fromSet[\"COINBASE\"]" "fromSet") (
          D "mtx" "TxIn" ;;
          .loop "gth.p" "mtx.TxIn" [.nz "fromSet", .nz "mtx"] (
            .call "range mtx.TxIn" ["txIn"] (always [.nz "txIn"]) ;;
            D "txIn" "PreviousOutPoint" ;;
            -- consensus: an input of a confirmed transaction names an existing output of a confirmed transaction
            .call "w.chainFetcher.FetchLastTxUntilHeight" ["prevMtx", "err", "prevMtx.TxOut", "vout"]
              [⟨[.nz "prevMtx"], [.lt "vout" "prevMtx.TxOut"]⟩] ;;
            ifR (nz "err") .skip ;;
            ifR (isz "prevMtx") (.set "err" (.k E.other)) ;;
            D "prevMtx" "TxOut" ;;
            IX "prevMtx.TxOut[txIn.PreviousOutPoint.Index]" "vout" "prevMtx.TxOut" ;;
            .call "prevMtx.TxOut[i]" ["po"] (always [.nz "po"]) ;;
            Dt "prevMtx.TxOut[txIn.PreviousOutPoint.Index] .PkScript" "po" ;;
            .call "utils.ParsePkScript" ["ps", "err"] (onOk "err" [.nz "ps"]) ;;
            ifR (nz "err") .skip ;;
            D "ps" "StdEncodeAddress" ;;
            MA "fromSet[ps.StdEncodeAddress()]" "fromSet")) ;;
        D "mtx" "TxOut" ;;
        .loop "gth.q" "mtx.TxOut" [] (
          .call "range mtx.TxOut" ["txOut"] (always [.nz "txOut"]) ;;
          D "txOut" "PkScript" ;;
          .call "utils.ParsePkScript" ["ps", "err"] (onOk "err" [.nz "ps"]) ;;
          ifR (nz "err") .skip ;;
          .invoke Fn.AmountToString_common ;;
          ifR (nz "ats.err") (.set "err" (.v "ats.err")) ;;
          D "ps" "StdEncodeAddress")))) ;;
  .call "len(histories)" ["histories"] [] ;;
  .set "err" (.k 0)

def f_selectRelatedTx : Stmt :=
  .set "res" (.k 1) ;;
  .set "result.Data" (.k 1) ;;
  .call "len(h.SortedHeights)" ["h.SortedHeights"] [] ;;
  -- `for i := len-1; i >= 0; i--`: i runs over the valid indexes downwards
  .loop "srt.k" "h.SortedHeights" [.nz "result.Data"] (
    .call "i = len-1-k" ["i"] (always [.lt "i" "h.SortedHeights"]) ;;
    IX "h.SortedHeights[i]" "i" "h.SortedHeights" ;;
    .call "len(h.Data[height])" ["hd"] [] ;;
    flag "count+len(h.Data[height]) <= num" "srt.fits" ;;
    .ite (nz "srt.fits") (MA "result.Data[height]" "result.Data") (
      flag "rest == 0" "srt.r0" ;;
      ifR (nz "srt.r0") .skip ;;
      .call "sort.Slice: number of comparisons" ["srt.n"] [] ;;
      .loop "srt.c" "srt.n" [.nz "result.Data"] (
        .call "sort.Slice: less(i, j)" ["si", "sj"] (always [.lt "si" "hd", .lt "sj" "hd"]) ;;
        IX "h.Data[height][i]" "si" "hd" ;;
        IX "h.Data[height][j]" "sj" "hd") ;;
      -- in this branch count+len > num, hence rest = num-count < len
      .call "rest = num - count" ["rest"] (always [.le "rest" "hd"]) ;;
      SL "h.Data[height][len(h.Data[height])-rest:]" (some (.le "rest" "hd")) ;;
      MA "result.Data[height]" "result.Data" ;;
      .ret))

-- ==================================================================== masswallet/ntfnshandler.go

def f_NewNtfnsHandler : Stmt :=
  .call "w.syncStore.SyncedTo" ["syncedTo", "err"] (onOk "err" [.nz "syncedTo"]) ;;
  ifR (nz "err") .skip ;;
  Dt "*syncedTo" "syncedTo"

def f_Start : Stmt :=
  .invoke Fn.SyncedTo ;;
  ifR (nz "st.err") (.set "err" (.v "st.err")) ;;
  .invoke Fn.ChainIndexerSyncedHeight ;;
  .scope (.invoke Fn.getReadyWallets) ;;
  ifR (nz "err") .skip ;;
  -- D42: put the wallet back on the node's chain when its synced block has left it
  .call "synced height > 0" ["st.rs"] [] ;;
  .ite (nz "st.rs") (
    .call "FetchBlockShaByHeight" ["sha", "err"] (onOk "err" [.nz "sha"]) ;;
    ifR (nz "err") .skip ;;
    Dt "*sha" "sha" ;;
    .call "synced block left the chain" ["st.rs2"] [] ;;
    .ite (nz "st.rs2") (
      .call "FetchBlockByHeight" ["blk", "err"] (onOk "err" [.nz "blk"]) ;;
      ifR (nz "err") .skip ;;
      .invoke Fn.processConnectedBlock ;;
      ifR (nz "err") .skip) .skip) .skip ;;
  .call "fast-forward heights" ["st.ff"] [] ;;
  .loop "st.i" "st.ff" [] (
    .call "FetchBlockShaByHeight" ["sha", "err"] (onOk "err" [.nz "sha"]) ;;
    ifR (nz "err") .skip ;;
    Dt "*sha" "sha" ;;
    .call "SetSyncedTo" ["err"] [] ;;
    ifR (nz "err") .skip) ;;
  .call "catch-up heights" ["st.cu"] [] ;;
  .loop "st.j" "st.cu" [] (
    .call "FetchBlockByHeight" ["blk", "err"] (onOk "err" [.nz "blk"]) ;;
    ifR (nz "err") .skip ;;
    .invoke Fn.processConnectedBlock ;;
    ifR (nz "err") .skip) ;;
  .invoke Fn.initTaskChan ;;
  .set "err" (.k 0)

def f_Stop : Stmt := .invoke Fn.CloseDB

def f_handle : Stmt :=
  .call "events until quit" ["hd.n"] [] ;;
  .loop "hd.i" "hd.n" [] (
    .call "select" ["hd.kind"] [] ;;
    .ite (.atom (.eqk "hd.kind" 1)) (
      -- OnBlockConnected only enqueues the non-nil blocks the node announces
      .call "<-h.queueBlock" ["block"] (always [.nz "block"]) ;;
      .invoke Fn.processConnectedBlock ;;
      .ite (nz "err") (D "block" "Header") .skip)
    (.ite (.atom (.eqk "hd.kind" 2)) (
      .call "<-h.queueMsgTx" ["tx"] (always [.nz "tx"]) ;;
      .invoke Fn.proccessReceivedTx ;;
      .ite (nz "err") (D "tx" "TxHash") .skip) .skip))

def f_onRelevantTx : Stmt := .call "w.txStore.AddRelevantTx (unmined)" ["err"] []

def f_onRelevantBlockConnected : Stmt :=
  flag "len(relevantTxs) == 0" "orb.none" ;;
  ifR (nz "orb.none") (.set "err" (.k 0)) ;;
  .call "w.utxoStore.FetchAllMinedBalance" ["all", "err"] [] ;;
  ifR (nz "err") .skip ;;
  .set "walletBalances" (.k 1) ;;
  .loop "orb.i" "all" [.nz "walletBalances"] (
    flag "readyWallets[walletId]" "orb.r" ;;
    .ite (nz "orb.r") (MA "walletBalances[walletId]" "walletBalances") .skip) ;;
  .call "len(relevantTxs)" ["orb.n"] [] ;;
  .loop "orb.j" "orb.n" [] (
    .call "w.txStore.AddRelevantTx" ["err"] [] ;;
    ifR (nz "err") .skip) ;;
  .call "w.utxoStore.UpdateMinedBalances" ["err"] []

def f_filterTxForImporting : Stmt :=
  -- NewTxRecordFromMsgTx always returns a record and no error
  .call "txmgr.NewTxRecordFromMsgTx" ["rec", "err"] (always [.nz "rec", .z "err"]) ;;
  ifR (nz "err") (.set "rec" (.k 0)) ;;
  .set "fi.out" (.k 0) ;;        -- driver aid: 0 = in the TxIn loop, 1 = in the TxOut loop
  .set "cache" (.k 1) ;;
  flag "blockchain.IsCoinBaseTx(tx)" "fi.cb" ;;
  .call "len(tx.TxIn)" ["tx.TxIn"] [] ;;
  .ite (nz "fi.cb") .skip (
    .loop "fi.i" "tx.TxIn" [.nz "cache", .nz "rec"] (
      .call "cache[txIn.PreviousOutPoint.Hash]" ["prevTx", "prevTx.TxOut"] [] ;;
      .ite (isz "prevTx") (
        .call "w.chainFetcher.FetchLastTxUntilHeight" ["prevTx", "err", "prevTx.TxOut"] [] ;;
        ifR (nz "err") (.set "rec" (.k 0)) ;;
        ifR (isz "prevTx") (.set "rec" (.k 0) ;; .set "err" (.k E.other)) ;;
        MA "cache[txIn.PreviousOutPoint.Hash]" "cache") .skip ;;
      D "prevTx" "TxOut" ;;
      -- consensus: an input of a confirmed transaction names an existing output of its previous transaction
      .call "consensus: input refers to an existing output" ["vout"] (always [.lt "vout" "prevTx.TxOut"]) ;;
      IX "prevTx.TxOut[txIn.PreviousOutPoint.Index]" "vout" "prevTx.TxOut" ;;
      .call "prevTx.TxOut[i]" ["po"] (always [.nz "po"]) ;;
      Dt "prevTx.TxOut[txIn.PreviousOutPoint.Index] .PkScript" "po" ;;
      .call "utils.ParsePkScript" ["ps", "pserr", "pserr.unsupported"] (onOk "pserr" [.nz "ps"]) ;;
      .ite (nz "pserr") (
        -- an unsupported script is skipped: the transaction is still processed (no_stall)
        .ite (nz "pserr.unsupported") .skip (.set "rec" (.k 0) ;; .set "err" (.v "pserr") ;; .ret))
      (
        D "ps" "StdEncodeAddress" ;;
        .call "importingAddrMgr.Address" ["ma"] [] ;;
        .ite (nz "ma") (
          D "rec" "HasBindingIn" ;;
          D "ma" "Account") .skip))) ;;
  .set "fi.out" (.k 1) ;;
  .call "len(tx.TxOut)" ["tx.TxOut"] [] ;;
  .loop "fi.o" "tx.TxOut" [.nz "rec"] (
    .call "utils.ParsePkScript" ["ps", "pserr", "pserr.unsupported"] (onOk "pserr" [.nz "ps"]) ;;
    .ite (nz "pserr") (
      .ite (nz "pserr.unsupported") .skip (.set "rec" (.k 0) ;; .set "err" (.v "pserr") ;; .ret))
    (
      D "ps" "StdEncodeAddress" ;;
      .call "importingAddrMgr.Address" ["ma"] [] ;;
      .ite (nz "ma") (
        D "rec" "HasBindingOut" ;;
        D "ma" "Account") .skip)) ;;
  D "rec" "RelevantTxIn" ;;
  flag "no relevant input or output" "fi.none" ;;
  ifR (nz "fi.none") (.set "rec" (.k 0) ;; .set "err" (.k 0)) ;;
  flag "rec.HasBindingIn && rec.HasBindingOut" "fi.both" ;;
  ifR (nz "fi.both") (.set "rec" (.k 0) ;; .set "err" (.k E.other)) ;;
  .set "err" (.k 0)

/-- one step of filterTx's output loop: an unsupported script is skipped (`continue`), any other parse
    error and a keystore error leave filterTx with that error (MW.Props.C19.no_stall_*) -/
def filterTxOutStep : Stmt :=
  .call "utils.ParsePkScript" ["ps", "pserr", "pserr.unsupported"] (onOk "pserr" [.nz "ps"]) ;;
  .ite (nz "pserr") (
    .ite (nz "pserr.unsupported") .skip (.set "err" (.v "pserr") ;; .ret))
  (
    D "ps" "StdScriptAddress" ;;
    .call "w.ksmgr.GetManagedAddressByScriptHash" ["ma", "merr"] [] ;;
    ifR (nz "merr") (.set "err" (.v "merr")) ;;
    .ite (nz "ma") (D "ma" "Account") .skip)

/-- filterTx; callers set `blockMeta` (0 for an unconfirmed transaction) and `recInCurBlk`
    (a made map whenever blockMeta ≠ nil) -/
def f_filterTx : Stmt :=
  .call "txmgr.NewTxRecordFromMsgTx" ["rec", "err"] (always [.nz "rec", .z "err"]) ;;
  .ite (nz "err") (D "rec" "Hash" ;; .ret) .skip ;;
  .ite (nz "blockMeta") (D "rec" "Hash" ;; MA "recInCurBlk[rec.Hash]" "recInCurBlk") .skip ;;
  D "rec" "Hash" ;;
  flag "h.mempool[rec.Hash]" "ft.known" ;;
  ifR (.and (nz "ft.known") (isz "blockMeta")) (.set "err" (.k 0) ;; .set "isRelevant" (.k 0)) ;;
  .set "ft.out" (.k 0) ;;        -- driver aid (as `cur.in`): 0 = in the TxIn loop, 1 = in the TxOut loop
  .set "cache" (.k 1) ;;
  flag "blockchain.IsCoinBaseTx(tx)" "ft.cb" ;;
  .call "len(tx.TxIn)" ["tx.TxIn"] [] ;;
  .ite (nz "ft.cb") .skip (
    .loop "ft.i" "tx.TxIn" [.nz "cache", .nz "rec"] (
      .scope (
        .call "cache[txIn.PreviousOutPoint.Hash]" ["prevTx", "prevTx.TxOut"] [] ;;
        .ite (.and (isz "prevTx") (nz "blockMeta")) (
          -- recInCurBlk holds the records stored above (non-nil)
          .call "recInCurBlk[txIn.PreviousOutPoint.Hash]" ["bro", "ok", "prevTx.TxOut"] [⟨[.nz "ok"], [.nz "bro"]⟩] ;;
          .ite (nz "ok") (D "bro" "MsgTx" ;; .set "prevTx" (.k 1)) (
            flag "ExistCreditFromTx" "ft.exist" ;;
            ifR (isz "ft.exist") .skip)) .skip ;;       -- `continue`: leaves this iteration
        .ite (isz "prevTx") (
          .call "w.chainFetcher.FetchTxBySha" ["prevTx", "ferr", "prevTx.TxOut"] [] ;;
          ifR (nz "ferr") (.set "err" (.v "ferr") ;; .set "ft.abort" (.k 1)) ;;
          .ite (isz "prevTx") (
            .invoke Fn.existsUnminedTx ;;
            .ite (.and (nz "perr") (isz "perr.notfound")) (.set "err" (.v "perr") ;; .set "ft.abort" (.k 1) ;; .ret) .skip) .skip) .skip ;;
        .ite (isz "prevTx") (
          .set "fields" (.k 1) ;;
          .ite (nz "blockMeta") (
            MA "fields[\"block\"]" "fields" ;;
            MA "fields[\"height\"]" "fields" ;;
            .set "err" (.k E.other) ;; .set "ft.abort" (.k 1) ;; .ret) .skip ;;
          .set "err" (.k E.other) ;; .set "ft.abort" (.k 1) ;; .ret)
        (
          D "prevTx" "TxOut" ;;
          .call "txIn.PreviousOutPoint.Index" ["vout"] [] ;;
          ifR (.atom (.le "prevTx.TxOut" "vout")) (.set "err" (.k E.other) ;; .set "ft.abort" (.k 1)) ;;
          MA "cache[txIn.PreviousOutPoint.Hash]" "cache") ;;
        D "prevTx" "TxOut" ;;
        IX "prevTx.TxOut[txIn.PreviousOutPoint.Index]" "vout" "prevTx.TxOut" ;;
        .call "prevTx.TxOut[i]" ["po"] (always [.nz "po"]) ;;
        Dt "prevTx.TxOut[txIn.PreviousOutPoint.Index] .PkScript" "po" ;;
        .call "utils.ParsePkScript" ["ps", "pserr", "pserr.unsupported"] (onOk "pserr" [.nz "ps"]) ;;
        .ite (nz "pserr") (
          -- an unsupported script is skipped, the block is still processed (no_stall; C16)
          .ite (nz "pserr.unsupported") .ret (.set "err" (.v "pserr") ;; .set "ft.abort" (.k 1) ;; .ret)) .skip ;;
        D "ps" "StdScriptAddress" ;;
        .call "w.ksmgr.GetManagedAddressByScriptHash" ["ma", "merr"] [] ;;
        ifR (nz "merr") (.set "err" (.v "merr") ;; .set "ft.abort" (.k 1)) ;;
        .ite (nz "ma") (D "ma" "Account") .skip) ;;
      -- a `return` inside the iteration leaves filterTx
      ifR (nz "ft.abort") .skip)) ;;
  .set "ft.out" (.k 1) ;;
  .call "len(tx.TxOut)" ["tx.TxOut"] [] ;;
  .loop "ft.o" "tx.TxOut" [.nz "rec"] filterTxOutStep ;;
  flag "no relevant input or output" "ft.none" ;;
  ifR (nz "ft.none") (.set "err" (.k 0) ;; .set "isRelevant" (.k 0)) ;;
  flag "rec.HasBindingIn && rec.HasBindingOut" "ft.both" ;;
  ifR (nz "ft.both") (.set "err" (.k E.other)) ;;
  .ite (isz "blockMeta") (
    .invoke Fn.onRelevantTx ;;
    ifR (nz "err") .skip ;;
    -- h.mempool is made by NewNtfnsHandler
    .call "h.mempool" ["h.mempool"] (always [.nz "h.mempool"]) ;;
    MA "h.mempool[rec.Hash]" "h.mempool") .skip ;;
  .set "isRelevant" (.k 1) ;;
  .set "err" (.k 0)

def f_filterBlock : Stmt :=
  .call "w.chainFetcher.FetchBlockLocByHeight" ["blockMeta.Loc", "err"] (onOk "err" [.nz "blockMeta.Loc"]) ;;
  ifR (nz "err") .skip ;;
  SL "blockMeta.Loc.Hash[:]" none ;;
  SL "blockMeta.Hash[:]" none ;;
  flag "!bytes.Equal(loc hash, block hash)" "fb.ne" ;;
  ifR (nz "fb.ne") (.set "err" (.k E.other)) ;;
  -- massutil.Block.TxLoc returns one location per transaction of the block
  .call "massutil.NewBlock(block).TxLoc()" ["txLocs", "block.Transactions", "err"] (onOk "err" [.eqv "txLocs" "block.Transactions"]) ;;
  ifR (nz "err") .skip ;;
  .set "confirmedTxs" (.k 1) ;;
  flag "len(readyWallets) > 0" "fb.ready" ;;
  .ite (nz "fb.ready") (
    .set "recInCurBlk" (.k 1) ;;
    .set "blockMeta" (.k 1) ;;
    .loop "i" "block.Transactions" [.nz "confirmedTxs", .nz "recInCurBlk", .nz "blockMeta", .eqv "txLocs" "block.Transactions"] (
      .invoke Fn.filterTx ;;
      ifR (nz "err") .skip ;;
      .ite (nz "isRelevant") (
        IX "txLocs[i]" "i" "txLocs" ;;
        -- isRelevant ⇒ filterTx returned its record
        .call "rec of a relevant transaction" ["rec"] (always [.nz "rec"]) ;;
        D "rec" "TxLoc" ;;
        MA "confirmedTxs[rec.Hash]" "confirmedTxs") .skip)) .skip ;;
  -- addedExpireMempool is made by processConnectedBlock
  .call "addedExpireMempool" ["addedExpireMempool"] (always [.nz "addedExpireMempool"]) ;;
  MA "addedExpireMempool[block.Header.Height]" "addedExpireMempool" ;;
  .invoke Fn.onRelevantBlockConnected ;;
  ifR (nz "err") .skip ;;
  -- a transaction that is not relevant itself may still double-spend an unmined one; the elements of
  -- irrelevantTxs are transactions of the (decoded) block: non-nil
  .call "len(irrelevantTxs)" ["fb.irr"] [] ;;
  .loop "fb.j" "fb.irr" [] (
    .call "range irrelevantTxs" ["fb.tx"] (always [.nz "fb.tx"]) ;;
    .call "w.txStore.RemoveUnminedConflicts" ["err"] [] ;;
    ifR (nz "err") (Dt "tx .TxHash" "fb.tx")) ;;
  .call "w.syncStore.SetSyncedTo" ["err"] []

def f_disconnectBlock : Stmt :=
  flag "height == 0" "db.g" ;;
  ifR (nz "db.g") (.set "err" (.k E.other)) ;;
  .call "w.syncStore.SyncedTo" ["syncedTo", "err"] (onOk "err" [.nz "syncedTo"]) ;;
  ifR (nz "err") .skip ;;
  D "syncedTo" "Height" ;;
  flag "height > syncedTo.Height" "db.above" ;;
  ifR (nz "db.above") (.set "err" (.k 0)) ;;
  .call "w.txStore.Rollback" ["err"] [] ;;
  ifR (nz "err") .skip ;;
  .call "w.syncStore.ResetSyncedTo" ["err"] [] ;;
  ifR (nz "err") .skip ;;
  .call "w.syncStore.GetAllWalletStatus" ["wss", "err"] [] ;;
  ifR (nz "err") .skip ;;
  .loop "db.i" "wss" [] (
    .call "range wss" ["ws"] (always [.nz "ws"]) ;;
    D "ws" "Ready" ;;
    flag "ws.Ready()" "db.r" ;;
    .ite (nz "db.r") .skip (
      .call "w.syncStore.PutWalletStatus" ["err"] [] ;;
      ifR (nz "err") .skip)) ;;
  .set "err" (.k 0)

def f_reorg : Stmt :=
  -- rollbackBlock / addedExpireMempool are made by processConnectedBlock; newBest is the announced block
  .call "maps made by the caller" ["rollbackBlock"] (always [.nz "rollbackBlock"]) ;;
  .call "step 1: blocks to walk back" ["ro.n1"] [] ;;
  .loop "ro.i" "ro.n1" [.nz "rollbackBlock"] (
    .invoke Fn.getBlock ;;
    ifR (nz "err") .skip ;;
    ifR (isz "blk") (.set "err" (.k E.other))) ;;
  flag "currentBest.Hash != newBest.BlockHash()" "ro.fork" ;;
  .ite (nz "ro.fork") (
    .call "blocks above the new height" ["ro.n2"] [] ;;
    .loop "ro.j" "ro.n2" [.nz "rollbackBlock"] (
      .invoke Fn.disconnectBlock ;;
      ifR (nz "err") .skip ;;
      MA "rollbackBlock[currentBest.Height]" "rollbackBlock") ;;
    .call "w.syncStore.SyncedBlock" ["bm", "err"] [] ;;
    ifR (nz "err") .skip ;;
    ifR (isz "bm") (.set "err" (.k E.other)) ;;
    Dt "*bm" "bm" ;;
    flag "currentBest.Hash != newBest.BlockHash()" "ro.fork2" ;;
    .ite (nz "ro.fork2") (
      .call "w.syncStore.SyncedBlock" ["currentPrev", "err"] [] ;;
      ifR (nz "err") .skip ;;
      ifR (isz "currentPrev") (.set "err" (.k E.other)) ;;
      -- newTailBlock := newBest (the announced block or one returned non-nil by getBlock above)
      .call "newTailBlock := newBest" ["newTailBlock"] (always [.nz "newTailBlock"]) ;;
      D "newTailBlock" "Header" ;;
      D "currentPrev" "Hash" ;;
      .call "walk-back rounds" ["ro.n3"] [] ;;
      .loop "ro.k" "ro.n3" [.nz "rollbackBlock", .nz "newTailBlock", .nz "currentPrev"] (
        .invoke Fn.disconnectBlock ;;
        ifR (nz "err") .skip ;;
        MA "rollbackBlock[currentPrev.Height+1]" "rollbackBlock" ;;
        .call "w.syncStore.SyncedBlock" ["currentPrev", "err"] [] ;;
        ifR (nz "err") .skip ;;
        ifR (isz "currentPrev") (.set "err" (.k E.other)) ;;
        .invoke Fn.getBlock ;;
        ifR (nz "err") .skip ;;
        ifR (isz "blk") (.set "err" (.k E.other)) ;;
        .set "newTailBlock" (.v "blk")) ;;
      D "currentPrev" "Height" ;;
      .invoke Fn.disconnectBlock ;;
      ifR (nz "err") .skip ;;
      MA "rollbackBlock[currentPrev.Height+1]" "rollbackBlock") .skip) .skip ;;
  .invoke Fn.getReadyWallets ;;
  ifR (nz "err") .skip ;;
  .call "blocks to connect" ["ro.n4"] [] ;;
  .loop "ro.l" "ro.n4" [] (
    -- the loop runs while Front() != nil; only *wire.MsgBlock values were pushed (tag 1)
    .call "blocksToConnect.Front()" ["front", "front.Value"] (always [.nz "front", .eqk "front.Value" 1]) ;;
    Dt "blocksToConnect.Front() .Value" "front" ;;
    .site "assert" "blocksToConnect.Front().Value.(*wire.MsgBlock)" (some (.eqk "front.Value" 1)) ;;
    .invoke Fn.filterBlock ;;
    ifR (nz "err") .skip) ;;
  .set "err" (.k 0)

def f_initTaskChan : Stmt :=
  .scope (
    .call "w.syncStore.GetAllWalletStatus" ["wss", "err"] [] ;;
    ifR (nz "err") .skip ;;
    .loop "itc.i" "wss" [] (
      .call "range wss" ["ws"] (always [.nz "ws"]) ;;
      D "ws" "SyncedHeight"))

def f_worker : Stmt :=
  .call "tasks until quit" ["wk.n"] [] ;;
  .loop "wk.i" "wk.n" [] (
    flag "task.taskType == WalletTaskImport" "wk.imp" ;;
    .ite (nz "wk.imp") (.invoke Fn.asyncImport)
      (.invoke Fn.asyncRemove))

def f_asyncImport : Stmt :=
  .call "w.ksmgr.GetAddrManagerByAccountID" ["addrmgr", "err"] (onOk "err" [.nz "addrmgr"]) ;;
  ifR (nz "err") .skip ;;
  D "addrmgr" "ManagedAddresses" ;;
  .call "len(mas)" ["mas"] [] ;;
  .loop "ai.i" "mas" [] (
    .call "range mas" ["ma"] (always [.nz "ma"]) ;;
    D "ma" "ScriptAddress") ;;
  .invoke Fn.suspend ;;
  ifR (isz "suspended") (.set "err" (.k E.other)) ;;
  .set "heightAdded" (.k 1) ;;
  .scope (
    .call "w.syncStore.GetWalletStatus" ["ws", "err"] (onOk "err" [.nz "ws"]) ;;
    ifR (nz "err") .skip ;;
    .call "w.utxoStore.GrossBalance" ["err"] [] ;;
    ifR (nz "err") .skip ;;
    D "ws" "SyncedHeight" ;;
    flag "stop > ws.SyncedHeight" "ai.more" ;;
    .ite (nz "ai.more") (
      .call "fetcher.FetchBlockShaByHeight" ["sha", "err", "err.notfound"] [] ;;
      ifR (.and (nz "err") (isz "err.notfound")) .skip ;;
      .call "w.syncStore.SyncedBlock" ["synced", "err"] [] ;;
      ifR (nz "err") .skip ;;
      -- `sha == nil || synced == nil || *sha != synced.Hash` → ErrImportingContinuable
      ifR (.or (isz "sha") (isz "synced")) (.set "err" (.k E.other)) ;;
      Dt "*sha" "sha" ;;
      D "synced" "Hash" ;;
      flag "*sha != synced.Hash" "ai.diff" ;;
      ifR (nz "ai.diff") (.set "err" (.k E.other))) .skip ;;
    .call "fetcher.FetchScriptHashRelatedTx" ["result", "err"] (onOk "err" [.nz "result"]) ;;
    ifR (nz "err") .skip ;;
    D "result" "Heights" ;;
    .call "len(result.Heights())" ["ai.h"] [] ;;
    .loop "ai.j" "ai.h" [.nz "heightAdded"] (
      .scope (
        .call "len(txlocs)" ["txlocs"] [] ;;
        ifR (isz "txlocs") .skip ;;
        .call "fetcher.FetchBlockHeaderByHeight" ["header", "err"] [] ;;
        ifR (nz "err") (.set "ai.abort" (.k 1)) ;;
        ifR (isz "header") (.set "err" (.k E.other) ;; .set "ai.abort" (.k 1)) ;;
        D "header" "BlockHash" ;;
        .call "w.chainFetcher.FetchBlockLocByHeight" ["blockMeta.Loc", "err"] (onOk "err" [.nz "blockMeta.Loc"]) ;;
        ifR (nz "err") (.set "ai.abort" (.k 1)) ;;
        SL "blockMeta.Loc.Hash[:]" none ;;
        SL "blockMeta.Hash[:]" none ;;
        flag "!bytes.Equal(loc hash, block hash)" "ai.ne" ;;
        ifR (nz "ai.ne") (.set "err" (.k E.other) ;; .set "ai.abort" (.k 1)) ;;
        .loop "ai.k" "txlocs" [.nz "heightAdded"] (
          .scope (
            .call "fetcher.FetchTxByLoc" ["msg", "err"] (onOk "err" [.nz "msg"]) ;;
            ifR (nz "err") (.set "ai.abort" (.k 1)) ;;
            .invoke Fn.filterTxForImporting ;;
            ifR (nz "err") (.set "ai.abort" (.k 1)) ;;
            -- not relevant (only unsupported scripts of the wallet's addresses): skipped
            .ite (isz "rec") (D "msg" "TxHash" ;; .ret) .skip ;;
            D "rec" "TxLoc" ;;
            .call "w.txStore.AddRelevantTxForImporting" ["err"] [] ;;
            ifR (nz "err") (.set "ai.abort" (.k 1)) ;;
            D "msg" "TxHash") ;;
          ifR (nz "ai.abort") .skip) ;;
        ifR (nz "ai.abort") .skip ;;
        flag "height is older than MaxMemPoolExpire" "ai.old" ;;
        .ite (nz "ai.old") .skip (MA "heightAdded[height]" "heightAdded")) ;;
      ifR (nz "ai.abort") .skip) ;;
    .call "w.utxoStore.UpdateMinedBalances" ["err"] [] ;;
    ifR (nz "err") .skip ;;
    .call "w.syncStore.PutWalletStatus" ["err"] []) ;;
  .invoke Fn.resume ;;
  ifR (nz "err") .skip ;;
  .call "len(heightAdded)" ["ai.n"] [] ;;
  -- h.expiredMempool is made by NewNtfnsHandler
  .call "h.expiredMempool" ["h.expiredMempool"] (always [.nz "h.expiredMempool"]) ;;
  .loop "ai.l" "ai.n" [.nz "h.expiredMempool"] (
    -- `m, ok := h.expiredMempool[height]; if !ok { m = make(...) }`: m is a made map either way
    .call "h.expiredMempool[height] or a new map" ["m"] (always [.nz "m"]) ;;
    .call "len(added)" ["ai.a"] [] ;;
    .loop "ai.m" "ai.a" [.nz "m", .nz "h.expiredMempool"] (MA "m[hash]" "m") ;;
    MA "h.expiredMempool[height]" "h.expiredMempool") ;;
  .set "err" (.k 0)

def f_asyncRemove : Stmt :=
  .call "w.ksmgr.GetAddrManagerByAccountID" ["am", "err"] [] ;;
  ifR (nz "err") (.set "err" (.k 0)) ;;
  .call "removal rounds" ["ar.n"] [] ;;
  .loop "ar.i" "ar.n" [] (
    .invoke Fn.suspend ;;
    ifR (isz "suspended") (.set "err" (.k E.other)) ;;
    .call "w.txStore.RemoveRelevantTx" ["err", "finish"] [] ;;
    -- the records keyed by the wallet id go in the same transaction as the keystore
    .ite (nz "finish") (
      .invoke Fn.removeWalletIndexes ;;
      .ite (isz "err") (.call "w.syncStore.DeleteWalletStatus, w.ksmgr.DeleteKeystore" ["err"] []) .skip) .skip ;;
    .invoke Fn.resume ;;
    ifR (nz "err") .skip ;;
    .invoke Fn.RemoveMempoolTx ;;
    ifR (nz "finish") (.set "err" (.k 0))) ;;
  .set "err" (.k E.other)

/-- unspent index, address records, staking/binding histories and the balance of a wallet -/
def f_removeWalletIndexes : Stmt :=
  .call "w.utxoStore.RemoveUnspentByWalletId" ["err"] [] ;;
  ifR (nz "err") .skip ;;
  .call "w.utxoStore.RemoveAddressByWalletId" ["err"] [] ;;
  ifR (nz "err") .skip ;;
  .call "w.utxoStore.RemoveGameHistoryByWalletId" ["err"] [] ;;
  ifR (nz "err") .skip ;;
  .call "w.utxoStore.RemoveMinedBalance" ["err"] []

def f_OnImportWallet : Stmt := .skip

def f_OnRemoveWallet : Stmt :=
  .scope (
    .call "w.syncStore.GetWalletStatus" ["ws", "err"] (onOk "err" [.nz "ws"]) ;;
    ifR (nz "err") .skip ;;
    D "ws" "Ready" ;;
    flag "ws.Ready()" "orw.r" ;;
    ifR (isz "orw.r") (.set "err" (.k E.walletUnready)) ;;
    .call "w.syncStore.MarkDeleteWallet" ["err"] [])

def f_IsWorkerBusy : Stmt := flag "h.taskChan.IsBusy()" "busy"

def f_RemoveMempoolTx : Stmt := .skip

def f_processConnectedBlock : Stmt :=
  .set "rollbackBlock" (.k 1) ;;
  .set "addedExpireMempool" (.k 1) ;;
  .scope (
    flag "newBlock.Header.Previous == bestBlock.Hash" "pcb.ext" ;;
    .ite (nz "pcb.ext") (
      .invoke Fn.getReadyWallets ;;
      ifR (nz "err") .skip ;;
      .invoke Fn.filterBlock)
    (.invoke Fn.reorg)) ;;
  .ite (isz "err") (
    -- h.mempool / h.expiredMempool are made by NewNtfnsHandler
    .call "h.mempool, h.expiredMempool" ["h.mempool", "h.expiredMempool"] (always [.nz "h.mempool", .nz "h.expiredMempool"]) ;;
    .call "len(rollbackBlock)" ["pcb.r"] [] ;;
    .loop "pcb.i" "pcb.r" [.nz "h.mempool", .nz "h.expiredMempool"] (
      .call "len(blk)" ["pcb.b"] [] ;;
      .loop "pcb.j" "pcb.b" [.nz "h.mempool", .nz "h.expiredMempool"] (MA "h.mempool[txHash]" "h.mempool")) ;;
    .call "len(addedExpireMempool)" ["pcb.a"] [] ;;
    .loop "pcb.k" "pcb.a" [.nz "h.mempool", .nz "h.expiredMempool"] (MA "h.expiredMempool[height]" "h.expiredMempool")) .skip

/-- proccessReceivedTx below its sync-height gate (the gate needs a live netsync.SyncManager): what the hook
    VerifProcessTx runs and what the differential driver executes for `recvtx` -/
def recvTxTail : Stmt :=
  .scope (.invoke Fn.getReadyWallets) ;;
  ifR (nz "err") .skip ;;
  .set "blockMeta" (.k 0) ;;
  .set "recInCurBlk" (.k 0) ;;
  .invoke Fn.filterTx

def f_proccessReceivedTx : Stmt :=
  .invoke Fn.ChainIndexerSyncedHeight ;;
  -- a live node provides its SyncManager
  .call "h.walletMgr.server.SyncManager()" ["sm"] (always [.nz "sm"]) ;;
  Dt "h.walletMgr.server.SyncManager() .BestPeer" "sm" ;;
  .call "BestPeer()" ["bestPeer"] [] ;;
  .ite (nz "bestPeer") (
    D "bestPeer" "Height" ;;
    flag "bestPeer.Height > knownBestHeight" "prt.h" ;;
    .ite (nz "prt.h") (D "bestPeer" "Height") .skip) .skip ;;
  .invoke Fn.SyncedTo ;;
  flag "syncHeight < knownBestHeight-1" "prt.behind" ;;
  ifR (nz "prt.behind") (.set "err" (.k 0)) ;;
  recvTxTail

def f_getBlock : Stmt := .call "w.chainFetcher.FetchBlockBySha" ["blk", "err"] []
def f_OnBlockConnected : Stmt := .skip
def f_OnTransactionReceived : Stmt := .skip
def f_suspend : Stmt := flag "suspend()" "suspended"
def f_resume : Stmt := .skip

def f_getReadyWallets : Stmt :=
  .set "readyWallets" (.k 1) ;;
  .call "len(w.ksmgr.ListKeystoreNames())" ["grw.n"] [] ;;
  .loop "grw.i" "grw.n" [.nz "readyWallets"] (
    .call "w.syncStore.GetWalletStatus" ["ws", "err"] (onOk "err" [.nz "ws"]) ;;
    ifR (nz "err") .skip ;;
    D "ws" "Ready" ;;
    flag "ws.Ready() && !ws.IsRemoved()" "grw.r" ;;
    .ite (nz "grw.r") (MA "readyWallets[name]" "readyWallets") .skip) ;;
  .set "err" (.k 0)

def f_Recover : Stmt := .skip

-- ==================================================================== the table

/-- the hand-written skeletons, keyed by the generated position constants `Fn.*` (MW.Gen.ApiFn). A function
    of the anchored files that is not listed here has the empty skeleton – right exactly when the extractor
    finds no site in it (`sites_match`), so a new function without partial operations needs no entry. -/
def bodies : List (Nat × Stmt) := [
  (Fn.AutoCreateTransaction, f_AutoCreateTransaction),
  (Fn.CheckPoolPkCoinbase, f_CheckPoolPkCoinbase),
  (Fn.CheckTargetBinding, f_CheckTargetBinding),
  (Fn.CreateBindingTransaction_tx_service, f_CreateBindingTransaction_api),
  (Fn.CreatePoolPkCoinbaseTransaction, f_CreatePoolPkCoinbaseTransaction),
  (Fn.CreateRawTransaction_tx_service, f_CreateRawTransaction_api),
  (Fn.CreateStakingTransaction_tx_service, f_CreateStakingTransaction_api),
  (Fn.DecodeRawTransaction, f_DecodeRawTransaction),
  (Fn.GetBindingHistory_tx_service, f_GetBindingHistory_api),
  (Fn.GetNetworkBinding, f_GetNetworkBinding),
  (Fn.GetRawTransaction, f_GetRawTransaction),
  (Fn.GetStakingHistory_tx_service, f_GetStakingHistory_api),
  (Fn.GetTransactionFee, f_GetTransactionFee),
  (Fn.GetTxStatus, f_GetTxStatus),
  (Fn.SendRawTransaction, f_SendRawTransaction),
  (Fn.TxHistory, f_TxHistory),
  (Fn.buildDecodeRawTxResponse, f_buildDecodeRawTxResponse),
  (Fn.createTxRawResult, f_createTxRawResult),
  (Fn.createVinList, f_createVinList),
  (Fn.getStatus, f_getStatus),
  (Fn.createVoutList, f_createVoutList),
  (Fn.getEstimateStakingAddress, f_getEstimateStakingAddress),
  (Fn.messageToHex_tx_service, f_messageToHex_api),
  (Fn.mockBindingTarget, f_mockBindingTarget),
  (Fn.witnessToHex, f_witnessToHex),
  (Fn.AmountToString_util, f_AmountToString),
  (Fn.StringToAmount, f_StringToAmount),
  (Fn.checkAddressLen, f_checkAddressLen),
  (Fn.checkFormatAmount, f_checkFormatAmount),
  (Fn.checkLocktime, f_checkLocktime),
  (Fn.checkMnemonicLen, f_checkMnemonicLen),
  (Fn.checkNotEmpty, f_checkNotEmpty),
  (Fn.checkParseAmount, f_checkParseAmount),
  (Fn.checkPassLen, f_checkPassLen),
  (Fn.checkRemarksLen, f_checkRemarksLen),
  (Fn.checkTransactionIdLen, f_checkTransactionIdLen),
  (Fn.checkTxFeeLimit, f_checkTxFeeLimit),
  (Fn.releaseDraft, f_releaseDraft),
  (Fn.checkWalletIdLen, f_checkWalletIdLen),
  (Fn.checkWitnessAddress, f_checkWitnessAddress),
  (Fn.convertResponseError, f_convertResponseError),
  (Fn.extractAddressInfos, f_extractAddressInfos),
  (Fn.isEmpty, f_isEmpty),
  (Fn.parseBindingTarget, f_parseBindingTarget),
  (Fn.CreateAddress, f_CreateAddress),
  (Fn.CreateWallet_wallet_service, f_CreateWallet_api),
  (Fn.ExportWallet_wallet_service, f_ExportWallet_api),
  (Fn.GetAddressBalance, f_GetAddressBalance),
  (Fn.GetAddresses_wallet_service, f_GetAddresses_api),
  (Fn.GetClientStatus, f_GetClientStatus),
  (Fn.GetUtxo_wallet_service, f_GetUtxo_api),
  (Fn.GetWalletBalance, f_GetWalletBalance),
  (Fn.GetWalletMnemonic, f_GetWalletMnemonic),
  (Fn.ImportMnemonic, f_ImportMnemonic),
  (Fn.ImportWallet_wallet_service, f_ImportWallet_api),
  (Fn.QuitClient, f_QuitClient),
  (Fn.RemoveWallet_wallet_service, f_RemoveWallet_api),
  (Fn.SignRawTransaction, f_SignRawTransaction),
  (Fn.UseWallet_wallet_service, f_UseWallet_api),
  (Fn.ValidateAddress, f_ValidateAddress),
  (Fn.Wallets_wallet_service, f_Wallets_api),
  (Fn.decodeHexStr, f_decodeHexStr),
  (Fn.AmountToString_common, f_AmountToString),
  (Fn.PayToWitnessV0Address, f_PayToWitnessV0Address),
  (Fn.addTxIn, f_addTxIn),
  (Fn.autoConstructTxInAndChangeTxOut, f_autoConstructTxInAndChangeTxOut),
  (Fn.existsMsgTx, f_existsMsgTx),
  (Fn.existsOutPoint, f_existsOutPoint),
  (Fn.existsUnminedTx, f_existsUnminedTx),
  (Fn.prepareFromAddresses, f_prepareFromAddresses),
  (Fn.amountToTxOut, f_amountToTxOut),
  (Fn.maybeSubtractFeeFromAmounts, f_maybeSubtractFeeFromAmounts),
  (Fn.NewNtfnsHandler, f_NewNtfnsHandler),
  (Fn.IsWorkerBusy, f_IsWorkerBusy),
  (Fn.OnBlockConnected, f_OnBlockConnected),
  (Fn.OnImportWallet, f_OnImportWallet),
  (Fn.OnRemoveWallet, f_OnRemoveWallet),
  (Fn.OnTransactionReceived, f_OnTransactionReceived),
  (Fn.RemoveMempoolTx, f_RemoveMempoolTx),
  (Fn.Start_ntfnshandler, f_Start),
  (Fn.Stop_ntfnshandler, f_Stop),
  (Fn.asyncImport, f_asyncImport),
  (Fn.asyncRemove, f_asyncRemove),
  (Fn.removeWalletIndexes, f_removeWalletIndexes),
  (Fn.disconnectBlock, f_disconnectBlock),
  (Fn.filterBlock, f_filterBlock),
  (Fn.filterTx, f_filterTx),
  (Fn.filterTxForImporting, f_filterTxForImporting),
  (Fn.getBlock, f_getBlock),
  (Fn.getReadyWallets, f_getReadyWallets),
  (Fn.initTaskChan, f_initTaskChan),
  (Fn.onRelevantBlockConnected, f_onRelevantBlockConnected),
  (Fn.onRelevantTx, f_onRelevantTx),
  (Fn.proccessReceivedTx, f_proccessReceivedTx),
  (Fn.processConnectedBlock, f_processConnectedBlock),
  (Fn.reorg, f_reorg),
  (Fn.resume, f_resume),
  (Fn.suspend, f_suspend),
  (Fn.Recover, f_Recover),
  (Fn.handle, f_handle),
  (Fn.worker, f_worker),
  (Fn.EstimateBindingTxFee, f_EstimateBindingTxFee),
  (Fn.EstimateManualTxFee, f_EstimateManualTxFee),
  (Fn.EstimateStakingTxFee, f_EstimateStakingTxFee),
  (Fn.EstimateTxFee, f_EstimateTxFee),
  (Fn.GetTxHistory, f_GetTxHistory),
  (Fn.SignHash, f_SignHash),
  (Fn.constructTxIn, f_constructTxIn),
  (Fn.constructTxOut, f_constructTxOut),
  (Fn.estimateSignedSize, f_estimateSignedSize),
  (Fn.findEligibleUtxos, f_findEligibleUtxos),
  (Fn.getUtxos, f_getUtxos),
  (Fn.getUtxosExcludeBindingAndStaking, f_getUtxosExcludeBindingAndStaking),
  (Fn.signWitnessTx, f_signWitnessTx),
  (Fn.constructStakingTxOut, f_constructStakingTxOut),
  (Fn.messageToHex_tx, f_messageToHex),
  (Fn.optOutputs, f_optOutputs),
  (Fn.selectRelatedTx, f_selectRelatedTx),
  (Fn.NewWalletManager, f_NewWalletManager),
  (Fn.AddressBalance, f_AddressBalance),
  (Fn.AutoCreateRawTransaction, f_AutoCreateRawTransaction),
  (Fn.ChainIndexerSyncedHeight, f_ChainIndexerSyncedHeight),
  (Fn.ChangePrivPassphrase, f_ChangePrivPassphrase),
  (Fn.CheckReady, f_CheckReady),
  (Fn.ClearUsedUTXOMark, f_ClearUsedUTXOMark),
  (Fn.CloseDB, f_CloseDB),
  (Fn.CountAll, f_CountAll),
  (Fn.CreateBindingTransaction_wallet, f_CreateBindingTransaction),
  (Fn.CreateRawTransaction_wallet, f_CreateRawTransaction),
  (Fn.CreateStakingTransaction_wallet, f_CreateStakingTransaction),
  (Fn.CreateWallet_wallet, f_CreateWallet),
  (Fn.CurrentWallet, f_CurrentWallet),
  (Fn.ExportWallet_wallet, f_ExportWallet),
  (Fn.GetAddresses_wallet, f_GetAddresses),
  (Fn.GetAllAddressesWithPubkey, f_GetAllAddressesWithPubkey),
  (Fn.GetBindingHistory_wallet, f_GetBindingHistory),
  (Fn.GetMnemonic, f_GetMnemonic),
  (Fn.GetStakingHistory_wallet, f_GetStakingHistory),
  (Fn.GetUtxo_wallet, f_GetUtxo),
  (Fn.ImportWallet_wallet, f_ImportWallet),
  (Fn.ImportWalletWithMnemonic, f_ImportWalletWithMnemonic),
  (Fn.IsAddressInCurrent, f_IsAddressInCurrent),
  (Fn.MarkUsedUTXO, f_MarkUsedUTXO),
  (Fn.NewAddress, f_NewAddress),
  (Fn.RemoveWallet_wallet, f_RemoveWallet),
  (Fn.SignRawTx, f_SignRawTx),
  (Fn.Start_wallet, f_Start_wm),
  (Fn.Stop_wallet, f_Stop_wm),
  (Fn.SyncedTo, f_SyncedTo),
  (Fn.UTXOUsed, f_UTXOUsed),
  (Fn.UseWallet_wallet, f_UseWallet),
  (Fn.WalletBalance, f_WalletBalance),
  (Fn.Wallets_wallet, f_Wallets),
  (Fn.checkInit, f_checkInit)]

def lookupFn : List (Nat × Stmt) → Nat → Option Stmt
  | [], _ => none
  | (g, s) :: r, f => if g == f then some s else lookupFn r f

def prog : Prog := fun f =>
  match lookupFn bodies f with
  | some s => some s
  | none => if f < Fn.count then some .skip else none

/-- (key, skeleton) of every anchored function, in table order -/
def progs : List (String × Stmt) := Fn.keys.zipIdx.map (fun p => (p.1, (prog p.2).getD .skip))

/-- the table position of every function key -/
def fnIndex : List (Nat × String) := Fn.keys.zipIdx.map (fun p => (p.2, p.1))

def fnOf (key : String) : Option Nat := (fnIndex.find? (fun p => p.2 == key)).map (·.1)

/-- the site table of the model -/
def siteTable : List (String × List (String × String)) := progs.map (fun p => (p.1, sites p.2))

/-- entry points: the gRPC handlers of the anchored files and the follower / worker / start-up paths -/
def roots : List String := [
  "api/wallet_service.go:APIServer.GetClientStatus", "api/wallet_service.go:APIServer.QuitClient",
  "api/wallet_service.go:APIServer.SignRawTransaction", "api/wallet_service.go:APIServer.CreateAddress",
  "api/wallet_service.go:APIServer.GetAddresses", "api/wallet_service.go:APIServer.ValidateAddress",
  "api/wallet_service.go:APIServer.GetWalletBalance", "api/wallet_service.go:APIServer.GetAddressBalance",
  "api/wallet_service.go:APIServer.UseWallet", "api/wallet_service.go:APIServer.Wallets",
  "api/wallet_service.go:APIServer.GetUtxo", "api/wallet_service.go:APIServer.ImportWallet",
  "api/wallet_service.go:APIServer.ImportMnemonic", "api/wallet_service.go:APIServer.CreateWallet",
  "api/wallet_service.go:APIServer.ExportWallet", "api/wallet_service.go:APIServer.RemoveWallet",
  "api/wallet_service.go:APIServer.GetWalletMnemonic",
  "api/tx_service.go:APIServer.GetTxStatus", "api/tx_service.go:APIServer.GetRawTransaction",
  "api/tx_service.go:APIServer.DecodeRawTransaction", "api/tx_service.go:APIServer.CreateRawTransaction",
  "api/tx_service.go:APIServer.CreateStakingTransaction", "api/tx_service.go:APIServer.CreateBindingTransaction",
  "api/tx_service.go:APIServer.CreatePoolPkCoinbaseTransaction", "api/tx_service.go:APIServer.AutoCreateTransaction",
  "api/tx_service.go:APIServer.GetTransactionFee", "api/tx_service.go:APIServer.TxHistory",
  "api/tx_service.go:APIServer.GetStakingHistory", "api/tx_service.go:APIServer.GetBindingHistory",
  "api/tx_service.go:APIServer.SendRawTransaction", "api/tx_service.go:APIServer.GetNetworkBinding",
  "api/tx_service.go:APIServer.CheckPoolPkCoinbase", "api/tx_service.go:APIServer.CheckTargetBinding",
  "masswallet/ntfnshandler.go:handle", "masswallet/ntfnshandler.go:worker",
  "masswallet/ntfnshandler.go:NtfnsHandler.processConnectedBlock", "masswallet/ntfnshandler.go:NtfnsHandler.proccessReceivedTx",
  "masswallet/ntfnshandler.go:NtfnsHandler.asyncImport", "masswallet/ntfnshandler.go:NtfnsHandler.asyncRemove",
  "masswallet/ntfnshandler.go:NewNtfnsHandler", "masswallet/wallet.go:WalletManager.Start", "masswallet/wallet.go:WalletManager.Stop",
  "masswallet/wallet.go:WalletManager.GetAllAddressesWithPubkey"]

def rootIds : List Nat := roots.filterMap fnOf

def handlerRoots : List String := roots.filter (fun r => r.startsWith "api/")
def followerRoots : List String := roots.filter (fun r => !r.startsWith "api/")

/-- fuel of the checker (depth of the deepest statement/call nesting, with slack) -/
def checkFuel : Nat := 400

/-- variables through which a function hands results to its caller (Go: return values and the fields of
    returned records). On return from `invoke` the checker forgets what it learned about every other variable
    the callee assigned – this only keeps the fact sets small, forgetting is always sound. -/
def resultVars : List Var := List.map V [
  "err", "out", "st.err", "ats.err", "sta.err", "cpa.err", "cfa.err", "cwa.err", "pbt.err", "ctf.err", "cal.err", "cwl.err",
  "ctl.err", "cml.err", "cpl.err", "cne.err", "cl.err", "eai.err", "dh.err", "cvo.err", "cvi.err", "gs.err", "ctr.err", "bd.err",
  "perr", "perr.notfound", "oerr", "witAddr", "target", "empty", "ready", "busy", "suspended", "cw.len", "info", "ws",
  "senders", "mtx", "msgTx", "selections", "res", "ret", "result", "rec", "isRelevant", "blk", "prevTx", "block",
  "prevTx.TxOut", "flags", "readyWallets", "histories", "decoded", "syncedTo", "utxos.sel"]

def exports : Nat → List Var := fun _ => resultVars

/-- variables through which a caller hands data to a function (Go: receiver state, parameters, and the
    loop positions / selectors the oracle reads). A callee is checked from the caller's facts about these
    (and the result variables) only. -/
def paramVars : List Var := List.map V [
  "inputs", "utxos", "vout", "am", "ks", "acct", "blockMeta", "recInCurBlk", "addrs", "witnessAddr", "tx.TxIn", "tx.TxOut",
  "cur.in", "amt.sel", "addr.sel", "empty.sel", "pbt.sel", "in.Amounts", "in.Outputs", "in.Addresses", "amounts", "cache",
  "rollbackBlock", "addedExpireMempool", "h.mempool", "h.expiredMempool", "msg", "tx", "block", "newTailBlock", "currentPrev"]

def imports : Nat → List Var := fun _ => paramVars ++ resultVars

/-- CLOSED functions: accepted by the checker from no assumptions at all (`closed_ok`, one proof per
    function) and none of their callers relies on a fact they establish (callers only test the returned
    error / flags). A call of a closed function is not re-checked at the call site. -/
def closedFns : List Nat := [
  Fn.AmountToString_util,
  Fn.AmountToString_common,
  Fn.StringToAmount,
  Fn.checkLocktime,
  Fn.checkParseAmount,
  Fn.checkFormatAmount,
  Fn.checkWitnessAddress,
  Fn.parseBindingTarget,
  Fn.checkTxFeeLimit,
  Fn.checkAddressLen,
  Fn.checkWalletIdLen,
  Fn.checkTransactionIdLen,
  Fn.checkMnemonicLen,
  Fn.checkPassLen,
  Fn.checkRemarksLen,
  Fn.extractAddressInfos,
  Fn.decodeHexStr,
  Fn.createVoutList,
  Fn.createVinList,
  Fn.getStatus,
  Fn.createTxRawResult,
  Fn.buildDecodeRawTxResponse,
  Fn.CheckReady,
  Fn.Wallets_wallet,
  Fn.CreateWallet_wallet,
  Fn.WalletBalance,
  Fn.AddressBalance,
  Fn.GetUtxo_wallet,
  Fn.NewAddress,
  Fn.GetAddresses_wallet,
  Fn.AutoCreateRawTransaction,
  Fn.CreateStakingTransaction_wallet,
  Fn.CreateBindingTransaction_wallet,
  Fn.SignRawTx,
  Fn.GetStakingHistory_wallet,
  Fn.GetBindingHistory_wallet,
  Fn.SyncedTo,
  Fn.IsAddressInCurrent,
  Fn.CurrentWallet,
  Fn.ChainIndexerSyncedHeight,
  Fn.constructTxOut,
  Fn.constructStakingTxOut,
  Fn.estimateSignedSize,
  Fn.findEligibleUtxos,
  Fn.getUtxos,
  Fn.getUtxosExcludeBindingAndStaking,
  Fn.optOutputs,
  Fn.EstimateManualTxFee,
  Fn.GetTxHistory,
  Fn.addTxIn,
  Fn.autoConstructTxInAndChangeTxOut,
  Fn.prepareFromAddresses,
  Fn.maybeSubtractFeeFromAmounts,
  Fn.PayToWitnessV0Address,
  Fn.amountToTxOut,
  Fn.onRelevantBlockConnected,
  Fn.filterTxForImporting,
  Fn.filterBlock,
  Fn.disconnectBlock,
  Fn.reorg,
  Fn.getReadyWallets,
  Fn.initTaskChan,
  Fn.asyncImport,
  Fn.asyncRemove,
  Fn.processConnectedBlock,
  Fn.proccessReceivedTx,
  Fn.RemoveWallet_wallet,
  Fn.ExportWallet_wallet,
  Fn.GetMnemonic]

def closed : Nat → Bool := fun f => closedFns.contains f

end MW.Model.Api
