/-
  C10 round 4 — the sequence number the wallet puts on a transaction input, and the consensus sequence lock
  of an input with that sequence number.   CORE-ONLY model (executed by MW.Drv.Led, op `wseq`).

  Go sources followed statement by statement:
  * masswallet/tx.go `constructTxIn` and masswallet/common.go `addTxIn` (the same switch; the extractor fact
    `MW.Gen.Vm.seqChoiceShape` checks that both functions still have exactly this shape):

        txIn := wire.NewTxIn(prevOut, nil)                 // Sequence = wire.MaxTxInSequenceNum
        if lockTime != 0 { txIn.Sequence = wire.MaxTxInSequenceNum - 1 }
        … prevHeight = block.Height (mined previous tx) | syncHeight + 1 (unmined)
        switch {
        case pks.IsStaking():                                              txIn.Sequence = pks.Maturity()
        case pks.IsBinding() && forks.EnforceMASSIP0002WarmUp(prevHeight): txIn.Sequence = consensus.MASSIP0002BindingLockedPeriod
        default:
        }

    `pks.IsBinding()` holds for BOTH binding templates (20-byte and 22-byte target); `pks.Maturity()` is
    `frozen period + 1` for a staking script (utils.ParsePkScript) — `Cls.maturity` of the ledger model.
  * mass-core blockchain/chain.go `calcSequenceLock` (per input) and blockchain/validate.go `SequenceLockActive`.
-/
import MW.Gen.Vm
import MW.Model.Ledger
namespace MW.Model.WithdrawSeq
open MW MW.Model.Ledger

/-- forks.EnforceMASSIP0002WarmUp: `blockHeight >= consensus.MASSIP0002WarmUpHeight` -/
def enforceWarmUp (h : Nat) : Bool := decide (h ≥ Gen.Vm.massip2WarmUpHeight)

/-- `wire.NewTxIn` followed by `if lockTime != 0 { txIn.Sequence = wire.MaxTxInSequenceNum - 1 }`.
    Why `MaxTxInSequenceNum - 1` : a transaction all of whose inputs carry `MaxTxInSequenceNum` is final
    whatever its lock time says (blockchain.IsFinalizedTransaction), so a draft WITH a lock time needs a
    sequence ≠ MaxTxInSequenceNum to keep the lock-time field effective; `2^64 − 2` still has the disable bit
    2^63 set, so it asks for no relative lock. -/
def defaultSeq (lockTime : Nat) : Nat :=
  if lockTime ≠ 0 then Gen.Vm.maxTxInSequenceNum - 1 else Gen.Vm.maxTxInSequenceNum

/-- the sequence number `constructTxIn` / `addTxIn` put on an input spending an output of script class `cls`
    whose transaction is at height `prevHeight` (`syncHeight + 1` when it is still unmined) -/
def seqChoice (lockTime : Nat) (cls : Cls) (prevHeight : Nat) : Nat :=
  let seq := defaultSeq lockTime
  if cls.isStaking then cls.maturity
  else if cls.isBinding && enforceWarmUp prevHeight then Gen.Vm.bindingLockedPeriod
  else seq

/-- `sequenceNum & wire.SequenceLockTimeDisabled == wire.SequenceLockTimeDisabled` -/
def seqDisabled (seq : Nat) : Bool := decide (seq / Gen.Vm.sequenceLockTimeDisabled % 2 = 1)

/-- `sequenceNum & wire.SequenceLockTimeIsSeconds == wire.SequenceLockTimeIsSeconds` -/
def seqIsSeconds (seq : Nat) : Bool := decide (seq / Gen.Vm.sequenceLockTimeIsSeconds % 2 = 1)

/-- calcSequenceLock, the contribution of ONE input to `sequenceLock.BlockHeight`:
    `none` when the input contributes no height lock (disable bit set: `continue`; type bit set: the lock is
    time-based and goes to `sequenceLock.Seconds`, not modelled); else
    `blockHeight := coinHeight + relativeLock - 1` in uint64 arithmetic (wraps for 0 + 0 − 1). -/
def inputLockHeight (seq originHeight : Nat) : Option Nat :=
  let relativeLock := seq % (Gen.Vm.sequenceLockTimeMask + 1)
  if seqDisabled seq then none
  else if seqIsSeconds seq then none
  else some ((originHeight + relativeLock + 2^64 - 1) % 2^64)

/-- `sequenceLock.BlockHeight` of a transaction with this single input (starts at 0, takes the max) -/
def seqLockHeight (seq originHeight : Nat) : Nat :=
  match inputLockHeight seq originHeight with
  | none => 0
  | some m => max 0 m

/-- SequenceLockActive, height part: the block at height `blockHeight` may contain the input
    (`sequenceLock.BlockHeight >= blockHeight` ⇒ not yet) -/
def lockMet (seq originHeight blockHeight : Nat) : Bool :=
  decide (seqLockHeight seq originHeight < blockHeight)

end MW.Model.WithdrawSeq
