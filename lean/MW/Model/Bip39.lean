/-
  MODEL of masswallet/keystore/mnemonic.go (C13), statement by statement.  Core only.

  Go                                   Lean
  -----------------------------------  ---------------------------------------------------------
  big.Int                              Nat;  SetBytes ↦ ofBytesBE;  Bytes() ↦ toBytesBE (MINIMAL: leading
                                       zero bytes are dropped, 0 ↦ []);  Mul/Add/Div ↦ * + /;  And/Or ↦ &&& |||
  padByteSlice                         B39.padLeft
  wordList / wordMap (SetWordList)     wordList (regenerated from wordlists/english.go) / wordMapGet
                                       (`wordMap[v] = i` in list order: the LAST index of a repeated word wins)
  strings.Fields / strings.TrimSpace   fields / trimSpace over the white-space runes of the Go toolchain
                                       (MW.Gen.Bip39.spaceRunesNat = UTF-8 encodings of unicode.IsSpace)
  sha256 (computeChecksum)             parameter `H : Bytes → Bytes`;  `hash[0]` ↦ firstByte (panic on an
                                       empty digest is an explicit error)
  pbkdf2.Key(…, sha512.New)            parameter `P`
  error values                         Err (entropyLen | invalid | word | checksum);  run-time panics of
                                       Go (index out of range, nil *big.Int, division by zero) ↦ Err.panic
-/
import MW.Base.Bip39Num
import MW.Gen.Wordlist
import MW.Gen.Bip39
namespace MW.Model.Bip39
open MW MW.B39

abbrev Hash := Bytes → Bytes
abbrev Kdf := Bytes → Bytes → Nat → Nat → Bytes

inductive Err where
  | entropyLen   -- ErrEntropyLengthInvalid
  | invalid      -- ErrInvalidMnemonic
  | word         -- ErrInvalidMnemonicWord
  | checksum     -- ErrChecksumIncorrect
  | panic        -- a Go run-time panic
  deriving DecidableEq, Repr

/-! ### word list and reverse map -/

/-- `wordList` after `SetWordList(wordlists.English)` -/
@[irreducible] def wordList : List Bytes := Gen.Wordlist.wordlist.map strBytes

/-- `wordMap` built by `for i, v := range wordList { wordMap[v] = i }`: later entries overwrite -/
def mapGet : List Bytes → Nat → Bytes → Option Nat
  | [], _, _ => none
  | v :: vs, i, w =>
    match mapGet vs (i + 1) w with
    | some j => some j
    | none => if v = w then some i else none

/-- `idx, ok := wordMap[w]` -/
def wordMapGet (w : Bytes) : Option Nat := mapGet wordList 0 w

/-! ### strings.Fields, strings.TrimSpace, strings.Join

  White space is decided rune by rune (`unicode.IsSpace` after UTF-8 decoding).  The runes that are white
  space all have valid, shortest-form encodings (listed in `spaceRunes`); their first bytes are never
  continuation bytes and their other bytes always are, so "a white-space rune starts at this byte" is
  exactly "one of the listed encodings is a prefix of the rest of the string", and every other byte
  (including each byte of an invalid or truncated sequence, which Go decodes to U+FFFD of width 1) can be
  stepped over one at a time.  Sampled against the real functions by the correspondence runs. -/

def spaceRunes : List Bytes := Gen.Bip39.spaceRunesNat.map (fun r => r.map UInt8.ofNat)

/-- width in bytes of the white-space rune at the head of `s`, 0 if there is none -/
def spaceWidth (s : Bytes) : Nat :=
  match spaceRunes.find? (fun r => r.isPrefixOf s) with
  | some r => r.length
  | none => 0

def flush (cur : Bytes) : List Bytes := if cur.isEmpty then [] else [cur]

/-- scan with `skip` bytes of the current white-space rune still to drop and `cur` the field so far -/
def fieldsAux : Bytes → Nat → Bytes → List Bytes
  | [], _, cur => flush cur
  | _ :: rest, skip + 1, cur => fieldsAux rest skip cur
  | b :: rest, 0, cur =>
    match spaceWidth (b :: rest) with
    | 0 => fieldsAux rest 0 (cur ++ [b])
    | w + 1 => flush cur ++ fieldsAux rest w []

/-- `strings.Fields` -/
def fields (s : Bytes) : List Bytes := fieldsAux s 0 []

/-- `strings.TrimLeftFunc(s, unicode.IsSpace)` (fuel = length) -/
def trimLeftAux : Nat → Bytes → Bytes
  | 0, s => s
  | f + 1, s => match spaceWidth s with
    | 0 => s
    | w + 1 => trimLeftAux f (s.drop (w + 1))

/-- width of the white-space rune at the END of `s`, 0 if there is none -/
def spaceWidthEnd (s : Bytes) : Nat :=
  match spaceRunes.find? (fun r => r.isSuffixOf s) with
  | some r => r.length
  | none => 0

def trimRightAux : Nat → Bytes → Bytes
  | 0, s => s
  | f + 1, s => match spaceWidthEnd s with
    | 0 => s
    | w + 1 => trimRightAux f (s.take (s.length - (w + 1)))

/-- `strings.TrimSpace` -/
def trimSpace (s : Bytes) : Bytes :=
  let l := trimLeftAux s.length s
  trimRightAux l.length l

/-- `strings.Join(words, " ")` -/
def joinSpace : List Bytes → Bytes
  | [] => []
  | [w] => w
  | w :: ws => w ++ [32] ++ joinSpace ws

/-! ### helpers of mnemonic.go -/

/-- `hash[0]` of `computeChecksum(data)` -/
def firstByte (h : Bytes) : Except Err UInt8 :=
  match h with
  | [] => .error .panic
  | b :: _ => .ok b

/-- `validateEntropyBitSize` -/
def validateEntropyBitSize (bitSize : Nat) : Except Err Unit :=
  if bitSize % 32 ≠ 0 ∨ bitSize < 128 ∨ bitSize > 256 then .error .entropyLen else .ok ()

/-- `uint8(1<<(7-i))` with `i uint`: for i > 7 the shift count wraps to a huge value and the byte is 0 -/
def bitMask (i : Nat) : Nat := if i ≤ 7 then 2 ^ (7 - i) else 0

/-- one iteration of the loop of `addChecksum` -/
def addChecksumStep (firstChecksumByte : UInt8) (dataBigInt : Nat) (i : Nat) : Nat :=
  let d := dataBigInt * Gen.Bip39.bigTwo
  if firstChecksumByte.toNat &&& bitMask i > 0 then d ||| Gen.Bip39.bigOne else d

/-- `addChecksum(data)` -/
def addChecksum (H : Hash) (data : Bytes) : Except Err Bytes := do
  let firstChecksumByte ← firstByte (H data)
  let checksumBitLength := data.length / 4
  let dataBigInt := (List.range checksumBitLength).foldl (addChecksumStep firstChecksumByte) (ofBytesBE data)
  pure (toBytesBE dataBigInt)

/-- `binary.BigEndian.Uint16(b)` (panics if len(b) < 2) -/
def beUint16 : Bytes → Except Err Nat
  | b0 :: b1 :: _ => .ok (b0.toNat * 256 + b1.toNat)
  | _ => .error .panic

/-- `binary.BigEndian.PutUint16(wordBytes[:], uint16(index))` -/
def putUint16 (index : Nat) : Bytes :=
  let v := index % 65536
  [UInt8.ofNat (v / 256), UInt8.ofNat (v % 256)]

/-- `wordList[i]` (index out of range panics) -/
def wordAt (i : Nat) : Except Err Bytes :=
  match wordList[i]? with
  | some w => .ok w
  | none => .error .panic

/-- `splitMnemonicWords` -/
def splitMnemonicWords (mnemonic : Bytes) : Option (List Bytes) :=
  let words := fields mnemonic
  let n := words.length
  if n % 3 ≠ 0 ∨ n < 12 ∨ n > 24 then none else some words

/-! ### NewMnemonic -/

/-- the loop `for i := sentenceLength - 1; i >= 0; i--` filling `words[i]`; `acc` = words[i+1:] -/
def wordsLoop : Nat → Nat → List Bytes → Except Err (List Bytes)
  | 0, _, acc => .ok acc
  | k + 1, entropyInt, acc => do
    let word := entropyInt &&& Gen.Bip39.last11BitsMask
    let entropyInt' := entropyInt / Gen.Bip39.shift11BitsMask
    let wordBytes := padLeft (toBytesBE word) 2
    let idx ← beUint16 wordBytes
    let w ← wordAt idx
    wordsLoop k entropyInt' (w :: acc)

def newMnemonic (H : Hash) (entropy : Bytes) : Except Err Bytes := do
  let entropyBitLength := entropy.length * 8
  let checksumBitLength := entropyBitLength / 32
  let sentenceLength := (entropyBitLength + checksumBitLength) / 11
  validateEntropyBitSize entropyBitLength
  let entropy' ← addChecksum H entropy
  let entropyInt := ofBytesBE entropy'
  let words ← wordsLoop sentenceLength entropyInt []
  pure (joinSpace words)

/-! ### EntropyFromMnemonic -/

/-- the decoding loop: `b = b*2048 | index` -/
def decodeLoop : List Bytes → Nat → Except Err Nat
  | [], b => .ok b
  | v :: vs, b =>
    match wordMapGet v with
    | none => .error .word
    | some index =>
      let wordBytes := putUint16 index
      decodeLoop vs ((b * Gen.Bip39.shift11BitsMask) ||| ofBytesBE wordBytes)

/-- map lookup yielding a `*big.Int`; a missing key gives nil, and using nil panics -/
def tableGet (t : List (Nat × Nat)) (k : Nat) : Except Err Nat :=
  match t.lookup k with
  | some v => .ok v
  | none => .error .panic

/-- `EntropyFromMnemonic` after the split, on the word slice -/
def entropyFromWords (H : Hash) (mnemonicSlice : List Bytes) : Except Err Bytes := do
  let b ← decodeLoop mnemonicSlice 0
  let checksumMask ← tableGet Gen.Bip39.checksumMasks mnemonicSlice.length
  let checksum := b &&& checksumMask
  let b := b / (checksumMask + Gen.Bip39.bigOne)
  let entropy := padLeft (toBytesBE b) (mnemonicSlice.length / 3 * 4)
  let h0 ← firstByte (H entropy)
  let entropyChecksum ←
    if mnemonicSlice.length ≠ 24 then do
      let checksumShift ← tableGet Gen.Bip39.checksumShifts mnemonicSlice.length
      if checksumShift = 0 then .error .panic else pure (h0.toNat / checksumShift)
    else pure h0.toNat
  if checksum ≠ entropyChecksum then .error .checksum else pure entropy

def entropyFromMnemonic (H : Hash) (mnemonic : Bytes) : Except Err Bytes :=
  match splitMnemonicWords mnemonic with
  | none => .error .invalid
  | some mnemonicSlice => entropyFromWords H mnemonicSlice

/-! ### IsMnemonicValid, MnemonicToByteArray, NewSeed -/

def isMnemonicValid (mnemonic : Bytes) : Bool :=
  let words := fields mnemonic
  let wordCount := words.length
  if wordCount % 3 ≠ 0 ∨ wordCount < 12 ∨ wordCount > 24 then false
  else words.all (fun w => (wordMapGet w).isSome)

/-- `compareByteSlices` -/
def compareByteSlices (a b : Bytes) : Bool := a.length == b.length && a == b

/-- `MnemonicToByteArray(mnemonic, raw...)`; `raw` = `len(raw) > 0 && raw[0]` -/
def mnemonicToByteArray (H : Hash) (mnemonic : Bytes) (raw : Bool) : Except Err Bytes := do
  let mnemonicSlice := fields (trimSpace mnemonic)
  let entropyBitSize := mnemonicSlice.length * 11
  let checksumBitSize := entropyBitSize % 32
  let fullByteSize := (entropyBitSize - checksumBitSize) / 8 + 1
  let checksumByteSize := fullByteSize - fullByteSize % 4
  if !isMnemonicValid mnemonic then throw .invalid
  -- `wordMap[v]` of a missing key is 0
  let checksummedEntropy := mnemonicSlice.foldl (fun acc v => acc * 2048 + (wordMapGet v).getD 0) 0
  let checksumModulo := Gen.Bip39.bigTwo ^ checksumBitSize
  let rawEntropy := checksummedEntropy / checksumModulo
  let rawEntropyBytes := padLeft (toBytesBE rawEntropy) checksumByteSize
  let checksummedEntropyBytes := padLeft (toBytesBE checksummedEntropy) fullByteSize
  let withChecksum ← addChecksum H rawEntropyBytes
  let newChecksummedEntropyBytes := padLeft withChecksum fullByteSize
  if !compareByteSlices checksummedEntropyBytes newChecksummedEntropyBytes then throw .checksum
  if raw then pure rawEntropyBytes else pure checksummedEntropyBytes

/-- `NewSeed`: the call-site arguments are regenerated from the source on every run -/
def newSeed (P : Kdf) (mnemonic password : Bytes) : Bytes :=
  P mnemonic (Gen.Bip39.saltPrefix.map UInt8.ofNat ++ password) Gen.Bip39.iterations Gen.Bip39.keyLen

/-- `NewSeedWithErrorChecking` -/
def newSeedWithErrorChecking (H : Hash) (P : Kdf) (mnemonic password : Bytes) : Except Err Bytes := do
  let _ ← mnemonicToByteArray H mnemonic false
  pure (newSeed P mnemonic password)

end MW.Model.Bip39
