/-
  MODEL of masswallet/keystore/hdkeychain/extendedkey.go, statement by statement:
  NewMaster, (*ExtendedKey).pubKeyBytes / Child / Neuter / ECPrivKey / String, paddedAppend,
  NewKeyFromString.  big.Int ↦ Nat, `Bytes()` ↦ BE.toBytes (minimal), `copy` ↦ GoSlice.copyAt.
  Cryptography and the network table are parameters (CurveOps / HashOps / NetOps).
  Core Lean only.
-/
import MW.Base.Bip32Base
import MW.Gen.Bip32
import MW.Model.Bip32Base58
namespace MW.Model.Bip32
open MW GoSlice

/-- `type ExtendedKey struct` (the memo field `pubKey` is a cache of `pubKeyBytes` and is not modelled) -/
structure XKey where
  key : Bytes
  chainCode : Bytes
  depth : Nat          -- uint8
  parentFP : Bytes
  childNum : Nat       -- uint32
  version : Bytes
  isPrivate : Bool
  deriving DecidableEq, Repr

def hardenedKeyStart : Nat := Gen.Bip32.hardenedKeyStart
def serializedKeyLen : Nat := Gen.Bip32.serializedKeyLen
def masterKey : Bytes := Gen.Bip32.masterKey.map UInt8.ofNat

section
variable (C : CurveOps) (H : HashOps) (N : NetOps)

/-- `pubKeyBytes` -/
def pubKeyBytes (k : XKey) : Bytes :=
  if !k.isPrivate then k.key
  else C.enc (C.mulG (BE.ofBytes k.key))      -- ScalarBaseMult(k.key); SerializeCompressed

/-- `Child`, with the statement that turns the child scalar into the stored key bytes left open
    (`mkKey`): `child` below instantiates it with what the code does today, `Legacy.child`
    (MW.Model.Bip32Legacy) with what it did before the D4 repair. -/
def childCore (mkKey : Nat → Bytes) (k : XKey) (i : Nat) : Except Bip32Err XKey :=
  if k.depth = Gen.Bip32.maxUint8 then .error .depth else
  let isChildHardened := decide (i ≥ hardenedKeyStart)
  if !k.isPrivate && isChildHardened then .error .hardFromPub else
  let keyLen := 33
  let data := zeros (keyLen + 4)
  let data := if isChildHardened then copyAt data 1 k.key            -- copy(data[1:], k.key)
              else copyAt data 0 (pubKeyBytes C k)                   -- copy(data, k.pubKeyBytes())
  let data := copyAt data keyLen (BE.fixed 4 i)                      -- PutUint32(data[keyLen:], i)
  let ilr := H.hmac512 k.chainCode data
  let il := ilr.take (ilr.length / 2)
  let childChainCode := ilr.drop (ilr.length / 2)
  let ilNum := BE.ofBytes il
  if ilNum ≥ C.n || ilNum = 0 then .error .invalidChild else
  -- parentFP is computed last in the code; it has no effect on the branches above
  let parentFP := (H.hash160 (pubKeyBytes C k)).take 4
  if k.isPrivate then
    let keyNum := BE.ofBytes k.key
    let sum := (ilNum + keyNum) % C.n
    .ok { key := mkKey sum, chainCode := childChainCode, depth := k.depth + 1, parentFP := parentFP,
          childNum := i, version := k.version, isPrivate := true }
  else
    let ilP := C.mulG (BE.ofBytes il)
    if C.xyZero ilP then .error .invalidChild else
    match C.parse k.key with
    | none => .error .point
    | some pubKey =>
      let childKey := C.enc (C.add ilP pubKey)
      .ok { key := childKey, chainCode := childChainCode, depth := k.depth + 1, parentFP := parentFP,
            childNum := i, version := k.version, isPrivate := false }

/-- the private branch's `childKey = …` as the code has it now (its source text is recorded in
    `Gen.Bip32.childKeyExpr`; behaviourally tied by the short-scalar streams of the harness). -/
def storeKey (sum : Nat) : Bytes := paddedAppend 32 [] (BE.toBytes sum)   -- paddedAppend(32, nil, ilNum.Bytes())

/-- `(*ExtendedKey).Child` -/
def child (k : XKey) (i : Nat) : Except Bip32Err XKey := childCore C H storeKey k i

/-- `(*ExtendedKey).Neuter` -/
def neuter (k : XKey) : Except Bip32Err XKey :=
  if !k.isPrivate then .ok k else
  match N.pubVersion k.version with
  | none => .error .version
  | some version =>
    .ok { key := pubKeyBytes C k, chainCode := k.chainCode, depth := k.depth, parentFP := k.parentFP,
          childNum := k.childNum, version := version, isPrivate := false }

/-- `ECPrivKey().Serialize()` (btcec: `D = SetBytes(key)`, `paddedAppend(32, …, D.Bytes())`);
    `none` = ErrNotPrivExtKey -/
def ecPrivKey (k : XKey) : Option Bytes :=
  if !k.isPrivate then none else some (paddedAppend 32 [] (BE.toBytes (BE.ofBytes k.key)))

/-- "zeroed extended key" -/
def zeroedText : Bytes := ascii ['z', 'e', 'r', 'o', 'e', 'd', ' ', 'e', 'x', 't', 'e', 'n', 'd', 'e', 'd', ' ', 'k', 'e', 'y']

/-- `(*ExtendedKey).String` -/
def toString (k : XKey) : Bytes :=
  if k.key.length = 0 then zeroedText else
  let childNumBytes := BE.fixed 4 k.childNum
  let s := k.version
  let s := s ++ [UInt8.ofNat k.depth]
  let s := s ++ k.parentFP
  let s := s ++ childNumBytes
  let s := s ++ k.chainCode
  let s := if k.isPrivate then paddedAppend 32 (s ++ [0]) k.key else s ++ pubKeyBytes C k
  let checkSum := (H.dsha s).take 4
  Base58.encode (s ++ checkSum)

/-- `NewMaster` -/
def newMaster (seed : Bytes) : Except Bip32Err XKey :=
  if seed.length < Gen.Bip32.minSeedBytes || seed.length > Gen.Bip32.maxSeedBytes then .error .seedLen else
  let lr := H.hmac512 masterKey seed
  let secretKey := lr.take (lr.length / 2)
  let chainCode := lr.drop (lr.length / 2)
  let secretKeyNum := BE.ofBytes secretKey
  if secretKeyNum ≥ C.n || secretKeyNum = 0 then .error .unusable else
  .ok { key := secretKey, chainCode := chainCode, depth := 0, parentFP := [0, 0, 0, 0], childNum := 0,
        version := N.privVersion, isPrivate := true }

/-- `NewKeyFromString` -/
def keyFromString (s : Bytes) : Except Bip32Err XKey :=
  let decoded := Base58.decode s
  if decoded.length ≠ serializedKeyLen + 4 then .error .len else
  let payload := decoded.take (decoded.length - 4)
  let checkSum := decoded.drop (decoded.length - 4)
  let expectedCheckSum := (H.dsha payload).take 4
  if checkSum ≠ expectedCheckSum then .error .checksum else
  let version := slice payload 0 4
  let depth := ((slice payload 4 5).headD 0).toNat
  let parentFP := slice payload 5 9
  let childNum := BE.ofBytes (slice payload 9 13)
  let chainCode := slice payload 13 45
  let keyData := slice payload 45 78
  let isPrivate := decide (keyData.headD 0 = 0)
  if isPrivate then
    let keyData := keyData.drop 1
    let keyNum := BE.ofBytes keyData
    if keyNum ≥ C.n || keyNum = 0 then .error .unusable else
    .ok { key := keyData, chainCode := chainCode, depth := depth, parentFP := parentFP, childNum := childNum,
          version := version, isPrivate := true }
  else
    match C.parse keyData with
    | none => .error .point
    | some _ =>
      .ok { key := keyData, chainCode := chainCode, depth := depth, parentFP := parentFP, childNum := childNum,
            version := version, isPrivate := false }

/-- `NewMaster(seed)` followed by `Child(i)` for every index of the path -/
def deriveFrom (k : XKey) : List Nat → Except Bip32Err XKey
  | [] => .ok k
  | i :: is => match child C H k i with
    | .error e => .error e
    | .ok c => deriveFrom c is

def derivePath (seed : Bytes) (path : List Nat) : Except Bip32Err XKey :=
  match newMaster C H N seed with
  | .error e => .error e
  | .ok m => deriveFrom C H m path

end
end MW.Model.Bip32
