/- the vocabulary in which the extractor (go/cmd/extract/x_proto.go) writes down the communication
   skeleton of a Go function: pre-order list of channel operations, select shapes, loops, returns and
   the calls of interest -/
namespace MW.Model.Proto.Skel

inductive Op
  | loop
  | ret
  | recv (ch : String)
  | send (ch : String)
  | close (ch : String)
  | sel (cases : List String) (dflt : Bool)      -- cases as "recv quit", "send sigSuspend", …
  | call (f : String)                            -- "f", "defer f", "go f"
  deriving DecidableEq, Repr, Inhabited

/-- does the function contain a select listing both communications? -/
def hasSelWith (ops : List Op) (a b : String) : Bool :=
  ops.any fun
    | .sel cs _ => cs.contains a && cs.contains b
    | _ => false

end MW.Model.Proto.Skel
