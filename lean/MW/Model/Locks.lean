/-
  MODEL for C17(b): the role model in which the generated access table (MW.Gen.Locks, extractor
  go/cmd/extract/x_locks.go) is judged.

  Roles: `api` (any number of concurrent request goroutines), `follower` (the single `handle` goroutine),
  `worker` (the single `worker` goroutine), `init` (constructors and NtfnsHandler.Start before its `go`
  statements – ordered before everything else by goroutine creation / by Start returning before requests
  are served).
  Ordering edges of the hand-shake: between a completed `suspend()` and the matching `resume()` the
  follower is blocked in its receive from sigResume (Go memory model: a send on an unbuffered channel is
  synchronised before the completion of the receive and the receive before the completion of the send),
  so an access of the worker inside that window is ordered with every access of the follower.
  This is a LOCKSET discipline over lexically held locks; the Go memory model itself is not modelled.
-/
namespace MW.Model.Locks

inductive Role | api | follower | worker | init
  deriving DecidableEq, Repr, Inhabited

structure Access where
  field : String
  site : String                   -- file:line
  fn : String                     -- enclosing function
  write : Bool
  locks : List (String × Bool)    -- mutex (named by owning type), held exclusively?
  roles : List Role               -- goroutine roles that can reach the enclosing function
  window : Bool                   -- lexically inside suspend()…resume()
  deriving DecidableEq, Repr, Inhabited

/-- can two goroutines of these roles run at the same time? -/
def concurrentRoles : Role → Role → Bool
  | .init, _ => false
  | _, .init => false
  | .api, _ => true
  | _, .api => true
  | .follower, .worker => true
  | .worker, .follower => true
  | .follower, .follower => false
  | .worker, .worker => false

/-- may accesses `a` (in role `ra`) and `b` (in role `rb`) be unordered? -/
def unordered (a b : Access) (ra rb : Role) : Bool :=
  concurrentRoles ra rb &&
    -- the hand-shake orders the worker's window against the follower
    !((ra = .worker && rb = .follower && a.window) || (ra = .follower && rb = .worker && b.window))

/-- a common mutex, held exclusively by at least one side -/
def commonLock (a b : Access) : Bool :=
  a.locks.any fun la => b.locks.any fun lb => la.1 = lb.1 && (la.2 || lb.2)

def conflicting (a b : Access) : Bool := a.field = b.field && (a.write || b.write)

/-- the pair is fine: not conflicting, or protected by a common lock, or ordered in every role combination -/
def pairOk (a b : Access) : Bool :=
  !conflicting a b || commonLock a b ||
    a.roles.all fun ra => b.roles.all fun rb => !unordered a b ra rb

def tableOk (t : List Access) : Bool := t.all fun a => t.all fun b => pairOk a b

/-- the offending pairs (for the report) -/
def badPairs (t : List Access) : List (Access × Access) :=
  t.flatMap fun a => (t.filter fun b => !pairOk a b && a.site ≤ b.site).map fun b => (a, b)

end MW.Model.Locks
