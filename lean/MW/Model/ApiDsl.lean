/-
  Skeleton language for property C19 (no request / chain event can crash the wallet).

  A Go function is modelled by its PARTIAL-OPERATION SKELETON: a `Stmt` that keeps
    * every site where the Go runtime can panic (index, slice, map assignment, pointer / interface
      dereference of a possibly-nil result, type assertion) as a `site` with its SAFETY CONDITION
      (an `Atom`: the site panics exactly when the atom is false),
    * the guards that protect them (`ite` on conditions over lengths / nil-ness / flags),
    * calls into code outside the anchored files (`call`: the results are arbitrary values chosen by an
      oracle; the callee's CONTRACT is a list of clauses checked dynamically – an oracle answer that
      breaks it ends the run with `Fault.contract`, which is NOT a panic),
    * calls between anchored functions (`invoke`: the callee's skeleton is executed in place),
    * loops, assignments, returns.
  Everything else (amounts, hashes, scripts, database contents) is abstract: a value is a natural number
  standing for a length, an index, a nil flag (0 = nil), a dynamic type tag or an error class.

  `run` is the executable semantics, `sites` lists the sites (matched against MW.Gen.Sites), `check` is
  a static checker: an abstract interpreter over sets of clauses. `MW.Lemmas.ApiSound.check_sound`
  proves: if `check` accepts a skeleton then NO run of it (any initial state, any oracle, any fuel)
  ends in `Fault.panic`.
-/
namespace MW.Model.Api

/-- variables are numbers (the kernel compares them fast); `V "name"` is the base-256 reading of the name,
    an injective encoding, and string literals coerce to it -/
abbrev Var := Nat

def V (s : String) : Var := s.toList.foldl (fun n c => n * 256 + c.toNat) 0

scoped instance : Coe String Var := ⟨V⟩

inductive Arg
  | v (x : Var)
  | k (n : Nat)
  deriving DecidableEq, Repr, Inhabited

abbrev State := Var → Nat

def State.set (σ : State) (x : Var) (n : Nat) : State := fun y => if y = x then n else σ y

def Arg.eval (σ : State) : Arg → Nat
  | .v x => σ x
  | .k n => n

/-- state predicates the skeletons talk about -/
inductive Atom
  | nz (x : Var)              -- σ x ≠ 0   (non-nil / flag set / non-empty)
  | z (x : Var)               -- σ x = 0
  | lt (i xs : Var)           -- σ i < σ xs   (index within length)
  | le (a xs : Var)           -- σ a ≤ σ xs
  | ge (xs : Var) (k : Nat)   -- k ≤ σ xs     (length lower bound)
  | eqk (x : Var) (k : Nat)   -- σ x = k      (dynamic type tag, error class)
  | eqv (a b : Var)           -- σ a = σ b
  deriving DecidableEq, Repr, Inhabited

def Atom.eval (σ : State) : Atom → Bool
  | .nz x => σ x != 0
  | .z x => σ x == 0
  | .lt i xs => decide (σ i < σ xs)
  | .le a xs => decide (σ a ≤ σ xs)
  | .ge xs k => decide (k ≤ σ xs)
  | .eqk x k => σ x == k
  | .eqv a b => σ a == σ b

def Atom.vars : Atom → List Var
  | .nz x => [x]
  | .z x => [x]
  | .lt i xs => [i, xs]
  | .le a xs => [a, xs]
  | .ge xs _ => [xs]
  | .eqk x _ => [x]
  | .eqv a b => [a, b]

/-- `pre → post`; an atom is a clause without premises -/
structure Clause where
  pre : List Atom
  post : List Atom
  deriving DecidableEq, Repr, Inhabited

def Clause.eval (σ : State) (c : Clause) : Bool := !(c.pre.all (·.eval σ)) || c.post.all (·.eval σ)

def Clause.vars (c : Clause) : List Var := (c.pre.flatMap Atom.vars) ++ (c.post.flatMap Atom.vars)

def fact (a : Atom) : Clause := ⟨[], [a]⟩

/-- uint32 wrap-around of `len - 1` (Go: `uint32(len(xs)-1)`) -/
def u32Pred (n : Nat) : Nat := if n = 0 then 2^32 - 1 else (n - 1) % 2^32

inductive Cond
  | atom (a : Atom)
  | not (c : Cond)
  | and (c d : Cond)
  | or (c d : Cond)
  | gtU32Pred (i xs : Var)      -- `i > uint32(len(xs)-1)`
  deriving Repr, Inhabited

def Cond.eval (σ : State) : Cond → Bool
  | .atom a => a.eval σ
  | .not c => !(c.eval σ)
  | .and c d => c.eval σ && d.eval σ
  | .or c d => c.eval σ || d.eval σ
  | .gtU32Pred i xs => decide (σ i > u32Pred (σ xs))

inductive Stmt
  | skip
  | seq (a b : Stmt)
  /-- a partial operation of the given kind (text = canonical Go source of the site); it panics exactly
      when `req` is false in the current state (`none`: the operation cannot fail, e.g. `h[:]`) -/
  | site (kind text : String) (req : Option Atom)
  /-- call of code outside the anchored files: `outs` receive arbitrary values, constrained by `ens` -/
  | call (f : String) (outs : List Var) (ens : List Clause)
  | set (x : Var) (a : Arg)
  | ite (c : Cond) (t e : Stmt)
  /-- `for i := 0; i < n; i++ { body }` with declared loop invariant `inv` -/
  | loop (i n : Var) (inv : List Atom) (body : Stmt)
  /-- internal: the loop at iteration `k` -/
  | iter (i n : Var) (k : Nat) (body : Stmt)
  /-- call of another anchored function (index into the program table): its skeleton runs in place
      (shared variables) -/
  | invoke (f : Nat)
  /-- a function literal executed in place (`mwdb.View(db, func(tx) error { … })`): `ret` inside leaves
      only this scope -/
  | scope (body : Stmt)
  | ret
  deriving Repr, Inhabited

infixr:60 " ;; " => Stmt.seq

inductive Fault
  | panic (kind text : String)
  | contract (f : String)
  | fuel
  | unknownFn (f : Nat)
  deriving Repr, DecidableEq, Inhabited

inductive Flow
  | norm (σ : State)
  | retd (σ : State)

abbrev Prog := Nat → Option Stmt
abbrev Oracle := String → State → List Nat

def setMany (σ : State) : List Var → List Nat → State
  | [], _ => σ
  | x :: xs, [] => setMany (σ.set x 0) xs []
  | x :: xs, n :: ns => setMany (σ.set x n) xs ns

/-- executable semantics; every recursive call consumes one unit of fuel -/
def run (P : Prog) (O : Oracle) : Nat → Stmt → State → Except Fault Flow
  | 0, _, _ => .error .fuel
  | _ + 1, .skip, σ => .ok (.norm σ)
  | n + 1, .seq a b, σ =>
    match run P O n a σ with
    | .ok (.norm σ') => run P O n b σ'
    | r => r
  | _ + 1, .site kind text req, σ =>
    match req with
    | none => .ok (.norm σ)
    | some a => if a.eval σ then .ok (.norm σ) else .error (.panic kind text)
  | _ + 1, .call f outs ens, σ =>
    let σ' := setMany σ outs (O f σ)
    if ens.all (·.eval σ') then .ok (.norm σ') else .error (.contract f)
  | _ + 1, .set x a, σ => .ok (.norm (σ.set x (a.eval σ)))
  | n + 1, .ite c t e, σ => if c.eval σ then run P O n t σ else run P O n e σ
  | n + 1, .loop i cnt _ body, σ => run P O n (.iter i cnt 0 body) σ
  | n + 1, .iter i cnt k body, σ =>
    if k < σ cnt then
      match run P O n body (σ.set i k) with
      | .ok (.norm σ') => run P O n (.iter i cnt (k + 1) body) σ'
      | r => r
    else .ok (.norm σ)
  | n + 1, .invoke f, σ =>
    match P f with
    | none => .error (.unknownFn f)
    | some body =>
      match run P O n body σ with
      | .ok (.retd σ') => .ok (.norm σ')
      | r => r
  | n + 1, .scope body, σ =>
    match run P O n body σ with
    | .ok (.retd σ') => .ok (.norm σ')
    | r => r
  | _ + 1, .ret, σ => .ok (.retd σ)

/-- the partial-operation sites of a skeleton, in order -/
def sites : Stmt → List (String × String)
  | .skip => []
  | .seq a b => sites a ++ sites b
  | .site kind text _ => [(kind, text)]
  | .call _ _ _ => []
  | .set _ _ => []
  | .ite _ t e => sites t ++ sites e
  | .loop _ _ _ body => sites body
  | .iter _ _ _ body => sites body
  | .invoke _ => []
  | .scope body => sites body
  | .ret => []

-- ------------------------------------------------------------------ static checker

abbrev Facts := List Clause

def insertC (F : Facts) (c : Clause) : Facts := if F.contains c then F else F ++ [c]
/-- union without duplicates (keeps the fact lists small) -/
def union (F G : Facts) : Facts := G.foldl insertC F

def atomsOf (F : Facts) : List Atom := (F.filter (fun c => c.pre.isEmpty)).flatMap (·.post)

/-- does the atom set `A` entail `a` (membership plus a few arithmetic weakenings)? -/
def entailsA (A : List Atom) (a : Atom) : Bool :=
  A.contains a ||
  match a with
  | .nz x => A.any (fun b => match b with
      | .ge y k => y == x && k ≥ 1
      | .eqk y k => y == x && k ≥ 1
      | .lt _ y => y == x
      | .eqv a b => (a == x && A.contains (.nz b)) || (b == x && A.contains (.nz a))
      | _ => false)
  | .z x => A.contains (.eqk x 0)
  | .ge xs k => k == 0 || A.any (fun b => match b with
      | .ge y k' => y == xs && k ≤ k'
      | .eqk y n => y == xs && k ≤ n
      | .nz y => y == xs && k ≤ 1
      | .lt _ y => y == xs && k ≤ 1
      | _ => false)
  | .le a xs => A.contains (.lt a xs) || a == xs
  | .lt i xs => A.any (fun b => match b with
      | .lt j ys => j == i && (A.contains (.eqv ys xs) || A.contains (.eqv xs ys))
      | _ => false)
  | .eqk x k => k == 0 && A.contains (.z x)
  | .eqv a b => a == b || A.contains (.eqv b a)

/-- one round of forward chaining over the clauses -/
def chainStep (F : Facts) (A : List Atom) : List Atom :=
  F.foldl (fun acc c =>
    -- unconditional facts are already in `A` (= atomsOf F): only implications are fired
    if c.pre.isEmpty then acc
    else if c.pre.all (entailsA acc) then acc ++ c.post.filter (fun a => !(acc.contains a)) else acc) A

def chain (F : Facts) : Nat → List Atom → List Atom
  | 0, A => A
  | n + 1, A => chain F n (chainStep F A)

/-- the atoms recorded as unconditional facts; `sat` keeps them closed under the implications, so that
    entailment, `kill` and `meet` never have to chain -/
def closure (F : Facts) : List Atom := atomsOf F

/-- saturate: add the atoms the implications yield from the recorded atoms (two rounds) -/
def sat (F : Facts) : Facts :=
  let A := atomsOf F
  union F (((chain F 2 A).filter (fun a => !(A.contains a))).map fact)

def entails (F : Facts) (a : Atom) : Bool := entailsA (closure F) a

/-- forget everything about `x` (the atoms already derived about other variables stay: `sat`) -/
def kill (x : Var) (F : Facts) : Facts := F.filter (fun c => !(c.vars.contains x))

def killAll (xs : List Var) (F : Facts) : Facts := xs.foldl (fun F x => kill x F) F

/-- facts when an atom is false -/
def negAtom : Atom → List Atom
  | .nz x => [.z x]
  | .z x => [.nz x]
  | .lt i xs => [.le xs i]
  | .le a xs => [.lt xs a]
  | .ge xs k => if k = 1 then [.z xs] else []
  | .eqk x k => if k = 0 then [.nz x] else []
  | .eqv _ _ => []

mutual
  /-- atoms known when the condition is true -/
  def Cond.pos (F : Facts) : Cond → List Atom
    | .atom a => [a]
    | .not c => Cond.neg F c
    | .and c d => Cond.pos F c ++ Cond.pos F d
    | .or _ _ => []
    | .gtU32Pred _ _ => []
  /-- atoms known when the condition is false -/
  def Cond.neg (F : Facts) : Cond → List Atom
    | .atom a => negAtom a
    | .not c => Cond.pos F c
    | .and _ _ => []
    | .or c d => Cond.neg F c ++ Cond.neg F d
    | .gtU32Pred i xs => if entails F (.ge xs 1) then [.lt i xs] else []
end

/-- variables that are non-zero on the `A` paths and zero on the `B` paths (`err` after `if err != nil`) -/
def discr (A B : List Atom) : List Var :=
  (((A.flatMap Atom.vars).eraseDups.filter (fun e => entailsA A (.nz e) && entailsA B (.z e)))).take 3

/-- `as` guarded by `e ≠ 0` (pos) or `e = 0` -/
def condFacts (e : Var) (pos : Bool) (as : List Atom) : Facts :=
  as.map (fun a => ⟨[if pos then Atom.nz e else Atom.z e], [a]⟩)

/-- meet of the facts of two control-flow paths (`none` = path unreachable): the common clauses, the
    atoms derivable on both paths, and – when a variable discriminates the paths (`err ≠ 0` on one,
    `err = 0` on the other) – the atoms of each path guarded by that variable -/
def meet : Option Facts → Option Facts → Option Facts
  | none, y => y
  | x, none => x
  | some A, some B =>
    let ca := closure A
    let cb := closure B
    -- variables known non-zero on both paths for different reasons (`err = k₁` / `err = k₂`)
    let bothNz := ((ca ++ cb).flatMap Atom.vars).eraseDups.filter (fun e => entailsA ca (.nz e) && entailsA cb (.nz e))
    let common := union (union (union (A.filter (fun c => B.contains c)) ((ca.filter (fun a => entailsA cb a)).map fact))
                        ((cb.filter (fun a => entailsA ca a)).map fact)) (bothNz.map (fun e => fact (.nz e)))
    let onlyA := ca.filter (fun a => !(entailsA cb a))
    let onlyB := cb.filter (fun a => !(entailsA ca a))
    let extra := (discr ca cb).flatMap (fun e => condFacts e true onlyA ++ condFacts e false onlyB) ++
                 (discr cb ca).flatMap (fun e => condFacts e true onlyB ++ condFacts e false onlyA)
    some (sat (union common extra))

/-- contradictory facts: the path is unreachable -/
def inconsistent (F : Facts) : Bool :=
  let A := closure F
  A.any (fun a => match a with | .nz x => entailsA A (.z x) | _ => false)

/-- variables a statement may assign (`none`: unknown) -/
def assigned (P : Prog) : Nat → Stmt → Option (List Var)
  | 0, _ => none
  | _ + 1, .skip => some []
  | n + 1, .seq a b =>
    match assigned P n a, assigned P n b with
    | some x, some y => some (x ++ y)
    | _, _ => none
  | _ + 1, .site _ _ _ => some []
  | _ + 1, .call _ outs _ => some outs
  | _ + 1, .set x _ => some [x]
  | n + 1, .ite _ t e =>
    match assigned P n t, assigned P n e with
    | some x, some y => some (x ++ y)
    | _, _ => none
  | n + 1, .loop i _ _ body => (assigned P n body).map (fun l => i :: l)
  | n + 1, .iter i _ _ body => (assigned P n body).map (fun l => i :: l)
  | n + 1, .invoke f =>
    match P f with
    | none => some []
    | some body => assigned P n body
  | n + 1, .scope body => assigned P n body
  | _ + 1, .ret => some []

/-- is the loop invariant re-established at the end of the body (`none`: the end is unreachable)? -/
def invKept (inv : List Atom) : Option Facts → Bool
  | none => true
  | some G => inv.all (entails G)


/-- `check P fuel F s = some (Fn, Fr)`: no site of `s` (and of the functions it invokes) can panic when
    the facts `F` hold; `Fn` are facts at the normal exit, `Fr` at the return exit (`none` = not
    reachable). `none`: rejected. -/
def check (P : Prog) (X I : Nat → List Var) (C : Nat → Bool) : Nat → Facts → Stmt → Option (Option Facts × Option Facts)
  | 0, _, _ => none
  | _ + 1, F, .skip => some (some F, none)
  | n + 1, F, .seq a b =>
    match check P X I C n F a with
    | none => none
    | some (none, Fr) => some (none, Fr)
    | some (some G, Fr) =>
      match check P X I C n G b with
      | none => none
      | some (Gn, Gr) => some (Gn, meet Fr Gr)
  | _ + 1, F, .site _ _ req =>
    match req with
    | none => some (some F, none)
    | some a => if entails F a then some (some F, none) else none
  | _ + 1, F, .call _ outs ens => some (some (sat (union (killAll outs F) ens)), none)
  | _ + 1, F, .set x a =>
    let F' := kill x F
    match a with
    | .k n => some (some (sat (union F' [fact (.eqk x n)])), none)
    | .v y => if y = x then some (some F', none) else some (some (sat (union F' [fact (.eqv x y)])), none)
  | n + 1, F, .ite c t e =>
    let Ft := sat (union F ((c.pos F).map fact))
    let Fe := sat (union F ((c.neg F).map fact))
    match (if inconsistent Ft then some (none, none) else check P X I C n Ft t),
          (if inconsistent Fe then some (none, none) else check P X I C n Fe e) with
    | some (Tn, Tr), some (En, Er) => some (meet Tn En, meet Tr Er)
    | _, _ => none
  | n + 1, F, .loop i cnt inv body =>
    match assigned P n body with
    | none => none
    | some L =>
      -- facts about variables the loop does not touch survive it
      let Fk := F.filter (fun c => !(c.vars.any (fun x => x == i || L.contains x)))
      if !(inv.all (entails F)) then none
      else if inv.any (fun a => a.vars.contains i) || i == cnt then none
      else
        match check P X I C n (sat (union (union Fk (inv.map fact)) [fact (.lt i cnt)])) body with
        | none => none
        | some (Bn, Br) => if invKept inv Bn then some (some (union Fk (inv.map fact)), Br) else none
  | _ + 1, _, .iter _ _ _ _ => none
  | n + 1, F, .invoke f =>
    match P f with
    | none => none
    | some body =>
      match assigned P n body with
      | none => none
      | some L =>
        -- a CLOSED function is safe from no assumptions at all (checked once, on its own: `ClosedOK`) and
        -- its callers rely on nothing it establishes: the call only forgets what is known about the
        -- variables it assigns
        if C f then some (some (F.filter (fun c => !(c.vars.any (fun x => L.contains x)))), none) else
        -- the callee is checked from the caller's facts about its inputs (`I f`) only; on return the caller
        -- keeps its facts about variables the callee did not assign and learns the callee's facts about
        -- its results (`X f`). Dropping facts is always sound; it keeps the fact sets small.
        match check P X I C n (F.filter (fun c => c.vars.all (fun x => (I f).contains x))) body with
        | none => none
        | some (Bn, Br) =>
          match meet Bn Br with
          | none => some (none, none)
          | some R =>
            some (some (sat (union (F.filter (fun c => !(c.vars.any (fun x => L.contains x))))
                                   (R.filter (fun c => c.vars.all (fun x => !(L.contains x) || (X f).contains x))))), none)
  | n + 1, F, .scope body =>
    match check P X I C n F body with
    | none => none
    | some (Bn, Br) => some (meet Bn Br, none)
  | _ + 1, F, .ret => some (none, some F)

/-- a root skeleton (API handler / follower entry point) is accepted from no assumptions -/
def safe (P : Prog) (X I : Nat → List Var) (C : Nat → Bool) (fuel : Nat) (s : Stmt) : Bool := (check P X I C fuel [] s).isSome

/-- every function declared closed is accepted from no assumptions -/
def ClosedOK (P : Prog) (X I : Nat → List Var) (C : Nat → Bool) : Prop :=
  ∀ f, C f = true → ∃ body m, P f = some body ∧ (check P X I C m [] body).isSome = true

end MW.Model.Api
