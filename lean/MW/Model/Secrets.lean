/-
  MODEL of the keystore as a SYMBOLIC-TERM machine (C05; the passphrase state machine is shared with C03).

  Values are terms of a free algebra (Dolev–Yao): atomic secrets, public constants, public random
  values (salts, nonces), symmetric encryption `enc k t` (secretbox), the key derivation
  `kdf salt pass` (scrypt), one-way `hash` (sha256 digest of a key), pairs.  The model writes terms to
  the key/value store, to exported keystores and to errors exactly where the Go code does:

    keystore/manager.go   create / initAcctBucket / createManagerKeyScope        ↦ `acctEntries`, `scopeEntries`
                          allocAddrMgrNamespace (ImportKeystore)                  ↦ `importKS`
                          ImportKeystoreWithMnemonic                              ↦ `importMn`
                          ExportKeystore, DeleteKeystore, ChangePubPassphrase,
                          ChangePrivPassphrase, GetMnemonic, SignHash, ClearPrivKey, NewKeystoreManager
    keystore/addrmgr.go   checkPassword, safelyCheckPassword, clearPrivKeys, exportKeystore/export,
                          getMnemonic, signBtcec, getPrivKeyBtcec, nextAddresses, changePrivPassphrase
    keystore/db.go        every put* (key names = `KeyName`)
    keystore/snacl        SecretKey.DeriveKey (`deriveKey`), Marshal (`paramsT`), CryptoKey.Decrypt (`dec`)
    wallet.go             CreateWallet, NewAddress, ExportWallet, ImportWallet, ImportWalletWithMnemonic,
                          GetMnemonic, RemoveWallet (+ asyncRemove's DeleteKeystore), ChangePrivPassphrase
    tx.go                 WalletManager.SignHash (sign + ClearPrivKey)

  Abstractions (all stated in notes/C05.md):
   * the 32-byte buffer of `masterKeyPriv.Key` is `mkey : Option Term`; after a FAILED DeriveKey the real
     buffer holds scrypt(salt, wrong passphrase) – garbage that nothing reads before the next
     derivation; the model keeps `none` (garbage ≡ zeroed);
   * in-memory copies of encrypted blobs (cryptoKeyPrivEncrypted, acctKeyEncrypted, …) are identified
     with the database values they were loaded from (they are only ever written together);
   * public material (extended public keys, public keys, counters, coin type) is `pub`.
  Core Lean only.
-/
import MW.Base.AMap
import MW.Base.Bytes
namespace MW.Model.Secrets
open MW

/-- a passphrase: the hex token of its bytes as it travels on the wire (injective encoding) -/
abbrev Pass := String

/-- atomic secrets -/
inductive Sec
  | entropy (e : String)                              -- BIP-39 entropy / mnemonic of identity `e`
  | seed (e : String) (p : Pass)                      -- BIP-39 seed (mnemonic, passphrase)
  | acctPriv (e : String) (p : Pass)                  -- account extended private key m/44'/c'/1'
  | addrPriv (e : String) (p : Pass) (branch idx : Nat)
  | key (n : Nat)                                     -- random secretbox key number n
  | pass (p : Pass)                                   -- a passphrase (private or public)
  deriving DecidableEq, Repr, Inhabited

inductive Term
  | secret (s : Sec)
  | pub (tag : String)
  | rnd (n : Nat)                                     -- public random value (salt)
  | enc (k t : Term)
  | kdf (salt pass : Term)
  | hash (t : Term)
  | pair (a b : Term)
  deriving DecidableEq, Repr, Inhabited

/-- "may be public": no secret occurs outside an encryption under a key that may not be public.
    `hash` is one-way; `kdf` output is key material: public only if computable from public inputs. -/
def pubOk : Term → Bool
  | .secret _ => false
  | .pub _ => true
  | .rnd _ => true
  | .enc k t => pubOk t || !pubOk k
  | .kdf s p => pubOk s && pubOk p
  | .hash _ => true
  | .pair a b => pubOk a && pubOk b

/-- Dolev–Yao closure of a visible set: analysis (projections, decryption with a derivable key) and
    synthesis (pairing, encryption, hashing, key derivation), public constants known. -/
inductive Derivable (V : List Term) : Term → Prop
  | ax {t} : t ∈ V → Derivable V t
  | pubC (s) : Derivable V (.pub s)
  | rndC (n) : Derivable V (.rnd n)
  | fst {a b} : Derivable V (.pair a b) → Derivable V a
  | snd {a b} : Derivable V (.pair a b) → Derivable V b
  | dec {k t} : Derivable V (.enc k t) → Derivable V k → Derivable V t
  | mkPair {a b} : Derivable V a → Derivable V b → Derivable V (.pair a b)
  | mkEnc {k t} : Derivable V k → Derivable V t → Derivable V (.enc k t)
  | mkHash {t} : Derivable V t → Derivable V (.hash t)
  | mkKdf {s p} : Derivable V s → Derivable V p → Derivable V (.kdf s p)

-- ------------------------------------------------------------------ snacl

def passT (p : Pass) : Term := .secret (.pass p)

/-- scrypt(salt, pass): the key of a snacl.SecretKey -/
def masterKey (salt : Nat) (p : Pass) : Term := .kdf (.rnd salt) (passT p)

/-- SecretKey.Marshal: salt ‖ sha256(key) (‖ N, R, P) -/
def paramsT (salt : Nat) (p : Pass) : Term := .pair (.rnd salt) (.hash (masterKey salt p))

/-- the passphrase ends in a zero byte (hex token ends in "00"): snacl refuses to derive from it, because
    HMAC's zero padding would make it derive the key of the passphrase without those bytes -/
def lastTwoZero : List Char → Bool
  | [] => false
  | [_] => false
  | [a, b] => a == '0' && b == '0'
  | _ :: rest => lastTwoZero rest

def evenLen : List Char → Bool
  | [] => true
  | [_] => false
  | _ :: _ :: r => evenLen r

def endsZero (p : Pass) : Bool := evenLen p.toList && lastTwoZero p.toList

/-- SecretKey.Unmarshal + DeriveKey: derive from the candidate passphrase, compare the digest -/
def deriveKey (params : Term) (p : Pass) : Option Term :=
  if endsZero p then none else
  match params with
  | .pair salt digest =>
    let k := Term.kdf salt (passT p)
    if Term.hash k = digest then some k else none
  | _ => none

/-- CryptoKey.Decrypt (secretbox.Open): succeeds exactly with the key the box was sealed with -/
def dec (k c : Term) : Option Term :=
  match c with
  | .enc k' t => if k' = k then some t else none
  | _ => none

-- ------------------------------------------------------------------ store

/-- key names of keystore/db.go (per account bucket), the `pub` sub-bucket and the `aid` bucket -/
inductive KeyName
  | kver | remark | mpriv | mpub | cpriv | cpub | cent | ent | coinType | account
  | acct (n : Nat) | exb | inb | exNum | inNum
  | pubk (branch idx : Nat)
  | aid
  deriving DecidableEq, Repr, Inhabited

/-- the literal key of keystore/db.go for the fixed key names (computed keys: account row = uint32 LE of the
    account number, public-key entries = branch ‖ index, account-id entries = the id itself) -/
def KeyName.dbName : KeyName → Option String
  | .kver => some "kver" | .remark => some "remark" | .mpriv => some "mpriv" | .mpub => some "mpub"
  | .cpriv => some "cpriv" | .cpub => some "cpub" | .cent => some "cent" | .ent => some "ent"
  | .coinType => some "coinType" | .account => some "account"
  | .exb => some "exbPubKey" | .inb => some "inbPubKey" | .exNum => some "exChildNum" | .inNum => some "inChildNum"
  | .acct _ => none | .pubk _ _ => none | .aid => none

def fixedKeys : List KeyName :=
  [.kver, .remark, .mpriv, .mpub, .cpriv, .cpub, .cent, .ent, .coinType, .account, .exb, .inb, .exNum, .inNum]

/-- (wallet bucket, key name) -/
abbrev Key := String × KeyName

abbrev DB := AMap.T Key Term

def dbGet (db : DB) (w : String) (k : KeyName) : Term := (AMap.get db (w, k)).getD (.pub "missing")

def putAll (db : DB) (es : List (Key × Term)) : DB := es.foldl (fun d e => AMap.put d e.1 e.2) db

/-- Bucket.Clear + DeleteBucket + deleteAccountID: every key of wallet `w` -/
def eraseWallet (db : DB) (w : String) : DB := db.filter (fun e => !decide (e.1.1 = w))

-- ------------------------------------------------------------------ records

/-- non-secret, persistent facts about one keystore (what AddrManager keeps besides key material) and
    the identity the harness knows it by. `pass` is GHOST knowledge (the passphrase the seed was
    derived with = the right private passphrase); no decision of the model reads it. -/
structure WRec where
  ent : String
  pass : Pass
  nExt : Nat
  nInt : Nat
  deriving DecidableEq, Repr, Inhabited

/-- volatile secret-bearing state of one AddrManager -/
structure AM where
  unlocked : Bool := false
  hashed : Option Pass := none          -- hashedPrivPassphrase = sha512(salt ‖ this passphrase)
  mkey : Option Term := none            -- masterKeyPriv.Key holds this key (none = zeroed)
  branch : Bool := false                -- branch private keys cached
  privs : List (Nat × Nat) := []        -- addresses whose private key is cached
  deriving DecidableEq, Repr, Inhabited

structure Export where
  wallet : String
  remarks : Term
  entEnc : Term
  privParams : Term
  cEntEnc : Term
  nExt : Nat
  nInt : Nat
  deriving Repr, Inhabited

def Export.terms (x : Export) : List Term := [x.remarks, x.entEnc, x.privParams, x.cEntEnc]

structure St where
  db : DB := []
  wal : AMap.T String (WRec × AM) := []            -- managedKeystores by symbolic name
  pubPass : Pass := "50756270617373313233343536"   -- "Pubpass123456" (harness default)
  idents : AMap.T String (String × Pass) := []     -- harness: name ↦ identity (entropy id, passphrase), ever bound
  exports : AMap.T String Export := []
  errs : List Term := []
  nonce : Nat := 0
  deriving Repr, Inhabited

/-- everything an attacker with the disk, the exported files and the error messages sees -/
def visible (st : St) : List Term :=
  st.db.map (·.2) ++ st.exports.flatMap (fun e => e.2.terms) ++ st.errs

inductive Out
  | ok
  | okName (w : String)
  | err (cls : String)
  | badOp
  deriving DecidableEq, Repr, Inhabited

def Out.render : Out → String
  | .ok => "ok"
  | .okName w => "ok:" ++ w
  | .err c => "err:" ++ c
  | .badOp => "bad-op"

-- ------------------------------------------------------------------ passphrase rules

def passChar (b : UInt8) : Bool :=
  (48 ≤ b.toNat && b.toNat ≤ 57) || (65 ≤ b.toNat && b.toNat ≤ 90) || (97 ≤ b.toNat && b.toNat ≤ 122) ||
  b.toNat == 64 || b.toNat == 35 || b.toNat == 36 || b.toNat == 37 || b.toNat == 94 || b.toNat == 38

/-- keystore.ValidatePassphrase: ^[0-9a-zA-Z@#$%^&]{6,40}$ -/
def validPass (p : Pass) : Bool :=
  match Hex.decode p with
  | some bs => decide (6 ≤ bs.length) && decide (bs.length ≤ 40) && bs.all passChar
  | none => false

/-- validateEntropyBitSize (0 = default 128) -/
def validBits (b : Nat) : Bool := b == 0 || (b % 32 == 0 && decide (128 ≤ b) && decide (b ≤ 256))

-- ------------------------------------------------------------------ AddrManager primitives

/-- addrmgr.go checkPassword: none = ErrInvalidPassphrase -/
def checkPassword (params : Term) (a : AM) (p : Pass) : Option AM :=
  if a.unlocked then (if a.hashed = some p then some a else none)
  else match deriveKey params p with
    | some k => some { a with mkey := some k }
    | none => none

/-- safelyCheckPassword: check, then zero the master key it derived (only when locked: while unlocked
    the derived key backs the cached unlock state and is left alone) -/
def safelyCheckPassword (params : Term) (a : AM) (p : Pass) : Option AM :=
  (checkPassword params a p).map (fun a' => if a'.unlocked then a' else { a' with mkey := none })

/-- clearPrivKeys -/
def clearPrivKeys (_ : AM) : AM := {}

/-- KeystoreManager.ClearPrivKey: every managed keystore -/
def clearAll (wal : AMap.T String (WRec × AM)) : AMap.T String (WRec × AM) :=
  wal.map (fun e => (e.1, (e.2.1, clearPrivKeys e.2.2)))

def setAM (st : St) (w : String) (r : WRec) (a : AM) : St := { st with wal := AMap.put st.wal w (r, a) }

def fail (st : St) (cls : String) : St × Out := ({ st with errs := st.errs ++ [.pub cls] }, .err cls)

-- ------------------------------------------------------------------ bucket contents

/-- createManagerKeyScope: account id, coin type, account row, branch keys, counters, public keys -/
def scopeEntries (w : String) (e : String) (p : Pass) (nExt nInt : Nat) (kPub kPriv : Term) : List (Key × Term) :=
  [ ((w, .aid), .pub "0"),
    ((w, .coinType), .pub "coin"),
    ((w, .account), .pub "1"),
    ((w, .acct 1), .pair (.enc kPub (.pub "acct-xpub")) (.enc kPriv (.secret (.acctPriv e p)))),
    ((w, .exb), .enc kPub (.pub "branch-xpub")),
    ((w, .inb), .enc kPub (.pub "branch-xpub")),
    ((w, .exNum), .pub "n"),
    ((w, .inNum), .pub "n") ]
  ++ (List.range nInt).map (fun i => ((w, .pubk 1 i), .enc kPub (.pub "pubkey")))
  ++ (List.range nExt).map (fun i => ((w, .pubk 0 i), .enc kPub (.pub "pubkey")))

/-- initAcctBucket / allocAddrMgrNamespace: version, master key params, entropy, crypto keys -/
def acctEntries (w : String) (e : String) (p : Pass) (nExt nInt : Nat)
    (privParams mkPriv mkPubParams mkPub : Term) (kPub kPriv kEnt : Nat) : List (Key × Term) :=
  scopeEntries w e p nExt nInt (.secret (.key kPub)) (.secret (.key kPriv))
  ++ [ ((w, .kver), .pub "0"),
       ((w, .mpriv), privParams),
       ((w, .mpub), mkPubParams),
       ((w, .ent), .enc (.secret (.key kEnt)) (.secret (.entropy e))),
       ((w, .cpub), .enc mkPub (.secret (.key kPub))),
       ((w, .cpriv), .enc mkPriv (.secret (.key kPriv))),
       ((w, .cent), .enc mkPriv (.secret (.key kEnt))) ]

-- ------------------------------------------------------------------ operations

inductive Op
  | create (w : String) (p : Pass) (bits : Nat)
  | newAddr (w : String)
  | exportKS (w : String) (p : Pass) (k : String)
  | importKS (k : String) (p : Pass)
  | importMn (w : String) (p : Pass) (src : String) (ext int : Nat)
  | mnemonic (w : String) (p : Pass)
  | remove (w : String) (p : Pass)
  | chpub (old new : Pass)
  | chpriv (w : String) (old new : Pass)
  | signHash (w : String) (branch idx : Nat) (p : Pass)
  | ksSign (w : String) (branch idx : Nat) (p : Pass)     -- KeystoreManager.SignHash (keystore level, no clearing)
  | ksClear                                                -- KeystoreManager.ClearPrivKey
  | restart (pub : Pass)
  deriving Repr, Inhabited

/-- config.DefaultAddressGapLimit -/
def gapLimit : Nat := 20

def create (st : St) (w : String) (p : Pass) (bits : Nat) : St × Out :=
  if (AMap.get st.idents w).isSome then (st, .badOp) else
  if !validPass p then fail st "illegal" else
  if !validPass st.pubPass then fail st "illegal" else
  if endsZero p then fail st "illegal" else      -- (unreachable: a legal passphrase has no zero byte; NewSecretKey would refuse)
  if p = st.pubPass then fail st "pubpriv" else
  if !validBits bits then fail st "script" else
  let n := st.nonce
  -- secretKeyGen ×2 (salts n, n+1), newCryptoKey ×3 (keys n+2, n+3, n+4)
  let es := acctEntries w w p 0 0 (paramsT (n+1) p) (masterKey (n+1) p) (paramsT n st.pubPass) (masterKey n st.pubPass)
              (n+2) (n+3) (n+4)
  ({ st with db := putAll st.db es, wal := AMap.put st.wal w (⟨w, p, 0, 0⟩, {}),
             idents := AMap.put st.idents w (w, p), nonce := n + 5 }, .ok)

/-- NewAddress (external branch): updateChildNum + putEncryptedPubKey -/
def newAddr (st : St) (w : String) : St × Out :=
  match AMap.get st.wal w with
  | none => (st, .err "use")
  | some (r, a) =>
    if r.nExt ≥ gapLimit then (st, .err "gap") else
    let kPub := match dbGet st.db w .exb with | .enc k _ => k | _ => .pub "missing"
    let db := AMap.put (AMap.put st.db (w, .exNum) (.pub "n")) (w, .pubk 0 r.nExt) (.enc kPub (.pub "pubkey"))
    ({ st with db := db, wal := AMap.put st.wal w ({ r with nExt := r.nExt + 1 }, a) }, .ok)

/-- addrmgr.go export: the fields of the keystore JSON -/
def exportOf (st : St) (w : String) (r : WRec) : Export :=
  { wallet := w, remarks := .pub "", entEnc := dbGet st.db w .ent, privParams := dbGet st.db w .mpriv,
    cEntEnc := dbGet st.db w .cent, nExt := r.nExt, nInt := r.nInt }

def exportKS (st : St) (w : String) (p : Pass) (k : String) : St × Out :=
  match AMap.get st.wal w with
  | none => fail st "noacct"
  | some (r, a) =>
    match safelyCheckPassword (dbGet st.db w .mpriv) a p with
    | none => fail st "pass"
    | some a' =>
      let st := setAM st w r a'
      ({ st with exports := AMap.put st.exports k (exportOf st w r) }, .ok)

/-- getMnemonic: decrypt crypto-entropy key with the master key, then the entropy -/
def mnemonic (st : St) (w : String) (p : Pass) : St × Out :=
  match AMap.get st.wal w with
  | none => fail st "noacct"
  | some (r, a) =>
    match checkPassword (dbGet st.db w .mpriv) a p with
    | none => fail st "pass"
    | some a1 =>
      let res := do
        let k ← a1.mkey
        let ck ← dec k (dbGet st.db w .cent)
        dec ck (dbGet st.db w .ent)
      let a2 := if a1.unlocked then a1 else { a1 with mkey := none }
      let st := setAM st w r a2
      match res with
      | some (.secret (.entropy _)) => (st, .ok)
      | _ => fail st "script"

/-- RemoveWallet: CheckPrivPassphrase, then (asyncRemove) DeleteKeystore -/
def remove (st : St) (w : String) (p : Pass) : St × Out :=
  match AMap.get st.wal w with
  | none => fail st "noacct"
  | some (_, a) =>
    match safelyCheckPassword (dbGet st.db w .mpriv) a p with
    | none => fail st "pass"
    | some _ =>
      ({ st with db := eraseWallet st.db w, wal := AMap.erase st.wal w }, .ok)

/-- ImportKeystore / allocAddrMgrNamespace -/
def importKS (st : St) (k : String) (p : Pass) : St × Out :=
  match AMap.get st.exports k with
  | none => (st, .badOp)
  | some x =>
    match deriveKey x.privParams p with
    | none => fail st "pass"
    | some mkPriv =>
      match (do let ck ← dec mkPriv x.cEntEnc; dec ck x.entEnc) with
      | some (.secret (.entropy e)) =>
        if endsZero st.pubPass then fail st "script" else      -- secretKeyGen(public passphrase)
        if (AMap.get st.wal x.wallet).isSome then fail st "dup" else
        let n := st.nonce
        let nExt := if x.nExt = 0 then 1 else x.nExt
        -- secretKeyGen (pub; salt n), newCryptoKey ×3 (n+1, n+2, n+3); private params are re-used
        let es := acctEntries x.wallet e p nExt x.nInt x.privParams mkPriv (paramsT n st.pubPass) (masterKey n st.pubPass)
                    (n+1) (n+2) (n+3)
        ({ st with db := putAll st.db es, wal := AMap.put st.wal x.wallet (⟨e, p, nExt, x.nInt⟩, {}), nonce := n + 4 }, .ok)
      | _ => fail st "script"

/-- the symbolic name the harness knows an identity (entropy, passphrase) by; `w` if it is new -/
def identName (st : St) (e : String) (p : Pass) (w : String) : String :=
  match st.idents.find? (fun x => x.2 = (e, p)) with | some x => x.1 | none => w

/-- ImportKeystoreWithMnemonic: no passphrase gate (the mnemonic is the credential) -/
def importMn (st : St) (w : String) (p : Pass) (src : String) (ext int : Nat) : St × Out :=
  match AMap.get st.idents src with
  | none => (st, .badOp)
  | some (e, _) =>
    let name := identName st e p w
    if name = w && (AMap.get st.idents w).isSome && (AMap.get st.idents w) ≠ some (e, p) then (st, .badOp) else
    if endsZero st.pubPass || endsZero p then fail st "script" else      -- secretKeyGen ×2 precede the duplicate check
    if (AMap.get st.wal name).isSome then fail st "dup" else
    let n := st.nonce
    let nExt := if ext = 0 then 1 else ext
    let es := acctEntries name e p nExt int (paramsT (n+1) p) (masterKey (n+1) p) (paramsT n st.pubPass) (masterKey n st.pubPass)
                (n+2) (n+3) (n+4)
    ({ st with db := putAll st.db es, wal := AMap.put st.wal name (⟨e, p, nExt, int⟩, {}),
               idents := AMap.put st.idents name (e, p), nonce := n + 5 }, .okName name)

/-- ChangePubPassphrase, per keystore: safelyCheckPassword(new) must FAIL (the new public passphrase must
    not be the private one) and the old public passphrase must open mpub / cpub -/
def chpubCheck (st : St) (old new : Pass) : Option String :=
  st.wal.findSome? (fun e =>
    let w := e.1
    match safelyCheckPassword (dbGet st.db w .mpriv) e.2.2 new with
    | some _ => some "pubpriv"
    | none =>
      match deriveKey (dbGet st.db w .mpub) old with
      | none => some "script"
      | some mkOld => match dec mkOld (dbGet st.db w .cpub) with
        | none => some "script"
        | some _ => none)

/-- ChangePubPassphrase, the writes: putMasterKeyParams(pub) + putCryptoKeys(pub) per keystore, a fresh salt each -/
def chpubWrites (st : St) (old new : Pass) : DB × Nat :=
  st.wal.foldl (fun (acc : DB × Nat) e =>
    let w := e.1
    let ck := match deriveKey (dbGet st.db w .mpub) old with
      | some mkOld => (dec mkOld (dbGet st.db w .cpub)).getD (.pub "missing")
      | none => .pub "missing"
    (AMap.put (AMap.put acc.1 (w, .mpub) (paramsT acc.2 new)) (w, .cpub) (.enc (masterKey acc.2 new) ck), acc.2 + 1))
    (st.db, st.nonce)

/-- ChangePubPassphrase: all keystores or none (one database transaction) -/
def chpub (st : St) (old new : Pass) : St × Out :=
  if !validPass new then fail st "illegal" else
  if new = old then fail st "same" else
  match chpubCheck st old new with
  | some c => fail st c
  | none =>
    let r := chpubWrites st old new
    ({ st with db := r.1, nonce := r.2, pubPass := new }, .ok)

/-- ChangePrivPassphrase: keystore version 0 never allows it -/
def chpriv (st : St) (w : String) (old new : Pass) : St × Out :=
  match AMap.get st.wal w with
  | none => (st, .err "use")
  | some (_, a) =>
    if !validPass new then fail st "illegal" else
    if new = old then fail st "same" else
    if new = st.pubPass then fail st "pubpriv" else
    if a.unlocked then fail st "timing" else
    fail st "notallowed"

/-- signBtcec + getPrivKeyBtcec on one AddrManager (no clearing) -/
def signBtcec (db : DB) (w : String) (r : WRec) (a : AM) (branch idx : Nat) (p : Pass) : AM × Out :=
  let known := if branch = 0 then decide (idx < r.nExt) else decide (branch = 1) && decide (idx < r.nInt)
  if !known then (a, .err "key") else
  match checkPassword (dbGet db w .mpriv) a p with
  | none => (a, .err "pass")
  | some a1 =>
    let a2 := if a1.unlocked then a1 else { a1 with unlocked := true, hashed := some p }
    if a2.privs.contains (branch, idx) then (a2, .ok) else
    if a2.branch then ({ a2 with privs := (branch, idx) :: a2.privs }, .ok) else
    let res := do
      let k ← a2.mkey
      let ck ← dec k (dbGet db w .cpriv)
      match dbGet db w (.acct 1) with
      | .pair _ privEnc => dec ck privEnc
      | _ => none
    match res with
    | some (.secret (.acctPriv _ _)) => ({ a2 with branch := true, privs := (branch, idx) :: a2.privs }, .ok)
    | _ => (a2, .err "script")

/-- WalletManager.SignHash: sign, then ClearPrivKey on every keystore -/
def signHash (st : St) (w : String) (branch idx : Nat) (p : Pass) : St × Out :=
  match AMap.get st.wal w with
  | none => (st, .err "key")
  | some (r, a) =>
    -- whatever signBtcec cached, the deferred ClearPrivKey wipes it on every keystore
    let o := (signBtcec st.db w r a branch idx p).2
    let st := { st with wal := clearAll st.wal }
    match o with
    | .err c => fail st c
    | o => (st, o)

/-- KeystoreManager.SignHash: signBtcec on the address manager; the unlock state it leaves stays -/
def ksSign (st : St) (w : String) (branch idx : Nat) (p : Pass) : St × Out :=
  match AMap.get st.wal w with
  | none => (st, .err "key")
  | some (r, a) =>
    match signBtcec st.db w r a branch idx p with
    | (a', .err c) =>
      -- the passphrase / unknown-address refusals leave the manager as it was (a' = a); a decryption
      -- failure happens after the unlock flag is set (unreachable on a sealed bucket)
      if c = "script" then fail (setAM st w r a') c else fail st c
    | (a', o) => (setAM st w r a', o)

/-- KeystoreManager.ClearPrivKey -/
def ksClear (st : St) : St × Out := ({ st with wal := clearAll st.wal }, .ok)

/-- process restart: NewKeystoreManager(pub) loads every account; volatile state is lost -/
def restart (st : St) (pub : Pass) : St × Out :=
  let st := { st with wal := clearAll st.wal }
  if pub = "-" then fail st "pub" else
  if st.wal.all (fun e => (deriveKey (dbGet st.db e.1 .mpub) pub).isSome) then ({ st with pubPass := pub }, .ok)
  else fail st "pub"

def step (st : St) : Op → St × Out
  | .create w p b => create st w p b
  | .newAddr w => newAddr st w
  | .exportKS w p k => exportKS st w p k
  | .importKS k p => importKS st k p
  | .importMn w p s e i => importMn st w p s e i
  | .mnemonic w p => mnemonic st w p
  | .remove w p => remove st w p
  | .chpub o n => chpub st o n
  | .chpriv w o n => chpriv st w o n
  | .signHash w b i p => signHash st w b i p
  | .ksSign w b i p => ksSign st w b i p
  | .ksClear => ksClear st
  | .restart p => restart st p

def run (st : St) (ops : List Op) : St := ops.foldl (fun s o => (step s o).1) st

-- ------------------------------------------------------------------ harness-side oracles

/-- `kdecrypt`: what a holder of the database and of passphrase `p` obtains with snacl alone -/
def decryptOracle (st : St) (w : String) (p : Pass) : Out :=
  match AMap.get st.wal w with
  | none => .err "noacct"
  | some (r, _) =>
    match deriveKey (dbGet st.db w .mpriv) p with
    | none => .err "pass"
    | some mk =>
      let ent := do
        let ck ← dec mk (dbGet st.db w .cent)
        dec ck (dbGet st.db w .ent)
      let acct := do
        let ck ← dec mk (dbGet st.db w .cpriv)
        match dbGet st.db w (.acct 1) with
        | .pair _ privEnc => dec ck privEnc
        | _ => none
      if ent = some (.secret (.entropy r.ent)) && acct = some (.secret (.acctPriv r.ent r.pass)) then .ok
      else .err "mismatch"

/-- `kscan`: is every visible term free of exposed secrets? (decidable side of no_clear_secret) -/
def scanClean (st : St) : Bool := (visible st).all pubOk

end MW.Model.Secrets
