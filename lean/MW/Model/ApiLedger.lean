/-
  C19: the txmgr lookups behind the ledger-backed CONTRACTS of the API skeletons, as functions of the
  ledger model (MW.Model.Ledger: `Store`, `Node`). Followed: masswallet/txmgr/txstore.go `ExistsTx`.

  ExistsTx(out): the block of the credit of outpoint `out` – from the unspent index of the wallet in use,
  else the first credit with that transaction hash and index – then the tx record (hash, block), then the
  transaction re-read from the node at the recorded (height, location), refused unless its hash is `out.Hash`.
  Core Lean only (used by the driver MW.Drv.Api and by MW.Lemmas.ApiBackedLedger).
-/
import MW.Model.Ledger
import MW.Model.TxLoc
namespace MW.Model.ApiLedger
open MW MW.Model.Ledger

/-- the block the credit of (tx, idx) is recorded in: existsUnspent(current wallet), else getCreditsByTxHash -/
def creditBlock (s : Store) (cur : Wid) (tx : TxId) (idx : Nat) : Option BlockMeta :=
  match AMap.get s.unspent (cur, tx, idx) with
  | some blk => some blk
  | none => (s.credits.find? (fun e => e.1.tx = tx && e.1.idx = idx)).map (·.1.blk)

/-- TxStore.ExistsTx: the transaction and the block meta, `none` = ErrNotFound / a read error.  `len` = encoded length of a
    transaction: FetchTxByLoc reads by BYTE offset inside whatever block is at the recorded height now (`Node.txAtLoc`,
    MW.Model.TxLoc) - a wallet left on a replaced block still finds a transaction the replacing block carries at the same
    offset -/
def existsTx (len : Tx → Nat) (s : Store) (node : Node) (cur : Wid) (tx : TxId) (idx : Nat) : Option (Tx × BlockMeta) :=
  match creditBlock s cur tx idx with
  | none => none
  | some blk =>
    match AMap.get s.txrecs (tx, blk) with            -- existsTxRecord + readTxRecordLoc
    | none => none
    | some loc =>
      match node.txAtLoc len blk.height loc with      -- chainFetcher.FetchTxByLoc
      | some t => if t.id = tx then some (t, blk) else none     -- "tx hash mismatch" → ErrNotFound
      | none => none

/-- the record-level reading (location = block id + index; `none` as soon as the block at that height is another one) -/
def existsTxRec (s : Store) (node : Node) (cur : Wid) (tx : TxId) (idx : Nat) : Option (Tx × BlockMeta) :=
  match creditBlock s cur tx idx with
  | none => none
  | some blk =>
    match AMap.get s.txrecs (tx, blk) with
    | none => none
    | some loc =>
      match node.txByLoc blk.height loc with
      | some t => if t.id = tx then some (t, blk) else none
      | none => none

/-- whatever the record-level reading finds, the byte-level reading finds -/
theorem existsTxRec_existsTx (len : Tx → Nat) (s : Store) (node : Node) (cur : Wid) (tx : TxId) (idx : Nat)
    (r : Tx × BlockMeta) (h : existsTxRec s node cur tx idx = some r) : existsTx len s node cur tx idx = some r := by
  unfold existsTxRec at h
  unfold existsTx
  cases hb : creditBlock s cur tx idx with
  | none => rw [hb] at h; cases h
  | some blk =>
    rw [hb] at h
    simp only at h ⊢
    cases hr : AMap.get s.txrecs (tx, blk) with
    | none => rw [hr] at h; cases h
    | some loc =>
      rw [hr] at h
      simp only at h ⊢
      cases hf : node.txByLoc blk.height loc with
      | none => rw [hf] at h; cases h
      | some t =>
        rw [hf] at h
        rw [MW.Model.TxLoc.txByLoc_txAtLoc len node blk.height loc t hf]
        exact h

/-- what `existsMsgTx` reads of the result: [prevTx ≠ nil, block ≠ nil, error id, error is ErrNotFound,
    len(prevTx.TxOut)]; `notFound` = the id the skeletons use for txmgr.ErrNotFound -/
def existsTxAnswer (notFound : Nat) (r : Option (Tx × BlockMeta)) : List Nat :=
  match r with
  | some (t, _) => [1, 1, 0, 0, t.outs.length]
  | none => [0, 0, notFound, 1, 0]

/-- what `existsUnminedTx` reads of `w.txStore.ExistUnminedTx(hash)`: [prevTx ≠ nil, error id, len(prevTx.TxOut)],
    from the pending table of the store -/
def existUnminedAnswer (notFound : Nat) (r : Option Tx) : List Nat :=
  match r with
  | some t => [1, 0, t.outs.length]
  | none => [0, notFound, 0]

/-- TxStore.ExistsUtxo(out) as `existsOutPoint` reads it: 0 = found, unspent; 1 = found, spent; 2 = not found / error.
    The unspent index of the wallet in use (then its credit), else the mined credits of that transaction hash,
    else - only when the hash has no mined credit at all - the unmined credit of the outpoint. -/
def existsUtxo (s : Store) (cur : Wid) (tx : TxId) (vout : Nat) : Nat :=
  match AMap.get s.unspent (cur, tx, vout) with
  | some blk =>
    match AMap.get s.credits ⟨tx, blk, vout⟩ with
    | some c => if c.spent then 2 else 0
    | none => 2
  | none =>
    let cs := s.credits.filter (fun e => e.1.tx = tx)
    match cs.find? (fun e => e.1.idx = vout) with
    | some e => if e.2.spent then 1 else 2
    | none =>
      if cs.isEmpty then
        match AMap.get s.pendCred (tx, vout) with
        | some c => if c.spent then 2 else 0
        | none => 2
      else 2

/-- what `existsOutPoint` reads of the result: [flags ≠ nil, error id] -/
def existsUtxoAnswer (notFound : Nat) (r : Nat) : List Nat :=
  if r < 2 then [1, 0] else [0, notFound]

end MW.Model.ApiLedger
