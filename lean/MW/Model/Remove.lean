/-
  MODEL of wallet removal — C08.

  Go code followed (masswallet/…):
    wallet.go          RemoveWallet (IsWorkerBusy, CheckPrivPassphrase)
    ntfnshandler.go    OnRemoveWallet, asyncRemove (one step = one database transaction), removeWalletIndexes
    txmgr/syncstore.go MarkDeleteWallet, DeleteWalletStatus
    txmgr/txstore.go   RemoveRelevantTx (with the D45 repair: a tx record stays while a credit / debit under its
                       key is left), removableTxForRemoveWallet, spendsCreditOfOtherWallet,
                       checkBlockRecordAfterTxRemoved
    txmgr/utxostore.go removeRelevantUnminedCredit, removeRelevantCredit (the 20000-credit step and the
                       "same transaction at two heights" break), hasCreditOrDebitOfTx, Remove{Unspent,Address,GameHistory}ByWalletId,
                       RemoveMinedBalance
    keystore/manager.go DeleteKeystore (the driver drops the wallet's `own` entries)
  on top of MW.Model.Ledger.Store.  Everything here is a filter / fold over association maps, so that
  the theorems of MW.Props.C08 can be proved for arbitrary stores.

  asyncRemove as it is after the C08 repair: every step runs RemoveRelevantTx; the step that reports
  `finish` also deletes, in the same transaction, the records keyed by the wallet id, the wallet
  status and the keystore.
-/
import MW.Model.Ledger
import MW.Gen.Handler
namespace MW.Model.Remove
open MW MW.Model.Ledger

-- ------------------------------------------------------------------ gating (wallet.go, OnRemoveWallet)

inductive GateRes | ok | busy | noWallet | badPass | unready | err
  deriving DecidableEq, Repr

/-- RemoveWallet: IsWorkerBusy, then CheckPrivPassphrase (keystore must exist, passphrase must match),
    then OnRemoveWallet (status must exist and be ready).  Returns the store with the removal flag set. -/
def removeWallet (queueLen : Nat) (keystores : List Wid) (passOk : Bool) (s : Store) (w : Wid) : GateRes × Store :=
  if queueLen ≥ Gen.Handler.maxWaitingTaskNum then (.busy, s)
  else if !keystores.contains w then (.noWallet, s)
  else if !passOk then (.badPass, s)
  else match AMap.get s.status w with
    | none => (.err, s)
    | some st =>
      if st.synced.isSome then (.unready, s)
      else (.ok, { s with status := AMap.put s.status w { st with removed := true } })

-- ------------------------------------------------------------------ utxostore.go

/-- removeRelevantUnminedCredit: every unmined credit paying one of the script hashes goes; returns the hashes of
    the transactions hit — the ones that created such a credit and the unmined ones that spend it (read from the
    spent mark of the outpoint, which stays: the caller takes out of the marks the spenders it deletes) -/
def removeRelevantUnminedCredit (s : Store) (addrs : List Addr) : Store × List TxId :=
  let hit := s.pendCred.filter (fun e => addrs.contains e.2.sh)
  ({ s with pendCred := s.pendCred.filter (fun e => !addrs.contains e.2.sh) },
   (hit.map (fun e => e.1.1) ++ hit.flatMap (fun e => (AMap.get s.pendIns e.1).getD [])).eraseDups)

/-- state of the credit scan of removeRelevantCredit -/
structure Scan where
  s : Store
  count : Nat := 0
  heightOf : AMap.T TxId Nat := []
  spenders : List TxId := []        -- unmined transactions spending a deleted credit (their spent marks)
  finish : Bool := true
  stopped : Bool := false
  failed : Bool := false            -- "debit missing": spent credit without spender key
  deriving Inhabited

/-- `exist && hgt != cred.block.Height`: the same transaction was already met at another height -/
def twoHeights (heightOf : AMap.T TxId Nat) (k : CredKey) : Bool :=
  match AMap.get heightOf k.tx with
  | some h => h != k.blk.height
  | none => false

/-- the debit a deleted credit takes with it: `.error` = flagged spent without spender key ("debit missing") -/
def spender (c : Credit) : Except Unit (Option CredKey) :=
  if c.spent then (match c.spentBy with | some dk => .ok (some dk) | none => .error ()) else .ok none

/-- deleteRawCredit (the spent mark of the outpoint stays; its spenders are collected) -/
def deleteCredit (s : Store) (k : CredKey) : Store :=
  { s with credits := AMap.erase s.credits k }

def dropDebit (s : Store) : Option CredKey → Store
  | some dk => { s with debits := AMap.erase s.debits dk }
  | none => s

/-- the transaction that spent a deleted credit may have been recorded only because of that: it joins the
    transactions whose tx record is examined (unless already there) -/
def noteSpender (heightOf : AMap.T TxId Nat) : Option CredKey → AMap.T TxId Nat
  | some dk => if (AMap.get heightOf dk.tx).isSome then heightOf else AMap.put heightOf dk.tx dk.blk.height
  | none => heightOf

/-- one iteration of the loop over the credits bucket -/
def scanCredit (limit : Nat) (addrs : List Addr) (sc : Scan) (e : CredKey × Credit) : Scan :=
  if sc.stopped || sc.failed then sc
  else if !addrs.contains e.2.sh then sc
  else if sc.count ≥ limit || twoHeights sc.heightOf e.1 then { sc with finish := false, stopped := true }
  else match spender e.2 with
    | .error _ => { sc with failed := true }
    | .ok d => { sc with s := dropDebit (deleteCredit sc.s e.1) d, count := sc.count + 1,
                         heightOf := AMap.put (noteSpender sc.heightOf d) e.1.tx e.1.blk.height,
                         spenders := sc.spenders ++ (AMap.get sc.s.pendIns (e.1.tx, e.1.idx)).getD [] }

/-- removeRelevantCredit: iterate the credits bucket (in its stored order), at most `limit` deletions -/
def removeRelevantCredit (limit : Nat) (s : Store) (addrs : List Addr) : Scan :=
  s.credits.foldl (scanCredit limit addrs) { s := s }

-- ------------------------------------------------------------------ txstore.go

/-- spendsCreditOfOtherWallet: an input spends an output recorded as a mined or unmined credit whose
    script hash is not one of the removed wallet's -/
def spendsCreditOfOtherWallet (s : Store) (addrs : List Addr) (tx : Tx) : Bool :=
  !tx.cb && tx.ins.any (fun i =>
    s.credits.any (fun e => e.1.tx = i.tx && e.1.idx = i.idx && !addrs.contains e.2.sh) ||
    (match AMap.get s.pendCred (i.tx, i.idx) with
     | some c => !addrs.contains c.sh
     | none => false))

/-- removableTxForRemoveWallet: no output pays another managed wallet and no input spends another
    wallet's credit -/
def removable (own : Own) (s : Store) (addrs : List Addr) (tx : Tx) : Bool :=
  !(tx.outs.any (fun o => o.cls != .raw && !addrs.contains o.addr && (AMap.get own o.addr).isSome)) &&
  !spendsCreditOfOtherWallet s addrs tx

/-- one pending transaction hit by the unmined-credit scan: delete its record if nobody else needs it -/
def unminedStep (own : Own) (addrs : List Addr) (acc : Store × List TxId) (h : TxId) : Store × List TxId :=
  match AMap.get acc.1.pending h with
  | none => acc
  | some tx =>
    if removable own acc.1 addrs tx then
      -- deleteRawUnmined + removeUnminedInputsOf: its spent marks go with it, other spenders keep theirs
      ({ removeUnminedInputsOf acc.1 tx with pending := AMap.erase acc.1.pending h }, acc.2 ++ [h])
    else acc

/-- the unmined half of RemoveRelevantTx -/
def removeUnminedTxs (own : Own) (s : Store) (addrs : List Addr) (hashes : List TxId) : Store × List TxId :=
  hashes.foldl (unminedStep own addrs) (s, [])

/-- fetchRawTxRecordByHashHeight -/
def txRecordAt (s : Store) (id : TxId) (height : Nat) : Option ((TxId × BlockMeta) × (BlkId × Nat)) :=
  s.txrecs.find? (fun e => e.1.1 = id && e.1.2.height = height)

/-- hasCreditOrDebitOfTx (D45 repair): a credit or a debit keyed by the tx-record key (tx hash, block height, block
    hash) is left — `GetByPrefix(txRecordKey)` on the credits and on the debits bucket (it sees the deletions of the
    running transaction) -/
def inUse (s : Store) (k : TxId × BlockMeta) : Bool :=
  s.credits.any (fun e => e.1.tx = k.1 && e.1.blk = k.2) || s.debits.any (fun e => e.1.tx = k.1 && e.1.blk = k.2)

/-- one (transaction, height) pair of heightOfTx: delete the tx record if nobody else needs it and (D45 repair) no
    credit / debit under its key is left for a later step (Rollback reaches them through this record);
    `none` = FetchTxByFileLoc failed, the whole step fails -/
def minedStep (c : Ctx) (addrs : List Addr) (acc : Store × List (Nat × TxId)) (e : TxId × Nat) :
    Option (Store × List (Nat × TxId)) :=
  match txRecordAt acc.1 e.1 e.2 with
  | none => some acc                                        -- "tx not found, maybe already deleted"
  | some rec =>
    match c.node.txByFileLoc rec.2 with
    | none => none
    | some tx =>
      if removable c.own acc.1 addrs tx && !inUse acc.1 rec.1 then
        some ({ acc.1 with txrecs := AMap.erase acc.1.txrecs rec.1 }, acc.2 ++ [(rec.1.2.height, e.1)])
      else some acc

/-- the mined half: delete the tx records that nobody else needs; returns (store, deleted ids by height) -/
def removeMinedTxs (c : Ctx) (s : Store) (addrs : List Addr) (heightOf : AMap.T TxId Nat) :
    Option (Store × List (Nat × TxId)) :=
  heightOf.foldlM (minedStep c addrs) (s, [])

/-- one height of checkBlockRecordAfterTxRemoved -/
def blockStep (deleted : List (Nat × TxId)) (s : Store) (h : Nat) : Store :=
  match AMap.get s.blocks h with
  | none => s
  | some (bh, txs) =>
    let keep := txs.filter (fun t => !deleted.contains (h, t))
    if keep.isEmpty then { s with blocks := AMap.erase s.blocks h }
    else { s with blocks := AMap.put s.blocks h (bh, keep) }

/-- checkBlockRecordAfterTxRemoved -/
def checkBlockRecords (s : Store) (deleted : List (Nat × TxId)) : Store :=
  (deleted.map (·.1)).eraseDups.foldl (blockStep deleted) s

structure StepOut where
  s : Store
  removedTx : List TxId
  finish : Bool

/-- TxStore.RemoveRelevantTx: unmined credits and the unmined transactions found through them; the credit scan;
    the unmined transactions that only SPEND a deleted credit (found through its spent mark); the tx / block
    records nobody else needs -/
def removeRelevantTx (limit : Nat) (c : Ctx) (s : Store) (addrs : List Addr) : Option StepOut :=
  if addrs.isEmpty then some ⟨s, [], true⟩
  else
    let (s, uh) := removeRelevantUnminedCredit s addrs
    let (s, del1) := removeUnminedTxs c.own s addrs uh
    let sc := removeRelevantCredit limit s addrs
    if sc.failed then none
    else
      let (s, del3) := removeUnminedTxs c.own sc.s addrs sc.spenders
      match removeMinedTxs c s addrs sc.heightOf with
      | none => none
      | some (s, del2) => some ⟨checkBlockRecords s del2, del1 ++ del3 ++ del2.map (·.2), sc.finish⟩

/-- removeWalletIndexes: Remove{Unspent,Address,GameHistory}ByWalletId (prefix scans on the 42-byte wallet
    id: MW.Gen.Layout / layout_prefix_exact) and RemoveMinedBalance -/
def removeWalletIndexes (s : Store) (w : Wid) : Store :=
  { s with unspent := s.unspent.filter (fun e => e.1.1 != w),
           addrs := s.addrs.filter (fun e => e.1.1 != w),
           game := s.game.filter (fun e => e.1.wallet != w),
           pendGame := s.pendGame.filter (fun e => e.1.1 != w),
           balance := AMap.erase s.balance w }

/-- asyncRemove: ONE step (one database transaction); `none` = the transaction failed and rolled back.
    The finishing step also deletes the id-keyed records, the status and (driver) the keystore. -/
def removeStep (limit : Nat) (c : Ctx) (w : Wid) (addrs : List Addr) (s : Store) : Option StepOut :=
  match removeRelevantTx limit c s addrs with
  | none => none
  | some o =>
    if o.finish then
      let s := removeWalletIndexes o.s w
      some { o with s := { s with status := AMap.erase s.status w } }
    else some o

/-- RemoveMempoolTx on the volatile set -/
def removeMempool (v : Vol) (ids : List TxId) : Vol := { v with mempool := v.mempool.filter (fun i => !ids.contains i) }

end MW.Model.Remove
