/-
  MODEL of coin selection (DESIGN.md section 6, C02).

  Go code followed:
    masswallet/utxo_selector.go   newTopKSelector, (*topKSelector).adjust / submit / Items / K
    masswallet/tx.go              optOutputs (sort + greedy subset), the selection part of
                                  findEligibleUtxos (selector ∘ optOutputs, overfull flag)
  `base` is the array-backed min-heap exactly as written (sift-down on indices 2i+1 / 2i+2, loop
  bound `cur < k/2`, heap built only when the k-th coin arrives).  Amounts are `Nat`
  (massutil.Amount is a checked Uint128 ≤ MaxAmount; the additions that can fail are modelled as
  `Except`).
-/
import MW.Gen.TxBuild
namespace MW.Model.Select
open MW

/-- a wallet coin as the selection sees it (txmgr.Credit: Amount, OutPoint, ScriptHash) -/
structure Coin where
  amt : Nat
  id : String := ""       -- outpoint, symbolic "T:i"
  addr : String := ""     -- script hash, symbolic address name
  deriving DecidableEq, Repr, Inhabited

def sumAmt (l : List Coin) : Nat := (l.map (·.amt)).sum

/-- `k := blockchain.GetMaxStandardTxSize() / 154` -/
def kStd : Nat := Gen.TxBuild.maxStandardTxSize / Gen.TxBuild.kDivisor

structure Sel where
  k : Nat
  base : Array Coin := #[]
  guard : Option Coin := none
  req : Nat
  deriving Repr, Inhabited

def newSel (k req : Nat) : Sel := { k := k, req := req }

/-- `s.base[i].Amount` (0 outside the array; the selector only indexes inside, see `Heap`) -/
def amtAt (a : Array Coin) (i : Nat) : Nat := (a[i]?.map (·.amt)).getD 0

/-- `s.base[i], s.base[j] = s.base[j], s.base[i]` -/
def swapAt (a : Array Coin) (i j : Nat) : Array Coin :=
  if h : i < a.size ∧ j < a.size then a.swap i j h.1 h.2 else a

/-- the loop of `adjust`: `for cur < s.k/2 { pick the smaller child; swap if larger; else break }`.
    `fuel` bounds the iterations (`cur` strictly increases and stays below k/2; `adjust` passes k). -/
def adjustAux (k : Nat) : Nat → Array Coin → Nat → Array Coin
  | 0, a, _ => a
  | fuel + 1, a, cur =>
    if cur < k / 2 then
      let c0 := 2 * cur + 1
      let child := if c0 + 1 < k ∧ amtAt a c0 > amtAt a (c0 + 1) then c0 + 1 else c0
      if amtAt a cur > amtAt a child then adjustAux k fuel (swapAt a cur child) child
      else a
    else a

def adjust (k : Nat) (a : Array Coin) (i : Nat) : Array Coin := adjustAux k k a i

/-- `for i := s.k/2 - 1; i >= 0; i-- { s.adjust(i) }` written as a count-down from `n` = k/2 -/
def heapify (k : Nat) : Nat → Array Coin → Array Coin
  | 0, a => a
  | n + 1, a => heapify k n (adjust k a n)

/-- `(*topKSelector).submit` -/
def submit (s : Sel) (item : Coin) : Sel :=
  if item.amt > s.req then
    match s.guard with
    | none => { s with guard := some item }
    | some g => if item.amt < g.amt then { s with guard := some item } else s
  else if s.base.size < s.k then
    let base := s.base.push item
    if base.size = s.k then { s with base := heapify s.k (s.k / 2) base } else { s with base := base }
  else if s.k > 0 ∧ item.amt > amtAt s.base 0 then
    { s with base := adjust s.k (s.base.setIfInBounds 0 item) 0 }
  else s

def submitAll (s : Sel) (items : List Coin) : Sel := items.foldl submit s

/-- `Items()`: the base followed by the guard -/
def Sel.items (s : Sel) : List Coin := s.base.toList ++ (match s.guard with | some g => [g] | none => [])

-- ------------------------------------------------------------------ optOutputs

inductive Err | amount
  deriving Repr, DecidableEq, Inhabited

/-- loop state of optOutputs.  The Go code keeps index lists and reads `utxos[index]` after the
    loop; `utxos` is not modified in between, so each index is kept together with its coin. -/
structure GState where
  opt : Nat := 0                      -- optAmount
  res : Nat := 0                      -- sumReserve
  sel : List (Nat × Coin) := []       -- selectedUtIndex
  unsel : List (Nat × Coin) := []     -- unSelectedUtIndex
  deriving Repr, Inhabited

def maxAmount : Nat := Gen.TxBuild.maxAmount

/-- the `for index, u11 := range utxos` loop; `index == len(utxos)-1` ⇔ no coin follows -/
def greedyLoop (amount : Nat) : List Coin → Nat → GState → Except Err GState
  | [], _, st => .ok st
  | u :: rest, idx, st =>
    if st.res + u.amt > maxAmount then .error .amount else       -- sumReserve.Add / optAmount.Add
    let res := st.res + u.amt
    let opt := st.opt + u.amt
    if rest.isEmpty then
      let sel := st.sel ++ [(idx, u)]
      let sel :=
        if opt < amount then
          match st.unsel.getLast? with
          | some lu => sel.filter (fun e => e.1 < lu.1) ++ [lu]
          | none => sel
        else sel
      .ok { st with res := res, opt := opt, sel := sel }
    else if opt > amount then
      greedyLoop amount rest (idx + 1) { st with res := res, unsel := st.unsel ++ [(idx, u)] }
    else
      let st' := { st with res := res, opt := opt, sel := st.sel ++ [(idx, u)] }
      if opt = amount then .ok st' else greedyLoop amount rest (idx + 1) st'

/-- insert into a list sorted by amount, descending (after the coins that are not smaller) -/
def insertDesc (x : Coin) : List Coin → List Coin
  | [] => [x]
  | y :: t => if x.amt > y.amt then x :: y :: t else y :: insertDesc x t

/-- `sort.Slice(utxos, amount descending)`; ties are in unspecified order in Go, a stable insertion
    sort here (amount-level outputs do not depend on it; structural, so the kernel can evaluate it) -/
def sortDesc (l : List Coin) : List Coin := l.foldr insertDesc []

structure OptRes where
  sel : List Coin
  sum : Nat
  res : Nat
  deriving Repr, Inhabited, DecidableEq

/-- `optOutputs(amount, utxos)` -/
def optOutputs (amount : Nat) (utxos : List Coin) : Except Err OptRes :=
  if amount = 0 then .ok ⟨[], 0, 0⟩ else
  match greedyLoop amount (sortDesc utxos) 0 {} with
  | .error e => .error e
  | .ok st =>
    let sel := st.sel.map (·.2)
    -- sumSelection.Add in a loop: fails above MaxAmount
    if sumAmt sel > maxAmount then .error .amount else .ok ⟨sel, sumAmt sel, st.res⟩

/-- selection part of findEligibleUtxos: selector over the eligible coins, then optOutputs;
    returns (selection, found, overfull) -/
def pipeline (k amount : Nat) (coins : List Coin) : Except Err (List Coin × Nat × Bool) :=
  let s := submitAll (newSel k amount) coins
  let items := s.items
  let overfull := items.length == k          -- `len(items) == selector.K()`
  match optOutputs amount items with
  | .error e => .error e
  | .ok r => .ok (r.sel, r.sum, overfull && (items.length == r.sel.length))

end MW.Model.Select
