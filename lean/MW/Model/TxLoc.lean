/-
  MODEL of chainFetcher.FetchTxByLoc at BYTE level (mass-core database/ldb fetchTxDataByLoc, wire/msgblock.go
  Encode / DeserializeTxLoc, wire/msgtx.go ToProto + proto.Marshal).

  The wallet stores with every transaction record the location `wire.TxLoc{TxStart, TxLen}` of the transaction inside the
  serialised block it was mined in, and later reads `TxLen` bytes at `TxStart` of the block that is at that HEIGHT of the
  node's CURRENT best chain (ExistsTx then compares the hash of what it decoded with the hash it wanted).  The record-level
  model `Node.txByLoc` abstracts a location to (block id, index) and answers `none` as soon as the block at that height is
  another one.  That is too strict: when a reorganisation re-mines the SAME transaction at the SAME height behind
  transactions of the same total encoded size, the bytes at the recorded location of the new block ARE that transaction, and
  a wallet that has not yet been told about the reorganisation keeps resolving it (found by C03 thorough, seed 1:
  corpus/sec/C03-stale-same-offset.ops).  `Node.txAtLoc` is the faithful reading; it refines `Node.txByLoc`
  (`txByLoc_txAtLoc`).

  Block file layout (wire.DB): 8-byte length ‖ BlockBase (header + proposals) ‖ 8-byte transaction count ‖ for every
  transaction: 8-byte length ‖ protobuf encoding.  ASSUMPTION (true of the harness's blocks, which copy the genesis header and
  change Previous / Height / Timestamp only): two blocks of the same height have BlockBase encodings of the same length.
  Core Lean only.
-/
import MW.Model.Ledger
namespace MW.Model.TxLoc
open MW MW.Model.Ledger

/-- number of bytes of the base-128 varint of n -/
def varintLen (n : Nat) : Nat := if n < 128 then 1 else 1 + varintLen (n / 128)

/-- a proto3 varint field: omitted when zero -/
def vField (n : Nat) : Nat := if n = 0 then 0 else 1 + varintLen n

/-- a proto3 fixed64 field: omitted when zero -/
def f64Field (n : Nat) : Nat := if n = 0 then 0 else 9

/-- a proto3 bytes field: omitted when empty -/
def bField (len : Nat) : Nat := if len = 0 then 0 else 1 + varintLen len + len

/-- an embedded message (a non-nil pointer is written even when empty) -/
def mField (len : Nat) : Nat := 1 + varintLen len + len

/-- what decides the encoded length of a witness-free transaction -/
structure Shape where
  version : Nat := 1
  /-- `none`: the coinbase input (zero hash, index 2^32-1, sequence 2^64-1); else (index, sequence) per input, the previous
      hash having no all-zero 8-byte word -/
  ins : Option (List (Nat × Nat))
  /-- (value, script length) per output -/
  outs : List (Nat × Nat)
  lock : Nat := 0
  payload : Nat
  deriving Repr, Inhabited

def inLen (idx seq : Nat) : Nat := mField (mField (mField 36 + vField idx) + f64Field seq)

/-- the coinbase input: Hash{} is an empty message -/
def cbInLen : Nat := mField (mField (mField 0 + vField 0xffffffff) + f64Field 0xffffffffffffffff)

def outLen (amt script : Nat) : Nat := mField (vField amt + bField script)

/-- len(proto.Marshal(tx.ToProto())) -/
def Shape.dbLen (s : Shape) : Nat :=
  vField s.version
  + (match s.ins with
     | none => cbInLen
     | some is => (is.map (fun i => inLen i.1 i.2)).sum)
  + (s.outs.map (fun o => outLen o.1 o.2)).sum
  + vField s.lock + bField s.payload

/-- TxStart of transaction number k, counted from the first byte after the transaction count -/
def txStart (len : Tx → Nat) (txs : List Tx) (k : Nat) : Nat :=
  ((txs.take k).map (fun t => 8 + len t)).sum + 8

/-- chainFetcher.FetchTxByLoc(height, loc) where `loc` was recorded as transaction number `loc.2` of block `loc.1`:
    the transaction of the block NOW at `height` that starts at the same byte and has the same length (any other content of
    those bytes fails to decode or decodes to something with another hash: `none`) -/
def _root_.MW.Model.Ledger.Node.txAtLoc (len : Tx → Nat) (n : Node) (height : Nat) (loc : BlkId × Nat) : Option Tx :=
  match n.blockAt height with
  | none => none
  | some b =>
    if b.id = loc.1 then b.txs[loc.2]? else
    match AMap.get n.known loc.1 with
    | none => none
    | some b0 =>
      match b0.txs[loc.2]? with
      | none => none
      | some t0 =>
        (List.range b.txs.length).findSome? (fun k =>
          match b.txs[k]? with
          | some t => if txStart len b.txs k = txStart len b0.txs loc.2 ∧ len t = len t0 then some t else none
          | none => none)

/-- the byte-level reading answers whatever the record-level reading answers -/
theorem txByLoc_txAtLoc (len : Tx → Nat) (n : Node) (h : Nat) (loc : BlkId × Nat) (t : Tx)
    (ht : n.txByLoc h loc = some t) : n.txAtLoc len h loc = some t := by
  unfold Node.txByLoc at ht
  unfold Node.txAtLoc
  cases hb : n.blockAt h with
  | none => simp [hb] at ht
  | some b =>
    simp only [hb] at ht ⊢
    by_cases hid : b.id = loc.1
    · simpa [hid] using ht
    · simp [hid] at ht

/-- and differs from it only when the block at that height has been replaced -/
theorem txAtLoc_same_block (len : Tx → Nat) (n : Node) (h : Nat) (loc : BlkId × Nat) (b : Block)
    (hb : n.blockAt h = some b) (hid : b.id = loc.1) : n.txAtLoc len h loc = n.txByLoc h loc := by
  unfold Node.txByLoc Node.txAtLoc
  simp [hb, hid]

-- the real encodings measured on mass-core (proto.Marshal of harness-shaped transactions)
example : (Shape.dbLen { ins := none, outs := [(503000000, 34)], payload := 11 }) = 80 := by decide +kernel
example : (Shape.dbLen { ins := none, outs := [(100000000, 34)], payload := 11 }) = 79 := by decide +kernel
example : (Shape.dbLen { ins := none, outs := [(0, 34)], payload := 10 }) = 73 := by decide +kernel
example : (Shape.dbLen { ins := none, outs := [], payload := 10 }) = 35 := by decide +kernel
example : (Shape.dbLen { ins := some [(0, 0xffffffffffffffff)], outs := [(1000, 34)], payload := 10 }) = 106 := by decide +kernel
example : (Shape.dbLen { ins := some [(3, 55)], outs := [(1000, 43)], payload := 10 }) = 117 := by decide +kernel
example : (Shape.dbLen { ins := some [(300, 0)], outs := [(1000, 55), (2^40, 57)], payload := 10 }) = 189 := by decide +kernel
example : (Shape.dbLen { ins := some [(1, 1), (2, 2)], outs := [(0, 6), (5, 0)], lock := 5, payload := 0 }) = 124 := by decide +kernel
example : (Shape.dbLen { ins := some [(1, 1)], outs := [(7, 200)], lock := 2^40, payload := 130 }) = 403 := by decide +kernel

end MW.Model.TxLoc
