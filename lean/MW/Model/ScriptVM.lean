/-
  MODEL of mass-core's script engine (txscript.NewEngine + Engine.Execute), executable, core Lean only.

  Go source followed (mass-core = github.com/massnetorg/mass-core@v0.0.0-20210809014450-d944e876e3fb, package
  txscript):
    newEngine / isWitnessProg / isMASSWitnessProg / canonicalPush     engine.go NewEngine, script.go
    verifyWitnessProgram                                              engine.go verifyWitnessProgram
    execOp (disabled / illegal / op count / element size / branch)    engine.go executeOpcode
    runOps / runScripts / execute / checkFinal                        engine.go Step, Execute, CheckErrorCondition
    handlerOf + the `op…` functions                                   opcode.go opcodeArray and the opcode* handlers
    Stack helpers (peek, nip, dupN, rotN, swapN, overN, tuck)         stack.go
    asBool, numBytes, makeNum, int32Of                                stack.go asBool, scriptnum.go
    checkHashType, checkSigEncoding, checkPubKeyEncoding              engine.go check*Encoding
    opCheckSig, opCheckMultiSig, removeOpcodeByData, popBytes         opcode.go, script.go
    opCSV, opCLTV, verifyLockTime                                     opcode.go

  The tokenizer is the one of MW.Model.Script (C16).  The program counter of the Go engine only ever moves
  forward by one opcode (conditionals flip `condStack`, nothing jumps), so Step/Execute is modelled as a fold
  over the opcodes of each script and over the scripts (`runOps`, `runScripts`); the script list grows once,
  when script 0 (the pkScript) ends and `verifyWitnessProgram` appends the witness scripts.  `sub` is
  `vm.scripts[vm.scriptIdx][vm.lastCodeSep:]`.

  mass-core specifics that differ from btcd and are modelled as written:
    * the witness is exactly TWO items and BOTH are parsed and executed as scripts: item 0 (the "signature
      script", normally the pushes of the signatures) and item 1 (the redeem script whose sha256 is the program);
    * OP_CHECKMULTISIG pops NO dummy element;
    * a staking output (`OP_0 <32> <8-byte frozen period>`) runs `<frozen+1 as 8 bytes LE> OP_CHECKSEQUENCEVERIFY
      OP_DROP` before the witness scripts; a binding output (`OP_0 <32> <20|22 bytes>`) runs
      `<MASSIP0002BindingLockedPeriod> OP_CHECKSEQUENCEVERIFY OP_DROP` when the flag ScriptMASSip2 is set;
    * sequence numbers are 64-bit (disable bit 2^63, type bit 2^38, value mask 2^32-1), script numbers for
      OP_CHECKSEQUENCEVERIFY are read with a 9-byte limit through int64 arithmetic (`toI64`);
    * minimal-encoding checks are never enabled (fact vm.noMinimalData), strict DER / low-S / compressed-key
      checks are always on, NULLFAIL is always on.

  PARAMETERS (`Prims`, `Ctx`): sha256, btcec.ParsePubKey, btcec.ParseDERSignature, Signature.Verify and
  calcWitnessSignatureHash (as a function of the unparsed sub-script and the hash type; transaction, input
  index and amount are fixed for one engine run).  OP_RIPEMD160 / OP_SHA1 / OP_HASH160 are NOT modelled
  (`VErr.unmodelled`); the transaction-index check of NewEngine is outside (the index is assumed valid).
-/
import MW.Model.Script
import MW.Gen.Vm
namespace MW.Model.ScriptVM
open MW
open MW.Model.Script (Pop)

/-- error classes: the sentinel errors of txscript/error.go reachable from NewEngine/Execute plus one class
    per `fmt.Errorf` site -/
inductive VErr
  | shortScript | underflow | invalidArgs | opDisabled | verifyFailed | numberTooBig | invalidOpcode
  | reservedOpcode | tooManyOperations | earlyReturn | noIf | missingEndif | tooManyPubKeys
  | stackTooManyOperations | elementTooBig | scriptFailed | emptyStack | overflow | lowS | invalidPubKey
  | cleanStack | progMismatch | witnessPubKeyType | upgradableWitness | witnessUnexpected | witnessLength
  | scriptTooBig | extProgUnknown | nullFail
  | fmtHashType      -- "invalid hashtype"
  | fmtSigEnc        -- "malformed signature: …"
  | fmtNegLock       -- "negative locktime"
  | fmtSeqDisabled   -- "transaction sequence has sequence locktime disabled bit set"
  | fmtLockType      -- "mismatched locktime types"
  | fmtLockTime      -- "locktime requirement not satisfied"
  | fmtFinalized     -- "transaction input is finalized"
  | fmtFrozen        -- "invalid frozen period"
  | fmtNop           -- "OP_NOPn reserved for soft-fork upgrades"
  | pastScripts      -- validPC: "past input scripts"
  | unmodelled       -- OP_RIPEMD160 / OP_SHA1 / OP_HASH160
  | internal         -- a tokenizer panic (proved unreachable: MW.Props.C16.parse_total)
  deriving DecidableEq, Repr, Inhabited

/-- the cryptographic primitives, as parameters -/
structure Prims where
  PK : Type
  Sig : Type
  Msg : Type
  /-- crypto/sha256.Sum256 -/
  sha256 : Bytes → Bytes
  /-- btcec.ParsePubKey (none = error) -/
  parsePK : Bytes → Option PK
  /-- btcec.ParseDERSignature (none = error) -/
  parseSig : Bytes → Option Sig
  /-- Signature.Verify(hash, pubKey) -/
  verify : PK → Msg → Sig → Bool

/-- what one engine run knows of the transaction -/
structure Ctx (P : Prims) where
  /-- tx.TxIn[txIdx].Sequence -/
  seq : Nat
  /-- tx.LockTime -/
  lockTime : Nat
  /-- flag ScriptMASSip2 -/
  ip2 : Bool
  /-- flag ScriptDiscourageUpgradableNops -/
  discourageNops : Bool
  /-- calcWitnessSignatureHash(subScript, hashCache, hashType, tx, txIdx, inputAmount) as a function of the
      unparsed sub-script and the hash type -/
  sighash : Bytes → Nat → P.Msg

abbrev R := Except VErr

/-! ### script numbers (scriptnum.go) -/

/-- an unsigned 64-bit pattern read as int64 -/
def toI64 (n : Nat) : Int :=
  let m : Nat := n % 2 ^ 64
  if m < 2 ^ 63 then Int.ofNat m else Int.ofNat m - Int.ofNat (2 ^ 64)

/-- `-x` on int64 -/
def negI64 (x : Int) : Int := if x = -(2 ^ 63 : Int) then x else -x

/-- makeScriptNum(v, false, maxLen): `result |= int64(val) << uint8(8*i)` (bytes beyond the eighth shift out),
    sign-magnitude with the sign in the top bit of the last byte -/
def makeNum (v : Bytes) (maxLen : Nat) : R Int :=
  if v.length > maxLen then .error .numberTooBig
  else match v.getLast? with
    | none => .ok 0
    | some last =>
      let raw := Script.leNat (v.take 8)
      if last.toNat / 128 % 2 = 1 then
        -- result &= ^(int64(0x80) << uint8(8*(len(v)-1)))
        let cleared := if v.length ≤ 8 then raw - 2 ^ (8 * v.length - 1) else raw
        .ok (negI64 (toI64 cleared))
      else .ok (toI64 raw)

/-- scriptNum.Int32(): clamped -/
def int32Of (n : Int) : Int :=
  if n > 2147483647 then 2147483647 else if n < -2147483648 then -2147483648 else n

/-- little-endian magnitude bytes of a positive number -/
def magBytes : Nat → Nat → Bytes
  | 0, _ => []
  | fuel + 1, n => if n = 0 then [] else UInt8.ofNat (n % 256) :: magBytes fuel (n / 256)

/-- scriptNum.Bytes() -/
def numBytes (n : Int) : Bytes :=
  if n = 0 then [] else
  let mag := magBytes 9 n.natAbs
  match mag.getLast? with
  | none => []
  | some last =>
    if last.toNat / 128 % 2 = 1 then mag ++ [if n < 0 then 0x80 else 0x00]
    else if n < 0 then mag.dropLast ++ [UInt8.ofNat (last.toNat + 128)] else mag

/-- asBool (stack.go) -/
def asBoolAux : Bytes → Bool
  | [] => false
  | [b] => !(b == 0 || b == 0x80)
  | b :: r => if b != 0 then true else asBoolAux r

def asBool (t : Bytes) : Bool := asBoolAux t

def fromBool (v : Bool) : Bytes := if v then [1] else []

/-! ### the stack (stack.go): head of the list = top of the stack -/

abbrev Stack := List Bytes

def pop (s : Stack) : R (Bytes × Stack) :=
  match s with
  | [] => .error .underflow
  | x :: r => .ok (x, r)

/-- PeekByteArray(idx) with an int32 index -/
def peek (s : Stack) (i : Int) : R Bytes :=
  if i < 0 then .error .underflow
  else match s[i.toNat]? with
    | some x => .ok x
    | none => .error .underflow

/-- nipN(idx) -/
def nip (s : Stack) (i : Int) : R (Bytes × Stack) :=
  if i < 0 then .error .underflow
  else match s[i.toNat]? with
    | some x => .ok (x, s.eraseIdx i.toNat)
    | none => .error .underflow

def popInt (s : Stack) : R (Int × Stack) := do
  let (so, s') ← pop s
  let n ← makeNum so Gen.Vm.defaultScriptNumLen
  pure (n, s')

def popBool (s : Stack) : R (Bool × Stack) := do
  let (so, s') ← pop s
  pure (asBool so, s')

/-- DropN(n), n ≥ 1 -/
def dropN : Nat → Stack → R Stack
  | 0, s => .ok s
  | n + 1, s => do
    let (_, s') ← pop s
    dropN n s'

/-- `for i := n; i > 0; i-- { so := Peek(e); Push(so) }` -/
def peekPush : Nat → Int → Stack → R Stack
  | 0, _, s => .ok s
  | k + 1, e, s => do
    let so ← peek s e
    peekPush k e (so :: s)

/-- `for i := n; i > 0; i-- { so := nipN(e); Push(so) }` -/
def nipPush : Nat → Int → Stack → R Stack
  | 0, _, s => .ok s
  | k + 1, e, s => do
    let (so, s') ← nip s e
    nipPush k e (so :: s')

def dupN (n : Nat) (s : Stack) : R Stack := peekPush n ((n : Int) - 1) s
def overN (n : Nat) (s : Stack) : R Stack := peekPush n (2 * (n : Int) - 1) s
def rotN (n : Nat) (s : Stack) : R Stack := nipPush n (3 * (n : Int) - 1) s
def swapN (n : Nat) (s : Stack) : R Stack := nipPush n (2 * (n : Int) - 1) s

def tuck (s : Stack) : R Stack := do
  let (so2, s) ← pop s
  let (so1, s) ← pop s
  pure (so2 :: so1 :: so2 :: s)

/-! ### opcode table -/

inductive Handler
  | opFalse | pushData | neg1 | reserved | opN | nop | opIf | opNotIf | opElse | opEndif | verify | opReturn
  | toAlt | fromAlt | drop2 | dup2 | dup3 | over2 | rot2 | swap2 | ifDup | depth | drop | dup | nip | over
  | pick | roll | rot | swap | tuck | disabled | size | equal | equalVerify | add1 | sub1 | negate | abs | not
  | notEqual0 | add | sub | boolAnd | boolOr | numEqual | numEqualVerify | numNotEqual | lessThan
  | greaterThan | lessThanOrEqual | greaterThanOrEqual | min | max | within | ripemd160 | sha1 | sha256
  | hash160 | hash256 | codeSeparator | checkSig | checkSigVerify | checkMultiSig | checkMultiSigVerify
  | cltv | csv | invalid
  deriving DecidableEq, Repr, Inhabited

/-- opcodeArray[v].opfunc -/
def handlerOf (v : Nat) : Handler :=
  if v = 0 then .opFalse
  else if v ≤ 78 then .pushData
  else if v = 79 then .neg1
  else if v = 80 then .reserved
  else if v ≤ 96 then .opN
  else if v ≥ 186 then .invalid
  else match v with
  | 97 => .nop | 98 => .reserved | 99 => .opIf | 100 => .opNotIf | 101 => .reserved | 102 => .reserved
  | 103 => .opElse | 104 => .opEndif | 105 => .verify | 106 => .opReturn | 107 => .toAlt | 108 => .fromAlt
  | 109 => .drop2 | 110 => .dup2 | 111 => .dup3 | 112 => .over2 | 113 => .rot2 | 114 => .swap2
  | 115 => .ifDup | 116 => .depth | 117 => .drop | 118 => .dup | 119 => .nip | 120 => .over
  | 121 => .pick | 122 => .roll | 123 => .rot | 124 => .swap | 125 => .tuck
  | 126 => .disabled | 127 => .disabled | 128 => .disabled | 129 => .disabled
  | 130 => .size | 131 => .disabled | 132 => .disabled | 133 => .disabled | 134 => .disabled
  | 135 => .equal | 136 => .equalVerify | 137 => .reserved | 138 => .reserved
  | 139 => .add1 | 140 => .sub1 | 141 => .disabled | 142 => .disabled | 143 => .negate | 144 => .abs
  | 145 => .not | 146 => .notEqual0 | 147 => .add | 148 => .sub
  | 149 => .disabled | 150 => .disabled | 151 => .disabled | 152 => .disabled | 153 => .disabled
  | 154 => .boolAnd | 155 => .boolOr | 156 => .numEqual | 157 => .numEqualVerify | 158 => .numNotEqual
  | 159 => .lessThan | 160 => .greaterThan | 161 => .lessThanOrEqual | 162 => .greaterThanOrEqual
  | 163 => .min | 164 => .max | 165 => .within | 166 => .ripemd160 | 167 => .sha1 | 168 => .sha256
  | 169 => .hash160 | 170 => .hash256 | 171 => .codeSeparator | 172 => .checkSig | 173 => .checkSigVerify
  | 174 => .checkMultiSig | 175 => .checkMultiSigVerify | 176 => .nop | 177 => .cltv | 178 => .csv
  | _ => .nop   -- 179 … 185: OP_NOP4 … OP_NOP10

/-- the Go name of the handler function (compared with the regenerated table MW.Gen.Vm.opHandlers) -/
def Handler.goName : Handler → String
  | .opFalse => "opcodeFalse" | .pushData => "opcodePushData" | .neg1 => "opcode1Negate"
  | .reserved => "opcodeReserved" | .opN => "opcodeN" | .nop => "opcodeNop" | .opIf => "opcodeIf"
  | .opNotIf => "opcodeNotIf" | .opElse => "opcodeElse" | .opEndif => "opcodeEndif" | .verify => "opcodeVerify"
  | .opReturn => "opcodeReturn" | .toAlt => "opcodeToAltStack" | .fromAlt => "opcodeFromAltStack"
  | .drop2 => "opcode2Drop" | .dup2 => "opcode2Dup" | .dup3 => "opcode3Dup" | .over2 => "opcode2Over"
  | .rot2 => "opcode2Rot" | .swap2 => "opcode2Swap" | .ifDup => "opcodeIfDup" | .depth => "opcodeDepth"
  | .drop => "opcodeDrop" | .dup => "opcodeDup" | .nip => "opcodeNip" | .over => "opcodeOver"
  | .pick => "opcodePick" | .roll => "opcodeRoll" | .rot => "opcodeRot" | .swap => "opcodeSwap"
  | .tuck => "opcodeTuck" | .disabled => "opcodeDisabled" | .size => "opcodeSize" | .equal => "opcodeEqual"
  | .equalVerify => "opcodeEqualVerify" | .add1 => "opcode1Add" | .sub1 => "opcode1Sub"
  | .negate => "opcodeNegate" | .abs => "opcodeAbs" | .not => "opcodeNot" | .notEqual0 => "opcode0NotEqual"
  | .add => "opcodeAdd" | .sub => "opcodeSub" | .boolAnd => "opcodeBoolAnd" | .boolOr => "opcodeBoolOr"
  | .numEqual => "opcodeNumEqual" | .numEqualVerify => "opcodeNumEqualVerify"
  | .numNotEqual => "opcodeNumNotEqual" | .lessThan => "opcodeLessThan" | .greaterThan => "opcodeGreaterThan"
  | .lessThanOrEqual => "opcodeLessThanOrEqual" | .greaterThanOrEqual => "opcodeGreaterThanOrEqual"
  | .min => "opcodeMin" | .max => "opcodeMax" | .within => "opcodeWithin" | .ripemd160 => "opcodeRipemd160"
  | .sha1 => "opcodeSha1" | .sha256 => "opcodeSha256" | .hash160 => "opcodeHash160" | .hash256 => "opcodeHash256"
  | .codeSeparator => "opcodeCodeSeparator" | .checkSig => "opcodeCheckSig"
  | .checkSigVerify => "opcodeCheckSigVerify" | .checkMultiSig => "opcodeCheckMultiSig"
  | .checkMultiSigVerify => "opcodeCheckMultiSigVerify" | .cltv => "opcodeCheckLockTimeVerify"
  | .csv => "opcodeCheckSequenceVerify" | .invalid => "opcodeInvalid"

/-- parsedOpcode.isDisabled -/
def isDisabled (v : Nat) : Bool :=
  (126 ≤ v && v ≤ 129) || (131 ≤ v && v ≤ 134) || v == 141 || v == 142 || (149 ≤ v && v ≤ 153)

/-- parsedOpcode.alwaysIllegal: OP_VERIF, OP_VERNOTIF -/
def alwaysIllegal (v : Nat) : Bool := v == 101 || v == 102

/-- parsedOpcode.isConditional: OP_IF, OP_NOTIF, OP_ELSE, OP_ENDIF -/
def isConditional (v : Nat) : Bool := v == 99 || v == 100 || v == 103 || v == 104

/-! ### machine state -/

structure St where
  /-- data stack -/
  ds : Stack := []
  /-- alt stack -/
  as : Stack := []
  /-- condStack, head = innermost: 0 false, 1 true, 2 skip -/
  cond : List Nat := []
  numOps : Nat := 0
  /-- vm.subScript(): the current script from the last OP_CODESEPARATOR on -/
  sub : List Pop := []

def St.branchExecuting (st : St) : Bool :=
  match st.cond with
  | [] => true
  | c :: _ => c == 1

/-! ### signatures -/

/-- checkHashTypeEncoding: `hashType & ^SigHashAnyOneCanPay` in [SigHashAll, SigHashSingle] -/
def checkHashType (ht : Nat) : R Unit :=
  let base := if ht / 128 % 2 = 1 then ht - 128 else ht
  if base < Gen.Vm.sigHashAll ∨ base > Gen.Vm.sigHashSingle then .error .fmtHashType else .ok ()

/-- big-endian value -/
def beNat (b : Bytes) : Nat := b.foldl (fun acc x => acc * 256 + x.toNat) 0

def byteAt (b : Bytes) (i : Nat) : Nat := (b.getD i 0).toNat

/-- checkSignatureEncoding: strict DER and low S.  Every index read is inside the slice by the preceding
    length checks except `sig[rLen+5]`, `sig[rLen+6]`, `sig[rLen+7]`, which the Go code guards by
    `rLen+5 > len(sig)` only: for rLen+5 = len(sig) Go would panic; the model returns the error class
    `internal` there (never produced by a conforming signature). -/
def checkSigEncoding (sig : Bytes) : R Unit :=
  let n := sig.length
  if n < 8 then .error .fmtSigEnc
  else if n > 72 then .error .fmtSigEnc
  else if byteAt sig 0 != 0x30 then .error .fmtSigEnc
  else if byteAt sig 1 != n - 2 then .error .fmtSigEnc
  else
    let rLen := byteAt sig 3
    if rLen + 5 > n then .error .fmtSigEnc
    else if rLen + 5 = n then .error .internal      -- Go: index out of range (panic)
    else
      let sLen := byteAt sig (rLen + 5)
      if rLen + sLen + 6 != n then .error .fmtSigEnc
      else if byteAt sig 2 != 0x02 then .error .fmtSigEnc
      else if rLen = 0 then .error .fmtSigEnc
      else if byteAt sig 4 / 128 % 2 = 1 then .error .fmtSigEnc
      else if rLen > 1 ∧ byteAt sig 4 = 0 ∧ byteAt sig 5 / 128 % 2 = 0 then .error .fmtSigEnc
      else if byteAt sig (rLen + 4) != 0x02 then .error .fmtSigEnc
      else if sLen = 0 then .error .fmtSigEnc
      else if byteAt sig (rLen + 6) / 128 % 2 = 1 then .error .fmtSigEnc
      else if sLen > 1 ∧ byteAt sig (rLen + 6) = 0 ∧ byteAt sig (rLen + 7) / 128 % 2 = 0 then .error .fmtSigEnc
      else if beNat ((sig.drop (rLen + 6)).take sLen) > Gen.Vm.halfOrder then .error .lowS
      else .ok ()

/-- btcec.IsCompressedPubKey -/
def isCompressed (pk : Bytes) : Bool := pk.length == 33 && (byteAt pk 0 == 2 || byteAt pk 0 == 3)

/-- checkPubKeyEncoding (`wit0` = isWitnessVersionActive(0)) -/
def checkPubKeyEncoding (wit0 : Bool) (pk : Bytes) : R Unit :=
  if wit0 && !isCompressed pk then .error .witnessPubKeyType
  else if pk.length == 33 && (byteAt pk 0 == 2 || byteAt pk 0 == 3) then .ok ()
  else if pk.length == 65 && byteAt pk 0 == 4 then .ok ()
  else .error .invalidPubKey

/-- parsedOpcode.bytes() for an opcode produced by the tokenizer -/
def popBytes (p : Pop) : Bytes :=
  let v := p.op.toNat
  if v = 76 then p.op :: UInt8.ofNat p.data.length :: p.data
  else if v = 77 then p.op :: (Script.leEnc 2 p.data.length ++ p.data)
  else if v = 78 then p.op :: (Script.leEnc 4 p.data.length ++ p.data)
  else p.op :: p.data

/-- unparseScript -/
def unparse (ps : List Pop) : Bytes := ps.flatMap popBytes

/-- canonicalPush (script.go) -/
def canonicalPush (p : Pop) : Bool :=
  let v := p.op.toNat
  let n := p.data.length
  if v > 96 then true
  else if v < 76 ∧ v > 0 ∧ n = 1 ∧ byteAt p.data 0 ≤ 16 then false
  else if v = 76 ∧ n < 76 then false
  else if v = 77 ∧ n ≤ 0xff then false
  else if v = 78 ∧ n ≤ 0xffff then false
  else true

/-- bytes.Contains -/
def containsBytes : Bytes → Bytes → Bool
  | [], d => d.isEmpty
  | x :: r, d => d.isPrefixOf (x :: r) || containsBytes r d

/-- removeOpcodeByData -/
def removeOpcodeByData (ps : List Pop) (d : Bytes) : List Pop :=
  ps.filter (fun p => !canonicalPush p || !containsBytes p.data d)

/-- opcodeCheckSig up to the pushed boolean: `none` = nothing is pushed because a strict-encoding or
    NULLFAIL error aborts -/
def checkSigCore (P : Prims) (ctx : Ctx P) (wit0 : Bool) (sub : List Pop) (pk full : Bytes) : R Bool :=
  match full.getLast? with
  | none => .ok false
  | some htb => do
    let ht := htb.toNat
    let sig := full.dropLast
    checkHashType ht
    checkSigEncoding sig
    checkPubKeyEncoding wit0 pk
    let hash := ctx.sighash (unparse sub) ht
    match P.parsePK pk with
    | none => .ok false
    | some k =>
      match P.parseSig sig with
      | none => .ok false
      | some s =>
        let valid := P.verify k hash s
        if !valid && sig.length > 0 then .error .nullFail else .ok valid

/-- pop `n` items into a list in pop order -/
def popMany : Nat → Stack → R (List Bytes × Stack)
  | 0, s => .ok ([], s)
  | n + 1, s => do
    let (x, s') ← pop s
    let (xs, s'') ← popMany n s'
    pure (x :: xs, s'')

/-- parsedSigInfo cache: a signature is encoding-checked and parsed at its first use only -/
structure SigInfo (P : Prims) where
  raw : Bytes
  parsed : Bool := false
  sig : Option P.Sig := none

/-- the `for numSignatures > 0` loop of opcodeCheckMultiSig.  `keys`: the public keys not yet looked at;
    `sigs`: the signatures not yet matched; Go's `numPubKeys` (after its `numPubKeys++`) is `keys.length + 1`
    at loop entry and `numSignatures` is `sigs.length`. -/
def multiSigLoop (P : Prims) (ctx : Ctx P) (wit0 : Bool) (script : List Pop) :
    List Bytes → List (SigInfo P) → R Bool
  | _, [] => .ok true
  | [], _ :: _ => .ok false                     -- numSignatures > numPubKeys
  | pk :: keys, si :: sigs =>
    if (si :: sigs).length > (pk :: keys).length then .ok false
    else if si.raw.isEmpty then multiSigLoop P ctx wit0 script keys (si :: sigs)
    else
      let ht := (si.raw.getLast?.getD 0).toNat
      let sig := si.raw.dropLast
      -- only parse and check the signature encoding once
      let r : R (SigInfo P) :=
        if !si.parsed then do
          checkHashType ht
          checkSigEncoding sig
          pure { si with parsed := true, sig := P.parseSig sig }
        else pure si
      match r with
      | .error e => .error e
      | .ok si' =>
        match si'.sig with
        | none => multiSigLoop P ctx wit0 script keys (si' :: sigs)
        | some s =>
          match checkPubKeyEncoding wit0 pk with
          | .error e => .error e
          | .ok () =>
            match P.parsePK pk with
            | none => multiSigLoop P ctx wit0 script keys (si' :: sigs)
            | some k =>
              if P.verify k (ctx.sighash (unparse script) ht) s
              then multiSigLoop P ctx wit0 script keys sigs
              else multiSigLoop P ctx wit0 script keys (si' :: sigs)

/-- opcodeCheckMultiSig: the pushed boolean and the new state.  No dummy element is popped. -/
def opCheckMultiSig (P : Prims) (ctx : Ctx P) (wit0 : Bool) (st : St) : R (Bool × St) := do
  let (numKeys, ds) ← popInt st.ds
  let numPubKeys := int32Of numKeys
  if numPubKeys < 0 then .error .invalidPubKey
  else if numPubKeys > Gen.Vm.maxPubKeysPerMultiSig then .error .tooManyPubKeys
  else
    let nk := numPubKeys.toNat
    let numOps := st.numOps + nk
    if numOps > Gen.Vm.maxOpsPerScript then .error .tooManyOperations
    else do
      let (pubKeys, ds) ← popMany nk ds
      let (numSigs, ds) ← popInt ds
      let numSignatures := int32Of numSigs
      if numSignatures < 0 then .error .tooManyPubKeys
      else if numSignatures > numPubKeys then .error .tooManyPubKeys
      else do
        let (sigs, ds) ← popMany numSignatures.toNat ds
        let script := if !wit0 then sigs.foldl removeOpcodeByData st.sub else st.sub
        let success ← multiSigLoop P ctx wit0 script pubKeys (sigs.map (fun r => ({ raw := r } : SigInfo P)))
        if !success && sigs.any (fun s => !s.isEmpty) then .error .nullFail
        else pure (success, { st with ds := ds, numOps := numOps })

/-! ### lock times -/

/-- verifyLockTime -/
def verifyLockTime (txLockTime threshold lockTime : Nat) : R Unit :=
  if !((txLockTime < threshold && lockTime < threshold) || (txLockTime ≥ threshold && lockTime ≥ threshold))
  then .error .fmtLockType
  else if lockTime > txLockTime then .error .fmtLockTime
  else .ok ()

/-- `x & (SequenceLockTimeIsSeconds | SequenceLockTimeMask)` -/
def seqMasked (x : Nat) : Nat :=
  -- (the constant is the LEFT factor: the kernel unfolds `Nat.mul` along its right argument)
  x % (Gen.Vm.sequenceLockTimeMask + 1) + Gen.Vm.sequenceLockTimeIsSeconds * (x / Gen.Vm.sequenceLockTimeIsSeconds % 2)

/-- opcodeCheckSequenceVerify (the operand stays on the stack) -/
def opCSV {P : Prims} (ctx : Ctx P) (st : St) : R St := do
  let so ← peek st.ds 0
  let stackSequence ← makeNum so 9
  if stackSequence < 0 then .error .fmtNegLock
  else
    let sequence := stackSequence.toNat
    -- a non-negative int64 never has the disable bit (2^63); kept as written
    if sequence / Gen.Vm.sequenceLockTimeDisabled % 2 = 1 then .ok st
    else if ctx.seq / Gen.Vm.sequenceLockTimeDisabled % 2 = 1 then .error .fmtSeqDisabled
    else do
      verifyLockTime (seqMasked ctx.seq) Gen.Vm.sequenceLockTimeIsSeconds (seqMasked sequence)
      pure st

/-- opcodeCheckLockTimeVerify -/
def opCLTV {P : Prims} (ctx : Ctx P) (st : St) : R St := do
  let so ← peek st.ds 0
  let lockTime ← makeNum so 5
  if lockTime < 0 then .error .fmtNegLock
  else
    let lt := lockTime.toNat
    let th := Gen.Vm.lockTimeThreshold
    if !((ctx.lockTime < th && lt < th) || (ctx.lockTime ≥ th && lt ≥ th)) then .error .fmtLockType
    else if lt > ctx.lockTime then .error .fmtLockTime
    else if ctx.seq = Gen.Vm.maxTxInSequenceNum then .error .fmtFinalized
    else .ok st

/-! ### opcode handlers -/

def pushNum (n : Int) (st : St) : St := { st with ds := numBytes n :: st.ds }

def unary (f : Int → Int) (st : St) : R St := do
  let (m, ds) ← popInt st.ds
  pure { st with ds := numBytes (f m) :: ds }

/-- v0 := PopInt(); v1 := PopInt(); push f v0 v1 -/
def binary (f : Int → Int → Int) (st : St) : R St := do
  let (v0, ds) ← popInt st.ds
  let (v1, ds) ← popInt ds
  pure { st with ds := numBytes (f v0 v1) :: ds }

def b2i (b : Bool) : Int := if b then 1 else 0

/-- opcodeVerify -/
def opVerify (st : St) : R St := do
  let (v, ds) ← popBool st.ds
  if !v then .error .verifyFailed else pure { st with ds := ds }

/-- opcodeIf / opcodeNotIf -/
def opIfLike (neg : Bool) (st : St) : R St :=
  if st.branchExecuting then do
    let (ok, ds) ← popBool st.ds
    let c := if (if neg then !ok else ok) then 1 else 0
    pure { st with ds := ds, cond := c :: st.cond }
  else pure { st with cond := 2 :: st.cond }

def opElse (st : St) : R St :=
  match st.cond with
  | [] => .error .noIf
  | c :: r => pure { st with cond := (if c = 1 then 0 else if c = 0 then 1 else c) :: r }

def opEndif (st : St) : R St :=
  match st.cond with
  | [] => .error .noIf
  | _ :: r => pure { st with cond := r }

/-- opcode.opfunc(pop, vm) -/
def dispatch (P : Prims) (ctx : Ctx P) (wit0 : Bool) (p : Pop) (rest : List Pop) (st : St) : R St :=
  let v := p.op.toNat
  match handlerOf v with
  | .opFalse => pure { st with ds := [] :: st.ds }
  | .pushData => pure { st with ds := p.data :: st.ds }
  | .neg1 => pure (pushNum (-1) st)
  | .reserved => .error .reservedOpcode
  | .opN => pure (pushNum ((v : Int) - 80) st)
  | .nop =>
    -- OP_NOP1, OP_NOP4 … OP_NOP10 under ScriptDiscourageUpgradableNops
    if (v = 176 ∨ (179 ≤ v ∧ v ≤ 185)) ∧ ctx.discourageNops = true then .error .fmtNop else pure st
  | .opIf => opIfLike false st
  | .opNotIf => opIfLike true st
  | .opElse => opElse st
  | .opEndif => opEndif st
  | .verify => opVerify st
  | .opReturn => .error .earlyReturn
  | .toAlt => do
    let (so, ds) ← pop st.ds
    pure { st with ds := ds, as := so :: st.as }
  | .fromAlt => do
    let (so, as) ← pop st.as
    pure { st with ds := so :: st.ds, as := as }
  | .drop2 => do pure { st with ds := ← dropN 2 st.ds }
  | .dup2 => do pure { st with ds := ← dupN 2 st.ds }
  | .dup3 => do pure { st with ds := ← dupN 3 st.ds }
  | .over2 => do pure { st with ds := ← overN 2 st.ds }
  | .rot2 => do pure { st with ds := ← rotN 2 st.ds }
  | .swap2 => do pure { st with ds := ← swapN 2 st.ds }
  | .ifDup => do
    let so ← peek st.ds 0
    pure (if asBool so then { st with ds := so :: st.ds } else st)
  | .depth => pure (pushNum st.ds.length st)
  | .drop => do pure { st with ds := ← dropN 1 st.ds }
  | .dup => do pure { st with ds := ← dupN 1 st.ds }
  | .nip => do
    let (_, ds) ← nip st.ds 1
    pure { st with ds := ds }
  | .over => do pure { st with ds := ← overN 1 st.ds }
  | .pick => do
    let (val, ds) ← popInt st.ds
    let so ← peek ds (int32Of val)
    pure { st with ds := so :: ds }
  | .roll => do
    let (val, ds) ← popInt st.ds
    let (so, ds) ← nip ds (int32Of val)
    pure { st with ds := so :: ds }
  | .rot => do pure { st with ds := ← rotN 1 st.ds }
  | .swap => do pure { st with ds := ← swapN 1 st.ds }
  | .tuck => do pure { st with ds := ← tuck st.ds }
  | .disabled => .error .opDisabled
  | .size => do
    let so ← peek st.ds 0
    pure (pushNum so.length st)
  | .equal => do
    let (a, ds) ← pop st.ds
    let (b, ds) ← pop ds
    pure { st with ds := fromBool (a == b) :: ds }
  | .equalVerify => do
    let (a, ds) ← pop st.ds
    let (b, ds) ← pop ds
    opVerify { st with ds := fromBool (a == b) :: ds }
  | .add1 => unary (· + 1) st
  | .sub1 => unary (· - 1) st
  | .negate => unary (fun m => -m) st
  | .abs => unary (fun m => if m < 0 then -m else m) st
  | .not => unary (fun m => b2i (m == 0)) st
  | .notEqual0 => unary (fun m => if m != 0 then 1 else m) st
  | .add => binary (fun v0 v1 => v0 + v1) st
  | .sub => binary (fun v0 v1 => v1 - v0) st
  | .boolAnd => binary (fun v0 v1 => b2i (v0 != 0 && v1 != 0)) st
  | .boolOr => binary (fun v0 v1 => b2i (v0 != 0 || v1 != 0)) st
  | .numEqual => binary (fun v0 v1 => b2i (v0 == v1)) st
  | .numEqualVerify => do opVerify (← binary (fun v0 v1 => b2i (v0 == v1)) st)
  | .numNotEqual => binary (fun v0 v1 => b2i (v0 != v1)) st
  | .lessThan => binary (fun v0 v1 => b2i (v1 < v0)) st
  | .greaterThan => binary (fun v0 v1 => b2i (v1 > v0)) st
  | .lessThanOrEqual => binary (fun v0 v1 => b2i (v1 ≤ v0)) st
  | .greaterThanOrEqual => binary (fun v0 v1 => b2i (v1 ≥ v0)) st
  | .min => binary (fun v0 v1 => if v1 < v0 then v1 else v0) st
  | .max => binary (fun v0 v1 => if v1 > v0 then v1 else v0) st
  | .within => do
    let (maxVal, ds) ← popInt st.ds
    let (minVal, ds) ← popInt ds
    let (x, ds) ← popInt ds
    pure { st with ds := numBytes (b2i (x ≥ minVal && x < maxVal)) :: ds }
  | .ripemd160 => .error .unmodelled
  | .sha1 => .error .unmodelled
  | .sha256 => do
    let (buf, ds) ← pop st.ds
    pure { st with ds := P.sha256 buf :: ds }
  | .hash160 => .error .unmodelled
  | .hash256 => do
    let (buf, ds) ← pop st.ds
    pure { st with ds := P.sha256 (P.sha256 buf) :: ds }
  | .codeSeparator => pure { st with sub := rest }
  | .checkSig => do
    let (pk, ds) ← pop st.ds
    let (full, ds) ← pop ds
    let b ← checkSigCore P ctx wit0 st.sub pk full
    pure { st with ds := fromBool b :: ds }
  | .checkSigVerify => do
    let (pk, ds) ← pop st.ds
    let (full, ds) ← pop ds
    let b ← checkSigCore P ctx wit0 st.sub pk full
    opVerify { st with ds := fromBool b :: ds }
  | .checkMultiSig => do
    let (b, st') ← opCheckMultiSig P ctx wit0 st
    pure { st' with ds := fromBool b :: st'.ds }
  | .checkMultiSigVerify => do
    let (b, st') ← opCheckMultiSig P ctx wit0 st
    opVerify { st' with ds := fromBool b :: st'.ds }
  | .cltv => opCLTV ctx st
  | .csv => opCSV ctx st
  | .invalid => .error .invalidOpcode

/-- executeOpcode -/
def execOp (P : Prims) (ctx : Ctx P) (wit0 : Bool) (p : Pop) (rest : List Pop) (st : St) : R St :=
  let v := p.op.toNat
  if isDisabled v then .error .opDisabled
  else if alwaysIllegal v then .error .reservedOpcode
  else
    let r : R St :=
      if v > 96 then
        if st.numOps + 1 > Gen.Vm.maxOpsPerScript then .error .stackTooManyOperations
        else .ok { st with numOps := st.numOps + 1 }
      else if p.data.length > Gen.Vm.maxScriptElementSize then .error .elementTooBig
      else .ok st
    match r with
    | .error e => .error e
    | .ok st =>
      if !st.branchExecuting && !isConditional v then .ok st
      else dispatch P ctx wit0 p rest st

/-- the Step loop over one script (the combined stack depth is checked after every opcode) -/
def runOps (P : Prims) (ctx : Ctx P) (wit0 : Bool) : List Pop → St → R St
  | [], st => .ok st
  | p :: rest, st =>
    match execOp P ctx wit0 p rest st with
    | .error e => .error e
    | .ok st' =>
      if st'.ds.length + st'.as.length > Gen.Vm.maxStackSize then .error .overflow
      else runOps P ctx wit0 rest st'

/-- one whole script and the end-of-script bookkeeping of Step -/
def runScript (P : Prims) (ctx : Ctx P) (wit0 : Bool) (ops : List Pop) (st : St) : R St :=
  match runOps P ctx wit0 ops { st with sub := ops, numOps := 0 } with
  | .error e => .error e
  | .ok st' =>
    if st'.cond ≠ [] then .error .missingEndif
    else .ok { st' with as := [] }

/-- the scripts after script 0.  Step skips ONE empty script after a script ends ("there are zero length
    scripts in the wild"); a second consecutive empty one makes the next Step fail in validPC. -/
def runScripts (P : Prims) (ctx : Ctx P) (wit0 : Bool) : List (List Pop) → Bool → St → R St
  | [], _, st => .ok st
  | [] :: more, skipped, st =>
    if skipped then .error .pastScripts else runScripts P ctx wit0 more true st
  | (p :: ops) :: more, _, st =>
    match runScript P ctx wit0 (p :: ops) st with
    | .error e => .error e
    | .ok st' => runScripts P ctx wit0 more false st'

/-- CheckErrorCondition(true) -/
def checkFinal (st : St) : R Unit :=
  if st.ds.length != 1 then .error .cleanStack
  else match st.ds with
    | [] => .error .emptyStack
    | top :: _ => if asBool top then .ok () else .error .scriptFailed

/-! ### NewEngine -/

def parse (s : Bytes) : R (List Pop) :=
  match Script.parseScript s with
  | .ok ps => .ok ps
  | .error (.err _) => .error .shortScript
  | .error (.panic _) => .error .internal

def isSmallInt (v : Nat) : Bool := v == 0 || (81 ≤ v && v ≤ 96)

/-- isWitnessProgram -/
def isWitnessProg (pops : List Pop) : Bool :=
  match pops with
  | [p0, p1] => isSmallInt p0.op.toNat && canonicalPush p1 && (2 ≤ p1.data.length && p1.data.length ≤ 40)
  | _ => false

/-- isMASSWitnessProgram -/
def isMASSWitnessProg (pops : List Pop) : Bool :=
  match pops with
  | [p0, p1, p2] => isSmallInt p0.op.toNat && canonicalPush p1 && (2 ≤ p1.data.length && p1.data.length ≤ 40) &&
      canonicalPush p2 && (p2.data.length == 8 || p2.data.length == 20 || p2.data.length == 22)
  | _ => false

/-- extractWitnessProgramInfo: version, program, extension opcodes -/
structure WitInfo where
  version : Nat
  program : Bytes
  ext : List Pop

def witInfo (pops : List Pop) : Option WitInfo :=
  if isMASSWitnessProg pops || isWitnessProg pops then
    match pops with
    | p0 :: p1 :: ext => some ⟨if p0.op.toNat = 0 then 0 else p0.op.toNat - 80, p1.data, ext⟩
    | _ => none
  else none

/-- `NewScriptBuilder().AddData(buf).AddOp(OP_CHECKSEQUENCEVERIFY).AddOp(OP_DROP)` for an 8-byte buffer, parsed -/
def csvScript (lock : Nat) : List Pop := [⟨8, Script.leEnc 8 lock⟩, ⟨0xb2, []⟩, ⟨0x75, []⟩]

/-- verifyWitnessProgram: the scripts appended to vm.scripts -/
def verifyWitnessProgram (P : Prims) (ctx : Ctx P) (wi : WitInfo) (witness : List Bytes) : R (List (List Pop)) :=
  if wi.version ≠ 0 then .error .upgradableWitness
  else match witness with
  | [w0, w1] =>
    if w0.length = 0 ∨ w1.length = 0 then .error .witnessLength
    else if P.sha256 w1 ≠ wi.program then .error .progMismatch
    else do
      let extra : List (List Pop) ← (match wi.ext with
        | [] => pure []
        | [e] =>
          if e.data.length = Gen.Vm.witnessV0FrozenPeriodDataSize then do
            let frozen ← makeNum e.data 9
            if frozen < 0 ∨ toI64 (frozen + 1).toNat < 0 then .error .fmtFrozen
            else pure [csvScript (frozen + 1).toNat]
          else if e.data.length = 20 ∨ e.data.length = 22 then
            pure (if ctx.ip2 then [csvScript Gen.Vm.bindingLockedPeriod] else [])
          else .error .extProgUnknown
        | _ => .error .extProgUnknown : R (List (List Pop)))
      if w0.length > Gen.Script.maxScriptSize then .error .scriptTooBig
      else do
        let s0 ← parse w0
        if w1.length > Gen.Script.maxScriptSize then .error .scriptTooBig
        else do
          let s1 ← parse w1
          pure (extra ++ [s0, s1])
  | _ => .error .witnessLength

/-- NewEngine + Execute for one input: `pkScript` of the output being spent, `witness` of the input -/
def verify (P : Prims) (ctx : Ctx P) (pkScript : Bytes) (witness : List Bytes) : R Unit :=
  if pkScript.length = 0 then .error .witnessUnexpected
  else if pkScript.length > Gen.Script.maxScriptSize then .error .scriptTooBig
  else do
    let pops ← parse pkScript
    let wi := witInfo pops
    let wit0 := match wi with | some w => w.version == 0 | none => false
    -- script 0 (never empty: a non-empty byte string yields at least one opcode)
    let st ← runScript P ctx wit0 pops {}
    match wi with
    | none =>
      checkFinal st
    | some w =>
      if st.ds.length ≠ 2 ∧ st.ds.length ≠ 3 then .error .underflow
      else do
        let more ← verifyWitnessProgram P ctx w witness
        let st' ← runScripts P ctx wit0 more false { st with ds := [] }
        checkFinal st'

end MW.Model.ScriptVM
