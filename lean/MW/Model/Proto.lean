/-
  MODEL for C20: the goroutine protocol of the chain follower (`handle`), the background worker
  (`worker` running asyncImport / asyncRemove), the stop sequence and the producers.

  Go code followed (masswallet/ntfnshandler.go unless noted):
    handle            select { quit | sigSuspend → (sigResume | quit) | queueBlock | queueMsgTx }
    worker            select { quit | taskChan } → asyncImport / asyncRemove, re-push on "not finished"
    asyncImport       suspend; mwdb.Update (one batch); deferred resume
    asyncRemove       loop { quit? ; suspend; Update; resume }   (one phase since the D30 fix: the records keyed
                      by the wallet id are deleted in the final transaction, there is no separate first round)
    suspend / resume  select { send sigSuspend/sigResume | quit }      (before the D12 fix: a bare send)
    Stop              close(quit); quitWg.Wait(); CloseDB            (wallet.go Stop unregisters the chain listener first)
    task.go           PushImport / PushRemove: select { send | default → dropped }; IsBusy: len ≥ MaxWaitingTaskNum
    wallet.go         ImportWallet / RemoveWallet: under w.mu: IsWorkerBusy check, database update, push
    OnBlockConnected / OnTransactionReceived: blocking send on queueBlock / queueMsgTx (capacity 1024)

  Channels: sigSuspend, sigResume unbuffered (rendezvous = ONE joint step of worker and follower);
  quit is only ever closed; queueBlock / queueMsgTx / taskChan are counters with capacities; the wait
  group is the derived fact "both goroutines returned"; every database transaction is one atomic step.

  Go runtime semantics used (trusted, see notes/C20.md): a rendezvous needs one party parked on the
  channel. A goroutine whose select contains `<-quit` never parks once quit is closed, and one parked
  earlier is claimed by close(quit) (runtime.closechan wins the select's CAS), so after close(quit) two
  selects that BOTH list quit cannot meet; a bare send/receive can still park and be met.

  The per-function shapes (which selects list quit, where the task queue is allocated, capacities) are
  GENERATED from the source (MW.Gen.Proto) and matched in MW/Props/C20.lean.
-/
import MW.Model.ProtoSkel
import MW.Gen.Proto
namespace MW.Model.Proto

/-- the three places the D12 fix touched: does the select at that place list `<-h.quit`? -/
structure Shape where
  susQuit : Bool      -- suspend()
  resQuit : Bool      -- resume()
  waitQuit : Bool     -- the follower's wait for sigResume inside `case <-h.sigSuspend:`
  deriving DecidableEq, Repr, Inhabited

def Shape.fixed : Shape := ⟨true, true, true⟩
/-- the skeleton before the D12 fix (fixes/D12.patch reversed) -/
def Shape.preFix : Shape := ⟨false, false, false⟩

/-- the shape of the working tree, read off the generated skeletons -/
def Shape.current : Shape :=
  { susQuit := Skel.hasSelWith MW.Gen.Proto.suspend "send sigSuspend" "recv quit",
    resQuit := Skel.hasSelWith MW.Gen.Proto.resume "send sigResume" "recv quit",
    waitQuit := Skel.hasSelWith MW.Gen.Proto.handle "recv sigResume" "recv quit" }

structure Cfg where
  cap : Nat           -- capacity of taskChan = max(#wallet statuses, MaxWaitingTaskNum + 1)
  qcap : Nat          -- capacity of queueBlock and of queueMsgTx
  busy : Nat          -- MaxWaitingTaskNum: IsBusy ⇔ len ≥ busy
  deriving DecidableEq, Repr, Inhabited

/-- the configuration of the working tree for a wallet database with `n` wallet statuses -/
def Cfg.current (n : Nat) : Cfg :=
  { cap := max n (MW.Gen.Proto.maxWaitingTaskNum + 1), qcap := MW.Gen.Proto.queueBlockCap,
    busy := MW.Gen.Proto.maxWaitingTaskNum }

inductive IOut | fin | more | errRetry | errGiveUp
  deriving DecidableEq, Repr, Inhabited
inductive ROut | finish | more | err
  deriving DecidableEq, Repr, Inhabited

/-- follower goroutine -/
inductive HPc | top | wait | blk | tx | done
  deriving DecidableEq, Repr, Inhabited

/-- worker goroutine -/
inductive WPc
  | top
  | impSus | impCommit | impRes (o : IOut)
  | remChk | remSus | remCommit | remRes (o : ROut)
  | push                       -- PushImport / PushRemove of the task in hand
  | done
  deriving DecidableEq, Repr, Inhabited

/-- Stop(): idle (not requested) → waiting (quit closed, in quitWg.Wait) → closing (CloseDB) → done -/
inductive SPc | idle | waiting | closing | done
  deriving DecidableEq, Repr, Inhabited

/-- an API call that queues a task (ImportWallet / RemoveWallet), serialised by w.mu -/
inductive APc | idle | checked
  deriving DecidableEq, Repr, Inhabited

structure St where
  quit : Bool := false
  dbOpen : Bool := true
  hp : HPc := .top
  wp : WPc := .top
  sp : SPc := .idle
  ap : APc := .idle
  nb : Nat := 0          -- len(queueBlock)
  ntx : Nat := 0         -- len(queueMsgTx)
  nt : Nat := 0          -- len(taskChan.C)
  deriving DecidableEq, Repr, Inhabited

inductive Label
  -- follower
  | hQuit | hTakeBlk | hTakeTx | hDoneBlk | hDoneTx | hWaitQuit
  -- rendezvous (worker + follower)
  | sus | res
  -- worker
  | wQuit | wTakeImp | wTakeRem | wTakeSkip | wSusQuit | wCommitI (o : IOut)
  | wCommitR (o : ROut) | wResQuit | wChkQuit | wChkGo | wPush | wPushDrop
  -- stop sequence after the request
  | sWait | sClose
  -- environment: stop request, chain notifications, API calls
  | eStop | eBlk | eTx | aCheck | aPush | aPushDrop
  deriving DecidableEq, Repr, Inhabited

def Label.all : List Label :=
  [.hQuit, .hTakeBlk, .hTakeTx, .hDoneBlk, .hDoneTx, .hWaitQuit, .sus, .res,
   .wQuit, .wTakeImp, .wTakeRem, .wTakeSkip, .wSusQuit,
   .wCommitI .fin, .wCommitI .more, .wCommitI .errRetry, .wCommitI .errGiveUp,
   .wCommitR .finish, .wCommitR .more, .wCommitR .err,
   .wResQuit, .wChkQuit, .wChkGo, .wPush, .wPushDrop, .sWait, .sClose, .eStop, .eBlk, .eTx, .aCheck, .aPush, .aPushDrop]

/-- steps of the follower, the worker and the stop sequence once requested (the system proper) -/
def Label.core : Label → Bool
  | .eStop | .eBlk | .eTx | .aCheck | .aPush | .aPushDrop => false
  | _ => true

/-- worker pcs at a suspend(): where it goes when the hand-shake happens / when quit wins -/
def susNext : WPc → Option WPc
  | .impSus => some .impCommit
  | .remSus => some .remCommit
  | _ => none

def susAbort : WPc → Option WPc
  | .impSus => some .done          -- asyncImport returns ErrTaskAbort: the worker returns
  | .remSus => some .top           -- asyncRemove returns ErrTaskAbort: `continue`, not re-queued
  | _ => none

/-- worker pcs at a resume(): where it continues afterwards (hand-shake or quit, same continuation) -/
def resNext : WPc → Option WPc
  | .impRes .fin => some .top
  | .impRes .errGiveUp => some .top
  | .impRes .more => some .push
  | .impRes .errRetry => some .push
  | .remRes .finish => some .top
  | .remRes .more => some .remChk
  | .remRes .err => some .push
  | _ => none

/-- the worker holds a task it may still put back -/
def inflight : WPc → Nat
  | .top => 0
  | .done => 0
  | _ => 1

/-- one transition: guard and effect -/
def fire (sh : Shape) (c : Cfg) (l : Label) (s : St) : Option St :=
  match l with
  | .hQuit => if s.hp = .top ∧ s.quit then some { s with hp := .done } else none
  | .hTakeBlk => if s.hp = .top ∧ 0 < s.nb then some { s with hp := .blk, nb := s.nb - 1 } else none
  | .hTakeTx => if s.hp = .top ∧ 0 < s.ntx then some { s with hp := .tx, ntx := s.ntx - 1 } else none
  | .hDoneBlk => if s.hp = .blk then some { s with hp := .top } else none
  | .hDoneTx => if s.hp = .tx then some { s with hp := .top } else none
  | .hWaitQuit => if s.hp = .wait ∧ s.quit ∧ sh.waitQuit then some { s with hp := .done } else none
  | .sus =>
    match susNext s.wp with
    | some w' => if s.hp = .top ∧ ¬ (s.quit ∧ sh.susQuit) then some { s with hp := .wait, wp := w' } else none
    | none => none
  | .res =>
    match resNext s.wp with
    | some w' => if s.hp = .wait ∧ ¬ (s.quit ∧ sh.resQuit ∧ sh.waitQuit) then some { s with hp := .top, wp := w' } else none
    | none => none
  | .wQuit => if s.wp = .top ∧ s.quit then some { s with wp := .done } else none
  | .wTakeImp => if s.wp = .top ∧ 0 < s.nt then some { s with wp := .impSus, nt := s.nt - 1 } else none
  | .wTakeRem => if s.wp = .top ∧ 0 < s.nt then some { s with wp := .remChk, nt := s.nt - 1 } else none
  | .wTakeSkip => if s.wp = .top ∧ 0 < s.nt then some { s with nt := s.nt - 1 } else none
  | .wSusQuit =>
    match susAbort s.wp with
    | some w' => if s.quit ∧ sh.susQuit then some { s with wp := w' } else none
    | none => none
  | .wCommitI o => if s.wp = .impCommit then some { s with wp := .impRes o } else none
  | .wCommitR o => if s.wp = .remCommit then some { s with wp := .remRes o } else none
  | .wResQuit =>
    match resNext s.wp with
    | some w' => if s.quit ∧ sh.resQuit then some { s with wp := w' } else none
    | none => none
  | .wChkQuit => if s.wp = .remChk ∧ s.quit then some { s with wp := .top } else none
  | .wChkGo => if s.wp = .remChk ∧ ¬ s.quit then some { s with wp := .remSus } else none
  | .wPush => if s.wp = .push ∧ s.nt < c.cap then some { s with wp := .top, nt := s.nt + 1 } else none
  | .wPushDrop => if s.wp = .push ∧ c.cap ≤ s.nt then some { s with wp := .top } else none
  | .sWait => if s.sp = .waiting ∧ s.hp = .done ∧ s.wp = .done then some { s with sp := .closing } else none
  | .sClose => if s.sp = .closing then some { s with sp := .done, dbOpen := false } else none
  | .eStop => if s.sp = .idle then some { s with sp := .waiting, quit := true } else none
  | .eBlk => if s.sp = .idle ∧ s.nb < c.qcap then some { s with nb := s.nb + 1 } else none
  | .eTx => if s.sp = .idle ∧ s.ntx < c.qcap then some { s with ntx := s.ntx + 1 } else none
  | .aCheck => if s.ap = .idle ∧ s.nt < c.busy then some { s with ap := .checked } else none
  | .aPush => if s.ap = .checked ∧ s.nt < c.cap then some { s with ap := .idle, nt := s.nt + 1 } else none
  | .aPushDrop => if s.ap = .checked ∧ c.cap ≤ s.nt then some { s with ap := .idle } else none

/-- initial states: both goroutines at their loop heads, arbitrary queue contents (initTaskChan re-queues
    at most one task per wallet status, hence ≤ cap) -/
def Init (c : Cfg) (s : St) : Prop :=
  s.quit = false ∧ s.dbOpen = true ∧ s.hp = .top ∧ s.wp = .top ∧ s.sp = .idle ∧ s.ap = .idle ∧
  s.nb ≤ c.qcap ∧ s.ntx ≤ c.qcap ∧ s.nt ≤ c.cap

inductive Reach (sh : Shape) (c : Cfg) : St → Prop
  | init {s} : Init c s → Reach sh c s
  | step {s s'} (l : Label) : Reach sh c s → fire sh c l s = some s' → Reach sh c s'

def Final (s : St) : Prop := s.sp = .done ∧ s.hp = .done ∧ s.wp = .done
/-- nothing to do and nothing requested: waiting for the environment -/
def Quiescent (s : St) : Prop := s.sp = .idle ∧ s.hp = .top ∧ s.wp = .top ∧ s.nb = 0 ∧ s.ntx = 0 ∧ s.nt = 0
def CoreEnabled (sh : Shape) (c : Cfg) (s : St) : Prop := ∃ l, l.core = true ∧ (fire sh c l s).isSome = true

-- ------------------------------------------------------------------ executable exploration (driver)

def next (sh : Shape) (c : Cfg) (s : St) : List St := Label.all.filterMap (fun l => fire sh c l s)
def nextCore (sh : Shape) (c : Cfg) (s : St) : List St :=
  (Label.all.filter Label.core).filterMap (fun l => fire sh c l s)

def isFinal (s : St) : Bool := s.sp == .done && s.hp == .done && s.wp == .done
def isQuiescent (s : St) : Bool :=
  s.sp == .idle && s.hp == .top && s.wp == .top && s.nb == 0 && s.ntx == 0 && s.nt == 0

/-- between a completed suspend() and the matching resume() -/
def window : WPc → Bool
  | .impCommit | .impRes _ | .remCommit | .remRes _ => true
  | _ => false

/-- breadth-first exploration with fuel, using only the transitions `allow` admits; returns the stuck
    states found (no core step enabled, not final, not quiescent) -/
def explore (sh : Shape) (c : Cfg) (allow : Label → St → Bool) : Nat → List St → List St → List St → List St
  | 0, _, _, stuck => stuck
  | fuel + 1, frontier, seen, stuck =>
    match frontier with
    | [] => stuck
    | s :: rest =>
      let stuck := if (nextCore sh c s).isEmpty && !isFinal s && !isQuiescent s then s :: stuck else stuck
      let succ := (Label.all.filter (fun l => allow l s)).filterMap (fun l => fire sh c l s)
      let succ := succ.filter (fun t => !(seen.contains t) && !(rest.contains t) && t != s)
      explore sh c allow fuel (rest ++ succ.eraseDups) (s :: seen) stuck

/-- the experiment of the harness (go/cmd/harness/eng_proto.go `stopat`): one task of the given kind has been
    queued through the API (`task` = "remove" | "import" | "none"), `nb` block notifications are queued, every
    database step of the task succeeds, and the stop request is placed as `place` says ("now": right after the
    API call, i.e. before the worker is inside a database step; "worker": while the worker is inside a
    database step; "handler": while the follower is inside a block). Can the system get stuck? -/
def canHang (sh : Shape) (c : Cfg) (task place : String) (nb : Nat) : Bool :=
  let allow (l : Label) (s : St) : Bool :=
    match l with
    | .eStop => if place = "worker" then window s.wp else if place = "handler" then s.hp == .blk else !window s.wp
    | .eBlk | .eTx | .aCheck | .aPush | .aPushDrop => false
    | .wTakeImp => task == "import"
    | .wTakeRem => task == "remove"
    | .wTakeSkip => false
    | .wCommitI o => o == .fin
    | .wCommitR o => o != .err
    | _ => true
  let s0 : St := { nt := if task = "none" then 0 else 1, nb := nb }
  !(explore sh c allow 4000 [s0] [] []).isEmpty

/-- ranking function used by stop_terminates -/
def rankH : HPc → Nat
  | .done => 0 | .top => 1 | .wait => 1 | .blk => 2 | .tx => 2
def taskW : Nat := 8
def rankW : WPc → Nat
  | .done => 0 | .top => 1
  | .impSus => 2 | .remSus => 2 | .remChk => 3
  | .push => taskW + 2
  | .impRes _ => taskW + 4 | .remRes _ => taskW + 4
  | .impCommit => taskW + 5 | .remCommit => taskW + 5
def rankS : SPc → Nat
  | .done => 0 | .closing => 1 | .waiting => 2 | .idle => 3
def stopMeasure (s : St) : Nat := 4 * s.nb + 4 * s.ntx + taskW * s.nt + rankH s.hp + rankW s.wp + rankS s.sp

end MW.Model.Proto
