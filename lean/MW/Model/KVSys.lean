/-
  MODEL, part 2: the database as a system — one committed store, at most one open write
  transaction (LevelDB.muTr) reading the live store, a read transaction reading the goleveldb
  snapshot taken by BeginReadTx (released by its Rollback) — and the interpretation of
  the operation language of MW.Base.KvOps with the functions of MW.Model.KV, exactly as the
  harness drives the real driver: every data operation navigates from the transaction
  (TopLevelBucket, then Bucket per further name) and then calls the bucket method.
-/
import MW.Model.KV
namespace MW.Model.KV
open MW MW.KV

/-- tx.TopLevelBucket(n1).Bucket(n2)…; nil at any step gives nil -/
def navFrom (tx : Tx) (b : Bucket) : List Bytes → Option Bucket
  | [] => some b
  | n :: rest => match b.bucket tx n with
    | none => none
    | some sub => navFrom tx sub rest

def nav (tx : Tx) : Path → Option Bucket
  | [] => none
  | n :: rest => match tx.topLevelBucket n with
    | none => none
    | some b => navFrom tx b rest

def obsOfExcept {α : Type} (r : Except Err α) (f : α → Obs) : Obs :=
  match r with
  | .ok a => f a
  | .error e => .err e

/-- run an iterator script; `fuel` bounds the `all` loops (each Next consumes an entry of the
    committed range or moves the batch pointer) -/
def drain (b : Bucket) : Nat → LevelIter → LevelIter × List (Bool × Option Bytes × Option Bytes)
  | 0, it => (it, [])
  | fuel + 1, it =>
    let (it1, ok) := it.next
    if ok then
      let (it2, out) := drain b fuel it1
      (it2, (true, it1.key, it1.value) :: out)
    else (it1, [(false, it1.key, it1.value)])

def drainFuel (it : LevelIter) : Nat :=
  it.rng.length + (match it.batchIter with | none => 0 | some bi => bi.keys.length) + 2

def runScript (b : Bucket) (it : LevelIter) : List IterStep → List (Bool × Option Bytes × Option Bytes)
  | [] => []
  | .next :: rest => let (it1, ok) := it.next; (ok, it1.key, it1.value) :: runScript b it1 rest
  | .seek k :: rest => let (it1, ok) := it.seek b k; (ok, it1.key, it1.value) :: runScript b it1 rest
  | .all :: rest => let (it1, out) := drain b (drainFuel it) it; out ++ runScript b it1 rest

/-- one data operation inside transaction `tx` -/
def dataOp (tx : Tx) : Op → Obs × Tx
  | .create _ p =>
    match p.getLast? with
    | none => (.badop, tx)
    | some name =>
      if p.length == 1 then
        match tx.createTopLevelBucket name with
        | .ok (tx', _) => (.ok, tx')
        | .error e => (.err e, tx)
      else match nav tx p.dropLast with
        | none => (.nobucket, tx)
        | some b => match b.newBucket tx name with
          | .ok (tx', _) => (.ok, tx')
          | .error e => (.err e, tx)
  | .delb _ p =>
    match p.getLast? with
    | none => (.badop, tx)
    | some name =>
      if p.length == 1 then
        match tx.deleteTopLevelBucket name with
        | .ok tx' => (.ok, tx')
        | .error e => (.err e, tx)
      else match nav tx p.dropLast with
        | none => (.nobucket, tx)
        | some b => match b.deleteBucket tx name with
          | .ok tx' => (.ok, tx')
          | .error e => (.err e, tx)
  | .has _ p => if p.length == 0 then (.badop, tx) else (.bool (nav tx p).isSome, tx)
  | .names _ p =>
    if p.length == 0 then (obsOfExcept tx.bucketNames .names, tx)
    else match nav tx p with
      | none => (.nobucket, tx)
      | some b => (obsOfExcept (b.bucketNames tx) .names, tx)
  | .put _ p k v =>
    if p.length == 0 then (.badop, tx) else
    match nav tx p with
    | none => (.nobucket, tx)
    | some b => match b.put tx k v with
      | .ok tx' => (.ok, tx')
      | .error e => (.err e, tx)
  | .get _ p k =>
    if p.length == 0 then (.badop, tx) else
    match nav tx p with
    | none => (.nobucket, tx)
    | some b => (.val (b.get tx k), tx)
  | .del _ p k =>
    if p.length == 0 then (.badop, tx) else
    match nav tx p with
    | none => (.nobucket, tx)
    | some b => match b.delete tx k with
      | .ok tx' => (.ok, tx')
      | .error e => (.err e, tx)
  | .clear _ p =>
    if p.length == 0 then (.badop, tx) else
    match nav tx p with
    | none => (.nobucket, tx)
    | some b => match b.clear tx with
      | .ok tx' => (.ok, tx')
      | .error e => (.err e, tx)
  | .pfx _ p k =>
    if p.length == 0 then (.badop, tx) else
    match nav tx p with
    | none => (.nobucket, tx)
    | some b => (.entries (b.getByPrefix tx k), tx)
  | .iter _ p s l sc =>
    if p.length == 0 then (.badop, tx) else
    match nav tx p with
    | none => (.nobucket, tx)
    | some b => (.steps (runScript b (b.newIterator tx s l) sc), tx)
  | _ => (.badop, tx)

def slotOf : Op → Option Slot
  | .create s _ | .delb s _ | .has s _ | .put s _ _ _ | .get s _ _ | .del s _ _ | .clear s _
  | .pfx s _ _ | .names s _ | .iter s _ _ _ _ => some s
  | _ => none

/-- tie B: the snapshot semantics of `Sys.reader` below is what leveldb.go does today – BeginReadTx
    makes a goleveldb snapshot the transaction's reader, every read path goes through `tx.r`
    (regenerated facts of MW.Gen.Kv; a changed driver breaks this obligation) -/
theorem gen_readTxSnapshot :
    Gen.Kv.readTxSnapshot = true ∧ Gen.Kv.readsBypassingReader = 0 ∧
    Gen.Kv.readsThroughReader.all (fun e => decide (e.2 ≥ 1)) = true := by decide

structure Sys where
  db : Store := []                 -- the on-disk store (survives Close + OpenDB)
  w : Option Batch := none         -- the batch of the open write transaction (muTr held)
  reader : Option Store := none    -- the goleveldb snapshot (tx.r / tx.snap) of the open read transaction

def Sys.step (s : Sys) (op : Op) : Sys × Obs :=
  match op with
  | .beginW => if s.w.isSome then (s, .badop) else ({ s with w := some {} }, .ok)      -- BeginTx: lock, newBatch
  | .beginR => if s.reader.isSome then (s, .badop) else ({ s with reader := some s.db }, .ok)   -- BeginReadTx: ldb.GetSnapshot()
  | .commit => match s.w with
      | none => (s, .badop)
      | some bt => ({ s with db := Tx.commit { readOnly := false, db := s.db, b := bt }, w := none }, .ok)
  | .rollback => match s.w with
      | none => (s, .badop)
      | some bt => ({ s with db := Tx.rollback { readOnly := false, db := s.db, b := bt }, w := none }, .ok)
  | .endR => if s.reader.isSome then ({ s with reader := none }, .ok) else (s, .badop)           -- Rollback: snap.Release()
  | .reopen => if s.w.isSome || s.reader.isSome then (s, .badop) else (s, .ok)
  | .probe => (s, if s.w.isSome then .blocked else .acquired)                            -- muTr.Lock()
  | .raw => (s, .entries s.db)
  | op =>
    match slotOf op with
    | none => (s, .badop)
    | some .w =>
      match s.w with
      | none => (s, .notx)
      | some bt => let (o, tx') := dataOp { readOnly := false, db := s.db, b := bt } op; ({ s with w := some tx'.b }, o)
    | some .r =>
      match s.reader with
      | none => (s, .notx)
      | some snap => (s, (dataOp { readOnly := true, db := snap } op).1)      -- every read goes to tx.r = the snapshot

def run (s : Sys) : List Op → List Obs
  | [] => []
  | op :: rest => let (s', o) := s.step op; o :: run s' rest

end MW.Model.KV
