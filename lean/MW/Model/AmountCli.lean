/-
  MODEL of cmd/masswalletcli/cmd.stringToAmount (cmd_binding.go), statement by statement:
      str = strings.TrimSuffix(str, "MASS"); str = strings.TrimSpace(str); return api.StringToAmount(str)
  (TrimSuffix BEFORE TrimSpace: "1 MASS " keeps its suffix and is refused.)
-/
import MW.Base.Space
import MW.Model.Amount
namespace MW.Model.Amount
open MW

/-- "MASS" -/
def massSfx : Bytes := [77, 65, 83, 83]

def cliParse (s : Bytes) : Except Err Nat :=
  let s1 := Space.trimSuffix s massSfx
  let s2 := Space.trimSpace s1
  parse s2

end MW.Model.Amount
