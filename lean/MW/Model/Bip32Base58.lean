/-
  MODEL of mass-core `massutil/base58` `Encode` / `Decode` as written (big.Int repeated division,
  digits collected least significant first, leading zero bytes ↦ leading '1', final reversal;
  decoding from the last character with a running power `j`, invalid character ↦ empty result).
  Strings are byte strings.  Tables come from MW.Gen.Bip32 (tie B).  Core Lean only.
-/
import MW.Base.Bip32Base
import MW.Gen.Bip32
namespace MW.Model.Base58
open MW

/-- `alphabet[i]` -/
def alph (d : Nat) : UInt8 := UInt8.ofNat (Gen.Bip32.b58Alphabet.getD d 0)
/-- `b58[c]` (255 = not in the alphabet) -/
def idx (c : UInt8) : Nat := Gen.Bip32.b58Table.getD c.toNat 255
/-- `alphabetIdx0` -/
def c1 : UInt8 := 49

/-- the `for x.Cmp(bigZero) > 0 { x.DivMod(x, 58, mod); answer = append(answer, alphabet[mod]) }` loop;
    structural in `fuel` (`encode` passes `fuel = x`, enough because `x / 58 < x`). -/
def encLoop : Nat → Nat → Bytes → Bytes
  | 0, _, acc => acc
  | f + 1, x, acc => if x = 0 then acc else encLoop f (x / 58) (acc ++ [alph (x % 58)])

/-- the `for _, i := range b { if i != 0 { break }; answer = append(answer, '1') }` loop counts these -/
def leadingZeros (b : Bytes) : Nat := (b.takeWhile (· = 0)).length

/-- `base58.Encode` -/
def encode (b : Bytes) : Bytes :=
  let x := BE.ofBytes b
  let answer := encLoop x x []
  let answer := answer ++ List.replicate (leadingZeros b) c1
  answer.reverse

/-- the decoding loop `for i := len(b)-1; i >= 0; i--` over the reversed string:
    `answer += j * b58[b[i]]; j *= 58`; `none` = the early `return []byte("")`. -/
def decLoop : Bytes → Nat → Nat → Option Nat
  | [], answer, _ => some answer
  | c :: cs, answer, j => if idx c = 255 then none else decLoop cs (answer + j * idx c) (j * 58)

/-- `base58.Decode` -/
def decode (s : Bytes) : Bytes :=
  match decLoop s.reverse 0 1 with
  | none => []
  | some answer =>
    let tmpval := BE.toBytes answer
    let numZeros := (s.takeWhile (· = c1)).length
    -- val := make([]byte, numZeros+len(tmpval)); copy(val[numZeros:], tmpval)
    GoSlice.copyAt (GoSlice.zeros (numZeros + tmpval.length)) numZeros tmpval

end MW.Model.Base58
