/-
  MODEL for C17(a): a query racing with block commits.

  The wallet store goes through versions S₀, S₁, … (one per committed write transaction of the
  follower: masswallet/ntfnshandler.go processConnectedBlock → mwdb.Update). A query is a tree of
  store reads (`Q`); an API call is a sequence of read transactions (`Call`, one node per
  `mwdb.View`). A schedule `v` says, for the j-th database read of the call, how many commits have
  landed before it (monotone).

  Go code followed:
    masswallet/db/db.go            View: BeginReadTx, f(tx), Rollback
    masswallet/db/ldb/leveldb.go   BeginReadTx / transaction{readOnly}: with `snapshot = false` every read
                                   goes to the live database (the code before the D9 fix); with
                                   `snapshot = true` BeginReadTx pins the version current at that moment
                                   (goleveldb GetSnapshot) and every read of the transaction sees it
    masswallet/wallet.go           WalletBalance(detail): SyncedTo; ScriptAddressBalance; GrossBalance
                                   GetUtxo → tx.go getUtxos: SyncedTo; ScriptAddressUnspents
    masswallet/tx.go               getUtxosExcludeBindingAndStaking: SyncedTo; ScriptAddressUnspents with
                                   the eligibility filter (uint32 confirmations ≥ maturity, …)
    masswallet/common.go           autoConstructTxInAndChangeTxOut: selection View(s), then one
                                   existsMsgTx View per selected coin (estimateSignedSize, addTxIn)
-/
import MW.Model.Ledger
namespace MW.Model.Iso
open MW MW.Model.Ledger

/-- one read transaction: a tree of reads, each observing a projection of the store it is served from -/
inductive Q (σ : Type) (α : Type) : Type 1 where
  | ret : α → Q σ α
  | read {β : Type} (proj : σ → β) (k : β → Q σ α) : Q σ α

/-- the query evaluated on ONE store (what it answers when nothing is committed meanwhile) -/
def Q.evalOn {σ α : Type} (s : σ) : Q σ α → α
  | .ret a => a
  | .read proj k => (k (proj s)).evalOn s

/-- number of reads the query performs when served from store `s` -/
def Q.readsOn {σ α : Type} (s : σ) : Q σ α → Nat
  | .ret _ => 0
  | .read proj k => (k (proj s)).readsOn s + 1

/-- live reads (no snapshot): read number `j` is served from version `v j`. Returns the answer and
    the read counter after the transaction. -/
def Q.runLive {σ α : Type} (vs : Nat → σ) (v : Nat → Nat) : Q σ α → Nat → α × Nat
  | .ret a, j => (a, j)
  | .read proj k, j => (k (proj (vs (v j)))).runLive vs v (j + 1)

/-- a read transaction as the driver implements it: `pin = some i` (snapshot taken at BeginReadTx) or
    `none` (reads go to the live database) -/
def Q.runTx {σ α : Type} (vs : Nat → σ) (v : Nat → Nat) (pin : Option Nat) (q : Q σ α) (j : Nat) : α × Nat :=
  match pin with
  | some i => (q.evalOn (vs i), j + q.readsOn (vs i))
  | none => q.runLive vs v j

/-- BeginReadTx at read counter `j` -/
def beginRead (snapshot : Bool) (v : Nat → Nat) (j : Nat) : Option Nat := if snapshot then some (v j) else none

/-- an API call: a sequence of read transactions (mwdb.View), each continuing with the result -/
inductive Call (σ : Type) (α : Type) : Type 1 where
  | done : α → Call σ α
  | view {β : Type} (q : Q σ β) (k : β → Call σ α) : Call σ α

def Call.run {σ α : Type} (snapshot : Bool) (vs : Nat → σ) (v : Nat → Nat) : Call σ α → Nat → α × Nat
  | .done a, j => (a, j)
  | .view q k, j =>
    let r := q.runTx vs v (beginRead snapshot v j) j
    (k r.1).run snapshot vs v r.2

/-- a call that is a single read transaction -/
def single {σ α : Type} (q : Q σ α) : Call σ α := .view q .done

-- ------------------------------------------------------------------ the wallet queries as read trees

/-- WalletBalance(detail) (wallet.go): SyncedTo, then the coin scan of ScriptAddressBalance, then
    GrossBalance – three reads of the same read transaction. `assemble` is exactly the arithmetic of
    `Ledger.walletBalance`. -/
def assembleBalance (minConf : Nat) (sync : Nat) (cs : List Coin) (gross : Option Nat) : Option Balance :=
  match gross with
  | none => none
  | some g =>
    let ok := cs.filter (fun c => confs sync c.blk.height ≥ minConf ∧ confs sync c.blk.height ≥ c.cred.maturity)
    let sum (p : Coin → Bool) := ((ok.filter p).map (·.cred.amt)).sum
    some ⟨g, sum (fun c => c.cred.cls = .standard), sum (fun c => c.cred.cls = .staking), sum (fun c => c.cred.cls = .binding)⟩

def balanceQ (w : Wid) (minConf : Nat) : Q Store (Option Balance) :=
  .read (fun s => s.syncedTo) fun sync =>
  .read (fun s => coinsOf s w) fun cs =>
  .read (fun s => AMap.get s.balance w) fun g =>
  .ret (assembleBalance minConf sync cs g)

/-- one listed coin of GetUtxo: the coin and the confirmation count reported for it (uint32 truncation
    of the uint64 expression, utxostore.go ScriptAddressUnspents) -/
structure Listed where
  coin : Coin
  confs32 : Nat
  deriving Inhabited

def listCoins (sync : Nat) (cs : List Coin) : List Listed :=
  cs.map (fun c => ⟨c, confs sync c.blk.height % 2^32⟩)

/-- GetUtxo → getUtxos: SyncedTo then the coin scan, one read transaction -/
def utxosQ (w : Wid) : Q Store (List Listed) :=
  .read (fun s => s.syncedTo) fun sync =>
  .read (fun s => coinsOf s w) fun cs =>
  .ret (listCoins sync cs)

/-- eligibility filter of getUtxosExcludeBindingAndStaking (tx.go): reported confirmations (uint32) ≥
    maturity, not spent by a pending transaction, standard class. (Reservation cache and the node's
    pool are volatile and outside the store.) -/
def eligible (pendIns : AMap.T (TxId × Nat) (List TxId)) (l : Listed) : Bool :=
  decide (l.confs32 ≥ l.coin.cred.maturity) && (AMap.get pendIns (l.coin.tx, l.coin.idx)).isNone &&
    !l.coin.cred.spent && decide (l.coin.cred.cls = .standard)

/-- the selection read transaction: SyncedTo, coin scan (the spent-by-unmined flag is looked up during
    the scan, i.e. it belongs to the same read), then the pure selection `pick` (top-K heap + greedy
    subset: utxo_selector.go / optOutputs) -/
def selectQ (w : Wid) (pick : List Listed → List Listed) : Q Store (List Listed) :=
  .read (fun s => s.syncedTo) fun sync =>
  .read (fun s => (coinsOf s w, s.pendIns)) fun cp =>
  .ret (pick ((listCoins sync cp.1).filter (eligible cp.2)))

/-- existsMsgTx (common.go): one read transaction looking the coin's transaction record up -/
def existsTxQ (c : Coin) : Q Store Bool :=
  .read (fun s => (AMap.get s.txrecs (c.tx, c.blk)).isSome) fun b => .ret b

/-- look every selected coin up, each in its own read transaction; fail on the first missing one -/
def lookupAll : List Listed → Call Store Bool
  | [] => .done true
  | l :: ls => .view (existsTxQ l.coin) fun ok => if ok then lookupAll ls else .done false

def Call.map {σ α β : Type} (f : α → β) : Call σ α → Call σ β
  | .done a => .done (f a)
  | .view q k => .view q (fun b => (k b).map f)

/-- a transaction-building call: selection transaction, then the per-input lookups
    (autoConstructTxInAndChangeTxOut with the fee loop unrolled once: the LAST selection decides the
    inputs; earlier rounds only influence the fee target passed to `pick`) -/
def buildCall (w : Wid) (pick : List Listed → List Listed) : Call Store (Option (List Listed)) :=
  .view (selectQ w pick) fun sel => (lookupAll sel).map (fun ok => if ok then some sel else none)

/-- schedules are monotone: commits only accumulate -/
def Mono (v : Nat → Nat) : Prop := ∀ a b, a ≤ b → v a ≤ v b

/-- a coin is reported spendable in a balance answer computed from (`sync`, `cs`) -/
def countedSpendable (minConf sync : Nat) (c : Coin) : Bool :=
  decide (confs sync c.blk.height ≥ minConf) && decide (confs sync c.blk.height ≥ c.cred.maturity)

end MW.Model.Iso
