/-
  C19, follower path: the ORACLE that answers the abstract calls of the follower skeletons
  (processConnectedBlock / reorg / disconnectBlock / filterBlock / filterTx / onRelevantBlockConnected /
  getReadyWallets, the tail of proccessReceivedTx) from the LEDGER MODEL (MW.Model.Ledger) for one delivered
  block or unconfirmed transaction. The differential driver (MW.Drv.Api) runs
      run prog (blockOracle …) fuel (.invoke Fn.processConnectedBlock) (fun _ => 0)
      run prog (recvOracle …)  fuel recvTxTail (fun _ => 0)
  next to the ledger model's own `processBlock` / `recvTx` and next to the real follower (hooks VerifProcessBlock /
  VerifProcessTx): three answers per delivery (ok / err / PANIC …) that must agree.

  The oracle is a function of the skeleton state (`Oracle = String → State → List Nat`), so everything that
  changes during a run (the store between two disconnected / connected blocks, the block of the new branch reached)
  is precomputed as a PLAN by replaying the Go control flow with the ledger model's step functions
  (`disconnectBlock`, `filterBlock`, `Node.fetchBlock`, `Store.sync`), and looked up through the loop counters and
  through values that carry a height (`currentPrev` = height + 1 of the synced block it stands for).
  Core Lean only (linked into the driver).
-/
import MW.Model.Api
import MW.Model.ApiLedger
import MW.Model.Ledger
import MW.Model.Import
namespace MW.Model.ApiFollow
open MW MW.Model.Api MW.Model.Ledger

def b2n (b : Bool) : Nat := if b then 1 else 0
def vg (σ : State) (x : String) : Nat := σ (V x)
def isErr {α : Type} : M α → Bool
  | .error _ => true
  | .ok _ => false

-- ------------------------------------------------------------------ filterTx

/-- what one call of filterTx sees -/
structure TxCtx where
  c : Ctx
  s : Store               -- the store the lookups read
  ready : List Wid
  tx : Tx
  mined : Bool            -- blockMeta != nil
  inBlk : List Tx         -- recInCurBlk: the transactions of the block up to and including this one
  known : Bool            -- h.mempool[rec.Hash]
  deriving Inhabited

def TxCtx.rel (t : TxCtx) : M (Option TxRec) := filterTxRel t.c t.s t.tx t.mined t.inBlk t.ready

/-- the output whose script is being parsed: the previous output of input `ft.i` (TxIn loop, `ft.out` = 0) or
    output `ft.o` (TxOut loop) -/
def TxCtx.curOut (t : TxCtx) (σ : State) : Option Out :=
  if vg σ "ft.out" = 0 then
    match t.tx.ins[vg σ "ft.i"]? with
    | some i =>
      match prevOf t.c t.s t.mined t.inBlk i.tx with
      | .found pt => pt.outs[i.idx]?
      | _ => none
    | none => none
  else t.tx.outs[vg σ "ft.o"]?

def txAnswer (t : TxCtx) (f : String) (σ : State) : Option (List Nat) :=
  let k := vg σ "ft.i"
  let inp : Inp := t.tx.ins.getD k default
  match f with
  | "txmgr.NewTxRecordFromMsgTx" => some [1, 0]
  | "h.mempool[rec.Hash]" => some [b2n t.known]
  | "blockchain.IsCoinBaseTx(tx)" => some [b2n t.tx.cb]
  | "len(tx.TxIn)" => some [t.tx.ins.length]
  | "cache[txIn.PreviousOutPoint.Hash]" =>
    -- the per-call cache holds the previous transactions found at earlier inputs
    let seen := (t.tx.ins.take k).any (fun j => j.tx = inp.tx)
    match prevOf t.c t.s t.mined t.inBlk inp.tx with
    | .found pt => if seen then some [1, pt.outs.length] else some [0, 0]
    | _ => some [0, 0]
  | "recInCurBlk[txIn.PreviousOutPoint.Hash]" =>
    match t.inBlk.find? (fun x => x.id = inp.tx) with
    | some pt => some [1, 1, pt.outs.length]
    | none => some [0, 0, 0]
  | "ExistCreditFromTx" => some [b2n (existCreditFromTx t.s inp.tx)]
  | "w.chainFetcher.FetchTxBySha" =>
    match t.c.node.fetchTx inp.tx with
    | some pt => some [1, 0, pt.outs.length]
    | none => some [0, 0, 0]
  | "w.txStore.ExistUnminedTx" => some (ApiLedger.existUnminedAnswer E.notFound (AMap.get t.s.pending inp.tx))
  | "txIn.PreviousOutPoint.Index" => some [inp.idx]
  | "prevTx.TxOut[i]" => some [1]
  | "utils.ParsePkScript" =>
    match t.curOut σ with
    | some o => if o.cls = .raw then some [0, E.unsupportedScript, 1] else some [1, 0, 0]
    | none => some [0, E.other, 0]
  | "w.ksmgr.GetManagedAddressByScriptHash" =>
    -- ErrScriptHashNotFound is not an error for filterTx: (nil, nil) in the skeleton
    match t.curOut σ with
    | some o => some [b2n (AMap.get t.c.own o.addr).isSome, 0]
    | none => some [0, 0]
  | "len(tx.TxOut)" => some [t.tx.outs.length]
  | "no relevant input or output" => some [b2n (match t.rel with | .ok none => true | _ => false)]
  | "rec.HasBindingIn && rec.HasBindingOut" => some [b2n (match t.rel with | .error .bothBinding => true | _ => false)]
  | "w.txStore.AddRelevantTx (unmined)" =>
    match t.rel with
    | .ok (some tr) => some [b2n (isErr (addRelevantUnmined t.s tr))]
    | _ => some [0]
  | "h.mempool" => some [1]
  | _ => none

-- ------------------------------------------------------------------ getReadyWallets

def readyAnswer (wallets : List Wid) (s : Store) (f : String) (σ : State) : Option (List Nat) :=
  let st := AMap.get s.status (wallets.getD (vg σ "grw.i") "")
  match f with
  | "len(w.ksmgr.ListKeystoreNames())" => some [wallets.length]
  | "w.syncStore.GetWalletStatus" => some (match st with | some _ => [1, 0] | none => [0, E.other])
  | "ws.Ready() && !ws.IsRemoved()" => some [b2n (match st with | some x => x.synced.isNone && !x.removed | none => false)]
  | _ => none

-- ------------------------------------------------------------------ filterBlock (+ onRelevantBlockConnected)

/-- what one call of filterBlock sees -/
structure BlkCtx where
  c : Ctx
  s : Store               -- the store when the block starts
  ready : List Wid
  b : Block
  mempool : List TxId
  deriving Inhabited

def BlkCtx.bm (x : BlkCtx) : BlockMeta := ⟨x.b.height, x.b.id⟩

def BlkCtx.relevant (x : BlkCtx) : List TxRec :=
  if x.ready.isEmpty then [] else
  match filterTxs x.c x.s x.ready x.b.id x.b.txs [] 0 [] with
  | .ok l => l
  | .error _ => []

def BlkCtx.txCtx (x : BlkCtx) (i : Nat) : TxCtx :=
  let tx := x.b.txs.getD i default
  { c := x.c, s := x.s, ready := x.ready, tx := tx, mined := true, inBlk := x.b.txs.take (i + 1),
    known := x.mempool.contains tx.id }

/-- does the k-th AddRelevantTx of onRelevantBlockConnected fail? (the ones before it succeeded) -/
def BlkCtx.addRelErr (x : BlkCtx) (k : Nat) : Bool :=
  let bals : Bals := x.s.balance.filter (fun e => x.ready.contains e.1)
  match (x.relevant.take k).foldlM (fun sb tr => addRelevantMined x.c.p x.c.own sb.1 sb.2 tr x.bm) (x.s, bals) with
  | .error _ => false
  | .ok sb =>
    match x.relevant[k]? with
    | some tr => isErr (addRelevantMined x.c.p x.c.own sb.1 sb.2 tr x.bm)
    | none => false

def blkAnswer (x : BlkCtx) (f : String) (σ : State) : Option (List Nat) :=
  let onChain := x.c.node.blockAt x.b.height
  match f with
  | "w.chainFetcher.FetchBlockLocByHeight" => some (match onChain with | some _ => [1, 0] | none => [0, E.other])
  | "!bytes.Equal(loc hash, block hash)" => some [b2n (match onChain with | some oc => oc.id != x.b.id | none => false)]
  | "massutil.NewBlock(block).TxLoc()" => some [x.b.txs.length, x.b.txs.length, 0]
  | "len(readyWallets) > 0" => some [b2n (!x.ready.isEmpty)]
  | "rec of a relevant transaction" => some [1]
  | "addedExpireMempool" => some [1]
  | "len(relevantTxs) == 0" => some [b2n x.relevant.isEmpty]
  | "w.utxoStore.FetchAllMinedBalance" => some [x.s.balance.length, 0]
  | "readyWallets[walletId]" => some [b2n (x.ready.contains ((x.s.balance.getD (vg σ "orb.i") default).1))]
  | "len(relevantTxs)" => some [x.relevant.length]
  | "w.txStore.AddRelevantTx" => some [b2n (x.addRelErr (vg σ "orb.j"))]
  | "w.utxoStore.UpdateMinedBalances" => some [0]
  | "len(irrelevantTxs)" => some [if x.ready.isEmpty then 0 else (unrelatedTxs x.b.txs x.relevant).length]
  | "range irrelevantTxs" => some [1]
  | "w.txStore.RemoveUnminedConflicts" => some [0]
  -- reached only when everything before it succeeded: the model's filterBlock then fails exactly when putSyncedTo does
  | "w.syncStore.SetSyncedTo" => some [b2n (isErr (filterBlock x.c x.s x.ready x.b))]
  | _ => txAnswer (x.txCtx (vg σ "i")) f σ

-- ------------------------------------------------------------------ disconnectBlock

def discAnswer (c : Ctx) (h : Nat) (sd : Store) (f : String) (σ : State) : Option (List Nat) :=
  match f with
  | "height == 0" => some [b2n (h = 0)]
  | "w.syncStore.SyncedTo" => some [1, 0]
  | "height > syncedTo.Height" => some [b2n (h > sd.syncedTo)]
  | "w.txStore.Rollback" => some [b2n (isErr (rollback c sd h))]
  | "w.syncStore.ResetSyncedTo" => some [0]
  | "w.syncStore.GetAllWalletStatus" => some [sd.status.length, 0]
  | "range wss" => some [1]
  | "ws.Ready()" => some [b2n ((sd.status.getD (vg σ "db.i") default).2.synced.isNone)]
  | "w.syncStore.PutWalletStatus" => some [0]
  | _ => none

-- ------------------------------------------------------------------ reorg: the plan

/-- reorg step 1 replayed: the getBlock results in order; the block reached and the blocks to connect when none failed -/
def simAlign (c : Ctx) (curH : Nat) : Nat → Block → List Block → List (Option Block) →
    Option (Block × List Block) × List (Option Block)
  | 0, nb, tc, fs => (some (nb, tc), fs)
  | fuel + 1, nb, tc, fs =>
    if curH < nb.height then
      match c.node.fetchBlock nb.prev with
      | none => (none, fs ++ [none])
      | some pb => simAlign c curH fuel pb (nb :: tc) (fs ++ [some pb])
    else (some (nb, tc), fs)

/-- the first disconnect loop replayed: (height, store before) of every disconnectBlock call -/
def simDown (c : Ctx) (nbH : Nat) : Nat → Store → Nat → List (Nat × Store) → Option (Store × Nat) × List (Nat × Store)
  | 0, s, curH, ds => (some (s, curH), ds)
  | fuel + 1, s, curH, ds =>
    if curH > nbH then
      match disconnectBlock c s curH with
      | .error _ => (none, ds ++ [(curH, s)])
      | .ok s' => simDown c nbH fuel s' (curH - 1) (ds ++ [(curH, s)])
    else (some (s, curH), ds)

structure WSim where
  discs : List (Nat × Store) := []
  prevs : List (Option Nat) := []       -- SyncedBlock(currentPrev.Height-1) inside the walk-back loop: the height found
  fetch3 : List (Option Block) := []    -- getBlock inside the walk-back loop
  n3 : Nat := 0
  deriving Inhabited

/-- the walk-back loop replayed (as `walkBack`) -/
def simWalk (c : Ctx) : Nat → Walk → WSim → Option Walk × WSim
  | 0, _, a => (none, a)
  | fuel + 1, w, a =>
    if w.tail.prev ≠ w.prevHash then
      let a := { a with n3 := a.n3 + 1, discs := a.discs ++ [(w.prevH + 1, w.s)] }
      match disconnectBlock c w.s (w.prevH + 1) with
      | .error _ => (none, a)
      | .ok s =>
        if w.prevH = 0 then (none, { a with prevs := a.prevs ++ [none] })
        else match AMap.get s.sync (w.prevH - 1) with
          | none => (none, { a with prevs := a.prevs ++ [none] })
          | some ph' =>
            let a := { a with prevs := a.prevs ++ [some (w.prevH - 1)] }
            match c.node.fetchBlock w.tail.prev with
            | none => (none, { a with fetch3 := a.fetch3 ++ [none] })
            | some pb =>
              simWalk c fuel { s := s, prevH := w.prevH - 1, prevHash := ph', tail := pb, tc := w.tail :: w.tc,
                               rolled := w.rolled ++ [w.prevH + 1] } { a with fetch3 := a.fetch3 ++ [some pb] }
    else (some w, a)

structure RPlan where
  fetch1 : List (Option Block) := []
  fork : Bool := false
  n2 : Nat := 0
  discs : List (Nat × Store) := []       -- (height, store before) of every disconnectBlock call
  bm : Bool := false                     -- SyncedBlock(currentBest.Height) found
  fork2 : Bool := false
  prev0 : Option Nat := none             -- SyncedBlock(currentBest.Height-1): the height found
  walk : WSim := {}
  sAfter : Option Store := none          -- the store when the connect phase starts (none: reorg failed before)
  tc : List Block := []
  deriving Inhabited

def mkRPlan (c : Ctx) (s : Store) (best : BlockMeta) (newBest : Block) : RPlan :=
  let (al, fetch1) := simAlign c best.height (newBest.height + 1) newBest [] []
  match al with
  | none => { fetch1 := fetch1 }
  | some (nb, tc) =>
    if best.hash = nb.id then { fetch1 := fetch1, sAfter := some s, tc := tc }
    else
      let n2 := best.height - nb.height
      let (dn, discs) := simDown c nb.height (best.height + 1) s best.height []
      let p : RPlan := { fetch1 := fetch1, fork := true, n2 := n2, discs := discs }
      match dn with
      | none => p
      | some (s1, curH) =>
        match AMap.get s1.sync curH with
        | none => p
        | some bh =>
          let p := { p with bm := true }
          if bh = nb.id then { p with sAfter := some s1, tc := tc }
          else
            let p := { p with fork2 := true }
            if curH = 0 then p
            else match AMap.get s1.sync (curH - 1) with
              | none => p
              | some ph =>
                let p := { p with prev0 := some (curH - 1) }
                let (w, ws) := simWalk c (best.height + 2)
                  { s := s1, prevH := curH - 1, prevHash := ph, tail := nb, tc := tc, rolled := [] } {}
                let p := { p with walk := ws }
                match w with
                | none => p
                | some w =>
                  let p := { p with discs := p.discs ++ ws.discs ++ [(w.prevH + 1, w.s)] }
                  match disconnectBlock c w.s (w.prevH + 1) with
                  | .error _ => p
                  | .ok s2 => { p with sAfter := some s2, tc := w.tail :: w.tc }

/-- the connect loop replayed: the context of every filterBlock call -/
def simConnect (c : Ctx) (ready : List Wid) (mempool : List TxId) : List Block → Store → List BlkCtx
  | [], _ => []
  | b :: rest, s =>
    { c := c, s := s, ready := ready, b := b, mempool := mempool } ::
      (match filterBlock c s ready b with
       | .ok (s', _) => simConnect c ready mempool rest s'
       | .error _ => [])

/-- everything the skeleton run of one processConnectedBlock needs -/
structure BPlan where
  c : Ctx
  s : Store
  v : Vol
  b : Block
  ext : Bool
  r : RPlan := {}
  readyStore : Store              -- the store getReadyWallets reads
  conn : List BlkCtx              -- filterBlock calls in order
  rolled : List Nat := []
  added : Nat := 0
  deriving Inhabited

def mkBPlan (c : Ctx) (s : Store) (v : Vol) (b : Block) : BPlan :=
  if b.prev = v.best.hash then
    let ready := readyWallets s c.wallets
    { c := c, s := s, v := v, b := b, ext := true, readyStore := s,
      conn := [{ c := c, s := s, ready := ready, b := b, mempool := v.mempool }], added := 1 }
  else
    let r := mkRPlan c s v.best b
    let sA := r.sAfter.getD s
    let ready := readyWallets sA c.wallets
    let (rolled, added) := match reorg c s v.best b with
      | .ok (_, ro, ad) => (ro, ad.length)
      | .error _ => ([], 0)
    { c := c, s := s, v := v, b := b, ext := false, r := r, readyStore := sA,
      conn := if r.sAfter.isSome then simConnect c ready v.mempool r.tc sA else [], rolled := rolled, added := added }

/-- the disconnectBlock call the run is in: heights go down one by one from the follower's tip; in the first loop the
    height is `best - ro.j` (no synced block read yet: `bm` = 0), later it is `currentPrev.Height + 1`, and the value of
    `currentPrev` is that number -/
def BPlan.discHeight (p : BPlan) (σ : State) : Nat :=
  if vg σ "bm" = 0 then p.v.best.height - vg σ "ro.j" else vg σ "currentPrev"

def blockOracle (p : BPlan) : Oracle := fun f σ =>
  let walkPhase := vg σ "bm" != 0
  let top : Option (List Nat) :=
    match f with
    | "newBlock.Header.Previous == bestBlock.Hash" => some [b2n p.ext]
    | "h.mempool, h.expiredMempool" => some [1, 1]
    | "len(rollbackBlock)" => some [p.rolled.length]
    | "len(blk)" => some [((AMap.get p.v.expired (p.rolled.getD (vg σ "pcb.i") 0)).getD []).length]
    | "len(addedExpireMempool)" => some [p.added]
    -- reorg
    | "maps made by the caller" => some [1]
    | "step 1: blocks to walk back" => some [p.r.fetch1.length]
    | "w.chainFetcher.FetchBlockBySha" =>
      let r := if walkPhase then p.r.walk.fetch3.getD (vg σ "ro.k") none else p.r.fetch1.getD (vg σ "ro.i") none
      some [b2n r.isSome, 0]
    | "currentBest.Hash != newBest.BlockHash()" => some [b2n (if walkPhase then p.r.fork2 else p.r.fork)]
    | "blocks above the new height" => some [p.r.n2]
    | "w.syncStore.SyncedBlock" =>
      if !walkPhase then some [b2n p.r.bm, 0]
      else
        -- a found synced block is answered by its height + 1 (non-nil, and the next disconnect reads the height off it)
        let r := if vg σ "currentPrev" = 0 then p.r.prev0 else p.r.walk.prevs.getD (vg σ "ro.k") none
        some [match r with | some h => h + 1 | none => 0, 0]
    | "newTailBlock := newBest" => some [1]
    | "walk-back rounds" => some [p.r.walk.n3]
    | "blocks to connect" => some [p.r.tc.length]
    | "blocksToConnect.Front()" => some [1, 1]
    | _ => none
  match top with
  | some a => a
  | none =>
    match readyAnswer p.c.wallets p.readyStore f σ with
    | some a => a
    | none =>
      let h := p.discHeight σ
      let sd := ((p.r.discs.find? (fun e => e.1 = h)).map (·.2)).getD p.s
      match discAnswer p.c h sd f σ with
      | some a => a
      | none =>
        match blkAnswer (p.conn.getD (vg σ "ro.l") default) f σ with
        | some a => a
        | none => []

/-- `recvtx`: getReadyWallets + filterTx with blockMeta = nil -/
def recvOracle (c : Ctx) (s : Store) (v : Vol) (tx : Tx) : Oracle := fun f σ =>
  match readyAnswer c.wallets s f σ with
  | some a => a
  | none =>
    let t : TxCtx := { c := c, s := s, ready := readyWallets s c.wallets, tx := tx, mined := false, inBlk := [],
                       known := v.mempool.contains tx.id }
    (txAnswer t f σ).getD []

/-- outcome class of a follower skeleton run: the error result the Go function returns -/
def folClass (r : Except Fault Flow) : String :=
  match r with
  | .ok (.norm σ) | .ok (.retd σ) => if vg σ "err" = 0 then "ok" else "err"
  | .error (.contract f) => "CONTRACT " ++ f
  | .error (.panic k t) => s!"PANIC {k} {t}"
  | .error .fuel => "FUEL"
  | .error (.unknownFn f) => s!"UNKNOWN {f}"

def folFuel : Nat := 100000

def blockClass (c : Ctx) (s : Store) (v : Vol) (b : Block) : String :=
  folClass (run prog (blockOracle (mkBPlan c s v b)) folFuel (.invoke Fn.processConnectedBlock) (fun _ => 0))

def recvClass (c : Ctx) (s : Store) (v : Vol) (tx : Tx) : String :=
  folClass (run prog (recvOracle c s v tx) folFuel recvTxTail (fun _ => 0))

-- ------------------------------------------------------------------ the worker: asyncImport / asyncRemove

/-- filterTxForImporting of the transaction `tx` found at `height`, for the importing keystore `w`: answered from the
    node's chain and the keystore view (MW.Model.Import.filterTxForImporting reads nothing else) -/
def impTxAnswer (n : Node) (own : Own) (w : Wid) (tx : Tx) (height : Nat) (f : String) (σ : State) : Option (List Nat) :=
  let k := vg σ "fi.i"
  let inp : Inp := tx.ins.getD k default
  let prev := Import.fetchTxUntil n inp.tx height
  let curOut : Option Out :=
    if vg σ "fi.out" = 0 then (match prev with | some pt => pt.outs[inp.idx]? | none => none) else tx.outs[vg σ "fi.o"]?
  let relIn : List Rel := if tx.cb then [] else
    match tx.ins.zipIdx.mapM (Import.relIn1 n own w height) with
    | .ok l => l.filterMap id
    | .error _ => []
  let relOut : List Rel := tx.outs.zipIdx.filterMap (Import.relOut1 own w)
  match f with
  | "txmgr.NewTxRecordFromMsgTx" => some [1, 0]
  | "blockchain.IsCoinBaseTx(tx)" => some [b2n tx.cb]
  | "len(tx.TxIn)" => some [tx.ins.length]
  | "cache[txIn.PreviousOutPoint.Hash]" =>
    let seen := (tx.ins.take k).any (fun j => j.tx = inp.tx)
    match prev with
    | some pt => if seen then some [1, pt.outs.length] else some [0, 0]
    | none => some [0, 0]
  | "w.chainFetcher.FetchLastTxUntilHeight" =>
    match prev with
    | some pt => some [1, 0, pt.outs.length]
    | none => some [0, 0, 0]
  | "consensus: input refers to an existing output" => some [inp.idx]
  | "prevTx.TxOut[i]" => some [1]
  | "utils.ParsePkScript" =>
    match curOut with
    | some o => if o.cls = .raw then some [0, E.unsupportedScript, 1] else some [1, 0, 0]
    | none => some [0, E.other, 0]
  | "importingAddrMgr.Address" =>
    match curOut with
    | some o => some [b2n (Import.mine own w o.addr).isSome]
    | none => some [0]
  | "len(tx.TxOut)" => some [tx.outs.length]
  | "no relevant input or output" => some [b2n (relIn.isEmpty && relOut.isEmpty)]
  | "rec.HasBindingIn && rec.HasBindingOut" => some [b2n (Import.lastBinding relIn && Import.lastBinding relOut)]
  | _ => none

/-- ONE batch of asyncImport for a wallet imported just now (cursor 0) on a follower that stands on the node's tip
    (the harness delivers the tip first). WHAT IS SCANNED is answered from the node's chain and the keystore view
    (MW.Model.Import.plan: the script-hash index; filterTxForImporting per indexed transaction); the reads and writes
    of the wallet database (status, balance, AddRelevantTxForImporting, PutWalletStatus) are answered "no error": in
    this phase of an api history the ledger model does not track the store. The outcome class is still compared with
    the real worker step. -/
def importOracle (n : Node) (own : Own) (w : Wid) : Oracle := fun f σ =>
  let best := n.tipHeight
  let items := Import.plan n (Import.managed own w) 1 best
  let heights := (items.map (·.blk.height)).eraseDups
  let at_ (j : Nat) : List Import.Item := items.filter (fun it => it.blk.height = heights.getD j 0)
  let cur : Import.Item := (at_ (vg σ "ai.j")).getD (vg σ "ai.k") default
  let top : Option (List Nat) :=
    match f with
    | "w.ksmgr.GetAddrManagerByAccountID" => some [1, 0]
    | "len(mas)" => some [(Import.managed own w).length]
    | "range mas" => some [1]
    | "suspend()" => some [1]
    | "w.syncStore.GetWalletStatus" => some [1, 0]
    | "w.utxoStore.GrossBalance" => some [0]
    | "stop > ws.SyncedHeight" => some [b2n (best > 0)]
    | "fetcher.FetchBlockShaByHeight" => some [1, 0, 0]
    | "w.syncStore.SyncedBlock" => some [1, 0]
    | "*sha != synced.Hash" => some [0]
    | "fetcher.FetchScriptHashRelatedTx" => some [1, 0]
    | "len(result.Heights())" => some [heights.length]
    | "len(txlocs)" => some [(at_ (vg σ "ai.j")).length]
    | "fetcher.FetchBlockHeaderByHeight" => some [1, 0]
    | "w.chainFetcher.FetchBlockLocByHeight" => some [1, 0]
    | "!bytes.Equal(loc hash, block hash)" => some [0]
    | "fetcher.FetchTxByLoc" => some [1, 0]
    | "w.txStore.AddRelevantTxForImporting" => some [0]
    | "height is older than MaxMemPoolExpire" => some [0]
    | "w.utxoStore.UpdateMinedBalances" => some [0]
    | "w.syncStore.PutWalletStatus" => some [0]
    | "len(heightAdded)" => some [heights.length]
    | "h.expiredMempool" => some [1]
    | "h.expiredMempool[height] or a new map" => some [1]
    | "len(added)" =>
      some [((at_ (vg σ "ai.l")).filter (fun it =>
        match Import.filterTxForImporting n w own it.tx it.blk.height with | .ok (some _) => true | _ => false)).length]
    | _ => none
  match top with
  | some a => a
  | none => (impTxAnswer n own w cur.tx cur.blk.height f σ).getD []

def importClass (n : Node) (own : Own) (w : Wid) : String :=
  folClass (run prog (importOracle n own w) folFuel (.invoke Fn.asyncImport) (fun _ => 0))

/-- asyncRemove as the harness runs it (one round finishes: fewer than 20000 credits; no database error): the answers
    are fixed, the outcome class is compared with the real worker -/
def removeOracle : Oracle := fun f _ =>
  match f with
  | "w.ksmgr.GetAddrManagerByAccountID" => [1, 0]
  | "removal rounds" => [1]
  | "suspend()" => [1]
  | "w.txStore.RemoveRelevantTx" => [0, 1]
  | _ => [0]

def removeClass : String :=
  folClass (run prog removeOracle folFuel (.invoke Fn.asyncRemove) (fun _ => 0))

end MW.Model.ApiFollow
