/-
  C16 model: mass-core txscript's opcode tokenizer and template matching, the wallet's
  `utils.ParsePkScript`, `api.extractAddressInfos` and the script builders, statement by statement.

  Go source followed (mass-core = github.com/massnetorg/mass-core@v0.0.0-20210809014450-d944e876e3fb):
    parseStep/parseLoop/parseScript   txscript/script.go   parseScriptTemplate, parseScript
    isWitnessScriptHash …             txscript/script.go   isWitnessScriptHash, isWitnessStakingScript,
                                                           isWitnessBindingScript, isSmallInt, asSmallInt
    isMultiSig, isNullData, typeOfScript, getScriptClass, getScriptInfo, getParsedOpcode,
    getParsedBindingOpcode, extractPkScriptAddrs, calcMultiSigStats, payTo…           txscript/standard.go
    Builder.addOp/addData/…           txscript/scriptbuilder.go
    newAddress…                       massutil/address.go
    parsePkScript                     /repo masswallet/utils/txscript.go ParsePkScript
    extractAddressInfos               /repo api/util.go extractAddressInfos
    payToWitnessV0Address, amountToTxOut   /repo masswallet/common.go
    constructStakingTxOut             /repo masswallet/tx.go (one output)

  Every Go index / slice expression is a guarded `idx` / `slice` that yields `Fault.panic`; every loop
  has fuel and yields `Fault.panic .fuel` when it runs out.  MW.Props.C16.parse_total proves that no
  panic is reachable.  Core Lean only.
-/
import MW.Base.Bytes
import MW.Gen.Script
namespace MW.Model.Script
open MW

inductive PanicKind
  | index      -- index out of range
  | slice      -- slice bounds out of range
  | fuel       -- a loop did not terminate within its fuel
  | nilDeref   -- nil pointer dereference
  deriving DecidableEq, Repr

inductive Err
  | shortScript        -- txscript.ErrStackShortScript
  | badOpLen           -- "invalid opcode length %d"
  | progLen            -- txscript.ErrWitnessProgramLength
  | extProgLen         -- txscript.ErrWitnessExtProgramLength
  | badClass           -- GetParsedOpcode default branch: "invalid script hash type"
  | invalidBinding     -- txscript.ErrInvalidBindingScript
  | stackUnderflow     -- txscript.ErrStackUnderflow (CalcMultiSigStats)
  | unsupported        -- utils.ErrUnsupportedScript
  | addr               -- an error of a massutil address constructor
  | noAddr             -- extractAddressInfos: "no address parsed from output script"
  | frozenPeriod       -- txscript.ErrFrozenPeriod
  | unsupportedAddress -- txscript.ErrUnsupportedAddress
  | notCanonical       -- txscript.ErrScriptNotCanonical
  | invalidAmount      -- masswallet.ErrInvalidAmount
  | invalidAddress     -- masswallet.ErrInvalidAddress / ErrInvalidStakingAddress
  | createPkScript     -- masswallet.ErrCreatePkScript
  deriving DecidableEq, Repr

inductive Fault
  | err (e : Err)
  | panic (k : PanicKind)
  deriving DecidableEq, Repr

abbrev M := Except Fault

def fail {α} (e : Err) : M α := .error (.err e)
def panic {α} (k : PanicKind) : M α := .error (.panic k)

/-- Go `l[i]` -/
def idx {α} (l : List α) (i : Nat) : M α :=
  match l[i]? with
  | some a => .ok a
  | none => panic .index

/-- Go `l[a:b]` (bounds checked against the length; Go checks against the capacity, which is ≥) -/
def slice {α} (l : List α) (a b : Nat) : M (List α) :=
  if a ≤ b ∧ b ≤ l.length then .ok ((l.drop a).take (b - a)) else panic .slice

/-! ### opcodes -/

def OP_0 : UInt8 := UInt8.ofNat Gen.Script.OP_0
def OP_DATA_8 : UInt8 := UInt8.ofNat Gen.Script.OP_DATA_8
def OP_DATA_20 : UInt8 := UInt8.ofNat Gen.Script.OP_DATA_20
def OP_DATA_22 : UInt8 := UInt8.ofNat Gen.Script.OP_DATA_22
def OP_DATA_32 : UInt8 := UInt8.ofNat Gen.Script.OP_DATA_32
def OP_PUSHDATA1 : UInt8 := UInt8.ofNat Gen.Script.OP_PUSHDATA1
def OP_PUSHDATA2 : UInt8 := UInt8.ofNat Gen.Script.OP_PUSHDATA2
def OP_PUSHDATA4 : UInt8 := UInt8.ofNat Gen.Script.OP_PUSHDATA4
def OP_1NEGATE : UInt8 := UInt8.ofNat Gen.Script.OP_1NEGATE
def OP_1 : UInt8 := UInt8.ofNat Gen.Script.OP_1
def OP_16 : UInt8 := UInt8.ofNat Gen.Script.OP_16
def OP_RETURN : UInt8 := UInt8.ofNat Gen.Script.OP_RETURN
def OP_CHECKMULTISIG : UInt8 := UInt8.ofNat Gen.Script.OP_CHECKMULTISIG

/-- `opcodeArray[instr].length` (the table is regenerated from the txscript source) -/
def opLength (instr : UInt8) : M Int := idx Gen.Script.opLenTable instr.toNat

/-- parsedOpcode: `opcode.value` (= the instruction byte, fact script.opcodeTable) and the pushed data
    (only `len(data)` and the bytes are ever used; Go's nil/empty distinction is not). -/
structure Pop where
  op : UInt8
  data : Bytes
  deriving DecidableEq, Repr

/-- little-endian value of a byte string -/
def leNat : Bytes → Nat
  | [] => 0
  | b :: r => b.toNat + 256 * leNat r

/-- One iteration of the loop of parseScriptTemplate at offset `i` (`i < len(script)`):
    the parsed opcode and the new offset. -/
def parseStep (s : Bytes) (i : Nat) : M (Pop × Nat) := do
  let instr ← idx s i
  let len ← opLength instr
  if len == 1 then
    pure (⟨instr, []⟩, i + 1)
  else if len > 1 then
    let n := len.toNat
    let rest ← slice s i s.length                 -- script[i:]
    if rest.length < n then fail .shortScript
    else
      let d ← slice s (i + 1) (i + n)             -- script[i+1 : i+op.length]
      pure (⟨instr, d⟩, i + n)
  else if len < 0 then
    let off := i + 1
    let k := (-len).toNat
    let rest ← slice s off s.length               -- script[off:]
    if rest.length < k then fail .shortScript
    else
      let l ← (if len == -1 then do
                  let b0 ← idx s off
                  pure b0.toNat
               else if len == -2 then do
                  let b1 ← idx s (off + 1)
                  let b0 ← idx s off
                  pure (b1.toNat * 256 + b0.toNat)
               else if len == -4 then do
                  let b3 ← idx s (off + 3)
                  let b2 ← idx s (off + 2)
                  let b1 ← idx s (off + 1)
                  let b0 ← idx s off
                  pure (b3.toNat * 16777216 + b2.toNat * 65536 + b1.toNat * 256 + b0.toNat)
               else fail .badOpLen : M Nat)
      let off := off + k
      let rest ← slice s off s.length             -- script[off:]
      -- `int(l) > len(script[off:]) || int(l) < 0`: l < 2^32, so int(l) ≥ 0 on a 64-bit platform
      if l > rest.length then fail .shortScript
      else
        let d ← slice s off (off + l)
        pure (⟨instr, d⟩, i + 1 + k + l)
  else
    -- op.length == 0: no case of the switch applies, `i` is not advanced
    pure (⟨instr, []⟩, i)

def parseLoop : Nat → Bytes → Nat → List Pop → M (List Pop)
  | 0, s, i, acc => if i < s.length then panic .fuel else pure acc
  | fuel + 1, s, i, acc =>
    if i < s.length then do
      let (p, i') ← parseStep s i
      parseLoop fuel s i' (acc ++ [p])
    else pure acc

/-- txscript.parseScript (on error Go also returns the opcodes parsed so far; no caller modelled here
    looks at them) -/
def parseScript (s : Bytes) : M (List Pop) := parseLoop s.length s 0 []

/-! ### templates -/

def isSmallInt (op : UInt8) : Bool := op == OP_0 || (op ≥ OP_1 && op ≤ OP_16)

/-- `int(op.value - (OP_1 - 1))` in byte arithmetic -/
def asSmallInt (op : UInt8) : Nat := if op == OP_0 then 0 else (op - (OP_1 - 1)).toNat

def isWitnessScriptHash (pops : List Pop) : M Bool :=
  if pops.length != 2 then pure false else do
  let p0 ← idx pops 0
  if p0.op != OP_0 then pure false else do
  let p1 ← idx pops 1
  pure (p1.op == OP_DATA_32)

def isWitnessStakingScript (pops : List Pop) : M Bool :=
  if pops.length != 3 then pure false else do
  let p0 ← idx pops 0
  if p0.op != OP_0 then pure false else do
  let p1 ← idx pops 1
  if p1.op != OP_DATA_32 then pure false else do
  let p2 ← idx pops 2
  pure (p2.op == OP_DATA_8)

def isWitnessBindingScript (pops : List Pop) : M Bool :=
  if pops.length != 3 then pure false else do
  let p0 ← idx pops 0
  if p0.op != OP_0 then pure false else do
  let p1 ← idx pops 1
  if p1.op != OP_DATA_32 then pure false else do
  let p2 ← idx pops 2
  if p2.op == OP_DATA_20 then pure true else do
  let p2' ← idx pops 2
  pure (p2'.op == OP_DATA_22)

def isMultiSig (pops : List Pop) : M Bool :=
  let l := pops.length
  if l < 4 then pure false else do
  let p0 ← idx pops 0
  if !isSmallInt p0.op then pure false else do
  let pn ← idx pops (l - 2)
  if !isSmallInt pn.op then pure false else do
  let pl ← idx pops (l - 1)
  if pl.op != OP_CHECKMULTISIG then pure false else do
  let pn' ← idx pops (l - 2)
  if l - 2 - 1 != asSmallInt pn'.op then pure false else do
  let keys ← slice pops 1 (l - 2)
  pure (keys.all (fun p => p.data.length == 33 || p.data.length == 65))

/-- the tail of isNullData: `l == 2 && pops[0] is OP_RETURN && pops[1].opcode.value <= OP_PUSHDATA4 && …` -/
def isNullData2 (pops : List Pop) : M Bool :=
  if pops.length != 2 then pure false else do
  let p0 ← idx pops 0
  if p0.op != OP_RETURN then pure false else do
  let p1 ← idx pops 1
  if !(p1.op ≤ OP_PUSHDATA4) then pure false else do
  let p1' ← idx pops 1
  pure (decide (p1'.data.length ≤ Gen.Script.maxDataCarrierSize))

def isNullData (pops : List Pop) : M Bool :=
  if pops.length == 1 then do
    let p0 ← idx pops 0
    if p0.op == OP_RETURN then pure true else isNullData2 pops
  else isNullData2 pops

inductive Class
  | nonStandard | witnessV0ScriptHash | stakingScriptHash | bindingScriptHash | multiSig | nullData
  deriving DecidableEq, Repr

def Class.toNat : Class → Nat
  | .nonStandard => 0 | .witnessV0ScriptHash => 1 | .stakingScriptHash => 2
  | .bindingScriptHash => 3 | .multiSig => 4 | .nullData => 5

def typeOfScript (pops : List Pop) : M Class := do
  if ← isWitnessScriptHash pops then pure .witnessV0ScriptHash
  else if ← isWitnessStakingScript pops then pure .stakingScriptHash
  else if ← isWitnessBindingScript pops then pure .bindingScriptHash
  else if ← isMultiSig pops then pure .multiSig
  else if ← isNullData pops then pure .nullData
  else pure .nonStandard

/-- an `err != nil` test: Go errors are caught, panics propagate -/
def catchErr {α} (x : M α) : M (Except Err α) :=
  match x with
  | .ok a => .ok (.ok a)
  | .error (.err e) => .ok (.error e)
  | .error (.panic k) => .error (.panic k)

/-- `if err != nil { return nil, f(err) }`: errors are replaced, panics propagate -/
def mapErr {α} (x : M α) (f : Err → Err) : M α :=
  match x with
  | .ok a => .ok a
  | .error (.err e) => .error (.err (f e))
  | .error (.panic k) => .error (.panic k)

def getScriptClass (s : Bytes) : M Class := do
  match ← catchErr (parseScript s) with
  | .error _ => return .nonStandard
  | .ok pops => typeOfScript pops

/-- txscript.GetScriptInfo: `(NonStandardTy, nil)` when the script does not parse -/
def getScriptInfo (s : Bytes) : M (Class × List Pop) := do
  match ← catchErr (parseScript s) with
  | .error _ => return (.nonStandard, [])
  | .ok pops => return (← typeOfScript pops, pops)

/-- `copy(rsh[:], scripthash[:])` into a zeroed 32-byte array -/
def copy32 (src : Bytes) : Bytes := src.take 32 ++ List.replicate (32 - src.length) 0

/-- binary.LittleEndian.Uint64: `_ = b[7]` is a bounds check -/
def leUint64 (b : Bytes) : M Nat := do
  let _ ← idx b 7
  pure (leNat (b.take 8))

def getParsedOpcode (pops : List Pop) (cls : Class) : M (Nat × Bytes) := do
  let zero8 : Bytes := List.replicate 8 0
  let (height, rsh) ← (match cls with
    | .stakingScriptHash => do
        let p1 ← idx pops 1
        if p1.data.length != Gen.Script.witnessV0ScriptHashDataSize then fail .progLen
        else
          let p2 ← idx pops 2
          pure (p2.data, copy32 p1.data)
    | .witnessV0ScriptHash => do
        let p1 ← idx pops 1
        if p1.data.length != Gen.Script.witnessV0ScriptHashDataSize then fail .progLen
        else pure (zero8, copy32 p1.data)
    | .bindingScriptHash => do
        let p1 ← idx pops 1
        if p1.data.length != Gen.Script.witnessV0ScriptHashDataSize then fail .progLen
        else
          let p2 ← idx pops 2
          if p2.data.length != Gen.Script.OP_DATA_20 then
            let p2' ← idx pops 2
            if p2'.data.length != Gen.Script.OP_DATA_22 then fail .extProgLen
            else pure (zero8, copy32 p1.data)
          else pure (zero8, copy32 p1.data)
    | _ => fail .badClass : M (Bytes × Bytes))
  let hgt ← leUint64 height
  pure (hgt, rsh)

def getParsedBindingOpcode (pops : List Pop) : M (Bytes × Bytes) := do
  if !(← isWitnessBindingScript pops) then fail .invalidBinding
  else
    let p1 ← idx pops 1
    let p2 ← idx pops 2
    pure (p1.data, p2.data)

/-! ### addresses (massutil) – the string encodings (bech32 / base58check) are not modelled -/

inductive Addr
  | wsh (ext : Nat) (prog : Bytes)   -- AddressWitnessScriptHash, extendVersion 0 = standard, 1 = staking
  | pkh (h : Bytes)                  -- AddressPubKeyHash (old binding target)
  | target (t : Bytes)               -- AddressBindingTarget (MASS IP2)
  | pubkey (k : Bytes)               -- AddressPubKey
  deriving DecidableEq, Repr

def Addr.scriptAddress : Addr → Bytes
  | .wsh _ p => p | .pkh h => h | .target t => t | .pubkey k => k

def newAddressWitnessScriptHash (ext : Nat) (prog : Bytes) : M Addr :=
  if prog.length != 32 then fail .addr
  else if ext > 1 then fail .addr
  else pure (.wsh ext prog)

def newAddressPubKeyHash (h : Bytes) : M Addr :=
  if h.length != 20 then fail .addr else pure (.pkh h)

def newAddressBindingTarget (t : Bytes) : M Addr := do
  if t.length != 22 then fail .addr
  else
    let ty ← idx t 20
    if ty != 0 && ty != 1 then fail .addr
    else
      let sz ← idx t 21
      if sz < 20 then fail .addr
      else
        let sz' ← idx t 21
        if sz' > 200 then fail .addr
        else pure (.target t)

def isWitnessV0Address : Addr → Bool
  | .wsh 0 _ => true | _ => false
def isWitnessStakingAddress : Addr → Bool
  | .wsh 1 _ => true | _ => false

/-! ### txscript.ExtractPkScriptAddrs -/

/-- the multisig loop: `addr, err := NewAddressPubKey(…); pk := addr.PubKey()` dereferences `addr`
    before looking at `err` -/
def extractKeys (pkValid : Bytes → Bool) (pops : List Pop) : Nat → Nat → M (List Addr)
  | 0, _ => pure []
  | n + 1, i => do
    let p ← idx pops (i + 1)
    if !pkValid p.data then panic .nilDeref
    else
      let rest ← extractKeys pkValid pops n (i + 1)
      pure (.pubkey p.data :: rest)

structure Extracted where
  cls : Class
  addrs : List Addr
  reqSigs : Nat
  deriving DecidableEq, Repr

def okAddr (x : M Addr) : M (List Addr) := do
  match ← catchErr x with
  | .ok a => pure [a]
  | .error _ => pure []

def extractPkScriptAddrs (pkValid : Bytes → Bool) (s : Bytes) : M Extracted := do
  let pops ← parseScript s
  let cls ← typeOfScript pops
  match cls with
  | .witnessV0ScriptHash =>
      let p1 ← idx pops 1
      let a ← okAddr (newAddressWitnessScriptHash 0 p1.data)
      pure ⟨cls, a, 1⟩
  | .stakingScriptHash =>
      let p1 ← idx pops 1
      let a ← okAddr (newAddressWitnessScriptHash 1 p1.data)
      pure ⟨cls, a, 1⟩
  | .bindingScriptHash =>
      let p1 ← idx pops 1
      let a ← okAddr (newAddressWitnessScriptHash 0 p1.data)
      let p2 ← idx pops 2
      let t ← (if p2.data.length == Gen.Script.OP_DATA_20 then do
                  let p2' ← idx pops 2
                  okAddr (newAddressPubKeyHash p2'.data)
               else do
                  let p2' ← idx pops 2
                  okAddr (newAddressBindingTarget p2'.data))
      pure ⟨cls, a ++ t, 1⟩
  | .multiSig =>
      let p0 ← idx pops 0
      let pn ← idx pops (pops.length - 2)
      let numPubKeys := asSmallInt pn.op
      let addrs ← extractKeys pkValid pops numPubKeys 0
      pure ⟨cls, addrs, asSmallInt p0.op⟩
  | .nullData => pure ⟨cls, [], 0⟩
  | .nonStandard => pure ⟨cls, [], 0⟩

/-- txscript.CalcMultiSigStats: (numPubKeys, numSigs) -/
def calcMultiSigStats (s : Bytes) : M (Nat × Nat) := do
  let pops ← parseScript s
  if pops.length < 4 then fail .stackUnderflow
  else
    let p0 ← idx pops 0
    let pn ← idx pops (pops.length - 2)
    pure (asSmallInt pn.op, asSmallInt p0.op)

/-! ### the wallet: utils.ParsePkScript -/

structure PkInfo where
  scriptClass : Class
  addressClass : Nat
  std : Option Addr
  second : Option Addr
  maturity : Nat          -- uint64
  deriving DecidableEq, Repr

def PkInfo.isStaking (p : PkInfo) : Bool := p.scriptClass == .stakingScriptHash
def PkInfo.isBinding (p : PkInfo) : Bool := p.scriptClass == .bindingScriptHash

/-- an assignment `x, err = f()` whose `err` is not looked at before the function returns `ret, nil` -/
def ignoreErr (x : M Addr) : M (Option Addr) := do
  match ← catchErr x with
  | .ok a => pure (some a)
  | .error _ => pure none

def parsePkScript (s : Bytes) : M PkInfo := do
  let (cls, pops) ← getScriptInfo s
  -- scripts that match none of the three witness templates are not the wallet's business
  match cls with
  | .witnessV0ScriptHash | .stakingScriptHash | .bindingScriptHash =>
    let (height, scriptHash) ← getParsedOpcode pops cls
    match cls with
    | .witnessV0ScriptHash =>
        let std ← ignoreErr (newAddressWitnessScriptHash 0 scriptHash)
        pure ⟨cls, Gen.Script.addressClassWitnessV0, std, none, 0⟩
    | .stakingScriptHash =>
        let std ← newAddressWitnessScriptHash 0 scriptHash
        let second ← ignoreErr (newAddressWitnessScriptHash 1 scriptHash)
        pure ⟨cls, Gen.Script.addressClassWitnessStaking, some std, second, (height + 1) % 2 ^ 64⟩
    | .bindingScriptHash =>
        let (s1, s2) ← getParsedBindingOpcode pops
        let std ← newAddressWitnessScriptHash 0 s1
        -- a target without an address form is reported as ErrUnsupportedScript
        if s2.length == Gen.Script.OP_DATA_20 then
          let second ← mapErr (newAddressPubKeyHash s2) (fun _ => .unsupported)
          pure ⟨cls, Gen.Script.addressClassWitnessV0, some std, some second, 0⟩
        else
          let second ← mapErr (newAddressBindingTarget s2) (fun _ => .unsupported)
          pure ⟨cls, Gen.Script.addressClassWitnessV0, some std, some second, Gen.Script.bindingLockedPeriod⟩
    | _ => fail .unsupported
  | _ => fail .unsupported

/-! ### the API view: api.extractAddressInfos -/

structure BindingView where
  target : Addr
  isChia : Bool
  size : Nat
  deriving DecidableEq, Repr

structure AddrInfos where
  cls : Class
  recipient : Option Addr
  staking : Option Addr
  binding : Option BindingView
  reqSigs : Nat
  deriving DecidableEq, Repr

def extractAddressInfos (pkValid : Bytes → Bool) (s : Bytes) : M AddrInfos := do
  if (← getScriptClass s) == .multiSig then
    let (_, numSigs) ← calcMultiSigStats s
    pure ⟨.multiSig, none, none, none, numSigs⟩
  else
    let ex ← extractPkScriptAddrs pkValid s
    if ex.addrs.length == 0 then fail .noAddr
    else
      match ex.cls with
      | .stakingScriptHash =>
          let a0 ← idx ex.addrs 0
          let std ← newAddressWitnessScriptHash 0 a0.scriptAddress
          let a0' ← idx ex.addrs 0
          pure ⟨ex.cls, some std, some a0', none, ex.reqSigs⟩
      | .bindingScriptHash =>
          if ex.addrs.length < 2 then fail .noAddr
          else
            let a1 ← idx ex.addrs 1
            let sa := a1.scriptAddress
            let (chia, size) ← (if sa.length == 22 then do
                                  let ty ← idx sa 20
                                  let sz ← idx sa 21
                                  pure (ty == 1, sz.toNat)
                                else pure (false, 0) : M (Bool × Nat))
            let a1' ← idx ex.addrs 1
            let a0 ← idx ex.addrs 0
            pure ⟨ex.cls, some a0, none, some ⟨a1', chia, size⟩, ex.reqSigs⟩
      | .witnessV0ScriptHash =>
          let a0 ← idx ex.addrs 0
          pure ⟨ex.cls, some a0, none, none, ex.reqSigs⟩
      | _ => pure ⟨ex.cls, none, none, none, ex.reqSigs⟩

/-! ### builders -/

structure Builder where
  script : Bytes := []
  err : Option Err := none
  deriving DecidableEq, Repr

def Builder.addOp (b : Builder) (op : UInt8) : Builder :=
  if b.err.isSome then b
  else if b.script.length + 1 > Gen.Script.maxScriptSize then { b with err := some .notCanonical }
  else { b with script := b.script ++ [op] }

/-- the size classes shared by canonicalDataSize and addData once the small-integer cases are excluded -/
def canonicalDataSize (data : Bytes) : M Nat :=
  let n := data.length
  let big : Nat :=
    if n < Gen.Script.OP_PUSHDATA1 then 1 + n
    else if n ≤ 0xff then 2 + n
    else if n ≤ 0xffff then 3 + n
    else 5 + n
  if n == 0 then pure 1
  else if n == 1 then do
    let d0 ← idx data 0
    if d0 ≤ 16 then pure 1 else do
    let d0' ← idx data 0
    if d0' == 0x81 then pure 1 else pure big
  else pure big

/-- little-endian encoding on `k` bytes (binary.LittleEndian.PutUintNN) -/
def leEnc : Nat → Nat → Bytes
  | 0, _ => []
  | k + 1, v => UInt8.ofNat (v % 256) :: leEnc k (v / 256)

def Builder.addDataRaw (b : Builder) (data : Bytes) : M Builder :=
  let n := data.length
  let head : Bytes :=
    if n < Gen.Script.OP_PUSHDATA1 then [UInt8.ofNat (Gen.Script.OP_DATA_1 - 1 + n)]
    else if n ≤ 0xff then [OP_PUSHDATA1, UInt8.ofNat n]
    else if n ≤ 0xffff then OP_PUSHDATA2 :: leEnc 2 n
    else OP_PUSHDATA4 :: leEnc 4 n
  let push : Builder := { b with script := b.script ++ head ++ data }
  if n == 0 then pure { b with script := b.script ++ [OP_0] }
  else if n == 1 then do
    let d0 ← idx data 0
    if d0 == 0 then pure { b with script := b.script ++ [OP_0] } else do
    let d1 ← idx data 0
    if d1 ≤ 16 then do
      let d2 ← idx data 0
      pure { b with script := b.script ++ [(OP_1 - 1) + d2] }
    else do
    let d3 ← idx data 0
    if d3 == 0x81 then pure { b with script := b.script ++ [OP_1NEGATE] } else pure push
  else pure push

def Builder.addData (b : Builder) (data : Bytes) : M Builder :=
  if b.err.isSome then pure b else do
  let dataSize ← canonicalDataSize data
  if b.script.length + dataSize > Gen.Script.maxScriptSize then pure { b with err := some .notCanonical }
  else if data.length > Gen.Script.maxScriptElementSize then pure { b with err := some .notCanonical }
  else b.addDataRaw data

def Builder.result (b : Builder) : M Bytes :=
  match b.err with
  | some e => fail e
  | none => pure b.script

def payToWitnessScriptHashScript (scriptHash : Bytes) : M Bytes := do
  if scriptHash.length != Gen.Script.witnessV0ScriptHashDataSize then fail .progLen
  else
    let b ← (({} : Builder).addOp OP_0).addData scriptHash
    b.result

def payToBindingScriptHashScript (h1 h2 : Bytes) : M Bytes := do
  if h1.length != Gen.Script.witnessV0ScriptHashDataSize ||
     (h2.length != Gen.Script.OP_DATA_20 && h2.length != Gen.Script.OP_DATA_22) then fail .progLen
  else
    let b ← (({} : Builder).addOp OP_0).addData h1
    let b ← b.addData h2
    b.result

/-- wire.IsValidFrozenPeriod -/
def isValidFrozenPeriod (h : Nat) : Bool :=
  h ≥ Gen.Script.minFrozenPeriod && h ≤ Gen.Script.sequenceLockTimeMask - 1

def payToStakingScriptHashScript (scriptHash : Bytes) (frozen : Nat) : M Bytes := do
  if scriptHash.length != Gen.Script.witnessV0ScriptHashDataSize then fail .progLen
  else if !isValidFrozenPeriod frozen then fail .frozenPeriod
  else
    let buf := leEnc 8 frozen
    let b ← (({} : Builder).addOp OP_0).addData scriptHash
    let b ← b.addData buf
    b.result

def payToStakingAddrScript (a : Addr) (frozen : Nat) : M Bytes :=
  if !isWitnessStakingAddress a then fail .unsupportedAddress
  else payToStakingScriptHashScript a.scriptAddress frozen

def payToAddrScript (a : Addr) : M Bytes :=
  if !isWitnessV0Address a then fail .unsupportedAddress
  else payToWitnessScriptHashScript a.scriptAddress

/-- masswallet.PayToWitnessV0Address after massutil.DecodeAddress succeeded with `a`
    (the string codec and IsForNet are outside the model) -/
def payToWitnessV0Address (a : Addr) : M Bytes :=
  if !isWitnessV0Address a then fail .invalidAddress
  else mapErr (payToAddrScript a) (fun _ => .createPkScript)

/-- masswallet.amountToTxOut: the pkScript of the TxOut -/
def amountToTxOut (a : Addr) (amount : Nat) : M Bytes :=
  if amount == 0 then fail .invalidAmount else payToWitnessV0Address a

/-- masswallet.constructStakingTxOut for one output (amount already known to be in range) -/
def constructStakingTxOut (a : Addr) (frozen : Nat) (amount : Nat) (maxAmount : Nat) : M Bytes :=
  if amount == 0 || amount > maxAmount then fail .invalidAmount
  else if !isWitnessStakingAddress a then fail .invalidAddress
  else mapErr (payToStakingAddrScript a frozen) (fun e => if e == .frozenPeriod then e else .createPkScript)

end MW.Model.Script
