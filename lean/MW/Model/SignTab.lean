/-
  C03 round 5: the `Crypto` / `Codec` instance the `sec` DRIVER runs `signTx (vmEngine …)` with.

  The Lean side never computes a hash, a signature hash or a curve operation: a `sign` / `autosign` op line carries
  ORACLE tokens – true facts about the primitives, computed by the harness with the real sha256 / btcec and by the
  REAL signer of the wallet (WalletManager.SignHash → signBtcec; btcec signatures are deterministic, RFC 6979):

      a:<address>:<script hash>:<pubkey|->       script hash of a symbolic address and the public key the keystore holds for it
      s:<in>:<out>                               sha256(in) = out
      k:<pubkey>                                 btcec.ParsePubKey accepts
      d:<i>:<amount>:<sub-script>:<ht>:<digest>  signature hash of input i (script code, amount, hash type)
      g:<pubkey>:<digest>:<der>                  the real signer's signature of digest under the key; btcec.ParseDERSignature
                                                 accepts it and Signature.Verify(digest, key) holds
      w:<i>:<item>:<item>                        the witness of input i in the transaction the REAL SignRawTx returned
      x:<why>                                    an oracle of the harness failed (the model answers `oracle:<why>`)

  `tabCrypto T` / `tabCodec T` satisfy every law of `Crypto` / `Codec` BY CONSTRUCTION for every table `T` (keys are the
  tabled compressed keys, signatures are strict-DER byte strings, a signature verifies iff it is the tabled signature of
  (key, digest) – or a fixed default when nothing is tabled, which then fails the byte-level checks of nothing but is not
  the real one: an un-tabled fact yields a sentinel and therefore a disagreement, never a silent pass).
  Hence `vmEngine (tabCodec T)` – the script VM model with the PROVED law `vm_law` – is what the driver executes, and
  `MW.Props.C03.sign_checked_vm` / `sign_complete_vm` / `pass_gate_vm` apply verbatim to every driver run.
  Core Lean only (MW.Lemmas.SignVM and what it imports use no Mathlib).
-/
import MW.Lemmas.SignVM
import MW.Model.Ledger
namespace MW.Model.SignTab
open MW MW.Model.Sign MW.Model.ScriptVM MW.Lemmas.SignVM MW.Lemmas.ScriptVMParse

/-- script class of a ledger output as txscript.ExtractPkScriptAddrs sees it -/
def clsOf : Ledger.Cls → Class
  | .std => .std
  | .stk f => .stk f
  | .bindOld _ => .bind
  | .bindNew _ => .bind
  | .raw => .other

/-- … and as the engine run treats it for a previous transaction at height `h` (warm-up height `warm`) -/
def classAt (warm : Nat) (c : Ledger.Cls) (h : Nat) : Class := (clsOf c).atHeight warm h

structure Tab where
  addrs : List (String × Bytes × Option Bytes) := []
  sha : List (Bytes × Bytes) := []
  keys : List Bytes := []
  dig : List (Nat × Nat × Bytes × Nat × Bytes) := []
  sigs : List (Bytes × Bytes × Bytes) := []
  wit : List (Nat × List Bytes) := []
  bad : List String := []

/-- a tabled compressed public key -/
def PKOk (T : Tab) (b : Bytes) : Prop := isCompressed b = true ∧ T.keys.contains b = true

instance (T : Tab) (b : Bytes) : Decidable (PKOk T b) := by unfold PKOk; exact inferInstance

abbrev PKt (T : Tab) := { b : Bytes // PKOk T b }

/-- a strict-DER, low-S signature (what checkSignatureEncoding demands) -/
abbrev Sigt := { b : Bytes // isOk (checkSigEncoding b) = true }

/-- `30 06 02 01 01 02 01 01`: the signature the model makes when the harness tabled none -/
def dfltDer : Bytes := [0x30, 6, 2, 1, 1, 2, 1, 1]

theorem dfltDer_ok : isOk (checkSigEncoding dfltDer) = true := by decide

def dfltSig : Sigt := ⟨dfltDer, dfltDer_ok⟩

/-- the signature of (key, digest): the real signer's, from the table -/
def signT (T : Tab) (pk : Bytes) (m : Bytes) : Sigt :=
  match T.sigs.find? (fun e => e.1 == pk && e.2.1 == m) with
  | some e => if h : isOk (checkSigEncoding e.2.2) = true then ⟨e.2.2, h⟩ else dfltSig
  | none => dfltSig

@[reducible] def tabCrypto (T : Tab) : Crypto where
  SK := PKt T
  PK := PKt T
  Sig := Sigt
  Msg := Bytes
  Pass := String
  Params := String
  decPass := inferInstance
  pkOf := id
  sign := fun sk m => signT T sk.1 m
  verify := fun pk m s => decide (s = signT T pk.1 m)
  derive := fun q p => p == q
  params := id
  verify_sign := by intro sk m; simp
  kdf_correct := by intro pass p; simp

def shaFallback : Bytes := List.replicate 32 0xde

def shaT (T : Tab) (b : Bytes) : Bytes :=
  match T.sha.find? (fun e => e.1 == b) with
  | some e => if e.2.length = 32 then e.2 else shaFallback
  | none => shaFallback

theorem shaT_len (T : Tab) (b : Bytes) : (shaT T b).length = 32 := by
  unfold shaT
  split
  · split
    · assumption
    · simp [shaFallback]
  · simp [shaFallback]

/-- calcWitnessSignatureHash, from the table; an un-tabled query yields the empty digest -/
def digT (T : Tab) (i amt : Nat) (code : Bytes) (ht : Nat) : Bytes :=
  match T.dig.find? (fun e => e.1 == i && e.2.1 == amt && e.2.2.1 == code && e.2.2.2.1 == ht) with
  | some e => e.2.2.2.2
  | none => []

def tabCodec (T : Tab) : Codec (tabCrypto T) where
  sha256 := shaT T
  encPK := fun pk => pk.1
  parsePK := fun b => if h : PKOk T b then some ⟨b, h⟩ else none
  encSig := fun s => s.1
  parseSig := fun b => if h : isOk (checkSigEncoding b) = true then some ⟨b, h⟩ else none
  sighash := fun _ i amt code ht => digT T i amt code ht
  sha256_len := shaT_len T
  encPK_compressed := fun pk => pk.2.1
  parsePK_enc := by intro pk; simp [pk.2]
  encSig_strict := fun s => (isOk_iff _).1 s.2
  parseSig_enc := by intro s; simp [s.2]

/-- the engine the driver runs: the script VM model (law proved: `MW.Lemmas.SignVM.vm_law`) -/
def tabEngine (T : Tab) : Engine (tabCrypto T) Bytes := vmEngine (tabCodec T)

-- ------------------------------------------------------------------ parsing the tokens

def parseTok (t : Tab) (tok : String) : Option Tab :=
  match tok.splitOn ":" with
  | ["a", n, sh, pk] => do
    let h ← Hex.decode sh
    if pk = "-" then pure { t with addrs := (n, h, none) :: t.addrs }
    else do
      let k ← Hex.decode pk
      pure { t with addrs := (n, h, some k) :: t.addrs }
  | ["s", a, b] => do
    let x ← Hex.decode a
    let y ← Hex.decode b
    pure { t with sha := (x, y) :: t.sha }
  | ["k", a] => do
    let x ← Hex.decode a
    pure { t with keys := x :: t.keys }
  | ["d", i, amt, sub, ht, dg] => do
    let i ← i.toNat?
    let amt ← amt.toNat?
    let sub ← Hex.decode sub
    let ht ← ht.toNat?
    let dg ← Hex.decode dg
    pure { t with dig := (i, amt, sub, ht, dg) :: t.dig }
  | ["g", pk, dg, der] => do
    let pk ← Hex.decode pk
    let dg ← Hex.decode dg
    let der ← Hex.decode der
    pure { t with sigs := (pk, dg, der) :: t.sigs }
  | ["w", i, a, b] => do
    let i ← i.toNat?
    let a ← Hex.decode a
    let b ← Hex.decode b
    pure { t with wit := (i, [a, b]) :: t.wit }
  | ["x", why] => pure { t with bad := why :: t.bad }
  | _ => none

def parseToks (toks : List String) : Option Tab := toks.foldlM parseTok {}

/-- script hash of a symbolic address (an un-tabled address: its name as bytes – never 32 bytes long) -/
def shOf (T : Tab) (a : String) : Bytes :=
  match T.addrs.find? (fun e => e.1 == a) with
  | some e => e.2.1
  | none => bytesOfString a

/-- the key the keystore holds for a script hash, with the symbolic address it belongs to -/
def keyOf (T : Tab) (h : Bytes) : Option (String × PKt T) :=
  match T.addrs.find? (fun e => e.2.1 == h) with
  | some (a, _, some k) => if hk : PKOk T k then some (a, ⟨k, hk⟩) else none
  | _ => none

/-- every input of a transaction the model signed carries EXACTLY the witness bytes of the real signed transaction
    (the first input that does not, if any) -/
def witnessDiff (T : Tab) (ins : List (TxIn (Witness (tabCrypto T)))) : Option Nat :=
  (ins.zipIdx.find? (fun (inp, i) =>
    match inp.wit with
    | some w => !(T.wit.contains (i, witnessBytes (tabCodec T) w))
    | none => true)).map (·.2)

end MW.Model.SignTab
