/-
  MODEL of fee computation and transaction assembly (DESIGN.md section 6, C02).

  Go code followed:
    masswallet/common.go   autoConstructTxInAndChangeTxOut (fee fixed point, dust-change retry),
                           maybeSubtractFeeFromAmounts, amountToTxOut (zero check)
    masswallet/tx.go       estimateSignedSize, EstimateManualTxFee, findEligibleUtxos (error split),
                           constructTxOut (dust check)
    masswallet/wallet.go   CreateRawTransaction (no-change / with-change fee, NotEnoughInputs),
                           MarkUsedUTXO / UTXOUsed / ClearUsedUTXOMark (reservation cache)
    api/util.go            checkTxFeeLimit;   api/tx_service.go: where it is called
    mass-core blockchain   CalcMinRequiredTxRelayFee, isDust (transcribed; constants from MW.Gen.TxBuild)
-/
import MW.Model.Select
namespace MW.Model.Fee
open MW MW.Model.Select

def minRelay : Nat := Gen.TxBuild.minRelayTxFee

/-- blockchain.CalcMinRequiredTxRelayFee(size, MinRelayTxFee) -/
def relayFee (size : Nat) : Nat :=
  let r := minRelay * size / Gen.TxBuild.feeDivisor
  if r = 0 ∧ minRelay ≠ 0 then minRelay
  else if r > maxAmount then maxAmount else r

/-- per-input bytes of estimateSignedSize: len(redeem script) + 73*nrequired + 8 + 32 + 4 -/
def inSize : Nat :=
  Gen.TxBuild.redeemScriptLen + Gen.TxBuild.sigSize * Gen.TxBuild.nRequired + Gen.TxBuild.seqSize +
    Gen.TxBuild.hashSize + Gen.TxBuild.indexSize

/-- estimateSignedSize(utxos, TxOutLen) for wallet (1-of-1) coins -/
def estSize (nIn nOut : Nat) : Nat := nIn * inSize + Gen.TxBuild.outSize * nOut + Gen.TxBuild.txOverhead

/-- blockchain.isDust for an output whose script has `scriptLen` bytes (spendable scripts) -/
def isDust (value scriptLen : Nat) : Bool :=
  decide (value * 1000 / (3 * (8 + scriptLen + 154)) < minRelay)

inductive Err
  | insufficient | overfull | notEnough | dust | dustChange | subfee | noaddr | amount | param | bigfee
  | other | fuel
  deriving Repr, DecidableEq, Inhabited

def Err.tok : Err → String
  | .insufficient => "err:insufficient" | .overfull => "err:overfull" | .notEnough => "err:notenough"
  | .dust => "err:dust" | .dustChange => "err:dustchange" | .subfee => "err:subfee" | .noaddr => "err:noaddr"
  | .amount => "err:amount" | .param => "err:param" | .bigfee => "err:bigfee" | .other => "err:other"
  | .fuel => "err:fuel"

/-- massutil.Amount.Add: checked against MaxAmount (error class `other`: massutil.ErrMaxAmount) -/
def addAmt (a b : Nat) : Except Err Nat := if a + b > maxAmount then .error .other else .ok (a + b)

-- ------------------------------------------------------------------ automatic path

/-- what autoConstructTxInAndChangeTxOut sees of the wallet: the coins that pass the eligibility
    filter, in the order the unspent bucket yields them, and the selector's k -/
structure Env where
  coins : List Coin
  k : Nat := kStd
  /-- existsMsgTx succeeds for the coin (its transaction is still where the wallet recorded it on the
      node's chain); false only while a reorganisation has not been delivered to the wallet yet -/
  resolvable : Coin → Bool := fun _ => true
  deriving Inhabited

structure Found where
  sel : List Coin
  first : String        -- firstAddr: address of selections[0] ("" when nothing is selected)
  found : Nat
  overfull : Bool
  deriving Repr, Inhabited

/-- findEligibleUtxos(amount, addrs) on the eligible coins -/
def findEligible (env : Env) (amount : Nat) : Except Err Found :=
  if amount = 0 then .error .param else
  match pipeline env.k amount env.coins with
  | .error _ => .error .other
  | .ok (sel, found, overfull) => .ok ⟨sel, (sel.head?.map (·.addr)).getD "", found, overfull⟩

structure AutoRes where
  ins : List Coin
  change : Option (String × Nat)     -- (address, amount)
  fee : Nat
  deriving Repr, Inhabited, DecidableEq

/-- the inner `for` of autoConstructTxInAndChangeTxOut (selection + change, `adj` retry).
    Returns (selection, change output, txOutLen). -/
def innerLoop (env : Env) (target outSum nOut : Nat) (chgAddr : String) :
    Nat → Nat → Except Err (List Coin × Option (String × Nat) × Nat)
  | 0, _ => .error .fuel
  | fuel + 1, adj =>
    match addAmt target outSum with
    | .error e => .error e
    | .ok want =>
      match addAmt want adj with
      | .error e => .error e
      | .ok wantAdj =>
        match findEligible env wantAdj with
        | .error e => .error e
        | .ok f =>
          if f.found < wantAdj then .error (if f.overfull then .overfull else .insufficient)
          else
            let change := f.found - want
            if change ≠ 0 then
              if change < minRelay then
                innerLoop env target outSum nOut chgAddr fuel minRelay      -- adj = MinRelayTxFee; continue
              else
                .ok (f.sel, some (if chgAddr.length > 0 then chgAddr else f.first, change), nOut + 1)
            else .ok (f.sel, none, nOut)

/-- the outer `for`: estimate the signed size, raise the target fee until it covers the relay fee -/
def outerLoop (env : Env) (outSum nOut payloadLen : Nat) (chgAddr : String) :
    Nat → Nat → Except Err AutoRes
  | 0, _ => .error .fuel
  | fuel + 1, target =>
    match innerLoop env target outSum nOut chgAddr 2 0 with
    | .error e => .error e
    | .ok (sel, chg, txOutLen) =>
      -- estimateSignedSize looks every selected coin up again: "estimate signedSize failed" → ErrInvalidParameter
      if sel.any (fun c => !env.resolvable c) then .error .param
      else
        let size := estSize sel.length txOutLen + payloadLen
        let required := relayFee size
        if target ≥ required then .ok ⟨sel, chg, target⟩
        else outerLoop env outSum nOut payloadLen chgAddr fuel required

/-- the largest size estimateSignedSize can report for a selection of the selector (k coins and the guard) -/
def sizeBound (k nOut payloadLen : Nat) : Nat := estSize (k + 1) (nOut + 1) + payloadLen

/-- iterations that always suffice: the target fee strictly increases and never exceeds the relay
    fee of the largest size (theorem feeLoop_terminates) -/
def outerFuel (k nOut payloadLen : Nat) : Nat := relayFee (sizeBound k nOut payloadLen) + 2

/-- autoConstructTxInAndChangeTxOut(msgTx, lockTime, addrs, userTxFee, changeAddr) where msgTx has
    the requested outputs `outs` (amounts) and a payload of `payloadLen` bytes -/
def sumOuts (outs : List Nat) : Except Err Nat :=
  outs.foldlM (fun acc v => if acc + v > maxAmount then .error Err.amount else .ok (acc + v)) 0

def autoConstruct (env : Env) (outs : List Nat) (payloadLen userFee : Nat) (chgAddr : String) :
    Except Err AutoRes :=
  let target := if userFee ≠ 0 then userFee else minRelay
  -- outAmounts: AddInt per output, ErrInvalidAmount on overflow
  match sumOuts outs with
  | .error e => .error e
  | .ok outSum =>
    outerLoop env outSum outs.length payloadLen chgAddr (outerFuel env.k outs.length payloadLen) target

-- ------------------------------------------------------------------ fee subtraction (manual path)

/-- the loop `for addr, amount := range amounts` of maybeSubtractFeeFromAmounts: subtract the share
    from the selected recipients, add everything up (checked additions) -/
def subEach (selected : List String) (eachSub : Nat) : List (String × Nat) → Nat → Except Err (List (String × Nat) × Nat)
  | [], tot => .ok ([], tot)
  | e :: rest, tot =>
    if selected.contains e.1 ∧ e.2 < eachSub then .error .other          -- amount.Sub underflow
    else
      let v := if selected.contains e.1 then e.2 - eachSub else e.2
      match addAmt tot v with
      | .error err => .error err
      | .ok tot' =>
        match subEach selected eachSub rest tot' with
        | .error err => .error err
        | .ok (out, t) => .ok ((e.1, v) :: out, t)

/-- maybeSubtractFeeFromAmounts(amounts, selected, requiredFee) on an association list
    (the Go map has distinct keys; iteration order does not influence the result).
    Returns (newAmounts, totalAndFee). -/
def maybeSubtractFee (amounts : List (String × Nat)) (selected : List String) (fee : Nat) :
    Except Err (List (String × Nat) × Nat) :=
  if selected.any (fun a => !(amounts.any (fun e => e.1 == a))) then .error .subfee else
  let n := selected.length
  if n = 0 then
    if fee > maxAmount then .error .other
    else subEach [] 0 amounts fee
  else
    let eachSub := (fee + n - 1) / n
    if eachSub > maxAmount then .error .other            -- NewAmountFromInt
    else if eachSub * n > maxAmount then .error .other
    else subEach selected eachSub amounts (eachSub * n)

structure ManualRes where
  outs : List (String × Nat)         -- requested outputs after fee subtraction
  change : Nat                       -- 0 = no change output
  fee : Nat
  deriving Repr, Inhabited, DecidableEq

/-- constructTxOut: dust check over the requested outputs, then the change -/
def dustCheck (newA : List (String × Nat)) (change : Nat) : Except Err Unit :=
  if newA.any (fun e => isDust e.2 Gen.TxBuild.p2wshScriptLen) then .error .dust
  else if change ≠ 0 ∧ isDust change Gen.TxBuild.p2wshScriptLen then .error .dustChange
  else .ok ()

/-- the arithmetic of CreateRawTransaction after constructTxIn: `totalIn` = Σ input values,
    `nIn` inputs, requested `amounts`, `subfee` recipients; outputs are standard P2WSH. -/
def manualBuild (totalIn nIn : Nat) (amounts : List (String × Nat)) (subfee : List String) :
    Except Err ManualRes :=
  let feeNC := relayFee (estSize nIn amounts.length)
  match maybeSubtractFee amounts subfee feeNC with
  | .error e => .error e
  | .ok (newA, totNC) =>
    if totalIn < totNC then .error .notEnough
    else if totalIn - totNC = 0 then
      -- no change output
      match dustCheck newA 0 with
      | .error e => .error e
      | .ok _ => .ok ⟨newA, 0, totalIn - (newA.map (·.2)).sum⟩
    else
      let feeWC := relayFee (estSize nIn (amounts.length + 1))
      match maybeSubtractFee amounts subfee feeWC with
      | .error e => .error e
      | .ok (newA', tot) =>
        if totalIn ≤ tot then .error .notEnough
        else
          let change := totalIn - tot
          match dustCheck newA' change with
          | .error e => .error e
          | .ok _ => .ok ⟨newA', change, totalIn - ((newA'.map (·.2)).sum + change)⟩

-- ------------------------------------------------------------------ fee ceiling (api/util.go)

/-- checkTxFeeLimit(cfg, fee): `max.Cmp(fee) < 0` is an error -/
def checkTxFeeLimit (maxFee fee : Nat) : Except Err Unit := if maxFee < fee then .error .bigfee else .ok ()

-- ------------------------------------------------------------------ reservation cache

/-- usedCache: outpoint ↦ the drafts (transaction ids) that spend it.  Time is not modelled: entries
    live `Gen.TxBuild.reservationTTLSeconds`, a process restart empties the cache. -/
abbrev Reserved := List (String × List String)

/-- the drafts holding outpoint `i` (the cache is a map: at most one entry per outpoint) -/
def holdersOf (r : Reserved) (i : String) : List String := (r.filter (fun e => e.1 == i)).flatMap (·.2)

/-- MarkUsedUTXO(draft): the draft joins the holders of each of its inputs -/
def markUsed (r : Reserved) (holder : String) (ins : List String) : Reserved :=
  ins.foldl (fun r i => (r.filter (fun e => e.1 != i)) ++ [(i, holder :: (holdersOf r i).filter (· != holder))]) r

/-- UTXOUsed -/
def utxoUsed (r : Reserved) (i : String) : Bool := r.any (fun e => e.1 == i)

/-- ClearUsedUTXOMark(draft).  `perDraft` (regenerated fact `releaseChecksHolder`): the draft leaves
    the holders of its inputs and an entry disappears with its last holder; without it the entries of
    all inputs are deleted whoever holds them. -/
def clearUsed (perDraft : Bool) (r : Reserved) (holder : String) (ins : List String) : Reserved :=
  if perDraft then
    r.filterMap (fun e =>
      if ins.contains e.1 then
        let rest := e.2.filter (· != holder)
        if rest.isEmpty then none else some (e.1, rest)
      else some e)
  else r.filter (fun e => !ins.contains e.1)

-- ------------------------------------------------------------------ eligibility filter

/-- a wallet coin as ScriptAddressUnspents hands it to the filter of getUtxosExcludeBindingAndStaking -/
structure WCoin where
  id : String
  amt : Nat
  addr : String
  confs : Nat            -- uint32(syncHeight − height + 1)
  maturity : Nat
  spent : Bool
  spentByUnmined : Bool
  standard : Bool        -- Flags.Class is neither binding nor staking
  inPool : Bool          -- TxMemPool().CheckPoolOutPointSpend
  deriving Repr, Inhabited

/-- the filter closure of getUtxosExcludeBindingAndStaking, restricted to the requested script set -/
def eligibleFilter (r : Reserved) (addrs : List String) (c : WCoin) : Bool :=
  decide (c.confs ≥ c.maturity) && !c.spentByUnmined && !c.spent && c.standard &&
    !utxoUsed r c.id && !c.inPool && addrs.contains c.addr

def WCoin.toCoin (c : WCoin) : Coin := ⟨c.amt, c.id, c.addr⟩

/-- the coins submitted to the selector -/
def eligibleOf (r : Reserved) (addrs : List String) (cs : List WCoin) : List Coin :=
  (cs.filter (eligibleFilter r addrs)).map WCoin.toCoin

-- ------------------------------------------------------------------ consecutive create calls

/-- one automatic create call: what AutoCreateRawTransaction / CreateStaking… / CreateBinding… do with
    the wallet's coins: filter, select and build, reserve the inputs for the returned draft -/
structure CreateReq where
  view : List WCoin            -- the wallet's unspent coins at the time of the call
  addrs : List String          -- prepareFromAddresses
  outs : List Nat
  payloadLen : Nat := 0
  userFee : Nat := 0
  chgAddr : String := ""
  holder : String              -- identity (txid) of the draft that is returned
  deriving Inhabited

structure Session where
  reserved : Reserved := []
  drafts : List (String × List String) := []     -- (identity, inputs) of the drafts returned so far
  deriving Inhabited

def createCall (s : Session) (q : CreateReq) : Session × Except Err AutoRes :=
  match autoConstruct { coins := eligibleOf s.reserved q.addrs q.view } q.outs q.payloadLen q.userFee q.chgAddr with
  | .error e => (s, .error e)
  | .ok res =>
    let ids := res.ins.map (·.id)
    ({ reserved := markUsed s.reserved q.holder ids, drafts := s.drafts ++ [(q.holder, ids)] }, .ok res)

/-- a sequence of consecutive create calls within the reservation window -/
def runCreates (s : Session) (qs : List CreateReq) : Session := qs.foldl (fun s q => (createCall s q).1) s

-- ------------------------------------------------------------------ create calls and releases

/-- a draft handed out by a create call; `outstanding` until it is released (signing it failed) -/
structure Draft where
  holder : String
  ins : List String
  outstanding : Bool := true
  deriving Repr, Inhabited

structure RSession where
  reserved : Reserved := []
  drafts : List Draft := []
  deriving Inhabited

inductive ROp
  | create (q : CreateReq)
  | release (n : Nat)          -- ClearUsedUTXOMark of the n-th draft handed out (may be repeated: stale retries)

def RSession.step (s : RSession) : ROp → RSession
  | .create q =>
    match autoConstruct { coins := eligibleOf s.reserved q.addrs q.view } q.outs q.payloadLen q.userFee q.chgAddr with
    | .error _ => s
    | .ok res =>
      let ids := res.ins.map (·.id)
      { reserved := markUsed s.reserved q.holder ids, drafts := s.drafts ++ [{ holder := q.holder, ins := ids }] }
  | .release n =>
    match s.drafts[n]? with
    | none => s
    | some d => { reserved := clearUsed true s.reserved d.holder d.ins,
                  drafts := s.drafts.set n { d with outstanding := false } }

def RSession.run (s : RSession) (ops : List ROp) : RSession := ops.foldl RSession.step s

end MW.Model.Fee
