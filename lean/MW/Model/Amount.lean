/-
  MODEL of api.StringToAmount, api.AmountToString and masswallet.AmountToString,
  following the Go code statement by statement (api/util.go, masswallet/common.go).
  Go strings are byte strings; `int64`, `Uint128` range checks are explicit.
-/
import MW.Base.Dec
import MW.Gen.Amount
namespace MW.Model.Amount
open MW MW.Dec

inductive Err | format | precision | range | syntax
  deriving DecidableEq, Repr

def maxMass : Nat := MW.Gen.Amount.maxMass
def perMass : Nat := MW.Gen.Amount.maxwellPerMass
def maxAmount : Nat := maxMass * perMass
def int64Max : Nat := 2^63 - 1

/-- strconv.ParseInt(s, 10, 64) restricted to what can reach it after the digit check:
    optional sign, then digits; we keep the sign branch so that the *shape* of ParseInt is
    modelled, the result is an Int. -/
def parseInt64 (s : Bytes) : Except Err Int :=
  match s with
  | [] => .error .syntax
  | b :: rest =>
    let (neg, ds) := if b = 43 then (false, rest) else if b = 45 then (true, rest) else (false, s)
    if ds.isEmpty || !ds.all isDigit then .error .syntax
    else
      let v := ofDigits ds
      if neg then (if v ≤ int64Max + 1 then .ok (-(v : Int)) else .error .range)
      else (if v ≤ int64Max then .ok (v : Int) else .error .range)

/-- api.StringToAmount -/
def parse (s : Bytes) : Except Err Nat := do
  let s1 := splitDot s
  if s1.length > 2 then throw .format
  -- digits only on both sides, at least one digit
  if !(s1.all (fun p => p.all isDigit)) then throw .format
  if (s1.map List.length).sum = 0 then throw .format
  let sInt0 := trimLeft0 (s1.headD [])
  let sInt := if sInt0.length = 0 then [c0] else sInt0
  let sFrac0 := if s1.length = 2 then trimRight0 (s1.getD 1 []) else []
  if sFrac0.length > 8 then throw .precision
  let sFrac := sFrac0 ++ zeros (8 - sFrac0.length)
  let i ← parseInt64 sInt
  if i < 0 || i.toNat > maxMass then throw .range
  let f ← parseInt64 sFrac
  if f < 0 then throw .format
  let u := perMass * i.toNat + f.toNat          -- Uint128 Mul/Add: cannot overflow here
  if u > maxAmount then throw .range           -- massutil.NewAmount → checkedAmount
  pure u

/-- AmountToString (both copies are textually identical; tie B checks that) on m ≥ 0.
    Negative m is rejected by NewUint128FromInt; the harness covers it, the model takes Int. -/
def format (m : Int) : Except Err Bytes :=
  if m > (maxAmount : Int) then .error .range
  else if m < 0 then .error .range
  else
    let u := m.toNat + perMass
    let s := render u
    let sInt := s.take (s.length - 8)
    let sFrac := trimRight0 (s.drop (s.length - 8))
    -- strconv.Atoi(sInt): digits only here
    let i := ofDigits sInt
    let sInt' := render (i - 1)
    if sFrac.length > 0 then .ok (sInt' ++ [dot] ++ sFrac) else .ok sInt'

end MW.Model.Amount
