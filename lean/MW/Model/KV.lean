/-
  MODEL of the wallet database driver masswallet/db/ldb/leveldb.go (+ db.BytesPrefix, db.View,
  db.Update of masswallet/db/db.go), following the Go code function by function.

  Trusted picture of goleveldb: a sorted map `Store` (strictly ascending list of key/value pairs);
  `Get` = `SMap.get`, `NewIterator(util.Range{Start,Limit})` = `SMap.range` walked in order
  (both on the transaction's reader `tx.r`: live database or snapshot, a `Store` either way), `ldb.Write(batch)` = replaying the batch's op log in order (`applyLog`), all or nothing.
  Go maps with string keys (`batch.puts`, `batch.deletes`) are `SMap`s too; wherever the code
  ranges over a Go map the iteration order is unspecified in Go – the model walks in ascending key
  order and the harness sorts such results.

  API for the models built on top (wallet ledger, keystore):
    KV.Store, KV.Tx, Tx.topLevelBucket / Bucket.bucket, Bucket.get / put / delete / clear /
    getByPrefix (= scanPrefix) / bucketNames / newIterator, Tx.commit.
-/
import MW.Base.KvBytes
import MW.Base.KvOps
import MW.Base.Dec
import MW.Gen.Kv
namespace MW.Model.KV
open MW MW.KV

/-! ### constants (regenerated from leveldb.go: bucketPathSep, bucketNameBucket, topLevelBucketDepth, maxBucketNameLen) -/

def sep : UInt8 := UInt8.ofNat (Gen.Kv.bucketPathSep.headD 0)
def tag : Bytes := Gen.Kv.bucketNameBucket.map UInt8.ofNat
def topDepth : Bytes := Gen.Kv.topLevelBucketDepth.map UInt8.ofNat
def maxNameLen : Nat := Gen.Kv.maxBucketNameLen

/-- joinBucketPath -/
def join (arr : List Bytes) : Bytes := joinSep sep arr
/-- strings.Split(s, bucketPathSep) -/
def split (s : Bytes) : List Bytes := splitSep sep s
/-- strconv.Itoa on a non-negative int -/
def itoa (n : Nat) : Bytes := Dec.render n

/-- isValidBucketName -/
def isValidBucketName (name : Bytes) : Bool :=
  decide (name.length > 0) && decide (name.length ≤ maxNameLen) && !name.contains sep

/-! ### db.BytesPrefix / util.BytesPrefix -/

/-- scan from the last byte towards the first for a byte < 0xff; input and output reversed -/
def incLast : Bytes → Option Bytes
  | [] => none
  | c :: rest => if c < 0xff then some ((c + 1) :: rest) else incLast rest

/-- the `Limit` of `BytesPrefix(prefix)`: prefix cut after its last byte < 0xff, that byte + 1;
    nil (unbounded) when there is no such byte.  `Start` is the prefix itself. -/
def bytesPrefixLimit (pfx : Bytes) : Option Bytes := (incLast pfx.reverse).map List.reverse

/-! ### the committed store (goleveldb) -/

abbrev Store := SMap Bytes

inductive BOp
  | put (k v : Bytes)
  | del (k : Bytes)
  deriving Repr

def applyOp (s : Store) : BOp → Store
  | .put k v => s.insert k v
  | .del k => s.erase k

/-- ldb.Write(batch): the records of a leveldb.Batch are applied in order -/
def applyLog (s : Store) (log : List BOp) : Store := log.foldl applyOp s

/-- ldb.NewIterator(util.BytesPrefix(prefix)) -/
def Store.scan (s : Store) (pfx : Bytes) : Store := s.range pfx (bytesPrefixLimit pfx)

/-! ### type batch -/

structure Batch where
  seqNo : Nat := 0                       -- uint32 in Go; a transaction with 2^32 operations is out of scope
  log : List BOp := []                   -- b.b, the leveldb.Batch that Commit writes
  puts : SMap (Bytes × Nat) := []        -- map[string]*batchPutValue{data, seq}
  deletes : SMap Nat := []               -- map[string]uint32

/-- batch.Put -/
def Batch.put (b : Batch) (k v : Bytes) : Batch :=
  { seqNo := b.seqNo + 1, log := b.log ++ [.put k v], puts := b.puts.insert k (v, b.seqNo + 1), deletes := b.deletes }

/-- batch.Delete -/
def Batch.delete (b : Batch) (k : Bytes) : Batch :=
  { seqNo := b.seqNo + 1, log := b.log ++ [.del k], puts := b.puts, deletes := b.deletes.insert k (b.seqNo + 1) }

/-- batch.Get: (v, deleted); `none` stands for Go's nil -/
def Batch.get (b : Batch) (k : Bytes) : Option Bytes × Bool :=
  match b.deletes.get k, b.puts.get k with
  | some _, none => (none, true)
  | some sd, some (v, sp) => if sd > sp then (none, true) else (some v, false)
  | none, some (v, _) => (some v, false)
  | none, none => (none, false)

/-- batch.GetNetPutsByPrefix (a Go map; here ascending) -/
def Batch.netPuts (b : Batch) (pfx : Bytes) : List (Bytes × Bytes) :=
  b.puts.filterMap fun e =>
    if pfx.length != 0 && !pfx.isPrefixOf e.1 then none
    else match b.deletes.get e.1 with
      | none => some (e.1, e.2.1)
      | some sd => if e.2.2 > sd then some (e.1, e.2.1) else none

/-! ### type transaction, type levelBucket -/

structure Tx where
  readOnly : Bool
  db : Store                -- tx.r, the `reader` every read goes through: the live store (l.ldb) for a write
                            -- transaction, the snapshot taken by BeginReadTx for a read-only one
  b : Batch := {}

structure Bucket where
  name : Bytes
  path : Bytes
  depth : Nat
  deriving Repr, DecidableEq

def Bucket.pathLen (b : Bucket) : Nat := b.path.length

/-- the bucket-name index key  joinBucketPath(bucketNameBucket, path) -/
def indexKey (path : Bytes) : Bytes := join [tag, path]

/-- transaction.bucketExists — the lookup shared by TopLevelBucket / Bucket / FetchBucket and
    the existence test of CreateTopLevelBucket / NewBucket:
      _, err := tx.r.Get(key); exists := err == nil
      if !readOnly { v, deleted := b.Get(key); if deleted { exists = false } else if v != nil { exists = true } } -/
def Tx.bucketExists (tx : Tx) (key : Bytes) : Bool :=
  let found := (tx.db.get key).isSome
  if tx.readOnly then found
  else match tx.b.get key with
    | (_, true) => false
    | (some _, false) => true
    | (none, false) => found

/-- transaction.TopLevelBucket -/
def Tx.topLevelBucket (tx : Tx) (name : Bytes) : Option Bucket :=
  let bucketPath := join [topDepth, name]
  if tx.bucketExists (indexKey bucketPath) then some { name := name, path := bucketPath, depth := 1 } else none

/-- transaction.FetchBucket for a BucketMeta not yet in the transaction's cache (the cache is keyed
    by the meta object; the harness passes a fresh one each time): only the index entry of the
    meta's own path is looked up, `Paths()` are joined as they come -/
def Tx.fetchBucket (tx : Tx) (paths : List Bytes) (name : Bytes) (depth : Nat) : Option Bucket :=
  let path := join paths
  if tx.bucketExists (indexKey path) then some { name := name, path := path, depth := depth } else none

/-- transaction.CreateTopLevelBucket -/
def Tx.createTopLevelBucket (tx : Tx) (name : Bytes) : Except Err (Tx × Bucket) :=
  if tx.readOnly then .error .writeNotAllowed
  else if !isValidBucketName name then .error .invalidName
  else
    let bucketPath := join [topDepth, name]
    let key := indexKey bucketPath
    if tx.bucketExists key then .error .exist
    else .ok ({ tx with b := tx.b.put key name }, { name := name, path := bucketPath, depth := 1 })

/-- transaction.DeleteTopLevelBucket -/
def Tx.deleteTopLevelBucket (_tx : Tx) (_name : Bytes) : Except Err Tx := .error .notSupported

/-- levelBucket.subBucket -/
def Bucket.subBucket (b : Bucket) (name : Bytes) : Except Err Bucket :=
  if !isValidBucketName name then .error .invalidName
  else
    let ss := split b.path
    if ss.length < 2 then .error .illegalPath
    else
      let ss' := itoa (b.depth + 1) :: ss.tail ++ [name]
      .ok { name := name, path := join ss', depth := b.depth + 1 }

/-- levelBucket.Bucket -/
def Bucket.bucket (tx : Tx) (b : Bucket) (name : Bytes) : Option Bucket :=
  match b.subBucket name with
  | .error _ => none
  | .ok sub => if tx.bucketExists (indexKey sub.path) then some sub else none

/-- levelBucket.NewBucket -/
def Bucket.newBucket (tx : Tx) (b : Bucket) (name : Bytes) : Except Err (Tx × Bucket) :=
  if tx.readOnly then .error .writeNotAllowed
  else match b.subBucket name with
    | .error e => .error e
    | .ok sub =>
      let key := indexKey sub.path
      if tx.bucketExists key then .error .exist
      else .ok ({ tx with b := tx.b.put key name }, sub)

/-- the read-your-writes filter applied to each committed entry met by BucketNames / GetByPrefix:
    `none` = skipped (deleted in the batch), otherwise the value to report -/
def Tx.overlay (tx : Tx) (key value : Bytes) : Option Bytes :=
  if tx.readOnly then some value
  else match tx.b.get key with
    | (_, true) => none
    | (some v, false) => some v
    | (none, false) => some value

def Tx.overlayEntries (tx : Tx) (es : List (Bytes × Bytes)) : List (Bytes × Bytes) :=
  es.filterMap fun e => (tx.overlay e.1 e.2).map fun v => (e.1, v)

/-- `len(ss) != depth+3 || ss[depth+2] != value` negated -/
def nameEntryLegal (depth : Nat) (key value : Bytes) : Bool :=
  let ss := split key
  ss.length == depth + 3 && ss.getD (depth + 2) [] == value

/-- first loop of BucketNames (committed entries, already overlaid) -/
def namesLoop1 (depth : Nat) : List (Bytes × Bytes) → List Bytes → Except Err (List Bytes)
  | [], names => .ok names
  | (key, value) :: rest, names =>
    if nameEntryLegal depth key value then namesLoop1 depth rest (names ++ [value]) else .error .illegalValue

/-- second loop of BucketNames (net puts of the batch; `names` doubles as the Go `set`) -/
def namesLoop2 (depth : Nat) : List (Bytes × Bytes) → List Bytes → Except Err (List Bytes)
  | [], names => .ok names
  | (key, value) :: rest, names =>
    if nameEntryLegal depth key value then
      (if names.contains value then namesLoop2 depth rest names else namesLoop2 depth rest (names ++ [value]))
    else .error .illegalValue

/-- body shared by transaction.BucketNames (depth 0) and levelBucket.BucketNames -/
def Tx.bucketNamesAt (tx : Tx) (pfx : Bytes) (depth : Nat) : Except Err (List Bytes) :=
  match namesLoop1 depth (tx.overlayEntries (tx.db.scan pfx)) [] with
  | .error e => .error e
  | .ok names => if tx.readOnly then .ok names else namesLoop2 depth (tx.b.netPuts pfx) names

/-- transaction.BucketNames -/
def Tx.bucketNames (tx : Tx) : Except Err (List Bytes) :=
  tx.bucketNamesAt (join [tag, topDepth, []]) 0

/-- levelBucket.BucketNames -/
def Bucket.bucketNames (tx : Tx) (b : Bucket) : Except Err (List Bytes) :=
  let ss := split b.path
  if ss.length < 2 then .error .illegalPath
  else
    let ss' := itoa (b.depth + 1) :: ss.tail ++ [[]]
    tx.bucketNamesAt (join [tag, join ss']) b.depth

/-- levelBucket.innerKey -/
def Bucket.innerKey (b : Bucket) (key : Bytes) (asPrefix : Bool) : Except Err Bytes :=
  if !asPrefix && key.length == 0 then .error .illegalKey
  else .ok (b.path ++ sep :: key)

/-- levelBucket.innerKeyForIterator -/
def Bucket.innerKeyForIterator (b : Bucket) (key : Bytes) : Bytes := b.path ++ sep :: key

/-- levelBucket.Put -/
def Bucket.put (tx : Tx) (b : Bucket) (key value : Bytes) : Except Err Tx :=
  if tx.readOnly then .error .writeNotAllowed
  else if value.length == 0 then .error .illegalValue
  else match b.innerKey key false with
    | .error e => .error e
    | .ok k => .ok { tx with b := tx.b.put k value }

/-- levelBucket.Get (`none` = nil; the Go function never returns an error from these paths) -/
def Bucket.get (tx : Tx) (b : Bucket) (key : Bytes) : Option Bytes :=
  match b.innerKey key false with
  | .error _ => none
  | .ok k =>
    match tx.db.get k with
    | none => if tx.readOnly then none else (tx.b.get k).1
    | some value =>
      if tx.readOnly then some value
      else match tx.b.get k with
        | (_, true) => none
        | (some v, false) => some v
        | (none, false) => some value

/-- levelBucket.Delete -/
def Bucket.delete (tx : Tx) (b : Bucket) (key : Bytes) : Except Err Tx :=
  if tx.readOnly then .error .writeNotAllowed
  else match b.innerKey key false with
    | .error _ => .ok tx
    | .ok k => .ok { tx with b := tx.b.delete k }

/-- the two loops shared by Clear and deleteBucket: delete every committed key under the prefix
    that the batch has not already deleted, then every net put under the prefix -/
def clearRange (db : Store) (bt : Batch) (pfx : Bytes) : Batch :=
  let bt1 := (db.scan pfx).foldl (fun bt e => if (bt.get e.1).2 then bt else bt.delete e.1) bt
  (bt1.netPuts pfx).foldl (fun bt e => bt.delete e.1) bt1

/-- levelBucket.Clear -/
def Bucket.clear (tx : Tx) (b : Bucket) : Except Err Tx :=
  if tx.readOnly then .error .writeNotAllowed
  else .ok { tx with b := clearRange tx.db tx.b (join [b.path, []]) }

/-- levelBucket.GetByPrefix: entries (key without the bucket prefix, value) -/
def Bucket.getByPrefix (tx : Tx) (b : Bucket) (pfx : Bytes) : List (Bytes × Bytes) :=
  let innerPrefix := b.path ++ sep :: pfx                     -- innerKey(prefix, true) cannot fail
  let part1 := tx.overlayEntries (tx.db.scan innerPrefix)
  let seen := part1.map (·.1)
  let part2 := if tx.readOnly then [] else (tx.b.netPuts innerPrefix).filter fun e => !seen.contains e.1
  (part1 ++ part2).map fun e => (e.1.drop (b.pathLen + 1), e.2)

/-- the loop `for _, subname := range subnames { sub := b.Bucket(subname); if sub == nil { continue };
    err = deleteBucket(sub); if err != nil { return err } }` with the recursive call as a parameter -/
def deleteSubs (db : Store) (recur : Bucket → Batch → Except Err Batch) (b : Bucket) :
    List Bytes → Batch → Except Err Batch
  | [], bt => .ok bt
  | subname :: rest, bt =>
    match b.bucket { readOnly := false, db := db, b := bt } subname with
    | none => deleteSubs db recur b rest bt
    | some sub =>
      match recur sub bt with
      | .error e => .error e
      | .ok bt' => deleteSubs db recur b rest bt'

/-- deleteBucket (recursive over sub buckets; `fuel` bounds the nesting depth) -/
def deleteBucketAux (db : Store) : Nat → Bucket → Batch → Except Err Batch
  | 0, _, _ => .error .fuel
  | fuel + 1, b, bt =>
    if b.depth == 1 then .error .notSupported
    else match b.bucketNames { readOnly := false, db := db, b := bt } with
      | .error e => .error e
      | .ok subnames =>
        match deleteSubs db (deleteBucketAux db fuel) b subnames bt with
        | .error e => .error e
        | .ok bt1 =>
          let bt2 := clearRange db bt1 (join [b.path, []])
          .ok (bt2.delete (indexKey b.path))

/-- nesting budget: a child's index key is strictly longer than its parent's and every bucket
    met is an entry of the store or of the batch -/
def deleteFuel (db : Store) (bt : Batch) : Nat :=
  (db.foldl (fun m e => max m e.1.length) 0) + (bt.puts.foldl (fun m e => max m e.1.length) 0) + 2

/-- levelBucket.DeleteBucket -/
def Bucket.deleteBucket (tx : Tx) (b : Bucket) (name : Bytes) : Except Err Tx :=
  if tx.readOnly then .error .writeNotAllowed
  else match b.bucket tx name with
    | none => .ok tx
    | some sub =>
      match deleteBucketAux tx.db (deleteFuel tx.db tx.b) sub tx.b with
      | .error e => .error e
      | .ok bt => .ok { tx with b := bt }

/-- transaction.Commit (writers): the store after `ldb.Write(tx.b.b)`; Commit of a read-only
    transaction is Rollback (it releases the snapshot and writes nothing) -/
def Tx.commit (tx : Tx) : Store := if tx.readOnly then tx.db else applyLog tx.db tx.b.log

/-- transaction.Rollback, and db.Update when the closure returns an error: the store is untouched -/
def Tx.rollback (tx : Tx) : Store := tx.db

/-! ### iterators -/

/-- type batchIterator -/
structure BatchIter where
  ptr : Int
  keys : List (Bytes × Bytes)      -- `keys` (sorted) zipped with `m`
  start : Bytes
  limit : Option Bytes             -- nil limit: bytes.Compare(key, nil) < 0 never holds

def BatchIter.inRange (bi : BatchIter) (k : Bytes) : Bool :=
  ble bi.start k && (match bi.limit with | none => false | some l => blt k l)

/-- first index i ≥ from with keys[i] in range -/
def BatchIter.findFrom (bi : BatchIter) (start : Nat) : Option Nat :=
  ((bi.keys.zipIdx).drop start).findSome? fun e => if bi.inRange e.1.1 then some e.2 else none

/-- newBatchIterator -/
def newBatchIterator (b : Batch) (start : Bytes) (limit : Option Bytes) : BatchIter :=
  { ptr := -1, keys := b.netPuts [], start := start, limit := limit }

def BatchIter.seek (bi : BatchIter) (k : Bytes) : BatchIter × Bool :=
  let bi := { bi with start := k }
  match bi.findFrom 0 with
  | some i => ({ bi with ptr := i }, true)
  | none => ({ bi with ptr := bi.keys.length }, false)

def BatchIter.next (bi : BatchIter) : BatchIter × Bool :=
  match bi.findFrom (bi.ptr + 1).toNat with
  | some i => ({ bi with ptr := i }, true)
  | none => ({ bi with ptr := bi.keys.length }, false)

def BatchIter.isEnd (bi : BatchIter) : Bool := bi.ptr ≥ bi.keys.length

def BatchIter.cur (bi : BatchIter) : Option (Bytes × Bytes) :=
  if bi.ptr < 0 then none else bi.keys[bi.ptr.toNat]?

def BatchIter.reset (bi : BatchIter) (start : Bytes) : BatchIter := { bi with ptr := -1, start := start }

/-- type levelIterator.  The goleveldb iterator over the committed range is `rng` (fixed at
    creation: goleveldb iterators read a snapshot), `cur` its current entry, `todo` the entries
    after it; "before the first" is `cur = none, todo = rng`, "exhausted" is `cur = none, todo = []`. -/
structure LevelIter where
  readOnly : Bool
  pathLen : Nat
  rng : List (Bytes × Bytes)
  todo : List (Bytes × Bytes)
  cur : Option (Bytes × Bytes) := none
  iterEnd : Bool := false
  batchIter : Option BatchIter := none

/-- the guard of NewIterator: `if slice.Limit != nil && bytes.Compare(slice.Limit, slice.Start) < 0
    { slice.Limit = slice.Start }` – an inverted range is made an empty one -/
def clampLimit (s : Bytes) : Option Bytes → Option Bytes
  | none => none
  | some l => if blt l s then some s else some l

/-- the (start, limit) pair NewIterator hands to goleveldb and to the batch iterator -/
def Bucket.iterBounds (b : Bucket) (start limit : Bytes) : Bytes × Option Bytes :=
  let s := b.innerKeyForIterator start
  let l := if limit.length == 0 then bytesPrefixLimit (b.innerKeyForIterator limit) else some (b.innerKeyForIterator limit)
  (s, clampLimit s l)

/-- levelBucket.NewIterator(&Range{start, limit}); a nil Range is Range{} -/
def Bucket.newIterator (tx : Tx) (b : Bucket) (start limit : Bytes) : LevelIter :=
  let s := (b.iterBounds start limit).1
  let l := (b.iterBounds start limit).2
  let rng := tx.db.range s l
  { readOnly := tx.readOnly, pathLen := b.pathLen, rng := rng, todo := rng,
    batchIter := if tx.readOnly then none else some (newBatchIterator tx.b s l) }

/-- goleveldb Iterator.Next on the committed range -/
def LevelIter.ldbNext (it : LevelIter) : LevelIter × Bool :=
  match it.todo with
  | [] => ({ it with cur := none }, false)
  | e :: rest => ({ it with cur := some e, todo := rest }, true)

/-- goleveldb Iterator.Seek on the committed range (keys below the range start land on its first entry) -/
def LevelIter.ldbSeek (it : LevelIter) (k : Bytes) : LevelIter × Bool :=
  { it with todo := it.rng.dropWhile fun e => blt e.1 k }.ldbNext

def LevelIter.batchEnd (it : LevelIter) : Bool :=
  match it.batchIter with | none => true | some bi => bi.isEnd

def LevelIter.batchNext (it : LevelIter) : LevelIter × Bool :=
  match it.batchIter with
  | none => (it, false)
  | some bi => let (bi', ok) := bi.next; ({ it with batchIter := some bi' }, ok)

/-- levelIterator.Seek -/
def LevelIter.seek (it : LevelIter) (b : Bucket) (key : Bytes) : LevelIter × Bool :=
  let ikey := b.innerKeyForIterator key
  let (it1, sk) := it.ldbSeek ikey
  if sk then
    ({ it1 with iterEnd := false, batchIter := if it1.readOnly then it1.batchIter else it1.batchIter.map (·.reset ikey) }, true)
  else
    let it2 := { it1 with iterEnd := true }
    if it2.readOnly then (it2, false)
    else match it2.batchIter with
      | none => (it2, false)
      | some bi => let (bi', ok) := bi.seek ikey; ({ it2 with batchIter := some bi' }, ok)

/-- levelIterator.Next -/
def LevelIter.next (it : LevelIter) : LevelIter × Bool :=
  if it.iterEnd then
    if it.readOnly || it.batchEnd then (it, false) else it.batchNext
  else
    let (it1, hasNext) := it.ldbNext
    if !hasNext then
      let it2 := { it1 with iterEnd := true }
      if it2.readOnly || it2.batchEnd then (it2, false) else it2.batchNext
    else (it1, true)

def LevelIter.data (it : LevelIter) : Option (Bytes × Bytes) :=
  if !it.iterEnd then it.cur
  else if !it.readOnly && !it.batchEnd then (it.batchIter.bind (·.cur)) else none

/-- levelIterator.Key (`none` = nil) -/
def LevelIter.key (it : LevelIter) : Option Bytes :=
  match it.data with
  | some (k, _) => if k.length > 0 then some (k.drop (it.pathLen + 1)) else none
  | none => none

/-- levelIterator.Value -/
def LevelIter.value (it : LevelIter) : Option Bytes := it.data.map (·.2)

end MW.Model.KV
