/-
  `Child` as it was BEFORE the D4 repair (`childKey = ilNum.Bytes()`): kept only so that
  MW.Props.C14 can state and prove that this version is NOT BIP-32 (counter-model) – it is not
  part of the model of the current code and the driver does not use it.
-/
import MW.Model.Bip32
namespace MW.Model.Bip32.Legacy
open MW

def storeKey (sum : Nat) : Bytes := BE.toBytes sum      -- childKey = ilNum.Bytes()

def child (C : CurveOps) (H : HashOps) (k : XKey) (i : Nat) : Except Bip32Err XKey :=
  childCore C H storeKey k i

end MW.Model.Bip32.Legacy
