/-
  Byte-level model of the keystore's persisted formats (what the symbolic keystore models of C04 / C05 / C12
  abstract):

  * the record layouts of /repo/masswallet/keystore/db.go (every put* / fetch* pair, account rows, the
    BIP0044 account record, public-key index keys, child counters),
  * snacl.SecretKey.Marshal / Unmarshal (salt, digest, N, r, p),
  * the exported keystore JSON (addrmgr.go `export`, `Keystore.Bytes`, the decoding steps of
    `ImportKeystore` / `allocAddrMgrNamespace`).

  The codecs are INTERPRETERS of the item tables regenerated from the Go source (MW.Gen.KsCodec): the
  field order, widths and length guards are not written here.   Core Lean only (links into mwdrv).

  Conventions.  A Go `[]byte` is a `Bytes`; `nil` versus empty matters for the put* functions and is an
  `Option Bytes`.  A bucket is a sorted association list (goleveldb order = `bytes.Compare`), with the two
  refusals of ldb `Put` (empty value, empty key).  Go run-time panics (index / slice bounds out of range)
  are the explicit error `.panic`.  Slices are modelled with cap = len (the harness passes exact-capacity
  copies), and inputs are shorter than 4 GiB (so the uint32 offset arithmetic of the decoders cannot wrap
  before a bounds check fails).
-/
import MW.Base.Bytes
import MW.Base.KvBytes
import MW.Gen.KsCodec
import MW.Gen.Keystore
namespace MW.Model.KsCodec
open MW MW.Gen.KsCodec

/-! ## little-endian integers (encoding/binary.LittleEndian) -/

/-- `binary.LittleEndian.PutUintNN` into w bytes: the value is truncated to w bytes like the Go conversion -/
def leBytes : Nat → Nat → Bytes
  | 0, _ => []
  | w + 1, n => UInt8.ofNat (n % 256) :: leBytes w (n / 256)

/-- `binary.LittleEndian.UintNN` of exactly these bytes -/
def ofLE : Bytes → Nat
  | [] => 0
  | b :: bs => b.toNat + 256 * ofLE bs

/-! ## generic record codec over the generated item tables -/

inductive Val where
  | n (v : Nat)
  | b (bs : Bytes)
  deriving DecidableEq, Repr, Inhabited

inductive Err where
  | malformed     -- the decoder's own length guard (an error value in Go)
  | panic         -- Go run-time panic: index / slice bounds out of range
  | shape         -- the value list does not fit the item table (cannot happen for the tables in use: `*_shape` lemmas)
  | db            -- an error returned by a bucket operation or a "required … not stored" error
  | unsupported   -- fetchAccountInfo: unknown account type
  deriving DecidableEq, Repr, Inhabited

def Err.tok : Err → String
  | .malformed => "err-malformed"
  | .panic => "panic"
  | .shape => "err-shape"
  | .db => "err"
  | .unsupported => "err-unsupported"

/-- the width predicate: values that the record format can represent -/
def itemFits : Item → Val → Bool
  | .u8 _, .n v => v < 256
  | .le _ w, .n v => v < 256 ^ w
  | .raw _ w, .b bs => bs.length = w
  | .lp _ w, .b bs => bs.length < 256 ^ w
  | _, _ => false

def fitsAll : List Item → List Val → Bool
  | [], [] => true
  | i :: is, v :: vs => itemFits i v && fitsAll is vs
  | _, _ => false

/-- what the Go encoders write, INCLUDING their silent truncations (`byte(x)`, `uint32(len)`); a fixed-width
    byte field of another length and a value of the wrong sort do not fit the table (`none`) -/
def encodeItem : Item → Val → Option Bytes
  | .u8 _, .n v => some [UInt8.ofNat (v % 256)]
  | .le _ w, .n v => some (leBytes w v)
  | .raw _ w, .b bs => if bs.length = w then some bs else none
  | .lp _ w, .b bs => some (leBytes w bs.length ++ bs)
  | _, _ => none

def encodeItems : List Item → List Val → Option Bytes
  | [], [] => some []
  | i :: is, v :: vs =>
    match encodeItem i v, encodeItems is vs with
    | some a, some r => some (a ++ r)
    | _, _ => none
  | _, _ => none

/-- reading the items front to back; a read past the end of the slice is a Go panic -/
def decodeItems : List Item → Bytes → Except Err (List Val × Bytes)
  | [], bs => .ok ([], bs)
  | .u8 _ :: is, bs =>
    match bs with
    | [] => .error .panic
    | x :: r => (decodeItems is r).map (fun p => (.n x.toNat :: p.1, p.2))
  | .le _ w :: is, bs =>
    if bs.length < w then .error .panic
    else (decodeItems is (bs.drop w)).map (fun p => (.n (ofLE (bs.take w)) :: p.1, p.2))
  | .raw _ w :: is, bs =>
    if bs.length < w then .error .panic
    else (decodeItems is (bs.drop w)).map (fun p => (.b (bs.take w) :: p.1, p.2))
  | .lp _ w :: is, bs =>
    if bs.length < w then .error .panic
    else
      let n := ofLE (bs.take w)
      let r := bs.drop w
      if r.length < n then .error .panic
      else (decodeItems is (r.drop n)).map (fun p => (.b (r.take n) :: p.1, p.2))

/-- a decoder = its up-front length guard, then the items; bytes behind the last item are ignored -/
def decode (c : Codec) (bs : Bytes) : Except Err (List Val) :=
  if (if c.exact then bs.length ≠ c.minLen else bs.length < c.minLen) then .error .malformed
  else (decodeItems c.items bs).map (·.1)

/-- number of bytes the items occupy when every length-prefixed field is empty -/
def minBytes : List Item → Nat
  | [] => 0
  | .u8 _ :: is => 1 + minBytes is
  | .le _ w :: is => w + minBytes is
  | .raw _ w :: is => w + minBytes is
  | .lp _ w :: is => w + minBytes is

def hasLp : List Item → Bool
  | [] => false
  | .lp _ _ :: _ => true
  | _ :: is => hasLp is

/-! ## snacl parameters -/

structure Params where
  salt : Bytes
  digest : Bytes
  N : Int
  R : Int
  P : Int
  deriving DecidableEq, Repr, Inhabited

/-- Go `uint64(x)` of an `int` -/
def u64 (i : Int) : Nat := (i % 18446744073709551616).toNat
/-- Go `int(x)` of a `uint64` (two's complement) -/
def i64 (u : Nat) : Int := if u < 9223372036854775808 then (u : Int) else (u : Int) - 18446744073709551616

/-- the values a Go `Parameters` struct can hold: two 32-byte arrays, three 64-bit ints -/
def Params.wf (p : Params) : Bool :=
  p.salt.length = snaclKeySize && p.digest.length = 32 &&
  decide (-9223372036854775808 ≤ p.N) && decide (p.N < 9223372036854775808) &&
  decide (-9223372036854775808 ≤ p.R) && decide (p.R < 9223372036854775808) &&
  decide (-9223372036854775808 ≤ p.P) && decide (p.P < 9223372036854775808)

def Params.vals (p : Params) : List Val := [.b p.salt, .b p.digest, .n (u64 p.N), .n (u64 p.R), .n (u64 p.P)]

/-- SecretKey.Marshal -/
def marshal (p : Params) : Option Bytes := encodeItems snaclMarshal.items p.vals

/-- SecretKey.Unmarshal -/
def unmarshal (bs : Bytes) : Except Err Params :=
  match decode snaclUnmarshal bs with
  | .error e => .error e
  | .ok [.b s, .b d, .n n, .n r, .n p] => .ok ⟨s, d, i64 n, i64 r, i64 p⟩
  | .ok _ => .error .shape

/-! ## db.go: values -/

/-- uint32ToBytes (the argument is a Go uint32; a larger Nat is truncated like the conversion) -/
def u32Bytes (n : Nat) : Bytes := (encodeItems uint32ToBytes.items [.n n]).getD []

/-- `binary.LittleEndian.Uint32(val)` on a stored value: no length guard (panics below 4 bytes, ignores the rest) -/
def u32Of (val : Bytes) : Except Err Nat :=
  match decode uint32ToBytes val with
  | .ok [.n v] => .ok v
  | .ok _ => .error .shape
  | .error e => .error e

/-- serializeAccountRow -/
def serializeAccountRow (acctType : Nat) (raw : Bytes) : Bytes :=
  (encodeItems MW.Gen.KsCodec.serializeAccountRow.items [.n acctType, .b raw]).getD []

/-- deserializeAccountRow -/
def deserializeAccountRow (bs : Bytes) : Except Err (Nat × Bytes) :=
  match decode MW.Gen.KsCodec.deserializeAccountRow bs with
  | .ok [.n t, .b raw] => .ok (t, raw)
  | .ok _ => .error .shape
  | .error e => .error e

/-- serializeHDAccountKey.  Go computes the lengths and the buffer size in uint32: the function is followed
    here only inside that range (`none` beyond it, where the code truncates and then panics or garbles) -/
def serializeHDAccountKey (pub priv : Bytes) : Option Bytes :=
  if 8 + pub.length + priv.length < 4294967296 then
    encodeItems MW.Gen.KsCodec.serializeHDAccountKey.items [.b pub, .b priv]
  else none

/-- deserializeHDAccountKey -/
def deserializeHDAccountKey (raw : Bytes) : Except Err (Bytes × Bytes) :=
  match decode MW.Gen.KsCodec.deserializeHDAccountKey raw with
  | .ok [.b pub, .b priv] => .ok (pub, priv)
  | .ok _ => .error .shape
  | .error e => .error e

/-- the 8-byte key of putEncryptedPubKey -/
def pubKeyKey (branch index : Nat) : Bytes :=
  (encodeItems MW.Gen.KsCodec.putEncryptedPubKey.items [.n branch, .n index]).getD []

/-- the key reading of fetchEncryptedPubKey -/
def pubKeyPath (key : Bytes) : Except Err (Nat × Nat) :=
  match decode MW.Gen.KsCodec.fetchEncryptedPubKey key with
  | .ok [.n b, .n i] => .ok (b, i)
  | .ok _ => .error .shape
  | .error e => .error e

/-! ## db.go: the bucket and the put* / fetch* pairs -/

abbrev Bucket := KV.SMap Bytes

/-- the bytes of an ASCII string (key names, JSON member names and constants are ASCII: `ascii_tables` in the lemmas);
    unlike `String.toUTF8` this reduces in the kernel -/
def asc (s : String) : Bytes := s.toList.map (fun c => UInt8.ofNat c.toNat)

def key (s : String) : Bytes := asc s

/-- ldb `Bucket.Put`: refuses an empty value, then an empty key -/
def bput (b : Bucket) (k v : Bytes) : Except Err Bucket :=
  if v.isEmpty then .error .db else if k.isEmpty then .error .db else .ok (KV.SMap.insert b k v)

/-- ldb `Bucket.Get`: nil when absent (and for the empty key) -/
def bget (b : Bucket) (k : Bytes) : Option Bytes := if k.isEmpty then none else KV.SMap.get b k

/-- ldb `Bucket.Delete` (never fails; the empty key is ignored) -/
def bdel (b : Bucket) (k : Bytes) : Bucket := if k.isEmpty then b else KV.SMap.erase b k

/-- `if x != nil { b.Put(name, x) }` -/
def putOpt (b : Bucket) (name : String) : Option Bytes → Except Err Bucket
  | none => .ok b
  | some v => bput b (key name) v

def putMasterKeyParams (b : Bucket) (pub priv : Option Bytes) : Except Err Bucket := do
  let b ← putOpt b masterPrivKeyName priv
  putOpt b masterPubKeyName pub

def fetchMasterKeyParams (b : Bucket) : Except Err (Bytes × Option Bytes) :=
  match bget b (key masterPubKeyName) with
  | none => .error .db
  | some pub => .ok (pub, bget b (key masterPrivKeyName))

def putVersion (b : Bucket) (v : Nat) : Except Err Bucket :=
  bput b (key keystoreVersionName) ((encodeItems MW.Gen.KsCodec.putVersion.items [.n v]).getD [])

/-- fetchVersion: an absent (or empty) value reads as version 0, without an error -/
def fetchVersion (b : Bucket) : Nat :=
  match bget b (key keystoreVersionName) with
  | some (x :: _) => x.toNat
  | _ => 0

def putEntropy (b : Bucket) (e : Bytes) : Except Err Bucket := bput b (key entropyEncKeyName) e
def fetchEntropy (b : Bucket) : Option Bytes := bget b (key entropyEncKeyName)

def putCryptoKeys (b : Bucket) (pub priv ent : Option Bytes) : Except Err Bucket := do
  let b ← putOpt b cryptoPubKeyName pub
  let b ← putOpt b cryptoPrivKeyName priv
  putOpt b cryptoEntropyKeyName ent

def fetchCryptoKeys (b : Bucket) : Except Err (Bytes × Option Bytes × Option Bytes) :=
  match bget b (key cryptoPubKeyName) with
  | none => .error .db
  | some pub => .ok (pub, bget b (key cryptoPrivKeyName), bget b (key cryptoEntropyKeyName))

def putU32 (b : Bucket) (name : String) (n : Nat) : Except Err Bucket := bput b (key name) (u32Bytes n)

/-- `val := b.Get(name); if val == nil { error }; binary.LittleEndian.Uint32(val)` -/
def fetchU32 (b : Bucket) (name : String) : Except Err Nat :=
  match bget b (key name) with
  | none => .error .db
  | some v => u32Of v

def putAccountUsage (b : Bucket) (account : Nat) : Except Err Bucket := putU32 b accountUsageName account
def fetchAccountUsage (b : Bucket) : Except Err Nat := fetchU32 b accountUsageName
def putCoinType (b : Bucket) (coin : Nat) : Except Err Bucket := putU32 b coinTypeName coin
def fetchCoinType (b : Bucket) : Except Err Nat := fetchU32 b coinTypeName

def putAccountRow (b : Bucket) (accountUsage acctType : Nat) (raw : Bytes) : Except Err Bucket :=
  bput b (u32Bytes accountUsage) (serializeAccountRow acctType raw)

def putAccountInfo (b : Bucket) (account : Nat) (pub priv : Bytes) : Except Err Bucket :=
  match serializeHDAccountKey pub priv with
  | none => .error .shape
  | some raw => do
    let b ← putAccountUsage b account
    putAccountRow b account accountMASS raw

def fetchAccountInfo (b : Bucket) (account : Nat) : Except Err (Bytes × Bytes) :=
  match bget b (u32Bytes account) with
  | none => .error .db
  | some data =>
    match deserializeAccountRow data with
    | .error e => .error e
    | .ok (t, raw) => if t = accountMASS then deserializeHDAccountKey raw else .error .unsupported

def putAccountID (b : Bucket) (id : Bytes) : Except Err Bucket := bput b id [0]
def fetchAccountID (b : Bucket) : List Bytes := b.map (·.1)
def deleteAccountID (b : Bucket) (id : Bytes) : Bucket := bdel b id

def putRemark (b : Bucket) (r : Bytes) : Except Err Bucket := bput b (key remarkName) r
def deleteRemark (b : Bucket) : Bucket := bdel b (key remarkName)
def fetchRemark (b : Bucket) : Option Bytes := bget b (key remarkName)

/-- putBranchPubKeys(b, internal, external): the external key is written first -/
def putBranchPubKeys (b : Bucket) (inKey exKey : Bytes) : Except Err Bucket := do
  let b ← bput b (key externalBranchPubKeyName) exKey
  bput b (key internalBranchPubKeyName) inKey

/-- fetchBranchPubKeys: (internal, external) -/
def fetchBranchPubKeys (b : Bucket) : Except Err (Bytes × Bytes) :=
  match bget b (key externalBranchPubKeyName) with
  | none => .error .db
  | some ex =>
    match bget b (key internalBranchPubKeyName) with
    | none => .error .db
    | some inn => .ok (inn, ex)

def childNumName (internal : Bool) : String := if internal then internalChildNumName else externalChildNumName

def initBranchChildNum (b : Bucket) : Except Err Bucket := do
  let b ← putU32 b externalChildNumName 0
  putU32 b internalChildNumName 0

def updateChildNum (b : Bucket) (internal : Bool) (next : Nat) : Except Err Bucket :=
  putU32 b (childNumName internal) next

/-- fetchChildNum: (internal, external) -/
def fetchChildNum (b : Bucket) : Except Err (Nat × Nat) :=
  match bget b (key externalChildNumName) with
  | none => .error .db
  | some ex =>
    match bget b (key internalChildNumName) with
    | none => .error .db
    | some inn => do
      let i ← u32Of inn
      let e ← u32Of ex
      pure (i, e)

/-- getChildNum: no nil check – an absent counter is `Uint32(nil)`, a panic -/
def getChildNum (b : Bucket) (internal : Bool) : Except Err Nat :=
  u32Of ((bget b (key (childNumName internal))).getD [])

def putEncryptedPubKey (b : Bucket) (branch index : Nat) (pk : Bytes) : Except Err Bucket :=
  bput b (pubKeyKey branch index) pk

def fetchEncryptedPubKey (b : Bucket) : Except Err (List (Nat × Nat × Bytes)) :=
  b.mapM (fun e => (pubKeyPath e.1).map (fun p => (p.1, p.2, e.2)))

/-! ## the exported keystore (addrmgr.go) -/

def hexDigit (n : Nat) : UInt8 := if n < 10 then UInt8.ofNat (48 + n) else UInt8.ofNat (87 + n)

/-- hex.EncodeToString, as the bytes of the (ASCII) string -/
def hexEnc : Bytes → Bytes
  | [] => []
  | b :: bs => hexDigit (b.toNat / 16) :: hexDigit (b.toNat % 16) :: hexEnc bs

def hexVal? (c : UInt8) : Option Nat :=
  if 48 ≤ c.toNat ∧ c.toNat ≤ 57 then some (c.toNat - 48)
  else if 97 ≤ c.toNat ∧ c.toNat ≤ 102 then some (c.toNat - 87)
  else if 65 ≤ c.toNat ∧ c.toNat ≤ 70 then some (c.toNat - 55)
  else none

/-- hex.DecodeString: odd length and non-hex characters are errors; both letter cases are accepted -/
def hexDec : Bytes → Option Bytes
  | [] => some []
  | [_] => none
  | a :: b :: rest =>
    match hexVal? a, hexVal? b, hexDec rest with
    | some x, some y, some r => some (UInt8.ofNat (x * 16 + y) :: r)
    | _, _, _ => none

/-- the Go structs Keystore / cryptoJSON / hdPath (strings as their bytes) -/
structure KeystoreJ where
  remarks : Bytes := []
  version : Nat := 0
  cipher : Bytes := []
  entropyEnc : Bytes := []
  kdf : Bytes := []
  pubParams : Bytes := []
  privParams : Bytes := []
  cryptoKeyPubEnc : Bytes := []
  cryptoKeyPrivEnc : Bytes := []
  cryptoKeyEntropyEnc : Bytes := []
  purpose : Nat := 0
  coin : Nat := 0
  account : Nat := 0
  externalChildNum : Nat := 0
  internalChildNum : Nat := 0
  deriving DecidableEq, Repr, Inhabited

/-- addrmgr.go `export(b, keyscope)`: the reads in source order (the first failing read decides the error) -/
def exportKs (b : Bucket) (purpose coin : Nat) : Except Err KeystoreJ := do
  let version := fetchVersion b
  let remark := fetchRemark b
  let ent := fetchEntropy b
  let usage ← fetchAccountUsage b
  let (inn, ex) ← fetchChildNum b
  let (_, priv) ← fetchMasterKeyParams b
  let (_, _, cent) ← fetchCryptoKeys b
  pure { remarks := remark.getD [], version := version, cipher := asc exportCipher,
         entropyEnc := hexEnc (ent.getD []), kdf := asc exportKDF,
         privParams := hexEnc (priv.getD []), cryptoKeyEntropyEnc := hexEnc (cent.getD []),
         purpose := purpose, coin := coin, account := usage, externalChildNum := ex, internalChildNum := inn }

/-! ### encoding/json of the struct (Keystore.Bytes) -/

def isCont (b : UInt8) : Bool := 128 ≤ b.toNat && b.toNat ≤ 191

/-- size of the valid UTF-8 sequence at the head (utf8.DecodeRuneInString), 0 if the head is invalid -/
def utf8Size : Bytes → Nat
  | [] => 0
  | b0 :: r =>
    let x := b0.toNat
    if x < 128 then 1
    else if 194 ≤ x ∧ x ≤ 223 then
      match r with
      | b1 :: _ => if isCont b1 then 2 else 0
      | _ => 0
    else if 224 ≤ x ∧ x ≤ 239 then
      match r with
      | b1 :: b2 :: _ =>
        let lo := if x = 224 then 160 else 128
        let hi := if x = 237 then 159 else 191
        if lo ≤ b1.toNat ∧ b1.toNat ≤ hi ∧ isCont b2 then 3 else 0
      | _ => 0
    else if 240 ≤ x ∧ x ≤ 244 then
      match r with
      | b1 :: b2 :: b3 :: _ =>
        let lo := if x = 240 then 144 else 128
        let hi := if x = 244 then 143 else 191
        if lo ≤ b1.toNat ∧ b1.toNat ≤ hi ∧ isCont b2 ∧ isCont b3 then 4 else 0
      | _ => 0
    else 0

/-- htmlSafeSet of encoding/json: printable ASCII (and DEL) except  "  &  <  >  \  -/
def htmlSafe (x : Nat) : Bool := 32 ≤ x && x < 128 && x ≠ 34 && x ≠ 38 && x ≠ 60 && x ≠ 62 && x ≠ 92

def escAscii (b : UInt8) : Bytes :=
  let x := b.toNat
  if htmlSafe x then [b]
  else if x = 92 ∨ x = 34 then [92, b]
  else if x = 8 then asc "\\b"
  else if x = 12 then asc "\\f"
  else if x = 10 then asc "\\n"
  else if x = 13 then asc "\\r"
  else if x = 9 then asc "\\t"
  else asc "\\u00" ++ [hexDigit (x / 16), hexDigit (x % 16)]

/-- the body of a JSON string as encoding/json writes it (HTML escaping on): invalid UTF-8 becomes � one
    byte at a time, U+2028 / U+2029 are escaped, everything else is copied -/
def escBody : Nat → Bytes → Bytes
  | 0, _ => []
  | _, [] => []
  | fuel + 1, b :: r =>
    if b.toNat < 128 then escAscii b ++ escBody fuel r
    else
      match utf8Size (b :: r) with
      | 0 => asc "\\ufffd" ++ escBody fuel r
      | n =>
        let ch := (b :: r).take n
        if ch = [226, 128, 168] then asc "\\u2028" ++ escBody fuel (r.drop (n - 1))
        else if ch = [226, 128, 169] then asc "\\u2029" ++ escBody fuel (r.drop (n - 1))
        else ch ++ escBody fuel (r.drop (n - 1))

def jstr (s : Bytes) : Bytes := [34] ++ escBody s.length s ++ [34]

/-- decimal digits, most significant first (fuel f suffices when n < 10^f) -/
def decDigits : Nat → Nat → List Nat
  | 0, _ => []
  | f + 1, n => if n < 10 then [n] else decDigits f (n / 10) ++ [n % 10]

/-- strconv.AppendUint(…, 10) -/
def jnat (n : Nat) : Bytes := (decDigits (n + 1) n).map (fun d => UInt8.ofNat (48 + d))

/-- a member value of the two inner objects: a string or an unsigned number -/
inductive FV where
  | s (b : Bytes)
  | n (v : Nat)
  deriving DecidableEq, Repr, Inhabited

/-- the zero value `omitempty` drops -/
def FV.isZero : FV → Bool
  | .s b => b.isEmpty
  | .n v => v == 0

def FV.text : FV → Bytes
  | .s b => jstr b
  | .n v => jnat v

/-- one struct field as encoding/json sees it: member name, omitempty, unsigned integer (with its largest value) or string -/
structure FSpec where
  name : String
  omitEmpty : Bool
  isNat : Bool
  max : Nat := 0
  deriving DecidableEq, Repr

/-- `"name":` preceded by a comma unless it is the first member written -/
def pfx (first : Bool) (name : String) : Bytes := (if first then [] else [44]) ++ [34] ++ asc name ++ [34, 58]

/-- the members of one object in struct order; an omitempty member with the zero value is skipped -/
def renderMembers : List (FSpec × FV) → Bool → Bytes
  | [], _ => []
  | (f, v) :: r, first =>
    if f.omitEmpty && v.isZero then renderMembers r first
    else pfx first f.name ++ v.text ++ renderMembers r false

def cryptoSpec : List FSpec :=
  [⟨"version", true, true, 255⟩, ⟨"cipher", true, false, 0⟩, ⟨"entropyEnc", false, false, 0⟩, ⟨"kdf", true, false, 0⟩,
   ⟨"pubParams", true, false, 0⟩, ⟨"privParams", false, false, 0⟩, ⟨"cryptoKeyPubEnc", true, false, 0⟩,
   ⟨"cryptoKeyPrivEnc", true, false, 0⟩, ⟨"cryptoKeyEntropyEnc", false, false, 0⟩]

def hdSpec : List FSpec :=
  [⟨"Purpose", false, true, 4294967295⟩, ⟨"Coin", false, true, 4294967295⟩, ⟨"Account", false, true, 4294967295⟩,
   ⟨"ExternalChildNum", false, true, 4294967295⟩, ⟨"InternalChildNum", false, true, 4294967295⟩]

def cryptoVals (k : KeystoreJ) : List FV :=
  [.n k.version, .s k.cipher, .s k.entropyEnc, .s k.kdf, .s k.pubParams, .s k.privParams, .s k.cryptoKeyPubEnc,
   .s k.cryptoKeyPrivEnc, .s k.cryptoKeyEntropyEnc]

def hdVals (k : KeystoreJ) : List FV :=
  [.n k.purpose, .n k.coin, .n k.account, .n k.externalChildNum, .n k.internalChildNum]

/-- json.Marshal(k) for the structs as declared: `{"remarks":…,"crypto":{…},"hdPath":{…}}` (names / order / omitempty /
    integer types are compared with the generated struct tags by `render_follows_tags`) -/
def render (k : KeystoreJ) : Bytes :=
  asc "{\"remarks\":" ++ jstr k.remarks ++ asc ",\"crypto\":{" ++ renderMembers (cryptoSpec.zip (cryptoVals k)) true ++
    asc "},\"hdPath\":{" ++ renderMembers (hdSpec.zip (hdVals k)) true ++ asc "}}"

/-- the (json name, omitempty) lists `render` uses, to be compared with the generated struct tags -/
def renderTags : List (String × Bool) × List (String × Bool) × List (String × Bool) :=
  ([("remarks", false), ("crypto", false), ("hdPath", false)],
   cryptoSpec.map (fun f => (f.name, f.omitEmpty)), hdSpec.map (fun f => (f.name, f.omitEmpty)))

/-! ### reading the canonical text back (the inverse of `render`; NOT a general JSON parser: no white space, members in
    struct order, only the escapes encoding/json writes) -/

def readLit (lit s : Bytes) : Option Bytes := if lit.isPrefixOf s then some (s.drop lit.length) else none

/-- UTF-8 of a code point below 2^16 -/
def utf8Enc (cp : Nat) : Bytes :=
  if cp < 128 then [UInt8.ofNat cp]
  else if cp < 2048 then [UInt8.ofNat (192 + cp / 64), UInt8.ofNat (128 + cp % 64)]
  else [UInt8.ofNat (224 + cp / 4096), UInt8.ofNat (128 + cp / 64 % 64), UInt8.ofNat (128 + cp % 64)]

/-- one unit of a string body: an escape or a raw byte; none at the closing quote, a control byte or an unknown escape -/
def readTok : Bytes → Option (Bytes × Bytes)
  | [] => none
  | c :: r =>
    if c = 92 then
      match r with
      | 117 :: a :: b :: c' :: d :: r' =>
        match hexVal? a, hexVal? b, hexVal? c', hexVal? d with
        | some x, some y, some z, some w =>
          let cp := ((x * 16 + y) * 16 + z) * 16 + w
          if 55296 ≤ cp ∧ cp < 57344 then none else some (utf8Enc cp, r')
        | _, _, _, _ => none
      | e :: r' =>
        if e = 34 ∨ e = 92 ∨ e = 47 then some ([e], r')
        else if e = 98 then some ([8], r')
        else if e = 102 then some ([12], r')
        else if e = 110 then some ([10], r')
        else if e = 114 then some ([13], r')
        else if e = 116 then some ([9], r')
        else none
      | [] => none
    else if c = 34 ∨ c.toNat < 32 then none else some ([c], r)

def readStrBody : Nat → Bytes → Option (Bytes × Bytes)
  | 0, _ => none
  | _ + 1, [] => none
  | f + 1, c :: r =>
    if c = 34 then some ([], r)
    else
      match readTok (c :: r) with
      | some (ch, r') => (readStrBody f r').map (fun p => (ch ++ p.1, p.2))
      | none => none

def readStr : Bytes → Option (Bytes × Bytes)
  | 34 :: r => readStrBody (r.length + 1) r
  | _ => none

def isDigit (c : UInt8) : Bool := 48 ≤ c.toNat && c.toNat ≤ 57

/-- a non-empty run of decimal digits with value ≤ max -/
def readNat (max : Nat) (s : Bytes) : Option (Nat × Bytes) :=
  let ds := s.takeWhile isDigit
  if ds.isEmpty then none
  else
    let v := ds.foldl (fun a c => a * 10 + (c.toNat - 48)) 0
    if v ≤ max then some (v, s.dropWhile isDigit) else none

def FSpec.zero (f : FSpec) : FV := if f.isNat then .n 0 else .s []

def readValue (f : FSpec) (s : Bytes) : Option (FV × Bytes) :=
  if f.isNat then (readNat f.max s).map (fun p => (.n p.1, p.2)) else (readStr s).map (fun p => (.s p.1, p.2))

def parseMembers : List FSpec → Bool → Bytes → Option (List FV × Bytes)
  | [], _, s => some ([], s)
  | f :: r, first, s =>
    match readLit (pfx first f.name) s with
    | some s1 =>
      match readValue f s1 with
      | some (v, s2) => (parseMembers r false s2).map (fun p => (v :: p.1, p.2))
      | none => none
    | none => if f.omitEmpty then (parseMembers r first s).map (fun p => (f.zero :: p.1, p.2)) else none

/-- the inverse of `render` on the text `render` writes -/
def parseKeystore (s : Bytes) : Option KeystoreJ := do
  let s ← readLit (asc "{\"remarks\":") s
  let (rem, s) ← readStr s
  let s ← readLit (asc ",\"crypto\":{") s
  let (cv, s) ← parseMembers cryptoSpec true s
  let s ← readLit (asc "},\"hdPath\":{") s
  let (hv, s) ← parseMembers hdSpec true s
  let s ← readLit (asc "}}") s
  if !s.isEmpty then none else
  match cv, hv with
  | [.n ver, .s cip, .s ent, .s kdf, .s pubp, .s privp, .s cpub, .s cpriv, .s cent], [.n pur, .n coin, .n acct, .n ex, .n inn] =>
    some { remarks := rem, version := ver, cipher := cip, entropyEnc := ent, kdf := kdf, pubParams := pubp, privParams := privp,
           cryptoKeyPubEnc := cpub, cryptoKeyPrivEnc := cpriv, cryptoKeyEntropyEnc := cent, purpose := pur, coin := coin,
           account := acct, externalChildNum := ex, internalChildNum := inn }
  | _, _ => none

/-- every byte sequence that is valid UTF-8 survives Marshal → Unmarshal; others are replaced by U+FFFD -/
def validUtf8 : Nat → Bytes → Bool
  | 0, bs => bs.isEmpty
  | _, [] => true
  | fuel + 1, b :: r =>
    match utf8Size (b :: r) with
    | 0 => false
    | n => validUtf8 fuel (r.drop (n - 1))

/-! ### what ImportKeystore / allocAddrMgrNamespace read from a parsed keystore file -/

inductive ImpErr where
  | coinType | acctType | hex | malformed | version
  deriving DecidableEq, Repr, Inhabited

def ImpErr.tok : ImpErr → String
  | .coinType => "err-cointype" | .acctType => "err-accttype" | .hex => "err-hex"
  | .malformed => "err-malformed" | .version => "err-version"

/-- the byte-level content an import works from (decryption, which sits between these steps, is C05's model) -/
structure ImportView where
  params : Params        -- snacl parameters of the master private key (Unmarshal of hex(privParams))
  cEntEnc : Bytes        -- ciphertext of the entropy crypto key
  entEnc : Bytes         -- ciphertext of the entropy
  version : Nat
  remarks : Bytes
  account : Nat
  externalHint : Nat     -- hdPath.ExternalChildNum, 0 replaced by 1
  internalHint : Nat
  deriving DecidableEq, Repr, Inhabited

/-- ImportKeystore up to and including `masterPrivKey.Unmarshal`: coin / account checks, hex, parameter length -/
def importParams (k : KeystoreJ) (netCoin : Nat) : Except ImpErr Params :=
  if k.coin ≠ netCoin then .error .coinType
  else if k.account ≠ MW.Gen.Keystore.walletUsage then .error .acctType
  else
    match hexDec k.privParams with
    | none => .error .hex
    | some pp =>
      match unmarshal pp with
      | .error _ => .error .malformed
      | .ok params => .ok params

/-- … and the rest of the decoding (DeriveKey and the two decryptions sit in between: C05's model) -/
def importView (k : KeystoreJ) (netCoin : Nat) : Except ImpErr ImportView :=
  match importParams k netCoin with
  | .error e => .error e
  | .ok params =>
    match hexDec k.cryptoKeyEntropyEnc, hexDec k.entropyEnc with
    | some ce, some ee =>
      if k.version ≠ 0 then .error .version
      else .ok { params := params, cEntEnc := ce, entEnc := ee, version := k.version, remarks := k.remarks,
                 account := k.account, externalHint := if k.externalChildNum = 0 then 1 else k.externalChildNum,
                 internalHint := k.internalChildNum }
    | _, _ => .error .hex

end MW.Model.KsCodec
