/-
  MODEL, part 3 (round 4): what callers of masswallet/db/ldb/leveldb.go KEEP across operations.

  * bucket handles (`*levelBucket` = {tx, name, path, pathLen, depth}): a method called on a kept
    handle does NOT look the bucket up again – `dataOpVia` is `dataOp` with `navFrom tx handle rel`
    in place of `nav tx path`;
  * `BucketMeta` objects (`GetBucketMeta`: `Paths() = strings.Split(path, "_")`, `Depth() =
    Atoi(paths[0])`, `Name() = paths[Depth()]`), which outlive transactions, and
    `transaction.FetchBucket(meta)` with the per-transaction `cache map[BucketMeta]*levelBucket`
    (keyed by the meta OBJECT: a register of the caller here; re-assigning a register makes the old
    object unreachable, which the model renders by dropping its cache entries);
  * the read transaction handle, and bucket handles obtained through it, used AFTER its Rollback:
    the goleveldb snapshot is released, `snap.Get` / `snap.NewIterator` answer ErrSnapshotReleased.

  Not modelled (no defined behaviour in the code, see notes/C11.md round 4): a WRITE transaction
  handle used after Commit / Rollback (there is no closed flag: reads go on against the live store
  overlaid with the dead batch, writes land in the process-wide `innerBatch` of whichever transaction
  is open next, a second Commit / Rollback unlocks `muTr` again = Go runtime fatal error or the
  release of another writer's lock).
-/
import MW.Model.KVSys
import MW.Base.AMap
namespace MW.Model.KV
open MW MW.KV

/-! ### BucketMeta, FetchBucket -/

/-- levelBucket.GetBucketMeta().Paths() -/
def Bucket.metaPaths (b : Bucket) : List Bytes := split b.path

/-- levelBucketMeta.Depth(): `depth, _ := strconv.Atoi(m.paths[0])` (decimal numerals only are in
    scope: metas come from GetBucketMeta) -/
def metaDepth (paths : List Bytes) : Nat := Dec.ofDigits (paths.headD [])

/-- levelBucketMeta.Name(): `m.paths[m.Depth()]` -/
def metaName (paths : List Bytes) : Bytes := paths.getD (metaDepth paths) []

/-- transaction.FetchBucket(meta), `cache` = tx.cache, `m` = the identity of the meta object:
      bkt, ok := tx.cache[meta]
      if ok && !tx.readOnly { if _, deleted := tx.b.Get(indexKey(bkt.path)); deleted { delete(tx.cache, meta); ok = false } }
      if !ok { …bucketExists(indexKey(join(meta.Paths()))) … tx.cache[meta] = bkt }
    (the second line is the repair D44 (fixes/D44c11.patch): a bucket cached earlier and deleted since by this very
    transaction must not be handed out again) -/
def Tx.fetchMiss (tx : Tx) (cache : AMap.T Nat Bucket) (m : Nat) (paths : List Bytes) :
    Option Bucket × AMap.T Nat Bucket :=
  match tx.fetchBucket paths (metaName paths) (metaDepth paths) with
  | none => (none, AMap.erase cache m)
  | some bkt => (some bkt, AMap.put cache m bkt)

def Tx.fetchCached (tx : Tx) (cache : AMap.T Nat Bucket) (m : Nat) (paths : List Bytes) :
    Option Bucket × AMap.T Nat Bucket :=
  match AMap.get cache m with
  | none => tx.fetchMiss cache m paths
  | some bkt =>
    if !tx.readOnly && (tx.b.get (indexKey bkt.path)).2 then tx.fetchMiss cache m paths   -- evicted, looked up again
    else (some bkt, cache)

/-! ### data operations through a kept handle (paths relative to the handle) -/

def dataOpVia (tx : Tx) (hb : Bucket) : Op → Obs × Tx
  | .create _ rel =>
    match rel.getLast? with
    | none => (.badop, tx)
    | some name =>
      match navFrom tx hb rel.dropLast with
      | none => (.nobucket, tx)
      | some b => match b.newBucket tx name with
        | .ok (tx', _) => (.ok, tx')
        | .error e => (.err e, tx)
  | .delb _ rel =>
    match rel.getLast? with
    | none => (.badop, tx)
    | some name =>
      match navFrom tx hb rel.dropLast with
      | none => (.nobucket, tx)
      | some b => match b.deleteBucket tx name with
        | .ok tx' => (.ok, tx')
        | .error e => (.err e, tx)
  | .has _ rel => (.bool (navFrom tx hb rel).isSome, tx)
  | .names _ rel =>
    match navFrom tx hb rel with
    | none => (.nobucket, tx)
    | some b => (obsOfExcept (b.bucketNames tx) .names, tx)
  | .put _ rel k v =>
    match navFrom tx hb rel with
    | none => (.nobucket, tx)
    | some b => match b.put tx k v with
      | .ok tx' => (.ok, tx')
      | .error e => (.err e, tx)
  | .get _ rel k =>
    match navFrom tx hb rel with
    | none => (.nobucket, tx)
    | some b => (.val (b.get tx k), tx)
  | .del _ rel k =>
    match navFrom tx hb rel with
    | none => (.nobucket, tx)
    | some b => match b.delete tx k with
      | .ok tx' => (.ok, tx')
      | .error e => (.err e, tx)
  | .clear _ rel =>
    match navFrom tx hb rel with
    | none => (.nobucket, tx)
    | some b => match b.clear tx with
      | .ok tx' => (.ok, tx')
      | .error e => (.err e, tx)
  | .pfx _ rel k =>
    match navFrom tx hb rel with
    | none => (.nobucket, tx)
    | some b => (.entries (b.getByPrefix tx k), tx)
  | .iter _ rel s l sc =>
    match navFrom tx hb rel with
    | none => (.nobucket, tx)
    | some b => (.steps (runScript b (b.newIterator tx s l) sc), tx)
  | _ => (.badop, tx)

/-! ### a read transaction after its Rollback: `tx.snap.Release()` was called, so `tx.r.Get`
    answers ErrSnapshotReleased and `tx.r.NewIterator` an empty iterator carrying that error -/

/-- through the transaction handle: `bucketExists` returns the error, so TopLevelBucket is nil for
    every name; transaction.BucketNames walks an empty iterator and returns `iter.Error()`;
    CreateTopLevelBucket / DeleteTopLevelBucket answer before touching the reader -/
def deadOp : Op → Obs
  | .create _ p =>
    match p.getLast? with
    | none => .badop
    | some _ => if p.length == 1 then .err .writeNotAllowed else .nobucket
  | .delb _ p =>
    match p.getLast? with
    | none => .badop
    | some _ => if p.length == 1 then .err .notSupported else .nobucket
  | .has _ p => if p.length == 0 then .badop else .bool false
  | .names _ p => if p.length == 0 then .err .released else .nobucket
  | .put _ p _ _ | .get _ p _ | .del _ p _ | .clear _ p | .pfx _ p _ | .iter _ p _ _ _ =>
    if p.length == 0 then .badop else .nobucket
  | _ => .badop

/-- through a bucket handle `hb` of the ended read transaction (`rel` relative to it): sub-bucket
    lookups fail (`Bucket` returns nil on the error), write methods answer ErrWriteNotAllowed first
    (`tx.readOnly`), Get returns `(nil, nil)` for an empty key (innerKey fails before the read) and
    the snapshot error otherwise, GetByPrefix / BucketNames / an iterator report the error -/
def deadViaOp : Op → Obs
  | .create _ rel | .delb _ rel =>
    match rel.getLast? with
    | none => .badop
    | some _ => if rel.length == 1 then .err .writeNotAllowed else .nobucket
  | .has _ rel => .bool (rel.length == 0)
  | .put _ rel _ _ | .del _ rel _ | .clear _ rel => if rel.length == 0 then .err .writeNotAllowed else .nobucket
  | .get _ rel k => if rel.length == 0 then (if k.length == 0 then .val none else .err .released) else .nobucket
  | .names _ rel | .pfx _ rel _ | .iter _ rel _ _ _ => if rel.length == 0 then .err .released else .nobucket
  | _ => .badop

/-! ### the system with kept handles -/

/-- what the caller and the driver keep per transaction -/
structure TxH where
  regs : AMap.T Nat Bucket := []      -- bucket handles the caller holds (register ↦ *levelBucket)
  cache : AMap.T Nat Bucket := []     -- transaction.cache (meta object ↦ *levelBucket)

structure SysX where
  base : Sys := {}
  metas : AMap.T Nat (List Bytes) := []   -- BucketMeta objects the caller holds (register ↦ Paths()); they outlive transactions
  wh : TxH := {}                          -- of the open write transaction
  rh : TxH := {}                          -- of the open read transaction
  dead : Option TxH := none               -- of the read transaction ended last (handles still held by the caller)

/-- the transaction object of a slot, as `Sys.step` builds it for a data operation -/
def Sys.txOf (s : Sys) : Slot → Option Tx
  | .w => s.w.map fun bt => { readOnly := false, db := s.db, b := bt }
  | .r => s.reader.map fun snap => { readOnly := true, db := snap }

def SysX.txOf (s : SysX) (sl : Slot) : Option Tx := s.base.txOf sl

def SysX.hOf (s : SysX) : Slot → TxH
  | .w => s.wh
  | .r => s.rh

def SysX.setH (s : SysX) (sl : Slot) (h : TxH) : SysX :=
  match sl with
  | .w => { s with wh := h }
  | .r => { s with rh := h }

/-- a data operation through handle `hb`, exactly as `Sys.step` runs one through navigation -/
def Sys.stepVia (s : Sys) (hb : Bucket) (op : Op) : Sys × Obs :=
  match slotOf op with
  | none => (s, .badop)
  | some .w =>
    match s.w with
    | none => (s, .notx)
    | some bt => let (o, tx') := dataOpVia { readOnly := false, db := s.db, b := bt } hb op; ({ s with w := some tx'.b }, o)
  | some .r =>
    match s.reader with
    | none => (s, .notx)
    | some snap => (s, (dataOpVia { readOnly := true, db := snap } hb op).1)

def optSet (t : AMap.T Nat Bucket) (h : Nat) : Option Bucket → AMap.T Nat Bucket
  | none => AMap.erase t h
  | some b => AMap.put t h b

def SysX.step (s : SysX) : OpX → SysX × Obs
  | .base op =>
    let r := s.base.step op
    let s' := { s with base := r.1 }
    match op with
    | .beginW => (if s.base.w.isSome then s' else { s' with wh := {} }, r.2)           -- a new transaction object: empty cache
    | .beginR => (if s.base.reader.isSome then s' else { s' with rh := {} }, r.2)
    | .endR => (if s.base.reader.isSome then { s' with dead := some s.rh, rh := {} } else s', r.2)
    | _ => (s', r.2)
  | .getMeta sl m p =>
    match s.txOf sl with
    | none => (s, .notx)
    | some tx =>
      match nav tx p with
      | none => (s, .nobucket)
      | some b =>
        -- the register now holds a NEW object: cache entries of the old one are unreachable
        ({ s with metas := AMap.put s.metas m b.metaPaths,
                  wh := { s.wh with cache := AMap.erase s.wh.cache m },
                  rh := { s.rh with cache := AMap.erase s.rh.cache m } }, .ok)
  | .fetch sl h m =>
    match s.txOf sl with
    | none => (s, .notx)
    | some tx =>
      match AMap.get s.metas m with
      | none => (s, .badop)
      | some paths =>
        let th := s.hOf sl
        let r := tx.fetchCached th.cache m paths
        (s.setH sl { regs := optSet th.regs h r.1, cache := r.2 }, .bool r.1.isSome)
  | .keep sl h p =>
    match s.txOf sl with
    | none => (s, .notx)
    | some tx =>
      let th := s.hOf sl
      let r := nav tx p
      (s.setH sl { th with regs := optSet th.regs h r }, .bool r.isSome)
  | .via h op =>
    match slotOf op with
    | none => (s, .badop)
    | some sl =>
      match s.txOf sl with
      | none => (s, .notx)
      | some _ =>
        match AMap.get (s.hOf sl).regs h with
        | none => (s, .nobucket)
        | some hb => let r := s.base.stepVia hb op; ({ s with base := r.1 }, r.2)
  | .dead op =>
    match s.dead with
    | none => (s, .notx)
    | some _ => (s, if (slotOf op).isSome then deadOp op else .badop)
  | .deadVia h op =>
    match s.dead with
    | none => (s, .notx)
    | some th =>
      match AMap.get th.regs h with
      | none => (s, .nobucket)
      | some _ => (s, if (slotOf op).isSome then deadViaOp op else .badop)

def runX (s : SysX) : List OpX → List Obs
  | [] => []
  | op :: rest => let r := s.step op; r.2 :: runX r.1 rest

end MW.Model.KV
