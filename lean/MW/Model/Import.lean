/-
  MODEL of wallet import (rescan worker) — C07.

  Go code followed (masswallet/…):
    ntfnshandler.go   asyncImport (one batch), filterTxForImporting, the expiredMempool update
    txmgr/txstore.go  AddRelevantTxForImporting, insertMinedTxForImporting
    wallet.go         ImportWallet / ImportWalletWithMnemonic (status hand-over), UseWallet / CheckReady
    keystore/manager.go createManagerKeyScope (address discovery by gap-limit scan)
  on top of MW.Model.Ledger (updateMinedBalance, addCredits, removeDoubleSpends, deleteUnminedCredits are
  the very functions the live follower uses, as in the Go code).

  One batch is ONE database transaction: an error returns no store (mwdb.Update rolled back).
  The batch is written as  plan (pure: which transactions, in which order)  then  fold (apply them)
  so that the schedule can be reasoned about separately from the per-transaction ledger update.
-/
import MW.Model.Ledger
import MW.Gen.Handler
namespace MW.Model.Import
open MW MW.Model.Ledger

/-- error classes of asyncImport as the worker distinguishes them -/
inductive ImpErr
  | continuable        -- ErrImportingContinuable: retry the batch later
  | revoked            -- ErrMaybeChainRevoked
  | creditNotFound     -- txmgr.ErrUnexpectedCreditNotFound: the worker gives the import up
  | noWallet           -- keystore not found
  | other
  deriving DecidableEq, Repr, Inhabited

def ofLedgerErr : Err → ImpErr
  | .creditNotFound => .creditNotFound
  | .chainRevoked => .revoked
  | _ => .other

-- ------------------------------------------------------------------ uint64 cursor arithmetic

/-- WalletStatus.SyncedHeight as the uint64 the code computes with (done = WalletSyncedDone) -/
def cursorU64 (st : WStatus) : Nat :=
  match st.synced with
  | some h => h
  | none => Gen.Handler.walletSyncedDone

def addU64 (a b : Nat) : Nat := (a + b) % 2^64

/-- `stop := SyncedHeight + batch; if stop > best { stop = best }` -/
def batchStop (batch cur best : Nat) : Nat :=
  let stop := addU64 cur batch
  if stop > best then best else stop

/-- the status written at the end of a successful batch -/
def statusAfter (ws : WStatus) (stop best : Nat) : WStatus :=
  { ws with synced := if stop = best then none else some stop }

-- ------------------------------------------------------------------ node side (ifc.ChainFetcher)

/-- chainFetcher.FetchLastTxUntilHeight: the last transaction with that id at or below `height` -/
def fetchTxUntil (n : Node) (id : TxId) (height : Nat) : Option Tx :=
  (n.chain.take (height + 1)).reverse.findSome? (fun b => b.txs.find? (fun t => t.id = id))

/-- does `tx` (in a block at `height`) touch one of the script hashes?  This is what the node's
    script-hash index records for a transaction: every output script hash and the script hash of
    every previous output it spends (blockchain.AddrIndexer.indexBlockAddrs).  The index does NOT parse
    the script the way the wallet does: an output the wallet reads as unsupported (`Cls.raw`) but which
    carries one of the script hashes (a binding template whose target has no address form) IS indexed;
    a script without any script hash has an address outside every keystore (the drivers use "raw"). -/
def touches (n : Node) (addrs : List Addr) (height : Nat) (tx : Tx) : Bool :=
  tx.outs.any (fun o => addrs.contains o.addr) ||
  (!tx.cb && tx.ins.any (fun i =>
    match fetchTxUntil n i.tx height with
    | some pt => match pt.outs[i.idx]? with
      | some o => addrs.contains o.addr
      | none => false
    | none => false))

/-- FetchScriptHashRelatedTx restricted to one height: (position in block, tx), in block order -/
def relatedAt (n : Node) (addrs : List Addr) (height : Nat) : List (Nat × Tx) :=
  match n.blockAt height with
  | some b => (b.txs.zipIdx.filter (fun p => touches n addrs height p.1)).map (fun p => (p.2, p.1))
  | none => []

-- ------------------------------------------------------------------ filterTxForImporting

/-- is the address managed by the importing keystore?  (importingAddrMgr.Address) -/
def mine (own : Own) (w : Wid) (a : Addr) : Option Bool :=
  match AMap.get own a with
  | some (w', ch) => if w' = w then some ch else none
  | none => none

/-- one input of filterTxForImporting: previous output looked up on the node's chain up to the block's
    height; `none` = not relevant -/
def relIn1 (n : Node) (own : Own) (w : Wid) (height : Nat) (p : Inp × Nat) : Except ImpErr (Option Rel) :=
  match fetchTxUntil n p.1.tx height with
  | none => .error .continuable                 -- "previous transaction not found"
  | some pt =>
    match pt.outs[p.1.idx]? with
    | none => .error .other
    | some o =>
      if o.cls = .raw then .ok none              -- ErrUnsupportedScript: continue
      else match mine own w o.addr with
        | some ch => .ok (some { index := p.2, out := o, wallet := w, change := ch })
        | none => .ok none

def relOut1 (own : Own) (w : Wid) (p : Out × Nat) : Option Rel :=
  if p.1.cls = .raw then none
  else match mine own w p.1.addr with
    | some ch => some { index := p.2, out := p.1, wallet := w, change := ch }
    | none => none

/-- rec.HasBindingIn / HasBindingOut are overwritten by every relevant entry: the last one decides -/
def lastBinding (rels : List Rel) : Bool := (rels.getLast?.map (fun r => r.out.cls.isBinding)).getD false

/-- filterTxForImporting: relevance against the importing keystore only (no readiness test). -/
def filterTxForImporting (n : Node) (w : Wid) (own : Own) (tx : Tx) (height : Nat) :
    Except ImpErr (Option TxRec) := do
  let ins ← if tx.cb then pure [] else tx.ins.zipIdx.mapM (relIn1 n own w height)
  let relIn := ins.filterMap id
  let relOut := tx.outs.zipIdx.filterMap (relOut1 own w)
  if relIn.isEmpty && relOut.isEmpty then return none
  if lastBinding relIn && lastBinding relOut then throw .other      -- ErrBothBinding
  pure (some { tx := tx, relIn := relIn, relOut := relOut,
               hasBindingIn := lastBinding relIn, hasBindingOut := lastBinding relOut })

-- ------------------------------------------------------------------ txstore.go, importing insert path

inductive InsErr | chainReorg | ledger (e : Err)

/-- insertIntoBlockRecord: put `id` (block position `pos`) in front of the first recorded transaction
    that comes later in the block, so that the record stays in block order -/
def insertByPos (s : Store) (blk : BlockMeta) (id : TxId) (pos : Nat) : List TxId → List TxId
  | [] => [id]
  | t :: rest =>
    match AMap.get s.txrecs (t, blk) with
    | some loc => if loc.2 > pos then id :: t :: rest else t :: insertByPos s blk id pos rest
    | none => t :: insertByPos s blk id pos rest

/-- insertMinedTxForImporting, first part: merge the transaction into the block / tx records — reorg detection by
    the stored block hash, block-position insertion, nothing written when the tx record exists already -/
def recordForImporting (s : Store) (tr : TxRec) (blk : BlockMeta) : Except InsErr Store :=
  if (AMap.get s.txrecs (tr.tx.id, blk)).isSome then
    match AMap.get s.blocks blk.height with
    | none => .error (.ledger (.other "tx record exists but block record not"))
    | some (h, _) => if h ≠ blk.hash then .error .chainReorg else .ok s
  else
    match AMap.get s.blocks blk.height with
    | none =>
      .ok { s with blocks := AMap.put s.blocks blk.height (blk.hash, [tr.tx.id]),
                   txrecs := AMap.put s.txrecs (tr.tx.id, blk) tr.loc }
    | some (h, txs) =>
      if h ≠ blk.hash then .error .chainReorg
      else .ok { s with blocks := AMap.put s.blocks blk.height (h, insertByPos s ⟨blk.height, h⟩ tr.tx.id tr.loc.2 txs),
                        txrecs := AMap.put s.txrecs (tr.tx.id, blk) tr.loc }

/-- insertMinedTxForImporting: merge into the block / tx records, spend the credits the relevant inputs consume,
    then — like insertMinedTx — let the mined transaction supersede its unmined record (`unpendMined`) and remove
    unmined double spends. -/
def insertMinedTxForImporting (own : Own) (s : Store) (bals : AMap.T Wid Nat) (tr : TxRec) (blk : BlockMeta) :
    Except InsErr (Store × AMap.T Wid Nat) :=
  match recordForImporting s tr blk with
  | .error e => .error e
  | .ok s =>
    match updateMinedBalance s bals tr blk with
    | .error e => .error (.ledger e)
    | .ok (s, bals) => .ok (removeDoubleSpends own (unpendMined s tr.tx) tr, bals)

/-- AddRelevantTxForImporting -/
def addRelevantTxForImporting (p : Params) (own : Own) (s : Store) (bals : AMap.T Wid Nat) (tr : TxRec)
    (blk : BlockMeta) : Except InsErr (Store × AMap.T Wid Nat) := do
  let (s, bals) ← insertMinedTxForImporting own s bals tr blk
  match addCredits p s bals tr blk with
  | .ok r => pure r
  | .error e => throw (.ledger e)

-- ------------------------------------------------------------------ asyncImport

/-- the addresses the importing keystore manages (addrmgr.ManagedAddresses) -/
def managed (own : Own) (w : Wid) : List Addr :=
  own.filterMap (fun e => if e.2.1 = w then some e.1 else none)

/-- heights of a batch: `start ≤ h < stop+1` -/
def batchHeights (start stop : Nat) : List Nat :=
  (List.range (stop + 1 - start)).map (· + start)

/-- one planned insertion: block, position, transaction -/
structure Item where
  blk : BlockMeta
  pos : Nat
  tx : Tx
  deriving Repr, Inhabited

/-- THE PLAN of a batch: what the address index yields for heights `start … stop`, ascending, in block
    order (FetchScriptHashRelatedTx, result.Heights(), txlocs sorted by offset). -/
def plan (n : Node) (addrs : List Addr) (start stop : Nat) : List Item :=
  (batchHeights start stop).flatMap (fun h =>
    match n.blockAt h with
    | some b => (relatedAt n addrs h).map (fun p => ⟨⟨h, b.id⟩, p.1, p.2⟩)
    | none => [])

/-- apply one planned item (filter + insert) inside the batch transaction.  An indexed transaction that
    `filterTxForImporting` finds irrelevant (`rec == nil`: every indexed output / previous output carries a
    script the wallet does not support) is skipped (`continue`, fix D41). -/
def applyItem (c : Ctx) (w : Wid) (acc : Store × AMap.T Wid Nat) (it : Item) :
    Except ImpErr (Store × AMap.T Wid Nat) := do
  match ← filterTxForImporting c.node w c.own it.tx it.blk.height with
  | none => pure acc
  | some tr =>
    let tr := { tr with loc := (it.blk.hash, it.pos) }
    match addRelevantTxForImporting c.p c.own acc.1 acc.2 tr it.blk with
    | .ok r => pure r
    | .error .chainReorg => throw .continuable
    | .error (.ledger e) => throw (ofLedgerErr e)

/-- was the item recorded (`added = append(added, …)`), i.e. not skipped as irrelevant?  `filterTxForImporting`
    reads the node and the keystore only, so this can be recomputed after the fold. -/
def itemRelevant (c : Ctx) (w : Wid) (it : Item) : Bool :=
  match filterTxForImporting c.node w c.own it.tx it.blk.height with
  | .ok (some _) => true
  | _ => false

/-- which heights of the plan enter the volatile expired-mempool map: every indexed height not older than
    MaxMemPoolExpire gets an entry (`heightAdded[height] = added`, possibly empty), holding the transactions
    that were recorded (`rel`) -/
def expiredUpdate (rel : Item → Bool) (best : Nat) (items : List Item) (exp : AMap.T Nat (List TxId)) :
    AMap.T Nat (List TxId) :=
  items.foldl (fun m it =>
    let h := it.blk.height
    if best > Gen.Handler.maxMemPoolExpire && h ≤ best - Gen.Handler.maxMemPoolExpire then m
    else
      let old := (AMap.get m h).getD []
      AMap.put m h (if !rel it || old.contains it.tx.id then old else old ++ [it.tx.id])) exp

/-- what a batch reads before it scans: status, balance, cursor, the follower's tip, the range -/
structure BatchHead where
  ws : WStatus
  bal : Nat
  cur : Nat          -- the cursor as the uint64 the code computes with
  best : Nat         -- h.bestBlock.Height
  stop : Nat
  start : Nat
  deriving Repr

/-- does the node still have, at `height`, the block the follower is synced to?  (FetchBlockShaByHeight
    against syncStore.SyncedBlock) -/
def agrees (c : Ctx) (s : Store) (height : Nat) : Bool :=
  match c.node.blockAt height, AMap.get s.sync height with
  | some b, some h => b.id == h
  | _, _ => false

/-- the head of asyncImport: keystore, status, balance, `stop`, and the followed-chain check -/
def batchHead (batch : Nat) (c : Ctx) (w : Wid) (s : Store) (v : Vol) : Except ImpErr BatchHead :=
  if !c.wallets.contains w then .error .noWallet                     -- GetAddrManagerByAccountID
  else match AMap.get s.status w with
    | none => .error .other                                          -- GetWalletStatus fails
    | some ws =>
      match AMap.get s.balance w with
      | none => .error .other                                        -- GrossBalance: ErrNotFound
      | some bal =>
        -- the node must still have, at the top of the range, the block the follower is synced to
        if batchStop batch (cursorU64 ws) v.best.height > cursorU64 ws && !agrees c s (batchStop batch (cursorU64 ws) v.best.height)
        then .error .continuable
        else .ok ⟨ws, bal, cursorU64 ws, v.best.height, batchStop batch (cursorU64 ws) v.best.height, addU64 (cursorU64 ws) 1⟩

/-- UpdateMinedBalances + PutWalletStatus at the end of the batch transaction -/
def finishBatch (w : Wid) (hd : BatchHead) (s : Store) (bals : AMap.T Wid Nat) : Store :=
  let s := { s with balance := bals.foldl (fun (m : AMap.T Wid Nat) (e : Wid × Nat) => AMap.put m e.1 e.2) s.balance }
  { s with status := AMap.put s.status w (statusAfter hd.ws hd.stop hd.best) }

/-- asyncImport: ONE batch.  `batch` is the literal 1000 of the code (MW.Gen.Handler.importBatch). -/
def importStep (batch : Nat) (c : Ctx) (w : Wid) (s : Store) (v : Vol) : Except ImpErr (Store × Vol × Bool) :=
  match batchHead batch c w s v with
  | .error e => .error e
  | .ok hd =>
    let items := plan c.node (managed c.own w) hd.start hd.stop
    match items.foldlM (applyItem c w) (s, [(w, hd.bal)]) with
    | .error e => .error e
    | .ok (s', bals) =>
      .ok (finishBatch w hd s' bals, { v with expired := expiredUpdate (itemRelevant c w) hd.best items v.expired }, decide (hd.stop = hd.best))

-- ------------------------------------------------------------------ wallet.go

inductive UseRes | ok | unready | err
  deriving DecidableEq, Repr

/-- UseWallet: CheckReady (status must exist, be done and not flagged removed), then the keystore -/
def useWallet (s : Store) (keystores : List Wid) (w : Wid) : UseRes :=
  match AMap.get s.status w with
  | none => .err
  | some st =>
    if st.synced.isNone && !st.removed then
      (if keystores.contains w then .ok else .err)
    else .unready

/-- ImportWallet / ImportWalletWithMnemonic, store part: balance 0, status (cursor 0, or done when the
    keystore has no address), one standard address record per managed address. -/
def importWalletStore (s : Store) (w : Wid) (addrs : List Addr) : Store :=
  let s := { s with balance := AMap.put s.balance w 0 }
  let s := { s with status := AMap.put s.status w ⟨if addrs.isEmpty then none else some 0, false⟩ }
  addrs.foldl (fun s a => { s with addrs := AMap.put s.addrs (w, false, a) 0 }) s

/-- createManagerKeyScope, external branch: scan index i while i < max(next+gap, ext+gap); `next` follows
    the last used index; the keystore keeps indexes below max(next, ext).  `used i` = the node's
    script-hash index knows the i-th address. Returns how many addresses the imported keystore has. -/
def discover (used : Nat → Bool) (ext gap fuel : Nat) : Nat :=
  let ext := if ext = 0 then 1 else ext
  let rec go (i next fuel : Nat) : Nat :=
    match fuel with
    | 0 => next
    | fuel + 1 =>
      if i < next + gap || i < ext + gap then go (i + 1) (if used i then i + 1 else next) fuel
      else next
  let next := go 0 0 fuel
  if next < ext then ext else next

end MW.Model.Import
