/-
  Non-vacuity of `trace_refines` / `notify_refines`: the reorganising notification of PendHistNotifyEx (wallet chain
  G-B1-B2, follower's best block B2, node on G-B1-B2x, notify B2x) meets every hypothesis — `HInvC`, best block = tip, the
  trace (one disconnect, connect B2x), the decomposition c0 = G-B1 / old = [B2], the domain `HOK` of the two events and
  `NotifyDom` — so the store the notification returns represents ONE `onChainMoved (G-B1-B2) (G-B1-B2x)` of [T2] = {T2, T1}.
-/
import MW.Lemmas.PendHistNotifySpec
import MW.Lemmas.PendHistComposeEx
namespace MW.Lemmas.PendHist.NotifySpec
open MW MW.Model.Ledger MW.Spec.Pending MW.Lemmas.LedgerPending MW.Lemmas.Ledger MW.Lemmas.PendHist
open MW.Lemmas.PendHist.Cred MW.Lemmas.PendHist.CredRb MW.Lemmas.PendHist.Notify MW.Lemmas.PendHist.Compose

theorem exNotifyDomV : NotifyDom exE.env [exG, exB1] [exB2] [exB2x] exV.sp.pend := by
  rw [exPendV]; exact exNotifyDom

/-- the conclusion of `trace_refines` on the instance -/
theorem exRefines :
    Inv (exE.ctx exV.node) exS7 ([exG, exB1] ++ [exB2x]) ∧
    PendRel exRankH exS7 (onChainMoved exE.env ([exG, exB1] ++ [exB2]) ([exG, exB1] ++ [exB2x]) exV.sp.pend) ∧
    CredRel exE.env exS7 (onChainMoved exE.env ([exG, exB1] ++ [exB2]) ([exG, exB1] ++ [exB2x]) exV.sp.pend) :=
  trace_refines exV exHInvCV exBestV exTraceD exTraceC [exG, exB1] [exB2] exChainV rfl exDomainV exNotifyDomV

/-- … where the one-shot list is {T2, T1} and `exS7` is the store `processBlock` returns (same pending records) -/
theorem exRefines_obs :
    (onChainMoved exE.env ([exG, exB1] ++ [exB2]) ([exG, exB1] ++ [exB2x]) exV.sp.pend).map (·.id) = ["T2", "T1"] ∧
    exS7.pending.map (·.1) = ["T1", "T2"] ∧
    (processBlock (exE.ctx exV.node) exV.s exV.v exB2x).1.pending.map (·.1) = ["T1", "T2"] := by decide

end MW.Lemmas.PendHist.NotifySpec
